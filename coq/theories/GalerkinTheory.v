(** Theorems about the executable Galerkin model (GalerkinModel.v), for every field with a compatible
    total order ([sp_laws] of SplineTheory.v), every degree, every number of cells and points. *)
From Coq Require Import List Arith Lia ZArith Bool Field Ring Setoid.
Import ListNotations.
From PGV Require Import BasisCoxDeBoor FindSpan CubicUniform Sums SplineModel SplineTheory QuadTheory EndValueTheory MarsdenTheory GalerkinModel.

Section GkTheory.
Variable F : Type.
Variable K : sp_ops F.
Hypothesis HK : sp_laws K.
Add Field GKF : (spl_field K HK).
Notation "x + y" := (spadd K x y). Notation "x * y" := (spmul K x y).
Notation "x - y" := (spsub K x y). Notation "x / y" := (spdiv K x y).
Notation "0" := (sp0 K). Notation "1" := (sp1 K).
Notation gsum := (Sums.sumn F 0 (spadd K)).

(* ---------------------------------------------------------------------------------------- *)
(** * finite sums *)
Lemma gs_ext n f g : (forall k, (k < n)%nat -> f k = g k) -> gsum n f = gsum n g.
Proof. induction n as [|n IH]; intros H; cbn [Sums.sumn]; [reflexivity|].
  rewrite IH, H by (intros; try apply H; lia). reflexivity. Qed.
Lemma gs_zero n f : (forall k, (k < n)%nat -> f k = 0) -> gsum n f = 0.
Proof. induction n as [|n IH]; intros H; cbn [Sums.sumn]; [reflexivity|].
  rewrite IH, H by (intros; try apply H; lia). ring. Qed.
Lemma gs_add n f g : gsum n (fun k => f k + g k) = gsum n f + gsum n g.
Proof. induction n as [|n IH]; cbn [Sums.sumn]; [ring|]. rewrite IH. ring. Qed.
Lemma gs_scale n a f : gsum n (fun k => a * f k) = a * gsum n f.
Proof. induction n as [|n IH]; cbn [Sums.sumn]; [ring|]. rewrite IH. ring. Qed.
Lemma gs_lin4 n m f1 f2 f3 f4 :
  gsum n (fun k => f1 k + f2 k + f3 k - m * f4 k) = gsum n f1 + gsum n f2 + gsum n f3 - m * gsum n f4.
Proof. induction n as [|n IH]; cbn [Sums.sumn]; [ring|]. rewrite IH. ring. Qed.
Lemma gs_lin2 n a b f g : gsum n (fun k => a * f k + b * g k) = a * gsum n f + b * gsum n g.
Proof. induction n as [|n IH]; cbn [Sums.sumn]; [ring|]. rewrite IH. ring. Qed.
Lemma gs_split a b f : gsum (a + b) f = gsum a f + gsum b (fun k => f (a + k)%nat).
Proof. induction b as [|b IH]; cbn [Sums.sumn].
  - rewrite Nat.add_0_r. ring.
  - rewrite Nat.add_succ_r. cbn [Sums.sumn]. rewrite IH. ring. Qed.
Lemma gs_swap n m (f : nat -> nat -> F) :
  gsum n (fun i => gsum m (fun j => f i j)) = gsum m (fun j => gsum n (fun i => f i j)).
Proof. induction n as [|n IH]; cbn [Sums.sumn].
  - symmetry. apply gs_zero. reflexivity.
  - rewrite IH, <- gs_add. reflexivity. Qed.
Lemma gs_delta n i (y : nat -> F) : (i < n)%nat ->
  gsum n (fun j => (if (i =? j)%nat then 1 else 0) * y j) = y i.
Proof.
  induction n as [|n IH]; intros Hi; [lia|]. cbn [Sums.sumn].
  destruct (Nat.eq_dec i n) as [->|Hne].
  - rewrite Nat.eqb_refl. rewrite gs_zero; [ring|].
    intros k Hk. destruct (Nat.eqb_spec n k); [lia|ring].
  - rewrite IH by lia. destruct (Nat.eqb_spec i n); [contradiction|ring].
Qed.

Lemma gk_nth_map_seq {A : Type} (f : nat -> A) d : forall n a j, (j < n)%nat -> nth j (map f (seq a n)) d = f (a + j)%nat.
Proof.
  induction n as [|n IH]; intros a j Hj; [lia|]. cbn [seq map]. destruct j as [|j]; cbn [nth].
  - f_equal. lia.
  - rewrite IH by lia. f_equal. lia.
Qed.

(* ---------------------------------------------------------------------------------------- *)
(** * assembly: the diagonal storage holds the dense Galerkin matrix *)
Section Core.
Variables (p nc nq : nat).
Variable phi : nat -> nat -> nat -> nat -> F.
Variables W X Av Bv Cv Dv Ev : nat -> nat -> F.
Notation g := (gk_g F K phi W X Av Bv Cv Dv Ev).
Notation cellsum := (gk_cellsum F K nq phi W X Av Bv Cv Dv Ev).
Notation dense := (gk_dense F K nc nq phi W X Av Bv Cv Dv Ev).
Notation ov := (gk_ov F K p nc nq phi W X Av Bv Cv Dv Ev).
Notation diag := (gk_diag F K p nc nq phi W X Av Bv Cv Dv Ev).
Notation diags := (gk_diags F K p nc nq phi W X Av Bv Cv Dv Ev).

(** local support: the B-spline a vanishes (with its derivative) at the points of cell c unless c <= a <= c+p *)
Definition gk_support : Prop :=
  forall e a c q, (c < nc)%nat -> (q < nq)%nat -> (a < c \/ c + p < a)%nat -> phi e a c q = 0.
Hypothesis Hsup : gk_support.

Lemma gk_g_zero_a k a b c q : phi 0%nat a c q = 0 -> phi 1%nat a c q = 0 -> g k a b c q = 0.
Proof. intros H0 H1. destruct k; cbn [gk_g]; rewrite ?H0, ?H1; ring. Qed.
Lemma gk_g_zero_b k a b c q : phi 0%nat b c q = 0 -> phi 1%nat b c q = 0 -> g k a b c q = 0.
Proof. intros H0 H1. destruct k; cbn [gk_g]; rewrite ?H0, ?H1; ring. Qed.
Lemma gk_g_sym k a b c q : gk_sym k = true -> g k a b c q = g k b a c q.
Proof. destruct k; cbn [gk_sym gk_g]; intros H; try discriminate; ring. Qed.

Lemma gk_g_outside k a b c q : (c < nc)%nat -> (q < nq)%nat ->
  (a < c \/ c + p < a \/ b < c \/ c + p < b)%nat -> g k a b c q = 0.
Proof.
  intros Hc Hq [H|[H|[H|H]]].
  - apply gk_g_zero_a; apply Hsup; auto.
  - apply gk_g_zero_a; apply Hsup; auto.
  - apply gk_g_zero_b; apply Hsup; auto.
  - apply gk_g_zero_b; apply Hsup; auto.
Qed.

Lemma gk_cellsum_split k a b lo n1 n2 :
  cellsum k a b lo (n1 + n2)%nat = cellsum k a b lo n1 + cellsum k a b (lo + n1)%nat n2.
Proof.
  unfold gk_cellsum. rewrite gs_split. f_equal. apply gs_ext. intros i _.
  rewrite Nat.add_assoc. reflexivity.
Qed.
Lemma gk_cellsum_zero k a b lo n :
  (forall c q, (lo <= c < lo + n)%nat -> (q < nq)%nat -> g k a b c q = 0) -> cellsum k a b lo n = 0.
Proof. intros H. unfold gk_cellsum. apply gs_zero. intros i Hi. apply gs_zero. intros q Hq. apply H; lia. Qed.

(** the restriction of the sums to the overlap of the two supports loses nothing *)
Theorem gk_ov_eq_dense k a b i sj : (i <= sj)%nat -> (sj <= i + p)%nat -> (sj < nc + p)%nat ->
  (a = i /\ b = sj) \/ (a = sj /\ b = i) -> ov k a b i sj = dense k a b.
Proof.
  intros H1 H2 H3 Hab. unfold gk_ov, gk_dense.
  set (s := gk_start p i sj). set (e := gk_end nc i sj).
  assert (Es : s = (sj - p)%nat) by (unfold s, gk_start; lia).
  assert (Ee : e = Nat.min nc (i + 1)) by (unfold e, gk_end; lia).
  assert (Hse : (s <= e)%nat) by lia. assert (Hen : (e <= nc)%nat) by lia.
  transitivity (cellsum k a b 0 (s + ((e - s) + (nc - e)))%nat); [|f_equal; lia].
  rewrite !gk_cellsum_split. cbn [Nat.add]. replace (s + (e - s))%nat with e by lia.
  rewrite (gk_cellsum_zero k a b 0 s), (gk_cellsum_zero k a b e (nc - e)); [ring| |].
  - intros c q Hc Hq. apply gk_g_outside; [lia|exact Hq|]. destruct Hab as [[-> ->]|[-> ->]]; lia.
  - intros c q Hc Hq. apply gk_g_outside; [lia|exact Hq|]. destruct Hab as [[-> ->]|[-> ->]]; lia.
Qed.

(** outside the band the supports do not meet *)
Theorem gk_dense_outside_band k a b : (a + p < b \/ b + p < a)%nat -> dense k a b = 0.
Proof.
  intros H. unfold gk_dense. apply gk_cellsum_zero. intros c q Hc Hq. cbn [Nat.add] in Hc.
  apply gk_g_outside; [lia|exact Hq|]. lia.
Qed.

Lemma gk_diags_nth k nb j i : (j < 2 * p + 1)%nat ->
  (i < nb - (if (p <=? j)%nat then j - p else p - j))%nat ->
  nth i (nth j (diags k nb) []) 0 = diag k j i.
Proof.
  intros Hj Hi. unfold gk_diags.
  rewrite (gk_nth_map_seq (fun j0 => map (fun i0 => diag k j0 i0)
             (seq 0 (nb - (if (p <=? j0)%nat then j0 - p else p - j0)))) [] (2 * p + 1) 0 j Hj).
  cbn [Nat.add]. rewrite (gk_nth_map_seq (fun i0 => diag k j i0) 0 _ 0 i Hi). reflexivity.
Qed.

(** band_eq_dense: what scipy.sparse.diags builds from the diagonal storage is the dense double sum *)
Theorem gk_band_eq_dense k a b : (a < nc + p)%nat -> (b < nc + p)%nat ->
  gk_entry F K p (diags k (nc + p)) a b = dense k a b.
Proof.
  intros Ha Hb. unfold gk_entry.
  destruct (Nat.leb_spec a b) as [Hab|Hab].
  - destruct (Nat.leb_spec (b - a) p) as [Hband|Hband].
    + rewrite gk_diags_nth by (first [lia | destruct (Nat.leb_spec p (p + (b - a))); lia]).
      unfold gk_diag. destruct (gk_sym k) eqn:Esym.
      * destruct (Nat.leb_spec p (p + (b - a))); [|lia].
        replace (a + (p + (b - a) - p))%nat with b by lia.
        apply gk_ov_eq_dense; lia.
      * destruct (Nat.ltb_spec p (p + (b - a))) as [Hlt|Hge].
        -- replace (a + (p + (b - a) - p))%nat with b by lia.
           apply gk_ov_eq_dense; lia.
        -- assert (b = a) by lia. subst b. replace (a + (p - (p + (a - a))))%nat with a by lia.
           apply gk_ov_eq_dense; lia.
    + symmetry. apply gk_dense_outside_band. lia.
  - destruct (Nat.leb_spec (a - b) p) as [Hband|Hband].
    + rewrite gk_diags_nth by (first [lia | destruct (Nat.leb_spec p (p - (a - b))); lia]).
      unfold gk_diag. destruct (gk_sym k) eqn:Esym.
      * destruct (Nat.leb_spec p (p - (a - b))); [lia|].
        replace (b + (2 * p - (p - (a - b)) - p))%nat with a by lia.
        rewrite (gk_ov_eq_dense k b a b a) by lia.
        unfold gk_dense, gk_cellsum. apply gs_ext. intros i _. apply gs_ext. intros q _.
        apply gk_g_sym, Esym.
      * destruct (Nat.ltb_spec p (p - (a - b))); [lia|].
        replace (b + (p - (p - (a - b))))%nat with a by lia.
        apply gk_ov_eq_dense; lia.
    + symmetry. apply gk_dense_outside_band. lia.
Qed.

(** the bilinear form of  A phi'' + B phi' + C phi - m^2 D phi  in the measure r dr after integration
    by parts of the first term (A constant):  sum over all points of
      w * ( -A phi_b' (r psi_a)' + B phi_b' psi_a r + C phi_b psi_a r - m^2 D phi_b psi_a r ) *)
Definition gk_weak (msq : F) (a b : nat) : F :=
  gsum nc (fun c => gsum nq (fun q =>
    W c q * (spopp K (Av c q) * phi 1%nat b c q * (phi 1%nat a c q * X c q + phi 0%nat a c q)
             + Bv c q * phi 1%nat b c q * phi 0%nat a c q * X c q
             + Cv c q * phi 0%nat b c q * phi 0%nat a c q * X c q
             - msq * (Dv c q * phi 0%nat b c q * phi 0%nat a c q * X c q)))).

Theorem gk_dense_weak msq a b :
  dense GkDD a b + dense GkD1 a b + dense GkPhiPsi a b - msq * dense GkK2 a b = gk_weak msq a b.
Proof.
  unfold gk_dense, gk_cellsum, gk_weak. rewrite <- gs_lin4. apply gs_ext. intros c _.
  rewrite <- gs_lin4. apply gs_ext. intros q _. cbn [gk_g Nat.add]. ring.
Qed.

(** the mass matrix: sum over all points of  w * E * phi_b psi_a r *)
Definition gk_weak_mass (a b : nat) : F :=
  gsum nc (fun c => gsum nq (fun q => W c q * Ev c q * phi 0%nat b c q * phi 0%nat a c q * X c q)).
Theorem gk_dense_mass a b : dense GkMass a b = gk_weak_mass a b.
Proof. reflexivity. Qed.

End Core.

(* ---------------------------------------------------------------------------------------- *)
(** * local support from the spans; the assembled solver object *)
Lemma gk_pick_outside p s a l : (a < s - p \/ s < a)%nat -> gk_pick F K p s a l = 0.
Proof. intros H. unfold gk_pick. destruct (Nat.leb_spec (s - p) a), (Nat.leb_spec a s); cbn [andb]; try reflexivity; lia. Qed.

Theorem gk_phi_support p T nc nq : gk_spans_ok F p T nc nq = true -> gk_support p nc nq (gk_phi F K p T).
Proof.
  intros H e a c q Hc Hq Ha. unfold gk_spans_ok in H.
  rewrite forallb_forall in H. specialize (H c). rewrite in_seq in H. specialize (H ltac:(lia)).
  rewrite forallb_forall in H. specialize (H q). rewrite in_seq in H. specialize (H ltac:(lia)).
  apply Nat.eqb_eq in H. unfold gk_phi.
  destruct (nth q (nth c T []) (0%nat, ([], []))) as [s [v d]]. cbn [fst] in H. subst s.
  apply gk_pick_outside. lia.
Qed.

Definition gk_Wf (wts : list F) (mf : list F) : nat -> nat -> F := fun c q => nth q wts 0 * nth c mf 0.

Lemma gk_assemble_inv knots p nc nq pts wts mf At Bt Ct Dt Et S :
  gk_assemble F K knots p nc nq pts wts mf At Bt Ct Dt Et = SpOk S ->
  exists T, gk_table F K knots p pts = SpOk T /\ gk_spans_ok F p T nc nq = true /\
    S = (let dg := fun k => gk_diags F K p nc nq (gk_phi F K p T) (gk_Wf wts mf) (gk_at F K pts) (gk_at F K At) (gk_at F K Bt)
                              (gk_at F K Ct) (gk_at F K Dt) (gk_at F K Et) k (nc + p) in
         GkAsm F p (nc + p) (dg GkMass) (dg GkK2) (dg GkPhiPsi) (dg GkDD) (dg GkD1) T Et).
Proof.
  unfold gk_assemble. destruct (gk_table F K knots p pts) as [T| | | |]; cbn [sp_bind]; try discriminate.
  destruct (gk_spans_ok F p T nc nq) eqn:E; [|discriminate]. intros H. inversion H. exists T. repeat split. exact E.
Qed.

(** stiffness_is_weak_form: the matrix (self._stiffnessMatrix - m^2 self._k2PhiPsi) of mode m is the Galerkin
    matrix of the weak form, entry (test a, trial b), for all a, b (zero outside the band) *)
Theorem gk_stiffness_is_weak_form knots p nc nq pts wts mf At Bt Ct Dt Et S m a b :
  gk_assemble F K knots p nc nq pts wts mf At Bt Ct Dt Et = SpOk S -> (a < nc + p)%nat -> (b < nc + p)%nat ->
  gk_stiff F K S m a b
  = gk_weak nc nq (gk_phi F K p (gka_tab F S)) (gk_Wf wts mf) (gk_at F K pts) (gk_at F K At) (gk_at F K Bt)
      (gk_at F K Ct) (gk_at F K Dt) (gk_msq F K m) a b.
Proof.
  intros H Ha Hb. destruct (gk_assemble_inv _ _ _ _ _ _ _ _ _ _ _ _ _ H) as [T [_ [Hs ->]]]. cbv zeta.
  unfold gk_stiff. cbn [gka_p gka_dd gka_d1 gka_phipsi gka_k2 gka_tab].
  pose proof (gk_phi_support p T nc nq Hs) as Hsup.
  rewrite !(gk_band_eq_dense p nc nq _ _ _ _ _ _ _ _ Hsup) by assumption.
  apply gk_dense_weak.
Qed.

Theorem gk_mass_is_weak_form knots p nc nq pts wts mf At Bt Ct Dt Et S a b :
  gk_assemble F K knots p nc nq pts wts mf At Bt Ct Dt Et = SpOk S -> (a < nc + p)%nat -> (b < nc + p)%nat ->
  gk_entry F K (gka_p F S) (gka_mass F S) a b
  = gk_weak_mass nc nq (gk_phi F K p (gka_tab F S)) (gk_Wf wts mf) (gk_at F K pts) (gk_at F K Et) a b.
Proof.
  intros H Ha Hb. destruct (gk_assemble_inv _ _ _ _ _ _ _ _ _ _ _ _ _ H) as [T [_ [Hs ->]]]. cbv zeta.
  cbn [gka_p gka_mass gka_tab].
  pose proof (gk_phi_support p T nc nq Hs) as Hsup.
  rewrite (gk_band_eq_dense p nc nq _ _ _ _ _ _ _ _ Hsup) by assumption. reflexivity.
Qed.

(** band_eq_dense for the assembled object, all five matrices *)
Theorem gk_assembled_band_eq_dense knots p nc nq pts wts mf At Bt Ct Dt Et S k a b :
  gk_assemble F K knots p nc nq pts wts mf At Bt Ct Dt Et = SpOk S -> (a < nc + p)%nat -> (b < nc + p)%nat ->
  gk_entry F K p (match k with GkMass => gka_mass F S | GkK2 => gka_k2 F S | GkPhiPsi => gka_phipsi F S
                           | GkDD => gka_dd F S | GkD1 => gka_d1 F S end) a b
  = gk_dense F K nc nq (gk_phi F K p (gka_tab F S)) (gk_Wf wts mf) (gk_at F K pts) (gk_at F K At) (gk_at F K Bt)
      (gk_at F K Ct) (gk_at F K Dt) (gk_at F K Et) k a b
  /\ ((a + p < b \/ b + p < a)%nat ->
      gk_entry F K p (match k with GkMass => gka_mass F S | GkK2 => gka_k2 F S | GkPhiPsi => gka_phipsi F S
                               | GkDD => gka_dd F S | GkD1 => gka_d1 F S end) a b = 0).
Proof.
  intros H Ha Hb. destruct (gk_assemble_inv _ _ _ _ _ _ _ _ _ _ _ _ _ H) as [T [_ [Hs ->]]]. cbv zeta.
  pose proof (gk_phi_support p T nc nq Hs) as Hsup.
  assert (E : forall k', gk_entry F K p (gk_diags F K p nc nq (gk_phi F K p T) (gk_Wf wts mf) (gk_at F K pts) (gk_at F K At) (gk_at F K Bt)
                              (gk_at F K Ct) (gk_at F K Dt) (gk_at F K Et) k' (nc + p)) a b
            = gk_dense F K nc nq (gk_phi F K p T) (gk_Wf wts mf) (gk_at F K pts) (gk_at F K At) (gk_at F K Bt)
                (gk_at F K Ct) (gk_at F K Dt) (gk_at F K Et) k' a b).
  { intros k'. apply (gk_band_eq_dense p nc nq _ _ _ _ _ _ _ _ Hsup); assumption. }
  destruct k; cbn [gka_mass gka_k2 gka_phipsi gka_dd gka_d1 gka_tab]; (split; [apply E|]);
    intros Hout; rewrite E; apply (gk_dense_outside_band p nc nq _ _ _ _ _ _ _ _ Hsup); exact Hout.
Qed.

(* ---------------------------------------------------------------------------------------- *)
(** * boundary conditions *)

(** ranges_consistent: for every Dirichlet / Neumann choice the rows and columns kept of the matrices
    (cut to range_slice first, then to _stiffness_range) are exactly the coefficients that are unknowns
    (_coeff_range), the unknowns are lo .. hi-1 with lo in {0,1}, hi in {nb-1, nb} *)
Theorem gk_ranges_consistent nb lN uN m : (2 <= nb)%nat ->
  (gk_start_range lN + gk_stiff_lo lN m = gk_coeff_lo lN m)%nat /\
  (gk_start_range lN + gk_stiff_hi nb lN uN m = gk_coeff_hi nb uN m)%nat /\
  (gk_stiff_hi nb lN uN m <= gk_nunk nb lN uN)%nat /\
  (gk_coeff_lo lN m <= 1)%nat /\ (nb - 1 <= gk_coeff_hi nb uN m <= nb)%nat /\
  (gk_coeff_lo lN m = 0%nat <-> gk_memZ m lN = true) /\
  (gk_coeff_hi nb uN m = nb <-> gk_memZ m uN = true).
Proof.
  intros Hnb. unfold gk_stiff_lo, gk_stiff_hi, gk_coeff_lo, gk_coeff_hi, gk_nunk, gk_start_range, gk_end_range, gk_excl.
  destruct (gk_memZ m lN) eqn:El, (gk_memZ m uN) eqn:Eu.
  all: destruct lN as [|l0 lN]; [try (cbn in El; discriminate)|].
  all: destruct uN as [|u0 uN]; try (cbn in Eu; discriminate).
  all: repeat split; try lia; try congruence; try discriminate; intros; lia.
Qed.

Lemma gk_memZ_In m l : gk_memZ m l = true <-> In m l.
Proof.
  unfold gk_memZ. rewrite existsb_exists. split.
  - intros [x [Hx E]]. apply Z.eqb_eq in E. subst x. exact Hx.
  - intros H. exists m. split; [exact H|apply Z.eqb_refl].
Qed.

(** refuses_iff: the constructor raises exactly when some value is listed in both lNeumannIdx and
    uNeumannIdx and the reaction coefficient C vanishes at every quadrature point *)
Theorem gk_refuses_iff lN uN Ctab :
  gk_refuses F K lN uN Ctab = true <->
  (exists b, In b lN /\ In b uN) /\ (forall row v, In row Ctab -> In v row -> v = 0).
Proof.
  unfold gk_refuses. rewrite andb_true_iff, existsb_exists. split.
  - intros [[b [Hb Hu]] HC]. split.
    + exists b. split; [exact Hb|apply gk_memZ_In, Hu].
    + intros row v Hr Hv. rewrite forallb_forall in HC. specialize (HC row Hr).
      rewrite forallb_forall in HC. specialize (HC v Hv). apply (spl_eqb K HK), HC.
  - intros [[b [Hb Hu]] HC]. split.
    + exists b. split; [exact Hb|apply gk_memZ_In, Hu].
    + apply forallb_forall. intros row Hr. apply forallb_forall. intros v Hv.
      apply (spl_eqb K HK). apply (HC row v Hr Hv).
Qed.

(* ---------------------------------------------------------------------------------------- *)
(** * the checked linear solve *)
Definition gk_solves (n : nat) (A : list (list F)) (y b : list F) : Prop :=
  forall i, (i < n)%nat -> gk_dot F K n (nth i A []) y = nth i b 0.

Lemma gs_scale_r n a f : gsum n (fun k => f k * a) = gsum n f * a.
Proof. induction n as [|n IH]; cbn [Sums.sumn]; [ring|]. rewrite IH. ring. Qed.

Lemma gk_mv_nth n A y i : (i < n)%nat -> nth i (gk_mv F K n A y) 0 = gk_dot F K n (nth i A []) y.
Proof. intros Hi. unfold gk_mv. rewrite (gk_nth_map_seq (fun i0 => gk_dot F K n (nth i0 A []) y) 0 n 0 i Hi). reflexivity. Qed.
Lemma gk_mv_length n A y : length (gk_mv F K n A y) = n.
Proof. unfold gk_mv. rewrite map_length, seq_length. reflexivity. Qed.

Lemma gk_is_id_spec n M : gk_is_id F K n M = true ->
  forall i j, (i < n)%nat -> (j < n)%nat -> nth j (nth i M []) 0 = (if (i =? j)%nat then 1 else 0).
Proof.
  intros H i j Hi Hj. unfold gk_is_id in H. rewrite forallb_forall in H. specialize (H i). rewrite in_seq in H.
  specialize (H ltac:(lia)). rewrite forallb_forall in H. specialize (H j). rewrite in_seq in H.
  specialize (H ltac:(lia)). apply (spl_eqb K HK), H.
Qed.
Lemma gk_vec_eqb_spec n u v : gk_vec_eqb F K n u v = true -> forall i, (i < n)%nat -> nth i u 0 = nth i v 0.
Proof.
  intros H i Hi. unfold gk_vec_eqb in H. rewrite forallb_forall in H. specialize (H i). rewrite in_seq in H.
  apply (spl_eqb K HK), H. lia.
Qed.
Lemma gk_mm_nth n A B i j : (i < n)%nat -> (j < n)%nat ->
  nth j (nth i (gk_mm F K n A B) []) 0 = gsum n (fun k => nth k (nth i A []) 0 * nth j (nth k B []) 0).
Proof.
  intros Hi Hj. unfold gk_mm.
  rewrite (gk_nth_map_seq (fun i0 => map (fun j0 => gsum n (fun k => nth k (nth i0 A []) 0 * nth j0 (nth k B []) 0)) (seq 0 n)) [] n 0 i Hi).
  cbn [Nat.add].
  rewrite (gk_nth_map_seq (fun j0 => gsum n (fun k => nth k (nth i A []) 0 * nth j0 (nth k B []) 0)) 0 n 0 j Hj).
  reflexivity.
Qed.

(** a left inverse makes the solution unique *)
Lemma gk_left_inverse_unique n Ai A y b :
  (forall i j, (i < n)%nat -> (j < n)%nat ->
     gsum n (fun k => nth k (nth i Ai []) 0 * nth j (nth k A []) 0) = (if (i =? j)%nat then 1 else 0)) ->
  gk_solves n A y b -> forall i, (i < n)%nat -> nth i y 0 = gk_dot F K n (nth i Ai []) b.
Proof.
  intros Hid Hy i Hi. unfold gk_dot.
  rewrite <- (gs_delta n i (fun j => nth j y 0) Hi).
  rewrite (gs_ext n _ (fun j => gsum n (fun k => nth k (nth i Ai []) 0 * (nth j (nth k A []) 0 * nth j y 0)))).
  2:{ intros j Hj. rewrite <- (Hid i j Hi Hj). rewrite <- gs_scale_r. apply gs_ext. intros k _. ring. }
  rewrite gs_swap. apply gs_ext. intros k Hk. rewrite gs_scale. f_equal. apply (Hy k Hk).
Qed.

(** specification of lin_solve, by construction: the answer solves the system and every solution of the
    system is the answer *)
Theorem gk_lin_solve_spec n A b x : gk_lin_solve F K n A b = SpOk x ->
  length x = n /\ gk_solves n A x b /\
  (forall y, gk_solves n A y b -> forall i, (i < n)%nat -> nth i y 0 = nth i x 0).
Proof.
  unfold gk_lin_solve.
  destruct (gk_gj F K n 0 [] _) as [R|]; [|discriminate]. cbv zeta.
  set (Ai := map (skipn n) R). set (x0 := gk_mv F K n Ai b).
  destruct (gk_is_id F K n (gk_mm F K n Ai A)) eqn:Eid; cbn [andb]; [|discriminate].
  destruct (gk_vec_eqb F K n (gk_mv F K n A x0) b) eqn:Eck; [|discriminate].
  intros H. inversion H. subst x. split; [apply gk_mv_length|]. split.
  - intros i Hi. rewrite <- (gk_vec_eqb_spec n _ _ Eck i Hi). rewrite gk_mv_nth by exact Hi. reflexivity.
  - intros y Hy i Hi. unfold x0. rewrite gk_mv_nth by exact Hi.
    apply (gk_left_inverse_unique n Ai A y b); [|exact Hy|exact Hi].
    intros i0 j0 Hi0 Hj0. rewrite <- (gk_mm_nth n Ai A i0 j0 Hi0 Hj0). apply (gk_is_id_spec n _ Eid); assumption.
Qed.

(** linearity of the checked solve *)
Theorem gk_lin_solve_linear n A b1 b2 b3 x1 x2 x3 al be :
  gk_lin_solve F K n A b1 = SpOk x1 -> gk_lin_solve F K n A b2 = SpOk x2 -> gk_lin_solve F K n A b3 = SpOk x3 ->
  (forall i, (i < n)%nat -> nth i b3 0 = al * nth i b1 0 + be * nth i b2 0) ->
  forall i, (i < n)%nat -> nth i x3 0 = al * nth i x1 0 + be * nth i x2 0.
Proof.
  intros H1 H2 H3 Hb i Hi.
  destruct (gk_lin_solve_spec _ _ _ _ H1) as [L1 [S1 _]].
  destruct (gk_lin_solve_spec _ _ _ _ H2) as [L2 [S2 _]].
  destruct (gk_lin_solve_spec _ _ _ _ H3) as [L3 [_ U3]].
  set (y := map (fun j => al * nth j x1 0 + be * nth j x2 0) (seq 0 n)).
  assert (Hy : forall j, (j < n)%nat -> nth j y 0 = al * nth j x1 0 + be * nth j x2 0).
  { intros j Hj. unfold y. rewrite (gk_nth_map_seq (fun j0 => al * nth j0 x1 0 + be * nth j0 x2 0) 0 n 0 j Hj). reflexivity. }
  rewrite <- (U3 y); [apply Hy, Hi| |exact Hi].
  intros r Hr. unfold gk_dot. rewrite (Hb r Hr). rewrite <- (S1 r Hr), <- (S2 r Hr). unfold gk_dot.
  rewrite <- gs_lin2. apply gs_ext. intros j Hj. rewrite (Hy j Hj). ring.
Qed.

(* ---------------------------------------------------------------------------------------- *)
(** * the per-mode solve *)
Lemma gk_store_nth nb lo hi buf sol i : (i < nb)%nat ->
  nth i (gk_store F K nb lo hi buf sol) 0
  = (if (lo <=? i)%nat && (i <? hi)%nat then nth (i - lo) sol 0
     else if (i =? 0)%nat || (i =? nb - 1)%nat then 0 else nth i buf 0).
Proof.
  intros Hi. unfold gk_store.
  rewrite (gk_nth_map_seq (fun i0 => if (lo <=? i0)%nat && (i0 <? hi)%nat then nth (i0 - lo) sol 0
     else if (i0 =? 0)%nat || (i0 =? nb - 1)%nat then 0 else nth i0 buf 0) 0 nb 0 i Hi). reflexivity.
Qed.
Lemma gk_store_length nb lo hi buf sol : length (gk_store F K nb lo hi buf sol) = nb.
Proof. unfold gk_store. rewrite map_length, seq_length. reflexivity. Qed.

(** what is left in self._coeffs by the previous mode is never seen *)
Lemma gk_store_indep nb lo hi buf buf' sol : (lo <= 1)%nat -> (nb - 1 <= hi)%nat ->
  gk_store F K nb lo hi buf sol = gk_store F K nb lo hi buf' sol.
Proof.
  intros Hlo Hhi. unfold gk_store. apply map_ext_in. intros i Hi. apply in_seq in Hi.
  destruct (Nat.leb_spec lo i), (Nat.ltb_spec i hi); cbn [andb]; try reflexivity.
  - destruct (Nat.eqb_spec i (nb - 1)); [rewrite orb_true_r; reflexivity|lia].
  - destruct (Nat.eqb_spec i 0); [reflexivity|lia].
  - destruct (Nat.eqb_spec i 0); [reflexivity|lia].
Qed.

Lemma gk_coeff_lo_le1 lN m : (gk_coeff_lo lN m <= 1)%nat.
Proof. unfold gk_coeff_lo. destruct (gk_memZ m lN); lia. Qed.
Lemma gk_coeff_hi_ge nb uN m : (nb - 1 <= gk_coeff_hi nb uN m)%nat.
Proof. unfold gk_coeff_hi. destruct (gk_memZ m uN); lia. Qed.

Theorem gk_solve_rhs_indep S lN uN m buf buf' rhs :
  gk_solve_rhs F K S lN uN m buf rhs = gk_solve_rhs F K S lN uN m buf' rhs.
Proof.
  unfold gk_solve_rhs. cbv zeta. destruct (gk_lin_solve F K _ _ rhs) as [sol| | | |]; cbn [sp_bind]; try reflexivity.
  f_equal. apply gk_store_indep; [apply gk_coeff_lo_le1|apply gk_coeff_hi_ge].
Qed.

Theorem gk_solve_item_indep S lN uN nc nq pts wts mf buf buf' w :
  gk_solve_item F K S lN uN nc nq pts wts mf buf w = gk_solve_item F K S lN uN nc nq pts wts mf buf' w.
Proof. unfold gk_solve_item, gk_solve_mode, gk_solve_mode_func. destruct (snd w); apply gk_solve_rhs_indep. Qed.

(** modes_independent: the loop over the modes (shared buffer) returns for every mode what that mode
    alone returns, whatever was solved before *)
Theorem gk_modes_independent S lN uN nc nq pts wts mf work : forall buf,
  gk_solve_all F K S lN uN nc nq pts wts mf buf work
  = sp_mapM (gk_solve_item F K S lN uN nc nq pts wts mf []) work.
Proof.
  induction work as [|w rest IH]; intros buf; cbn [gk_solve_all sp_mapM]; [reflexivity|].
  rewrite (gk_solve_item_indep S lN uN nc nq pts wts mf buf [] w).
  destruct (gk_solve_item F K S lN uN nc nq pts wts mf [] w) as [c| | | |]; cbn [sp_bind]; try reflexivity.
  rewrite IH. reflexivity.
Qed.

(** dirichlet_zero (coefficients): on a Dirichlet side the boundary coefficient of the result is 0 *)
Theorem gk_dirichlet_coeffs S lN uN m buf rhs c : (2 <= gka_nb F S)%nat ->
  gk_solve_rhs F K S lN uN m buf rhs = SpOk c ->
  length c = gka_nb F S /\
  (gk_memZ m lN = false -> nth 0 c 0 = 0) /\
  (gk_memZ m uN = false -> nth (gka_nb F S - 1) c 0 = 0).
Proof.
  intros Hnb. unfold gk_solve_rhs. cbv zeta.
  destruct (gk_lin_solve F K _ _ rhs) as [sol| | | |]; cbn [sp_bind]; try discriminate.
  intros H. inversion H. split; [apply gk_store_length|]. split.
  - intros El. rewrite gk_store_nth by lia. unfold gk_coeff_lo. rewrite El. reflexivity.
  - intros Eu. rewrite gk_store_nth by lia. unfold gk_coeff_hi. rewrite Eu.
    destruct (Nat.ltb_spec (gka_nb F S - 1) (gka_nb F S - 1)); [lia|]. rewrite andb_false_r.
    rewrite Nat.eqb_refl, orb_true_r. reflexivity.
Qed.

Lemma gk_msq_opp m : gk_msq F K (- m) = gk_msq F K m.
Proof. unfold gk_msq. rewrite Z.mul_opp_opp. reflexivity. Qed.

(** depends_on_m_squared: the modes m and -m with the same boundary conditions have the same system *)
Theorem gk_depends_on_m_squared S lN uN nc nq pts wts mf buf m d :
  gk_memZ (- m) lN = gk_memZ m lN -> gk_memZ (- m) uN = gk_memZ m uN ->
  gk_solve_item F K S lN uN nc nq pts wts mf buf (- m, d)%Z = gk_solve_item F K S lN uN nc nq pts wts mf buf (m, d).
Proof.
  intros El Eu. unfold gk_solve_item, gk_solve_mode, gk_solve_mode_func, gk_solve_rhs. cbn [fst snd]. cbv zeta.
  unfold gk_coeff_lo, gk_coeff_hi. rewrite El, Eu.
  assert (EM : forall lo hi, gk_mode_matrix F K S (- m) lo hi = gk_mode_matrix F K S m lo hi).
  { intros lo hi. unfold gk_mode_matrix. apply map_ext. intros a. apply map_ext. intros b.
    unfold gk_stiff. rewrite gk_msq_opp. reflexivity. }
  rewrite !EM. reflexivity.
Qed.

(** a linear combination of right-hand sides gives the linear combination of the solutions *)
Theorem gk_solve_rhs_linear S lN uN m buf r1 r2 r3 c1 c2 c3 al be :
  gk_solve_rhs F K S lN uN m buf r1 = SpOk c1 -> gk_solve_rhs F K S lN uN m buf r2 = SpOk c2 ->
  gk_solve_rhs F K S lN uN m buf r3 = SpOk c3 ->
  (forall i, (i < gk_coeff_hi (gka_nb F S) uN m - gk_coeff_lo lN m)%nat -> nth i r3 0 = al * nth i r1 0 + be * nth i r2 0) ->
  forall i, (i < gka_nb F S)%nat -> nth i c3 0 = al * nth i c1 0 + be * nth i c2 0.
Proof.
  unfold gk_solve_rhs. cbv zeta. set (lo := gk_coeff_lo lN m). set (hi := gk_coeff_hi (gka_nb F S) uN m).
  destruct (gk_lin_solve F K (hi - lo) _ r1) as [s1| | | |] eqn:E1; cbn [sp_bind]; try discriminate.
  destruct (gk_lin_solve F K (hi - lo) _ r2) as [s2| | | |] eqn:E2; cbn [sp_bind]; try discriminate.
  destruct (gk_lin_solve F K (hi - lo) _ r3) as [s3| | | |] eqn:E3; cbn [sp_bind]; try discriminate.
  intros H1 H2 H3 Hr i Hi. inversion H1. inversion H2. inversion H3. rewrite !gk_store_nth by exact Hi.
  pose proof (gk_coeff_lo_le1 lN m) as Hlo. pose proof (gk_coeff_hi_ge (gka_nb F S) uN m) as Hhi. fold lo in Hlo. fold hi in Hhi.
  destruct (Nat.leb_spec lo i), (Nat.ltb_spec i hi); cbn [andb].
  - apply (gk_lin_solve_linear _ _ _ _ _ _ _ _ _ _ E1 E2 E3 Hr). lia.
  - destruct (Nat.eqb_spec i (gka_nb F S - 1)); [rewrite orb_true_r; ring|lia].
  - destruct (Nat.eqb_spec i 0); [cbn [orb]; ring|lia].
  - destruct (Nat.eqb_spec i 0); [cbn [orb]; ring|lia].
Qed.

(** linear_in_rho, discrete right-hand side (spline coefficients of rho) *)
Theorem gk_linear_in_rho S lN uN m buf rho1 rho2 rho3 c1 c2 c3 al be :
  gk_solve_mode F K S lN uN m buf rho1 = SpOk c1 -> gk_solve_mode F K S lN uN m buf rho2 = SpOk c2 ->
  gk_solve_mode F K S lN uN m buf rho3 = SpOk c3 ->
  (forall b, (b < gka_nb F S)%nat -> nth b rho3 0 = al * nth b rho1 0 + be * nth b rho2 0) ->
  forall i, (i < gka_nb F S)%nat -> nth i c3 0 = al * nth i c1 0 + be * nth i c2 0.
Proof.
  unfold gk_solve_mode. intros H1 H2 H3 Hrho. apply (gk_solve_rhs_linear _ _ _ _ _ _ _ _ _ _ _ _ _ H1 H2 H3).
  intros i Hi. unfold gk_rhs_discrete.
  rewrite !(gk_nth_map_seq (fun a => gsum (gka_nb F S) (fun b => gk_entry F K (gka_p F S) (gka_mass F S) a b * nth b _ 0)) 0 _ _ i Hi).
  rewrite <- gs_lin2. apply gs_ext. intros b Hb. rewrite (Hrho b Hb). ring.
Qed.

(** linear_in_rho, right-hand side given as a function (its values at the quadrature points) *)
Theorem gk_linear_in_rho_func S lN uN m buf nc nq pts wts mf t1 t2 t3 c1 c2 c3 al be :
  gk_solve_mode_func F K S lN uN m buf nc nq pts wts mf t1 = SpOk c1 ->
  gk_solve_mode_func F K S lN uN m buf nc nq pts wts mf t2 = SpOk c2 ->
  gk_solve_mode_func F K S lN uN m buf nc nq pts wts mf t3 = SpOk c3 ->
  (forall c q, (c < nc)%nat -> (q < nq)%nat -> gk_at F K t3 c q = al * gk_at F K t1 c q + be * gk_at F K t2 c q) ->
  forall i, (i < gka_nb F S)%nat -> nth i c3 0 = al * nth i c1 0 + be * nth i c2 0.
Proof.
  unfold gk_solve_mode_func. intros H1 H2 H3 Ht. apply (gk_solve_rhs_linear _ _ _ _ _ _ _ _ _ _ _ _ _ H1 H2 H3).
  intros i Hi. unfold gk_rhs_func.
  rewrite !(gk_nth_map_seq (fun a => gsum nc (fun c => gsum nq (fun q =>
        nth q wts 0 * nth c mf 0 * gk_phi F K (gka_p F S) (gka_tab F S) 0 a c q * gk_at F K pts c q * gk_at F K (gka_E F S) c q * gk_at F K _ c q))) 0 _ _ i Hi).
  rewrite <- gs_lin2. apply gs_ext. intros c Hc. rewrite <- gs_lin2. apply gs_ext. intros q Hq.
  rewrite (Ht c q Hc Hq). ring.
Qed.

(** the right-hand side of the function path: the load vector of E rho, sum w * B_a(x) * x * E(x) * rho(x) *)
Theorem gk_rhs_func_spec S nc nq pts wts mf rhot lo hi i : (i < hi - lo)%nat ->
  nth i (gk_rhs_func F K S nc nq pts wts mf rhot lo hi) 0
  = gsum nc (fun c => gsum nq (fun q =>
      gk_Wf wts mf c q * gk_phi F K (gka_p F S) (gka_tab F S) 0 (lo + i) c q * gk_at F K pts c q
      * gk_at F K (gka_E F S) c q * gk_at F K rhot c q)).
Proof.
  intros Hi. unfold gk_rhs_func.
  rewrite (gk_nth_map_seq (fun a => gsum nc (fun c => gsum nq (fun q =>
        nth q wts 0 * nth c mf 0 * gk_phi F K (gka_p F S) (gka_tab F S) 0 a c q * gk_at F K pts c q * gk_at F K (gka_E F S) c q
        * gk_at F K rhot c q))) 0 _ _ i Hi).
  reflexivity.
Qed.

(** for rho in the spline space (its values at the points are sum_b rho_b B_b(x)) the function path and the
    discrete path have the same right-hand side, hence the same system *)
Theorem gk_rhs_func_eq_discrete knots p nc nq pts wts mf At Bt Ct Dt Et S rho rhot lo hi :
  gk_assemble F K knots p nc nq pts wts mf At Bt Ct Dt Et = SpOk S -> (hi <= nc + p)%nat ->
  (forall c q, (c < nc)%nat -> (q < nq)%nat ->
     gk_at F K rhot c q = gsum (nc + p) (fun b => gk_phi F K p (gka_tab F S) 0 b c q * nth b rho 0)) ->
  gk_rhs_func F K S nc nq pts wts mf rhot lo hi = gk_rhs_discrete F K S lo hi rho.
Proof.
  intros H Hhi Hrho. unfold gk_rhs_func, gk_rhs_discrete. apply map_ext_in. intros a Ha. apply in_seq in Ha.
  assert (Hnb : gka_nb F S = (nc + p)%nat /\ gka_p F S = p /\ gka_E F S = Et).
  { destruct (gk_assemble_inv _ _ _ _ _ _ _ _ _ _ _ _ _ H) as [T [_ [_ ->]]]. cbv zeta. repeat split. }
  destruct Hnb as [-> [Hp HE]].
  rewrite (gs_ext (nc + p) _ (fun b => gsum nc (fun c => gsum nq (fun q =>
     gk_Wf wts mf c q * gk_at F K Et c q * gk_phi F K p (gka_tab F S) 0 b c q * gk_phi F K p (gka_tab F S) 0 a c q
     * gk_at F K pts c q * nth b rho 0)))).
  2:{ intros b Hb. rewrite (gk_mass_is_weak_form _ _ _ _ _ _ _ _ _ _ _ _ _ a b H) by lia.
      unfold gk_weak_mass. rewrite <- gs_scale_r. apply gs_ext. intros c _. rewrite <- gs_scale_r. reflexivity. }
  rewrite (gs_swap (nc + p) nc). apply gs_ext. intros c Hc.
  rewrite (gs_swap (nc + p) nq). apply gs_ext. intros q Hq.
  rewrite HE, Hp, (Hrho c q Hc Hq).
  rewrite <- gs_scale. apply gs_ext. intros b _. unfold gk_Wf. ring.
Qed.

Theorem gk_func_path_eq_discrete_path knots p nc nq pts wts mf At Bt Ct Dt Et S lN uN m buf rho rhot :
  gk_assemble F K knots p nc nq pts wts mf At Bt Ct Dt Et = SpOk S ->
  (forall c q, (c < nc)%nat -> (q < nq)%nat ->
     gk_at F K rhot c q = gsum (nc + p) (fun b => gk_phi F K p (gka_tab F S) 0 b c q * nth b rho 0)) ->
  gk_solve_mode_func F K S lN uN m buf nc nq pts wts mf rhot = gk_solve_mode F K S lN uN m buf rho.
Proof.
  intros H Hrho. unfold gk_solve_mode_func, gk_solve_mode.
  rewrite (gk_rhs_func_eq_discrete _ _ _ _ _ _ _ _ _ _ _ _ _ rho rhot _ _ H); [reflexivity| |exact Hrho].
  destruct (gk_assemble_inv _ _ _ _ _ _ _ _ _ _ _ _ _ H) as [T [_ [_ ->]]]. cbv zeta. cbn [gka_nb].
  unfold gk_coeff_hi. lia.
Qed.

(** the returned coefficient vector satisfies the Galerkin system: for every test function a that is an
    unknown of the mode, sum_b stiffness(a,b) c_b = right-hand side(a), the sum running over ALL
    coefficients (those outside the unknowns are the zero Dirichlet values) *)
Theorem gk_solution_is_galerkin S lN uN m buf rhs c :
  gk_solve_rhs F K S lN uN m buf rhs = SpOk c -> (2 <= gka_nb F S)%nat ->
  forall i, (i < gk_coeff_hi (gka_nb F S) uN m - gk_coeff_lo lN m)%nat ->
  gsum (gka_nb F S) (fun b => gk_stiff F K S m (gk_coeff_lo lN m + i) b * nth b c 0) = nth i rhs 0.
Proof.
  unfold gk_solve_rhs. cbv zeta. set (lo := gk_coeff_lo lN m). set (hi := gk_coeff_hi (gka_nb F S) uN m). set (nb := gka_nb F S).
  destruct (gk_lin_solve F K (hi - lo) _ rhs) as [sol| | | |] eqn:E; cbn [sp_bind]; try discriminate.
  intros H Hnb i Hi. inversion H. clear H H1.
  destruct (gk_lin_solve_spec _ _ _ _ E) as [_ [Hs _]]. rewrite <- (Hs i Hi). unfold gk_dot.
  pose proof (gk_coeff_lo_le1 lN m) as Hlo. pose proof (gk_coeff_hi_ge (gka_nb F S) uN m) as Hhi. fold lo in Hlo. fold hi nb in Hhi.
  assert (Hhn : (hi <= nb)%nat) by (unfold hi, gk_coeff_hi; fold nb; lia).
  transitivity (gsum (lo + ((hi - lo) + (nb - hi)))%nat
                  (fun b => gk_stiff F K S m (lo + i) b * nth b (gk_store F K nb lo hi buf sol) 0)); [f_equal; lia|].
  rewrite gs_split, gs_split.
  rewrite (gs_zero lo), (gs_zero (nb - hi)).
  - transitivity (gsum (hi - lo) (fun j => nth j (nth i (gk_mode_matrix F K S m lo hi) []) 0 * nth j sol 0)); [|reflexivity].
    match goal with |- 0 + (?G + 0) = _ => replace (0 + (G + 0)) with G by ring end.
    apply gs_ext. intros j Hj. rewrite gk_store_nth by lia.
    destruct (Nat.leb_spec lo (lo + j)); [|lia]. destruct (Nat.ltb_spec (lo + j) hi); [|lia]. cbn [andb].
    replace (lo + j - lo)%nat with j by lia. f_equal. unfold gk_mode_matrix.
    rewrite (gk_nth_map_seq (fun a => map (fun b => gk_stiff F K S m a b) (seq lo (hi - lo))) [] _ _ i Hi).
    rewrite (gk_nth_map_seq (fun b => gk_stiff F K S m (lo + i) b) 0 _ _ j Hj). reflexivity.
  - intros k Hk. rewrite gk_store_nth by lia.
    destruct (Nat.leb_spec lo (lo + (hi - lo + k))); [|lia]. destruct (Nat.ltb_spec (lo + (hi - lo + k)) hi); [lia|]. cbn [andb].
    destruct (Nat.eqb_spec (lo + (hi - lo + k)) (nb - 1)); [rewrite orb_true_r; ring|lia].
  - intros k Hk. rewrite gk_store_nth by lia.
    destruct (Nat.leb_spec lo k); [lia|]. cbn [andb]. destruct (Nat.eqb_spec k 0); [cbn [orb]; ring|lia].
Qed.

(* ---------------------------------------------------------------------------------------- *)
(** * Dirichlet values (clamped end values of C08) *)

(** dirichlet_value_zero: on the clamped radial space the solution spline VANISHES at a Dirichlet end
    (S(a) = c_0, S(b) = c_last by ip_clamped_end_eval, and these coefficients are 0) *)
Theorem gk_dirichlet_value_zero S lN uN m buf rhs c knots p :
  ip_clamped F K knots p -> (1 <= p)%nat -> gka_nb F S = (length knots - p - 1)%nat ->
  gk_solve_rhs F K S lN uN m buf rhs = SpOk c ->
  (gk_memZ m lN = false -> sp_nu_eval_1d_scalar F K (sp_kn F K knots p) knots p c 0 = SpOk 0) /\
  (gk_memZ m uN = false ->
   sp_nu_eval_1d_scalar F K (sp_kn F K knots (length knots - 1 - p)) knots p c 0 = SpOk 0).
Proof.
  intros Hc Hp Hnb H. pose proof Hc as [_ [Hlen _]].
  destruct (gk_dirichlet_coeffs S lN uN m buf rhs c ltac:(lia) H) as [Hl [H0 H1]].
  destruct (ip_clamped_end_eval F K HK knots p Hc Hp c ltac:(lia)) as [Ea Eb]. split.
  - intros E. rewrite Ea, (H0 E). reflexivity.
  - intros E. rewrite Eb. replace (length knots - p - 2)%nat with (gka_nb F S - 1)%nat by lia. rewrite (H1 E). reflexivity.
Qed.

(* ---------------------------------------------------------------------------------------- *)
(** * manufactured solutions: the algebraic core *)
Lemma gk_restrict_sum nb lo hi (g : nat -> F) : (lo <= hi)%nat -> (hi <= nb)%nat ->
  (forall b, (b < lo \/ hi <= b)%nat -> g b = 0) -> gsum nb g = gsum (hi - lo) (fun j => g (lo + j)%nat).
Proof.
  intros H1 H2 Hz. transitivity (gsum (lo + ((hi - lo) + (nb - hi)))%nat g); [f_equal; lia|].
  rewrite gs_split, gs_split. rewrite (gs_zero lo), (gs_zero (nb - hi)); [ring| |].
  - intros k Hk. apply Hz. lia.
  - intros k Hk. apply Hz. lia.
Qed.

Section Manufactured.
Variables (nc nq : nat).
Variable phi : nat -> nat -> nat -> nat -> F.
Variables W X Av Bv Cv Dv : nat -> nat -> F.
Variable msq : F.

(** the weak form applied to a function given by its values U0 and the values U1 of its derivative at the points *)
Definition gk_weak_u (U0 U1 : nat -> nat -> F) (a : nat) : F :=
  gsum nc (fun c => gsum nq (fun q =>
    W c q * (spopp K (Av c q) * U1 c q * (phi 1%nat a c q * X c q + phi 0%nat a c q)
             + Bv c q * U1 c q * phi 0%nat a c q * X c q
             + Cv c q * U0 c q * phi 0%nat a c q * X c q
             - msq * (Dv c q * U0 c q * phi 0%nat a c q * X c q)))).

(** the rows of the Galerkin matrix applied to a coefficient vector = the weak form of its spline *)
Lemma gk_weak_bilinear nb (cu : nat -> F) a :
  gsum nb (fun b => gk_weak nc nq phi W X Av Bv Cv Dv msq a b * cu b)
  = gk_weak_u (fun c q => gsum nb (fun b => cu b * phi 0%nat b c q)) (fun c q => gsum nb (fun b => cu b * phi 1%nat b c q)) a.
Proof.
  unfold gk_weak, gk_weak_u.
  rewrite (gs_ext nb _ (fun b => gsum nc (fun c => gsum nq (fun q =>
     W c q * (spopp K (Av c q) * (phi 1%nat a c q * X c q + phi 0%nat a c q) + Bv c q * phi 0%nat a c q * X c q) * (cu b * phi 1%nat b c q)
     + W c q * (Cv c q * phi 0%nat a c q * X c q - msq * (Dv c q * phi 0%nat a c q * X c q)) * (cu b * phi 0%nat b c q))))).
  2:{ intros b _. rewrite <- gs_scale_r. apply gs_ext. intros c _. rewrite <- gs_scale_r. apply gs_ext. intros q _. ring. }
  rewrite (gs_swap nb nc). apply gs_ext. intros c _. rewrite (gs_swap nb nq). apply gs_ext. intros q _.
  rewrite gs_lin2. ring.
Qed.
End Manufactured.

(** Manufactured solution, algebraic core.  Let cu be a coefficient vector that vanishes on the Dirichlet sides, whose
    spline takes the values u0 and whose derivative takes the values u1 at the quadrature points.  If
      (IBP)  for every test function B_a that is an unknown,
               sum w (-A) u1 (B_a' r + B_a)  =  sum w A u2 B_a r        (integration by parts at quadrature level:
               exactness of the rule on every cell + continuity of B_a + vanishing boundary term), and
      (EQ)   A u2 + B u1 + C u0 - m^2 D u0 = E rho at every quadrature point (the strong equation),
    then cu satisfies the linear system of the mode, hence (uniqueness of the checked solve) the solver returns cu. *)
Theorem gk_manufactured_core knots p nc nq pts wts mf At Bt Ct Dt Et S lN uN m buf rhot c (cu : nat -> F)
  (u0 u1 u2 : nat -> nat -> F) :
  gk_assemble F K knots p nc nq pts wts mf At Bt Ct Dt Et = SpOk S ->
  gk_solve_mode_func F K S lN uN m buf nc nq pts wts mf rhot = SpOk c ->
  (2 <= nc + p)%nat ->
  (forall b, (b < gk_coeff_lo lN m \/ gk_coeff_hi (nc + p) uN m <= b)%nat -> cu b = 0) ->
  (forall c q, (c < nc)%nat -> (q < nq)%nat ->
     gsum (nc + p) (fun b => cu b * gk_phi F K p (gka_tab F S) 0 b c q) = u0 c q) ->
  (forall c q, (c < nc)%nat -> (q < nq)%nat ->
     gsum (nc + p) (fun b => cu b * gk_phi F K p (gka_tab F S) 1 b c q) = u1 c q) ->
  (forall a, (gk_coeff_lo lN m <= a < gk_coeff_hi (nc + p) uN m)%nat ->
     gsum nc (fun c => gsum nq (fun q => gk_Wf wts mf c q * (spopp K (gk_at F K At c q) * u1 c q
        * (gk_phi F K p (gka_tab F S) 1 a c q * gk_at F K pts c q + gk_phi F K p (gka_tab F S) 0 a c q))))
     = gsum nc (fun c => gsum nq (fun q => gk_Wf wts mf c q * (gk_at F K At c q * u2 c q
        * gk_phi F K p (gka_tab F S) 0 a c q * gk_at F K pts c q)))) ->
  (forall c q, (c < nc)%nat -> (q < nq)%nat ->
     gk_at F K At c q * u2 c q + gk_at F K Bt c q * u1 c q + gk_at F K Ct c q * u0 c q
     - gk_msq F K m * (gk_at F K Dt c q * u0 c q) = gk_at F K Et c q * gk_at F K rhot c q) ->
  forall i, (i < nc + p)%nat -> nth i c 0 = cu i.
Proof.
  intros Hasm Hsol Hnb Hz HU0 HU1 Hibp Heq.
  assert (Hf : gka_nb F S = (nc + p)%nat /\ gka_p F S = p /\ gka_E F S = Et).
  { destruct (gk_assemble_inv _ _ _ _ _ _ _ _ _ _ _ _ _ Hasm) as [T [_ [_ ->]]]. cbv zeta. repeat split. }
  destruct Hf as [Enb [Ep EE]].
  unfold gk_solve_mode_func, gk_solve_rhs in Hsol. cbv zeta in Hsol. rewrite Enb in Hsol.
  set (lo := gk_coeff_lo lN m) in *. set (hi := gk_coeff_hi (nc + p) uN m) in *.
  pose proof (gk_coeff_lo_le1 lN m) as Hlo. pose proof (gk_coeff_hi_ge (nc + p) uN m) as Hhi. fold lo in Hlo. fold hi in Hhi.
  assert (Hhn : (hi <= nc + p)%nat) by (unfold hi, gk_coeff_hi; lia).
  destruct (gk_lin_solve F K (hi - lo) _ _) as [sol| | | |] eqn:E1; cbn [sp_bind] in Hsol; try discriminate.
  inversion Hsol as [Hc]. clear Hsol.
  destruct (gk_lin_solve_spec _ _ _ _ E1) as [_ [_ Huniq]].
  set (y := map (fun j => cu (lo + j)%nat) (seq 0 (hi - lo))).
  assert (Hy : forall j, (j < hi - lo)%nat -> nth j y 0 = cu (lo + j)%nat).
  { intros j Hj. unfold y. rewrite (gk_nth_map_seq (fun j0 => cu (lo + j0)%nat) 0 _ 0 j Hj). reflexivity. }
  assert (Hsys : gk_solves (hi - lo) (gk_mode_matrix F K S m lo hi) y
                   (gk_rhs_func F K S nc nq pts wts mf rhot lo hi)).
  { intros r Hr. unfold gk_dot.
    rewrite (gk_rhs_func_spec S nc nq pts wts mf rhot lo hi r Hr). rewrite Ep, EE.
    transitivity (gsum (nc + p) (fun b => gk_stiff F K S m (lo + r) b * cu b)).
    - rewrite (gk_restrict_sum (nc + p) lo hi (fun b => gk_stiff F K S m (lo + r) b * cu b)); [|lia|lia|].
      2:{ intros b Hb. rewrite (Hz b Hb). ring. }
      apply gs_ext. intros j Hj. rewrite (Hy j Hj). f_equal. unfold gk_mode_matrix.
      rewrite (gk_nth_map_seq (fun a => map (fun b => gk_stiff F K S m a b) (seq lo (hi - lo))) [] _ _ r Hr).
      rewrite (gk_nth_map_seq (fun b => gk_stiff F K S m (lo + r) b) 0 _ _ j Hj). reflexivity.
    - rewrite (gs_ext (nc + p) _ (fun b => gk_weak nc nq (gk_phi F K p (gka_tab F S)) (gk_Wf wts mf) (gk_at F K pts) (gk_at F K At)
                  (gk_at F K Bt) (gk_at F K Ct) (gk_at F K Dt) (gk_msq F K m) (lo + r) b * cu b)).
      2:{ intros b Hb. rewrite (gk_stiffness_is_weak_form _ _ _ _ _ _ _ _ _ _ _ _ _ m (lo + r)%nat b Hasm) by lia. reflexivity. }
      rewrite gk_weak_bilinear. unfold gk_weak_u.
      transitivity (gsum nc (fun c0 => gsum nq (fun q =>
          gk_Wf wts mf c0 q * (spopp K (gk_at F K At c0 q) * u1 c0 q
             * (gk_phi F K p (gka_tab F S) 1 (lo + r) c0 q * gk_at F K pts c0 q + gk_phi F K p (gka_tab F S) 0 (lo + r) c0 q))
          + gk_Wf wts mf c0 q * (gk_at F K Bt c0 q * u1 c0 q + gk_at F K Ct c0 q * u0 c0 q - gk_msq F K m * (gk_at F K Dt c0 q * u0 c0 q))
            * (gk_phi F K p (gka_tab F S) 0 (lo + r) c0 q * gk_at F K pts c0 q)))).
      { apply gs_ext. intros c0 Hc0. apply gs_ext. intros q Hq. rewrite (HU0 c0 q Hc0 Hq), (HU1 c0 q Hc0 Hq). ring. }
      rewrite (gs_ext nc _ (fun c0 => gsum nq (fun q => gk_Wf wts mf c0 q * (spopp K (gk_at F K At c0 q) * u1 c0 q
             * (gk_phi F K p (gka_tab F S) 1 (lo + r) c0 q * gk_at F K pts c0 q + gk_phi F K p (gka_tab F S) 0 (lo + r) c0 q)))
          + gsum nq (fun q => gk_Wf wts mf c0 q * (gk_at F K Bt c0 q * u1 c0 q + gk_at F K Ct c0 q * u0 c0 q - gk_msq F K m * (gk_at F K Dt c0 q * u0 c0 q))
            * (gk_phi F K p (gka_tab F S) 0 (lo + r) c0 q * gk_at F K pts c0 q)))) by (intros; apply gs_add).
      rewrite gs_add. rewrite (Hibp (lo + r)%nat ltac:(lia)). rewrite <- gs_add.
      apply gs_ext. intros c0 Hc0. rewrite <- gs_add. apply gs_ext. intros q Hq.
      transitivity (gk_Wf wts mf c0 q * gk_phi F K p (gka_tab F S) 0 (lo + r) c0 q * gk_at F K pts c0 q
                    * (gk_at F K Et c0 q * gk_at F K rhot c0 q)); [|ring].
      rewrite <- (Heq c0 q Hc0 Hq). ring. }
  intros i Hi. try rewrite <- Hc. rewrite gk_store_nth by exact Hi.
  destruct (Nat.leb_spec lo i), (Nat.ltb_spec i hi); cbn [andb].
  - rewrite <- (Huniq y Hsys (i - lo)%nat) by lia. rewrite Hy by lia. f_equal. lia.
  - destruct (Nat.eqb_spec i (nc + p - 1)); [rewrite orb_true_r; symmetry; apply Hz; lia|lia].
  - destruct (Nat.eqb_spec i 0); [cbn [orb]; symmetry; apply Hz; lia|lia].
  - destruct (Nat.eqb_spec i 0); [cbn [orb]; symmetry; apply Hz; lia|lia].
Qed.

(* ---------------------------------------------------------------------------------------- *)
(** * the spline of a polynomial at the quadrature points (Marsden coefficients of C08) *)
Lemma gk_mapM_nth {A B : Type} (f : A -> sp_res B) da db : forall l r i,
  sp_mapM f l = SpOk r -> (i < length l)%nat -> f (nth i l da) = SpOk (nth i r db).
Proof.
  induction l as [|x l IH]; intros r i H Hi; [cbn in Hi; lia|]. cbn [sp_mapM] in H.
  destruct (f x) as [y| | | |] eqn:Ex; cbn [sp_bind] in H; try discriminate.
  destruct (sp_mapM f l) as [ys| | | |] eqn:El; cbn [sp_bind] in H; try discriminate.
  inversion H. destruct i as [|i]; cbn [nth]; [exact Ex|]. apply IH; [reflexivity|cbn in Hi; lia].
Qed.

Lemma gk_point_values knots p x s v d : gk_point F K knots p x = SpOk (s, (v, d)) -> v = sp_A22 F K knots p x s.
Proof.
  unfold gk_point. destruct (sp_nu_find_span F K knots p x) as [s0| | | |]; cbn [sp_bind]; try discriminate.
  unfold sp_nu_basis_funs.
  destruct ((p <=? s0)%nat && (s0 + p <? length knots)%nat); cbn [sp_bind]; try discriminate.
  destruct (sp_denoms_ok F K (sp_kn F K knots) x s0 p); cbn [sp_bind]; try discriminate.
  destruct (sp_nu_basis_funs_1st_der F K knots p x s0) as [d0| | | |]; cbn [sp_bind]; try discriminate.
  intros H. inversion H. reflexivity.
Qed.

(** at a quadrature point the spline with the Marsden coefficients of a polynomial of degree <= p takes the value of
    the polynomial: the hypothesis "u0" of gk_manufactured_core holds with cu = ip_poly_coeff *)
Theorem gk_poly_at_nodes knots p nc nq pts wts mf At Bt Ct Dt Et Sv a c q :
  gk_assemble F K knots p nc nq pts wts mf At Bt Ct Dt Et = SpOk Sv ->
  ip_clamped F K knots p -> length knots = (nc + 2 * p + 1)%nat -> (length a <= S p)%nat ->
  (c < nc)%nat -> (q < nq)%nat -> (c < length pts)%nat -> (q < length (nth c pts []))%nat ->
  gsum (nc + p) (fun b => ip_poly_coeff F K knots p a b * gk_phi F K p (gka_tab F Sv) 0 b c q)
  = ip_polyval F K a (gk_at F K pts c q).
Proof.
  intros Hasm Hcl Hlen Ha Hc Hq Hcl' Hql.
  destruct (gk_assemble_inv _ _ _ _ _ _ _ _ _ _ _ _ _ Hasm) as [T [HT [Hs ->]]]. cbv zeta. cbn [gka_tab].
  pose proof Hcl as [Hsorted [_ [_ [_ Hst]]]].
  unfold gk_table in HT.
  pose proof (gk_mapM_nth (fun row => sp_mapM (gk_point F K knots p) row) [] [] pts T c HT Hcl') as Hrow.
  pose proof (gk_mapM_nth (gk_point F K knots p) 0 (0%nat, ([], [])) (nth c pts []) (nth c T []) q Hrow Hql) as Hpt.
  unfold gk_spans_ok in Hs. rewrite forallb_forall in Hs. specialize (Hs c). rewrite in_seq in Hs. specialize (Hs ltac:(lia)).
  rewrite forallb_forall in Hs. specialize (Hs q). rewrite in_seq in Hs. specialize (Hs ltac:(lia)). apply Nat.eqb_eq in Hs.
  destruct (nth q (nth c T []) (0%nat, ([], []))) as [s [v d]] eqn:En. cbn [fst] in Hs. subst s.
  pose proof (gk_point_values _ _ _ _ _ _ Hpt) as Ev.
  assert (Hsp : sp_span_ok F K knots (p + c)). { apply Hst. lia. }
  unfold gk_at. rewrite <- (ip_poly_local F K HK knots p a Hsorted Ha (nth q (nth c pts []) 0) (p + c)%nat Hsp ltac:(lia)).
  rewrite (gk_restrict_sum (nc + p) c (c + S p)); [| lia | lia |].
  - replace (c + S p - c)%nat with (S p) by lia. apply gs_ext. intros j Hj.
    unfold gk_phi. rewrite En. unfold gk_pick.
    destruct (Nat.leb_spec (p + c - p) (c + j)); [|lia]. destruct (Nat.leb_spec (c + j) (p + c)); [|lia]. cbn [andb].
    replace (c + j - (p + c - p))%nat with j by lia. replace (p + c - p + j)%nat with (c + j)%nat by lia.
    rewrite Ev. reflexivity.
  - intros b Hb. unfold gk_phi. rewrite En. rewrite gk_pick_outside by lia. ring.
Qed.

End GkTheory.
