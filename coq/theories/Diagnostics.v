(** C17 - diagnostics and global reductions (pygyro/diagnostics/norms.py, energy.py,
    diagnostic_collector.py, Grid.getMin / getMax in pygyro/model/grid.py).

    Part 1: folds over a commutative monoid (used at (Z,+,0), (option Z,min,+inf), (option Z,max,-inf)):
            the local folds over the blocks of a balanced decomposition combine to the global fold,
            in one dimension and for N-d boxes; fixed-index slices with the neutral element.
    Part 2: the executable model of what the classes compute, on Z (integer-valued grids and fields).
    Part 3: the model's local value is a fold over the rank's block of a global integrand, hence the
            Reduce over all ranks is the serial quadrature.
    Exact arithmetic: float rounding / re-association of the real reduction is outside this model. *)
From Coq Require Import ZArith List Arith Lia PeanoNat Bool.
Import ListNotations.
From PGV Require Import Blocks NdIndex Layouts.

(** * 1. Folds over a commutative monoid *)
Section DgFold.
Context {M : Type}.
Variable op : M -> M -> M.
Variable e : M.
Hypothesis op_assoc : forall a b c, op a (op b c) = op (op a b) c.
Hypothesis op_comm : forall a b, op a b = op b a.
Hypothesis op_e_l : forall a, op e a = a.

Lemma dg_op_e_r a : op a e = a.
Proof. rewrite op_comm. apply op_e_l. Qed.

(** fold of f over [a, a+k) *)
Fixpoint dg_fold (a k : nat) (f : nat -> M) : M :=
  match k with O => e | S k' => op (f a) (dg_fold (S a) k' f) end.

Lemma dg_fold_ext a k f g : (forall i, a <= i < a + k -> f i = g i) -> dg_fold a k f = dg_fold a k g.
Proof. revert a. induction k as [|k IH]; intros a H; cbn [dg_fold]; [reflexivity|].
  rewrite H by lia. rewrite (IH (S a)); [reflexivity|]. intros; apply H; lia. Qed.

Lemma dg_fold_app a k1 k2 f : dg_fold a (k1 + k2) f = op (dg_fold a k1 f) (dg_fold (a + k1) k2 f).
Proof. revert a. induction k1 as [|k1 IH]; intros a; cbn [dg_fold Nat.add].
  - rewrite Nat.add_0_r, op_e_l. reflexivity.
  - rewrite IH. replace (S a + k1) with (a + S k1) by lia. rewrite op_assoc. reflexivity. Qed.

Lemma dg_fold_e a k : dg_fold a k (fun _ => e) = e.
Proof. revert a. induction k as [|k IH]; intros a; cbn [dg_fold]; [reflexivity|]. rewrite IH. apply op_e_l. Qed.

Lemma dg_fold_op a k f g : dg_fold a k (fun i => op (f i) (g i)) = op (dg_fold a k f) (dg_fold a k g).
Proof. revert a. induction k as [|k IH]; intros a; cbn [dg_fold].
  - rewrite op_e_l. reflexivity.
  - rewrite IH. set (x := f a). set (y := g a). set (u := dg_fold (S a) k f). set (v := dg_fold (S a) k g).
    rewrite <- (op_assoc x y (op u v)), (op_assoc y u v), (op_comm y u), <- (op_assoc u y v), (op_assoc x u (op y v)).
    reflexivity. Qed.

Lemma dg_fold_swap a k b m (f : nat -> nat -> M) :
  dg_fold a k (fun i => dg_fold b m (fun j => f i j)) = dg_fold b m (fun j => dg_fold a k (fun i => f i j)).
Proof. revert a. induction k as [|k IH]; intros a; cbn [dg_fold].
  - rewrite dg_fold_e. reflexivity.
  - rewrite IH, <- dg_fold_op. reflexivity. Qed.

Lemma dg_fold_shift s k f : dg_fold 0 k (fun j => f (s + j)) = dg_fold s k f.
Proof. revert s f. induction k as [|k IH]; intros s f; cbn [dg_fold]; [reflexivity|].
  rewrite Nat.add_0_r. f_equal. rewrite <- (IH (S s) f).
  rewrite <- (IH 1 (fun j => f (s + j))). apply dg_fold_ext. intros i _. f_equal. lia. Qed.

(** the local folds over the blocks of the balanced decomposition combine to the global fold *)
Theorem dg_fold_blocks n p f : 0 < p ->
  dg_fold 0 p (fun k => dg_fold (bstart n p k) (blen n p k) f) = dg_fold 0 n f.
Proof.
  intros Hp.
  assert (H : forall m, m <= p ->
    dg_fold 0 m (fun k => dg_fold (bstart n p k) (blen n p k) f) = dg_fold 0 (bstart n p m) f).
  { induction m as [|m IH]; intros Hm.
    - rewrite bstart_0. reflexivity.
    - replace (S m) with (m + 1) at 1 by lia. rewrite dg_fold_app, IH by lia. cbn [dg_fold Nat.add].
      rewrite dg_op_e_r. rewrite <- (bstart_blen n p m Hp), dg_fold_app. reflexivity. }
  rewrite H by lia. rewrite bstart_p by exact Hp. reflexivity.
Qed.

(** a fold of a function that is neutral except at index x *)
Lemma dg_fold_delta a k x h :
  dg_fold a k (fun i => if i =? x then h i else e) = if (a <=? x) && (x <? a + k) then h x else e.
Proof. revert a. induction k as [|k IH]; intros a; cbn [dg_fold].
  - destruct (Nat.leb_spec a x), (Nat.ltb_spec x (a + 0)); cbn; try reflexivity; lia.
  - rewrite IH. destruct (Nat.eqb_spec a x) as [->|Ne].
    + rewrite Nat.leb_refl. destruct (Nat.leb_spec (S x) x); [lia|]. cbn [andb].
      destruct (Nat.ltb_spec x (x + S k)); [|lia]. apply dg_op_e_r.
    + rewrite op_e_l.
      destruct (Nat.leb_spec (S a) x), (Nat.leb_spec a x), (Nat.ltb_spec x (S a + k)), (Nat.ltb_spec x (a + S k));
        cbn; try reflexivity; lia. Qed.

(** N-d: fold over a box given by (start, length) per axis; [h] receives the index list in axis order *)
Fixpoint dg_ndfold (rs : list (nat * nat)) (h : list nat -> M) : M :=
  match rs with
  | [] => h []
  | (a, k) :: rs' => dg_fold a k (fun i => dg_ndfold rs' (fun idx => h (i :: idx)))
  end.

Lemma dg_ndfold_ext rs : forall h h', (forall idx, h idx = h' idx) -> dg_ndfold rs h = dg_ndfold rs h'.
Proof. induction rs as [|[a k] rs IH]; intros h h' H; cbn [dg_ndfold]; [apply H|].
  apply dg_fold_ext. intros i _. apply IH. intros idx. apply H. Qed.

Lemma dg_ndfold_e rs : dg_ndfold rs (fun _ => e) = e.
Proof. induction rs as [|[a k] rs IH]; cbn [dg_ndfold]; [reflexivity|].
  rewrite (dg_fold_ext a k _ (fun _ => e)) by (intros; apply IH). apply dg_fold_e. Qed.

Lemma dg_ndfold_fold_swap rs : forall a k (X : nat -> list nat -> M),
  dg_ndfold rs (fun idx => dg_fold a k (fun i => X i idx)) = dg_fold a k (fun i => dg_ndfold rs (X i)).
Proof. induction rs as [|[b m] rs IH]; intros a k X; cbn [dg_ndfold]; [reflexivity|].
  rewrite (dg_fold_ext b m _ (fun j => dg_fold a k (fun i => dg_ndfold rs (fun idx => X i (j :: idx))))).
  2:{ intros j _. apply (IH a k (fun i idx => X i (j :: idx))). }
  apply dg_fold_swap. Qed.

(** in-range extensionality *)
Inductive dg_inbox : list (nat * nat) -> list nat -> Prop :=
| dg_inbox_nil : dg_inbox [] []
| dg_inbox_cons a k rs i idx : a <= i < a + k -> dg_inbox rs idx -> dg_inbox ((a, k) :: rs) (i :: idx).

Lemma dg_ndfold_ext_in rs : forall h h', (forall idx, dg_inbox rs idx -> h idx = h' idx) ->
  dg_ndfold rs h = dg_ndfold rs h'.
Proof. induction rs as [|[a k] rs IH]; intros h h' H; cbn [dg_ndfold]; [apply H; constructor|].
  apply dg_fold_ext. intros i Hi. apply IH. intros idx Hidx. apply H. constructor; assumption. Qed.

(** local index + start = global index, axis by axis *)
Fixpoint dg_addv (s j : list nat) : list nat :=
  match s, j with a :: s', i :: j' => (a + i) :: dg_addv s' j' | _, _ => [] end.

Lemma dg_ndfold_shift rs : forall h,
  dg_ndfold (map (fun r => (0, snd r)) rs) (fun j => h (dg_addv (map fst rs) j)) = dg_ndfold rs h.
Proof. induction rs as [|[a k] rs IH]; intros h; cbn [dg_ndfold map fst snd dg_addv]; [reflexivity|].
  rewrite <- (dg_fold_shift a k (fun i => dg_ndfold rs (fun idx => h (i :: idx)))).
  apply dg_fold_ext. intros i _. apply (IH (fun idx => h ((a + i) :: idx))). Qed.

(** blocks of a rank with coordinates ks on axes (extent, process count) *)
Fixpoint dg_blocks (axes : list (nat * nat)) (ks : list nat) : list (nat * nat) :=
  match axes with
  | [] => []
  | (n, p) :: ax => (bstart n p (hd 0 ks), blen n p (hd 0 ks)) :: dg_blocks ax (tl ks)
  end.
Definition dg_rank_ranges (axes : list (nat * nat)) : list (nat * nat) := map (fun np => (0, snd np)) axes.
Definition dg_full_ranges (axes : list (nat * nat)) : list (nat * nat) := map (fun np => (0, fst np)) axes.

(** N-d version of [dg_fold_blocks]: folding, over all rank coordinates, the local folds over the rank's
    box gives the fold over the whole index space *)
Theorem dg_ndfold_blocks axes : Forall (fun np => 0 < snd np) axes -> forall h,
  dg_ndfold (dg_rank_ranges axes) (fun ks => dg_ndfold (dg_blocks axes ks) h) = dg_ndfold (dg_full_ranges axes) h.
Proof.
  induction 1 as [|[n p] ax Hp Hax IH]; intros h; [reflexivity|].
  cbn [dg_rank_ranges dg_full_ranges map fst snd dg_ndfold] in *. fold (dg_rank_ranges ax). fold (dg_full_ranges ax).
  rewrite (dg_fold_ext 0 p _ (fun k => dg_fold (bstart n p k) (blen n p k)
             (fun i => dg_ndfold (dg_full_ranges ax) (fun idx => h (i :: idx))))).
  - apply dg_fold_blocks. exact Hp.
  - intros k _. cbn [dg_blocks hd tl dg_ndfold].
    rewrite (dg_ndfold_fold_swap (dg_rank_ranges ax) (bstart n p k) (blen n p k)
               (fun i ks => dg_ndfold (dg_blocks ax ks) (fun idx => h (i :: idx)))).
    apply dg_fold_ext. intros i _. apply (IH (fun idx => h (i :: idx))).
Qed.

(** exchanging two adjacent axes of the box (summation order / dims_order is irrelevant) *)
Fixpoint dg_swap_at (n : nat) (l : list nat) : list nat :=
  match n, l with
  | O, x :: y :: t => y :: x :: t
  | S n', x :: t => x :: dg_swap_at n' t
  | _, _ => l
  end.

Lemma dg_ndfold_swap_adj pre : forall a b post h,
  dg_ndfold (pre ++ a :: b :: post) h = dg_ndfold (pre ++ b :: a :: post) (fun idx => h (dg_swap_at (length pre) idx)).
Proof. induction pre as [|[c m] pre IH]; intros [a k] [b l] post h; cbn [app length dg_ndfold].
  - rewrite dg_fold_swap. reflexivity.
  - apply dg_fold_ext. intros i _. rewrite (IH (a, k) (b, l) post (fun idx => h (i :: idx))). reflexivity. Qed.

(** fixed-index slices: [fixs] gives per axis an optional fixed index *)
Definition dg_inrange (r : nat * nat) (x : nat) : bool := (fst r <=? x) && (x <? fst r + snd r).
Fixpoint dg_has_data (rs : list (nat * nat)) (fixs : list (option nat)) : bool :=
  match rs, fixs with
  | r :: rs', Some x :: fs => dg_inrange r x && dg_has_data rs' fs
  | _ :: rs', None :: fs => dg_has_data rs' fs
  | _, _ => true
  end.
Fixpoint dg_slice_ranges (rs : list (nat * nat)) (fixs : list (option nat)) : list (nat * nat) :=
  match rs, fixs with
  | _ :: rs', Some x :: fs => (x, 1) :: dg_slice_ranges rs' fs
  | r :: rs', None :: fs => r :: dg_slice_ranges rs' fs
  | _, _ => rs
  end.
Fixpoint dg_matches (fixs : list (option nat)) (idx : list nat) : bool :=
  match fixs, idx with
  | Some x :: fs, i :: idx' => (i =? x) && dg_matches fs idx'
  | None :: fs, _ :: idx' => dg_matches fs idx'
  | _, _ => true
  end.

(** what a rank contributes to a slice reduction: the fold over its part of the slice if it owns the
    fixed indices, else the neutral element *)
Definition dg_slice_fold (rs : list (nat * nat)) (fixs : list (option nat)) (h : list nat -> M) : M :=
  if dg_has_data rs fixs then dg_ndfold (dg_slice_ranges rs fixs) h else e.

Lemma dg_slice_fold_delta rs : forall fixs h,
  dg_slice_fold rs fixs h = dg_ndfold rs (fun idx => if dg_matches fixs idx then h idx else e).
Proof.
  unfold dg_slice_fold.
  induction rs as [|[a k] rs IH]; intros fixs h.
  - destruct fixs as [|[x|] fs]; reflexivity.
  - destruct fixs as [|[x|] fs]; cbn [dg_has_data dg_slice_ranges dg_ndfold dg_matches].
    + reflexivity.
    + rewrite (dg_fold_ext a k _ (fun i => if i =? x then
                 dg_ndfold rs (fun idx => if dg_matches fs idx then h (i :: idx) else e) else e)).
      2:{ intros i _. destruct (i =? x); cbn [andb]; [reflexivity|]. apply dg_ndfold_e. }
      rewrite dg_fold_delta. unfold dg_inrange. cbn [fst snd].
      destruct ((a <=? x) && (x <? a + k)); cbn [andb]; [|reflexivity].
      rewrite <- (IH fs (fun idx => h (x :: idx))).
      destruct (dg_has_data rs fs); [|reflexivity]. cbn [dg_fold]. apply dg_op_e_r.
    + rewrite (dg_fold_ext a k (fun i => dg_ndfold rs (fun idx => if dg_matches fs idx then h (i :: idx) else e))
                 (fun i => if dg_has_data rs fs then
                   dg_ndfold (dg_slice_ranges rs fs) (fun idx => h (i :: idx)) else e)).
      2:{ intros i _. symmetry. apply (IH fs (fun idx => h (i :: idx))). }
      destruct (dg_has_data rs fs); [reflexivity|]. symmetry. apply dg_fold_e.
Qed.

(** the reduction over all ranks of the slice contributions is the fold over the global slice *)
Theorem dg_slice_blocks axes fixs h : Forall (fun np => 0 < snd np) axes ->
  dg_ndfold (dg_rank_ranges axes) (fun ks => dg_slice_fold (dg_blocks axes ks) fixs h)
  = dg_slice_fold (dg_full_ranges axes) fixs h.
Proof.
  intros Hax.
  rewrite (dg_ndfold_ext _ _ (fun ks => dg_ndfold (dg_blocks axes ks)
             (fun idx => if dg_matches fixs idx then h idx else e))) by (intros; apply dg_slice_fold_delta).
  rewrite dg_ndfold_blocks by exact Hax. symmetry. apply dg_slice_fold_delta.
Qed.

(** an empty box folds to the neutral element (the [_f.size == 0] branch of getMin/getMax) *)
Lemma dg_ndfold_empty rs : forall h, fold_right Nat.mul 1 (map snd rs) = 0 -> dg_ndfold rs h = e.
Proof. induction rs as [|[a k] rs IH]; intros h H; cbn [map snd fold_right dg_ndfold] in *; [lia|].
  destruct k as [|k]; [reflexivity|].
  rewrite (dg_fold_ext a (S k) _ (fun _ => e)); [apply dg_fold_e|]. intros i _. apply IH. nia. Qed.

(** Reduce over the list of all ranks in row-major (Create_cart) order *)
Definition dg_reduce (vals : list M) : M := fold_right op e vals.

Fixpoint dg_coords (ps : list nat) : list (list nat) :=
  match ps with
  | [] => [[]]
  | p :: ps' => flat_map (fun k => map (cons k) (dg_coords ps')) (seq 0 p)
  end.

Lemma dg_reduce_app l1 l2 : dg_reduce (l1 ++ l2) = op (dg_reduce l1) (dg_reduce l2).
Proof. unfold dg_reduce. induction l1 as [|x l1 IH]; cbn [app fold_right]; [rewrite op_e_l; reflexivity|].
  rewrite IH, op_assoc. reflexivity. Qed.

Lemma dg_reduce_flat_map {A} (F : nat -> list A) (g : A -> M) a k :
  dg_reduce (map g (flat_map F (seq a k))) = dg_fold a k (fun i => dg_reduce (map g (F i))).
Proof. revert a. induction k as [|k IH]; intros a; cbn [seq flat_map dg_fold]; [reflexivity|].
  rewrite map_app, dg_reduce_app, IH. reflexivity. Qed.

Lemma dg_reduce_coords ps : forall g,
  dg_reduce (map g (dg_coords ps)) = dg_ndfold (map (fun p => (0, p)) ps) g.
Proof. induction ps as [|p ps IH]; intros g; cbn [dg_coords map dg_ndfold].
  - unfold dg_reduce. cbn. apply dg_op_e_r.
  - rewrite dg_reduce_flat_map. apply dg_fold_ext. intros i _. rewrite map_map. apply (IH (fun idx => g (i :: idx))). Qed.
End DgFold.

(** * 1b. Instances *)
Definition dg_sum := dg_fold Z.add 0%Z.
Definition dg_ndsum := dg_ndfold Z.add 0%Z.

(** [None] is the neutral element: +inf for MIN, -inf for MAX *)
Definition dg_omin (a b : option Z) : option Z :=
  match a, b with Some x, Some y => Some (Z.min x y) | Some x, None => Some x | None, y => y end.
Definition dg_omax (a b : option Z) : option Z :=
  match a, b with Some x, Some y => Some (Z.max x y) | Some x, None => Some x | None, y => y end.

Lemma dg_omin_assoc a b c : dg_omin a (dg_omin b c) = dg_omin (dg_omin a b) c.
Proof. destruct a, b, c; cbn; try reflexivity. rewrite Z.min_assoc. reflexivity. Qed.
Lemma dg_omin_comm a b : dg_omin a b = dg_omin b a.
Proof. destruct a, b; cbn; try reflexivity. rewrite Z.min_comm. reflexivity. Qed.
Lemma dg_omin_e_l a : dg_omin None a = a. Proof. reflexivity. Qed.
Lemma dg_omax_assoc a b c : dg_omax a (dg_omax b c) = dg_omax (dg_omax a b) c.
Proof. destruct a, b, c; cbn; try reflexivity. rewrite Z.max_assoc. reflexivity. Qed.
Lemma dg_omax_comm a b : dg_omax a b = dg_omax b a.
Proof. destruct a, b; cbn; try reflexivity. rewrite Z.max_comm. reflexivity. Qed.
Lemma dg_omax_e_l a : dg_omax None a = a. Proof. reflexivity. Qed.

(** ** Z-specific facts: scaling, constant functions, products of weights *)
Lemma dg_sum_scale a k c f : dg_sum a k (fun i => f i * c)%Z = (dg_sum a k f * c)%Z.
Proof. unfold dg_sum. revert a. induction k as [|k IH]; intros a; cbn [dg_fold]; [reflexivity|]. rewrite IH. ring. Qed.

Lemma dg_sum_const a k c : dg_sum a k (fun _ => c) = (Z.of_nat k * c)%Z.
Proof. unfold dg_sum. revert a. induction k as [|k IH]; intros a; cbn [dg_fold]; [reflexivity|]. rewrite IH. lia. Qed.

(** product of per-axis weights at a multi-index, and the product of the per-axis weight sums *)
Fixpoint dg_prodw (ws : list (nat -> Z)) (idx : list nat) : Z :=
  match ws, idx with w :: ws', i :: idx' => (w i * dg_prodw ws' idx')%Z | _, _ => 1%Z end.
Fixpoint dg_prod_sums (rs : list (nat * nat)) (ws : list (nat -> Z)) : Z :=
  match rs, ws with (a, k) :: rs', w :: ws' => (dg_sum a k w * dg_prod_sums rs' ws')%Z | _, _ => 1%Z end.

Lemma dg_ndsum_prodw rs : forall ws, length ws = length rs -> dg_ndsum rs (dg_prodw ws) = dg_prod_sums rs ws.
Proof. unfold dg_ndsum. induction rs as [|[a k] rs IH]; intros [|w ws] H; cbn [length] in H; try discriminate;
  cbn [dg_ndfold dg_prod_sums]; [reflexivity|].
  rewrite (dg_fold_ext Z.add 0%Z a k _ (fun i => w i * dg_prod_sums rs ws)%Z).
  - apply (dg_sum_scale a k (dg_prod_sums rs ws) w).
  - intros i _. cbn [dg_prodw]. rewrite <- (IH ws) by lia. symmetry.
    assert (G : forall rs' c g, dg_ndfold Z.add 0%Z rs' (fun idx => c * g idx)%Z = (c * dg_ndfold Z.add 0%Z rs' g)%Z).
    { clear. induction rs' as [|[b m] rs' IH']; intros c g; cbn [dg_ndfold]; [reflexivity|].
      rewrite (dg_fold_ext Z.add 0%Z b m _ (fun j => dg_ndfold Z.add 0%Z rs' (fun idx => g (j :: idx)) * c)%Z).
      - rewrite (dg_sum_scale b m c). unfold dg_sum. ring.
      - intros j _. rewrite (IH' c (fun idx => g (j :: idx))). ring. }
    symmetry. apply G. Qed.
