(** C17 - diagnostics and global reductions (pygyro/diagnostics/norms.py, energy.py,
    diagnostic_collector.py, Grid.getMin / getMax in pygyro/model/grid.py).

    Part 1: folds over a commutative monoid (used at (Z,+,0), (option Z,min,+inf), (option Z,max,-inf)):
            the local folds over the blocks of a balanced decomposition combine to the global fold,
            in one dimension and for N-d boxes; fixed-index slices with the neutral element.
    Part 2: the executable model of what the classes compute, on Z (integer-valued grids and fields).
    Part 3: the model's local value is a fold over the rank's block of a global integrand, hence the
            Reduce over all ranks is the serial quadrature.
    Exact arithmetic: float rounding / re-association of the real reduction is outside this model. *)
From Coq Require Import ZArith List Arith Lia PeanoNat Bool.
Import ListNotations.
From PGV Require Import Blocks NdIndex Layouts.

(** * 1. Folds over a commutative monoid *)
Section DgFold.
Context {M : Type}.
Variable op : M -> M -> M.
Variable e : M.
Hypothesis op_assoc : forall a b c, op a (op b c) = op (op a b) c.
Hypothesis op_comm : forall a b, op a b = op b a.
Hypothesis op_e_l : forall a, op e a = a.

Lemma dg_op_e_r a : op a e = a.
Proof. rewrite op_comm. apply op_e_l. Qed.

(** fold of f over [a, a+k) *)
Fixpoint dg_fold (a k : nat) (f : nat -> M) : M :=
  match k with O => e | S k' => op (f a) (dg_fold (S a) k' f) end.

Lemma dg_fold_ext a k f g : (forall i, a <= i < a + k -> f i = g i) -> dg_fold a k f = dg_fold a k g.
Proof. revert a. induction k as [|k IH]; intros a H; cbn [dg_fold]; [reflexivity|].
  rewrite H by lia. rewrite (IH (S a)); [reflexivity|]. intros; apply H; lia. Qed.

Lemma dg_fold_app a k1 k2 f : dg_fold a (k1 + k2) f = op (dg_fold a k1 f) (dg_fold (a + k1) k2 f).
Proof. revert a. induction k1 as [|k1 IH]; intros a; cbn [dg_fold Nat.add].
  - rewrite Nat.add_0_r, op_e_l. reflexivity.
  - rewrite IH. replace (S a + k1) with (a + S k1) by lia. rewrite op_assoc. reflexivity. Qed.

Lemma dg_fold_e a k : dg_fold a k (fun _ => e) = e.
Proof. revert a. induction k as [|k IH]; intros a; cbn [dg_fold]; [reflexivity|]. rewrite IH. apply op_e_l. Qed.

Lemma dg_fold_op a k f g : dg_fold a k (fun i => op (f i) (g i)) = op (dg_fold a k f) (dg_fold a k g).
Proof. revert a. induction k as [|k IH]; intros a; cbn [dg_fold].
  - rewrite op_e_l. reflexivity.
  - rewrite IH. set (x := f a). set (y := g a). set (u := dg_fold (S a) k f). set (v := dg_fold (S a) k g).
    rewrite <- (op_assoc x y (op u v)), (op_assoc y u v), (op_comm y u), <- (op_assoc u y v), (op_assoc x u (op y v)).
    reflexivity. Qed.

Lemma dg_fold_swap a k b m (f : nat -> nat -> M) :
  dg_fold a k (fun i => dg_fold b m (fun j => f i j)) = dg_fold b m (fun j => dg_fold a k (fun i => f i j)).
Proof. revert a. induction k as [|k IH]; intros a; cbn [dg_fold].
  - rewrite dg_fold_e. reflexivity.
  - rewrite IH, <- dg_fold_op. reflexivity. Qed.

Lemma dg_fold_shift s k f : dg_fold 0 k (fun j => f (s + j)) = dg_fold s k f.
Proof. revert s f. induction k as [|k IH]; intros s f; cbn [dg_fold]; [reflexivity|].
  rewrite Nat.add_0_r. f_equal. rewrite <- (IH (S s) f).
  rewrite <- (IH 1 (fun j => f (s + j))). apply dg_fold_ext. intros i _. f_equal. lia. Qed.

(** the local folds over the blocks of the balanced decomposition combine to the global fold *)
Theorem dg_fold_blocks n p f : 0 < p ->
  dg_fold 0 p (fun k => dg_fold (bstart n p k) (blen n p k) f) = dg_fold 0 n f.
Proof.
  intros Hp.
  assert (H : forall m, m <= p ->
    dg_fold 0 m (fun k => dg_fold (bstart n p k) (blen n p k) f) = dg_fold 0 (bstart n p m) f).
  { induction m as [|m IH]; intros Hm.
    - rewrite bstart_0. reflexivity.
    - replace (S m) with (m + 1) at 1 by lia. rewrite dg_fold_app, IH by lia. cbn [dg_fold Nat.add].
      rewrite dg_op_e_r. rewrite <- (bstart_blen n p m Hp), dg_fold_app. reflexivity. }
  rewrite H by lia. rewrite bstart_p by exact Hp. reflexivity.
Qed.

(** a fold of a function that is neutral except at index x *)
Lemma dg_fold_delta a k x h :
  dg_fold a k (fun i => if i =? x then h i else e) = if (a <=? x) && (x <? a + k) then h x else e.
Proof. revert a. induction k as [|k IH]; intros a; cbn [dg_fold].
  - destruct (Nat.leb_spec a x), (Nat.ltb_spec x (a + 0)); cbn; try reflexivity; lia.
  - rewrite IH. destruct (Nat.eqb_spec a x) as [->|Ne].
    + rewrite Nat.leb_refl. destruct (Nat.leb_spec (S x) x); [lia|]. cbn [andb].
      destruct (Nat.ltb_spec x (x + S k)); [|lia]. apply dg_op_e_r.
    + rewrite op_e_l.
      destruct (Nat.leb_spec (S a) x), (Nat.leb_spec a x), (Nat.ltb_spec x (S a + k)), (Nat.ltb_spec x (a + S k));
        cbn; try reflexivity; lia. Qed.

(** N-d: fold over a box given by (start, length) per axis; [h] receives the index list in axis order *)
Fixpoint dg_ndfold (rs : list (nat * nat)) (h : list nat -> M) : M :=
  match rs with
  | [] => h []
  | (a, k) :: rs' => dg_fold a k (fun i => dg_ndfold rs' (fun idx => h (i :: idx)))
  end.

Lemma dg_ndfold_ext rs : forall h h', (forall idx, h idx = h' idx) -> dg_ndfold rs h = dg_ndfold rs h'.
Proof. induction rs as [|[a k] rs IH]; intros h h' H; cbn [dg_ndfold]; [apply H|].
  apply dg_fold_ext. intros i _. apply IH. intros idx. apply H. Qed.

Lemma dg_ndfold_e rs : dg_ndfold rs (fun _ => e) = e.
Proof. induction rs as [|[a k] rs IH]; cbn [dg_ndfold]; [reflexivity|].
  rewrite (dg_fold_ext a k _ (fun _ => e)) by (intros; apply IH). apply dg_fold_e. Qed.

Lemma dg_ndfold_fold_swap rs : forall a k (X : nat -> list nat -> M),
  dg_ndfold rs (fun idx => dg_fold a k (fun i => X i idx)) = dg_fold a k (fun i => dg_ndfold rs (X i)).
Proof. induction rs as [|[b m] rs IH]; intros a k X; cbn [dg_ndfold]; [reflexivity|].
  rewrite (dg_fold_ext b m _ (fun j => dg_fold a k (fun i => dg_ndfold rs (fun idx => X i (j :: idx))))).
  2:{ intros j _. apply (IH a k (fun i idx => X i (j :: idx))). }
  apply dg_fold_swap. Qed.

(** in-range extensionality *)
Inductive dg_inbox : list (nat * nat) -> list nat -> Prop :=
| dg_inbox_nil : dg_inbox [] []
| dg_inbox_cons a k rs i idx : a <= i < a + k -> dg_inbox rs idx -> dg_inbox ((a, k) :: rs) (i :: idx).

Lemma dg_ndfold_ext_in rs : forall h h', (forall idx, dg_inbox rs idx -> h idx = h' idx) ->
  dg_ndfold rs h = dg_ndfold rs h'.
Proof. induction rs as [|[a k] rs IH]; intros h h' H; cbn [dg_ndfold]; [apply H; constructor|].
  apply dg_fold_ext. intros i Hi. apply IH. intros idx Hidx. apply H. constructor; assumption. Qed.

(** local index + start = global index, axis by axis *)
Fixpoint dg_addv (s j : list nat) : list nat :=
  match s, j with a :: s', i :: j' => (a + i) :: dg_addv s' j' | _, _ => [] end.

Lemma dg_ndfold_shift rs : forall h,
  dg_ndfold (map (fun r => (0, snd r)) rs) (fun j => h (dg_addv (map fst rs) j)) = dg_ndfold rs h.
Proof. induction rs as [|[a k] rs IH]; intros h; cbn [dg_ndfold map fst snd dg_addv]; [reflexivity|].
  rewrite <- (dg_fold_shift a k (fun i => dg_ndfold rs (fun idx => h (i :: idx)))).
  apply dg_fold_ext. intros i _. apply (IH (fun idx => h ((a + i) :: idx))). Qed.

(** blocks of a rank with coordinates ks on axes (extent, process count) *)
Fixpoint dg_blocks (axes : list (nat * nat)) (ks : list nat) : list (nat * nat) :=
  match axes with
  | [] => []
  | (n, p) :: ax => (bstart n p (hd 0 ks), blen n p (hd 0 ks)) :: dg_blocks ax (tl ks)
  end.
Definition dg_rank_ranges (axes : list (nat * nat)) : list (nat * nat) := map (fun np => (0, snd np)) axes.
Definition dg_full_ranges (axes : list (nat * nat)) : list (nat * nat) := map (fun np => (0, fst np)) axes.

(** N-d version of [dg_fold_blocks]: folding, over all rank coordinates, the local folds over the rank's
    box gives the fold over the whole index space *)
Theorem dg_ndfold_blocks axes : Forall (fun np => 0 < snd np) axes -> forall h,
  dg_ndfold (dg_rank_ranges axes) (fun ks => dg_ndfold (dg_blocks axes ks) h) = dg_ndfold (dg_full_ranges axes) h.
Proof.
  induction 1 as [|[n p] ax Hp Hax IH]; intros h; [reflexivity|].
  cbn [dg_rank_ranges dg_full_ranges map fst snd dg_ndfold] in *. fold (dg_rank_ranges ax). fold (dg_full_ranges ax).
  rewrite (dg_fold_ext 0 p _ (fun k => dg_fold (bstart n p k) (blen n p k)
             (fun i => dg_ndfold (dg_full_ranges ax) (fun idx => h (i :: idx))))).
  - apply dg_fold_blocks. exact Hp.
  - intros k _. cbn [dg_blocks hd tl dg_ndfold].
    rewrite (dg_ndfold_fold_swap (dg_rank_ranges ax) (bstart n p k) (blen n p k)
               (fun i ks => dg_ndfold (dg_blocks ax ks) (fun idx => h (i :: idx)))).
    apply dg_fold_ext. intros i _. apply (IH (fun idx => h (i :: idx))).
Qed.

(** exchanging two adjacent axes of the box (summation order / dims_order is irrelevant) *)
Fixpoint dg_swap_at (n : nat) (l : list nat) : list nat :=
  match n, l with
  | O, x :: y :: t => y :: x :: t
  | S n', x :: t => x :: dg_swap_at n' t
  | _, _ => l
  end.

Lemma dg_ndfold_swap_adj pre : forall a b post h,
  dg_ndfold (pre ++ a :: b :: post) h = dg_ndfold (pre ++ b :: a :: post) (fun idx => h (dg_swap_at (length pre) idx)).
Proof. induction pre as [|[c m] pre IH]; intros [a k] [b l] post h; cbn [app length dg_ndfold].
  - rewrite dg_fold_swap. reflexivity.
  - apply dg_fold_ext. intros i _. rewrite (IH (a, k) (b, l) post (fun idx => h (i :: idx))). reflexivity. Qed.

(** fixed-index slices: [fixs] gives per axis an optional fixed index *)
Definition dg_inrange (r : nat * nat) (x : nat) : bool := (fst r <=? x) && (x <? fst r + snd r).
Fixpoint dg_has_data (rs : list (nat * nat)) (fixs : list (option nat)) : bool :=
  match rs, fixs with
  | r :: rs', Some x :: fs => dg_inrange r x && dg_has_data rs' fs
  | _ :: rs', None :: fs => dg_has_data rs' fs
  | _, _ => true
  end.
Fixpoint dg_slice_ranges (rs : list (nat * nat)) (fixs : list (option nat)) : list (nat * nat) :=
  match rs, fixs with
  | _ :: rs', Some x :: fs => (x, 1) :: dg_slice_ranges rs' fs
  | r :: rs', None :: fs => r :: dg_slice_ranges rs' fs
  | _, _ => rs
  end.
Fixpoint dg_matches (fixs : list (option nat)) (idx : list nat) : bool :=
  match fixs, idx with
  | Some x :: fs, i :: idx' => (i =? x) && dg_matches fs idx'
  | None :: fs, _ :: idx' => dg_matches fs idx'
  | _, _ => true
  end.

(** what a rank contributes to a slice reduction: the fold over its part of the slice if it owns the
    fixed indices, else the neutral element *)
Definition dg_slice_fold (rs : list (nat * nat)) (fixs : list (option nat)) (h : list nat -> M) : M :=
  if dg_has_data rs fixs then dg_ndfold (dg_slice_ranges rs fixs) h else e.

Lemma dg_slice_fold_delta rs : forall fixs h,
  dg_slice_fold rs fixs h = dg_ndfold rs (fun idx => if dg_matches fixs idx then h idx else e).
Proof.
  unfold dg_slice_fold.
  induction rs as [|[a k] rs IH]; intros fixs h.
  - destruct fixs as [|[x|] fs]; reflexivity.
  - destruct fixs as [|[x|] fs]; cbn [dg_has_data dg_slice_ranges dg_ndfold dg_matches].
    + reflexivity.
    + rewrite (dg_fold_ext a k _ (fun i => if i =? x then
                 dg_ndfold rs (fun idx => if dg_matches fs idx then h (i :: idx) else e) else e)).
      2:{ intros i _. destruct (i =? x); cbn [andb]; [reflexivity|]. apply dg_ndfold_e. }
      rewrite dg_fold_delta. unfold dg_inrange. cbn [fst snd].
      destruct ((a <=? x) && (x <? a + k)); cbn [andb]; [|reflexivity].
      rewrite <- (IH fs (fun idx => h (x :: idx))).
      destruct (dg_has_data rs fs); [|reflexivity]. cbn [dg_fold]. apply dg_op_e_r.
    + rewrite (dg_fold_ext a k (fun i => dg_ndfold rs (fun idx => if dg_matches fs idx then h (i :: idx) else e))
                 (fun i => if dg_has_data rs fs then
                   dg_ndfold (dg_slice_ranges rs fs) (fun idx => h (i :: idx)) else e)).
      2:{ intros i _. symmetry. apply (IH fs (fun idx => h (i :: idx))). }
      destruct (dg_has_data rs fs); [reflexivity|]. symmetry. apply dg_fold_e.
Qed.

(** the reduction over all ranks of the slice contributions is the fold over the global slice *)
Theorem dg_slice_blocks axes fixs h : Forall (fun np => 0 < snd np) axes ->
  dg_ndfold (dg_rank_ranges axes) (fun ks => dg_slice_fold (dg_blocks axes ks) fixs h)
  = dg_slice_fold (dg_full_ranges axes) fixs h.
Proof.
  intros Hax.
  rewrite (dg_ndfold_ext _ _ (fun ks => dg_ndfold (dg_blocks axes ks)
             (fun idx => if dg_matches fixs idx then h idx else e))) by (intros; apply dg_slice_fold_delta).
  rewrite dg_ndfold_blocks by exact Hax. symmetry. apply dg_slice_fold_delta.
Qed.

(** an empty box folds to the neutral element (the [_f.size == 0] branch of getMin/getMax) *)
Lemma dg_ndfold_empty rs : forall h, fold_right Nat.mul 1 (map snd rs) = 0 -> dg_ndfold rs h = e.
Proof. induction rs as [|[a k] rs IH]; intros h H; cbn [map snd fold_right dg_ndfold] in *; [lia|].
  destruct k as [|k]; [reflexivity|].
  rewrite (dg_fold_ext a (S k) _ (fun _ => e)); [apply dg_fold_e|]. intros i _. apply IH. nia. Qed.

(** Reduce over the list of all ranks in row-major (Create_cart) order *)
Definition dg_reduce (vals : list M) : M := fold_right op e vals.

Fixpoint dg_coords (ps : list nat) : list (list nat) :=
  match ps with
  | [] => [[]]
  | p :: ps' => flat_map (fun k => map (cons k) (dg_coords ps')) (seq 0 p)
  end.

Lemma dg_reduce_app l1 l2 : dg_reduce (l1 ++ l2) = op (dg_reduce l1) (dg_reduce l2).
Proof. unfold dg_reduce. induction l1 as [|x l1 IH]; cbn [app fold_right]; [rewrite op_e_l; reflexivity|].
  rewrite IH, op_assoc. reflexivity. Qed.

Lemma dg_reduce_flat_map {A} (F : nat -> list A) (g : A -> M) a k :
  dg_reduce (map g (flat_map F (seq a k))) = dg_fold a k (fun i => dg_reduce (map g (F i))).
Proof. revert a. induction k as [|k IH]; intros a; cbn [seq flat_map dg_fold]; [reflexivity|].
  rewrite map_app, dg_reduce_app, IH. reflexivity. Qed.

Lemma dg_reduce_coords ps : forall g,
  dg_reduce (map g (dg_coords ps)) = dg_ndfold (map (fun p => (0, p)) ps) g.
Proof. induction ps as [|p ps IH]; intros g; cbn [dg_coords map dg_ndfold].
  - unfold dg_reduce. cbn. apply dg_op_e_r.
  - rewrite dg_reduce_flat_map. apply dg_fold_ext. intros i _. rewrite map_map. apply (IH (fun idx => g (i :: idx))). Qed.
End DgFold.

(** * 1b. Instances *)
Definition dg_sum := dg_fold Z.add 0%Z.
Definition dg_ndsum := dg_ndfold Z.add 0%Z.

(** [None] is the neutral element: +inf for MIN, -inf for MAX *)
Definition dg_omin (a b : option Z) : option Z :=
  match a, b with Some x, Some y => Some (Z.min x y) | Some x, None => Some x | None, y => y end.
Definition dg_omax (a b : option Z) : option Z :=
  match a, b with Some x, Some y => Some (Z.max x y) | Some x, None => Some x | None, y => y end.

Lemma dg_omin_assoc a b c : dg_omin a (dg_omin b c) = dg_omin (dg_omin a b) c.
Proof. destruct a, b, c; cbn; try reflexivity. rewrite Z.min_assoc. reflexivity. Qed.
Lemma dg_omin_comm a b : dg_omin a b = dg_omin b a.
Proof. destruct a, b; cbn; try reflexivity. rewrite Z.min_comm. reflexivity. Qed.
Lemma dg_omin_e_l a : dg_omin None a = a. Proof. reflexivity. Qed.
Lemma dg_omax_assoc a b c : dg_omax a (dg_omax b c) = dg_omax (dg_omax a b) c.
Proof. destruct a, b, c; cbn; try reflexivity. rewrite Z.max_assoc. reflexivity. Qed.
Lemma dg_omax_comm a b : dg_omax a b = dg_omax b a.
Proof. destruct a, b; cbn; try reflexivity. rewrite Z.max_comm. reflexivity. Qed.
Lemma dg_omax_e_l a : dg_omax None a = a. Proof. reflexivity. Qed.

(** ** Z-specific facts: scaling, constant functions, products of weights *)
Lemma dg_sum_scale a k c f : dg_sum a k (fun i => f i * c)%Z = (dg_sum a k f * c)%Z.
Proof. unfold dg_sum. revert a. induction k as [|k IH]; intros a; cbn [dg_fold]; [reflexivity|]. rewrite IH. ring. Qed.

Lemma dg_sum_const a k c : dg_sum a k (fun _ => c) = (Z.of_nat k * c)%Z.
Proof. unfold dg_sum. revert a. induction k as [|k IH]; intros a; cbn [dg_fold]; [reflexivity|]. rewrite IH. lia. Qed.

(** product of per-axis weights at a multi-index, and the product of the per-axis weight sums *)
Fixpoint dg_prodw (ws : list (nat -> Z)) (idx : list nat) : Z :=
  match ws, idx with w :: ws', i :: idx' => (w i * dg_prodw ws' idx')%Z | _, _ => 1%Z end.
Fixpoint dg_prod_sums (rs : list (nat * nat)) (ws : list (nat -> Z)) : Z :=
  match rs, ws with (a, k) :: rs', w :: ws' => (dg_sum a k w * dg_prod_sums rs' ws')%Z | _, _ => 1%Z end.

Lemma dg_ndsum_prodw rs : forall ws, length ws = length rs -> dg_ndsum rs (dg_prodw ws) = dg_prod_sums rs ws.
Proof. unfold dg_ndsum. induction rs as [|[a k] rs IH]; intros [|w ws] H; cbn [length] in H; try discriminate;
  cbn [dg_ndfold dg_prod_sums]; [reflexivity|].
  rewrite (dg_fold_ext Z.add 0%Z a k _ (fun i => w i * dg_prod_sums rs ws)%Z).
  - apply (dg_sum_scale a k (dg_prod_sums rs ws) w).
  - intros i _. cbn [dg_prodw]. rewrite <- (IH ws) by lia. symmetry.
    assert (G : forall rs' c g, dg_ndfold Z.add 0%Z rs' (fun idx => c * g idx)%Z = (c * dg_ndfold Z.add 0%Z rs' g)%Z).
    { clear. induction rs' as [|[b m] rs' IH']; intros c g; cbn [dg_ndfold]; [reflexivity|].
      rewrite (dg_fold_ext Z.add 0%Z b m _ (fun j => dg_ndfold Z.add 0%Z rs' (fun idx => g (j :: idx)) * c)%Z).
      - rewrite (dg_sum_scale b m c). unfold dg_sum. ring.
      - intros j _. rewrite (IH' c (fun idx => g (j :: idx))). ring. }
    symmetry. apply G. Qed.

(** * 2. Executable model on Z

    Conventions: eta grids are integer lists (the harness scales the real grids by powers of two);
    the trapezoid weights are kept doubled ([dg_trap2] = 2 x drMult), so a 4-D value of the model is
    4 x the value of l2/l1/nParticles (one factor 2 per trapezoid rule), 8 x for KineticEnergy (its
    [_factor2] carries an extra 0.5) and 2 x for l2 on a 3-D layout: see [dg_denominator].
    The field is given by its real and imaginary parts as flat C-ordered lists over the global shape
    [dg_N] in canonical dimension order (r, theta, z [, v]).  [_factor1] is modelled pointwise (the
    orientation of the outer product written through [.flat] only decides which broadcast axis carries
    which weight; the tie checks it). *)
Open Scope Z_scope.

Definition dg_zn (l : list Z) (i : nat) : Z := nth i l 0.
(** l[s:e] *)
Definition dg_slice (l : list Z) (s e : nat) : list Z := firstn (e - s) (skipn s l).

(** dr = r[1:] - r[:-1] *)
Fixpoint dg_diff (x : list Z) : list Z :=
  match x with a :: ((b :: _) as t) => (b - a) :: dg_diff t | _ => [] end.
(** [dr[0], dr[1]+dr[0], ..., dr[-1]] = 2 x [dr[0]*0.5, *((dr[1:]+dr[:-1])*0.5), dr[-1]*0.5] *)
Fixpoint dg_pairsum (prev : Z) (ds : list Z) : list Z :=
  match ds with [] => [prev] | d :: t => (prev + d) :: dg_pairsum d t end.
Definition dg_trap2 (x : list Z) : list Z :=
  match dg_diff x with [] => [] | d0 :: ds => d0 :: dg_pairsum d0 ds end.

Inductive dg_kind := DgL2 | DgL1 | DgN | DgKE.
(** l2: real(f * conj f); l1: |real f|; nParticles, KineticEnergy: real f *)
Definition dg_integrand (k : dg_kind) (re im : Z) : Z :=
  match k with DgL2 => re * re + im * im | DgL1 => Z.abs re | DgN => re | DgKE => re end.

Record dg_cfg := {
  dg_N : list nat;          (* global shape, canonical dimension order *)
  dg_world : list nat;      (* extents of the cartesian process grid (Create_cart, row major) *)
  dg_sel : list nat;        (* distribution direction i of the layout uses grid axis dg_sel[i]
                               ([0;1] for a LayoutHandler on the whole grid; [0] or [1] for the
                               sub-handlers of a LayoutSwapper: the layout is then replicated) *)
  dg_dims : list nat;       (* dims_order of the layout *)
  dg_etas : list (list Z);  (* eta grids *)
  dg_re : list Z;
  dg_im : list Z }.

Definition dg_nprocs (c : dg_cfg) : list nat := map (fun a => nth a (dg_world c) 1%nat) (dg_sel c).
Definition dg_lcoords (c : dg_cfg) (wc : list nat) : list nat := map (fun a => nth a wc 0%nat) (dg_sel c).
Definition dg_starts (c : dg_cfg) (wc : list nat) := l_starts (dg_N c) (dg_nprocs c) (dg_dims c) (dg_lcoords c wc).
Definition dg_ends (c : dg_cfg) (wc : list nat) := l_ends (dg_N c) (dg_nprocs c) (dg_dims c) (dg_lcoords c wc).
Definition dg_shape (c : dg_cfg) (wc : list nat) := l_shape (dg_N c) (dg_nprocs c) (dg_dims c) (dg_lcoords c wc).
Definition dg_ndims (c : dg_cfg) : nat := length (dg_dims c).
Definition dg_eta (c : dg_cfg) (e : nat) : list Z := nth e (dg_etas c) [].
(** layout.inv_dims_order[e] *)
Definition dg_inv (c : dg_cfg) (e : nat) : nat := nth e (inv_dims (dg_dims c)) 0%nat.

(** global index in layout axis order -> canonical coordinates -> cell of the flat global field *)
Definition dg_canon (c : dg_cfg) (g : list nat) : list nat :=
  map (fun e => nth (dg_inv c e) g 0%nat) (seq 0 (dg_ndims c)).
Definition dg_cell (F : list Z) (c : dg_cfg) (g : list nat) : Z := dg_zn F (ravel (dg_N c) (dg_canon c g)).
(** the local array: _f[j] is the global cell j + starts (axis by axis, in layout order) *)
Definition dg_f (F : list Z) (c : dg_cfg) (st j : list nat) : Z := dg_cell F c (dg_addv st j).

(** (mydrMult * my_r)[j_r] with mydrMult = drMult[start:end], my_r = r[start:end] *)
Definition dg_rpart (c : dg_cfg) (st en j : list nat) : Z :=
  let a := dg_inv c 0 in
  dg_zn (dg_slice (dg_trap2 (dg_eta c 0)) (nth a st 0%nat) (nth a en 0%nat)) (nth a j 0%nat)
  * dg_zn (dg_slice (dg_eta c 0) (nth a st 0%nat) (nth a en 0%nat)) (nth a j 0%nat).
(** mydvMult[j_v]  (KineticEnergy: (mydvMult * my_v**2)[j_v]) *)
Definition dg_vpart (k : dg_kind) (c : dg_cfg) (st en j : list nat) : Z :=
  let a := dg_inv c 3 in
  let w := dg_zn (dg_slice (dg_trap2 (dg_eta c 3)) (nth a st 0%nat) (nth a en 0%nat)) (nth a j 0%nat) in
  match k with
  | DgKE => let v := dg_zn (dg_slice (dg_eta c 3) (nth a st 0%nat) (nth a en 0%nat)) (nth a j 0%nat) in w * (v * v)
  | _ => w
  end.
Definition dg_factor1 (k : dg_kind) (c : dg_cfg) (st en j : list nat) : Z :=
  if (dg_ndims c =? 4)%nat then dg_rpart c st en j * dg_vpart k c st en j else dg_rpart c st en j.
(** dq * dz with dq = q[2]-q[1], dz = z[2]-z[1] (rectangle rule in theta and z) *)
Definition dg_factor2 (c : dg_cfg) : Z :=
  (dg_zn (dg_eta c 1) 2 - dg_zn (dg_eta c 1) 1) * (dg_zn (dg_eta c 2) 2 - dg_zn (dg_eta c 2) 1).
(** the model's integer is [dg_denominator] x the real-valued diagnostic *)
Definition dg_denominator (k : dg_kind) (c : dg_cfg) : Z :=
  if (dg_ndims c =? 4)%nat then match k with DgKE => 8 | _ => 4 end else 2.

Definition dg_local_ranges (c : dg_cfg) (wc : list nat) : list (nat * nat) :=
  map (fun l => (0%nat, l)) (dg_shape c wc).

(** np.sum(integrand(_f) * _factor1) * _factor2 on the rank with grid coordinates wc *)
Definition dg_local (k : dg_kind) (c : dg_cfg) (wc : list nat) : Z :=
  let st := dg_starts c wc in let en := dg_ends c wc in
  dg_ndsum (dg_local_ranges c wc)
    (fun j => dg_integrand k (dg_f (dg_re c) c st j) (dg_f (dg_im c) c st j) * dg_factor1 k c st en j)
  * dg_factor2 c.

(** every rank of the world communicator, and comm.Reduce(op=SUM) *)
Definition dg_all (k : dg_kind) (c : dg_cfg) : list Z := map (dg_local k c) (dg_coords (dg_world c)).
Definition dg_reduced (k : dg_kind) (c : dg_cfg) : Z := dg_reduce Z.add 0 (dg_all k c).

(** the serial quadrature: the same class on a single process *)
Definition dg_serial_cfg (c : dg_cfg) : dg_cfg :=
  {| dg_N := dg_N c; dg_world := map (fun _ => 1%nat) (dg_world c); dg_sel := dg_sel c; dg_dims := dg_dims c;
     dg_etas := dg_etas c; dg_re := dg_re c; dg_im := dg_im c |}.
Definition dg_serial (k : dg_kind) (c : dg_cfg) : Z := dg_local k (dg_serial_cfg c) (map (fun _ => 0%nat) (dg_world c)).

(** ** minima and maxima.  [mx = false]: MIN with +inf = None; [mx = true]: MAX with -inf = None *)
Definition dg_ext (mx : bool) := if mx then dg_omax else dg_omin.

(** _f.min() / _f.max() of the local array (real part), as [collect] stores it *)
Definition dg_local_ext (mx : bool) (c : dg_cfg) (wc : list nat) : option Z :=
  dg_ndfold (dg_ext mx) None (dg_local_ranges c wc) (fun j => Some (dg_f (dg_re c) c (dg_starts c wc) j)).

(** getMin / getMax (drawingRank, axis, fixValue): [pairs] = zip(axis, fixValue), global indices.
    Per layout axis i the fixed global index of dimension dims_order[i], if any. *)
Definition dg_fixs (c : dg_cfg) (pairs : list (nat * nat)) : list (option nat) :=
  map (fun d => match find (fun af => (fst af =? d)%nat) pairs with Some af => Some (snd af) | None => None end)
      (dg_dims c).
Definition dg_global_ranges (c : dg_cfg) (wc : list nat) : list (nat * nat) := combine (dg_starts c wc) (dg_shape c wc).
(** what the rank hands to reduce(): neutral if its block is empty or does not contain the fixed indices *)
Definition dg_local_slice_ext (mx : bool) (c : dg_cfg) (pairs : list (nat * nat)) (wc : list nat) : option Z :=
  if (size (dg_shape c wc) =? 0)%nat then None
  else dg_slice_fold (dg_ext mx) None (dg_global_ranges c wc) (dg_fixs c pairs) (fun g => Some (dg_cell (dg_re c) c g)).
Definition dg_all_ext (mx : bool) (c : dg_cfg) (pairs : list (nat * nat)) : list (option Z) :=
  map (dg_local_slice_ext mx c pairs) (dg_coords (dg_world c)).
Definition dg_reduced_ext (mx : bool) (c : dg_cfg) (pairs : list (nat * nat)) : option Z :=
  dg_reduce (dg_ext mx) None (dg_all_ext mx c pairs).
(** the collector: MIN / MAX Reduce of the local minima / maxima *)
Definition dg_collector_ext (mx : bool) (c : dg_cfg) : option Z :=
  dg_reduce (dg_ext mx) None (map (dg_local_ext mx c) (dg_coords (dg_world c))).

(** guard under which the classes do not raise: shapes consistent, >= 2 radial / velocity points,
    >= 3 angular / axial points (q[2], z[2]), field lists of the global size *)
Definition dg_wf (c : dg_cfg) : bool :=
  (length (dg_N c) =? dg_ndims c)%nat && (length (dg_etas c) =? dg_ndims c)%nat
  && forallb (fun e => (length (dg_eta c e) =? nth e (dg_N c) 0)%nat) (seq 0 (dg_ndims c))
  && (2 <=? nth 0 (dg_N c) 0)%nat && (3 <=? nth 1 (dg_N c) 0)%nat && (3 <=? nth 2 (dg_N c) 0)%nat
  && ((dg_ndims c =? 3)%nat || ((dg_ndims c =? 4)%nat && (2 <=? nth 3 (dg_N c) 0)%nat))
  && (length (dg_re c) =? size (dg_N c))%nat && (length (dg_im c) =? size (dg_N c))%nat
  && (length (dg_sel c) <=? dg_ndims c)%nat
  && forallb (fun p => (1 <=? p)%nat) (dg_world c).

(** ** the collector's time slot: ti = int(t/dt + 0.5); idx = int(ti % saveStep) - the nearest step, half up
    (t >= 0).  On integers, in exact arithmetic, floor(t/dt + 1/2) = (2 t + dt) / (2 dt) with Z.div (floor).
    Float arguments are modelled over exact rationals and in binary64 in DiagnosticsSlotQ.v. *)
Definition dg_slot (t dt saveStep : Z) : Z := ((2 * t + dt) / (2 * dt)) mod saveStep.

(** the table after a sequence of collect() calls: slot -> number of the call whose column it holds *)
Fixpoint dg_store (tab : list (option nat)) (i : nat) (v : nat) : list (option nat) :=
  match tab, i with
  | [], _ => []
  | _ :: t, O => Some v :: t
  | x :: t, S i' => x :: dg_store t i' v
  end.
Fixpoint dg_collect_calls (tab : list (option nat)) (dt saveStep : Z) (n : nat) (ts : list Z) : list (option nat) :=
  match ts with
  | [] => tab
  | t :: ts' => dg_collect_calls (dg_store tab (Z.to_nat (dg_slot t dt saveStep)) n) dt saveStep (S n) ts'
  end.
Definition dg_table (dt saveStep : Z) (ts : list Z) : list (option nat) :=
  dg_collect_calls (repeat None (Z.to_nat saveStep)) dt saveStep 0 ts.
Close Scope Z_scope.

(** * 3. Consequences used by Props/C17.v *)

(** ** 3.1 sums: 1-D, 2-D product-of-weights form, replication *)
Lemma dg_sum_blocks n p (f : nat -> Z) : 0 < p ->
  dg_sum 0 p (fun k => dg_sum (bstart n p k) (blen n p k) f) = dg_sum 0 n f.
Proof. apply (dg_fold_blocks Z.add 0%Z Z.add_assoc Z.add_comm Z.add_0_l). Qed.

Lemma dg_sum_blocks_2d n1 n2 p1 p2 (w1 w2 : nat -> Z) (g : nat -> nat -> Z) : 0 < p1 -> 0 < p2 ->
  dg_sum 0 p1 (fun k1 => dg_sum 0 p2 (fun k2 =>
    dg_sum (bstart n1 p1 k1) (blen n1 p1 k1) (fun i =>
      dg_sum (bstart n2 p2 k2) (blen n2 p2 k2) (fun j => w1 i * w2 j * g i j)%Z)))
  = dg_sum 0 n1 (fun i => dg_sum 0 n2 (fun j => w1 i * w2 j * g i j)%Z).
Proof.
  intros H1 H2.
  pose proof (dg_ndfold_blocks Z.add 0%Z Z.add_assoc Z.add_comm Z.add_0_l [(n1, p1); (n2, p2)]
                ltac:(repeat constructor; assumption)
                (fun idx => Z.mul (Z.mul (w1 (nth 0 idx 0)) (w2 (nth 1 idx 0))) (g (nth 0 idx 0) (nth 1 idx 0)))) as H.
  cbn [dg_rank_ranges dg_full_ranges map fst snd dg_ndfold dg_blocks hd tl nth] in H. exact H.
Qed.

Definition dg_Z_ndsum_blocks := dg_ndfold_blocks Z.add 0%Z Z.add_assoc Z.add_comm Z.add_0_l.

(** a layout that does not use a process direction of extent R is replicated R times: the SUM over
    all ranks counts the global quadrature R times *)
Lemma dg_sum_replicated_inner n p R (f : nat -> Z) : 0 < p ->
  dg_sum 0 p (fun k1 => dg_sum 0 R (fun _ => dg_sum (bstart n p k1) (blen n p k1) f)) = (Z.of_nat R * dg_sum 0 n f)%Z.
Proof. intros Hp. rewrite <- (dg_sum_blocks n p f Hp).
  rewrite (dg_fold_ext Z.add 0%Z 0 p _ (fun k1 => dg_sum (bstart n p k1) (blen n p k1) f * Z.of_nat R)%Z).
  - rewrite (dg_sum_scale 0 p (Z.of_nat R)). ring.
  - intros k _. rewrite dg_sum_const. ring. Qed.

Lemma dg_sum_replicated_outer n p R (f : nat -> Z) : 0 < p ->
  dg_sum 0 R (fun _ => dg_sum 0 p (fun k2 => dg_sum (bstart n p k2) (blen n p k2) f)) = (Z.of_nat R * dg_sum 0 n f)%Z.
Proof. intros Hp. rewrite dg_sum_const, (dg_sum_blocks n p f Hp). reflexivity. Qed.

(** N-d: ranks (k, ks) of a grid whose first direction (extent R) is not used by the layout *)
Lemma dg_ndsum_replicated axes R (h : list nat -> Z) : Forall (fun np => 0 < snd np) axes ->
  dg_ndsum ((0, R) :: dg_rank_ranges axes) (fun kks => dg_ndsum (dg_blocks axes (tl kks)) h)
  = (Z.of_nat R * dg_ndsum (dg_full_ranges axes) h)%Z.
Proof. intros Hax. unfold dg_ndsum. cbn [dg_ndfold tl].
  rewrite (dg_fold_ext Z.add 0%Z 0 R _ (fun _ => dg_ndfold Z.add 0%Z (dg_full_ranges axes) h)).
  - apply dg_sum_const.
  - intros k _. apply (dg_Z_ndsum_blocks axes Hax h). Qed.

(** for a field equal to one the result is the product of the per-axis weight sums *)
Lemma dg_field_one axes (ws : list (nat -> Z)) : Forall (fun np => 0 < snd np) axes -> length ws = length axes ->
  dg_ndsum (dg_rank_ranges axes) (fun ks => dg_ndsum (dg_blocks axes ks) (fun idx => dg_prodw ws idx * 1)%Z)
  = dg_prod_sums (dg_full_ranges axes) ws.
Proof. intros Hax Hl. unfold dg_ndsum. rewrite (dg_Z_ndsum_blocks axes Hax).
  rewrite (dg_ndfold_ext Z.add 0%Z _ _ (dg_prodw ws)) by (intros; ring).
  apply dg_ndsum_prodw. unfold dg_full_ranges. rewrite map_length. exact Hl. Qed.

(** ** 3.2 minima / maxima: the fold with [dg_omin] / [dg_omax] is the minimum / maximum *)
Section DgExt.
Variable le : Z -> Z -> Prop.
Variable pick : Z -> Z -> Z.
Hypothesis le_refl : forall x, le x x.
Hypothesis le_trans : forall x y z, le x y -> le y z -> le x z.
Hypothesis pick_l : forall x y, le (pick x y) x.
Hypothesis pick_r : forall x y, le (pick x y) y.
Hypothesis pick_cases : forall x y, pick x y = x \/ pick x y = y.

Definition dg_opick (a b : option Z) : option Z :=
  match a, b with Some x, Some y => Some (pick x y) | Some x, None => Some x | None, y => y end.

(** r is the extremum of the defined values of h over the index set P (None iff there is none) *)
Definition dg_is_ext {X : Type} (P : X -> Prop) (h : X -> option Z) (r : option Z) : Prop :=
  (forall x v, P x -> h x = Some v -> exists m, r = Some m /\ le m v)
  /\ (forall m, r = Some m -> exists x, P x /\ h x = Some m).

Lemma dg_fold_is_ext a k (g : nat -> option Z) :
  dg_is_ext (fun i => a <= i < a + k) g (dg_fold dg_opick None a k g).
Proof.
  revert a. induction k as [|k IH]; intros a; cbn [dg_fold].
  - split; [intros x v Hx; lia|intros m H; discriminate].
  - destruct (IH (S a)) as [IH1 IH2]. set (r := dg_fold dg_opick None (S a) k g) in *.
    split.
    + intros x v Hx Hv. destruct (Nat.eq_dec x a) as [->|Ne].
      * rewrite Hv. destruct r as [y|]; cbn [dg_opick]; eexists; split; try reflexivity; [apply pick_l|apply le_refl].
      * destruct (IH1 x v ltac:(lia) Hv) as [m [Hm Hle]]. rewrite Hm.
        destruct (g a) as [y|]; cbn [dg_opick]; eexists; split; try reflexivity; [|exact Hle].
        apply le_trans with m; [apply pick_r|exact Hle].
    + intros m Hm. destruct (g a) as [y|] eqn:Ea; destruct r as [z|] eqn:Er; cbn [dg_opick] in Hm; try discriminate.
      * injection Hm as <-. destruct (pick_cases y z) as [E|E]; rewrite E.
        -- exists a. split; [lia|exact Ea].
        -- destruct (IH2 z eq_refl) as [x [Hx Hg]]. exists x. split; [lia|exact Hg].
      * injection Hm as <-. exists a. split; [lia|exact Ea].
      * destruct (IH2 m Hm) as [x [Hx Hg]]. exists x. split; [lia|exact Hg].
Qed.

Lemma dg_ndfold_is_ext rs : forall (h : list nat -> option Z),
  dg_is_ext (dg_inbox rs) h (dg_ndfold dg_opick None rs h).
Proof.
  induction rs as [|[a k] rs IH]; intros h; cbn [dg_ndfold].
  - split.
    + intros x v Hx Hv. inversion Hx; subst. exists v. split; [exact Hv|apply le_refl].
    + intros m Hm. exists []. split; [constructor|exact Hm].
  - destruct (dg_fold_is_ext a k (fun i => dg_ndfold dg_opick None rs (fun idx => h (i :: idx)))) as [F1 F2].
    split.
    + intros x v Hx Hv. inversion Hx as [|a' k' rs' i idx Hi Hidx]; subst.
      destruct (IH (fun idx => h (i :: idx))) as [I1 _].
      destruct (I1 idx v Hidx Hv) as [m' [Hm' Hle']].
      destruct (F1 i m' Hi Hm') as [m [Hm Hle]]. exists m. split; [exact Hm|apply le_trans with m'; assumption].
    + intros m Hm. destruct (F2 m Hm) as [i [Hi Hg]].
      destruct (IH (fun idx => h (i :: idx))) as [_ I2]. destruct (I2 m Hg) as [idx [Hidx Hh]].
      exists (i :: idx). split; [constructor; assumption|exact Hh].
Qed.
End DgExt.

Lemma dg_omin_is_opick : dg_omin = dg_opick Z.min. Proof. reflexivity. Qed.
Lemma dg_omax_is_opick : dg_omax = dg_opick Z.max. Proof. reflexivity. Qed.

Lemma dg_zmin_cases x y : Z.min x y = x \/ Z.min x y = y. Proof. lia. Qed.
Lemma dg_zmax_cases x y : Z.max x y = x \/ Z.max x y = y. Proof. lia. Qed.
Lemma dg_zge_refl x : (x >= x)%Z. Proof. lia. Qed.
Lemma dg_zge_trans x y z : (x >= y -> y >= z -> x >= z)%Z. Proof. lia. Qed.
Lemma dg_zmax_l x y : (Z.max x y >= x)%Z. Proof. lia. Qed.
Lemma dg_zmax_r x y : (Z.max x y >= y)%Z. Proof. lia. Qed.

Definition dg_min_is_min rs h := dg_ndfold_is_ext Z.le Z.min Z.le_refl Z.le_trans Z.le_min_l Z.le_min_r dg_zmin_cases rs h.
Definition dg_max_is_max rs h := dg_ndfold_is_ext Z.ge Z.max dg_zge_refl dg_zge_trans dg_zmax_l dg_zmax_r dg_zmax_cases rs h.

(** whole-grid MIN over ranks of the local minima = global minimum, N-d *)
Definition dg_min_blocks := @dg_ndfold_blocks (option Z) dg_omin None dg_omin_assoc dg_omin_comm dg_omin_e_l.
Definition dg_max_blocks := @dg_ndfold_blocks (option Z) dg_omax None dg_omax_assoc dg_omax_comm dg_omax_e_l.
Definition dg_min_slice_blocks := @dg_slice_blocks (option Z) dg_omin None dg_omin_assoc dg_omin_comm dg_omin_e_l.
Definition dg_max_slice_blocks := @dg_slice_blocks (option Z) dg_omax None dg_omax_assoc dg_omax_comm dg_omax_e_l.

(** 1-D: of all ranks exactly the owner of the fixed index contributes, the others the neutral element *)
Lemma dg_slice_1d {M} (op : M -> M -> M) (e : M) (op_assoc : forall a b c, op a (op b c) = op (op a b) c)
  (op_comm : forall a b, op a b = op b a) (op_e_l : forall a, op e a = a) n p x (h : nat -> M) :
  0 < p -> x < n ->
  dg_fold op e 0 p (fun k => if dg_inrange (bstart n p k, blen n p k) x then h x else e) = h x.
Proof.
  intros Hp Hx.
  rewrite (dg_fold_ext op e 0 p _ (fun k => dg_fold op e (bstart n p k) (blen n p k) (fun i => if i =? x then h i else e))).
  2:{ intros k _. rewrite (dg_fold_delta op e op_comm op_e_l). reflexivity. }
  rewrite (dg_fold_blocks op e op_assoc op_comm op_e_l n p _ Hp), (dg_fold_delta op e op_comm op_e_l).
  cbn [Nat.add]. destruct (Nat.ltb_spec x n); [reflexivity|lia].
Qed.

(** ** 3.3 the time slot *)
Lemma dg_slot_of_step k dt s r : (0 < dt -> - dt <= 2 * r < dt -> dg_slot (k * dt + r) dt s = k mod s)%Z.
Proof. intros Hdt Hr. unfold dg_slot. f_equal. symmetry. apply (Z.div_unique_pos _ (2 * dt) k (2 * r + dt)); lia. Qed.

Lemma dg_slot_on_grid k dt s : (0 < dt -> dg_slot (k * dt) dt s = k mod s)%Z.
Proof. intros Hdt. rewrite <- (dg_slot_of_step k dt s 0) by lia. f_equal. ring. Qed.

Lemma dg_slot_range t dt s : (0 < s -> 0 <= dg_slot t dt s < s)%Z.
Proof. intros Hs. unfold dg_slot. apply Z.mod_pos_bound. exact Hs. Qed.

Lemma dg_slot_add t dt s k : (0 < dt -> dg_slot (t + k * dt) dt s = (dg_slot t dt s + k) mod s)%Z.
Proof. intros Hdt. unfold dg_slot. replace (2 * (t + k * dt) + dt)%Z with (2 * t + dt + k * (2 * dt))%Z by ring.
  rewrite Z.div_add by lia. rewrite Zplus_mod_idemp_l. reflexivity. Qed.

Lemma dg_slot_next t dt s : (0 < dt -> dg_slot (t + dt) dt s = (dg_slot t dt s + 1) mod s)%Z.
Proof. intros Hdt. rewrite <- (dg_slot_add t dt s 1 Hdt). f_equal. ring. Qed.

(** saveStep consecutive steps never share a slot: nothing is overwritten between two reduce() calls *)
Lemma dg_slot_distinct t dt s i j : (0 < dt -> 0 < s -> 0 <= i < j -> j < s ->
  dg_slot (t + i * dt) dt s <> dg_slot (t + j * dt) dt s)%Z.
Proof.
  intros Hdt Hs Hi Hj. rewrite !dg_slot_add by exact Hdt.
  set (a := dg_slot t dt s). intros E.
  assert (D : (((a + j) - (a + i)) mod s = 0)%Z) by (rewrite Zminus_mod, E, Z.sub_diag; reflexivity).
  replace (a + j - (a + i))%Z with (j - i)%Z in D by ring.
  rewrite Z.mod_small in D by lia. lia.
Qed.

(** ** 3.4 the weight slices and the trapezoid weights *)
Lemma dg_nth_firstn (l : list Z) : forall m j d, j < m -> nth j (firstn m l) d = nth j l d.
Proof. induction l as [|x l IH]; intros [|m] [|j] d H; cbn; try lia; try reflexivity. apply IH. lia. Qed.

Lemma dg_nth_skipn (l : list Z) : forall s j d, nth j (skipn s l) d = nth (s + j) l d.
Proof. induction l as [|x l IH]; intros [|s] j d; cbn [skipn Nat.add]; try reflexivity.
  - destruct j; reflexivity.
  - cbn [nth]. apply IH. Qed.

(** index j of the slice l[s:e] is index s+j of l: the local weight of local index j is the global weight
    of the global index start+j *)
Lemma dg_slice_nth l s e j : j < e - s -> dg_zn (dg_slice l s e) j = dg_zn l (s + j).
Proof. intros H. unfold dg_zn, dg_slice. rewrite dg_nth_firstn by exact H. apply dg_nth_skipn. Qed.

Definition dg_lsum (l : list Z) : Z := fold_right Z.add 0%Z l.
Fixpoint dg_dot (w x : list Z) : Z :=
  match w, x with a :: w', b :: x' => (a * b + dg_dot w' x')%Z | _, _ => 0%Z end.

Lemma dg_pairsum_sum ds : forall p, dg_lsum (dg_pairsum p ds) = (p + 2 * dg_lsum ds)%Z.
Proof. induction ds as [|d t IH]; intros p; cbn [dg_pairsum dg_lsum fold_right]; [lia|].
  fold (dg_lsum (dg_pairsum d t)). rewrite IH. fold (dg_lsum t). lia. Qed.

Lemma dg_diff_sum x : forall a, dg_lsum (dg_diff (a :: x)) = (last (a :: x) 0 - a)%Z.
Proof. induction x as [|b t IH]; intros a; [cbn; lia|].
  change (dg_diff (a :: b :: t)) with ((b - a)%Z :: dg_diff (b :: t)).
  cbn [dg_lsum fold_right]. fold (dg_lsum (dg_diff (b :: t))). rewrite IH.
  change (last (a :: b :: t) 0%Z) with (last (b :: t) 0%Z). lia. Qed.

(** the trapezoid weights sum to the length of the interval (doubled): sum dvMult = vMax - vMin *)
Lemma dg_trap2_sum a b t : dg_lsum (dg_trap2 (a :: b :: t)) = (2 * (last (a :: b :: t) 0 - a))%Z.
Proof. unfold dg_trap2. change (dg_diff (a :: b :: t)) with ((b - a)%Z :: dg_diff (b :: t)).
  cbn [dg_lsum fold_right]. fold (dg_lsum (dg_pairsum (b - a) (dg_diff (b :: t)))).
  rewrite dg_pairsum_sum, dg_diff_sum. change (last (a :: b :: t) 0%Z) with (last (b :: t) 0%Z). lia. Qed.

Lemma dg_pairsum_dot t : forall p b,
  dg_dot (dg_pairsum p (dg_diff (b :: t))) (b :: t) = (p * b + last (b :: t) 0 * last (b :: t) 0 - b * b)%Z.
Proof. induction t as [|c t IH]; intros p b.
  - cbn. lia.
  - change (dg_diff (b :: c :: t)) with ((c - b)%Z :: dg_diff (c :: t)).
    cbn [dg_pairsum dg_dot]. rewrite IH. change (last (b :: c :: t) 0%Z) with (last (c :: t) 0%Z). lia. Qed.

(** the r-weighted trapezoid sum is exact for the linear integrand: sum drMult_i r_i = (rMax^2 - rMin^2)/2 (doubled) *)
Lemma dg_trap2_dot a b t :
  dg_dot (dg_trap2 (a :: b :: t)) (a :: b :: t) = (last (a :: b :: t) 0 * last (a :: b :: t) 0 - a * a)%Z.
Proof. unfold dg_trap2. change (dg_diff (a :: b :: t)) with ((b - a)%Z :: dg_diff (b :: t)).
  cbn [dg_dot]. rewrite dg_pairsum_dot. change (last (a :: b :: t) 0%Z) with (last (b :: t) 0%Z). lia. Qed.

Lemma dg_pairsum_length t : forall p b, length (dg_pairsum p (dg_diff (b :: t))) = length (b :: t).
Proof. induction t as [|c t IH]; intros p b; [reflexivity|].
  change (dg_diff (b :: c :: t)) with ((c - b)%Z :: dg_diff (c :: t)). cbn [dg_pairsum length]. f_equal. apply IH. Qed.

Lemma dg_trap2_length a b t : length (dg_trap2 (a :: b :: t)) = length (a :: b :: t).
Proof. unfold dg_trap2. change (dg_diff (a :: b :: t)) with ((b - a)%Z :: dg_diff (b :: t)). cbn [length]. f_equal.
  apply dg_pairsum_length. Qed.
