(** The formal derivative of the Cox - de Boor recursion and de Boor's derivative identity.

    For a fixed degree-0 row [base] (on a knot span: the indicator of the span, which does not depend
    on x) the functions x |-> Ng base k i of CoxDeBoorGen.v are polynomials in x.  [DNg] differentiates
    the recursion formally (product rule; the knot differences are constants).  [Ng_taylor] justifies
    the name algebraically, in any field: Ng(x+h) - Ng(x) - h*DNg(x) is divisible by h^2, with an
    explicit quotient.  [deboor_identity] is the classical
       N'_{i,k+1} = (k+1) * ( N_{i,k}/(t_{i+k+1}-t_i) - N_{i+1,k}/(t_{i+k+2}-t_{i+1}) )
    for every non-decreasing knot sequence (0/0 := 0 as in the recursion), every base row, every x.
    No real analysis: identities in an abstract field. *)
From Coq Require Import List Arith Lia Field Ring Setoid Bool.
Import ListNotations.
From PGV Require Import BasisCoxDeBoor CoxDeBoorGen CubicUniform.

Section Deriv.
Variable F : Type.
Variables (f0 f1 : F) (fadd fmul fsub fdiv : F -> F -> F) (fopp finv : F -> F).
Variable fle : F -> F -> Prop.
Hypothesis Fth : field_theory f0 f1 fadd fmul fsub fopp fdiv finv (@eq F).
Add Field FFd : Fth.
Notation "x + y" := (fadd x y). Notation "x * y" := (fmul x y).
Notation "x - y" := (fsub x y). Notation "x / y" := (fdiv x y).
Notation "0" := f0. Notation "1" := f1.
Notation "x <= y" := (fle x y).
Hypothesis le_antisym : forall x y, x <= y -> y <= x -> x = y.

Variable t : nat -> F.
Variable feqb : F -> F -> bool.
Hypothesis feqb_spec : forall a b, reflect (a = b) (feqb a b).
Notation fr := (frac F f0 fdiv feqb).
Variable base : nat -> F.
Notation Nx := (fun x => Ng F f0 fadd fmul fsub fdiv t x feqb base).
Notation ofn := (ofnat F f0 f1 fadd).

(** formal derivative of the recursion (the row [base] is constant in x) *)
Fixpoint DNg (x : F) (k i : nat) : F :=
  match k with
  | O => 0
  | S k' => (fr 1 (t (i + k' + 1)%nat - t i) * Nx x k' i + fr (x - t i) (t (i + k' + 1)%nat - t i) * DNg x k' i)
            + (fr (0 - 1) (t (i + k' + 2)%nat - t (S i)) * Nx x k' (S i)
               + fr (t (i + k' + 2)%nat - x) (t (i + k' + 2)%nat - t (S i)) * DNg x k' (S i))
  end.

(** quotient of the second-order remainder *)
Fixpoint RNg (x h : F) (k i : nat) : F :=
  match k with
  | O => 0
  | S k' => (fr 1 (t (i + k' + 1)%nat - t i) * DNg x k' i + fr (x - t i) (t (i + k' + 1)%nat - t i) * RNg x h k' i
             + h * (fr 1 (t (i + k' + 1)%nat - t i) * RNg x h k' i))
            + (fr (0 - 1) (t (i + k' + 2)%nat - t (S i)) * DNg x k' (S i)
               + fr (t (i + k' + 2)%nat - x) (t (i + k' + 2)%nat - t (S i)) * RNg x h k' (S i)
               + h * (fr (0 - 1) (t (i + k' + 2)%nat - t (S i)) * RNg x h k' (S i)))
  end.

Lemma fr_lin a b d : fr (a + b) d = fr a d + fr b d.
Proof. unfold frac. destruct (feqb_spec d 0); [ring|field; assumption]. Qed.
Lemma fr_scal a b d : fr (a * b) d = a * fr b d.
Proof. unfold frac. destruct (feqb_spec d 0); [ring|field; assumption]. Qed.
Lemma fr_swap a b d : fr a d * b = a * fr b d.
Proof. unfold frac. destruct (feqb_spec d 0); [ring|field; assumption]. Qed.

(** Ng(x+h) = Ng(x) + h*DNg(x) + h^2 * RNg(x,h): DNg is the derivative of the polynomial x |-> Ng *)
Theorem Ng_taylor x h : forall k i,
  Nx (x + h) k i = Nx x k i + h * DNg x k i + h * h * RNg x h k i.
Proof.
  induction k as [|k IH]; intros i; cbn [Ng DNg RNg]; [ring|].
  rewrite !IH.
  replace (x + h - t i) with ((x - t i) + h * 1) by ring.
  replace (t (i + k + 2)%nat - (x + h)) with ((t (i + k + 2)%nat - x) + h * (0 - 1)) by ring.
  rewrite !fr_lin, !fr_scal. ring.
Qed.

Hypothesis t_mono : forall a b, (a <= b)%nat -> t a <= t b.

Lemma width0 a b c d : (a <= c)%nat -> (c <= d)%nat -> (d <= b)%nat -> t b - t a = 0 -> t d - t c = 0.
Proof.
  intros H1 H2 H3 E. assert (Eab : t b = t a) by (replace (t b) with ((t b - t a) + t a) by ring; rewrite E; ring).
  assert (Ecd : t c = t d).
  { apply le_antisym; [apply t_mono; exact H2|].
    assert (Hda : t d <= t a) by (rewrite <- Eab; apply t_mono; exact H3).
    assert (Hac : t a <= t c) by (apply t_mono; exact H1).
    assert (Edc : t d = t a) by (apply le_antisym; [exact Hda|apply t_mono; lia]).
    rewrite Edc. exact Hac. }
  rewrite Ecd. ring.
Qed.

(* the algebra of the induction step, with A_j = N_{j,k}/(t_{j+k+1}-t_j) *)
Lemma deboor_step_alg (x ti ti1 u2 u3 A1 A2 A3 kk : F) :
  (u2 - ti = 0 -> A2 = 0) -> (u3 - ti1 = 0 -> A2 = 0) ->
  (1 * fr ((x - ti) * A1 + (u2 - x) * A2) (u2 - ti) + (x - ti) * fr (kk * (A1 - A2)) (u2 - ti))
  + ((0 - 1) * fr ((x - ti1) * A2 + (u3 - x) * A3) (u3 - ti1) + (u3 - x) * fr (kk * (A2 - A3)) (u3 - ti1))
  = (kk + 1) * (fr ((x - ti) * A1 + (u2 - x) * A2) (u2 - ti) - fr ((x - ti1) * A2 + (u3 - x) * A3) (u3 - ti1)).
Proof.
  intros H1 H2. unfold frac.
  destruct (feqb_spec (u2 - ti) 0) as [E1|E1], (feqb_spec (u3 - ti1) 0) as [E2|E2].
  - ring.
  - rewrite (H1 E1). field. exact E2.
  - rewrite (H2 E2). field. exact E1.
  - field. split; assumption.
Qed.

(** de Boor's identity *)
Theorem deboor_identity x : forall k i,
  DNg x (S k) i = ofn (S k) * (fr (Nx x k i) (t (i + k + 1)%nat - t i) - fr (Nx x k (S i)) (t (i + k + 2)%nat - t (S i))).
Proof.
  induction k as [|k IH]; intros i.
  - cbn [DNg Ng ofnat]. unfold frac.
    destruct (feqb_spec (t (i + 0 + 1)%nat - t i) 0), (feqb_spec (t (i + 0 + 2)%nat - t (S i)) 0);
      try ring; field; try split; assumption.
  - remember (S k) as K eqn:EK. cbn [DNg]. rewrite (IH i), (IH (S i)). subst K. cbn [Ng].
    replace (S i + k + 1)%nat with (i + k + 2)%nat by lia.
    replace (S i + k + 2)%nat with (i + k + 3)%nat by lia.
    replace (i + S k + 1)%nat with (i + k + 2)%nat by lia.
    replace (i + S k + 2)%nat with (i + k + 3)%nat by lia.
    rewrite !fr_swap.
    set (A1 := fr (Nx x k i) (t (i + k + 1)%nat - t i)).
    set (A2 := fr (Nx x k (S i)) (t (i + k + 2)%nat - t (S i))).
    set (A3 := fr (Nx x k (S (S i))) (t (i + k + 3)%nat - t (S (S i)))).
    change (ofn (S (S k))) with (ofn (S k) + 1).
    apply deboor_step_alg.
    + intros E. unfold A2, frac. rewrite (width0 i (i + k + 2) (S i) (i + k + 2)) by (try lia; exact E).
      destruct (feqb_spec 0 0); [reflexivity|contradiction].
    + intros E. unfold A2, frac. rewrite (width0 (S i) (i + k + 3) (S i) (i + k + 2)) by (try lia; exact E).
      destruct (feqb_spec 0 0); [reflexivity|contradiction].
Qed.

End Deriv.
