(** Algorithm A2.2 and the Cox - de Boor triangle started from an arbitrary degree-0 row.

    BasisCoxDeBoor.v proves  A2.2 = Cox - de Boor  for x in the half-open span [t_s, t_{s+1}).
    The identity is in fact algebraic: for EVERY x, A2.2 run on span s is the Cox - de Boor
    triangle whose degree-0 row is the indicator of index s.  This gives the statement at the right
    end point of the domain, where the code evaluates the last polynomial piece at x = t_{s+1}
    (the convention "last interval closed" / value from the left). *)
From Coq Require Import List Arith Lia Field Ring Setoid Bool.
Import ListNotations.
From PGV Require Import BasisCoxDeBoor.

Section Gen.
Variable F : Type.
Variables (f0 f1 : F) (fadd fmul fsub fdiv : F -> F -> F) (fopp finv : F -> F).
Variable fle : F -> F -> Prop.
Hypothesis Fth : field_theory f0 f1 fadd fmul fsub fopp fdiv finv (@eq F).
Add Field FFg : Fth.
Notation "x + y" := (fadd x y). Notation "x * y" := (fmul x y).
Notation "x - y" := (fsub x y). Notation "x / y" := (fdiv x y).
Notation "0" := f0. Notation "1" := f1.
Notation "x <= y" := (fle x y).
Hypothesis le_trans : forall x y z, x <= y -> y <= z -> x <= z.
Hypothesis le_antisym : forall x y, x <= y -> y <= x -> x = y.

Variable t : nat -> F.
Variable x : F.
Variable feqb : F -> F -> bool.
Hypothesis feqb_spec : forall a b, reflect (a = b) (feqb a b).
Notation frac := (frac F f0 fdiv feqb).
Notation Lk := (L F fsub t x).
Notation Rk := (R F fsub t x).

(** the Cox - de Boor recursion above a given degree-0 row *)
Fixpoint Ng (base : nat -> F) (k i : nat) : F :=
  match k with
  | O => base i
  | S k' => frac (x - t i) (t (i + k' + 1)%nat - t i) * Ng base k' i
            + frac (t (i + k' + 2)%nat - x) (t (i + k' + 2)%nat - t (S i)) * Ng base k' (S i)
  end.

Lemma Ng_ext base base' : (forall i, base i = base' i) -> forall k i, Ng base k i = Ng base' k i.
Proof. intros H. induction k as [|k IH]; intros i; cbn [Ng]; [apply H|]. rewrite !IH. reflexivity. Qed.

(** the recursion of BasisCoxDeBoor.v is the instance with the half-open indicator row *)
Lemma N_is_Ng fleb : forall k i,
  N F f0 f1 fadd fmul fsub fdiv t x feqb fleb k i
  = Ng (fun j => if inhalf F t x fleb j then 1 else 0) k i.
Proof. induction k as [|k IH]; intros i; cbn [N Ng]; [reflexivity|]. rewrite !IH. reflexivity. Qed.

Variable s : nat.
Definition delta (i : nat) : F := if (i =? s)%nat then 1 else 0.
Notation Nd := (Ng delta).

Lemma Nd_support : forall k i, (s < i \/ i + k < s)%nat -> Nd k i = 0.
Proof.
  induction k as [|k IH]; intros i H; cbn [Ng].
  - unfold delta. destruct (Nat.eqb_spec i s); [lia|reflexivity].
  - rewrite (IH i), (IH (S i)) by lia. ring.
Qed.

Hypothesis t_mono : forall a b, (a <= b)%nat -> t a <= t b.
Hypothesis span_pos : flt F fle (t s) (t (S s)).

Lemma frac_ne0' num den : den <> 0 -> frac num den = num / den.
Proof. intros H. unfold BasisCoxDeBoor.frac. destruct (feqb_spec den 0); [contradiction|reflexivity]. Qed.

Notation denom_ok := (denom_ne0 F f0 f1 fadd fmul fsub fdiv fopp finv fle Fth le_trans le_antisym t x s t_mono span_pos).

Definition Ad (j q : nat) : F := Nd j (s - j + q)%nat / (Rk s q + Lk s (j - q)%nat).

Lemma Nd_step j q : (S j <= s)%nat -> (q <= S j)%nat ->
  Nd (S j) (s - S j + q)%nat =
    (if (q =? 0)%nat then 0 else Lk s (j - (q - 1))%nat * Ad j (q - 1)%nat)
  + (if (q =? S j)%nat then 0 else Rk s q * Ad j q).
Proof.
  intros Hj Hq. cbn [Ng].
  set (i := (s - S j + q)%nat).
  assert (T1 : frac (x - t i) (t (i + j + 1)%nat - t i) * Nd j i
             = (if (q =? 0)%nat then 0 else Lk s (j - (q - 1))%nat * Ad j (q - 1)%nat)).
  { destruct (Nat.eqb_spec q 0) as [->|Hq0].
    - rewrite (Nd_support j i); [ring|]. right. subst i. lia.
    - assert (Ei : i = (s - j + (q - 1))%nat) by (subst i; lia).
      assert (Hden : t (i + j + 1)%nat - t i = Rk s (q - 1)%nat + Lk s (j - (q - 1))%nat).
      { unfold R, L. replace (s + 1 + (q - 1))%nat with (i + j + 1)%nat by (subst i; lia).
        replace (s - (j - (q - 1)))%nat with i by (subst i; lia). ring. }
      rewrite Hden, frac_ne0' by (apply denom_ok; lia).
      unfold Ad. rewrite <- Ei.
      replace (x - t i) with (Lk s (j - (q - 1))%nat) by (unfold L; f_equal; f_equal; subst i; lia).
      field. apply denom_ok; lia. }
  assert (T2 : frac (t (i + j + 2)%nat - x) (t (i + j + 2)%nat - t (S i)) * Nd j (S i)
             = (if (q =? S j)%nat then 0 else Rk s q * Ad j q)).
  { destruct (Nat.eqb_spec q (S j)) as [->|Hqj].
    - rewrite (Nd_support j (S i)); [ring|]. left. subst i. lia.
    - assert (Ei : S i = (s - j + q)%nat) by (subst i; lia).
      assert (Hden : t (i + j + 2)%nat - t (S i) = Rk s q + Lk s (j - q)%nat).
      { unfold R, L. replace (s + 1 + q)%nat with (i + j + 2)%nat by (subst i; lia).
        replace (s - (j - q))%nat with (S i) by (subst i; lia). ring. }
      rewrite Hden, frac_ne0' by (apply denom_ok; lia).
      unfold Ad. rewrite <- Ei.
      replace (t (i + j + 2)%nat - x) with (Rk s q) by (unfold R; f_equal; f_equal; subst i; lia).
      field. apply denom_ok; lia. }
  rewrite T1, T2. reflexivity.
Qed.

Notation sweepk := (sweep F fadd fmul fsub fdiv t x s).

Lemma sweep_spec_d j : (S j <= s)%nat -> forall n r saved, (r + n = S j)%nat ->
  saved = (if (r =? 0)%nat then 0 else Lk s (j - (r - 1))%nat * Ad j (r - 1)%nat) ->
  sweepk j r (map (fun q => Nd j (s - j + q)%nat) (seq r n)) saved
  = map (fun q => Nd (S j) (s - S j + q)%nat) (seq r (S n)).
Proof.
  intros Hj. induction n as [|n IH]; intros r saved Hrn Hs.
  - cbn [seq map sweep]. f_equal. rewrite Nd_step by lia.
    replace (r =? S j)%nat with true by (symmetry; apply Nat.eqb_eq; lia).
    rewrite Hs. ring.
  - cbn [seq map sweep]. f_equal.
    + rewrite Nd_step by lia.
      replace (r =? S j)%nat with false by (symmetry; apply Nat.eqb_neq; lia).
      rewrite Hs. unfold Ad. field. apply denom_ok; lia.
    + apply IH; [lia|]. cbn [Nat.eqb]. replace (S r - 1)%nat with r by lia.
      unfold Ad. field. apply denom_ok; lia.
Qed.

Notation basis_fromk := (basis_from F f0 fadd fmul fsub fdiv t x s).

Lemma basis_from_spec_d : forall k j, (j + k <= s)%nat ->
  basis_fromk j k (map (fun q => Nd j (s - j + q)%nat) (seq 0 (S j)))
  = map (fun q => Nd (j + k) (s - (j + k) + q)%nat) (seq 0 (S (j + k))).
Proof.
  induction k as [|k IH]; intros j H; cbn [basis_from].
  - rewrite Nat.add_0_r. reflexivity.
  - rewrite (sweep_spec_d j ltac:(lia) (S j) 0 0 ltac:(lia) eq_refl).
    rewrite IH by lia. replace (S j + k)%nat with (j + S k)%nat by lia. reflexivity.
Qed.

(** for every x: A2.2 on span s = the Cox - de Boor triangle above the indicator of s *)
Theorem basis_eq_delta degree : (degree <= s)%nat ->
  basis_funs F f0 f1 fadd fmul fsub fdiv t x s degree
  = map (fun q => Nd degree (s - degree + q)%nat) (seq 0 (S degree)).
Proof.
  intros H. unfold basis_funs.
  assert (E : [1] = map (fun q => Nd 0 (s - 0 + q)%nat) (seq 0 1)).
  { cbn [seq map Ng]. unfold delta. rewrite Nat.sub_0_r, Nat.add_0_r, Nat.eqb_refl. reflexivity. }
  rewrite E. rewrite (basis_from_spec_d degree 0) by lia. reflexivity.
Qed.

End Gen.
