(** C12, third part: phi = omega r^2/2 in a general (nu) spline space.
    With radial coefficients (omega/2) * ip_mono_coeff knots_r p_r 2 j (p_r >= 2), the same for every theta index,
    the (0,1) / (1,0) derivative evaluations return exactly omega r and 0 on the closed domain:
    - value: Marsden (MarsdenTheory.ip_marsden_esym);
    - radial derivative: summation by parts in nu_basis_funs_1st_der (ders_j = term_{j-1} - term_j) turns
      sum_j gamma_j ders_j into the degree p-1 Marsden sum of the differenced coefficients, which are those of 2x;
    - theta: partition of unity (0,1) and derivative basis sum zero (1,0). *)
From Coq Require Import List Arith Lia ZArith Bool Field Ring Setoid.
Import ListNotations.
From PGV Require Import BasisCoxDeBoor CoxDeBoorGen Sums SplineModel SplineTheory InterpModel InterpTheory QuadTheory
  GrevilleTheory MarsdenTheory PolAdvModel PolAdvTheory PolAdvConst.

Lemma pol_binom_1 n : ip_binom n 1 = n.
Proof. induction n as [|n IH]; [reflexivity|]. cbn [ip_binom]. rewrite IH. destruct n; reflexivity. Qed.
Lemma pol_binom_2 n : (2 * ip_binom (S n) 2 = S n * n)%nat.
Proof. induction n as [|n IH]; [reflexivity|]. change (ip_binom (S (S n)) 2) with (ip_binom (S n) 1 + ip_binom (S n) 2)%nat.
  rewrite pol_binom_1. lia. Qed.

Section PolQuad.
Variable F : Type.
Variable K : sp_ops F.
Hypothesis HK : sp_laws K.
Add Field PolQF : (spl_field K HK).
Notation "x + y" := (spadd K x y). Notation "x * y" := (spmul K x y).
Notation "x - y" := (spsub K x y). Notation "x / y" := (spdiv K x y).
Notation "0" := (sp0 K). Notation "1" := (sp1 K).
Notation "x <= y" := (sp_le K x y). Notation "x < y" := (sp_lt K x y).
Notation sumr := (Sums.sumr F 0 (spadd K)).
Notation sumn := (Sums.sumn F 0 (spadd K)).
Notation kn := (sp_kn F K).
Notation ofn := (sp_ofnat F K).
Notation Nd knots x s := (Ng F 0 (spadd K) (spmul K) (spsub K) (spdiv K) (kn knots) x (speqb K) (delta F 0 1 s)).

Lemma pol_ofn_mul a b : ofn (a * b) = ofn a * ofn b.
Proof. induction a as [|a IH]; cbn [Nat.mul]; [change (ofn 0%nat) with 0; ring|].
  rewrite (sp_ofnat_add F K HK), IH. change (ofn (S a)) with (ofn a + 1). ring. Qed.

(* ------------------------------------------------------------------------------------------ *)
(** * summation by parts in the derivative routine *)
Fixpoint pol_dot (g : nat -> F) (a : nat) (L : list F) : F :=
  match L with [] => 0 | v :: r => g a * v + pol_dot g (S a) r end.

Lemma pol_dot_ders_loop g : forall rest saved a,
  pol_dot g a (sp_ders_loop F K rest saved) = g a * saved + pol_dot (fun k => g (S k) - g k) a rest.
Proof.
  induction rest as [|sv r IH]; intros saved a; cbn [sp_ders_loop pol_dot]; [ring|]. rewrite IH. ring.
Qed.
Lemma pol_dot_ders_of_terms g T a : pol_dot g a (sp_ders_of_terms F K T) = pol_dot (fun k => g (S k) - g k) a T.
Proof. destruct T as [|s0 rest]; cbn [sp_ders_of_terms pol_dot]; [reflexivity|]. rewrite pol_dot_ders_loop. ring. Qed.

Lemma pol_dot_sumr : forall L g n, (length L <= n)%nat -> sumr 0 n (fun j => g j * nth j L 0) = pol_dot g 0 L.
Proof.
  assert (H : forall L g a n, (length L <= n)%nat -> sumr 0 n (fun j => g (a + j)%nat * nth j L 0) = pol_dot g a L).
  { induction L as [|v r IH]; intros g a n Hn.
    - cbn [pol_dot]. clear Hn. generalize 0%nat as s. induction n as [|n IHn]; intros s; cbn [Sums.sumr]; [reflexivity|].
      rewrite IHn. destruct s; cbn [nth]; ring.
    - destruct n as [|n]; [cbn [length] in Hn; lia|]. cbn [Sums.sumr pol_dot nth]. rewrite (pol_sumr_shift F K).
      cbn [nth]. rewrite Nat.add_0_r. f_equal.
      rewrite <- (IH g (S a) n) by (cbn [length] in Hn; lia).
      apply (Sums.sumr_ext F 0 (spadd K)). intros j _. f_equal. f_equal. lia. }
  intros L g n Hn. exact (H L g 0%nat n Hn).
Qed.

Lemma pol_dot_map (g : nat -> F) (t : nat -> F) : forall n a b,
  pol_dot g a (map t (seq b n)) = sumr 0 n (fun j => g (a + j)%nat * t (b + j)%nat).
Proof.
  induction n as [|n IH]; intros a b; cbn [seq map pol_dot Sums.sumr]; [reflexivity|].
  rewrite IH, (pol_sumr_shift F K). rewrite !Nat.add_0_r. f_equal.
  apply (Sums.sumr_ext F 0 (spadd K)). intros j _. f_equal; f_equal; lia.
Qed.

(* ------------------------------------------------------------------------------------------ *)
(** * x^2 on one span: value and derivative *)
Section Span.
Variable knots : list F.
Variable s : nat.
Variable p' : nat.                         (* degree p = S (S p'') ... we only need p = S p', p' >= 1 *)
Notation p := (S p').
Hypothesis Hsorted : sp_sorted F K knots.
Hypothesis Hspan : sp_span_ok F K knots s.
Hypothesis Hps : (p <= s)%nat.
Hypothesis Hp2 : (1 <= p')%nat.
Notation gam j := (ip_mono_coeff F K knots p 2 j).

Lemma pol_quad_value x :
  sumr 0 (S p) (fun j => gam (s - p + j)%nat * nth j (sp_A22 F K knots p x s) 0) = x * x.
Proof.
  rewrite (ip_sumr_sumn F K HK).
  pose proof (ip_poly_local F K HK knots p [0; 0; 1] Hsorted ltac:(cbn; lia) x s Hspan Hps) as H.
  assert (E : ip_polyval F K [0; 0; 1] x = x * x) by (unfold ip_polyval; cbn [length Sums.sumn nth ip_pow]; ring).
  rewrite E in H. rewrite <- H.
  apply (ip_sumn_ext F K). intros j Hj. f_equal. unfold ip_poly_coeff. cbn [length Sums.sumn nth]. ring.
Qed.

Lemma pol_gam_diff i : gam (S i) - gam i
  = (kn knots (i + p + 1) - kn knots (S i)) * ip_esym F K (ip_win F K knots p' (S i)) 1 / ofn (ip_binom p 2).
Proof.
  unfold ip_mono_coeff. rewrite (ip_win_snoc F K knots p' (S i)), (ip_win_cons F K knots p' i).
  rewrite (ip_esym_snoc F K HK). cbn [ip_esym]. replace (S i + p' + 1)%nat with (i + p + 1)%nat by lia.
  field. apply (ip_ofn_binom_ne0 F K HK). lia.
Qed.

Lemma pol_quad_deriv x :
  sumr 0 (S p) (fun j => gam (s - p + j)%nat * nth j (sp_ders_raw F K knots p x s) 0) = x + x.
Proof.
  rewrite (pol_dot_sumr (sp_ders_raw F K knots p x s) (fun j => gam (s - p + j)%nat) (S p)
             (pol_ders_raw_length F K knots p x s)).
  unfold sp_ders_raw. cbv zeta. rewrite pol_dot_ders_of_terms, pol_dot_map.
  replace (p - 1)%nat with p' by lia.
  rewrite (ip_A22_delta F K HK knots p' x s Hsorted Hspan ltac:(lia)).
  rewrite (Sums.sumr_ext F 0 (spadd K) 0 p _
             (fun j => (ofn p / ofn (ip_binom p 2)) *
                       (ip_esym F K (ip_win F K knots p' (s - p' + j)) 1 * Nd knots x s p' (s - p' + j)%nat))).
  - rewrite (pol_sumr_scale F K HK), (ip_sumr_sumn F K HK).
    rewrite (ip_marsden_esym F K HK knots x s Hsorted Hspan p' ltac:(lia) 1). cbn [ip_pow].
    assert (E2 : ofn p * ofn (ip_binom p' 1) = (1 + 1) * ofn (ip_binom p 2)).
    { rewrite <- pol_ofn_mul, pol_binom_1. destruct p' as [|q]; [lia|]. rewrite <- (pol_binom_2 (S q)).
      rewrite pol_ofn_mul. change (ofn 2) with (0 + 1 + 1). ring. }
    assert (Hb : ofn (ip_binom p 2) <> 0) by (apply (ip_ofn_binom_ne0 F K HK); lia).
    replace (ofn p / ofn (ip_binom p 2) * (ofn (ip_binom p' 1) * (x * 1)))
      with ((ofn p * ofn (ip_binom p' 1)) * x / ofn (ip_binom p 2)) by (field; exact Hb).
    rewrite E2. field. exact Hb.
  - intros j Hj. cbn [Nat.add].
    replace (s - p + S j)%nat with (S (s - p + j)) by lia. rewrite pol_gam_diff.
    unfold sp_der_term.
    rewrite (ip_nth_map_seq (fun q => Nd knots x s p' (s - p' + q)%nat) 0 (S p') 0 j ltac:(lia)). cbn [Nat.add].
    pose proof (sp_der_den_ne0 F K HK knots p s j Hsorted Hspan ltac:(lia) ltac:(lia)) as Hden.
    unfold sp_der_den in *.
    replace (s - p + j + p + 1)%nat with (s + j + 1)%nat by lia.
    replace (S (s - p + j)) with (s + j + 1 - p)%nat by lia.
    replace (s + j + 1 - p)%nat with (s - p' + j)%nat in * by lia.
    assert (Hb : ofn (ip_binom p 2) <> 0) by (apply (ip_ofn_binom_ne0 F K HK); lia).
    field. split; assumption.
Qed.
End Span.

(* ------------------------------------------------------------------------------------------ *)
(** * the 2-D potential omega r^2/2 *)
Notation sumf := (sumF F 0 (spadd K)).

(** every row of the coefficient array (every theta index) holds (omega/2) * xi_j^(2), the radial
    coefficients of x^2 *)
Definition pol_quad_coeffs (kq : list F) (dq : nat) (kr : list F) (dr : nat) (omega : F) (c : list (list F)) : Prop :=
  length c = (length kq - dq - 1)%nat /\
  forall a, (a < length c)%nat -> length (nth a c []) = (length kr - dr - 1)%nat /\
    forall b, (b < length kr - dr - 1)%nat ->
      nth b (nth a c []) 0 = omega / (1 + 1) * ip_mono_coeff F K kr dr 2 b.

(** a space on which the general evaluator works on the whole closed domain *)
Definition pol_space_ok (knots : list F) (d : nat) : Prop :=
  sp_sorted F K knots /\ (2 * d + 1 < length knots)%nat /\
  kn knots d < kn knots (S d) /\ kn knots (length knots - d - 2) < kn knots (length knots - 1 - d).
Definition pol_in_dom (knots : list F) (d : nat) (x : F) : Prop :=
  kn knots d <= x /\ x <= kn knots (length knots - 1 - d).

Lemma pol_span_of knots d x : pol_space_ok knots d -> pol_in_dom knots d x ->
  exists s, sp_nu_find_span F K knots d x = SpOk s /\ (d <= s <= length knots - d - 2)%nat /\ sp_span_ok F K knots s.
Proof.
  intros [Hs [Hl [Hf Hla]]] [Hlo Hhi].
  destruct (sp_nu_eval_1d_domain F K HK knots d (repeat 0 (length knots - d - 1)) x 0%nat Hs Hl Hf Hla Hlo Hhi
              (repeat_length _ _) (Nat.le_0_l 1) (Nat.le_0_l d)) as [s [E [R [Sp _]]]].
  exists s. split; [exact E|]. split; [lia|exact Sp].
Qed.

Section Quad2D.
Variables (kq : list F) (dq : nat) (kr : list F) (dr' : nat).
Notation dr := (S dr').
Variable omega : F.
Variable c : list (list F).
Hypothesis Hq : pol_space_ok kq dq.
Hypothesis Hr : pol_space_ok kr dr.
Hypothesis Hdq : (1 <= dq)%nat.
Hypothesis Hdr : (1 <= dr')%nat.               (* radial degree >= 2 *)
Hypothesis Hc : pol_quad_coeffs kq dq kr dr omega c.

Lemma pol_two_ne0 : 1 + 1 <> 0.
Proof. exact (sp_2_ne0 F K HK). Qed.

Theorem pol_quad_scalar x y : pol_in_dom kq dq x -> pol_in_dom kr dr y ->
  sp_nu_eval_2d_scalar F K x y kq dq kr dr c 0 1 = SpOk (omega * y) /\
  sp_nu_eval_2d_scalar F K x y kq dq kr dr c 1 0 = SpOk 0.
Proof.
  intros Hx Hy.
  destruct (pol_span_of kq dq x Hq Hx) as [s1 [E1 [R1 Sp1]]].
  destruct (pol_span_of kr dr y Hr Hy) as [s2 [E2 [R2 Sp2]]].
  destruct Hq as [Hsq [Hlq _]]. destruct Hr as [Hsr [Hlr _]]. destruct Hc as [Hc1 Hc2].
  assert (Hrows : forall row, In row c -> (s2 < length row)%nat).
  { intros row Hin. destruct (In_nth _ _ [] Hin) as [a [Ha <-]]. rewrite (proj1 (Hc2 a Ha)). lia. }
  assert (Hcoef : forall i j, (i <= dq)%nat -> (j <= dr)%nat ->
            nth (s2 - dr + j) (nth (s1 - dq + i) c []) 0 = omega / (1 + 1) * ip_mono_coeff F K kr dr 2 (s2 - dr + j)).
  { intros i j Hi Hj. apply (proj2 (Hc2 (s1 - dq + i)%nat ltac:(lia))). lia. }
  split.
  - rewrite (sp_nu_eval_2d_scalar_spec F K HK kq dq kr dr c x y 0 1 s1 s2 Hsq Hsr E1 E2 Sp1 Sp2) by (try assumption; lia).
    f_equal. cbn [sp_basis_of].
    rewrite (Sums.sumr_ext F 0 (spadd K) 0 (S dq) _ (fun i => (omega / (1 + 1) * (y + y)) * nth i (sp_A22 F K kq dq x s1) 0)).
    + rewrite (pol_sumr_scale F K HK), (pol_sumr_nth F K HK) by (rewrite sp_A22_length; lia).
      rewrite (sp_A22_sum_one F K HK kq dq x s1 Hsq Sp1 ltac:(lia)). field. exact pol_two_ne0.
    + intros i Hi. f_equal.
      rewrite (Sums.sumr_ext F 0 (spadd K) 0 (S dr) _
                 (fun j => omega / (1 + 1) * (ip_mono_coeff F K kr dr 2 (s2 - dr + j) * nth j (sp_ders_raw F K kr dr y s2) 0))).
      * rewrite (pol_sumr_scale F K HK). f_equal. apply (pol_quad_deriv kr s2 dr' Hsr Sp2 ltac:(lia) Hdr).
      * intros j Hj. rewrite Hcoef by lia. ring.
  - rewrite (sp_nu_eval_2d_scalar_spec F K HK kq dq kr dr c x y 1 0 s1 s2 Hsq Hsr E1 E2 Sp1 Sp2) by (try assumption; lia).
    f_equal. destruct dq as [|dq']; [lia|]. cbn [sp_basis_of].
    rewrite (Sums.sumr_ext F 0 (spadd K) 0 (S (S dq')) _ (fun i => (omega / (1 + 1) * (y * y)) * nth i (sp_ders_raw F K kq (S dq') x s1) 0)).
    + rewrite (pol_sumr_scale F K HK), (pol_sumr_nth F K HK) by apply (pol_ders_raw_length F K).
      rewrite (sp_ders_sum_zero F K HK). ring.
    + intros i Hi. f_equal.
      rewrite (Sums.sumr_ext F 0 (spadd K) 0 (S dr) _
                 (fun j => omega / (1 + 1) * (ip_mono_coeff F K kr dr 2 (s2 - dr + j) * nth j (sp_A22 F K kr dr y s2) 0))).
      * rewrite (pol_sumr_scale F K HK). f_equal. apply (pol_quad_value kr s2 dr' Hsr Sp2 ltac:(lia) Hdr).
      * intros j Hj. rewrite Hcoef by lia. ring.
Qed.
End Quad2D.

(* ------------------------------------------------------------------------------------------ *)
(** * rigid rotation from the coefficient condition (general path) *)
Lemma pol_twopi_pos pi_ : 0 < pi_ -> 0 < pol_twopi F K pi_.
Proof.
  intros [Hp Hpn]. unfold pol_twopi. destruct (sp_two_pos F K HK) as [H2 H2n]. unfold sp_two in *. split.
  - apply (spl_mul_nonneg K HK); assumption.
  - intros E0. symmetry in E0. revert E0. apply (sp_mul_ne0 F K HK); intros E0; [apply H2n|apply Hpn]; symmetry; exact E0.
Qed.

Section RigidCoeffs.
Variable feq : F -> F -> F.
Variable pi_ : F.
Variables (dt v B0 : F).
Variable nul : bool.
Variables (rPts qPts : list F).
Variables (kq : list F) (dq : nat) (kr : list F) (dr' : nat).
Notation dr := (S dr').
Variable cphi : list (list F).
Variable pol : pol_spl F.
Variable omega : F.
Notation E := (pol_nu_ev F K).
Notation phi := (PolSpl kq dq kr dr cphi).
Notation nq := (pol_nq F qPts).
Notation nr := (pol_nr F rPts).
Notation twopi := (pol_twopi F K pi_).
Notation qi i := (nth i qPts 0).
Notation rj j := (nth j rPts 0).
Notation mq i := (pol_modv F K (qi i - omega * (dt / B0)) twopi).

Hypothesis Htr : sp_trunc_ok F K.
Hypothesis HB : speqb K B0 0 = false.
Hypothesis Hpipos : 0 < pi_.
Hypothesis Hne : rPts <> [].
Hypothesis Hr : forall j, (j < nr)%nat -> speqb K (rj j) 0 = false /\
  pol_inside F K (hd 0 rPts) (last rPts 0) (rj j) = true.
(** the spline space of the potential: theta on [0, 2 pi], degree >= 1; r of degree >= 2 *)
Hypothesis Hsq : pol_space_ok kq dq.
Hypothesis Hsr : pol_space_ok kr dr.
Hypothesis Hdq : (1 <= dq)%nat.
Hypothesis Hdr : (1 <= dr')%nat.
Hypothesis Hq0 : kn kq dq = 0.
Hypothesis Hq1 : kn kq (length kq - 1 - dq) = twopi.
(** the nodes lie in the domain of the space *)
Hypothesis Hqdom : forall i, (i < nq)%nat -> pol_in_dom kq dq (qi i).
Hypothesis Hrdom : forall j, (j < nr)%nat -> pol_in_dom kr dr (rj j).
(** phi = omega r^2/2: its coefficients *)
Hypothesis Hc : pol_quad_coeffs kq dq kr dr omega cphi.
(** the value of the spline of f at the rotated point *)
Variable fv : nat -> nat -> F.
Hypothesis Hf : forall i j, (i < nq)%nat -> (j < nr)%nat ->
  pol_scalar F E pol (pol_modv F K (mq i) twopi) (rj j) 0%nat 0%nat = SpOk (fv i j).

Lemma pol_rc_twopi_eqb : speqb K twopi 0 = false.
Proof. destruct (sp_eqb_spec F K HK twopi 0) as [E0|]; [|reflexivity]. exfalso. apply (proj2 (pol_twopi_pos pi_ Hpipos)). symmetry. exact E0. Qed.

Lemma pol_rc_mq_dom i : pol_in_dom kq dq (mq i).
Proof.
  destruct (pol_mod_range_thm F K HK (qi i - omega * (dt / B0)) twopi Htr (pol_twopi_pos pi_ Hpipos)) as [y [Hy [H0 H1]]].
  rewrite (pol_mod_modv F K _ _ pol_rc_twopi_eqb) in Hy. injection Hy as <-.
  unfold pol_in_dom. rewrite Hq0, Hq1. split; [exact H0|exact (proj1 H1)].
Qed.

Definition pol_rc_D1 : list (list F) := map (fun _ : F => map (fun y => omega * y) rPts) qPts.
Definition pol_rc_D2 : list (list F) := map (fun _ : F => map (fun _ : F => 0) rPts) qPts.

Lemma pol_rc_in_q x : In x qPts -> pol_in_dom kq dq x.
Proof. intros Hin. destruct (In_nth _ _ 0 Hin) as [i [Hi <-]]. apply Hqdom, Hi. Qed.
Lemma pol_rc_in_r y : In y rPts -> pol_in_dom kr dr y.
Proof. intros Hin. destruct (In_nth _ _ 0 Hin) as [j [Hj <-]]. apply Hrdom, Hj. Qed.

Lemma pol_rc_cross1 : pol_cross F E rPts qPts phi 0%nat 1%nat = SpOk pol_rc_D1.
Proof.
  unfold pol_cross. cbn [pe_cross pol_nu_ev ps_k1 ps_d1 ps_k2 ps_d2 ps_c].
  apply (sp_nu_eval_2d_cross_eq_grid F K qPts rPts kq dq kr dr cphi 0 1 (fun _ y => omega * y)); [lia|lia|exact Hne|].
  intros x y Hx Hy. exact (proj1 (pol_quad_scalar kq dq kr dr' omega cphi Hsq Hsr Hdq Hdr Hc x y (pol_rc_in_q x Hx) (pol_rc_in_r y Hy))).
Qed.
Lemma pol_rc_cross2 : pol_cross F E rPts qPts phi 1%nat 0%nat = SpOk pol_rc_D2.
Proof.
  unfold pol_cross. cbn [pe_cross pol_nu_ev ps_k1 ps_d1 ps_k2 ps_d2 ps_c].
  apply (sp_nu_eval_2d_cross_eq_grid F K qPts rPts kq dq kr dr cphi 1 0 (fun _ _ => 0)); [lia|lia|exact Hne|].
  intros x y Hx Hy. exact (proj2 (pol_quad_scalar kq dq kr dr' omega cphi Hsq Hsr Hdq Hdr Hc x y (pol_rc_in_q x Hx) (pol_rc_in_r y Hy))).
Qed.

Lemma pol_rc_at1 i j : (i < nq)%nat -> (j < nr)%nat -> pol_at F K pol_rc_D1 i j = omega * rj j.
Proof.
  intros Hi Hj. unfold pol_at, pol_rc_D1.
  rewrite (pol_nth_map' (fun _ : F => map (fun y => omega * y) rPts) qPts i 0 []) by exact Hi.
  rewrite (pol_nth_map' (fun y => omega * y) rPts j 0 0) by exact Hj. reflexivity.
Qed.
Lemma pol_rc_at2 i j : (i < nq)%nat -> (j < nr)%nat -> pol_at F K pol_rc_D2 i j = 0.
Proof.
  intros Hi Hj. unfold pol_at, pol_rc_D2.
  rewrite (pol_nth_map' (fun _ : F => map (fun _ : F => 0) rPts) qPts i 0 []) by exact Hi.
  rewrite (pol_nth_map' (fun _ : F => 0) rPts j 0 0) by exact Hj. reflexivity.
Qed.

Lemma pol_rc_scalars i j : (i < nq)%nat -> (j < nr)%nat ->
  pol_scalar F E phi (mq i) (rj j) 0%nat 1%nat = SpOk (omega * rj j) /\
  pol_scalar F E phi (mq i) (rj j) 1%nat 0%nat = SpOk 0.
Proof.
  intros Hi Hj. unfold pol_scalar. cbn [pe_scalar pol_nu_ev ps_k1 ps_d1 ps_k2 ps_d2 ps_c].
  exact (pol_quad_scalar kq dq kr dr' omega cphi Hsq Hsr Hdq Hdr Hc (mq i) (rj j) (pol_rc_mq_dom i) (Hrdom j Hj)).
Qed.

(** rigid rotation from the coefficients, explicit scheme *)
Theorem pol_rigid_expl_from_coeffs :
  pol_step_expl F K E feq pi_ dt v B0 nul rPts qPts phi pol
  = SpOk (pol_rigid_result F K pi_ dt B0 rPts qPts omega fv).
Proof.
  exact (pol_rigid_expl F K HK E feq pi_ dt v B0 nul rPts qPts phi pol omega HB pol_rc_twopi_eqb Hne Hr
           pol_rc_D1 pol_rc_D2 pol_rc_cross1 pol_rc_cross2
           (pol_grid_ok_of_sound F K E rPts qPts phi 0 1 _ (pol_nu_ev_sound F K) pol_rc_cross1)
           (pol_grid_ok_of_sound F K E rPts qPts phi 1 0 _ (pol_nu_ev_sound F K) pol_rc_cross2)
           pol_rc_at1 pol_rc_at2 pol_rc_scalars fv Hf).
Qed.

(** implicit scheme: one sweep *)
Theorem pol_rigid_impl_from_coeffs tol fuel : 0 <= tol ->
  pol_step_impl F K E feq pi_ dt v B0 nul rPts qPts phi pol tol (S fuel)
  = PolRet (SpOk (pol_rigid_result F K pi_ dt B0 rPts qPts omega fv, 1%nat)).
Proof.
  intros Htol.
  exact (pol_rigid_impl F K HK E feq pi_ dt v B0 nul rPts qPts phi pol omega HB pol_rc_twopi_eqb Hne Hr
           pol_rc_D1 pol_rc_D2 pol_rc_cross1 pol_rc_cross2
           (pol_grid_ok_of_sound F K E rPts qPts phi 0 1 _ (pol_nu_ev_sound F K) pol_rc_cross1)
           (pol_grid_ok_of_sound F K E rPts qPts phi 1 0 _ (pol_nu_ev_sound F K) pol_rc_cross2)
           pol_rc_at1 pol_rc_at2 pol_rc_scalars fv Hf tol Htol (proj1 Hpipos) fuel).
Qed.
End RigidCoeffs.

End PolQuad.
