From Coq Require Import ZArith QArith Qround Lia.
Open Scope Q_scope.
(** * 6. the time slot for float arguments, read as the exact rationals they are
    Python's float [t // dt] is the floor of the exact quotient of the two doubles. *)
Definition dg_slot_q (t dt : Q) (saveStep : Z) : Z := (Qfloor (t / dt) mod saveStep)%Z.

Lemma dg_qfloor_unique (x : Q) (k : Z) : inject_Z k <= x -> x < inject_Z (k + 1) -> Qfloor x = k.
Proof. intros H1 H2.
  assert (A : (k <= Qfloor x)%Z) by (rewrite <- (Qfloor_Z k); apply Qfloor_resp_le; exact H1).
  assert (B : (Qfloor x < k + 1)%Z).
  { rewrite Zlt_Qlt. apply Qle_lt_trans with x; [apply Qfloor_le|exact H2]. }
  lia. Qed.

(** a time inside step k, [k dt <= t < (k+1) dt], goes to slot k mod saveStep; in particular t = k dt exactly *)
Lemma dg_slot_q_of_step (t dt : Q) (k s : Z) : 0 < dt -> inject_Z k * dt <= t -> t < inject_Z (k + 1) * dt ->
  dg_slot_q t dt s = (k mod s)%Z.
Proof. intros Hdt H1 H2. unfold dg_slot_q. f_equal. apply dg_qfloor_unique.
  - apply Qle_shift_div_l; assumption.
  - apply Qlt_shift_div_r; assumption. Qed.

Lemma dg_slot_q_exact (dt : Q) (k s : Z) : 0 < dt -> dg_slot_q (inject_Z k * dt) dt s = (k mod s)%Z.
Proof. intros Hdt. apply dg_slot_q_of_step; [exact Hdt|apply Qle_refl|].
  apply Qmult_lt_compat_r; [exact Hdt|]. rewrite <- Zlt_Qlt. lia. Qed.

(** the hypothesis is necessary: the double nearest to 1/10 is larger than 1/10, so five of them exceed
    the double 0.5 = 1/2 and the step at t = 0.5 is sent to slot 4 *)
Example dg_slot_q_tenth : dg_slot_q (1 # 2) (3602879701896397 # 36028797018963968) 6 = 4%Z.
Proof. vm_compute. reflexivity. Qed.
