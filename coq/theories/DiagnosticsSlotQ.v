(** C17 - the collector's time slot for float arguments: over exact rationals, and in binary64. *)
From Coq Require Import ZArith QArith Qround Lia PrimFloat SpecFloat FloatOps.
From PGV Require Import Diagnostics.
Open Scope Q_scope.
(** * the time slot for float arguments, read as the exact rationals they are:
    ti = int(t/dt + 0.5) (nearest step, half up, t >= 0), idx = ti % saveStep *)
Definition dg_slot_q (t dt : Q) (saveStep : Z) : Z := (Qfloor (t / dt + (1 # 2)) mod saveStep)%Z.

Lemma dg_qfloor_unique (x : Q) (k : Z) : inject_Z k <= x -> x < inject_Z (k + 1) -> Qfloor x = k.
Proof. intros H1 H2.
  assert (A : (k <= Qfloor x)%Z) by (rewrite <- (Qfloor_Z k); apply Qfloor_resp_le; exact H1).
  assert (B : (Qfloor x < k + 1)%Z).
  { rewrite Zlt_Qlt. apply Qle_lt_trans with x; [apply Qfloor_le|exact H2]. }
  lia. Qed.

(** a time closer than dt/2 to k dt (from below: at most dt/2) belongs to step k *)
Lemma dg_slot_q_of_step (t dt : Q) (k s : Z) : 0 < dt ->
  inject_Z k * dt - dt * (1 # 2) <= t -> t < inject_Z k * dt + dt * (1 # 2) ->
  dg_slot_q t dt s = (k mod s)%Z.
Proof. intros Hdt H1 H2. unfold dg_slot_q. f_equal. apply dg_qfloor_unique.
  - assert (E : inject_Z k == (inject_Z k * dt - dt * (1 # 2)) / dt + (1 # 2)) by (field; intros K; rewrite K in Hdt; discriminate).
    rewrite E. apply Qplus_le_l. apply Qle_shift_div_l; [exact Hdt|].
    rewrite Qmult_comm, Qmult_div_r by (intros K; rewrite K in Hdt; discriminate). exact H1.
  - assert (E : inject_Z (k + 1) == (inject_Z k * dt + dt * (1 # 2)) / dt + (1 # 2)).
    { rewrite inject_Z_plus. field. intros K; rewrite K in Hdt; discriminate. }
    rewrite E. apply Qplus_lt_l. apply Qlt_shift_div_l; [exact Hdt|].
    rewrite Qmult_comm, Qmult_div_r by (intros K; rewrite K in Hdt; discriminate). exact H2.
Qed.

Lemma dg_slot_q_exact (dt : Q) (k s : Z) : 0 < dt -> dg_slot_q (inject_Z k * dt) dt s = (k mod s)%Z.
Proof. intros Hdt. apply dg_slot_q_of_step; [exact Hdt| |].
  - rewrite <- (Qplus_0_r (inject_Z k * dt)) at 2. unfold Qminus. apply Qplus_le_r.
    apply Qle_trans with (- 0); [|apply Qle_refl]. apply Qopp_le_compat. apply Qmult_le_0_compat; [apply Qlt_le_weak; exact Hdt|discriminate].
  - rewrite <- (Qplus_0_r (inject_Z k * dt)) at 1. apply Qplus_lt_r.
    apply Qmult_lt_0_compat; [exact Hdt|reflexivity]. Qed.

Example dg_slot_q_tenth :
  dg_slot_q (1 # 2) (3602879701896397 # 36028797018963968) 6 = 5%Z
  /\ (Qfloor ((1 # 2) / (3602879701896397 # 36028797018963968)) mod 6 = 4)%Z.
Proof. vm_compute. split; reflexivity. Qed.

(** on integers the rational model is the integer model of Diagnostics.v *)
Lemma dg_slot_q_Z (t dt s : Z) : (0 < dt)%Z -> dg_slot_q (inject_Z t) (inject_Z dt) s = dg_slot t dt s.
Proof.
  intros Hdt. unfold dg_slot.
  pose proof (Z.div_mod (2 * t + dt) (2 * dt) ltac:(lia)) as Hdm.
  pose proof (Z.mod_pos_bound (2 * t + dt) (2 * dt) ltac:(lia)) as Hb.
  set (q := ((2 * t + dt) / (2 * dt))%Z) in *.
  apply dg_slot_q_of_step.
  - change 0 with (inject_Z 0). rewrite <- Zlt_Qlt. exact Hdt.
  - unfold Qle, Qminus, Qplus, Qmult, Qopp, inject_Z. cbn. nia.
  - unfold Qlt, Qminus, Qplus, Qmult, Qopp, inject_Z. cbn. nia.
Qed.

(** the same expression in binary64 (what CPython evaluates for float arguments): int() truncates *)
Definition dg_trunc_f (x : float) : Z :=
  match Prim2SF x with
  | S754_finite sg m e =>
      let a := if (0 <=? e)%Z then (Zpos m * 2 ^ e)%Z else (Zpos m / 2 ^ (- e))%Z in if sg then (- a)%Z else a
  | _ => 0%Z
  end.
Definition dg_slot_f (t dt : float) (s : Z) : Z := (dg_trunc_f (t / dt + 0.5)%float mod s)%Z.

Example dg_slot_f_tenth : dg_slot_f 0.5%float 0x1.999999999999ap-4%float 6 = 5%Z /\ dg_slot_f 0x1.3333333333334p-2%float 0x1.999999999999ap-4%float 6 = 3%Z
  /\ dg_slot_f 7%float 2%float 3 = 1%Z.
Proof. vm_compute. repeat split. Qed.
