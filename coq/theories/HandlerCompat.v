(** C01: LayoutHandler.compatible (the test the handler itself uses to accept a direct transition)
    implies the hypothesis of the step theorem: for well-formed configurations,
    compatible nprocs l1 l2 = true  ->  step_ok_b ... l1 l2 = true. *)
From Coq Require Import List Arith Lia PeanoNat Bool.
Import ListNotations.
From PGV Require Import NdIndex Blocks Layouts Handler TransposeExec HandlerRoute.

Section Compat.
Variables Nl nprocs l1 l2 : list nat.
Variable d' : nat.
Let d := S d'.

Definition cond (i : nat) : bool := (1 <? nth i nprocs 1) && negb (nth i l1 0 =? nth i l2 0).

Lemma differing_axes_eq : differing_axes nprocs l1 l2 = filter cond (seq 0 (length nprocs)).
Proof. reflexivity. Qed.

Lemma swap_axes_eq : swap_axes nprocs l1 l2 =
  flat_map (fun i => if cond i then [i; index_of l1 (nth i l2 0); index_of l2 (nth i l1 0)] else []) (seq 0 (length nprocs)).
Proof. reflexivity. Qed.

Lemma filter_nil_all (f : nat -> bool) l : filter f l = [] -> forall a, In a l -> f a = false.
Proof.
  induction l as [|x l IH]; intros H a Ha; [destruct Ha|]. cbn in H.
  destruct (f x) eqn:E; [discriminate|]. destruct Ha as [->|Ha]; [exact E|apply IH; assumption].
Qed.

Lemma filter_single (f : nat -> bool) l a0 : NoDup l -> filter f l = [a0] ->
  In a0 l /\ f a0 = true /\ forall a, In a l -> a <> a0 -> f a = false.
Proof.
  induction l as [|x l IH]; intros Hnd H; [discriminate|]. cbn in H.
  inversion Hnd as [|? ? Hni Hnd']; subst.
  destruct (f x) eqn:E.
  - injection H as -> H. split; [left; reflexivity|]. split; [exact E|].
    intros a [->|Ha] Hne; [contradiction|]. apply (filter_nil_all f l H a Ha).
  - destruct (IH Hnd' H) as [Hin [Hf Hall]]. split; [right; exact Hin|]. split; [exact Hf|].
    intros a [->|Ha] Hne; [exact E|apply Hall; assumption].
Qed.

Lemma flat_map_nil_all (g : nat -> list nat) l : (forall a, In a l -> g a = []) -> flat_map g l = [].
Proof. induction l as [|x l IH]; intros H; [reflexivity|]. cbn. rewrite (H x (or_introl eq_refl)). apply IH. intros; apply H; right; assumption. Qed.

Lemma flat_map_head (g : nat -> list nat) l a0 : NoDup l -> In a0 l ->
  (forall a, In a l -> a <> a0 -> g a = []) -> flat_map g l = g a0.
Proof.
  induction l as [|x l IH]; intros Hnd Hin H; [destruct Hin|]. cbn.
  inversion Hnd as [|? ? Hni Hnd']; subst.
  destruct Hin as [->|Hin].
  - rewrite (flat_map_nil_all g l); [apply app_nil_r|].
    intros a Ha. apply H; [right; exact Ha|]. intros ->. contradiction.
  - rewrite (H x (or_introl eq_refl)); [|intros ->; contradiction]. cbn. apply IH; try assumption.
    intros a Ha Hne. apply H; [right; exact Ha|exact Hne].
Qed.

Theorem compatible_step_ok :
  cfg_wf_b Nl nprocs l1 l2 d' = true -> compatible nprocs l1 l2 = true ->
  step_ok_b Nl nprocs d' l1 l2 = true.
Proof.
  intros Hwf Hc. unfold step_ok_b. rewrite Hwf. cbn [andb].
  assert (Hn : length nprocs <= d).
  { unfold cfg_wf_b in Hwf. apply andb_prop in Hwf. destruct Hwf as [W _]. apply andb_prop in W. destruct W as [_ W].
    apply Nat.leb_le in W. exact W. }
  unfold compatible in Hc. apply Nat.ltb_lt in Hc. rewrite differing_axes_eq in Hc.
  rewrite swap_axes_eq.
  destruct (filter cond (seq 0 (length nprocs))) as [|a0 [|a1 rest]] eqn:F; [| |cbn in Hc; lia].
  - (* no distributed axis changes: local transpose *)
    pose proof (filter_nil_all cond _ F) as Hall.
    rewrite flat_map_nil_all.
    + unfold local_wf_b. apply forallb_forall. intros a Ha. apply in_seq in Ha.
      destruct (Nat.lt_ge_cases a (length nprocs)) as [Hlt|Hge].
      * specialize (Hall a ltac:(apply in_seq; lia)). unfold cond in Hall. unfold Pf, pif, pif'.
        destruct (1 <? nth a nprocs 1); cbn in *; [|reflexivity].
        apply negb_false_iff in Hall. exact Hall.
      * unfold Pf. rewrite nth_overflow by exact Hge. reflexivity.
    + intros a Ha. rewrite (Hall a Ha). reflexivity.
  - (* exactly one distributed axis changes *)
    destruct (filter_single cond _ a0 (seq_NoDup _ _) F) as [Hin [Hf Hall]].
    rewrite (flat_map_head _ _ a0 (seq_NoDup _ _) Hin).
    2:{ intros a Ha Hne. rewrite (Hall a Ha Hne). reflexivity. }
    rewrite Hf. apply in_seq in Hin.
    unfold dist_wf_b. unfold cond in Hf. apply andb_prop in Hf. destruct Hf as [Hp Hd].
    apply andb_true_intro. split; [apply andb_true_intro; split|].
    + apply Nat.ltb_lt. fold d. lia.
    + exact Hd.
    + apply forallb_forall. intros a Ha. apply in_seq in Ha.
      destruct (Nat.eqb_spec a a0) as [->|Hne]; [reflexivity|]. cbn [orb].
      destruct (Nat.lt_ge_cases a (length nprocs)) as [Hlt|Hge].
      * specialize (Hall a ltac:(apply in_seq; lia) Hne). unfold cond in Hall. unfold Pf, pif, pif'.
        destruct (1 <? nth a nprocs 1); cbn in *; [|reflexivity].
        apply negb_false_iff in Hall. exact Hall.
      * unfold Pf. rewrite nth_overflow by exact Hge. reflexivity.
Qed.
End Compat.
