(** LayoutHandler bookkeeping (layout.py:410-472, 688-709): swap axes, buffer size; Grid accessors
    (grid.py:60-100).  Executable on lists; C02 theorems at the end. *)
From Coq Require Import List Arith Lia PeanoNat Bool.
Import ListNotations.
From PGV Require Import NdIndex Blocks Layouts.

Fixpoint index_of (l : list nat) (e : nat) : nat :=
  match l with
  | [] => 0
  | x :: r => if x =? e then 0 else S (index_of r e)
  end.

Fixpoint set_nth (l : list nat) (i v : nat) : list nat :=
  match l, i with
  | [], _ => []
  | _ :: r, 0 => v :: r
  | x :: r, S j => x :: set_nth r j v
  end.

(** [_get_swap_axes]: [axis0; axis1; axis2] for every distributed axis whose dimension changes *)
Definition swap_axes (nprocs src dst : list nat) : list nat :=
  flat_map (fun i =>
    if (1 <? nth i nprocs 1) && negb (nth i src 0 =? nth i dst 0)
    then [i; index_of src (nth i dst 0); index_of dst (nth i src 0)] else [])
    (seq 0 (length nprocs)).

(** memory needed to go from l1 to l2 as computed in LayoutHandler.__init__ *)
Definition pair_bufsize (N nprocs coords l1 l2 : list nat) : nat :=
  let bs := l_shape N nprocs l1 coords in
  match swap_axes nprocs l1 l2 with
  | a0 :: a1 :: _ =>
      size (set_nth (set_nth bs a0 (nth a0 (l_max_shape N nprocs l1) 0)) a1 (nth a0 (l_max_shape N nprocs l2) 0))
      * nth a0 nprocs 1
  | _ => size bs
  end.

(** the double loop: layouts in insertion order; pairs (n, i<n) that are compatible *)
Fixpoint earlier_pairs (nprocs : list nat) (prev : list (list nat)) (l1 : list nat) : list (list nat * list nat) :=
  match prev with
  | [] => []
  | l2 :: r => (if compatible nprocs l1 l2 then [(l1, l2)] else []) ++ earlier_pairs nprocs r l1
  end.
Fixpoint all_pairs (nprocs : list nat) (prev rest : list (list nat)) : list (list nat * list nat) :=
  match rest with
  | [] => []
  | l :: r => earlier_pairs nprocs prev l ++ all_pairs nprocs (prev ++ [l]) r
  end.
Definition handler_bufsize (N nprocs coords : list nat) (layouts : list (list nat)) : nat :=
  match layouts with
  | [] => 0
  | l0 :: _ =>
      fold_left Nat.max (map (fun pr => pair_bufsize N nprocs coords (fst pr) (snd pr)) (all_pairs nprocs [] layouts))
                (l_size N nprocs l0 coords)
  end.

Lemma fold_max_ge_init l a : a <= fold_left Nat.max l a.
Proof. revert a. induction l as [|x l IH]; intros a; cbn; [lia|]. specialize (IH (Nat.max a x)). lia. Qed.
Lemma fold_max_ge_in l a x : In x l -> x <= fold_left Nat.max l a.
Proof.
  revert a. induction l as [|y l IH]; intros a H; [destruct H|]. cbn.
  destruct H as [->|H]; [|apply IH, H].
  pose proof (fold_max_ge_init l (Nat.max a x)). lia.
Qed.

(** the advertised buffer holds the block of the first layout and the padded, p-fold send buffer of
    every compatible pair the constructor enumerates *)
Theorem bufsize_ge_first N nprocs coords l0 ls :
  l_size N nprocs l0 coords <= handler_bufsize N nprocs coords (l0 :: ls).
Proof. unfold handler_bufsize. apply fold_max_ge_init. Qed.

Theorem bufsize_ge_pair N nprocs coords layouts l1 l2 :
  In (l1, l2) (all_pairs nprocs [] layouts) ->
  pair_bufsize N nprocs coords l1 l2 <= handler_bufsize N nprocs coords layouts.
Proof.
  intros H. unfold handler_bufsize. destruct layouts as [|l0 ls]; [destruct H|].
  apply fold_max_ge_in. apply (in_map (fun pr => pair_bufsize N nprocs coords (fst pr) (snd pr))) in H. exact H.
Qed.

(** * Grid accessors on the index level *)
(** [getGlobalIdxVals i] = range(starts[i], ends[i]) *)
Definition global_idx_vals (N nprocs dims coords : list nat) (i : nat) : list nat :=
  seq (nth i (l_starts N nprocs dims coords) 0) (nth i (l_shape N nprocs dims coords) 0).
(** [getGlobalIndices]: result = list(indices); result[dims[i]] = indices[i] + starts[i] for i in order *)
Definition global_indices (starts dims idx : list nat) : list nat :=
  fold_left (fun res i => set_nth res (nth i dims 0) (nth i idx 0 + nth i starts 0)) (seq 0 (length starts)) idx.

Lemma set_nth_length l i v : length (set_nth l i v) = length l.
Proof. revert i. induction l as [|x l IH]; intros [|i]; cbn; auto. Qed.
Lemma nth_set_nth_eq l i v d : i < length l -> nth i (set_nth l i v) d = v.
Proof. revert i. induction l as [|x l IH]; intros [|i] H; cbn in *; try lia; auto. apply IH. lia. Qed.
Lemma nth_set_nth_ne l i j v d : i <> j -> nth j (set_nth l i v) d = nth j l d.
Proof. revert i j. induction l as [|x l IH]; intros [|i] [|j] H; cbn; auto; try lia. Qed.

Lemma global_indices_aux dims starts idx0 : forall (is_ : list nat) res e,
  NoDup (map (fun i => nth i dims 0) is_) ->
  (forall i, In i is_ -> nth i dims 0 < length res) ->
  nth e (fold_left (fun res i => set_nth res (nth i dims 0) (nth i idx0 0 + nth i starts 0)) is_ res) 0 =
  match find (fun i => nth i dims 0 =? e) is_ with
  | Some i => nth i idx0 0 + nth i starts 0
  | None => nth e res 0
  end.
Proof.
  induction is_ as [|i r IH]; intros res e Hnd Hlt; cbn [fold_left find]; [reflexivity|].
  inversion Hnd as [|? ? Hni Hnd']; subst.
  rewrite IH; [|exact Hnd'|].
  2:{ intros j Hj. rewrite set_nth_length. apply Hlt. right. exact Hj. }
  destruct (Nat.eqb_spec (nth i dims 0) e) as [E|E].
  - subst e. destruct (find (fun j => nth j dims 0 =? nth i dims 0) r) eqn:F.
    + apply find_some in F. destruct F as [Hin Heq]. apply Nat.eqb_eq in Heq.
      exfalso. apply Hni. apply in_map_iff. exists n. split; [exact Heq|exact Hin].
    + apply nth_set_nth_eq. apply Hlt. left. reflexivity.
  - destruct (find (fun j => nth j dims 0 =? e) r); [reflexivity|].
    apply nth_set_nth_ne. exact E.
Qed.

(** the entry for global dimension [dims[i]] is the local index along axis [i] plus that axis' start *)
Theorem global_indices_spec starts dims idx i :
  length dims = length starts -> length idx = length starts ->
  NoDup dims -> (forall a, a < length dims -> nth a dims 0 < length dims) ->
  i < length dims ->
  nth (nth i dims 0) (global_indices starts dims idx) 0 = nth i idx 0 + nth i starts 0.
Proof.
  intros Hl1 Hl2 Hnd Hrange Hi. unfold global_indices.
  assert (Hmap : map (fun a => nth a dims 0) (seq 0 (length starts)) = dims).
  { rewrite <- Hl1. clear. apply nth_ext with (d := 0) (d' := 0).
    - rewrite map_length, seq_length. reflexivity.
    - intros n Hn. rewrite map_length, seq_length in Hn.
      rewrite (nth_indep _ 0 (nth 0 dims 0)) by (rewrite map_length, seq_length; exact Hn).
      rewrite (map_nth (fun a => nth a dims 0)), seq_nth by exact Hn. reflexivity. }
  rewrite global_indices_aux.
  - destruct (find (fun a => nth a dims 0 =? nth i dims 0) (seq 0 (length starts))) as [a|] eqn:F.
    + apply find_some in F. destruct F as [Hin Heq]. apply Nat.eqb_eq in Heq. apply in_seq in Hin.
      assert (a = i).
      { apply (proj1 (NoDup_nth dims 0) Hnd); lia. }
      subst a. reflexivity.
    + exfalso. pose proof (find_none _ _ F i ltac:(apply in_seq; lia)) as Hf. cbn beta in Hf.
      rewrite Nat.eqb_refl in Hf. discriminate.
  - rewrite Hmap. exact Hnd.
  - intros a Ha. apply in_seq in Ha. rewrite Hl2, <- Hl1. apply Hrange. lia.
Qed.

Lemma nth_map_seq (f : nat -> nat) n i : i < n -> nth i (map f (seq 0 n)) 0 = f i.
Proof. intros H. exact (rd_mk n f i H). Qed.

(** shape = ends - starts on every axis, and ends never exceed the global extent *)
Theorem shape_eq_ends_minus_starts N nprocs dims coords i : i < length dims -> 0 < np_at nprocs i ->
  nth i (l_starts N nprocs dims coords) 0 + nth i (l_shape N nprocs dims coords) 0
  = nth i (l_ends N nprocs dims coords) 0.
Proof.
  intros Hi Hp. unfold l_starts, l_shape, l_ends.
  rewrite !nth_map_seq by exact Hi. apply bstart_blen. exact Hp.
Qed.
