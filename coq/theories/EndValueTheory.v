(** C08: values at the ends of the domain.
    Clamped knot vector: N_0(a) = 1, N_last(b) = 1, all other basis functions vanish there, so S(a) = c_0 and
    S(b) = c_last for the general evaluator.  Uniform-cubic path: the space is the restriction of uniform B-splines to the
    domain and is NOT interpolatory at the ends: S(xmin) = (c_0 + 4 c_1 + c_2)/6, S(xmax) = (c_n + 4 c_{n+1} + c_{n+2})/6. *)
From Coq Require Import List Arith Lia ZArith Bool Field Ring Setoid.
Import ListNotations.
From PGV Require Import BasisCoxDeBoor CoxDeBoorGen FindSpan CubicUniform CollocRow Sums SplineModel SplineTheory InterpModel InterpTheory QuadTheory GrevilleTheory CirculantTheory.

Section EndValues.
Variable F : Type.
Variable K : sp_ops F.
Hypothesis HK : sp_laws K.
Add Field IPFE : (spl_field K HK).
Notation "x + y" := (spadd K x y). Notation "x * y" := (spmul K x y).
Notation "x - y" := (spsub K x y). Notation "x / y" := (spdiv K x y).
Notation "0" := (sp0 K). Notation "1" := (sp1 K).
Notation "x <= y" := (sp_le K x y). Notation "x < y" := (sp_lt K x y).
Notation sumn := (Sums.sumn F 0 (spadd K)).
Notation kn := (sp_kn F K).
Notation ofn := (sp_ofnat F K).
Notation Nd knots x s := (Ng F 0 (spadd K) (spmul K) (spsub K) (spdiv K) (kn knots) x (speqb K) (delta F 0 1 s)).

(** a sum whose terms vanish except one *)
Lemma ip_sumn_single n k (f : nat -> F) : (k < n)%nat -> (forall q, (q < n)%nat -> q <> k -> f q = 0) -> sumn n f = f k.
Proof.
  intros Hk H. rewrite (ip_sumn_ext F K n f (fun q => ip_delta F K k q * f q)).
  - apply (ip_sumn_delta F K HK n k f Hk).
  - intros q Hq. unfold ip_delta. destruct (Nat.eqb_spec k q) as [->|Hne]; [ring|]. rewrite (H q Hq) by congruence. ring.
Qed.

Section Clamped.
Variable knots : list F.
Variable p : nat.
Hypothesis Hc : ip_clamped F K knots p.
Hypothesis Hp : (1 <= p)%nat.
Notation len := (length knots).
Notation a := (kn knots p).
Notation b := (kn knots (len - 1 - p)).

(** the basis values at the left end: (1, 0, ..., 0) on span p *)
Theorem ip_left_end_values :
  sp_nu_find_span F K knots p a = SpOk p /\
  sp_nu_basis_funs F K knots p a p = SpOk (sp_A22 F K knots p a p) /\
  forall q, (q <= p)%nat -> nth q (sp_A22 F K knots p a p) 0 = if (q =? 0)%nat then 1 else 0.
Proof.
  destruct Hc as [Hs [Hlen [HL [HR Hst]]]].
  assert (Hsp : sp_span_ok F K knots p) by (apply Hst; lia).
  split; [apply (ip_fs_low F K); [lia|apply (sp_le_refl F K HK)]|].
  split; [apply (sp_nu_basis_funs_ok F K HK knots p a p Hs Hsp); lia|].
  assert (Hz : forall q, (1 <= q <= p)%nat -> Nd knots a p p (p - p + q) = 0).
  { intros q Hq. apply (ip_Nd_left F K HK knots a p 0%nat); try lia. intros j Hj. apply HL. lia. }
  assert (H1 : Nd knots a p p (p - p + 0) = 1).
  { transitivity (sumn (S p) (fun q => Nd knots a p p (p - p + q)%nat)); [|apply (ip_sum_one F K HK knots a p Hs Hsp p (le_n p))].
    symmetry. apply (ip_sumn_single (S p) 0%nat (fun q => Nd knots a p p (p - p + q)%nat)); [lia|].
    intros q Hq Hne. apply Hz. lia. }
  intros q Hq. rewrite (ip_A22_delta F K HK knots p a p Hs Hsp (le_n p)).
  rewrite (ip_nth_map_seq (fun q => Nd knots a p p (p - p + q)%nat)) by lia. cbn [Nat.add].
  destruct (Nat.eqb_spec q 0) as [->|Hne]; [exact H1|apply Hz; lia].
Qed.

(** the basis values at the right end: (0, ..., 0, 1) on the last span *)
Theorem ip_right_end_values :
  sp_nu_find_span F K knots p b = SpOk (len - p - 2)%nat /\
  sp_nu_basis_funs F K knots p b (len - p - 2) = SpOk (sp_A22 F K knots p b (len - p - 2)) /\
  forall q, (q <= p)%nat -> nth q (sp_A22 F K knots p b (len - p - 2)) 0 = if (q =? p)%nat then 1 else 0.
Proof.
  destruct Hc as [Hs [Hlen [HL [HR Hst]]]].
  set (s := (len - p - 2)%nat).
  assert (Hsp : sp_span_ok F K knots s).
  { unfold sp_span_ok. replace (kn knots (S s)) with b by (f_equal; unfold s; lia). replace b with (kn knots (S s)) by (f_equal; unfold s; lia).
    apply Hst. unfold s. lia. }
  assert (Hab : a < b).
  { apply (sp_lt_le_trans F K HK) with (kn knots (S p)); [apply Hst; lia|apply (sp_kn_mono F K HK knots Hs); lia]. }
  split; [apply (ip_fs_high F K); [lia|apply (ip_lt_not_le F K HK), Hab|apply (sp_le_refl F K HK)]|].
  split; [apply (sp_nu_basis_funs_ok F K HK knots p b s Hs Hsp); unfold s; lia|].
  assert (Hz : forall q, (q < p)%nat -> Nd knots b s p (s - p + q) = 0).
  { intros q Hq. apply (ip_Nd_right F K HK knots b s p); try (unfold s; lia). intros j Hj. apply HR. unfold s in Hj. lia. }
  assert (H1 : Nd knots b s p (s - p + p) = 1).
  { transitivity (sumn (S p) (fun q => Nd knots b s p (s - p + q)%nat)); [|apply (ip_sum_one F K HK knots b s Hs Hsp p); unfold s; lia].
    symmetry. apply (ip_sumn_single (S p) p (fun q => Nd knots b s p (s - p + q)%nat)); [lia|].
    intros q Hq Hne. apply Hz. lia. }
  intros q Hq. rewrite (ip_A22_delta F K HK knots p b s Hs Hsp ltac:(unfold s; lia)).
  rewrite (ip_nth_map_seq (fun q => Nd knots b s p (s - p + q)%nat)) by lia. cbn [Nat.add].
  destruct (Nat.eqb_spec q p) as [->|Hne]; [exact H1|apply Hz; lia].
Qed.

(** S(a) = c_0 and S(b) = c_last: a clamped spline takes its first / last coefficient at the ends of the domain
    (in particular it vanishes at a Dirichlet boundary iff that coefficient is zero) *)
Theorem ip_clamped_end_eval c : length c = (len - p - 1)%nat ->
  sp_nu_eval_1d_scalar F K a knots p c 0 = SpOk (nth 0 c 0) /\
  sp_nu_eval_1d_scalar F K b knots p c 0 = SpOk (nth (len - p - 2) c 0).
Proof.
  intros Hlc. pose proof Hc as [Hs [Hlen [HL [HR Hst]]]]. split.
  - destruct ip_left_end_values as [Efs [_ Hv]].
    rewrite (sp_nu_eval_1d_scalar_spec F K HK knots p c a 0 p Hs Efs) by (try lia; apply Hst; lia).
    f_equal. cbn [sp_basis_of]. rewrite (ip_sumr_sumn F K HK).
    rewrite (ip_sumn_single (S p) 0%nat _ ltac:(lia)).
    2:{ intros q Hq Hne. rewrite (Hv q ltac:(lia)). destruct (Nat.eqb_spec q 0); [contradiction|ring]. }
    rewrite (Hv 0%nat ltac:(lia)). cbn [Nat.eqb]. replace (p - p + 0)%nat with 0%nat by lia. ring.
  - destruct ip_right_end_values as [Efs [_ Hv]]. set (s := (len - p - 2)%nat) in *.
    assert (Hsp : sp_span_ok F K knots s).
    { unfold sp_span_ok. apply Hst. unfold s. lia. }
    rewrite (sp_nu_eval_1d_scalar_spec F K HK knots p c b 0 s Hs Efs Hsp) by (unfold s; lia).
    f_equal. cbn [sp_basis_of]. rewrite (ip_sumr_sumn F K HK).
    rewrite (ip_sumn_single (S p) p _ ltac:(lia)).
    2:{ intros q Hq Hne. rewrite (Hv q ltac:(lia)). destruct (Nat.eqb_spec q p); [contradiction|ring]. }
    rewrite (Hv p (le_n p)), Nat.eqb_refl. replace (s - p + p)%nat with s by (unfold s; lia). ring.
Qed.

End Clamped.

(* ---------------------------------------------------------------------------------------- *)
(** * the uniform-cubic path at the ends of the domain (clamped or not: the evaluation is the same) *)
Section Cubic.
Variables xmin xmax dx fn : F.
Variable n : nat.
Hypothesis Htr : sp_trunc_ok F K.
Hypothesis Hdx : dx <> 0.
Hypothesis Hfn : sptrunc K fn = Z.of_nat n.
Hypothesis Hn : (1 <= n)%nat.
Hypothesis Hmax : xmax = xmin + ofn n * dx.
Notation knots4 := [xmin; xmax; dx; fn].
Notation four := (1 + 1 + 1 + 1).
Notation six := (1 + 1 + 1 + 1 + 1 + 1).

Lemma ip_six_ne0 : six <> 0.
Proof. replace six with ((1 + 1) * (1 + 1 + 1)) by ring. apply (sp_mul_ne0 F K HK); [apply (sp_2_ne0 F K HK)|apply (sp_3_ne0 F K HK)]. Qed.

Lemma ip_cu_span_xmin : sp_cu_find_span F K xmin xmax dx xmin (Z.of_nat n) = SpOk (3%Z, 0).
Proof.
  pose proof (ip_cu_span_uniform F K HK xmin xmax dx n 0 Htr Hdx ltac:(lia)) as H.
  replace (xmin + ofn 0 * dx) with xmin in H by (unfold sp_ofnat; cbn; ring). exact H.
Qed.
Lemma ip_cu_span_xmax : sp_cu_find_span F K xmin xmax dx xmax (Z.of_nat n) = SpOk ((Z.of_nat n + 2)%Z, 1).
Proof.
  unfold sp_cu_find_span. destruct (sp_eqb_spec F K HK dx 0) as [E|_]; [contradiction|]. cbv zeta.
  replace ((xmax - xmin) / dx) with (ofn n) by (rewrite Hmax; field; exact Hdx).
  rewrite (ip_trunc_ofnat F K HK n Htr). rewrite Z.eqb_refl. reflexivity.
Qed.

(** the uniform-cubic space is NOT interpolatory at the ends: S(xmin) = (c_0 + 4 c_1 + c_2)/6 and
    S(xmax) = (c_n + 4 c_{n+1} + c_{n+2})/6  (n = ncells; the coefficient array has n + 3 entries) *)
Theorem ip_cubic_end_eval c : length c = (n + 3)%nat ->
  sp_cu_eval_1d_scalar F K xmin knots4 3 c 0 = SpOk ((nth 0 c 0 + four * nth 1 c 0 + nth 2 c 0) / six) /\
  sp_cu_eval_1d_scalar F K xmax knots4 3 c 0 = SpOk ((nth n c 0 + four * nth (n + 1) c 0 + nth (n + 2) c 0) / six).
Proof.
  intros Hlc. split.
  - rewrite (sp_cu_eval_1d_scalar_spec F K HK xmin xmax dx fn [] c xmin 0 3%Z 0); [|rewrite Hfn; exact ip_cu_span_xmin|lia|lia|cbn; lia].
    f_equal. change (Z.to_nat 3) with 3%nat. cbn [Sums.sumr Nat.add Nat.sub]. unfold sp_cu_basis_funs, cu_basis. cbn [nth].
    unfold CubicUniform.six, CubicUniform.three, CubicUniform.two. field.
    repeat split; repeat (apply (sp_mul_ne0 F K HK)); try apply (sp_2_ne0 F K HK); try apply (sp_3_ne0 F K HK); try apply (sp_3_ne0' F K HK).
  - rewrite (sp_cu_eval_1d_scalar_spec F K HK xmin xmax dx fn [] c xmax 0 (Z.of_nat n + 2)%Z 1); [|rewrite Hfn; exact ip_cu_span_xmax|lia|lia|lia].
    f_equal. replace (Z.to_nat (Z.of_nat n + 2) - 3)%nat with (n - 1)%nat by lia. cbn [Sums.sumr].
    unfold sp_cu_basis_funs, cu_basis. cbn [nth].
    replace (n - 1 + 1)%nat with n by lia. replace (n - 1 + 2)%nat with (n + 1)%nat by lia. replace (n - 1 + 3)%nat with (n + 2)%nat by lia.
    unfold CubicUniform.six, CubicUniform.three, CubicUniform.two. field.
    repeat split; repeat (apply (sp_mul_ne0 F K HK)); try apply (sp_2_ne0 F K HK); try apply (sp_3_ne0 F K HK); try apply (sp_3_ne0' F K HK).
Qed.

End Cubic.
End EndValues.
