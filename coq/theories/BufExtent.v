(** C01/C02: the cells a LayoutHandler step touches lie inside the advertised buffer.
    For a compatible pair (l1, l2) the constructor computes
      pair_bufsize = prod(l1.shape with [a0] := l1.max_block_shape[a0], [a1] := l2.max_block_shape[a0]) * nprocs[a0]
    (or l1.size when no distributed axis changes).  Shown here:
      - pair_bufsize = p * bsize exactly, where p * bsize is the number of cells the step l1 -> l2 packs /
        exchanges (the padded block of TransposeStep.v is the same shape with axes 0 and a0 swapped);
      - the padded block of the opposite step l2 -> l1 has the same size (its shape is a permutation of the
        first), so pair_bufsize l1 l2 = pair_bufsize l2 l1;
      - hence both blocks and both send/receive areas fit: the extent of the step in BOTH orientations is at
        most pair_bufsize l1 l2 <= handler_bufsize.
    No hypothesis relates extents and process counts (empty blocks included). *)
From Coq Require Import List Arith Lia PeanoNat Bool Permutation.
Import ListNotations.
From PGV Require Import NdIndex Blocks Layouts Handler HandlerBuf TransposeStep TransposeLocal TransposeExec
  HandlerRoute HandlerCompat FrameMem TransposeFrameExec.

(** ** a product of extents does not depend on the order of the axes *)
Lemma size_perm l l' : Permutation l l' -> size l = size l'.
Proof.
  induction 1 as [|x l l' _ IH|x y l|l l' l'' _ IH1 _ IH2]; rewrite ?size_cons.
  - reflexivity.
  - rewrite IH. reflexivity.
  - lia.
  - congruence.
Qed.

Lemma nodup_map_inj (f : nat -> nat) l : NoDup l ->
  (forall x y, In x l -> In y l -> f x = f y -> x = y) -> NoDup (map f l).
Proof.
  induction 1 as [|x l Hni Hnd IH]; intros Hinj; cbn [map]; constructor.
  - intros Hin. apply in_map_iff in Hin. destruct Hin as [y [Ey Hy]].
    assert (y = x) by (apply Hinj; [right; exact Hy|left; reflexivity|exact Ey]). subst. contradiction.
  - apply IH. intros a b Ha Hb. apply Hinj; right; assumption.
Qed.

Lemma perm_seq_map d (s : nat -> nat) : (forall b, b < d -> s b < d) ->
  (forall b c, b < d -> c < d -> s b = s c -> b = c) -> Permutation (map s (seq 0 d)) (seq 0 d).
Proof.
  intros Hr Hinj. apply NoDup_Permutation_bis.
  - apply nodup_map_inj; [apply seq_NoDup|]. intros x y Hx Hy. apply in_seq in Hx, Hy. apply Hinj; lia.
  - rewrite map_length. lia.
  - intros x Hx. apply in_map_iff in Hx. destruct Hx as [b [<- Hb]]. apply in_seq in Hb. apply in_seq.
    specialize (Hr b ltac:(lia)). lia.
Qed.

Lemma size_mk_perm d (f s : nat -> nat) : (forall b, b < d -> s b < d) ->
  (forall b c, b < d -> c < d -> s b = s c -> b = c) -> size (mk d (fun b => f (s b))) = size (mk d f).
Proof.
  intros Hr Hinj. unfold mk. rewrite <- (map_map s f). apply size_perm, Permutation_map, perm_seq_map; assumption.
Qed.

(** ** function level: the padded blocks of a step and of the opposite step *)
Section BlockSizes.
Variable d' : nat.
Let d := S d'.
Variable N : nat -> nat.
Variable P : nat -> nat.
Variables pi ipi pi' ipi' : nat -> nat.
Variable a0 : nat.

Hypothesis Ha0 : a0 < d.
Hypothesis HP : forall a, 0 < P a.
Hypothesis Hpi : forall a, a < d -> pi a < d /\ ipi (pi a) = a.
Hypothesis Hipi : forall e, e < d -> ipi e < d /\ pi (ipi e) = e.
Hypothesis Hpi' : forall a, a < d -> pi' a < d /\ ipi' (pi' a) = a.
Hypothesis Hipi' : forall e, e < d -> ipi' e < d /\ pi' (ipi' e) = e.
Hypothesis Hcompat : forall a, a < d -> a <> a0 -> 1 < P a -> pi a = pi' a.
Hypothesis Hdiff : pi a0 <> pi' a0.

Notation pshapeF := (TransposeStep.pshape N P pi ipi pi' a0).       (* step pi -> pi' *)
Notation pshapeR := (TransposeStep.pshape N P pi' ipi' pi a0).      (* opposite step pi' -> pi *)
Notation bsizeF := (TransposeStep.bsize d' N P pi ipi pi' a0).
Notation bsizeR := (TransposeStep.bsize d' N P pi' ipi' pi a0).
Notation valid := (TransposeStep.valid d' P).

(** the block of the send buffer is the padded shape with axes 0 and a0 exchanged *)
Lemma bsize_eq_pshape q : bsizeF q = size (mk d (pshapeF q)).
Proof.
  unfold TransposeStep.bsize, TransposeStep.bshape. fold d.
  apply (size_mk_perm d (pshapeF q) (TransposeStep.sw a0)).
  - intros b Hb. apply (sw_lt d' N P pi ipi pi' ipi' a0 Ha0 Hdiff b Hb).
  - intros b c _ _ E. rewrite <- (sw_invol d' N P pi ipi pi' ipi' a0 Ha0 Hdiff b),
      <- (sw_invol d' N P pi ipi pi' ipi' a0 Ha0 Hdiff c), E. reflexivity.
Qed.

Lemma Hcompat_sym : forall a, a < d -> a <> a0 -> 1 < P a -> pi' a = pi a.
Proof. intros. symmetry. apply Hcompat; assumption. Qed.
Lemma Hdiff_sym : pi' a0 <> pi a0.
Proof. intros E. apply Hdiff. symmetry. exact E. Qed.

(** the padded block of the opposite step is the same block with its axes permuted by b |-> ipi (pi' b) *)
Lemma pshape_rev q b : valid q -> b < d -> pshapeR q b = pshapeF q (ipi (pi' b)).
Proof.
  intros Hq Hb. unfold TransposeStep.pshape.
  pose proof (a1_ne_a0 d' pi ipi pi' ipi' a0 Ha0 Hipi Hpi' Hdiff) as Hn10.
  pose proof (a2_ne_a0 d' pi ipi pi' ipi' a0 Ha0 Hpi Hipi' Hdiff) as Hn20.
  destruct (Hpi' b Hb) as [Hpb Hib]. destruct (Hipi _ Hpb) as [Hsb Hps].
  destruct (Nat.eqb_spec b a0) as [->|Hb0].
  - (* b = a0: sigma a0 = a1 *)
    destruct (Nat.eqb_spec (ipi (pi' a0)) a0) as [E|_]; [contradiction|].
    rewrite Nat.eqb_refl. reflexivity.
  - destruct (Nat.eqb_spec b (ipi' (pi a0))) as [->|Hb2].
    + (* b = a2: sigma a2 = a0 *)
      rewrite (pi'_a2 d' pi ipi pi' ipi' a0 Ha0 Hpi Hipi'), (proj2 (Hpi a0 Ha0)), Nat.eqb_refl. reflexivity.
    + assert (Hs0 : ipi (pi' b) <> a0).
      { intros E. apply Hb2. rewrite <- E, Hps. symmetry. exact Hib. }
      assert (Hs1 : ipi (pi' b) <> ipi (pi' a0)).
      { intros E. apply Hb0. rewrite <- Hib, <- (proj2 (Hpi' a0 Ha0)). f_equal.
        rewrite <- Hps, E. apply Hipi, Hpi', Ha0. }
      destruct (Nat.eqb_spec (ipi (pi' b)) a0) as [E|_]; [contradiction|].
      destruct (Nat.eqb_spec (ipi (pi' b)) (ipi (pi' a0))) as [E|_]; [contradiction|].
      (* an axis that takes no part in the swap: same dimension, process count and coordinate *)
      destruct (axis_match d' N P pi' ipi' pi ipi a0 Ha0 HP Hpi' Hpi Hipi Hcompat_sym Hdiff_sym q b Hq Hb Hb0 Hb2)
        as [_ [Hy [Hz Hw]]].
      unfold TransposeStep.sh. rewrite Hy, Hz, Hw. reflexivity.
Qed.

Theorem bsize_rev q : valid q -> bsizeR q = bsizeF q.
Proof.
  intros Hq. rewrite bsize_eq_pshape.
  assert (ER : TransposeStep.bsize d' N P pi' ipi' pi a0 q = size (mk d (pshapeR q))).
  { unfold TransposeStep.bsize, TransposeStep.bshape. fold d.
    apply (size_mk_perm d (pshapeR q) (TransposeStep.sw a0)).
    - intros b Hb. apply (sw_lt d' N P pi ipi pi' ipi' a0 Ha0 Hdiff b Hb).
    - intros b c _ _ E. rewrite <- (sw_invol d' N P pi ipi pi' ipi' a0 Ha0 Hdiff b),
        <- (sw_invol d' N P pi ipi pi' ipi' a0 Ha0 Hdiff c), E. reflexivity. }
  rewrite ER. rewrite (mk_ext d (pshapeR q) (fun b => pshapeF q (ipi (pi' b)))) by (intros; apply pshape_rev; assumption).
  apply size_mk_perm.
  - intros b Hb. apply Hipi, Hpi', Hb.
  - intros b c Hb Hc E. rewrite <- (proj2 (Hpi' b Hb)), <- (proj2 (Hpi' c Hc)). f_equal.
    rewrite <- (proj2 (Hipi _ (proj1 (Hpi' b Hb)))), <- (proj2 (Hipi _ (proj1 (Hpi' c Hc)))), E. reflexivity.
Qed.
End BlockSizes.

(** the blocks of two layouts that differ by a local transpose have the same size *)
Section LocalSizes.
Variable d : nat.
Variable N P pi ipi pi' ipi' : nat -> nat.
Hypothesis HP : forall a, 0 < P a.
Hypothesis Hpi : forall a, a < d -> pi a < d /\ ipi (pi a) = a.
Hypothesis Hipi : forall e, e < d -> ipi e < d /\ pi (ipi e) = e.
Hypothesis Hpi' : forall a, a < d -> pi' a < d /\ ipi' (pi' a) = a.
Hypothesis Hsame : forall a, a < d -> 1 < P a -> pi a = pi' a.

Lemma local_size_eq q : lvalid d P q -> size (mk d (lsh N P pi' q)) = size (mk d (lsh N P pi q)).
Proof.
  intros Hq.
  assert (Hs : forall a, a < d -> 1 < P a -> pi' a = pi a) by (intros; symmetry; apply Hsame; assumption).
  rewrite (mk_ext d (lsh N P pi' q) (fun b => lsh N P pi q (ipi (pi' b)))).
  - apply size_mk_perm.
    + intros b Hb. apply Hipi, Hpi', Hb.
    + intros b c Hb Hc E. rewrite <- (proj2 (Hpi' b Hb)), <- (proj2 (Hpi' c Hc)). f_equal.
      rewrite <- (proj2 (Hipi _ (proj1 (Hpi' b Hb)))), <- (proj2 (Hipi _ (proj1 (Hpi' c Hc)))), E. reflexivity.
  - intros b Hb. destruct (laxis_match d P pi' ipi' pi ipi HP Hpi' Hpi Hipi Hs q b Hq Hb) as [_ [Hy [Hz Hw]]].
    unfold lsh. rewrite Hy, Hz, Hw. reflexivity.
Qed.
End LocalSizes.

(** ** list level *)
Lemma differing_axes_sym nprocs l1 l2 : differing_axes nprocs l1 l2 = differing_axes nprocs l2 l1.
Proof. unfold differing_axes. apply filter_ext. intros i. rewrite (Nat.eqb_sym (nth i l1 0)). reflexivity. Qed.
Lemma compatible_sym nprocs l1 l2 : compatible nprocs l1 l2 = compatible nprocs l2 l1.
Proof. unfold compatible. rewrite differing_axes_sym. reflexivity. Qed.

Lemma cfg_wf_sym Nl nprocs l1 l2 d' : cfg_wf_b Nl nprocs l1 l2 d' = true -> cfg_wf_b Nl nprocs l2 l1 d' = true.
Proof.
  unfold cfg_wf_b. intros W.
  apply andb_prop in W. destruct W as [W H]. apply andb_prop in W. destruct W as [W H0].
  apply andb_prop in W. destruct W as [W H1]. apply andb_prop in W. destruct W as [W H2].
  rewrite W, H1, H2, H0, H. reflexivity.
Qed.

(** the first distributed axis whose dimension changes is the same in both orientations *)
Lemma swap_axes_head_sym nprocs l1 l2 :
  match swap_axes nprocs l1 l2 with
  | [] => swap_axes nprocs l2 l1 = []
  | a0 :: _ => exists r', swap_axes nprocs l2 l1 = a0 :: r'
  end.
Proof.
  unfold swap_axes. induction (seq 0 (length nprocs)) as [|x l IH]; cbn [flat_map]; [reflexivity|].
  rewrite (Nat.eqb_sym (nth x l2 0) (nth x l1 0)).
  destruct ((1 <? nth x nprocs 1) && negb (nth x l1 0 =? nth x l2 0)); cbn [app].
  - eexists. reflexivity.
  - exact IH.
Qed.

Lemma unravel_rk_valid nprocs r a : r < nranks nprocs -> (forall b, 0 < Pf nprocs b) ->
  rk_at (unravel nprocs r) a < np_at nprocs a.
Proof.
  intros Hr HP. unfold rk_at, np_at.
  pose proof (unravel_inb nprocs r Hr) as Hinb.
  destruct (Nat.lt_ge_cases a (length nprocs)) as [Ha|Ha].
  - pose proof (inb_rd _ _ Hinb a Ha) as H. unfold rd in H. rewrite (nth_indep nprocs 1 0 Ha). exact H.
  - rewrite (nth_overflow (unravel nprocs r)) by (rewrite (inb_length _ _ Hinb); exact Ha).
    rewrite nth_overflow by exact Ha. lia.
Qed.

Section PairExtent.
Variables Nl nprocs l1 l2 : list nat.
Variable d' : nat.
Let d := S d'.
Hypothesis Hwf : cfg_wf_b Nl nprocs l1 l2 d' = true.
Hypothesis Hc : compatible nprocs l1 l2 = true.
Variable r : nat.
Hypothesis Hr : r < nranks nprocs.
Let co := unravel nprocs r.

Lemma pe_parts : length l1 = d /\ length l2 = d /\ NoDup l1 /\ NoDup l2 /\
  (forall a, a < d -> In (nth a l2 0) l1) /\ (forall a, a < d -> In (nth a l1 0) l2) /\
  length nprocs <= d /\ (forall a, 0 < Pf nprocs a).
Proof.
  destruct (wf_parts Nl nprocs l1 l2 d' Hwf) as [_ [Hp [Hp' [Hn HP]]]].
  destruct (perm_b_facts d l1 Hp) as [L1 [N1 [R1 I1]]]. destruct (perm_b_facts d l2 Hp') as [L2 [N2 [R2 I2]]].
  repeat split; try assumption.
  - intros a Ha. apply I1, R2, nth_In. lia.
  - intros a Ha. apply I2, R1, nth_In. lia.
Qed.

Lemma shape_of_l_shape dm : length dm = d -> shape_of Nl nprocs d' dm r = l_shape Nl nprocs dm co.
Proof. intros H. unfold shape_of, l_shape, mk. rewrite H. reflexivity. Qed.

Lemma mh_size_l_size dm : length dm = d -> mh_size Nl nprocs d' dm r = l_size Nl nprocs dm co.
Proof. intros H. unfold mh_size, l_size. rewrite shape_of_l_shape by exact H. reflexivity. Qed.

(** exact relation: the advertised size of the pair is the number of cells the step packs and exchanges *)
Theorem pair_bufsize_eq_scratch a0 rest : swap_axes nprocs l1 l2 = a0 :: rest ->
  pair_bufsize Nl nprocs co l1 l2
  = Pf nprocs a0 * bsize d' (Nf Nl) (Pf nprocs) (pif l1) (ipif l1) (pif' l2) a0 (cfun nprocs r).
Proof.
  intros Es. destruct pe_parts as [L1 [L2 [N1 [N2 [I1 [I2 [Hn HP]]]]]]].
  pose proof (compatible_step_ok Nl nprocs l1 l2 d' Hwf Hc) as Hok. unfold step_ok_b in Hok. rewrite Hwf, Es in Hok.
  cbn [andb] in Hok.
  destruct (mh_dist_hyps Nl nprocs d' l1 l2 a0 Hwf Hok) as [Ha0 [_ [Hpi [Hipi [Hpi' [Hipi' [Hcm Hdf]]]]]]].
  unfold pair_bufsize. rewrite Es.
  destruct rest as [|a1 rest']; [exfalso; apply (swap_axes_not_single nprocs l1 l2 ltac:(congruence) ltac:(lia) a0 Es)|].
  destruct (swap_axes_head nprocs l1 l2 ltac:(congruence) ltac:(lia) a0 a1 rest' Es) as [_ [_ Ea1]].
  rewrite (bsize_eq_pshape d' (Nf Nl) (Pf nprocs) (pif l1) (ipif l1) (pif' l2) (ipif' l2) a0 Ha0 Hdf).
  rewrite Nat.mul_comm. f_equal. f_equal.
  assert (Hne : a1 <> a0).
  { subst a1. exact (a1_ne_a0 d' (pif l1) (ipif l1) (pif' l2) (ipif' l2) a0 Ha0 Hipi Hpi' Hdf). }
  assert (Ha1 : a1 < d).
  { subst a1. exact (a1_lt d' (pif l1) (ipif l1) (pif' l2) (ipif' l2) a0 Ha0 Hipi Hpi'). }
  apply nth_ext with (d := 0) (d' := 0).
  - rewrite !set_nth_length, l_shape_length, length_mk. exact L1.
  - intros a Ha. rewrite !set_nth_length, l_shape_length, L1 in Ha. fold (rd (mk (S d') (pshape (Nf Nl) (Pf nprocs) (pif l1) (ipif l1) (pif' l2) a0 (cfun nprocs r))) a).
    rewrite rd_mk by exact Ha. unfold pshape, ipif, pif'.
    destruct (Nat.eqb_spec a a1) as [->|Hna1].
    + rewrite nth_set_nth_eq by (rewrite set_nth_length, l_shape_length; lia).
      destruct (Nat.eqb_spec a1 a0); [contradiction|]. rewrite <- Ea1, Nat.eqb_refl.
      rewrite l_max_shape_nth by lia. reflexivity.
    + rewrite nth_set_nth_ne by (intros E; apply Hna1; symmetry; exact E).
      destruct (Nat.eqb_spec a a0) as [->|Hna0].
      * rewrite nth_set_nth_eq by (rewrite l_shape_length; lia). rewrite l_max_shape_nth by lia. reflexivity.
      * rewrite nth_set_nth_ne by (intros E; apply Hna0; symmetry; exact E).
        rewrite <- Ea1. destruct (Nat.eqb_spec a a1); [contradiction|].
        rewrite l_shape_nth by lia. reflexivity.
Qed.

Theorem pair_bufsize_local : swap_axes nprocs l1 l2 = [] -> pair_bufsize Nl nprocs co l1 l2 = l_size Nl nprocs l1 co.
Proof. intros Es. unfold pair_bufsize, l_size. rewrite Es. reflexivity. Qed.

End PairExtent.

Section PairExtent2.
Variables Nl nprocs l1 l2 : list nat.
Variable d' : nat.
Let d := S d'.
Hypothesis Hwf : cfg_wf_b Nl nprocs l1 l2 d' = true.
Hypothesis Hc : compatible nprocs l1 l2 = true.
Variable r : nat.
Hypothesis Hr : r < nranks nprocs.
Let co := unravel nprocs r.

(** the constructor's size for the pair does not depend on the orientation *)
Theorem pair_bufsize_sym : pair_bufsize Nl nprocs co l1 l2 = pair_bufsize Nl nprocs co l2 l1.
Proof.
  unfold co.
  pose proof (cfg_wf_sym _ _ _ _ _ Hwf) as Hwf'.
  assert (Hc' : compatible nprocs l2 l1 = true) by (rewrite compatible_sym; exact Hc).
  destruct (pe_parts Nl nprocs l1 l2 d' Hwf r Hr) as [L1 [L2 [N1 [N2 [I1 [I2 [Hn HP]]]]]]].
  pose proof (swap_axes_head_sym nprocs l1 l2) as Hs.
  destruct (swap_axes nprocs l1 l2) as [|a0 rest] eqn:Es.
  - rewrite (pair_bufsize_local Nl nprocs l1 l2 r Es), (pair_bufsize_local Nl nprocs l2 l1 r Hs).
    pose proof (compatible_step_ok Nl nprocs l1 l2 d' Hwf Hc) as Hok. unfold step_ok_b in Hok. rewrite Hwf, Es in Hok.
    cbn [andb] in Hok.
    destruct (wf_parts Nl nprocs l1 l2 d' Hwf) as [_ [Hp [Hp' _]]].
    assert (Hsame : forall a, a < d -> 1 < Pf nprocs a -> pif l1 a = pif' l2 a).
    { intros a Ha H1. unfold local_wf_b in Hok. rewrite forallb_forall in Hok.
      specialize (Hok a ltac:(apply in_seq; unfold d in Ha; lia)). destruct (Nat.ltb_spec 1 (Pf nprocs a)); [|lia].
      cbn in Hok. apply Nat.eqb_eq in Hok. exact Hok. }
    pose proof (local_size_eq d (Nf Nl) (Pf nprocs) (pif l1) (ipif l1) (pif' l2) (ipif' l2) HP
                  (perm_fwd d l1 Hp) (perm_bwd d l1 Hp) (perm_fwd d l2 Hp') Hsame (cfun nprocs r)
                  (cfun_valid Nl nprocs l1 l2 d' Hwf r Hr)) as E.
    unfold l_size. rewrite <- (shape_of_l_shape Nl nprocs d' r l1 L1), <- (shape_of_l_shape Nl nprocs d' r l2 L2).
    symmetry. exact E.
  - destruct Hs as [r' Es'].
    rewrite (pair_bufsize_eq_scratch Nl nprocs l1 l2 d' Hwf Hc r Hr a0 rest Es).
    rewrite (pair_bufsize_eq_scratch Nl nprocs l2 l1 d' Hwf' Hc' r Hr a0 r' Es').
    f_equal.
    pose proof (compatible_step_ok Nl nprocs l1 l2 d' Hwf Hc) as Hok. unfold step_ok_b in Hok. rewrite Hwf, Es in Hok.
    cbn [andb] in Hok.
    destruct (mh_dist_hyps Nl nprocs d' l1 l2 a0 Hwf Hok) as [Ha0 [_ [Hpi [Hipi [Hpi' [Hipi' [Hcm Hdf]]]]]]].
    symmetry.
    exact (bsize_rev d' (Nf Nl) (Pf nprocs) (pif l1) (ipif l1) (pif' l2) (ipif' l2) a0 Ha0 HP Hpi Hipi Hpi' Hipi' Hcm Hdf
             (cfun nprocs r) (cfun_valid Nl nprocs l1 l2 d' Hwf r Hr)).
Qed.

(** both blocks fit *)
Theorem pair_bufsize_ge_both : l_size Nl nprocs l1 co <= pair_bufsize Nl nprocs co l1 l2 /\
  l_size Nl nprocs l2 co <= pair_bufsize Nl nprocs co l1 l2.
Proof.
  unfold co.
  destruct (pe_parts Nl nprocs l1 l2 d' Hwf r Hr) as [L1 [L2 [N1 [N2 [I1 [I2 [Hn HP]]]]]]].
  assert (Hrk : forall a, rk_at (unravel nprocs r) a < np_at nprocs a) by (intros; apply unravel_rk_valid; assumption).
  assert (Hc' : compatible nprocs l2 l1 = true) by (rewrite compatible_sym; exact Hc).
  split.
  - apply (pair_bufsize_ge_size Nl nprocs (unravel nprocs r) l1 l2 ltac:(congruence) N2 ltac:(rewrite L1; exact I1)
             ltac:(lia) HP Hrk Hc).
  - pose proof pair_bufsize_sym as Esym. unfold co in Esym. rewrite Esym.
    apply (pair_bufsize_ge_size Nl nprocs (unravel nprocs r) l2 l1 ltac:(congruence) N1 ltac:(rewrite L2; exact I2)
             ltac:(lia) HP Hrk Hc').
Qed.

(** the extent of the step between the two layouts, in both orientations, is within the pair's size *)
Theorem step_extent_le_pair :
  mh_extent Nl nprocs d' l1 l2 r <= pair_bufsize Nl nprocs co l1 l2 /\
  mh_extent Nl nprocs d' l2 l1 r <= pair_bufsize Nl nprocs co l1 l2.
Proof.
  pose proof (cfg_wf_sym _ _ _ _ _ Hwf) as Hwf'.
  assert (Hc' : compatible nprocs l2 l1 = true) by (rewrite compatible_sym; exact Hc).
  destruct (pe_parts Nl nprocs l1 l2 d' Hwf r Hr) as [L1 [L2 _]].
  destruct pair_bufsize_ge_both as [G1 G2]. pose proof pair_bufsize_sym as Esym. unfold co in *.
  rewrite <- (mh_size_l_size Nl nprocs d' r l1 L1) in G1. rewrite <- (mh_size_l_size Nl nprocs d' r l2 L2) in G2.
  pose proof (swap_axes_head_sym nprocs l1 l2) as Hs.
  pose proof (pair_bufsize_eq_scratch Nl nprocs l1 l2 d' Hwf Hc r Hr) as EF.
  pose proof (pair_bufsize_eq_scratch Nl nprocs l2 l1 d' Hwf' Hc' r Hr) as ER.
  rewrite <- Esym in ER.
  unfold mh_extent. destruct (swap_axes nprocs l1 l2) as [|a0 rest].
  - rewrite Hs. split; assumption.
  - destruct Hs as [r' Es']. rewrite Es'. specialize (EF a0 rest eq_refl). specialize (ER a0 r' Es').
    split; apply Nat.max_lub; try assumption; [rewrite EF|rewrite ER]; apply Nat.le_refl.
Qed.
End PairExtent2.

(** hence within the handler's advertised buffer, for every pair the constructor enumerates *)
Theorem step_extent_le_bufsize Nl nprocs d' layouts l1 l2 r :
  cfg_wf_b Nl nprocs l1 l2 d' = true -> compatible nprocs l1 l2 = true -> r < nranks nprocs ->
  In (l1, l2) (all_pairs nprocs [] layouts) ->
  mh_extent Nl nprocs d' l1 l2 r <= handler_bufsize Nl nprocs (unravel nprocs r) layouts /\
  mh_extent Nl nprocs d' l2 l1 r <= handler_bufsize Nl nprocs (unravel nprocs r) layouts.
Proof.
  intros Hwf Hc Hr Hin. destruct (step_extent_le_pair Nl nprocs l1 l2 d' Hwf Hc r Hr) as [H1 H2].
  pose proof (bufsize_ge_pair Nl nprocs (unravel nprocs r) layouts l1 l2 Hin). split; lia.
Qed.

(** the enumerated pairs are compatible *)
Lemma earlier_pairs_compat nprocs prev l a b : In (a, b) (earlier_pairs nprocs prev l) -> compatible nprocs a b = true.
Proof.
  induction prev as [|x prev IH]; cbn [earlier_pairs]; [intros []|]. intros H. apply in_app_or in H. destruct H as [H|H].
  - destruct (compatible nprocs l x) eqn:E; [|destruct H]. destruct H as [H|[]]. injection H as <- <-. exact E.
  - apply IH, H.
Qed.
Lemma all_pairs_compat nprocs : forall rest prev a b, In (a, b) (all_pairs nprocs prev rest) -> compatible nprocs a b = true.
Proof.
  induction rest as [|l rest IH]; intros prev a b H; cbn [all_pairs] in H; [destruct H|].
  apply in_app_or in H. destruct H as [H|H]; [eapply earlier_pairs_compat; exact H|eapply IH; exact H].
Qed.

(** ** routes: every step between two layouts the constructor paired stays inside handler_bufsize *)
Fixpoint bx_list_eqb (l1 l2 : list nat) : bool :=
  match l1, l2 with
  | [], [] => true
  | x :: r, y :: s => (x =? y) && bx_list_eqb r s
  | _, _ => false
  end.
Lemma bx_list_eqb_eq l1 : forall l2, bx_list_eqb l1 l2 = true -> l1 = l2.
Proof.
  induction l1 as [|x r IH]; intros [|y s] H; cbn in H; try discriminate; [reflexivity|].
  apply andb_prop in H. destruct H as [H1 H2]. apply Nat.eqb_eq in H1. rewrite (IH _ H2), H1. reflexivity.
Qed.

Definition enum_b (nprocs : list nat) (layouts : list (list nat)) (l1 l2 : list nat) : bool :=
  existsb (fun pr => (bx_list_eqb (fst pr) l1 && bx_list_eqb (snd pr) l2) || (bx_list_eqb (fst pr) l2 && bx_list_eqb (snd pr) l1))
          (all_pairs nprocs [] layouts).
Fixpoint route_enum_b (nprocs : list nat) (layouts : list (list nat)) (cur : list nat) (route : list (list nat)) : bool :=
  match route with
  | [] => true
  | nxt :: r => enum_b nprocs layouts cur nxt && route_enum_b nprocs layouts nxt r
  end.

Definition hbuf (Nl nprocs : list nat) (layouts : list (list nat)) : nat -> nat :=
  fun r => handler_bufsize Nl nprocs (unravel nprocs r) layouts.

Theorem step_within_buffer Nl nprocs d' layouts cur nxt :
  step_ok_b Nl nprocs d' cur nxt = true -> enum_b nprocs layouts cur nxt = true ->
  mh_ok Nl nprocs d' (hbuf Nl nprocs layouts) cur nxt = true.
Proof.
  intros Hok He. unfold mh_ok. rewrite Hok. cbn [andb]. apply forallb_forall. intros r Hr. apply in_seq in Hr.
  apply Nat.leb_le. unfold hbuf.
  assert (Hwf : cfg_wf_b Nl nprocs cur nxt d' = true) by (unfold step_ok_b in Hok; apply andb_prop in Hok; apply Hok).
  unfold enum_b in He. apply existsb_exists in He. destruct He as [[a b] [Hin He]]. cbn [fst snd] in He.
  pose proof (all_pairs_compat nprocs _ _ _ _ Hin) as Hc.
  apply orb_prop in He. destruct He as [He|He]; apply andb_prop in He; destruct He as [E1 E2];
    apply bx_list_eqb_eq in E1, E2; subst a b.
  - apply (step_extent_le_bufsize Nl nprocs d' layouts cur nxt r Hwf Hc ltac:(lia) Hin).
  - apply (step_extent_le_bufsize Nl nprocs d' layouts nxt cur r (cfg_wf_sym _ _ _ _ _ Hwf) Hc ltac:(lia) Hin).
Qed.

Theorem route_within_buffer Nl nprocs d' layouts : forall route cur,
  route_ok_b Nl nprocs d' cur route = true -> route_enum_b nprocs layouts cur route = true ->
  mh_route_ok Nl nprocs d' (hbuf Nl nprocs layouts) cur route = true.
Proof.
  induction route as [|nxt r IH]; intros cur Hok He; [reflexivity|].
  cbn [route_ok_b] in Hok. cbn [route_enum_b] in He. apply andb_prop in Hok, He. destruct Hok as [H1 H2]. destruct He as [E1 E2].
  unfold mh_route_ok. cbn [route_ok]. rewrite (step_within_buffer _ _ _ _ _ _ H1 E1). cbn [andb]. apply IH; assumption.
Qed.
