(** C02: the value-level accessors of Grid (pygyro/model/grid.py) on a layout:

      getCoordVals(i)   = _Vals[dims_order[i]][starts[i]:ends[i]]
      getCoords(i)      = enumerate(getCoordVals(i))
      getEta(e)         = enumerate(_Vals[e][starts[inv_dims_order[e]]:ends[inv_dims_order[e]]])
      getGlobalIdxVals(i) = range(starts[i], ends[i])                       (Handler.global_idx_vals)

    over an arbitrary type of coordinate values.  Proved: each accessor returns exactly the block of the
    partition (Blocks.v) of the coordinate array it reads, getEta(e) is getCoords at the position of dimension e,
    and the blocks of the ranks of a process direction concatenate to the whole coordinate array. *)
From Coq Require Import List Arith Lia PeanoNat Bool.
Import ListNotations.
From PGV Require Import NdIndex Blocks Layouts Handler TransposeExec.

Section Acc.
Variable A : Type.
Variable dv : A.

(** Python slice l[s:e] for 0 <= s, e (clipped to the list like Python does) *)
Definition pyslice (l : list A) (s e : nat) : list A := firstn (e - s) (skipn s l).

Definition enumerate (l : list A) : list (nat * A) := combine (seq 0 (length l)) l.

Definition acc_coord_vals (eta : list (list A)) (N nprocs dims coords : list nat) (i : nat) : list A :=
  pyslice (nth (nth i dims 0) eta []) (nth i (l_starts N nprocs dims coords) 0) (nth i (l_ends N nprocs dims coords) 0).

Definition acc_get_coords eta N nprocs dims coords i := enumerate (acc_coord_vals eta N nprocs dims coords i).

Definition acc_get_eta (eta : list (list A)) (N nprocs dims coords : list nat) (e : nat) : list (nat * A) :=
  let i := nth e (inv_dims dims) 0 in
  enumerate (pyslice (nth e eta []) (nth i (l_starts N nprocs dims coords) 0) (nth i (l_ends N nprocs dims coords) 0)).

Lemma nth_firstn_lt' (l : list A) m k : k < m -> nth k (firstn m l) dv = nth k l dv.
Proof.
  revert m k. induction l as [|x l IH]; intros m k H; [destruct m; destruct k; reflexivity|].
  destruct m as [|m]; [lia|]. destruct k as [|k]; cbn; [reflexivity|]. apply IH. lia.
Qed.
Lemma map_fst_combine' (a : list nat) (b : list A) : length a = length b -> map fst (combine a b) = a.
Proof. revert b. induction a as [|x a IH]; intros [|y b] H; cbn in *; try lia; [reflexivity|]. f_equal. apply IH. lia. Qed.
Lemma map_snd_combine' (a : list nat) (b : list A) : length a = length b -> map snd (combine a b) = b.
Proof. revert b. induction a as [|x a IH]; intros [|y b] H; cbn in *; try lia; [reflexivity|]. f_equal. apply IH. lia. Qed.

Lemma pyslice_length l s e : s <= e -> e <= length l -> length (pyslice l s e) = e - s.
Proof. intros H1 H2. unfold pyslice. rewrite firstn_length, skipn_length. lia. Qed.

Lemma nth_skipn' (l : list A) s k : nth k (skipn s l) dv = nth (s + k) l dv.
Proof.
  revert l. induction s as [|s IH]; intros l; [reflexivity|].
  destruct l as [|x l]; cbn [skipn Nat.add nth]; [destruct k; reflexivity|]. apply IH.
Qed.

Lemma pyslice_nth l s e k : s <= e -> e <= length l -> k < e - s -> nth k (pyslice l s e) dv = nth (s + k) l dv.
Proof.
  intros H1 H2 Hk. unfold pyslice.
  rewrite nth_firstn_lt' by exact Hk. apply nth_skipn'.
Qed.

Lemma pyslice_app l a b c : a <= b -> b <= c -> c <= length l ->
  pyslice l a b ++ pyslice l b c = pyslice l a c.
Proof.
  intros H1 H2 H3. apply nth_ext with (d := dv) (d' := dv).
  - rewrite app_length, !pyslice_length by lia. lia.
  - intros k Hk. rewrite app_length, !pyslice_length in Hk by lia.
    destruct (Nat.lt_ge_cases k (b - a)) as [Hl|Hg].
    + rewrite app_nth1 by (rewrite pyslice_length by lia; exact Hl).
      rewrite !pyslice_nth by lia. reflexivity.
    + rewrite app_nth2 by (rewrite pyslice_length by lia; exact Hg).
      rewrite pyslice_length by lia. rewrite !pyslice_nth by lia. f_equal. lia.
Qed.

Lemma pyslice_all l : pyslice l 0 (length l) = l.
Proof. unfold pyslice. cbn [skipn]. rewrite Nat.sub_0_r. apply firstn_all. Qed.

(** ** the block of axis [i] *)
Definition ax_n (N dims : list nat) (i : nat) : nat := nth (nth i dims 0) N 0.

Lemma starts_nth N nprocs dims coords i : i < length dims ->
  nth i (l_starts N nprocs dims coords) 0 = bstart (ax_n N dims i) (np_at nprocs i) (rk_at coords i).
Proof. intros H. unfold l_starts. rewrite nth_map_seq by exact H. reflexivity. Qed.
Lemma ends_nth N nprocs dims coords i : i < length dims ->
  nth i (l_ends N nprocs dims coords) 0 = bstart (ax_n N dims i) (np_at nprocs i) (S (rk_at coords i)).
Proof. intros H. unfold l_ends. rewrite nth_map_seq by exact H. reflexivity. Qed.
Lemma shape_nth N nprocs dims coords i : i < length dims ->
  nth i (l_shape N nprocs dims coords) 0 = blen (ax_n N dims i) (np_at nprocs i) (rk_at coords i).
Proof. intros H. unfold l_shape. rewrite nth_map_seq by exact H. reflexivity. Qed.

(** hypotheses: the coordinate array of the dimension on axis i has the global extent; the rank is on the grid *)
Theorem coord_vals_spec eta N nprocs dims coords i :
  i < length dims -> 0 < np_at nprocs i -> rk_at coords i < np_at nprocs i ->
  length (nth (nth i dims 0) eta []) = ax_n N dims i ->
  length (acc_coord_vals eta N nprocs dims coords i) = nth i (l_shape N nprocs dims coords) 0 /\
  forall k, k < nth i (l_shape N nprocs dims coords) 0 ->
    nth k (acc_coord_vals eta N nprocs dims coords i) dv
    = nth (nth i (l_starts N nprocs dims coords) 0 + k) (nth (nth i dims 0) eta []) dv.
Proof.
  intros Hi Hp Hr Hlen. unfold acc_coord_vals.
  rewrite starts_nth, ends_nth, shape_nth by exact Hi.
  set (n := ax_n N dims i) in *. set (p := np_at nprocs i) in *. set (r := rk_at coords i) in *.
  pose proof (bstart_blen n p r Hp) as Hb.
  pose proof (bstart_mono n p (S r) p Hp ltac:(lia)) as Hm. rewrite bstart_p in Hm by exact Hp.
  split.
  - rewrite pyslice_length by lia. lia.
  - intros k Hk. apply pyslice_nth; lia.
Qed.

Theorem get_coords_spec eta N nprocs dims coords i :
  i < length dims -> 0 < np_at nprocs i -> rk_at coords i < np_at nprocs i ->
  length (nth (nth i dims 0) eta []) = ax_n N dims i ->
  map fst (acc_get_coords eta N nprocs dims coords i) = seq 0 (nth i (l_shape N nprocs dims coords) 0) /\
  map snd (acc_get_coords eta N nprocs dims coords i) = acc_coord_vals eta N nprocs dims coords i.
Proof.
  intros Hi Hp Hr Hlen. destruct (coord_vals_spec eta N nprocs dims coords i Hi Hp Hr Hlen) as [Hl _].
  unfold acc_get_coords, enumerate. split.
  - rewrite map_fst_combine' by (rewrite seq_length; reflexivity). rewrite Hl. reflexivity.
  - apply map_snd_combine'. rewrite seq_length. reflexivity.
Qed.

(** [inv_dims] is the position of a dimension in the layout *)
Lemma inv_dims_index_of d dims e : perm_b d dims = true -> e < d ->
  nth e (inv_dims dims) 0 = index_of dims e.
Proof.
  intros Hp He. destruct (perm_b_facts d dims Hp) as [Hl [Hnd [Hr Hin]]].
  unfold inv_dims. rewrite Hl. rewrite nth_map_seq by exact He.
  destruct (perm_bwd d dims Hp e He) as [Hlt Hnth].
  destruct (find (fun i => nth i dims 0 =? e) (seq 0 d)) as [i|] eqn:F.
  - apply find_some in F. destruct F as [Hi Heq]. apply Nat.eqb_eq in Heq. apply in_seq in Hi.
    apply (proj1 (NoDup_nth dims 0) Hnd); lia.
  - exfalso. pose proof (find_none _ _ F (index_of dims e) ltac:(apply in_seq; lia)) as Hf. cbn beta in Hf.
    rewrite Hnth, Nat.eqb_refl in Hf. discriminate.
Qed.

(** getEta(e) is getCoords at the position of dimension e (and not at position dims_order[e]) *)
Theorem get_eta_is_get_coords d eta N nprocs dims coords e :
  perm_b d dims = true -> e < d ->
  acc_get_eta eta N nprocs dims coords e = acc_get_coords eta N nprocs dims coords (index_of dims e).
Proof.
  intros Hp He. unfold acc_get_eta, acc_get_coords, acc_coord_vals.
  rewrite (inv_dims_index_of d dims e Hp He).
  destruct (perm_bwd d dims Hp e He) as [_ Hnth]. rewrite Hnth. reflexivity.
Qed.

(** the blocks of the p ranks of a process direction, in rank order, concatenate to the coordinate array *)
Fixpoint blocks_concat (l : list A) (n p k : nat) : list A :=
  match k with
  | O => []
  | S k' => blocks_concat l n p k' ++ pyslice l (bstart n p k') (bstart n p k)
  end.

Theorem blocks_concat_all l p : 0 < p -> blocks_concat l (length l) p p = l.
Proof.
  intros Hp.
  assert (H : forall k, k <= p -> blocks_concat l (length l) p k = pyslice l 0 (bstart (length l) p k)).
  { induction k as [|k IH]; intros Hk; cbn [blocks_concat].
    - rewrite bstart_0. unfold pyslice. reflexivity.
    - rewrite IH by lia. apply pyslice_app.
      + lia.
      + apply bstart_mono_S. exact Hp.
      + pose proof (bstart_mono (length l) p (S k) p Hp Hk) as Hm. rewrite bstart_p in Hm by exact Hp. exact Hm. }
  rewrite H by lia. rewrite bstart_p by exact Hp. apply pyslice_all.
Qed.
End Acc.

(** index-valued instance used by the extracted handler: coordinate arrays are [seq 0 n] *)
Definition acc_coord_vals_idx (N nprocs dims coords : list nat) (i : nat) : list nat :=
  acc_coord_vals nat (map (fun n => seq 0 n) N) N nprocs dims coords i.
Definition acc_get_eta_idx (N nprocs dims coords : list nat) (e : nat) : list (nat * nat) :=
  acc_get_eta nat (map (fun n => seq 0 n) N) N nprocs dims coords e.

Example acc_example :
  acc_coord_vals_idx [5; 4; 7] [2; 3] [2; 0; 1] [1; 2] 0 = [3; 4; 5; 6] /\
  acc_get_eta_idx [5; 4; 7] [2; 3] [2; 0; 1] [1; 2] 0 = [(0, 3); (1, 4)] /\
  acc_get_eta_idx [5; 4; 7] [2; 3] [2; 0; 1] [1; 2] 1 = [(0, 0); (1, 1); (2, 2); (3, 3)].
Proof. vm_compute. repeat split. Qed.
