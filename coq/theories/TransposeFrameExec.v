(** C01: executable whole-memory model of LayoutHandler's transposes on lists (every rank holds complete
    arrays source / dest / buf of any length >= E) and its frame.
    [mh_plain]  = _transpose(source, dest)                 : returns (source', dest')
    [mh_intact] = _transpose_source_intact(source, dest, buf) : returns (dest', buf'); source is not an output
    [mh_redirect], [mh_redirect_intact] = the two multi-step redirects (FrameMem.v).
    The block prefix of dest' is the output of TransposeExec.run_step; everything at or beyond the extent of the
    step (max of the destination block size and p * padded block size) is untouched. *)
From Coq Require Import List Arith Lia PeanoNat Bool.
Import ListNotations.
From PGV Require Import NdIndex Blocks Layouts Handler TransposeStep TransposeLocal TransposeExec HandlerRoute
  TransposeFrame FrameMem.

Lemma rank_of_cfun nprocs r : r < nranks nprocs -> rank_of nprocs (cfun nprocs r) = r.
Proof.
  intros Hr. unfold rank_of, cfun.
  pose proof (unravel_inb nprocs r Hr) as Hinb.
  rewrite mk_rd by (apply (inb_length _ _ Hinb)). apply ravel_unravel, Hr.
Qed.

Section MemExec.
Variable V : Type.
Variable dflt : V.
Variables Nl nprocs : list nat.
Variable d' : nat.
Let d := S d'.

Notation memf := (srcf V dflt nprocs).
Notation Nf' := (Nf Nl).
Notation Pf' := (Pf nprocs).
Notation cf := (cfun nprocs).
Notation nr := (nranks nprocs).

Definition mh_size (nxt : list nat) (r : nat) : nat := size (shape_of Nl nprocs d' nxt r).
(** cells a step may touch on rank r: the destination block and, for a distributed swap, p padded blocks *)
Definition mh_extent (cur nxt : list nat) (r : nat) : nat :=
  match swap_axes nprocs cur nxt with
  | a0 :: _ => Nat.max (mh_size nxt r) (Pf' a0 * bsize d' Nf' Pf' (pif cur) (ipif cur) (pif' nxt) a0 (cf r))
  | [] => mh_size nxt r
  end.

Definition mh_local (cur nxt : list nat) (from to : mems V) : mems V :=
  mat V (fun r A => if A <? mh_size nxt r
                    then ldst V d Nf' Pf' (pif cur) (pif' nxt) (ipif' nxt) (memf from) (cf r) A
                    else cell V dflt to r A) to.

Definition mh_plain (cur nxt : list nat) (from to : mems V) : mems V * mems V :=
  match swap_axes nprocs cur nxt with
  | a0 :: _ =>
      let x := mplain V d' Nf' Pf' (pif cur) (ipif cur) (pif' nxt) (ipif' nxt) a0 (memf from) (memf to) in
      (mat V (fun r => fst x (cf r)) from, mat V (fun r => snd x (cf r)) to)
  | [] => (from, mh_local cur nxt from to)
  end.
Definition mh_intact (cur nxt : list nat) (from to scratch : mems V) : mems V * mems V :=
  match swap_axes nprocs cur nxt with
  | a0 :: _ =>
      let x := mintact V d' Nf' Pf' (pif cur) (ipif cur) (pif' nxt) (ipif' nxt) a0 (memf from) (memf to) (memf scratch) in
      (mat V (fun r => fst x (cf r)) to, mat V (fun r => snd x (cf r)) scratch)
  | [] => (mh_local cur nxt from to, scratch)
  end.

Variable E : nat -> nat.
Definition mh_ok (cur nxt : list nat) : bool :=
  step_ok_b Nl nprocs d' cur nxt && forallb (fun r => mh_extent cur nxt r <=? E r) (seq 0 nr).
(** every rank's array has at least E cells *)
Definition mh_Wm (m : mems V) : Prop := length m = nr /\ forall r, r < nr -> E r <= length (nth r m []).

Lemma mh_Wm_len m1 m2 : same_len V m1 m2 -> mh_Wm m1 -> mh_Wm m2.
Proof. intros [H1 H2] [H3 H4]. split; [congruence|intros r Hr; rewrite <- H2; apply H4, Hr]. Qed.

Lemma memf_cfun m r A : r < nr -> memf m (cf r) A = cell V dflt m r A.
Proof. intros Hr. unfold srcf, cell. rewrite rank_of_cfun by exact Hr. reflexivity. Qed.

Lemma mh_size_sh' nxt r : size (mk (S d') (TransposeStep.sh' Nf' Pf' (pif' nxt) (cf r))) = mh_size nxt r.
Proof. reflexivity. Qed.

Lemma mh_ok_extent cur nxt r : mh_ok cur nxt = true -> r < nr -> mh_extent cur nxt r <= E r.
Proof.
  unfold mh_ok. intros H Hr. apply andb_prop in H. destruct H as [_ H].
  rewrite forallb_forall in H. specialize (H r ltac:(apply in_seq; lia)). apply Nat.leb_le in H. exact H.
Qed.

(** the hypotheses of the function-level theorems from the boolean checks (as in run_dist_correct) *)
Lemma mh_dist_hyps cur nxt a0 : cfg_wf_b Nl nprocs cur nxt d' = true -> dist_wf_b nprocs cur nxt d' a0 = true ->
  a0 < S d' /\ (forall a, 0 < Pf' a) /\
  (forall a, a < S d' -> pif cur a < S d' /\ ipif cur (pif cur a) = a) /\
  (forall e, e < S d' -> ipif cur e < S d' /\ pif cur (ipif cur e) = e) /\
  (forall a, a < S d' -> pif' nxt a < S d' /\ ipif' nxt (pif' nxt a) = a) /\
  (forall e, e < S d' -> ipif' nxt e < S d' /\ pif' nxt (ipif' nxt e) = e) /\
  (forall a, a < S d' -> a <> a0 -> 1 < Pf' a -> pif cur a = pif' nxt a) /\
  pif cur a0 <> pif' nxt a0.
Proof.
  intros Hwf Hd. destruct (wf_parts Nl nprocs cur nxt d' Hwf) as [HlN [Hp [Hp' [Hn HP]]]].
  unfold dist_wf_b in Hd. apply andb_prop in Hd. destruct Hd as [Hd Hall].
  apply andb_prop in Hd. destruct Hd as [Ha0 Hdiff].
  apply Nat.ltb_lt in Ha0. apply negb_true_iff, Nat.eqb_neq in Hdiff.
  split; [exact Ha0|]. split; [exact HP|].
  split; [exact (perm_fwd (S d') cur Hp)|]. split; [exact (perm_bwd (S d') cur Hp)|].
  split; [exact (perm_fwd (S d') nxt Hp')|]. split; [exact (perm_bwd (S d') nxt Hp')|].
  split; [|exact Hdiff].
  intros a Ha Hne H1. rewrite forallb_forall in Hall. specialize (Hall a ltac:(apply in_seq; lia)).
  destruct (Nat.eqb_spec a a0); [contradiction|]. destruct (Nat.ltb_spec 1 (Pf' a)); [|lia].
  cbn in Hall. apply Nat.eqb_eq in Hall. exact Hall.
Qed.

(** ** frame of the single steps *)
Lemma mh_local_fr cur nxt from to : (forall r, r < nr -> mh_size nxt r <= E r) -> mh_Wm to ->
  fr V dflt E to (mh_local cur nxt from to).
Proof.
  intros HE [Hl _]. apply fr_sym. unfold mh_local. apply mat_fr. intros r A Hr HA HEA.
  rewrite Hl in Hr. specialize (HE r Hr). destruct (Nat.ltb_spec A (mh_size nxt r)); [lia|reflexivity].
Qed.

Theorem mh_plain_frame cur nxt from to : mh_ok cur nxt = true -> mh_Wm from -> mh_Wm to ->
  fr V dflt E from (fst (mh_plain cur nxt from to)) /\ fr V dflt E to (snd (mh_plain cur nxt from to)).
Proof.
  intros Hok [Hlf Wf] [Hlt Wt].
  assert (HE : forall r, r < nr -> mh_extent cur nxt r <= E r) by (intros; apply mh_ok_extent; assumption).
  revert HE. unfold mh_plain, mh_extent. destruct (swap_axes nprocs cur nxt) as [|a0 rest]; intros HE; cbn [fst snd].
  - split; [apply fr_refl|]. apply mh_local_fr; [exact HE|split; assumption].
  - split; apply fr_sym; apply mat_fr; intros r A Hr HA HEA.
    + rewrite Hlf in Hr. specialize (HE r Hr).
      rewrite mplain_src_frame by lia. apply memf_cfun, Hr.
    + rewrite Hlt in Hr. specialize (HE r Hr).
      rewrite mplain_dst_frame by (rewrite ?mh_size_sh'; lia). apply memf_cfun, Hr.
Qed.

Theorem mh_intact_frame cur nxt from to scratch : mh_ok cur nxt = true -> mh_Wm from -> mh_Wm to -> mh_Wm scratch ->
  fr V dflt E to (fst (mh_intact cur nxt from to scratch)) /\ fr V dflt E scratch (snd (mh_intact cur nxt from to scratch)).
Proof.
  intros Hok _ [Hlt Wt] [Hls Ws].
  assert (HE : forall r, r < nr -> mh_extent cur nxt r <= E r) by (intros; apply mh_ok_extent; assumption).
  revert HE. unfold mh_intact, mh_extent. destruct (swap_axes nprocs cur nxt) as [|a0 rest]; intros HE; cbn [fst snd].
  - split; [|apply fr_refl]. apply mh_local_fr; [exact HE|split; assumption].
  - split; apply fr_sym; apply mat_fr; intros r A Hr HA HEA.
    + rewrite Hlt in Hr. specialize (HE r Hr).
      rewrite mintact_dst_frame by (rewrite ?mh_size_sh'; lia). apply memf_cfun, Hr.
    + rewrite Hls in Hr. specialize (HE r Hr).
      rewrite mintact_buf_frame by lia. apply memf_cfun, Hr.
Qed.

(** ** the block prefix of dest is the output of the prefix-level model run_step *)
Lemma mh_prefix_gen nxt (to' : mems V) (f : nat -> nat -> V) to :
  to' = mat V f to -> mh_Wm to -> forall r A, r < nr -> A < mh_size nxt r -> mh_size nxt r <= E r ->
  cell V dflt to' r A = f r A.
Proof.
  intros -> [Hl W] r A Hr HA HE. apply mat_cell; [rewrite Hl; exact Hr|]. specialize (W r Hr). lia.
Qed.

Theorem mh_plain_prefix cur nxt from to r j : mh_ok cur nxt = true -> mh_Wm to -> r < nr ->
  inb (shape_of Nl nprocs d' nxt r) j ->
  cell V dflt (snd (mh_plain cur nxt from to)) r (ravel (shape_of Nl nprocs d' nxt r) j)
  = nth (ravel (shape_of Nl nprocs d' nxt r) j) (nth r (run_step V dflt Nl nprocs cur nxt d' from) []) dflt.
Proof.
  intros Hok Wt Hr Hj.
  pose proof (mh_ok_extent cur nxt r Hok Hr) as HE.
  pose proof (ravel_lt _ _ Hj) as HA. fold (mh_size nxt r) in HA.
  unfold mh_ok, step_ok_b in Hok. apply andb_prop in Hok. destruct Hok as [Hok _].
  apply andb_prop in Hok. destruct Hok as [Hwf Hs].
  revert HE Hs. unfold mh_plain, run_step, mh_extent. destruct (swap_axes nprocs cur nxt) as [|a0 rest]; intros HE Hs; cbn [snd].
  - unfold mh_local. rewrite (mh_prefix_gen nxt _ _ to eq_refl Wt r _ Hr HA HE).
    destruct (Nat.ltb_spec (ravel (shape_of Nl nprocs d' nxt r) j) (mh_size nxt r)); [|lia].
    unfold run_local. rewrite nth_map_seq_list by exact Hr. rewrite nth_map_seq_gen by exact HA. reflexivity.
  - rewrite (mh_prefix_gen nxt _ _ to eq_refl Wt r _ Hr HA ltac:(lia)).
    destruct (mh_dist_hyps cur nxt a0 Hwf Hs) as [Ha0 [HP [Hpi [Hipi [Hpi' [Hipi' [Hc Hdf]]]]]]].
    unfold run_dist. rewrite nth_map_seq_list by exact Hr. rewrite nth_map_seq_gen by exact HA.
    apply (mplain_dst_prefix V d' Nf' Pf' (pif cur) (ipif cur) (pif' nxt) (ipif' nxt) a0 Ha0 HP Hpi Hipi Hpi' Hipi' Hc Hdf
             (memf from) (memf to) (cf r) j (cfun_valid Nl nprocs cur nxt d' Hwf r Hr) Hj).
Qed.

Theorem mh_intact_prefix cur nxt from to scratch r j : mh_ok cur nxt = true -> mh_Wm to -> r < nr ->
  inb (shape_of Nl nprocs d' nxt r) j ->
  cell V dflt (fst (mh_intact cur nxt from to scratch)) r (ravel (shape_of Nl nprocs d' nxt r) j)
  = nth (ravel (shape_of Nl nprocs d' nxt r) j) (nth r (run_step V dflt Nl nprocs cur nxt d' from) []) dflt.
Proof.
  intros Hok Wt Hr Hj.
  pose proof (mh_ok_extent cur nxt r Hok Hr) as HE.
  pose proof (ravel_lt _ _ Hj) as HA. fold (mh_size nxt r) in HA.
  unfold mh_ok, step_ok_b in Hok. apply andb_prop in Hok. destruct Hok as [Hok _].
  apply andb_prop in Hok. destruct Hok as [Hwf Hs].
  revert HE Hs. unfold mh_intact, run_step, mh_extent. destruct (swap_axes nprocs cur nxt) as [|a0 rest]; intros HE Hs; cbn [fst].
  - unfold mh_local. rewrite (mh_prefix_gen nxt _ _ to eq_refl Wt r _ Hr HA HE).
    destruct (Nat.ltb_spec (ravel (shape_of Nl nprocs d' nxt r) j) (mh_size nxt r)); [|lia].
    unfold run_local. rewrite nth_map_seq_list by exact Hr. rewrite nth_map_seq_gen by exact HA. reflexivity.
  - rewrite (mh_prefix_gen nxt _ _ to eq_refl Wt r _ Hr HA ltac:(lia)).
    destruct (mh_dist_hyps cur nxt a0 Hwf Hs) as [Ha0 [HP [Hpi [Hipi [Hpi' [Hipi' [Hc Hdf]]]]]]].
    unfold run_dist. rewrite nth_map_seq_list by exact Hr. rewrite nth_map_seq_gen by exact HA.
    apply (mintact_dst_prefix V d' Nf' Pf' (pif cur) (ipif cur) (pif' nxt) (ipif' nxt) a0 Ha0 HP Hpi Hipi Hpi' Hipi' Hc Hdf
             (memf from) (memf to) (memf scratch) (cf r) j (cfun_valid Nl nprocs cur nxt d' Hwf r Hr) Hj).
Qed.

(** hence both variants transport the global field (run_step_correct) *)
Variable G : list nat -> V.

Theorem mh_plain_correct cur nxt from to : mh_ok cur nxt = true -> mh_Wm to ->
  HoldsL V dflt Nl nprocs d' G cur from -> HoldsL V dflt Nl nprocs d' G nxt (snd (mh_plain cur nxt from to)).
Proof.
  intros Hok Wt HL r Hr j Hj. fold (cell V dflt (snd (mh_plain cur nxt from to)) r (ravel (shape_of Nl nprocs d' nxt r) j)).
  rewrite mh_plain_prefix by assumption.
  unfold mh_ok in Hok. apply andb_prop in Hok. destruct Hok as [Hok _].
  exact (run_step_correct V dflt Nl nprocs d' G cur nxt from Hok HL r Hr j Hj).
Qed.
Theorem mh_intact_correct cur nxt from to scratch : mh_ok cur nxt = true -> mh_Wm to ->
  HoldsL V dflt Nl nprocs d' G cur from -> HoldsL V dflt Nl nprocs d' G nxt (fst (mh_intact cur nxt from to scratch)).
Proof.
  intros Hok Wt HL r Hr j Hj. fold (cell V dflt (fst (mh_intact cur nxt from to scratch)) r (ravel (shape_of Nl nprocs d' nxt r) j)).
  rewrite mh_intact_prefix by assumption.
  unfold mh_ok in Hok. apply andb_prop in Hok. destruct Hok as [Hok _].
  exact (run_step_correct V dflt Nl nprocs d' G cur nxt from Hok HL r Hr j Hj).
Qed.

(** ** the redirects *)
Definition mh_redirect := redirect_m V (list nat) mh_plain.
Definition mh_redirect_intact := redirect_intact_m V (list nat) mh_plain mh_intact.
Definition mh_route_ok := route_ok (list nat) mh_ok.

(** LayoutHandler.transpose(source, dest, a, b, buf) for the handler's route [steps] from [cur] *)
Definition mh_copy (cur : list nat) (src dst : mems V) : mems V :=
  mat V (fun r A => if A <? mh_size cur r then cell V dflt src r A else cell V dflt dst r A) dst.
Definition mh_transpose := transpose_m V (list nat) mh_plain mh_intact mh_copy.

(** _transposeRedirect: source and dest are untouched at and beyond E, except that after an even number of
    steps dest is a copy of the whole source array *)
Theorem mh_redirect_frame cur steps src dst : mh_route_ok cur steps = true -> mh_Wm src -> mh_Wm dst ->
  fr V dflt E src (fst (mh_redirect cur steps src dst)) /\
  (if Nat.even (length steps) then snd (mh_redirect cur steps src dst) = fst (mh_redirect cur steps src dst)
   else fr V dflt E dst (snd (mh_redirect cur steps src dst))).
Proof.
  apply (redirect_frame V dflt (list nat) mh_plain mh_ok E mh_Wm mh_Wm_len).
  intros l l' f t Hok Wf Wt. apply mh_plain_frame; assumption.
Qed.
(** _transposeRedirect_source_intact: the source array is not written (it is no output of the model: every
    phase that writes gets dest or buf); dest and buf are untouched at and beyond E *)
Theorem mh_redirect_intact_frame cur steps src dst buf : mh_route_ok cur steps = true ->
  mh_Wm src -> mh_Wm dst -> mh_Wm buf ->
  fr V dflt E dst (fst (mh_redirect_intact cur steps src dst buf)) /\
  fr V dflt E buf (snd (mh_redirect_intact cur steps src dst buf)).
Proof.
  apply (redirect_intact_frame V dflt (list nat) mh_plain mh_intact mh_ok E mh_Wm mh_Wm_len).
  - intros l l' f t Hok Wf Wt. apply mh_plain_frame; assumption.
  - intros l l' f t s Hok Wf Wt Ws. apply mh_intact_frame; assumption.
Qed.

Theorem mh_redirect_correct cur steps src dst : mh_route_ok cur steps = true -> mh_Wm src -> mh_Wm dst ->
  HoldsL V dflt Nl nprocs d' G cur src ->
  HoldsL V dflt Nl nprocs d' G (last steps cur) (snd (mh_redirect cur steps src dst)).
Proof.
  apply (redirect_hd V dflt (list nat) mh_plain mh_ok E mh_Wm mh_Wm_len).
  - intros l l' f t Hok Wf Wt. apply mh_plain_frame; assumption.
  - intros l l' f t Hok Wf Wt. apply mh_plain_correct; assumption.
Qed.
Theorem mh_redirect_intact_correct cur steps src dst buf : steps <> [] -> mh_route_ok cur steps = true ->
  mh_Wm src -> mh_Wm dst -> mh_Wm buf -> HoldsL V dflt Nl nprocs d' G cur src ->
  HoldsL V dflt Nl nprocs d' G (last steps cur) (fst (mh_redirect_intact cur steps src dst buf)).
Proof.
  apply (redirect_intact_hd V dflt (list nat) mh_plain mh_intact mh_ok E mh_Wm mh_Wm_len).
  - intros l l' f t Hok Wf Wt. apply mh_plain_frame; assumption.
  - intros l l' f t s Hok Wf Wt Ws. apply mh_intact_frame; assumption.
  - intros l l' f t Hok Wf Wt. apply mh_plain_correct; assumption.
  - intros l l' f t s Hok Wf Wt Ws. apply mh_intact_correct; assumption.
Qed.

End MemExec.
