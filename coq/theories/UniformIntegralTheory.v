(** C09: on an exactly uniform periodic space of any degree (general path, repaired code) the folded basis integrals are
    all equal to dx - hence, with the circulant collocation matrix, every quadrature weight is dx.
    Ingredients: continuity of the B-spline values across a simple knot (the Cox - de Boor triangles above the indicators
    of two neighbouring spans agree at the common knot from degree 1 on); translation invariance of A2.2 (it reads the knots
    through left/right only; at the left end of a span the last right[] does not matter); the pieces c_i (u_i - l_i) of
    [QuadTheory.ip_piece]. *)
From Coq Require Import List Arith Lia ZArith Bool Field Ring Setoid.
Import ListNotations.
From PGV Require Import BasisCoxDeBoor CoxDeBoorGen FindSpan CubicUniform CollocRow Sums SplineModel SplineTheory InterpModel InterpTheory QuadTheory GrevilleTheory QuadSumTheory CirculantTheory UniformPeriodicTheory.

Section UniformIntegral.
Variable F : Type.
Variable K : sp_ops F.
Hypothesis HK : sp_laws K.
Add Field IPFUI : (spl_field K HK).
Notation "x + y" := (spadd K x y). Notation "x * y" := (spmul K x y).
Notation "x - y" := (spsub K x y). Notation "x / y" := (spdiv K x y).
Notation "0" := (sp0 K). Notation "1" := (sp1 K).
Notation "x <= y" := (sp_le K x y). Notation "x < y" := (sp_lt K x y).
Notation sumn := (Sums.sumn F 0 (spadd K)).
Notation kn := (sp_kn F K).
Notation ofn := (sp_ofnat F K).
Notation Lk := (L F (spsub K)).
Notation Rk := (R F (spsub K)).
Notation swp := (sweep F (spadd K) (spmul K) (spsub K) (spdiv K)).
Notation bfrom := (basis_from F 0 (spadd K) (spmul K) (spsub K) (spdiv K)).
Notation frc := (BasisCoxDeBoor.frac F 0 (spdiv K) (speqb K)).
Notation Nd knots x s := (Ng F 0 (spadd K) (spmul K) (spsub K) (spdiv K) (kn knots) x (speqb K) (delta F 0 1 s)).

Lemma ip_frac_same den : den <> 0 -> frc den den = 1.
Proof. intros H. unfold BasisCoxDeBoor.frac. destruct (sp_eqb_spec F K HK den 0); [contradiction|]. field. exact H. Qed.

Lemma ip_Ng_S knots x base k i :
  Ng F 0 (spadd K) (spmul K) (spsub K) (spdiv K) (kn knots) x (speqb K) base (S k) i
  = frc (x - kn knots i) (kn knots (i + k + 1) - kn knots i) * Ng F 0 (spadd K) (spmul K) (spsub K) (spdiv K) (kn knots) x (speqb K) base k i
    + frc (kn knots (i + k + 2) - x) (kn knots (i + k + 2) - kn knots (S i)) * Ng F 0 (spadd K) (spmul K) (spsub K) (spdiv K) (kn knots) x (speqb K) base k (S i).
Proof. reflexivity. Qed.

(** continuity across a simple knot: at x = t_{s+1} the triangles above the indicators of the spans s and s+1 agree from
    degree 1 on *)
Lemma ip_Nd_cont knots s : kn knots s < kn knots (S s) -> kn knots (S s) < kn knots (S (S s)) ->
  forall k, (1 <= k)%nat -> forall i, Nd knots (kn knots (S s)) s k i = Nd knots (kn knots (S s)) (S s) k i.
Proof.
  intros H1 H2. set (x := kn knots (S s)).
  assert (D1 : x - kn knots s <> 0).
  { intros E. apply (proj2 H1). symmetry. replace (kn knots s) with (kn knots s + 0) by ring. rewrite <- E. unfold x. ring. }
  assert (D2 : kn knots (S (S s)) - x <> 0).
  { intros E. apply (proj2 H2). replace (kn knots (S (S s))) with ((kn knots (S (S s)) - x) + x) by ring. rewrite E. unfold x. ring. }
  induction k as [|k IH]; intros Hk i; [lia|]. destruct k as [|k].
  - cbn [Ng]. unfold delta.
    destruct (Nat.eqb_spec i s) as [->|N1].
    + replace (s + 0 + 1)%nat with (S s) by lia. replace (s + 0 + 2)%nat with (S (S s)) by lia. fold x.
      destruct (Nat.eqb_spec (S s) s); [lia|]. destruct (Nat.eqb_spec s (S s)); [lia|]. rewrite Nat.eqb_refl.
      rewrite (ip_frac_same _ D1), (ip_frac_same _ D2). ring.
    + destruct (Nat.eqb_spec (S i) s) as [E|N2].
      * subst s. destruct (Nat.eqb_spec i (S (S i))); [lia|]. destruct (Nat.eqb_spec (S i) (S (S i))); [lia|].
        replace (i + 0 + 2)%nat with (S (S i)) by lia. fold x. replace (x - x) with 0 by ring. rewrite (ip_frac_zero F K HK). ring.
      * destruct (Nat.eqb_spec i (S s)) as [->|N3].
        -- destruct (Nat.eqb_spec (S (S s)) (S s)); [lia|]. fold x. replace (x - x) with 0 by ring. rewrite (ip_frac_zero F K HK). ring.
        -- destruct (Nat.eqb_spec (S i) (S s)); [lia|]. ring.
  - rewrite (ip_Ng_S knots x (delta F 0 1 s) (S k) i), (ip_Ng_S knots x (delta F 0 1 (S s)) (S k) i).
    rewrite (IH ltac:(lia) i), (IH ltac:(lia) (S i)). reflexivity.
Qed.

(** peeling the LAST iteration of the outer loop of A2.2 *)
Lemma ip_basis_from_last (t : nat -> F) x s : forall k j vals,
  bfrom t x s j (S k) vals = swp t x s (j + k) 0 (bfrom t x s j k vals) 0.
Proof.
  induction k as [|k IH]; intros j vals.
  - cbn [basis_from]. rewrite Nat.add_0_r. reflexivity.
  - change (bfrom t x s j (S (S k)) vals) with (bfrom t x s (S j) (S k) (swp t x s j 0 vals 0)).
    rewrite IH. cbn [basis_from]. replace (S j + k)%nat with (j + S k)%nat by lia. reflexivity.
Qed.
Lemma ip_basis_from_length (t : nat -> F) x s : forall k j vals, length vals = S j -> length (bfrom t x s j k vals) = S (j + k).
Proof.
  induction k as [|k IH]; intros j vals Hl; cbn [basis_from]; [rewrite Hl; f_equal; lia|].
  rewrite IH by (rewrite sweep_length, Hl; reflexivity). f_equal. lia.
Qed.

(** the inner loop when the last left[] it reads is zero (x at the left end of the span): the last right[] does not matter *)
Lemma ip_sweep_ext_end (t t' : nat -> F) x x' s s' j : forall vs r saved v,
  (forall k, (r <= k < r + length vs)%nat -> Rk t x s k = Rk t' x' s' k /\ Lk t x s (j - k) = Lk t' x' s' (j - k)) ->
  Lk t x s (j - (r + length vs)) = 0 -> Lk t' x' s' (j - (r + length vs)) = 0 ->
  Rk t x s (r + length vs) <> 0 -> Rk t' x' s' (r + length vs) <> 0 ->
  swp t x s j r (vs ++ [v]) saved = swp t' x' s' j r (vs ++ [v]) saved.
Proof.
  induction vs as [|w vs IH]; intros r saved v H L1 L2 R1 R2.
  - cbn [app sweep length] in *. rewrite Nat.add_0_r in *. rewrite L1, L2. f_equal; [field; split; assumption|].
    f_equal. ring.
  - cbn [app sweep]. destruct (H r ltac:(cbn [length]; lia)) as [ER EL]. rewrite ER, EL. f_equal.
    apply IH.
    + intros k Hk. apply H. cbn [length]. lia.
    + replace (S r + length vs)%nat with (r + length (w :: vs))%nat by (cbn [length]; lia). exact L1.
    + replace (S r + length vs)%nat with (r + length (w :: vs))%nat by (cbn [length]; lia). exact L2.
    + replace (S r + length vs)%nat with (r + length (w :: vs))%nat by (cbn [length]; lia). exact R1.
    + replace (S r + length vs)%nat with (r + length (w :: vs))%nat by (cbn [length]; lia). exact R2.
Qed.

(** translation invariance of A2.2 at the LEFT END of a span: left/right agree for k < d, left[k] also for k = d,
    left[0] = 0 and the last right[d] is non-zero on both sides *)
Lemma ip_A22_ext_left_end knots knots' d x x' s s' :
  (forall i, (i < d)%nat -> kn knots (s + 1 + i) - x = kn knots' (s' + 1 + i) - x' /\ x - kn knots (s - i) = x' - kn knots' (s' - i)) ->
  x - kn knots (s - d) = x' - kn knots' (s' - d) ->
  x - kn knots s = 0 -> x' - kn knots' s' = 0 ->
  kn knots (s + 1 + d) - x <> 0 -> kn knots' (s' + 1 + d) - x' <> 0 ->
  sp_A22 F K knots (S d) x s = sp_A22 F K knots' (S d) x' s'.
Proof.
  intros H HLd L0 L0' Rd Rd'. unfold sp_A22, basis_funs. rewrite !ip_basis_from_last. cbn [Nat.add].
  rewrite <- (ip_basis_from_ext F K (kn knots) (kn knots') x x' s s' d 0 [1] eq_refl).
  2:{ intros i Hi. unfold L, R. apply H. lia. }
  set (vals := bfrom (kn knots) x s 0 d [1]).
  assert (Hl : length vals = S d) by (unfold vals; rewrite ip_basis_from_length by reflexivity; reflexivity).
  assert (Hne : vals <> []) by (intros E; rewrite E in Hl; discriminate).
  rewrite (app_removelast_last 0 Hne).
  assert (Hlr : length (removelast vals) = d).
  { pose proof (f_equal (@length F) (app_removelast_last 0 Hne)) as E. rewrite app_length in E. cbn [length] in E. lia. }
  apply ip_sweep_ext_end; rewrite ?Hlr; cbn [Nat.add]; unfold L, R; rewrite ?Nat.sub_diag, ?Nat.sub_0_r.
  - intros k Hk. split; [apply H; lia|].
    destruct (Nat.eq_dec k 0) as [->|Hk0]; [rewrite Nat.sub_0_r; exact HLd|]. apply H. lia.
  - exact L0.
  - exact L0'.
  - exact Rd.
  - exact Rd'.
Qed.


(* ---------------------------------------------------------------------------------------- *)
(** * suffix sums written with indicators *)
Section Ind.
Variable pp : nat.
Variable V : nat -> F.
Definition ip_ind (thr : nat) : F := sumn (S pp) (fun q => if (thr <=? q)%nat then V q else 0).
Lemma ip_ind_full : ip_ind 0 = sumn (S pp) V.
Proof. unfold ip_ind. apply (ip_sumn_ext F K). intros q _. reflexivity. Qed.
Lemma ip_ind_one : ip_ind 1 = sumn (S pp) V - V 0%nat.
Proof.
  unfold ip_ind. rewrite (ip_sumn_head F K HK pp), (ip_sumn_head F K HK pp V). cbn [Nat.leb].
  ring.
Qed.
Lemma ip_ind_top thr : (pp <= thr)%nat -> ip_ind thr = if (thr =? pp)%nat then V pp else 0.
Proof.
  intros H. unfold ip_ind. cbn [Sums.sumn].
  rewrite (ip_sumn_ext F K pp _ (fun _ => 0)) by (intros q Hq; destruct (Nat.leb_spec thr q); [lia|reflexivity]).
  rewrite (ip_sumn_zero F K HK). destruct (Nat.eqb_spec thr pp) as [->|Hne].
  - rewrite Nat.leb_refl. ring.
  - destruct (Nat.leb_spec thr pp); [lia|ring].
Qed.
End Ind.

Lemma ip_ind_shift pp (Va Vb : nat -> F) j : (forall q, (1 <= q)%nat -> (q < pp)%nat -> Vb (S q) = Va q) -> Va pp = 0 ->
  ip_ind pp Vb (j + 2) = ip_ind pp Va (j + 1).
Proof.
  intros HT Hz. unfold ip_ind. rewrite (ip_sumn_head F K HK pp). destruct (Nat.leb_spec (j + 2) 0); [lia|].
  cbn [Sums.sumn]. destruct (Nat.leb_spec (j + 1) pp) as [_|_]; rewrite ?Hz.
  - transitivity (sumn pp (fun q => if (j + 1 <=? q)%nat then Va q else 0)); [|ring]. replace (0 + sumn pp (fun r => if (j + 2 <=? S r)%nat then Vb (S r) else 0))
      with (sumn pp (fun r => if (j + 2 <=? S r)%nat then Vb (S r) else 0)) by ring.
    apply (ip_sumn_ext F K). intros q Hq.
    destruct (Nat.leb_spec (j + 2) (S q)), (Nat.leb_spec (j + 1) q); try lia; [apply HT; lia|reflexivity].
  - transitivity (sumn pp (fun q => if (j + 1 <=? q)%nat then Va q else 0)); [|ring]. replace (0 + sumn pp (fun r => if (j + 2 <=? S r)%nat then Vb (S r) else 0))
      with (sumn pp (fun r => if (j + 2 <=? S r)%nat then Vb (S r) else 0)) by ring.
    apply (ip_sumn_ext F K). intros q Hq.
    destruct (Nat.leb_spec (j + 2) (S q)), (Nat.leb_spec (j + 1) q); try lia; [apply HT; lia|reflexivity].
Qed.


(* ---------------------------------------------------------------------------------------- *)
(** * exactly uniform periodic knots: every folded integral is dx *)
Section Uniform.
Variable knots : list F.
Variable d : nat.
Variables t0 dx : F.
Hypothesis Hdx : 0 < dx.
Hypothesis Hd : (1 <= d)%nat.
Hypothesis Hlen : (2 * d + 1 < length knots)%nat.
Hypothesis HU : forall j, (j < length knots)%nat -> kn knots j = t0 + ofn j * dx.
Notation len := (length knots).
Notation n := (len - 2 * d - 1)%nat.
Hypothesis Hn : (d <= n)%nat.                     (* make_knots: len(breaks) > degree *)
Notation kx := (ip_kx F K knots).
Notation a := (kn knots d).
Notation b := (kn knots (len - 1 - d)).
Notation NN := (len - d - 1)%nat.
Notation Va := (ip_Va F K knots d).
Notation Vb := (ip_Vb F K knots d).

Let Hstep := ip_unif_step F K HK knots d t0 dx Hdx Hlen HU.
Let Hsorted := ip_unif_sorted F K HK knots d t0 dx Hdx Hlen HU.
Let Hshift := ip_unif_shift F K HK knots d t0 dx Hlen HU.

Lemma ip_unif_simple : ip_simple_breaks F K knots d.
Proof. split; [exact Hsorted|]. split; [exact Hlen|]. intros j Hj. apply Hstep. lia. Qed.

Lemma ip_unif_diff j i : (j + i < len)%nat -> kn knots (j + i) - kn knots j = ofn i * dx.
Proof. intros H. rewrite Hshift by exact H. ring. Qed.
Lemma ip_unif_diff_ne0 i : (1 <= i)%nat -> ofn i * dx <> 0.
Proof.
  intros Hi. apply (sp_mul_ne0 F K HK); [destruct i; [lia|apply (ip_ofnat_S_ne0 F K HK)]|].
  intros E. apply (proj2 Hdx). symmetry. exact E.
Qed.
Lemma ip_kn_len : kn knots len = kn knots (len - 1).
Proof. rewrite !(sp_kn_beyond F K) by lia. reflexivity. Qed.

(** translation + continuity: the values at b (right end of the last span) are the values at a, shifted by one *)
Lemma ip_unif_Vb_Va q : (1 <= q)%nat -> (q < S d)%nat -> Vb (S q) = Va q.
Proof.
  intros Hq1 Hq2. destruct (ip_gen_facts F K HK knots d ip_unif_simple) as [Hsx [Hlx [_ [_ [_ [Hspa Hspb]]]]]].
  unfold ip_Vb, ip_Va.
  assert (Eb : b = kn kx (S NN)) by (rewrite ip_kx_kn; f_equal; lia).
  assert (Hs1 : sp_span_ok F K kx (S NN)).
  { unfold sp_span_ok. rewrite !ip_kx_kn. replace (S NN - 1)%nat with NN by lia. replace (S (S NN) - 1)%nat with (S NN) by lia. apply Hstep. lia. }
  rewrite Eb. rewrite (ip_Nd_cont kx NN Hspb Hs1 (S d) ltac:(lia)). rewrite <- Eb.
  transitivity (nth q (sp_A22 F K kx (S d) b (S NN)) 0).
  { rewrite (ip_A22_delta F K HK kx (S d) b (S NN) Hsx Hs1) by lia.
    rewrite (ip_nth_map_seq (fun q => Nd kx b (S NN) (S d) (S NN - S d + q)%nat)) by lia. cbn [Nat.add]. f_equal. lia. }
  rewrite (ip_A22_ext_left_end kx kx d b a (S NN) (S d)).
  - rewrite (ip_A22_delta F K HK kx (S d) a (S d) Hsx Hspa) by lia.
    rewrite (ip_nth_map_seq (fun q => Nd kx a (S d) (S d) (S d - S d + q)%nat)) by lia. cbn [Nat.add]. f_equal. lia.
  - intros i Hi. rewrite !ip_kx_kn. split.
    + replace (S NN + 1 + i - 1)%nat with (NN + (1 + i))%nat by lia. replace (S d + 1 + i - 1)%nat with (d + (1 + i))%nat by lia.
      replace b with (kn knots NN) by (f_equal; lia). rewrite !ip_unif_diff by lia. reflexivity.
    + replace (S NN - i - 1)%nat with (NN - i)%nat by lia. replace (S d - i - 1)%nat with (d - i)%nat by lia.
      replace b with (kn knots ((NN - i) + i)) by (f_equal; lia). replace a with (kn knots ((d - i) + i)) by (f_equal; lia).
      rewrite !ip_unif_diff by lia. reflexivity.
  - rewrite !ip_kx_kn. replace (S NN - d - 1)%nat with (NN - d)%nat by lia. replace (S d - d - 1)%nat with 0%nat by lia.
    replace b with (kn knots ((NN - d) + d)) by (f_equal; lia). replace a with (kn knots (0 + d)) by reflexivity.
    rewrite !ip_unif_diff by lia. reflexivity.
  - rewrite ip_kx_kn. replace (S NN - 1)%nat with NN by lia. replace b with (kn knots NN) by (f_equal; lia). ring.
  - rewrite ip_kx_kn. replace (S d - 1)%nat with d by lia. ring.
  - rewrite ip_kx_kn. replace (S NN + 1 + d - 1)%nat with len by lia. rewrite ip_kn_len.
    replace (kn knots (len - 1)) with (kn knots (NN + d)) by (f_equal; lia). replace b with (kn knots NN) by (f_equal; lia).
    rewrite ip_unif_diff by lia. apply ip_unif_diff_ne0, Hd.
  - rewrite ip_kx_kn. replace (S d + 1 + d - 1)%nat with (d + S d)%nat by lia. rewrite ip_unif_diff by lia.
    apply ip_unif_diff_ne0. lia.
Qed.

Lemma ip_unif_Va_top : Va (S d) = 0.
Proof.
  unfold ip_Va. apply (ip_Nd_left F K HK kx a (S d) (S d)); try lia.
  intros j Hj. replace j with (S d) by lia. rewrite ip_kx_kn. f_equal. lia.
Qed.
Lemma ip_unif_Vb_0 : Vb 0 = 0.
Proof.
  unfold ip_Vb. rewrite Nat.add_0_r. rewrite (ip_Ng_S kx b (delta F 0 1 NN) d (NN - S d)).
  rewrite (ip_Nd_support F K HK kx b NN d (NN - S d)) by lia.
  replace (kn kx (NN - S d + d + 2)) with b by (rewrite ip_kx_kn; f_equal; lia).
  replace (b - b) with 0 by ring. rewrite (ip_frac_zero F K HK). ring.
Qed.

(** every piece is dx (u_i - l_i) *)
Lemma ip_unif_piece i : (i < NN)%nat ->
  ip_integral_general F K knots kx d i
  = SpOk (dx * (ip_ind (S d) Vb (i + 2 + 2 * d + 1 - len) - ip_ind (S d) Va (S i))).
Proof.
  intros Hi. rewrite (ip_piece F K HK knots d ip_unif_simple i Hi). f_equal.
  fold (ip_ind (S d) Vb (i + 2 + 2 * d + 1 - len)). fold (ip_ind (S d) Va (S i)). f_equal.
  replace (i + d + 1)%nat with (i + S d)%nat by lia. rewrite ip_unif_diff by lia. field. apply (ip_ofnat_S_ne0 F K HK).
Qed.

(** the folded integrals basis_quads[j] = integrals[j] + integrals[n+j] (j < d) are all equal to dx *)
Theorem ip_unif_folded Il : ip_integrals F K knots d true false = SpOk Il ->
  forall j, (j < n)%nat -> nth j (ip_quad_rhs F K n d true Il) 0 = dx.
Proof.
  intros EI j Hj. destruct (ip_greville_a F K HK knots d ip_unif_simple) as [_ Sa]. destruct (ip_greville_b F K HK knots d ip_unif_simple) as [_ Sb].
  unfold ip_integrals in EI. cbv zeta in EI.
  destruct (ip_space_ok F K knots d true false); cbn [negb] in EI; [|discriminate].
  change (kn knots 0 :: knots ++ [last knots 0]) with kx in EI.
  assert (E : (ip_ncells F K knots d false + d = NN)%nat) by (unfold ip_ncells; lia). rewrite E in EI.
  rewrite (sp_mapM_ok _ (fun i => dx * (ip_ind (S d) Vb (i + 2 + 2 * d + 1 - len) - ip_ind (S d) Va (S i)))) in EI.
  2:{ intros i Hi. apply in_seq in Hi. apply ip_unif_piece. lia. }
  injection EI as EI. subst Il.
  assert (HI : forall i, (i < NN)%nat -> nth i (map (fun i => dx * (ip_ind (S d) Vb (i + 2 + 2 * d + 1 - len) - ip_ind (S d) Va (S i))) (seq 0 NN)) 0
               = dx * (ip_ind (S d) Vb (i + 2 + 2 * d + 1 - len) - ip_ind (S d) Va (S i))).
  { intros i Hi. rewrite (ip_nth_map_seq (fun i => dx * (ip_ind (S d) Vb (i + 2 + 2 * d + 1 - len) - ip_ind (S d) Va (S i)))) by exact Hi. reflexivity. }
  (* the upper cumulated value is 1 as long as the threshold is 0 or 1; the lower one is 0 from i = d on *)
  assert (HU1 : forall thr, (thr <= 1)%nat -> ip_ind (S d) Vb thr = 1).
  { intros thr Ht. destruct thr as [|[|thr]]; [rewrite ip_ind_full; exact Sb|rewrite ip_ind_one, Sb, ip_unif_Vb_0; ring|lia]. }
  assert (HL0 : forall i, (d <= i)%nat -> ip_ind (S d) Va (S i) = 0).
  { intros i Hdi. rewrite ip_ind_top by lia. destruct (S i =? S d)%nat; [apply ip_unif_Va_top|reflexivity]. }
  unfold ip_quad_rhs. rewrite (ip_vtab_get F K) by exact Hj. cbn beta. change (d + (d + 0))%nat with (2 * d)%nat.
  destruct (Nat.ltb_spec j d) as [Hjd|Hjd].
  - rewrite (HI j ltac:(lia)), (HI (n + j)%nat ltac:(lia)).
    rewrite (HU1 (j + 2 + 2 * d + 1 - len)%nat ltac:(lia)), (HL0 (n + j)%nat ltac:(lia)).
    replace (n + j + 2 + 2 * d + 1 - len)%nat with (j + 2)%nat by lia. replace (S j) with (j + 1)%nat by lia.
    rewrite (ip_ind_shift (S d) Va Vb j ip_unif_Vb_Va ip_unif_Va_top). ring.
  - rewrite (HI j ltac:(lia)), (HU1 (j + 2 + 2 * d + 1 - len)%nat ltac:(lia)), (HL0 j Hjd). ring.
Qed.

(** uniform_periodic_equal, general path, EVERY degree: on exactly uniform periodic knots with the interpolation points
    x_i = x_0 + i dx (x_0 in the first cell) every quadrature weight is dx; the only per-instance hypothesis is the checked
    inverse of the collocation matrix *)
Theorem ip_weights_equal_uniform_periodic x0 w A Ainv :
  let xs := map (fun i => x0 + ofn i * dx) (seq 0 n) in
  kn knots d <= x0 -> ~ kn knots (S d) <= x0 ->
  ip_quadrature F K knots d true false xs = SpOk w ->
  ip_colloc F K n knots d true false xs = SpOk A -> ip_inverse_ok F K n A Ainv = true ->
  forall i, (i < n)%nat -> nth i w 0 = dx.
Proof.
  cbv zeta. intros Hx1 Hx2 Hq EA Hinv.
  unfold ip_quadrature in Hq.
  destruct (ip_integrals F K knots d true false) as [Il| | | |] eqn:EI; cbn [sp_bind] in Hq; try discriminate.
  apply (ip_weights_equal_uniform F K HK knots d t0 dx x0 Hdx Hlen HU (conj Hx1 Hx2) Il w A Ainv dx); try assumption.
  - unfold ip_nbasis, ip_ncells. reflexivity.
  - apply ip_unif_folded, EI.
Qed.

End Uniform.
End UniformIntegral.
