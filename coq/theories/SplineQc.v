(** The spline model executed on canonical rationals (stdlib [Qc]): the instance that is
    extracted (coq/extract/parts/c07.txt) and run by the harness. *)
From Coq Require Import List Arith Lia ZArith QArith Qcanon Bool.
Import ListNotations.
From PGV Require Import BasisCoxDeBoor FindSpan CubicUniform SplineModel.

Definition spq_leb (a b : Qc) : bool := Qle_bool (this a) (this b).
(** int(): truncation towards zero of num/den *)
Definition spq_trunc (a : Qc) : Z := Z.quot (Qnum (this a)) (Zpos (Qden (this a))).

Definition spq_ops : sp_ops Qc :=
  SpOps Qc (Q2Qc 0) (Q2Qc 1) Qcplus Qcmult Qcminus Qcdiv Qcopp Qcinv spq_leb Qc_eq_bool spq_trunc.

Definition spq_of (n : Z) (d : positive) : Qc := Q2Qc (Qmake n d).

Definition spq_nu_find_span := sp_nu_find_span Qc spq_ops.
Definition spq_nu_basis_funs := sp_nu_basis_funs Qc spq_ops.
Definition spq_nu_basis_funs_1st_der := sp_nu_basis_funs_1st_der Qc spq_ops.
Definition spq_nu_eval_1d_scalar := sp_nu_eval_1d_scalar Qc spq_ops.
Definition spq_nu_eval_1d_vector := sp_nu_eval_1d_vector Qc spq_ops.
Definition spq_nu_eval_2d_scalar := sp_nu_eval_2d_scalar Qc spq_ops.
Definition spq_nu_eval_2d_cross := sp_nu_eval_2d_cross Qc spq_ops.
Definition spq_nu_eval_2d_vector := sp_nu_eval_2d_vector Qc spq_ops.
Definition spq_cu_find_span := sp_cu_find_span Qc spq_ops.
Definition spq_cu_basis_funs := sp_cu_basis_funs Qc spq_ops.
Definition spq_cu_basis_funs_1st_der := sp_cu_basis_funs_1st_der Qc spq_ops.
Definition spq_cu_eval_1d_scalar := sp_cu_eval_1d_scalar Qc spq_ops.
Definition spq_cu_eval_1d_vector := sp_cu_eval_1d_vector Qc spq_ops.
Definition spq_cu_eval_2d_scalar := sp_cu_eval_2d_scalar Qc spq_ops.
Definition spq_cu_eval_2d_cross := sp_cu_eval_2d_cross Qc spq_ops.
Definition spq_cu_eval_2d_vector := sp_cu_eval_2d_vector Qc spq_ops.
Definition spq_uniform_knots := sp_uniform_knots Qc spq_ops.

(** printing helper for the vm_compute cross-check of the extraction: (numerator, denominator) *)
Definition spq_show (a : Qc) : Z * positive := (Qnum (this a), Qden (this a)).
Definition spq_show_res (r : sp_res Qc) : sp_res (Z * positive) :=
  match r with SpOk a => SpOk (spq_show a) | SpIndexErr => SpIndexErr | SpFuelErr => SpFuelErr
             | SpDivErr => SpDivErr | SpArgErr => SpArgErr end.
Definition spq_show_list (r : sp_res (list Qc)) : sp_res (list (Z * positive)) :=
  match r with SpOk a => SpOk (map spq_show a) | SpIndexErr => SpIndexErr | SpFuelErr => SpFuelErr
             | SpDivErr => SpDivErr | SpArgErr => SpArgErr end.
