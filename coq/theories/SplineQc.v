(** The spline model executed on canonical rationals (stdlib [Qc]): the instance that is
    extracted (coq/extract/parts/c07.txt) and run by the harness. *)
From Coq Require Import List Arith Lia ZArith QArith Qcanon Bool.
Import ListNotations.
From PGV Require Import BasisCoxDeBoor FindSpan CubicUniform SplineModel SplineTheory.

Definition spq_leb (a b : Qc) : bool := Qle_bool (this a) (this b).
(** int(): truncation towards zero of num/den *)
Definition spq_trunc (a : Qc) : Z := Z.quot (Qnum (this a)) (Zpos (Qden (this a))).

Definition spq_ops : sp_ops Qc :=
  SpOps Qc (Q2Qc 0) (Q2Qc 1) Qcplus Qcmult Qcminus Qcdiv Qcopp Qcinv spq_leb Qc_eq_bool spq_trunc.

Definition spq_of (n : Z) (d : positive) : Qc := Q2Qc (Qmake n d).

Definition spq_nu_find_span := sp_nu_find_span Qc spq_ops.
Definition spq_nu_basis_funs := sp_nu_basis_funs Qc spq_ops.
Definition spq_nu_basis_funs_1st_der := sp_nu_basis_funs_1st_der Qc spq_ops.
Definition spq_nu_eval_1d_scalar := sp_nu_eval_1d_scalar Qc spq_ops.
Definition spq_nu_eval_1d_vector := sp_nu_eval_1d_vector Qc spq_ops.
Definition spq_nu_eval_2d_scalar := sp_nu_eval_2d_scalar Qc spq_ops.
Definition spq_nu_eval_2d_cross := sp_nu_eval_2d_cross Qc spq_ops.
Definition spq_nu_eval_2d_vector := sp_nu_eval_2d_vector Qc spq_ops.
Definition spq_cu_find_span := sp_cu_find_span Qc spq_ops.
Definition spq_cu_basis_funs := sp_cu_basis_funs Qc spq_ops.
Definition spq_cu_basis_funs_1st_der := sp_cu_basis_funs_1st_der Qc spq_ops.
Definition spq_cu_eval_1d_scalar := sp_cu_eval_1d_scalar Qc spq_ops.
Definition spq_cu_eval_1d_vector := sp_cu_eval_1d_vector Qc spq_ops.
Definition spq_cu_eval_2d_scalar := sp_cu_eval_2d_scalar Qc spq_ops.
Definition spq_cu_eval_2d_cross := sp_cu_eval_2d_cross Qc spq_ops.
Definition spq_cu_eval_2d_vector := sp_cu_eval_2d_vector Qc spq_ops.
Definition spq_uniform_knots := sp_uniform_knots Qc spq_ops.

(** printing helper for the vm_compute cross-check of the extraction: (numerator, denominator) *)
Definition spq_show (a : Qc) : Z * positive := (Qnum (this a), Qden (this a)).
Definition spq_show_res (r : sp_res Qc) : sp_res (Z * positive) :=
  match r with SpOk a => SpOk (spq_show a) | SpIndexErr => SpIndexErr | SpFuelErr => SpFuelErr
             | SpDivErr => SpDivErr | SpArgErr => SpArgErr end.
Definition spq_show_list (r : sp_res (list Qc)) : sp_res (list (Z * positive)) :=
  match r with SpOk a => SpOk (map spq_show a) | SpIndexErr => SpIndexErr | SpFuelErr => SpFuelErr
             | SpDivErr => SpDivErr | SpArgErr => SpArgErr end.

(** the executed instance satisfies the laws under which the theorems of SplineTheory.v are proved *)
Lemma spq_le_iff a b : sp_le spq_ops a b <-> (a <= b)%Qc.
Proof. unfold sp_le, spq_ops, spq_leb. cbn. apply Qle_bool_iff. Qed.

Theorem spq_laws : sp_laws spq_ops.
Proof.
  constructor.
  - exact Qcft.
  - intros x y z. rewrite !spq_le_iff. apply Qcle_trans.
  - intros x y. rewrite !spq_le_iff. apply Qcle_antisym.
  - intros x y. rewrite !spq_le_iff. destruct (Qclt_le_dec x y) as [H|H]; [left; apply Qclt_le_weak, H|right; exact H].
  - intros x y z. rewrite !spq_le_iff. intros H. cbn. apply Qcplus_le_compat; [exact H|apply Qcle_refl].
  - intros x y. rewrite !spq_le_iff. cbn. intros Hx Hy.
    replace (Q2Qc 0) with (Q2Qc 0 * y)%Qc by ring. apply Qcmult_le_compat_r; assumption.
  - intros a b. cbn. split; [apply Qc_eq_bool_correct|]. intros ->. unfold Qc_eq_bool.
    destruct (Qc_eq_dec b b) as [_|H]; [reflexivity|contradiction H; reflexivity].
Qed.
