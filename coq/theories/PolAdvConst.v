(** C12, second part: the hypotheses of const_phi_id discharged from the spline theory of C07
    (derivative basis functions sum to zero), theta nodes inside [0, 2 pi) are fixed by the modulo,
    composition with the 2-D interpolation theorem of C08, and rigid rotation for a potential whose
    evaluator returns d_r phi = omega r, d_theta phi = 0. *)
From Coq Require Import List Arith Lia ZArith Bool Field Ring Setoid.
Import ListNotations.
From PGV Require Import BasisCoxDeBoor Sums SplineModel SplineTheory PolAdvModel PolAdvTheory InterpModel InterpTheory Interp2D.

Section PolConst.
Variable F : Type.
Variable K : sp_ops F.
Hypothesis HK : sp_laws K.
Add Field PolCF : (spl_field K HK).
Notation "x + y" := (spadd K x y). Notation "x * y" := (spmul K x y).
Notation "x - y" := (spsub K x y). Notation "x / y" := (spdiv K x y).
Notation "0" := (sp0 K). Notation "1" := (sp1 K).
Notation "x <= y" := (sp_le K x y). Notation "x < y" := (sp_lt K x y).
Notation sumf := (sumF F 0 (spadd K)).
Notation sumr := (Sums.sumr F 0 (spadd K)).

(* ------------------------------------------------------------------------------------------ *)
(** * sums *)
Lemma pol_sumr_shift (f : nat -> F) : forall k a, sumr (S a) k f = sumr a k (fun j => f (S j)).
Proof. induction k as [|k IH]; intros a; cbn [Sums.sumr]; [reflexivity|]. rewrite IH. reflexivity. Qed.

Lemma pol_sumr_nth (L : list F) : forall n, (length L <= n)%nat -> sumr 0 n (fun j => nth j L 0) = sumf L.
Proof.
  induction L as [|a L IH]; intros n Hn.
  - cbn [sumF]. clear Hn. generalize 0%nat as s. induction n as [|n IHn]; intros s; cbn [Sums.sumr]; [reflexivity|].
    rewrite IHn. destruct s; cbn [nth]; ring.
  - destruct n as [|n]; [cbn [length] in Hn; lia|]. cbn [Sums.sumr sumF nth]. rewrite pol_sumr_shift.
    cbn [nth]. rewrite IH by (cbn [length] in Hn; lia). reflexivity.
Qed.

Lemma pol_sumr_scale c (g : nat -> F) : forall k a, sumr a k (fun j => c * g j) = c * sumr a k g.
Proof. induction k as [|k IH]; intros a; cbn [Sums.sumr]; [ring|]. rewrite IH. ring. Qed.
Lemma pol_sumr_scale_r c (g : nat -> F) : forall k a, sumr a k (fun j => g j * c) = sumr a k g * c.
Proof. induction k as [|k IH]; intros a; cbn [Sums.sumr]; [ring|]. rewrite IH. ring. Qed.

(** all entries of a coefficient array are c *)
Definition pol_const_coeffs (coeffs : list (list F)) (c : F) : Prop :=
  forall a b, (a < length coeffs)%nat -> (b < length (nth a coeffs []))%nat -> nth b (nth a coeffs []) 0 = c.

(** the tensor accumulation of a constant coefficient block with a basis pair of which one sums
    to zero is zero *)
Lemma pol_tensor_const_zero coeffs s1 d1 s2 d2 b1 b2 c v : pol_const_coeffs coeffs c ->
  sp_tensor_checked F K coeffs s1 d1 s2 d2 b1 b2 = SpOk v ->
  (length b1 <= S d1)%nat -> (length b2 <= S d2)%nat -> (sumf b1 = 0 \/ sumf b2 = 0) -> v = 0.
Proof.
  intros Hc H L1 L2 Hz. unfold sp_tensor_checked in H.
  destruct ((d1 <=? s1)%nat && (s1 <? length coeffs)%nat && (d2 <=? s2)%nat
            && forallb (fun row => (s2 <? length row)%nat) coeffs) eqn:EG; [|discriminate].
  injection H as <-. apply andb_prop in EG. destruct EG as [EG G4]. apply andb_prop in EG. destruct EG as [EG G3].
  apply andb_prop in EG. destruct EG as [G1 G2].
  apply Nat.leb_le in G1. apply Nat.ltb_lt in G2. apply Nat.leb_le in G3. rewrite forallb_forall in G4.
  rewrite (sp_tensor_loop_sum F K HK).
  rewrite (Sums.sumr_ext F 0 (spadd K) 0 (S d1) _ (fun i => (c * sumf b2) * nth i b1 0)).
  - rewrite pol_sumr_scale. rewrite (pol_sumr_nth b1 (S d1) L1). destruct Hz as [-> | ->]; ring.
  - intros i Hi. f_equal.
    rewrite (Sums.sumr_ext F 0 (spadd K) 0 (S d2) _ (fun j => c * nth j b2 0)).
    + rewrite pol_sumr_scale. rewrite (pol_sumr_nth b2 (S d2) L2). reflexivity.
    + intros j Hj. f_equal. apply Hc; [lia|].
      assert (Hin : In (nth (s1 - d1 + i) coeffs []) coeffs) by (apply nth_In; lia).
      specialize (G4 _ Hin). apply Nat.ltb_lt in G4. lia.
Qed.

(* ------------------------------------------------------------------------------------------ *)
(** * general path *)
Lemma pol_ders_loop_length (terms : list F) : forall saved, length (sp_ders_loop F K terms saved) = S (length terms).
Proof. induction terms as [|t r IH]; intros saved; cbn [sp_ders_loop length]; [reflexivity|]. rewrite IH. reflexivity. Qed.
Lemma pol_ders_raw_length knots degree x span : (length (sp_ders_raw F K knots degree x span) <= S degree)%nat.
Proof.
  unfold sp_ders_raw. cbv zeta. set (t := map _ (seq 0 degree)).
  assert (Ht : length t = degree) by (unfold t; rewrite map_length, seq_length; reflexivity).
  destruct t as [|s0 rest]; cbn [sp_ders_of_terms length] in *; [lia|]. rewrite pol_ders_loop_length. lia.
Qed.

Lemma pol_nu_basis_sel_facts der knots degree x span b :
  sp_nu_basis_sel F K der knots degree x span = SpOk b ->
  (length b <= S degree)%nat /\ (der = 1%nat -> sumf b = 0).
Proof.
  intros H. destruct der as [|[|der]]; cbn [sp_nu_basis_sel] in H; [| |discriminate].
  - unfold sp_nu_basis_funs in H. destruct (_ && _); [|discriminate]. destruct (sp_denoms_ok _ _ _ _ _ _); [|discriminate].
    injection H as <-. split; [rewrite sp_A22_length; lia|discriminate].
  - unfold sp_nu_basis_funs_1st_der in H. destruct degree as [|d]; [discriminate|].
    destruct (_ && _); [|discriminate]. destruct (_ && _); [|discriminate]. injection H as <-.
    split; [apply pol_ders_raw_length|]. intros _. apply (sp_ders_sum_zero F K HK).
Qed.

(** a spline with constant coefficients: every evaluation with exactly one derivative is 0 *)
Theorem pol_nu_const_der_zero x y k1 d1 k2 d2 coeffs c e1 e2 v : pol_const_coeffs coeffs c ->
  (e1 + e2 = 1)%nat -> sp_nu_eval_2d_scalar F K x y k1 d1 k2 d2 coeffs e1 e2 = SpOk v -> v = 0.
Proof.
  intros Hc He H. unfold sp_nu_eval_2d_scalar in H.
  apply pol_bind_inv in H. destruct H as [s1 [_ H]]. apply pol_bind_inv in H. destruct H as [s2 [_ H]].
  apply pol_bind_inv in H. destruct H as [b1 [B1 H]]. apply pol_bind_inv in H. destruct H as [b2 [B2 H]].
  destruct (pol_nu_basis_sel_facts _ _ _ _ _ _ B1) as [L1 Z1]. destruct (pol_nu_basis_sel_facts _ _ _ _ _ _ B2) as [L2 Z2].
  apply (pol_tensor_const_zero _ _ _ _ _ _ _ _ _ Hc H L1 L2).
  destruct e1 as [|[|e1]]; [right; apply Z2; lia|left; apply Z1; reflexivity|lia].
Qed.

(* ------------------------------------------------------------------------------------------ *)
(** * uniform cubic path *)
Lemma pol_cu_basis_sel_facts der o dx b : dx <> 0 -> sp_cu_basis_sel F K der o dx = SpOk b ->
  (length b <= 4)%nat /\ (der = 1%nat -> sumf b = 0).
Proof.
  intros Hdx H. destruct der as [|[|der]]; cbn [sp_cu_basis_sel] in H; [| |discriminate]; injection H as <-.
  - split; [cbn; lia|discriminate].
  - split; [cbn; lia|]. intros _. apply (sp_cu_ders_sum_zero F K HK), Hdx.
Qed.

Lemma pol_cu_find_span_dx xmin xmax dx x nc so : sp_cu_find_span F K xmin xmax dx x nc = SpOk so -> dx <> 0.
Proof.
  unfold sp_cu_find_span. destruct (sp_eqb_spec F K HK dx 0) as [E|NE]; [discriminate|]. intros _. exact NE.
Qed.

Theorem pol_cu_const_der_zero x y k1 d1 k2 d2 coeffs c e1 e2 v : pol_const_coeffs coeffs c ->
  (e1 + e2 = 1)%nat -> sp_cu_eval_2d_scalar F K x y k1 d1 k2 d2 coeffs e1 e2 = SpOk v -> v = 0.
Proof.
  intros Hc He H. unfold sp_cu_eval_2d_scalar in H.
  apply pol_bind_inv in H. destruct H as [[[[xmin xmax] dx] ncx] [_ H]].
  apply pol_bind_inv in H. destruct H as [[[[ymin ymax] dy] ncy] [_ H]].
  apply pol_bind_inv in H. destruct H as [so1 [S1 H]]. apply pol_bind_inv in H. destruct H as [so2 [S2 H]].
  apply pol_bind_inv in H. destruct H as [b1 [B1 H]]. apply pol_bind_inv in H. destruct H as [b2 [B2 H]].
  destruct (pol_cu_basis_sel_facts _ _ _ _ (pol_cu_find_span_dx _ _ _ _ _ _ S1) B1) as [L1 Z1].
  destruct (pol_cu_basis_sel_facts _ _ _ _ (pol_cu_find_span_dx _ _ _ _ _ _ S2) B2) as [L2 Z2].
  unfold sp_cu_tensor in H. destruct ((d1 =? 3)%nat && (d2 =? 3)%nat); [|discriminate].
  apply pol_bind_inv in H. destruct H as [n1 [_ H]]. apply pol_bind_inv in H. destruct H as [n2 [_ H]].
  apply (pol_tensor_const_zero _ _ _ _ _ _ _ _ _ Hc H L1 L2).
  destruct e1 as [|[|e1]]; [right; apply Z2; lia|left; apply Z1; reflexivity|lia].
Qed.

(** both evaluator pairs the wrappers dispatch to *)
Theorem pol_const_der_zero cu x y (s : pol_spl F) c e1 e2 v : pol_const_coeffs (ps_c s) c ->
  (e1 + e2 = 1)%nat -> pol_scalar F (pol_dispatch F K cu) s x y e1 e2 = SpOk v -> v = 0.
Proof.
  intros Hc He H. unfold pol_scalar in H. destruct cu; cbn [pol_dispatch pol_cu_ev pol_nu_ev pe_scalar] in H.
  - exact (pol_cu_const_der_zero _ _ _ _ _ _ _ _ _ _ _ Hc He H).
  - exact (pol_nu_const_der_zero _ _ _ _ _ _ _ _ _ _ _ Hc He H).
Qed.

(* ------------------------------------------------------------------------------------------ *)
(** * a theta in [0, m) is fixed by the modulo *)
Lemma pol_modv_id x m : sp_trunc_ok F K -> 0 <= x -> x < m -> pol_modv F K x m = x.
Proof.
  intros Htr Hx [Hxm Hne].
  assert (Hm : 0 < m).
  { split; [apply (spl_le_trans K HK) with x; assumption|]. intros E. apply Hne. apply (spl_le_antisym K HK); [exact Hxm|].
    rewrite <- E. exact Hx. }
  assert (Hm0 : m <> 0) by (intros E; apply (proj2 Hm); symmetry; exact E).
  assert (Hv0 : 0 <= x / m) by (apply (sp_div_nonneg F K HK); assumption).
  assert (Hv1 : x / m < 1).
  { split.
    - apply (sp_nonneg_sub F K HK). replace (1 - x / m) with ((m - x) / m) by (field; exact Hm0).
      apply (sp_div_nonneg F K HK); [apply (sp_sub_nonneg F K HK), Hxm|exact Hm].
    - intros E. apply Hne. replace x with (x / m * m) by (field; exact Hm0). rewrite E. ring. }
  unfold pol_modv, pol_floor. replace (spleb K 0 (x / m)) with true by (symmetry; exact Hv0).
  destruct (Htr _ Hv0) as [Ht0 [Ht1 _]].
  assert (Et : sptrunc K (x / m) = 0%Z).
  { destruct (Z.eq_dec (sptrunc K (x / m)) 0) as [E|NE]; [exact E|]. exfalso.
    rewrite (sp_ofZ_ofnat F K HK) in Ht1 by exact Ht0.
    apply (sp_lt_irrefl_le F K HK (x / m) 1 Hv1).
    apply (spl_le_trans K HK) with (sp_ofnat F K (Z.to_nat (sptrunc K (x / m)))); [|exact Ht1].
    replace 1 with (sp_ofnat F K 1) by (unfold sp_ofnat; cbn; ring).
    apply (sp_ofnat_mono F K HK). lia. }
  rewrite Et. cbn [sp_ofZ]. ring.
Qed.

(** the modulo is idempotent (so the extra [% (2*pi)] before the final evaluation changes nothing) *)
Lemma pol_modv_idem x m : sp_trunc_ok F K -> 0 < m -> pol_modv F K (pol_modv F K x m) m = pol_modv F K x m.
Proof.
  intros Htr Hm. destruct (pol_mod_range_thm F K HK x m Htr Hm) as [y [Hy [H0 H1]]].
  assert (Hm0 : speqb K m 0 = false).
  { destruct (sp_eqb_spec F K HK m 0) as [E0|]; [|reflexivity]. exfalso. apply (proj2 Hm). symmetry. exact E0. }
  rewrite (pol_mod_modv F K _ _ Hm0) in Hy. injection Hy as <-. apply pol_modv_id; assumption.
Qed.

(* ------------------------------------------------------------------------------------------ *)
(** * rigid rotation: d_r phi = omega r, d_theta phi = 0 *)
Section Rigid.
Variable E : pol_ev F.
Variable feq : F -> F -> F.
Variable pi_ : F.
Variables (dt v B0 : F).
Variable nul : bool.
Variables (rPts qPts : list F).
Variables (phi pol : pol_spl F).
Variable omega : F.
Notation nq := (pol_nq F qPts).
Notation nr := (pol_nr F rPts).
Notation twopi := (pol_twopi F K pi_).
Notation rmin := (hd 0 rPts).
Notation rmax := (last rPts 0).
Notation qi i := (nth i qPts 0).
Notation rj j := (nth j rPts 0).
(** theta_i - omega dt/B0  modulo 2 pi *)
Notation mq i := (pol_modv F K (qi i - omega * (dt / B0)) twopi).

Hypothesis HB : speqb K B0 0 = false.
Hypothesis Hpi : speqb K twopi 0 = false.
Hypothesis Hne : rPts <> [].
Hypothesis Hr : forall j, (j < nr)%nat -> speqb K (rj j) 0 = false /\ pol_inside F K rmin rmax (rj j) = true.
Variables (D1 D2 : list (list F)).
Hypothesis Hc1 : pol_cross F E rPts qPts phi 0%nat 1%nat = SpOk D1.
Hypothesis Hc2 : pol_cross F E rPts qPts phi 1%nat 0%nat = SpOk D2.
Hypothesis Hg1 : pol_grid_ok F rPts qPts D1 = true.
Hypothesis Hg2 : pol_grid_ok F rPts qPts D2 = true.
(** the potential is omega r^2/2 as far as the kernel can see: at the nodes and at the rotated points *)
Hypothesis Hz1 : forall i j, (i < nq)%nat -> (j < nr)%nat -> pol_at F K D1 i j = omega * rj j.
Hypothesis Hz2 : forall i j, (i < nq)%nat -> (j < nr)%nat -> pol_at F K D2 i j = 0.
Hypothesis Hs : forall i j, (i < nq)%nat -> (j < nr)%nat ->
  pol_scalar F E phi (mq i) (rj j) 0%nat 1%nat = SpOk (omega * rj j) /\
  pol_scalar F E phi (mq i) (rj j) 1%nat 0%nat = SpOk 0.
(** the value of the spline of f at the rotated point *)
Variable fv : nat -> nat -> F.
Hypothesis Hf : forall i j, (i < nq)%nat -> (j < nr)%nat ->
  pol_scalar F E pol (pol_modv F K (mq i) twopi) (rj j) 0%nat 0%nat = SpOk (fv i j).

Definition pol_rigid_result : list (list (F * (F * F))) :=
  map (fun i => map (fun j => (fv i j, (pol_modv F K (mq i) twopi, rj j))) (seq 0 nr)) (seq 0 nq).

Lemma pol_rg_r_ne0 j : (j < nr)%nat -> rj j <> 0.
Proof. intros Hj E0. destruct (Hr j Hj) as [H _]. destruct (sp_eqb_spec F K HK (rj j) 0); [discriminate|contradiction]. Qed.

Lemma pol_rg_half x : (x + x) * (sp_half F K * (dt / B0)) = x * (dt / B0).
Proof.
  assert (HB0 : B0 <> 0) by (intros E0; destruct (sp_eqb_spec F K HK B0 0); [discriminate|contradiction]).
  unfold sp_half, sp_two. field. split; [exact HB0|exact (sp_2_ne0 F K HK)].
Qed.

Lemma pol_rg_prelude : pol_prelude F K E dt B0 rPts qPts phi = SpOk (dt / B0, D1, D2, rmin, rmax).
Proof. apply (pol_prelude_eq F K); assumption. Qed.

Lemma pol_rg_dk i j : (i < nq)%nat -> (j < nr)%nat ->
  pol_dk F K E phi rmin rmax (mq i) (rj j) = SpOk (omega, 0).
Proof.
  intros Hi Hj. unfold pol_dk. destruct (Hr j Hj) as [H0 Hin]. rewrite Hin.
  destruct (Hs i j Hi Hj) as [S1 S2]. rewrite S1. cbn [sp_bind]. rewrite H0, S2. cbn [sp_bind].
  pose proof (pol_rg_r_ne0 j Hj). replace (omega * rj j / rj j) with omega by (field; assumption).
  replace (0 / rj j) with 0 by (field; assumption). reflexivity.
Qed.

Lemma pol_rg_fill i j : (i < nq)%nat -> (j < nr)%nat ->
  pol_fill F K E feq pi_ v nul pol rmin rmax (mq i, rj j) = SpOk (fv i j, (pol_modv F K (mq i) twopi, rj j)).
Proof.
  intros Hi Hj. destruct (Hr j Hj) as [_ Hin]. unfold pol_inside in Hin. apply negb_true_iff, orb_false_iff in Hin.
  destruct Hin as [I1 I2].
  rewrite (proj2 (proj2 (pol_fill_rule_spec F K E feq pi_ v nul pol rmin rmax (mq i) (rj j))) I1 I2).
  rewrite (pol_mod_modv F K _ _ Hpi). cbn [sp_bind]. rewrite (Hf i j Hi Hj). reflexivity.
Qed.

(** both Heun stages see the same drift: the foot is (theta - omega dt/B0 mod 2 pi, r) *)
Lemma pol_rg_enode i j : (i < nq)%nat -> (j < nr)%nat ->
  pol_expl_node F K E pi_ phi rmin rmax (dt / B0) (sp_half F K * (dt / B0)) (qi i) (rj j)
    (pol_at F K D1 i j) (pol_at F K D2 i j) = SpOk (mq i, rj j).
Proof.
  intros Hi Hj. rewrite Hz1, Hz2 by assumption. destruct (Hr j Hj) as [H0 _]. pose proof (pol_rg_r_ne0 j Hj) as Hn.
  unfold pol_expl_node, pol_d0. rewrite H0. cbn [sp_bind fst snd].
  replace (omega * rj j / rj j) with omega by (field; assumption).
  replace (0 / rj j) with 0 by (field; assumption).
  replace (rj j + 0 * (dt / B0)) with (rj j) by ring.
  rewrite (pol_mod_modv F K _ _ Hpi). cbn [sp_bind]. rewrite (pol_rg_dk i j Hi Hj). cbn [sp_bind fst snd].
  rewrite pol_rg_half. replace (rj j + (0 + 0) * (sp_half F K * (dt / B0))) with (rj j) by ring.
  rewrite (pol_mod_modv F K _ _ Hpi). reflexivity.
Qed.

(** rigid rotation, explicit scheme: f is evaluated at the rigidly rotated point *)
Theorem pol_rigid_expl :
  pol_step_expl F K E feq pi_ dt v B0 nul rPts qPts phi pol = SpOk pol_rigid_result.
Proof.
  unfold pol_step_expl. rewrite pol_rg_prelude. cbn [sp_bind].
  rewrite (pol_grid_mapM_ok F rPts qPts _ (fun i j => (mq i, rj j))) by (intros; apply pol_rg_enode; assumption).
  cbn [sp_bind]. apply pol_grid_mapM_ok. intros i j Hi Hj. unfold pol_at2.
  rewrite (pol_grid_nth (fun i j => (mq i, rj j))) by assumption. apply pol_rg_fill; assumption.
Qed.

Variable tol : F.
Hypothesis Htol : 0 <= tol.
Hypothesis Hpi0 : 0 <= pi_.

Lemma pol_rg_inode i j : (i < nq)%nat -> (j < nr)%nat ->
  pol_impl_node F K E pi_ phi rmin rmax (sp_half F K * (dt / B0)) (qi i) (rj j) (omega, 0)
    (qi i - omega * (dt / B0), rj j) = SpOk ((mq i, rj j), (0, 0)).
Proof.
  intros Hi Hj. unfold pol_impl_node. cbn [fst snd]. rewrite (pol_mod_modv F K _ _ Hpi). cbn [sp_bind].
  rewrite (pol_rg_dk i j Hi Hj). cbn [sp_bind fst snd].
  rewrite pol_rg_half. replace (rj j + (0 + 0) * (sp_half F K * (dt / B0))) with (rj j) by ring.
  rewrite (pol_mod_modv F K _ _ Hpi). cbn [sp_bind].
  destruct (Hr j Hj) as [_ Hin]. unfold pol_inside in Hin. apply negb_true_iff, orb_false_iff in Hin.
  destruct Hin as [I1 I2]. unfold pol_clip. rewrite I1, I2.
  unfold pol_qdiff. replace (mq i - mq i) with 0 by ring. replace (rj j - rj j) with 0 by ring.
  rewrite (pol_abs_0 F K HK). replace (pol_ltb F K pi_ 0) with false by (symmetry; apply (pol_ltb_false F K), Hpi0).
  reflexivity.
Qed.

(** rigid rotation, implicit scheme: the Euler foot is already the fixed point, the loop exits after
    its first sweep with norm 0 *)
Theorem pol_rigid_impl fuel :
  pol_step_impl F K E feq pi_ dt v B0 nul rPts qPts phi pol tol (S fuel) = PolRet (SpOk (pol_rigid_result, 1%nat)).
Proof.
  unfold pol_step_impl, pol_impl_start. rewrite pol_rg_prelude. cbn [sp_bind].
  rewrite (pol_grid_mapM_ok F rPts qPts _ (fun i j => ((omega, 0), (qi i - omega * (dt / B0), rj j)))).
  2:{ intros i j Hi Hj. rewrite Hz1, Hz2 by assumption. destruct (Hr j Hj) as [H0 _]. pose proof (pol_rg_r_ne0 j Hj) as Hn.
      unfold pol_impl_init, pol_d0. rewrite H0. cbn [sp_bind fst snd].
      replace (omega * rj j / rj j) with omega by (field; assumption).
      replace (0 / rj j) with 0 by (field; assumption).
      replace (rj j + 0 * (dt / B0)) with (rj j) by ring. reflexivity. }
  cbn [sp_bind pol_lift]. cbn [pol_impl_loop].
  set (G0 := map (fun i => map (fun j => ((omega, 0), (qi i - omega * (dt / B0), rj j))) (seq 0 nr)) (seq 0 nq)).
  assert (A1 : forall i j, (i < nq)%nat -> (j < nr)%nat -> pol_at2 F K (map (map fst) G0) i j = (omega, 0)).
  { intros i j Hi Hj. unfold pol_at2, G0. rewrite map_map.
    rewrite (pol_nth_map_seq _ [] nq i Hi). rewrite map_map. rewrite (pol_nth_map_seq _ (0, 0) nr j Hj). reflexivity. }
  assert (A2 : forall i j, (i < nq)%nat -> (j < nr)%nat ->
            pol_at2 F K (map (map snd) G0) i j = (qi i - omega * (dt / B0), rj j)).
  { intros i j Hi Hj. unfold pol_at2, G0. rewrite map_map.
    rewrite (pol_nth_map_seq _ [] nq i Hi). rewrite map_map. rewrite (pol_nth_map_seq _ (0, 0) nr j Hj). reflexivity. }
  unfold pol_impl_sweep.
  rewrite (pol_grid_mapM_ok F rPts qPts _ (fun i j => ((mq i, rj j), (0, 0)))).
  2:{ intros i j Hi Hj. rewrite A1, A2 by assumption. apply pol_rg_inode; assumption. }
  cbn [sp_bind].
  set (N := map (fun i => map (fun j => ((mq i, rj j), (0, 0))) (seq 0 nr)) (seq 0 nq)).
  assert (EN : pol_norm_of F K N = 0).
  { unfold pol_norm_of. apply (pol_norm_zero F K). intros nd Hin. apply in_concat in Hin. destruct Hin as [row [Hrow Hnd]].
    unfold N in Hrow. apply in_map_iff in Hrow. destruct Hrow as [i [<- _]].
    apply in_map_iff in Hnd. destruct Hnd as [j [<- _]]. reflexivity. }
  rewrite EN. replace (pol_ltb F K tol 0) with false by (symmetry; apply (pol_ltb_false F K), Htol).
  cbn [pol_lift].
  rewrite (pol_grid_mapM_ok F rPts qPts _ (fun i j => (fv i j, (pol_modv F K (mq i) twopi, rj j)))).
  - reflexivity.
  - intros i j Hi Hj. unfold pol_at2, N. rewrite map_map.
    rewrite (pol_nth_map_seq _ [] nq i Hi). rewrite map_map. rewrite (pol_nth_map_seq _ (0, 0) nr j Hj).
    cbn [fst]. apply pol_rg_fill; assumption.
Qed.
End Rigid.

(* ------------------------------------------------------------------------------------------ *)
(** * const_phi_id with its hypotheses discharged *)
Lemma pol_grid_ok_of_sound (E : pol_ev F) rPts qPts (s : pol_spl F) e1 e2 D : pol_ev_sound F K E ->
  pol_cross F E rPts qPts s e1 e2 = SpOk D -> pol_grid_ok F rPts qPts D = true.
Proof.
  intros Hev H. unfold pol_cross in H. destruct (Hev _ _ _ _ _ _ _ _ _ _ H) as [Hl Hn].
  unfold pol_grid_ok. apply andb_true_intro. split; [apply Nat.eqb_eq; exact Hl|].
  apply forallb_forall. intros row Hin. apply Nat.eqb_eq. destruct (In_nth _ _ [] Hin) as [i [Hi <-]].
  apply (proj1 (Hn i ltac:(lia))).
Qed.

Section ConstFull.
Variable cu : bool.
Variable feq : F -> F -> F.
Variable pi_ : F.
Variables (dt v B0 : F).
Variable nul : bool.
Variables (rPts qPts : list F).
Variables (phi pol : pol_spl F).
Variable c : F.
Notation E := (pol_dispatch F K cu).
Notation nq := (pol_nq F qPts).
Notation nr := (pol_nr F rPts).
Notation twopi := (pol_twopi F K pi_).
Notation rmin := (hd 0 rPts).
Notation rmax := (last rPts 0).
Notation qi i := (nth i qPts 0).
Notation rj j := (nth j rPts 0).

Hypothesis Htr : sp_trunc_ok F K.
Hypothesis HB : speqb K B0 0 = false.
Hypothesis Hpipos : 0 < pi_.
Hypothesis Hne : rPts <> [].
Hypothesis Hr : forall j, (j < nr)%nat -> speqb K (rj j) 0 = false /\ pol_inside F K rmin rmax (rj j) = true.
(** the theta nodes lie in [0, 2 pi) *)
Hypothesis Hq : forall i, (i < nq)%nat -> 0 <= qi i /\ qi i < twopi.
(** the potential is constant: all its spline coefficients are c; it can be evaluated at the nodes *)
Hypothesis Hconst : pol_const_coeffs (ps_c phi) c.
Variables (D1 D2 : list (list F)).
Hypothesis Hc1 : pol_cross F E rPts qPts phi 0%nat 1%nat = SpOk D1.
Hypothesis Hc2 : pol_cross F E rPts qPts phi 1%nat 0%nat = SpOk D2.
(** the spline of f interpolates f at the nodes *)
Variable fv : nat -> nat -> F.
Hypothesis Hf : forall i j, (i < nq)%nat -> (j < nr)%nat -> pol_scalar F E pol (qi i) (rj j) 0%nat 0%nat = SpOk (fv i j).

(** f unchanged, feet = nodes *)
Definition pol_nodes_result : list (list (F * (F * F))) :=
  map (fun i => map (fun j => (fv i j, (qi i, rj j))) (seq 0 nr)) (seq 0 nq).

Lemma pol_cf_twopi_pos : 0 < twopi.
Proof.
  unfold pol_twopi. destruct Hpipos as [Hp Hpn]. destruct (sp_two_pos F K HK) as [H2 H2n]. unfold sp_two in *. split.
  - apply (spl_mul_nonneg K HK); assumption.
  - intros E0. symmetry in E0. revert E0. apply (sp_mul_ne0 F K HK); intros E0; [apply H2n|apply Hpn]; symmetry; exact E0.
Qed.
Lemma pol_cf_twopi_eqb : speqb K twopi 0 = false.
Proof. destruct (sp_eqb_spec F K HK twopi 0) as [E0|]; [|reflexivity]. exfalso. apply (proj2 pol_cf_twopi_pos). symmetry. exact E0. Qed.
Lemma pol_cf_mq i : (i < nq)%nat -> pol_modv F K (qi i) twopi = qi i.
Proof. intros Hi. destruct (Hq i Hi). apply pol_modv_id; assumption. Qed.

Lemma pol_cf_zero (e1 e2 : nat) D : (e1 + e2 = 1)%nat -> pol_cross F E rPts qPts phi e1 e2 = SpOk D ->
  forall i j, (i < nq)%nat -> (j < nr)%nat ->
    pol_scalar F E phi (qi i) (rj j) e1 e2 = SpOk 0 /\ pol_at F K D i j = 0.
Proof.
  intros He H i j Hi Hj. unfold pol_cross in H.
  destruct (pol_dispatch_sound F K cu _ _ _ _ _ _ _ _ _ _ H) as [_ Hn].
  pose proof (proj2 (Hn i Hi) j Hj) as Hs. fold (pol_scalar F E phi (qi i) (rj j) e1 e2) in Hs.
  fold (pol_at F K D i j) in Hs.
  pose proof (pol_const_der_zero cu _ _ phi c e1 e2 _ Hconst He Hs) as E0. rewrite E0 in Hs. split; assumption.
Qed.

Lemma pol_cf_result_eq : pol_const_result F K pi_ rPts qPts fv = pol_nodes_result.
Proof.
  unfold pol_const_result, pol_nodes_result. apply map_ext_in. intros i Hi. apply in_seq in Hi.
  apply map_ext_in. intros j _. rewrite !pol_cf_mq by lia. reflexivity.
Qed.

Theorem pol_const_phi_id_expl_full :
  pol_step_expl F K E feq pi_ dt v B0 nul rPts qPts phi pol = SpOk pol_nodes_result.
Proof.
  rewrite <- pol_cf_result_eq.
  apply (pol_const_phi_id_expl F K HK E feq pi_ dt v B0 nul rPts qPts phi pol HB pol_cf_twopi_eqb Hne Hr D1 D2 Hc1 Hc2).
  - exact (pol_grid_ok_of_sound _ _ _ _ _ _ _ (pol_dispatch_sound F K cu) Hc1).
  - exact (pol_grid_ok_of_sound _ _ _ _ _ _ _ (pol_dispatch_sound F K cu) Hc2).
  - intros i j Hi Hj. exact (proj2 (pol_cf_zero 0 1 D1 eq_refl Hc1 i j Hi Hj)).
  - intros i j Hi Hj. exact (proj2 (pol_cf_zero 1 0 D2 eq_refl Hc2 i j Hi Hj)).
  - intros i j Hi Hj. rewrite pol_cf_mq by exact Hi.
    split; [exact (proj1 (pol_cf_zero 0 1 D1 eq_refl Hc1 i j Hi Hj))|exact (proj1 (pol_cf_zero 1 0 D2 eq_refl Hc2 i j Hi Hj))].
  - intros i j Hi Hj. rewrite !pol_cf_mq by exact Hi. apply Hf; assumption.
Qed.

Theorem pol_const_phi_id_impl_full tol fuel : 0 <= tol ->
  pol_step_impl F K E feq pi_ dt v B0 nul rPts qPts phi pol tol (S fuel) = PolRet (SpOk (pol_nodes_result, 1%nat)).
Proof.
  intros Htol. rewrite <- pol_cf_result_eq.
  apply (pol_const_phi_id_impl F K HK E feq pi_ dt v B0 nul rPts qPts phi pol HB pol_cf_twopi_eqb Hne Hr D1 D2 Hc1 Hc2).
  - exact (pol_grid_ok_of_sound _ _ _ _ _ _ _ (pol_dispatch_sound F K cu) Hc1).
  - exact (pol_grid_ok_of_sound _ _ _ _ _ _ _ (pol_dispatch_sound F K cu) Hc2).
  - intros i j Hi Hj. exact (proj2 (pol_cf_zero 0 1 D1 eq_refl Hc1 i j Hi Hj)).
  - intros i j Hi Hj. exact (proj2 (pol_cf_zero 1 0 D2 eq_refl Hc2 i j Hi Hj)).
  - intros i j Hi Hj. rewrite pol_cf_mq by exact Hi.
    split; [exact (proj1 (pol_cf_zero 0 1 D1 eq_refl Hc1 i j Hi Hj))|exact (proj1 (pol_cf_zero 1 0 D2 eq_refl Hc2 i j Hi Hj))].
  - intros i j Hi Hj. rewrite !pol_cf_mq by exact Hi. apply Hf; assumption.
  - exact Htol.
  - exact (proj1 Hpipos).
Qed.
End ConstFull.

(* ------------------------------------------------------------------------------------------ *)
(** * interpolate, then advect with a constant potential: the nodal values are unchanged
      (PoloidalAdvection.step = compute_interpolant + kernel) *)
Section InterpAdvect.
Variable cu : bool.
Variable feq : F -> F -> F.
Variable pi_ : F.
Variables (dt v B0 : F).
Variable nul : bool.
Variables (rPts qPts : list F).
Variable phi : pol_spl F.
Variable c : F.
Variables (kq : list F) (dq : nat) (kr : list F) (dr : nat).
Variables (fg w : list (list F)).           (* nodal values of f, coefficients of its interpolant *)
Notation E := (pol_dispatch F K cu).
Notation nq := (pol_nq F qPts).
Notation nr := (pol_nr F rPts).

Hypothesis Htr : sp_trunc_ok F K.
Hypothesis HB : speqb K B0 0 = false.
Hypothesis Hpipos : 0 < pi_.
Hypothesis Hne : rPts <> [].
Hypothesis Hr : forall j, (j < nr)%nat -> speqb K (nth j rPts 0) 0 = false /\
  pol_inside F K (hd 0 rPts) (last rPts 0) (nth j rPts 0) = true.
Hypothesis Hq : forall i, (i < nq)%nat -> 0 <= nth i qPts 0 /\ nth i qPts 0 < pol_twopi F K pi_.
Hypothesis Hconst : pol_const_coeffs (ps_c phi) c.
Variables (D1 D2 : list (list F)).
Hypothesis Hc1 : pol_cross F E rPts qPts phi 0%nat 1%nat = SpOk D1.
Hypothesis Hc2 : pol_cross F E rPts qPts phi 1%nat 0%nat = SpOk D2.
(** SplineInterpolator2D.compute_interpolant(f, self._spline): theta periodic, r clamped *)
Hypothesis Hint : ip_interp2d F K kq dq true qPts kr dr false rPts cu fg = SpOk w.
Hypothesis Hsq : ip_spans_in_range F K kq dq true cu qPts.
Hypothesis Hsr : ip_spans_in_range F K kr dr false cu rPts.
Hypothesis Hnq : nq = ip_nbasis F K kq dq true cu.
Hypothesis Hnr : nr = ip_nbasis F K kr dr false cu.

Definition pol_fgrid_result : list (list (F * (F * F))) :=
  map (fun i => map (fun j => (nth j (nth i fg []) 0, (nth i qPts 0, nth j rPts 0))) (seq 0 nr)) (seq 0 nq).

Lemma pol_ia_interp i j : (i < nq)%nat -> (j < nr)%nat ->
  pol_scalar F E (PolSpl kq dq kr dr w) (nth i qPts 0) (nth j rPts 0) 0%nat 0%nat = SpOk (nth j (nth i fg []) 0).
Proof.
  intros Hi Hj. rewrite Hnq in Hi. rewrite Hnr in Hj.
  pose proof (ip_interp2d_exact F K HK kq dq true qPts kr dr false rPts cu fg w Hint Hsq Hsr i j Hi Hj) as H.
  unfold ip_eval2d in H. unfold pol_scalar. cbn [ps_k1 ps_d1 ps_k2 ps_d2 ps_c].
  destruct cu; exact H.
Qed.

Theorem pol_interp_advect_const_expl :
  pol_step_expl F K E feq pi_ dt v B0 nul rPts qPts phi (PolSpl kq dq kr dr w) = SpOk pol_fgrid_result.
Proof.
  exact (pol_const_phi_id_expl_full cu feq pi_ dt v B0 nul rPts qPts phi (PolSpl kq dq kr dr w) c Htr HB Hpipos Hne Hr Hq
           Hconst D1 D2 Hc1 Hc2 (fun i j => nth j (nth i fg []) 0) pol_ia_interp).
Qed.

Theorem pol_interp_advect_const_impl tol fuel : 0 <= tol ->
  pol_step_impl F K E feq pi_ dt v B0 nul rPts qPts phi (PolSpl kq dq kr dr w) tol (S fuel)
  = PolRet (SpOk (pol_fgrid_result, 1%nat)).
Proof.
  exact (pol_const_phi_id_impl_full cu feq pi_ dt v B0 nul rPts qPts phi (PolSpl kq dq kr dr w) c Htr HB Hpipos Hne Hr Hq
           Hconst D1 D2 Hc1 Hc2 (fun i j => nth j (nth i fg []) 0) pol_ia_interp tol fuel).
Qed.
End InterpAdvect.

End PolConst.
