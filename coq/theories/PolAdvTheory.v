(** Theorems about the poloidal advection model (PolAdvModel.v). *)
From Coq Require Import List Arith Lia ZArith Bool Field Ring Setoid.
Import ListNotations.
From PGV Require Import Sums SplineModel SplineTheory PolAdvModel.

(* ------------------------------------------------------------------------------------------ *)
(** * the error monad: inversion lemmas *)
Lemma pol_bind_inv {A B : Type} (r : sp_res A) (f : A -> sp_res B) b :
  sp_bind r f = SpOk b -> exists a, r = SpOk a /\ f a = SpOk b.
Proof. destruct r as [a| | | |]; cbn [sp_bind]; intros H; try discriminate. exists a. split; [reflexivity|exact H]. Qed.

Lemma pol_mapM_inv {A B : Type} (f : A -> sp_res B) (da : A) (db : B) : forall l bs,
  sp_mapM f l = SpOk bs ->
  length bs = length l /\ forall i, (i < length l)%nat -> f (nth i l da) = SpOk (nth i bs db).
Proof.
  induction l as [|a l IH]; intros bs H; cbn [sp_mapM] in H.
  - injection H as <-. split; [reflexivity|]. cbn [length]. intros i Hi. lia.
  - apply pol_bind_inv in H. destruct H as [b [Hb H]]. apply pol_bind_inv in H. destruct H as [bs' [Hbs H]].
    injection H as <-. destruct (IH bs' Hbs) as [Hl Hn]. split; [cbn [length]; lia|].
    intros i Hi. destruct i as [|i]; cbn [nth]; [exact Hb|]. apply Hn. cbn [length] in Hi. lia.
Qed.

Lemma pol_mapM_seq_ok {B : Type} (g : nat -> sp_res B) (h : nat -> B) : forall n a,
  (forall i, (a <= i < a + n)%nat -> g i = SpOk (h i)) -> sp_mapM g (seq a n) = SpOk (map h (seq a n)).
Proof. intros n a H. apply sp_mapM_ok. intros i Hi. apply in_seq in Hi. apply H. lia. Qed.

Lemma pol_nth_map' {A B : Type} (f : A -> B) l i da db : (i < length l)%nat -> nth i (map f l) db = f (nth i l da).
Proof. intros H. rewrite (nth_indep _ db (f da)) by (rewrite map_length; exact H). apply map_nth. Qed.

Section PolTheory.
Variable F : Type.
Variable K : sp_ops F.
Notation "x + y" := (spadd K x y). Notation "x * y" := (spmul K x y).
Notation "x - y" := (spsub K x y). Notation "x / y" := (spdiv K x y).
Notation "0" := (sp0 K). Notation "1" := (sp1 K).
Notation "x <= y" := (sp_le K x y). Notation "x < y" := (sp_lt K x y).

(** what the kernels need of the pair (cross, scalar): a successful cross evaluation is the table
    of the scalar evaluations ("entry points agree") *)
Definition pol_ev_sound (E : pol_ev F) : Prop :=
  forall X Y k1 d1 k2 d2 c e1 e2 G, pe_cross E X Y k1 d1 k2 d2 c e1 e2 = SpOk G ->
    length G = length X /\
    forall i, (i < length X)%nat -> length (nth i G []) = length Y /\
      forall j, (j < length Y)%nat ->
        pe_scalar E (nth i X 0) (nth j Y 0) k1 d1 k2 d2 c e1 e2 = SpOk (nth j (nth i G []) 0).

Theorem pol_nu_ev_sound : pol_ev_sound (pol_nu_ev F K).
Proof.
  intros X Y k1 d1 k2 d2 c e1 e2 G H. cbn [pol_nu_ev pe_cross pe_scalar] in *.
  assert (H' : sp_mapM (fun x =>
      sp_bind (sp_nu_find_span F K k1 d1 x) (fun span1 =>
      sp_bind (sp_nu_basis_sel F K e1 k1 d1 x span1) (fun basis1 =>
      sp_mapM (fun y =>
        sp_bind (sp_nu_find_span F K k2 d2 y) (fun span2 =>
        sp_bind (sp_nu_basis_sel F K e2 k2 d2 y span2) (fun basis2 =>
        sp_tensor_checked F K c span1 d1 span2 d2 basis1 basis2))) Y))) X = SpOk G).
  { unfold sp_nu_eval_2d_cross in H.
    destruct e1 as [|[|e1]]; destruct e2 as [|[|e2]]; try discriminate H; exact H. }
  clear H. destruct (pol_mapM_inv _ 0 [] X G H') as [Hl Hn]. split; [exact Hl|].
  intros i Hi. specialize (Hn i Hi).
  apply pol_bind_inv in Hn. destruct Hn as [s1 [Hs1 Hn]].
  apply pol_bind_inv in Hn. destruct Hn as [b1 [Hb1 Hn]].
  destruct (pol_mapM_inv _ 0 0 Y _ Hn) as [Hl2 Hn2]. split; [exact Hl2|].
  intros j Hj. specialize (Hn2 j Hj).
  apply pol_bind_inv in Hn2. destruct Hn2 as [s2 [Hs2 Hn2]].
  apply pol_bind_inv in Hn2. destruct Hn2 as [b2 [Hb2 Hn2]].
  unfold sp_nu_eval_2d_scalar. rewrite Hs1, Hs2. cbn [sp_bind]. rewrite Hb1, Hb2. cbn [sp_bind]. exact Hn2.
Qed.

Theorem pol_cu_ev_sound : pol_ev_sound (pol_cu_ev F K).
Proof.
  intros X Y k1 d1 k2 d2 c e1 e2 G H. cbn [pol_cu_ev pe_cross pe_scalar] in *.
  unfold sp_cu_eval_2d_cross in H.
  apply pol_bind_inv in H. destruct H as [[[[xmin xmax] dx] ncx] [U1 H]].
  apply pol_bind_inv in H. destruct H as [[[[ymin ymax] dy] ncy] [U2 H]].
  assert (H' : sp_mapM (fun x =>
      sp_bind (sp_cu_find_span F K xmin xmax dx x ncx) (fun so1 =>
      sp_bind (sp_cu_basis_sel F K e1 (snd so1) dx) (fun basis1 =>
      sp_mapM (fun y =>
        sp_bind (sp_cu_find_span F K ymin ymax dy y ncy) (fun so2 =>
        sp_bind (sp_cu_basis_sel F K e2 (snd so2) dy) (fun basis2 =>
        sp_cu_tensor F K c (fst so1) d1 (fst so2) d2 basis1 basis2))) Y))) X = SpOk G).
  { destruct e1 as [|[|e1]]; destruct e2 as [|[|e2]]; try discriminate H; exact H. }
  clear H. destruct (pol_mapM_inv _ 0 [] X G H') as [Hl Hn]. split; [exact Hl|].
  intros i Hi. specialize (Hn i Hi).
  apply pol_bind_inv in Hn. destruct Hn as [s1 [Hs1 Hn]].
  apply pol_bind_inv in Hn. destruct Hn as [b1 [Hb1 Hn]].
  destruct (pol_mapM_inv _ 0 0 Y _ Hn) as [Hl2 Hn2]. split; [exact Hl2|].
  intros j Hj. specialize (Hn2 j Hj).
  apply pol_bind_inv in Hn2. destruct Hn2 as [s2 [Hs2 Hn2]].
  apply pol_bind_inv in Hn2. destruct Hn2 as [b2 [Hb2 Hn2]].
  unfold sp_cu_eval_2d_scalar. rewrite U1, U2. cbn [sp_bind]. rewrite Hs1, Hs2. cbn [sp_bind].
  rewrite Hb1, Hb2. cbn [sp_bind]. exact Hn2.
Qed.

Theorem pol_dispatch_sound cu : pol_ev_sound (pol_dispatch F K cu).
Proof. destruct cu; [apply pol_cu_ev_sound|apply pol_nu_ev_sound]. Qed.

(* ------------------------------------------------------------------------------------------ *)
(** * the kernels, node by node *)
Variable E : pol_ev F.
Variable feq : F -> F -> F.
Variable pi_ : F.
Variables (dt v B0 : F).
Variable nul : bool.
Variables (rPts qPts : list F).
Variables (phi pol : pol_spl F).
Notation nq := (pol_nq F qPts).
Notation nr := (pol_nr F rPts).
Notation scalar := (pol_scalar F E).
Notation twopi := (pol_twopi F K pi_).
Notation gmapM := (pol_grid_mapM F rPts qPts).
Notation fill := (pol_fill F K E feq pi_ v nul pol).
Notation enode := (pol_expl_node F K E pi_ phi).
Notation inode := (pol_impl_node F K E pi_ phi).

Lemma pol_grid_mapM_inv {B : Type} (g : nat -> nat -> sp_res B) (d : B) G :
  gmapM g = SpOk G ->
  length G = nq /\ forall i, (i < nq)%nat -> length (nth i G []) = nr /\
    forall j, (j < nr)%nat -> g i j = SpOk (nth j (nth i G []) d).
Proof.
  unfold pol_grid_mapM. intros H.
  destruct (pol_mapM_inv _ 0%nat [] _ _ H) as [Hl Hn]. rewrite seq_length in Hl, Hn. split; [exact Hl|].
  intros i Hi. specialize (Hn i Hi). rewrite seq_nth in Hn by exact Hi. cbn [Nat.add] in Hn.
  destruct (pol_mapM_inv _ 0%nat d _ _ Hn) as [Hl2 Hn2]. rewrite seq_length in Hl2, Hn2. split; [exact Hl2|].
  intros j Hj. specialize (Hn2 j Hj). rewrite seq_nth in Hn2 by exact Hj. exact Hn2.
Qed.

Lemma pol_grid_mapM_ok {B : Type} (g : nat -> nat -> sp_res B) (h : nat -> nat -> B) :
  (forall i j, (i < nq)%nat -> (j < nr)%nat -> g i j = SpOk (h i j)) ->
  gmapM g = SpOk (map (fun i => map (fun j => h i j) (seq 0 nr)) (seq 0 nq)).
Proof.
  intros H. unfold pol_grid_mapM. apply pol_mapM_seq_ok. intros i Hi.
  apply pol_mapM_seq_ok. intros j Hj. apply H; lia.
Qed.

Lemma pol_grid_ok_inv G : pol_grid_ok F rPts qPts G = true ->
  length G = nq /\ forall i, (i < nq)%nat -> length (nth i G []) = nr.
Proof.
  unfold pol_grid_ok. intros H. apply andb_prop in H. destruct H as [H1 H2].
  apply Nat.eqb_eq in H1. split; [exact H1|]. intros i Hi.
  rewrite forallb_forall in H2. apply Nat.eqb_eq. apply H2. apply nth_In. lia.
Qed.

(** the prelude, inverted: both derivative tables are tables of scalar evaluations at the nodes *)
Lemma pol_prelude_inv (Hev : pol_ev_sound E) mf D0r D0q rmin rmax :
  pol_prelude F K E dt B0 rPts qPts phi = SpOk (mf, D0r, D0q, rmin, rmax) ->
  speqb K B0 0 = false /\ mf = dt / B0 /\ rmin = hd 0 rPts /\ rmax = last rPts 0 /\ rPts <> [] /\
  forall i j, (i < nq)%nat -> (j < nr)%nat ->
    scalar phi (nth i qPts 0) (nth j rPts 0) 0%nat 1%nat = SpOk (pol_at F K D0r i j) /\
    scalar phi (nth i qPts 0) (nth j rPts 0) 1%nat 0%nat = SpOk (pol_at F K D0q i j).
Proof.
  unfold pol_prelude. intros H.
  destruct (speqb K B0 0) eqn:EB; [discriminate|].
  apply pol_bind_inv in H. destruct H as [A [HA H]]. apply pol_bind_inv in H. destruct H as [B [HB H]].
  destruct rPts as [|r0 rs] eqn:ER; [discriminate|]. rewrite <- ER in *.
  destruct (pol_grid_ok F rPts qPts A && pol_grid_ok F rPts qPts B); [|discriminate].
  injection H as <- <- <- <- <-.
  split; [reflexivity|].
  split; [reflexivity|]. split; [rewrite ER; reflexivity|]. split; [reflexivity|]. split; [rewrite ER; discriminate|].
  intros i j Hi Hj. unfold pol_cross in HA, HB.
  destruct (Hev _ _ _ _ _ _ _ _ _ _ HA) as [_ HA']. destruct (Hev _ _ _ _ _ _ _ _ _ _ HB) as [_ HB'].
  split; [apply (proj2 (HA' i Hi) j Hj)|apply (proj2 (HB' i Hi) j Hj)].
Qed.
(* ------------------------------------------------------------------------------------------ *)
(** * explicit scheme: which foot is used and which value is written *)

(** the mathematical description at one point (q, r): derivatives of the potential at the point,
    Heun foot, fill rule / interpolation at the foot.  Only the scalar evaluator appears. *)
Definition pol_expl_point (q r : F) : sp_res (F * (F * F)) :=
  let rmin := hd 0 rPts in let rmax := last rPts 0 in
  let mf := dt / B0 in
  sp_bind (scalar phi q r 0%nat 1%nat) (fun a =>
  sp_bind (scalar phi q r 1%nat 0%nat) (fun b =>
  sp_bind (enode rmin rmax mf (sp_half F K * mf) q r a b) (fill rmin rmax))).

(** expl_formula: whenever the kernel succeeds, every node holds the value of the pointwise
    description at that node (new f, final foot) *)
Theorem pol_expl_formula_thm (Hev : pol_ev_sound E) res :
  pol_step_expl F K E feq pi_ dt v B0 nul rPts qPts phi pol = SpOk res ->
  length res = nq /\ forall i, (i < nq)%nat -> length (nth i res []) = nr /\ forall j, (j < nr)%nat ->
    pol_expl_point (nth i qPts 0) (nth j rPts 0) = SpOk (nth j (nth i res []) (0, (0, 0))).
Proof.
  unfold pol_step_expl. intros H.
  apply pol_bind_inv in H. destruct H as [[[[[mf D0r] D0q] rmin] rmax] [Hp H]].
  destruct (pol_prelude_inv Hev _ _ _ _ _ Hp) as [_ [Emf [Ermin [Ermax [_ Hsc]]]]].
  apply pol_bind_inv in H. destruct H as [feet [Hf H]].
  destruct (pol_grid_mapM_inv _ (0, 0) _ Hf) as [_ Hfn].
  destruct (pol_grid_mapM_inv _ (0, (0, 0)) _ H) as [Hl Hn]. split; [exact Hl|].
  intros i Hi. destruct (Hn i Hi) as [Hl2 Hn2]. split; [exact Hl2|]. intros j Hj.
  unfold pol_expl_point. destruct (Hsc i j Hi Hj) as [Ha Hb]. rewrite Ha, Hb. cbn [sp_bind].
  rewrite <- Ermin, <- Ermax, <- Emf. rewrite (proj2 (Hfn i Hi) j Hj). cbn [sp_bind].
  fold (pol_at2 F K feet i j). apply Hn2, Hj.
Qed.

(** the node function spelled out: predictor, test, corrector *)
Theorem pol_expl_node_inside rmin rmax mf mfh q r a b q1 a1 b1 :
  speqb K r 0 = false -> pol_mod F K (q - a / r * mf) twopi = SpOk q1 ->
  pol_inside F K rmin rmax (r + b / r * mf) = true -> speqb K (r + b / r * mf) 0 = false ->
  scalar phi q1 (r + b / r * mf) 0%nat 1%nat = SpOk a1 -> scalar phi q1 (r + b / r * mf) 1%nat 0%nat = SpOk b1 ->
  enode rmin rmax mf mfh q r a b =
    sp_bind (pol_mod F K (q - (a / r + a1 / (r + b / r * mf)) * mfh) twopi) (fun q2 =>
    SpOk (q2, r + (b / r + b1 / (r + b / r * mf)) * mfh)).
Proof.
  intros Hr Hq1 Hin Hr1 Ha1 Hb1. unfold pol_expl_node, pol_d0. rewrite Hr. cbn [sp_bind fst snd].
  rewrite Hq1. cbn [sp_bind]. unfold pol_dk. rewrite Hin. unfold pol_scalar in *. rewrite Ha1. cbn [sp_bind].
  rewrite Hr1, Hb1. cbn [sp_bind fst snd]. reflexivity.
Qed.

Theorem pol_expl_node_outside rmin rmax mf mfh q r a b q1 :
  speqb K r 0 = false -> pol_mod F K (q - a / r * mf) twopi = SpOk q1 ->
  pol_inside F K rmin rmax (r + b / r * mf) = false ->
  enode rmin rmax mf mfh q r a b =
    sp_bind (pol_mod F K (q - (a / r + 0) * mfh) twopi) (fun q2 => SpOk (q2, r + (b / r + 0) * mfh)).
Proof.
  intros Hr Hq1 Hin. unfold pol_expl_node, pol_d0. rewrite Hr. cbn [sp_bind fst snd].
  rewrite Hq1. cbn [sp_bind]. unfold pol_dk. rewrite Hin. cbn [sp_bind fst snd]. reflexivity.
Qed.

(** fill_rule_spec *)
Theorem pol_fill_rule_spec rmin rmax kq kr :
  (pol_ltb F K kr rmin = true -> fill rmin rmax (kq, kr) = SpOk ((if nul then 0 else feq rmin v), (kq, kr))) /\
  (pol_ltb F K kr rmin = false -> pol_ltb F K rmax kr = true ->
     fill rmin rmax (kq, kr) = SpOk ((if nul then 0 else feq kr v), (kq, kr))) /\
  (pol_ltb F K kr rmin = false -> pol_ltb F K rmax kr = false ->
     fill rmin rmax (kq, kr) =
       sp_bind (pol_mod F K kq twopi) (fun q' =>
       sp_bind (scalar pol q' kr 0%nat 0%nat) (fun val => SpOk (val, (q', kr))))).
Proof.
  unfold pol_fill. cbn [fst snd]. repeat split.
  - intros ->. reflexivity.
  - intros -> ->. reflexivity.
  - intros -> ->. reflexivity.
Qed.

(* ------------------------------------------------------------------------------------------ *)
(** * implicit scheme *)
Variable tol : F.
Notation sweep := (pol_impl_sweep F K E pi_ rPts qPts phi).
Notation loop := (pol_impl_loop F K E pi_ rPts qPts phi tol).

(** whenever the fuelled loop returns a value, it is the image of some iterate under one more
    sweep, the norm of that sweep is not above tol, and at least one sweep was made *)
Theorem pol_impl_loop_returns fuel rmin rmax mfh D0 : forall st0 done st norm n,
  loop fuel rmin rmax mfh D0 st0 done = PolRet (SpOk (st, norm, n)) ->
  exists prev, sweep rmin rmax mfh D0 prev = SpOk (st, norm) /\ pol_ltb F K tol norm = false /\ (done < n <= done + fuel)%nat.
Proof.
  induction fuel as [|fuel IH]; intros st0 done st norm n H; cbn [pol_impl_loop] in H; [discriminate|].
  destruct (sweep rmin rmax mfh D0 st0) as [[st' norm']| | | |] eqn:ES; try discriminate.
  destruct (pol_ltb F K tol norm') eqn:ET.
  - destruct (IH _ _ _ _ _ H) as [prev [H1 [H2 H3]]]. exists prev. repeat split; try assumption; lia.
  - injection H as <- <- <-. exists st0. repeat split; try assumption; lia.
Qed.

(** out of fuel only if every sweep made so far ended with norm > tol *)
Theorem pol_impl_loop_outoffuel_mono fuel rmin rmax mfh D0 : forall st0 done,
  loop (S fuel) rmin rmax mfh D0 st0 done = PolOutOfFuel -> loop fuel rmin rmax mfh D0 st0 done = PolOutOfFuel.
Proof.
  induction fuel as [|fuel IH]; intros st0 done H; [reflexivity|].
  cbn [pol_impl_loop] in H |- *.
  destruct (sweep rmin rmax mfh D0 st0) as [[st' norm']| | | |]; try discriminate.
  destruct (pol_ltb F K tol norm'); [|discriminate]. apply IH, H.
Qed.

(** one sweep, node by node: the new foot of node (i,j) is the node function applied to the old
    foot of the same node (nodes do not interact), and the norm is the running maximum *)
Theorem pol_impl_sweep_nodes rmin rmax mfh D0 prev st norm :
  sweep rmin rmax mfh D0 prev = SpOk (st, norm) ->
  exists nodes, st = map (map fst) nodes /\ norm = pol_norm_of F K nodes /\
    length nodes = nq /\ forall i, (i < nq)%nat -> length (nth i nodes []) = nr /\ forall j, (j < nr)%nat ->
      inode rmin rmax mfh (nth i qPts 0) (nth j rPts 0) (pol_at2 F K D0 i j) (pol_at2 F K prev i j)
      = SpOk (nth j (nth i nodes []) ((0, 0), (0, 0))).
Proof.
  unfold pol_impl_sweep. intros H. apply pol_bind_inv in H. destruct H as [nodes [Hn H]].
  injection H as <- <-. exists nodes. split; [reflexivity|]. split; [reflexivity|].
  exact (pol_grid_mapM_inv _ ((0, 0), (0, 0)) _ Hn).
Qed.

(** the node function of a sweep, spelled out *)
Theorem pol_impl_node_spec rmin rmax mfh q r d0 k1 k1q dk k2q :
  pol_mod F K (fst k1) twopi = SpOk k1q ->
  pol_dk F K E phi rmin rmax k1q (snd k1) = SpOk dk ->
  pol_mod F K (q - (fst d0 + fst dk) * mfh) twopi = SpOk k2q ->
  inode rmin rmax mfh q r d0 k1 =
    SpOk ((k2q, pol_clip F K rmin rmax (r + (snd d0 + snd dk) * mfh)),
          (pol_qdiff F K pi_ k2q k1q, pol_abs F K (pol_clip F K rmin rmax (r + (snd d0 + snd dk) * mfh) - snd k1))).
Proof. intros H1 H2 H3. unfold pol_impl_node. rewrite H1. cbn [sp_bind]. rewrite H2. cbn [sp_bind]. rewrite H3. reflexivity. Qed.

(** the implicit kernel, inverted: start state, loop, final evaluation *)
Theorem pol_step_impl_returns fuel out n :
  pol_step_impl F K E feq pi_ dt v B0 nul rPts qPts phi pol tol fuel = PolRet (SpOk (out, n)) ->
  exists rmin rmax mfh D0 st0 st norm,
    pol_impl_start F K E dt B0 rPts qPts phi = SpOk (rmin, rmax, mfh, D0, st0) /\
    loop fuel rmin rmax mfh D0 st0 0%nat = PolRet (SpOk (st, norm, n)) /\
    gmapM (fun i j => fill rmin rmax (pol_at2 F K st i j)) = SpOk out.
Proof.
  unfold pol_step_impl. intros H.
  destruct (pol_impl_start F K E dt B0 rPts qPts phi) as [[[[[rmin rmax] mfh] D0] st0]| | | |]; cbn [pol_lift] in H; try discriminate.
  destruct (loop fuel rmin rmax mfh D0 st0 0%nat) as [r|] eqn:EL; [|discriminate].
  destruct r as [[[st norm] sweeps]| | | |]; cbn [pol_lift] in H; try discriminate.
  destruct (gmapM (fun i j => fill rmin rmax (pol_at2 F K st i j))) as [o| | | |] eqn:EG; cbn [pol_lift] in H; try discriminate.
  injection H as <- <-. exists rmin, rmax, mfh, D0, st0, st, norm. repeat split; assumption.
Qed.

(** the state with which the loop is entered: divided derivatives of the potential at the nodes
    and the explicit Euler feet *)
Theorem pol_impl_start_inv (Hev : pol_ev_sound E) rmin rmax mfh D0 st0 :
  pol_impl_start F K E dt B0 rPts qPts phi = SpOk (rmin, rmax, mfh, D0, st0) ->
  rmin = hd 0 rPts /\ rmax = last rPts 0 /\ mfh = sp_half F K * (dt / B0) /\
  forall i j, (i < nq)%nat -> (j < nr)%nat -> exists a b,
    scalar phi (nth i qPts 0) (nth j rPts 0) 0%nat 1%nat = SpOk a /\
    scalar phi (nth i qPts 0) (nth j rPts 0) 1%nat 0%nat = SpOk b /\
    speqb K (nth j rPts 0) 0 = false /\
    pol_at2 F K D0 i j = (a / nth j rPts 0, b / nth j rPts 0) /\
    pol_at2 F K st0 i j = (nth i qPts 0 - a / nth j rPts 0 * (dt / B0), nth j rPts 0 + b / nth j rPts 0 * (dt / B0)).
Proof.
  unfold pol_impl_start. intros H.
  apply pol_bind_inv in H. destruct H as [[[[[mf D0r] D0q] rmin'] rmax'] [Hp H]].
  destruct (pol_prelude_inv Hev _ _ _ _ _ Hp) as [_ [Emf [Ermin [Ermax [_ Hsc]]]]].
  apply pol_bind_inv in H. destruct H as [ini [Hi H]]. injection H as <- <- <- <- <-.
  split; [exact Ermin|]. split; [exact Ermax|]. split; [rewrite Emf; reflexivity|].
  destruct (pol_grid_mapM_inv _ ((0, 0), (0, 0)) _ Hi) as [Hl Hn].
  intros i j Hi' Hj. destruct (Hsc i j Hi' Hj) as [Ha Hb].
  exists (pol_at F K D0r i j), (pol_at F K D0q i j). split; [exact Ha|]. split; [exact Hb|].
  destruct (Hn i Hi') as [Hl2 Hn2]. specialize (Hn2 j Hj). unfold pol_impl_init, pol_d0 in Hn2.
  destruct (speqb K (nth j rPts 0) 0) eqn:Er; [discriminate|]. cbn [sp_bind fst snd] in Hn2.
  split; [reflexivity|]. injection Hn2 as Hn2. unfold pol_at2.
  rewrite (pol_nth_map' (map fst) ini i [] []) by lia.
  rewrite (pol_nth_map' fst (nth i ini []) j ((0, 0), (0, 0)) (0, 0)) by lia.
  rewrite (pol_nth_map' (map snd) ini i [] []) by lia.
  rewrite (pol_nth_map' snd (nth i ini []) j ((0, 0), (0, 0)) (0, 0)) by lia.
  rewrite <- Hn2, Emf. split; reflexivity.
Qed.

(** a 2-cycle of the sweep with norm > tol at both points never leaves the loop *)
Theorem pol_impl_loop_cycle rmin rmax mfh D0 sA sB nA nB :
  sweep rmin rmax mfh D0 sA = SpOk (sB, nA) -> sweep rmin rmax mfh D0 sB = SpOk (sA, nB) ->
  pol_ltb F K tol nA = true -> pol_ltb F K tol nB = true ->
  forall fuel done, loop fuel rmin rmax mfh D0 sA done = PolOutOfFuel /\ loop fuel rmin rmax mfh D0 sB done = PolOutOfFuel.
Proof.
  intros HA HB TA TB. induction fuel as [|fuel IH]; intros done; [split; reflexivity|].
  cbn [pol_impl_loop]. rewrite HA, HB, TA, TB. split; apply IH.
Qed.

End PolTheory.

(* ------------------------------------------------------------------------------------------ *)
(** * facts that need the order laws of the field *)
Section PolLaws.
Variable F : Type.
Variable K : sp_ops F.
Hypothesis HK : sp_laws K.
Add Field PolF : (spl_field K HK).
Notation "x + y" := (spadd K x y). Notation "x * y" := (spmul K x y).
Notation "x - y" := (spsub K x y). Notation "x / y" := (spdiv K x y).
Notation "0" := (sp0 K). Notation "1" := (sp1 K).
Notation "x <= y" := (sp_le K x y). Notation "x < y" := (sp_lt K x y).
Notation le_refl := (sp_le_refl F K HK).
Notation le_trans := (spl_le_trans K HK).

Lemma pol_ltb_false a b : pol_ltb F K a b = false <-> b <= a.
Proof. unfold pol_ltb, sp_le. destruct (spleb K b a); cbn; split; congruence. Qed.
Lemma pol_ltb_true a b : pol_ltb F K a b = true -> a < b.
Proof.
  unfold pol_ltb. intros H. apply negb_true_iff in H. split.
  - destruct (spl_le_total K HK a b) as [H1|H1]; [exact H1|]. unfold sp_le in H1. congruence.
  - intros ->. pose proof (le_refl b) as H1. unfold sp_le in H1. congruence.
Qed.
Lemma pol_lt_ltb a b : a < b -> pol_ltb F K a b = true.
Proof.
  intros [H Hne]. destruct (pol_ltb F K a b) eqn:E; [reflexivity|]. apply pol_ltb_false in E.
  exfalso. apply Hne. apply (spl_le_antisym K HK); assumption.
Qed.

(** clipping puts r into [rmin, rmax] *)
Lemma pol_clip_range rmin rmax x : rmin <= rmax ->
  pol_ltb F K (pol_clip F K rmin rmax x) rmin = false /\ pol_ltb F K rmax (pol_clip F K rmin rmax x) = false.
Proof.
  intros H. unfold pol_clip. destruct (pol_ltb F K x rmin) eqn:E1.
  - split; apply pol_ltb_false; [apply le_refl|exact H].
  - destruct (pol_ltb F K rmax x) eqn:E2.
    + split; apply pol_ltb_false; [exact H|apply le_refl].
    + split; assumption.
Qed.

(** in the implicit scheme the two fill branches are unreachable: the foot handed to the final
    loop has been clipped, so the value written is always the interpolant at the (clipped) foot *)
Theorem pol_impl_fill_unreachable_thm (E : pol_ev F) feq pi_ v nul pol rmin rmax kq x : rmin <= rmax ->
  pol_fill F K E feq pi_ v nul pol rmin rmax (kq, pol_clip F K rmin rmax x) =
    sp_bind (pol_mod F K kq (pol_twopi F K pi_)) (fun q' =>
    sp_bind (pol_scalar F E pol q' (pol_clip F K rmin rmax x) 0%nat 0%nat) (fun val =>
    SpOk (val, (q', pol_clip F K rmin rmax x)))).
Proof.
  intros H. destruct (pol_clip_range rmin rmax x H) as [H1 H2].
  apply (pol_fill_rule_spec F K E feq pi_ v nul pol); assumption.
Qed.

(** the norm of a sweep dominates the two differences of every node *)
Lemma pol_upd_ge n d : n <= pol_upd F K n d /\ d <= pol_upd F K n d.
Proof.
  unfold pol_upd. destruct (pol_ltb F K n d) eqn:E.
  - split; [apply pol_ltb_true in E; exact (proj1 E)|apply le_refl].
  - split; [apply le_refl|apply pol_ltb_false, E].
Qed.
Lemma pol_fold_upd_ge (l : list ((F * F) * (F * F))) : forall n0,
  let r := fold_left (fun n nd => pol_upd F K (pol_upd F K n (fst (snd nd))) (snd (snd nd))) l n0 in
  n0 <= r /\ forall nd, In nd l -> fst (snd nd) <= r /\ snd (snd nd) <= r.
Proof.
  induction l as [|a l IH]; intros n0; cbn [fold_left].
  - split; [apply le_refl|]. intros nd [].
  - destruct (IH (pol_upd F K (pol_upd F K n0 (fst (snd a))) (snd (snd a)))) as [H1 H2].
    destruct (pol_upd_ge n0 (fst (snd a))) as [U1 U2].
    destruct (pol_upd_ge (pol_upd F K n0 (fst (snd a))) (snd (snd a))) as [U3 U4].
    split; [apply le_trans with (pol_upd F K n0 (fst (snd a))); [exact U1|apply le_trans with (1 := U3), H1]|].
    intros nd [<-|Hin]; [|apply H2, Hin]. split.
    + apply le_trans with (1 := U2). apply le_trans with (1 := U3), H1.
    + apply le_trans with (1 := U4), H1.
Qed.
Theorem pol_norm_bounds (nodes : list (list ((F * F) * (F * F)))) i j :
  (i < length nodes)%nat -> (j < length (nth i nodes []))%nat ->
  let nd := nth j (nth i nodes []) ((0, 0), (0, 0)) in
  fst (snd nd) <= pol_norm_of F K nodes /\ snd (snd nd) <= pol_norm_of F K nodes.
Proof.
  intros Hi Hj. cbv zeta. unfold pol_norm_of.
  apply (proj2 (pol_fold_upd_ge (concat nodes) 0)). apply in_concat.
  exists (nth i nodes []). split; apply nth_In; assumption.
Qed.

(** impl_result_is_fixed_point_within_tol: whenever the fuelled loop returns a value, the value is
    one sweep applied to the previous iterate, and every node moved by at most tol, in theta (with
    the 2 pi wrap) and in r *)
Theorem pol_impl_fixed_point_within_tol (E : pol_ev F) pi_ rPts qPts phi tol fuel rmin rmax mfh D0 st0 done st norm n :
  pol_impl_loop F K E pi_ rPts qPts phi tol fuel rmin rmax mfh D0 st0 done = PolRet (SpOk (st, norm, n)) ->
  exists prev nodes, pol_impl_sweep F K E pi_ rPts qPts phi rmin rmax mfh D0 prev = SpOk (st, norm) /\
    st = map (map fst) nodes /\ norm <= tol /\
    forall i j, (i < pol_nq F qPts)%nat -> (j < pol_nr F rPts)%nat ->
      pol_impl_node F K E pi_ phi rmin rmax mfh (nth i qPts 0) (nth j rPts 0) (pol_at2 F K D0 i j) (pol_at2 F K prev i j)
        = SpOk (nth j (nth i nodes []) ((0, 0), (0, 0))) /\
      fst (snd (nth j (nth i nodes []) ((0, 0), (0, 0)))) <= tol /\
      snd (snd (nth j (nth i nodes []) ((0, 0), (0, 0)))) <= tol.
Proof.
  intros H. destruct (pol_impl_loop_returns F K E pi_ rPts qPts phi tol fuel rmin rmax mfh D0 _ _ _ _ _ H)
    as [prev [Hs [Ht _]]].
  destruct (pol_impl_sweep_nodes F K E pi_ rPts qPts phi rmin rmax mfh D0 prev st norm Hs)
    as [nodes [Est [En [Hl Hn]]]].
  exists prev, nodes. split; [exact Hs|]. split; [exact Est|]. apply pol_ltb_false in Ht. split; [exact Ht|].
  intros i j Hi Hj. destruct (Hn i Hi) as [Hl2 Hn2]. split; [apply Hn2, Hj|].
  destruct (pol_norm_bounds nodes i j) as [B1 B2]; [lia|lia|]. rewrite <- En in B1, B2.
  split; apply le_trans with norm; assumption.
Qed.

(* ------------------------------------------------------------------------------------------ *)
(** * theta modulo 2 pi *)
Notation ofZ := (sp_ofZ F K).

Lemma pol_le_of_sub a b : 0 <= b - a -> a <= b.
Proof. apply (sp_nonneg_sub F K HK). Qed.
Lemma pol_sub_of_le a b : a <= b -> 0 <= b - a.
Proof. apply (sp_sub_nonneg F K HK). Qed.

Lemma pol_ofpos_succ p : sp_ofpos F K (Pos.succ p) = sp_ofpos F K p + 1.
Proof.
  rewrite !(sp_ofpos_ofnat F K HK), Pos2Nat.inj_succ. reflexivity.
Qed.
Lemma pol_ofZ_opp t : (0 <= t)%Z -> ofZ (- t) = spopp K (ofZ t).
Proof. destruct t as [|p|p]; intros H; cbn [Z.opp sp_ofZ]; [ring|reflexivity|lia]. Qed.
Lemma pol_ofZ_opp_pred t : (0 <= t)%Z -> ofZ (- t - 1) = spopp K (ofZ t) - 1.
Proof.
  destruct t as [|p|p]; intros H; [cbn; ring| |lia].
  replace (- Z.pos p - 1)%Z with (Z.neg (Pos.succ p)) by lia. cbn [sp_ofZ]. rewrite pol_ofpos_succ. ring.
Qed.

(** floor, from int() on non-negative numbers *)
Lemma pol_floor_spec x : sp_trunc_ok F K ->
  ofZ (pol_floor F K x) <= x /\ x < ofZ (pol_floor F K x) + 1.
Proof.
  intros Htr. unfold pol_floor. destruct (spleb K 0 x) eqn:E0.
  - destruct (Htr x E0) as [_ [H1 H2]]. split; assumption.
  - assert (Hx : x <= 0).
    { destruct (spl_le_total K HK 0 x) as [H|H]; [unfold sp_le in H; congruence|exact H]. }
    assert (Hy : 0 <= spopp K x).
    { replace (spopp K x) with (0 - x) by ring. apply pol_sub_of_le, Hx. }
    destruct (Htr _ Hy) as [Ht0 [H1 [H2 H2n]]]. cbv zeta.
    destruct (speqb K (ofZ (sptrunc K (spopp K x))) (spopp K x)) eqn:Eq.
    + apply (spl_eqb K HK) in Eq. rewrite pol_ofZ_opp by exact Ht0. rewrite Eq.
      replace (spopp K (spopp K x)) with x by ring. split; [apply le_refl|]. split.
      * apply pol_le_of_sub. replace (x + 1 - x) with 1 by ring. apply (sp_0_le_1 F K HK).
      * intros Ex. apply (sp_1_neq_0 F K HK). replace 1 with ((x + 1) - x) by ring. rewrite <- Ex. ring.
    + assert (Hne : ofZ (sptrunc K (spopp K x)) <> spopp K x).
      { intros Ex. apply (spl_eqb K HK) in Ex. congruence. }
      rewrite pol_ofZ_opp_pred by exact Ht0. set (t := ofZ (sptrunc K (spopp K x))) in *. split.
      * apply pol_le_of_sub. replace (x - (spopp K t - 1)) with ((t + 1) - spopp K x) by ring.
        apply pol_sub_of_le, H2.
      * split.
        -- apply pol_le_of_sub. replace (spopp K t - 1 + 1 - x) with (spopp K x - t) by ring.
           apply pol_sub_of_le, H1.
        -- intros Ex. apply Hne. replace t with (spopp K (spopp K t - 1 + 1)) by ring. rewrite <- Ex. reflexivity.
Qed.

(** mod_2pi_range: for a positive modulus the result of [%] exists and lies in [0, m) *)
Theorem pol_mod_range_thm x m : sp_trunc_ok F K -> 0 < m ->
  exists y, pol_mod F K x m = SpOk y /\ 0 <= y /\ y < m.
Proof.
  intros Htr [Hm Hmne]. assert (Hm0 : m <> 0) by (intros Em; apply Hmne; symmetry; exact Em).
  unfold pol_mod. destruct (sp_eqb_spec F K HK m 0) as [Em|_]; [contradiction|].
  eexists. split; [reflexivity|].
  destruct (pol_floor_spec (x / m) Htr) as [H1 [H2 H2n]]. set (f := ofZ (pol_floor F K (x / m))) in *.
  split; [|split].
  - replace (x - m * f) with (m * (x / m - f)) by (field; exact Hm0).
    apply (spl_mul_nonneg K HK); [exact Hm|apply pol_sub_of_le, H1].
  - apply pol_le_of_sub. replace (m - (x - m * f)) with (m * (f + 1 - x / m)) by (field; exact Hm0).
    apply (spl_mul_nonneg K HK); [exact Hm|apply pol_sub_of_le, H2].
  - intros Ey. apply H2n. replace (x / m) with ((x - m * f) / m + f) by (field; exact Hm0).
    rewrite Ey. field. exact Hm0.
Qed.

(* ------------------------------------------------------------------------------------------ *)
(** * a potential without drift (constant potential) leaves f unchanged, both schemes *)
Lemma pol_nth_map {A B : Type} (f : A -> B) l i da db : (i < length l)%nat -> nth i (map f l) db = f (nth i l da).
Proof. intros H. rewrite (nth_indep _ db (f da)) by (rewrite map_length; exact H). apply map_nth. Qed.
Lemma pol_nth_map_seq {B : Type} (f : nat -> B) d n j : (j < n)%nat -> nth j (map f (seq 0 n)) d = f j.
Proof. intros H. rewrite (pol_nth_map f (seq 0 n) j 0%nat d) by (rewrite seq_length; exact H). rewrite seq_nth by exact H. reflexivity. Qed.
Lemma pol_grid_nth {B : Type} (h : nat -> nat -> B) d n m i j : (i < n)%nat -> (j < m)%nat ->
  nth j (nth i (map (fun i => map (fun j => h i j) (seq 0 m)) (seq 0 n)) []) d = h i j.
Proof. intros Hi Hj. rewrite (pol_nth_map_seq (fun i => map (fun j => h i j) (seq 0 m)) [] n i Hi). apply pol_nth_map_seq, Hj. Qed.

(** the value of x % m for m <> 0 *)
Definition pol_modv (x m : F) : F := x - m * ofZ (pol_floor F K (x / m)).
Lemma pol_mod_modv x m : speqb K m 0 = false -> pol_mod F K x m = SpOk (pol_modv x m).
Proof. intros H. unfold pol_mod. rewrite H. reflexivity. Qed.

Lemma pol_prelude_eq (E : pol_ev F) dt B0 rPts qPts phi D1 D2 :
  rPts <> [] -> speqb K B0 0 = false ->
  pol_cross F E rPts qPts phi 0%nat 1%nat = SpOk D1 -> pol_cross F E rPts qPts phi 1%nat 0%nat = SpOk D2 ->
  pol_grid_ok F rPts qPts D1 = true -> pol_grid_ok F rPts qPts D2 = true ->
  pol_prelude F K E dt B0 rPts qPts phi = SpOk (dt / B0, D1, D2, hd 0 rPts, last rPts 0).
Proof.
  intros Hne HB Hc1 Hc2 Hg1 Hg2. unfold pol_prelude. rewrite HB, Hc1, Hc2. cbn [sp_bind].
  rewrite Hg1, Hg2. cbn [andb]. destruct rPts as [|r0 rs]; [contradiction|]. reflexivity.
Qed.

Section ConstPhi.
Variable E : pol_ev F.
Variable feq : F -> F -> F.
Variable pi_ : F.
Variables (dt v B0 : F).
Variable nul : bool.
Variables (rPts qPts : list F).
Variables (phi pol : pol_spl F).
Notation nq := (pol_nq F qPts).
Notation nr := (pol_nr F rPts).
Notation twopi := (pol_twopi F K pi_).
Notation rmin := (hd 0 rPts).
Notation rmax := (last rPts 0).
Notation qi i := (nth i qPts 0).
Notation rj j := (nth j rPts 0).
Notation mq i := (pol_modv (qi i) twopi).

Hypothesis HB : speqb K B0 0 = false.
Hypothesis Hpi : speqb K twopi 0 = false.
Hypothesis Hne : rPts <> [].
(** the nodes lie in the radial domain and no radius is zero *)
Hypothesis Hr : forall j, (j < nr)%nat -> speqb K (rj j) 0 = false /\ pol_inside F K rmin rmax (rj j) = true.
(** "a constant potential has zero derivative sums": both derivative tables at the nodes vanish,
    and so do the derivatives at (theta_i mod 2 pi, r_j) *)
Variables (D1 D2 : list (list F)).
Hypothesis Hc1 : pol_cross F E rPts qPts phi 0%nat 1%nat = SpOk D1.
Hypothesis Hc2 : pol_cross F E rPts qPts phi 1%nat 0%nat = SpOk D2.
Hypothesis Hg1 : pol_grid_ok F rPts qPts D1 = true.
Hypothesis Hg2 : pol_grid_ok F rPts qPts D2 = true.
Hypothesis Hz1 : forall i j, (i < nq)%nat -> (j < nr)%nat -> pol_at F K D1 i j = 0.
Hypothesis Hz2 : forall i j, (i < nq)%nat -> (j < nr)%nat -> pol_at F K D2 i j = 0.
Hypothesis Hs : forall i j, (i < nq)%nat -> (j < nr)%nat ->
  pol_scalar F E phi (mq i) (rj j) 0%nat 1%nat = SpOk 0 /\ pol_scalar F E phi (mq i) (rj j) 1%nat 0%nat = SpOk 0.
(** exact interpolation: the spline of f at node (theta_i mod 2 pi, r_j) is f[i,j] *)
Variable fv : nat -> nat -> F.
Hypothesis Hf : forall i j, (i < nq)%nat -> (j < nr)%nat ->
  pol_scalar F E pol (pol_modv (mq i) twopi) (rj j) 0%nat 0%nat = SpOk (fv i j).

Definition pol_const_result : list (list (F * (F * F))) :=
  map (fun i => map (fun j => (fv i j, (pol_modv (mq i) twopi, rj j))) (seq 0 nr)) (seq 0 nq).

Lemma pol_r_ne0 j : (j < nr)%nat -> rj j <> 0.
Proof. intros Hj E0. destruct (Hr j Hj) as [H _]. destruct (sp_eqb_spec F K HK (rj j) 0); [discriminate|contradiction]. Qed.

Lemma pol_prelude_const :
  pol_prelude F K E dt B0 rPts qPts phi = SpOk (dt / B0, D1, D2, rmin, rmax).
Proof. apply pol_prelude_eq; assumption. Qed.

Lemma pol_dk_zero i j : (i < nq)%nat -> (j < nr)%nat ->
  pol_dk F K E phi rmin rmax (mq i) (rj j) = SpOk (0, 0).
Proof.
  intros Hi Hj. unfold pol_dk. destruct (Hr j Hj) as [H0 Hin]. rewrite Hin.
  destruct (Hs i j Hi Hj) as [S1 S2]. rewrite S1. cbn [sp_bind]. rewrite H0, S2. cbn [sp_bind].
  pose proof (pol_r_ne0 j Hj). replace (0 / rj j) with 0 by (field; assumption). reflexivity.
Qed.

Lemma pol_fill_const i j : (i < nq)%nat -> (j < nr)%nat ->
  pol_fill F K E feq pi_ v nul pol rmin rmax (mq i, rj j) = SpOk (fv i j, (pol_modv (mq i) twopi, rj j)).
Proof.
  intros Hi Hj. destruct (Hr j Hj) as [_ Hin]. unfold pol_inside in Hin. apply negb_true_iff, orb_false_iff in Hin.
  destruct Hin as [I1 I2].
  rewrite (proj2 (proj2 (pol_fill_rule_spec F K E feq pi_ v nul pol rmin rmax (mq i) (rj j))) I1 I2).
  rewrite (pol_mod_modv _ _ Hpi). cbn [sp_bind]. rewrite (Hf i j Hi Hj). reflexivity.
Qed.

Lemma pol_enode_const mf mfh i j : (i < nq)%nat -> (j < nr)%nat ->
  pol_expl_node F K E pi_ phi rmin rmax mf mfh (qi i) (rj j) (pol_at F K D1 i j) (pol_at F K D2 i j) = SpOk (mq i, rj j).
Proof.
  intros Hi Hj. rewrite Hz1, Hz2 by assumption. destruct (Hr j Hj) as [H0 _]. pose proof (pol_r_ne0 j Hj) as Hn.
  unfold pol_expl_node, pol_d0. rewrite H0. cbn [sp_bind fst snd].
  replace (0 / rj j) with 0 by (field; assumption).
  replace (qi i - 0 * mf) with (qi i) by ring. replace (rj j + 0 * mf) with (rj j) by ring.
  rewrite (pol_mod_modv _ _ Hpi). cbn [sp_bind]. rewrite (pol_dk_zero i j Hi Hj). cbn [sp_bind fst snd].
  replace (qi i - (0 + 0) * mfh) with (qi i) by ring. replace (rj j + (0 + 0) * mfh) with (rj j) by ring.
  rewrite (pol_mod_modv _ _ Hpi). reflexivity.
Qed.

(** const_phi_id, explicit scheme: feet = nodes, f unchanged *)
Theorem pol_const_phi_id_expl :
  pol_step_expl F K E feq pi_ dt v B0 nul rPts qPts phi pol = SpOk pol_const_result.
Proof.
  unfold pol_step_expl. rewrite pol_prelude_const. cbn [sp_bind].
  rewrite (pol_grid_mapM_ok F rPts qPts _ (fun i j => (mq i, rj j))) by (intros; apply pol_enode_const; assumption).
  cbn [sp_bind]. apply pol_grid_mapM_ok. intros i j Hi Hj. unfold pol_at2.
  rewrite (pol_grid_nth (fun i j => (mq i, rj j))) by assumption. apply pol_fill_const; assumption.
Qed.

(** implicit scheme: the loop exits after one sweep *)
Variable tol : F.
Hypothesis Htol : 0 <= tol.
Hypothesis Hpi0 : 0 <= pi_.

Lemma pol_abs_0 : pol_abs F K 0 = 0.
Proof. unfold pol_abs. destruct (spleb K 0 0); [reflexivity|ring]. Qed.

Lemma pol_inode_const mfh i j : (i < nq)%nat -> (j < nr)%nat ->
  pol_impl_node F K E pi_ phi rmin rmax mfh (qi i) (rj j) (0, 0) (qi i, rj j) = SpOk ((mq i, rj j), (0, 0)).
Proof.
  intros Hi Hj. unfold pol_impl_node. cbn [fst snd]. rewrite (pol_mod_modv _ _ Hpi). cbn [sp_bind].
  rewrite (pol_dk_zero i j Hi Hj). cbn [sp_bind fst snd].
  replace (qi i - (0 + 0) * mfh) with (qi i) by ring. replace (rj j + (0 + 0) * mfh) with (rj j) by ring.
  rewrite (pol_mod_modv _ _ Hpi). cbn [sp_bind].
  destruct (Hr j Hj) as [_ Hin]. unfold pol_inside in Hin. apply negb_true_iff, orb_false_iff in Hin.
  destruct Hin as [I1 I2]. unfold pol_clip. rewrite I1, I2.
  unfold pol_qdiff. replace (mq i - mq i) with 0 by ring. replace (rj j - rj j) with 0 by ring.
  rewrite pol_abs_0. replace (pol_ltb F K pi_ 0) with false by (symmetry; apply pol_ltb_false, Hpi0). reflexivity.
Qed.

Lemma pol_norm_zero (l : list ((F * F) * (F * F))) : (forall nd, In nd l -> snd nd = (0, 0)) ->
  fold_left (fun n nd => pol_upd F K (pol_upd F K n (fst (snd nd))) (snd (snd nd))) l 0 = 0.
Proof.
  induction l as [|a l IH]; intros H; cbn [fold_left]; [reflexivity|].
  rewrite (H a) by (left; reflexivity). cbn [fst snd].
  assert (U : pol_upd F K 0 0 = 0) by (unfold pol_upd; destruct (pol_ltb F K 0 0); reflexivity).
  rewrite !U. apply IH. intros nd Hin. apply H. right. exact Hin.
Qed.

Theorem pol_const_phi_id_impl fuel :
  pol_step_impl F K E feq pi_ dt v B0 nul rPts qPts phi pol tol (S fuel) = PolRet (SpOk (pol_const_result, 1%nat)).
Proof.
  unfold pol_step_impl, pol_impl_start. rewrite pol_prelude_const. cbn [sp_bind].
  rewrite (pol_grid_mapM_ok F rPts qPts _ (fun i j => ((0, 0), (qi i, rj j)))).
  2:{ intros i j Hi Hj. rewrite Hz1, Hz2 by assumption. destruct (Hr j Hj) as [H0 _]. pose proof (pol_r_ne0 j Hj) as Hn.
      unfold pol_impl_init, pol_d0. rewrite H0. cbn [sp_bind fst snd].
      replace (0 / rj j) with 0 by (field; assumption).
      replace (qi i - 0 * (dt / B0)) with (qi i) by ring. replace (rj j + 0 * (dt / B0)) with (rj j) by ring. reflexivity. }
  cbn [sp_bind pol_lift]. cbn [pol_impl_loop].
  set (G0 := map (fun i => map (fun j => ((0, 0), (qi i, rj j))) (seq 0 nr)) (seq 0 nq)).
  assert (A1 : forall i j, (i < nq)%nat -> (j < nr)%nat -> pol_at2 F K (map (map fst) G0) i j = (0, 0)).
  { intros i j Hi Hj. unfold pol_at2, G0. rewrite map_map.
    rewrite (pol_nth_map_seq _ [] nq i Hi). rewrite map_map. rewrite (pol_nth_map_seq _ (0, 0) nr j Hj). reflexivity. }
  assert (A2 : forall i j, (i < nq)%nat -> (j < nr)%nat -> pol_at2 F K (map (map snd) G0) i j = (qi i, rj j)).
  { intros i j Hi Hj. unfold pol_at2, G0. rewrite map_map.
    rewrite (pol_nth_map_seq _ [] nq i Hi). rewrite map_map. rewrite (pol_nth_map_seq _ (0, 0) nr j Hj). reflexivity. }
  unfold pol_impl_sweep.
  rewrite (pol_grid_mapM_ok F rPts qPts _ (fun i j => ((mq i, rj j), (0, 0)))).
  2:{ intros i j Hi Hj. rewrite A1, A2 by assumption. apply pol_inode_const; assumption. }
  cbn [sp_bind].
  set (N := map (fun i => map (fun j => ((mq i, rj j), (0, 0))) (seq 0 nr)) (seq 0 nq)).
  assert (EN : pol_norm_of F K N = 0).
  { unfold pol_norm_of. apply pol_norm_zero. intros nd Hin. apply in_concat in Hin. destruct Hin as [row [Hrow Hnd]].
    unfold N in Hrow. apply in_map_iff in Hrow. destruct Hrow as [i [<- _]].
    apply in_map_iff in Hnd. destruct Hnd as [j [<- _]]. reflexivity. }
  rewrite EN. replace (pol_ltb F K tol 0) with false by (symmetry; apply pol_ltb_false, Htol).
  cbn [pol_lift].
  rewrite (pol_grid_mapM_ok F rPts qPts _ (fun i j => (fv i j, (pol_modv (mq i) twopi, rj j)))).
  - reflexivity.
  - intros i j Hi Hj. unfold pol_at2, N. rewrite map_map.
    rewrite (pol_nth_map_seq _ [] nq i Hi). rewrite map_map. rewrite (pol_nth_map_seq _ (0, 0) nr j Hj).
    cbn [fst]. apply pol_fill_const; assumption.
Qed.
End ConstPhi.

End PolLaws.
