(** Theorems about the poloidal advection model (PolAdvModel.v). *)
From Coq Require Import List Arith Lia ZArith Bool Field Ring Setoid.
Import ListNotations.
From PGV Require Import Sums SplineModel SplineTheory PolAdvModel.

(* ------------------------------------------------------------------------------------------ *)
(** * the error monad: inversion lemmas *)
Lemma pol_bind_inv {A B : Type} (r : sp_res A) (f : A -> sp_res B) b :
  sp_bind r f = SpOk b -> exists a, r = SpOk a /\ f a = SpOk b.
Proof. destruct r as [a| | | |]; cbn [sp_bind]; intros H; try discriminate. exists a. split; [reflexivity|exact H]. Qed.

Lemma pol_mapM_inv {A B : Type} (f : A -> sp_res B) (da : A) (db : B) : forall l bs,
  sp_mapM f l = SpOk bs ->
  length bs = length l /\ forall i, (i < length l)%nat -> f (nth i l da) = SpOk (nth i bs db).
Proof.
  induction l as [|a l IH]; intros bs H; cbn [sp_mapM] in H.
  - injection H as <-. split; [reflexivity|]. cbn [length]. intros i Hi. lia.
  - apply pol_bind_inv in H. destruct H as [b [Hb H]]. apply pol_bind_inv in H. destruct H as [bs' [Hbs H]].
    injection H as <-. destruct (IH bs' Hbs) as [Hl Hn]. split; [cbn [length]; lia|].
    intros i Hi. destruct i as [|i]; cbn [nth]; [exact Hb|]. apply Hn. cbn [length] in Hi. lia.
Qed.

Lemma pol_mapM_seq_ok {B : Type} (g : nat -> sp_res B) (h : nat -> B) : forall n a,
  (forall i, (a <= i < a + n)%nat -> g i = SpOk (h i)) -> sp_mapM g (seq a n) = SpOk (map h (seq a n)).
Proof. intros n a H. apply sp_mapM_ok. intros i Hi. apply in_seq in Hi. apply H. lia. Qed.

Section PolTheory.
Variable F : Type.
Variable K : sp_ops F.
Notation "x + y" := (spadd K x y). Notation "x * y" := (spmul K x y).
Notation "x - y" := (spsub K x y). Notation "x / y" := (spdiv K x y).
Notation "0" := (sp0 K). Notation "1" := (sp1 K).
Notation "x <= y" := (sp_le K x y). Notation "x < y" := (sp_lt K x y).

(** what the kernels need of the pair (cross, scalar): a successful cross evaluation is the table
    of the scalar evaluations ("entry points agree") *)
Definition pol_ev_sound (E : pol_ev F) : Prop :=
  forall X Y k1 d1 k2 d2 c e1 e2 G, pe_cross E X Y k1 d1 k2 d2 c e1 e2 = SpOk G ->
    length G = length X /\
    forall i, (i < length X)%nat -> length (nth i G []) = length Y /\
      forall j, (j < length Y)%nat ->
        pe_scalar E (nth i X 0) (nth j Y 0) k1 d1 k2 d2 c e1 e2 = SpOk (nth j (nth i G []) 0).

Theorem pol_nu_ev_sound : pol_ev_sound (pol_nu_ev F K).
Proof.
  intros X Y k1 d1 k2 d2 c e1 e2 G H. cbn [pol_nu_ev pe_cross pe_scalar] in *.
  assert (H' : sp_mapM (fun x =>
      sp_bind (sp_nu_find_span F K k1 d1 x) (fun span1 =>
      sp_bind (sp_nu_basis_sel F K e1 k1 d1 x span1) (fun basis1 =>
      sp_mapM (fun y =>
        sp_bind (sp_nu_find_span F K k2 d2 y) (fun span2 =>
        sp_bind (sp_nu_basis_sel F K e2 k2 d2 y span2) (fun basis2 =>
        sp_tensor_checked F K c span1 d1 span2 d2 basis1 basis2))) Y))) X = SpOk G).
  { unfold sp_nu_eval_2d_cross in H.
    destruct e1 as [|[|e1]]; destruct e2 as [|[|e2]]; try discriminate H; exact H. }
  clear H. destruct (pol_mapM_inv _ 0 [] X G H') as [Hl Hn]. split; [exact Hl|].
  intros i Hi. specialize (Hn i Hi).
  apply pol_bind_inv in Hn. destruct Hn as [s1 [Hs1 Hn]].
  apply pol_bind_inv in Hn. destruct Hn as [b1 [Hb1 Hn]].
  destruct (pol_mapM_inv _ 0 0 Y _ Hn) as [Hl2 Hn2]. split; [exact Hl2|].
  intros j Hj. specialize (Hn2 j Hj).
  apply pol_bind_inv in Hn2. destruct Hn2 as [s2 [Hs2 Hn2]].
  apply pol_bind_inv in Hn2. destruct Hn2 as [b2 [Hb2 Hn2]].
  unfold sp_nu_eval_2d_scalar. rewrite Hs1, Hs2. cbn [sp_bind]. rewrite Hb1, Hb2. cbn [sp_bind]. exact Hn2.
Qed.

Theorem pol_cu_ev_sound : pol_ev_sound (pol_cu_ev F K).
Proof.
  intros X Y k1 d1 k2 d2 c e1 e2 G H. cbn [pol_cu_ev pe_cross pe_scalar] in *.
  unfold sp_cu_eval_2d_cross in H.
  apply pol_bind_inv in H. destruct H as [[[[xmin xmax] dx] ncx] [U1 H]].
  apply pol_bind_inv in H. destruct H as [[[[ymin ymax] dy] ncy] [U2 H]].
  assert (H' : sp_mapM (fun x =>
      sp_bind (sp_cu_find_span F K xmin xmax dx x ncx) (fun so1 =>
      sp_bind (sp_cu_basis_sel F K e1 (snd so1) dx) (fun basis1 =>
      sp_mapM (fun y =>
        sp_bind (sp_cu_find_span F K ymin ymax dy y ncy) (fun so2 =>
        sp_bind (sp_cu_basis_sel F K e2 (snd so2) dy) (fun basis2 =>
        sp_cu_tensor F K c (fst so1) d1 (fst so2) d2 basis1 basis2))) Y))) X = SpOk G).
  { destruct e1 as [|[|e1]]; destruct e2 as [|[|e2]]; try discriminate H; exact H. }
  clear H. destruct (pol_mapM_inv _ 0 [] X G H') as [Hl Hn]. split; [exact Hl|].
  intros i Hi. specialize (Hn i Hi).
  apply pol_bind_inv in Hn. destruct Hn as [s1 [Hs1 Hn]].
  apply pol_bind_inv in Hn. destruct Hn as [b1 [Hb1 Hn]].
  destruct (pol_mapM_inv _ 0 0 Y _ Hn) as [Hl2 Hn2]. split; [exact Hl2|].
  intros j Hj. specialize (Hn2 j Hj).
  apply pol_bind_inv in Hn2. destruct Hn2 as [s2 [Hs2 Hn2]].
  apply pol_bind_inv in Hn2. destruct Hn2 as [b2 [Hb2 Hn2]].
  unfold sp_cu_eval_2d_scalar. rewrite U1, U2. cbn [sp_bind]. rewrite Hs1, Hs2. cbn [sp_bind].
  rewrite Hb1, Hb2. cbn [sp_bind]. exact Hn2.
Qed.

Theorem pol_dispatch_sound cu : pol_ev_sound (pol_dispatch F K cu).
Proof. destruct cu; [apply pol_cu_ev_sound|apply pol_nu_ev_sound]. Qed.

(* ------------------------------------------------------------------------------------------ *)
(** * the kernels, node by node *)
Variable E : pol_ev F.
Variable feq : F -> F -> F.
Variable pi_ : F.
Variables (dt v B0 : F).
Variable nul : bool.
Variables (rPts qPts : list F).
Variables (phi pol : pol_spl F).
Notation nq := (pol_nq F qPts).
Notation nr := (pol_nr F rPts).
Notation scalar := (pol_scalar F E).
Notation twopi := (pol_twopi F K pi_).
Notation gmapM := (pol_grid_mapM F rPts qPts).
Notation fill := (pol_fill F K E feq pi_ v nul pol).
Notation enode := (pol_expl_node F K E pi_ phi).
Notation inode := (pol_impl_node F K E pi_ phi).

Lemma pol_grid_mapM_inv {B : Type} (g : nat -> nat -> sp_res B) (d : B) G :
  gmapM g = SpOk G ->
  length G = nq /\ forall i, (i < nq)%nat -> length (nth i G []) = nr /\
    forall j, (j < nr)%nat -> g i j = SpOk (nth j (nth i G []) d).
Proof.
  unfold pol_grid_mapM. intros H.
  destruct (pol_mapM_inv _ 0%nat [] _ _ H) as [Hl Hn]. rewrite seq_length in Hl, Hn. split; [exact Hl|].
  intros i Hi. specialize (Hn i Hi). rewrite seq_nth in Hn by exact Hi. cbn [Nat.add] in Hn.
  destruct (pol_mapM_inv _ 0%nat d _ _ Hn) as [Hl2 Hn2]. rewrite seq_length in Hl2, Hn2. split; [exact Hl2|].
  intros j Hj. specialize (Hn2 j Hj). rewrite seq_nth in Hn2 by exact Hj. exact Hn2.
Qed.

Lemma pol_grid_mapM_ok {B : Type} (g : nat -> nat -> sp_res B) (h : nat -> nat -> B) :
  (forall i j, (i < nq)%nat -> (j < nr)%nat -> g i j = SpOk (h i j)) ->
  gmapM g = SpOk (map (fun i => map (fun j => h i j) (seq 0 nr)) (seq 0 nq)).
Proof.
  intros H. unfold pol_grid_mapM. apply pol_mapM_seq_ok. intros i Hi.
  apply pol_mapM_seq_ok. intros j Hj. apply H; lia.
Qed.

Lemma pol_grid_ok_inv G : pol_grid_ok F rPts qPts G = true ->
  length G = nq /\ forall i, (i < nq)%nat -> length (nth i G []) = nr.
Proof.
  unfold pol_grid_ok. intros H. apply andb_prop in H. destruct H as [H1 H2].
  apply Nat.eqb_eq in H1. split; [exact H1|]. intros i Hi.
  rewrite forallb_forall in H2. apply Nat.eqb_eq. apply H2. apply nth_In. lia.
Qed.

(** the prelude, inverted: both derivative tables are tables of scalar evaluations at the nodes *)
Lemma pol_prelude_inv (Hev : pol_ev_sound E) mf D0r D0q rmin rmax :
  pol_prelude F K E dt B0 rPts qPts phi = SpOk (mf, D0r, D0q, rmin, rmax) ->
  speqb K B0 0 = false /\ mf = dt / B0 /\ rmin = hd 0 rPts /\ rmax = last rPts 0 /\ rPts <> [] /\
  forall i j, (i < nq)%nat -> (j < nr)%nat ->
    scalar phi (nth i qPts 0) (nth j rPts 0) 0%nat 1%nat = SpOk (pol_at F K D0r i j) /\
    scalar phi (nth i qPts 0) (nth j rPts 0) 1%nat 0%nat = SpOk (pol_at F K D0q i j).
Proof.
  unfold pol_prelude. intros H.
  destruct (speqb K B0 0) eqn:EB; [discriminate|].
  apply pol_bind_inv in H. destruct H as [A [HA H]]. apply pol_bind_inv in H. destruct H as [B [HB H]].
  destruct rPts as [|r0 rs] eqn:ER; [discriminate|]. rewrite <- ER in *.
  destruct (pol_grid_ok F rPts qPts A && pol_grid_ok F rPts qPts B); [|discriminate].
  injection H as <- <- <- <- <-.
  split; [reflexivity|].
  split; [reflexivity|]. split; [rewrite ER; reflexivity|]. split; [reflexivity|]. split; [rewrite ER; discriminate|].
  intros i j Hi Hj. unfold pol_cross in HA, HB.
  destruct (Hev _ _ _ _ _ _ _ _ _ _ HA) as [_ HA']. destruct (Hev _ _ _ _ _ _ _ _ _ _ HB) as [_ HB'].
  split; [apply (proj2 (HA' i Hi) j Hj)|apply (proj2 (HB' i Hi) j Hj)].
Qed.
(* ------------------------------------------------------------------------------------------ *)
(** * explicit scheme: which foot is used and which value is written *)

(** the mathematical description at one point (q, r): derivatives of the potential at the point,
    Heun foot, fill rule / interpolation at the foot.  Only the scalar evaluator appears. *)
Definition pol_expl_point (q r : F) : sp_res (F * (F * F)) :=
  let rmin := hd 0 rPts in let rmax := last rPts 0 in
  let mf := dt / B0 in
  sp_bind (scalar phi q r 0%nat 1%nat) (fun a =>
  sp_bind (scalar phi q r 1%nat 0%nat) (fun b =>
  sp_bind (enode rmin rmax mf (sp_half F K * mf) q r a b) (fill rmin rmax))).

(** expl_formula: whenever the kernel succeeds, every node holds the value of the pointwise
    description at that node (new f, final foot) *)
Theorem pol_expl_formula_thm (Hev : pol_ev_sound E) res :
  pol_step_expl F K E feq pi_ dt v B0 nul rPts qPts phi pol = SpOk res ->
  length res = nq /\ forall i, (i < nq)%nat -> length (nth i res []) = nr /\ forall j, (j < nr)%nat ->
    pol_expl_point (nth i qPts 0) (nth j rPts 0) = SpOk (nth j (nth i res []) (0, (0, 0))).
Proof.
  unfold pol_step_expl. intros H.
  apply pol_bind_inv in H. destruct H as [[[[[mf D0r] D0q] rmin] rmax] [Hp H]].
  destruct (pol_prelude_inv Hev _ _ _ _ _ Hp) as [_ [Emf [Ermin [Ermax [_ Hsc]]]]].
  apply pol_bind_inv in H. destruct H as [feet [Hf H]].
  destruct (pol_grid_mapM_inv _ (0, 0) _ Hf) as [_ Hfn].
  destruct (pol_grid_mapM_inv _ (0, (0, 0)) _ H) as [Hl Hn]. split; [exact Hl|].
  intros i Hi. destruct (Hn i Hi) as [Hl2 Hn2]. split; [exact Hl2|]. intros j Hj.
  unfold pol_expl_point. destruct (Hsc i j Hi Hj) as [Ha Hb]. rewrite Ha, Hb. cbn [sp_bind].
  rewrite <- Ermin, <- Ermax, <- Emf. rewrite (proj2 (Hfn i Hi) j Hj). cbn [sp_bind].
  fold (pol_at2 F K feet i j). apply Hn2, Hj.
Qed.

(** the node function spelled out: predictor, test, corrector *)
Theorem pol_expl_node_inside rmin rmax mf mfh q r a b q1 a1 b1 :
  speqb K r 0 = false -> pol_mod F K (q - a / r * mf) twopi = SpOk q1 ->
  pol_inside F K rmin rmax (r + b / r * mf) = true -> speqb K (r + b / r * mf) 0 = false ->
  scalar phi q1 (r + b / r * mf) 0%nat 1%nat = SpOk a1 -> scalar phi q1 (r + b / r * mf) 1%nat 0%nat = SpOk b1 ->
  enode rmin rmax mf mfh q r a b =
    sp_bind (pol_mod F K (q - (a / r + a1 / (r + b / r * mf)) * mfh) twopi) (fun q2 =>
    SpOk (q2, r + (b / r + b1 / (r + b / r * mf)) * mfh)).
Proof.
  intros Hr Hq1 Hin Hr1 Ha1 Hb1. unfold pol_expl_node, pol_d0. rewrite Hr. cbn [sp_bind fst snd].
  rewrite Hq1. cbn [sp_bind]. unfold pol_dk. rewrite Hin. unfold pol_scalar in *. rewrite Ha1. cbn [sp_bind].
  rewrite Hr1, Hb1. cbn [sp_bind fst snd]. reflexivity.
Qed.

Theorem pol_expl_node_outside rmin rmax mf mfh q r a b q1 :
  speqb K r 0 = false -> pol_mod F K (q - a / r * mf) twopi = SpOk q1 ->
  pol_inside F K rmin rmax (r + b / r * mf) = false ->
  enode rmin rmax mf mfh q r a b =
    sp_bind (pol_mod F K (q - (a / r + 0) * mfh) twopi) (fun q2 => SpOk (q2, r + (b / r + 0) * mfh)).
Proof.
  intros Hr Hq1 Hin. unfold pol_expl_node, pol_d0. rewrite Hr. cbn [sp_bind fst snd].
  rewrite Hq1. cbn [sp_bind]. unfold pol_dk. rewrite Hin. cbn [sp_bind fst snd]. reflexivity.
Qed.

(** fill_rule_spec *)
Theorem pol_fill_rule_spec rmin rmax kq kr :
  (pol_ltb F K kr rmin = true -> fill rmin rmax (kq, kr) = SpOk ((if nul then 0 else feq rmin v), (kq, kr))) /\
  (pol_ltb F K kr rmin = false -> pol_ltb F K rmax kr = true ->
     fill rmin rmax (kq, kr) = SpOk ((if nul then 0 else feq kr v), (kq, kr))) /\
  (pol_ltb F K kr rmin = false -> pol_ltb F K rmax kr = false ->
     fill rmin rmax (kq, kr) =
       sp_bind (pol_mod F K kq twopi) (fun q' =>
       sp_bind (scalar pol q' kr 0%nat 0%nat) (fun val => SpOk (val, (q', kr))))).
Proof.
  unfold pol_fill. cbn [fst snd]. repeat split.
  - intros ->. reflexivity.
  - intros -> ->. reflexivity.
  - intros -> ->. reflexivity.
Qed.

(* ------------------------------------------------------------------------------------------ *)
(** * implicit scheme *)
Variable tol : F.
Notation sweep := (pol_impl_sweep F K E pi_ rPts qPts phi).
Notation loop := (pol_impl_loop F K E pi_ rPts qPts phi tol).

(** whenever the fuelled loop returns a value, it is the image of some iterate under one more
    sweep, the norm of that sweep is not above tol, and at least one sweep was made *)
Theorem pol_impl_loop_returns fuel rmin rmax mfh D0 : forall st0 done st norm n,
  loop fuel rmin rmax mfh D0 st0 done = PolRet (SpOk (st, norm, n)) ->
  exists prev, sweep rmin rmax mfh D0 prev = SpOk (st, norm) /\ pol_ltb F K tol norm = false /\ (done < n <= done + fuel)%nat.
Proof.
  induction fuel as [|fuel IH]; intros st0 done st norm n H; cbn [pol_impl_loop] in H; [discriminate|].
  destruct (sweep rmin rmax mfh D0 st0) as [[st' norm']| | | |] eqn:ES; try discriminate.
  destruct (pol_ltb F K tol norm') eqn:ET.
  - destruct (IH _ _ _ _ _ H) as [prev [H1 [H2 H3]]]. exists prev. repeat split; try assumption; lia.
  - injection H as <- <- <-. exists st0. repeat split; try assumption; lia.
Qed.

(** out of fuel only if every sweep made so far ended with norm > tol *)
Theorem pol_impl_loop_outoffuel_mono fuel rmin rmax mfh D0 : forall st0 done,
  loop (S fuel) rmin rmax mfh D0 st0 done = PolOutOfFuel -> loop fuel rmin rmax mfh D0 st0 done = PolOutOfFuel.
Proof.
  induction fuel as [|fuel IH]; intros st0 done H; [reflexivity|].
  cbn [pol_impl_loop] in H |- *.
  destruct (sweep rmin rmax mfh D0 st0) as [[st' norm']| | | |]; try discriminate.
  destruct (pol_ltb F K tol norm'); [|discriminate]. apply IH, H.
Qed.

(** one sweep, node by node: the new foot of node (i,j) is the node function applied to the old
    foot of the same node (nodes do not interact), and the norm is the running maximum *)
Theorem pol_impl_sweep_nodes rmin rmax mfh D0 prev st norm :
  sweep rmin rmax mfh D0 prev = SpOk (st, norm) ->
  exists nodes, st = map (map fst) nodes /\ norm = pol_norm_of F K nodes /\
    length nodes = nq /\ forall i, (i < nq)%nat -> length (nth i nodes []) = nr /\ forall j, (j < nr)%nat ->
      inode rmin rmax mfh (nth i qPts 0) (nth j rPts 0) (pol_at2 F K D0 i j) (pol_at2 F K prev i j)
      = SpOk (nth j (nth i nodes []) ((0, 0), (0, 0))).
Proof.
  unfold pol_impl_sweep. intros H. apply pol_bind_inv in H. destruct H as [nodes [Hn H]].
  injection H as <- <-. exists nodes. split; [reflexivity|]. split; [reflexivity|].
  exact (pol_grid_mapM_inv _ ((0, 0), (0, 0)) _ Hn).
Qed.

(** the node function of a sweep, spelled out *)
Theorem pol_impl_node_spec rmin rmax mfh q r d0 k1 k1q dk k2q :
  pol_mod F K (fst k1) twopi = SpOk k1q ->
  pol_dk F K E phi rmin rmax k1q (snd k1) = SpOk dk ->
  pol_mod F K (q - (fst d0 + fst dk) * mfh) twopi = SpOk k2q ->
  inode rmin rmax mfh q r d0 k1 =
    SpOk ((k2q, pol_clip F K rmin rmax (r + (snd d0 + snd dk) * mfh)),
          (pol_qdiff F K pi_ k2q k1q, pol_abs F K (pol_clip F K rmin rmax (r + (snd d0 + snd dk) * mfh) - snd k1))).
Proof. intros H1 H2 H3. unfold pol_impl_node. rewrite H1. cbn [sp_bind]. rewrite H2. cbn [sp_bind]. rewrite H3. reflexivity. Qed.

End PolTheory.
