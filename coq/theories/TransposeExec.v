(** C01: executable, list-level form of one LayoutHandler transpose step and its correctness,
    obtained by instantiating TransposeStep.step_correct / TransposeLocal.local_correct at functions
    read from lists.  This is the function that is extracted and run against layout.py. *)
From Coq Require Import List Arith Lia PeanoNat Bool.
Import ListNotations.
From PGV Require Import NdIndex Blocks Layouts Handler TransposeStep TransposeLocal.

(** ** permutations given as lists *)
Definition perm_b (d : nat) (l : list nat) : bool :=
  (length l =? d) && forallb (fun e => existsb (Nat.eqb e) l) (seq 0 d).

Lemma perm_b_facts d l : perm_b d l = true ->
  length l = d /\ NoDup l /\ (forall x, In x l -> x < d) /\ (forall e, e < d -> In e l).
Proof.
  unfold perm_b. intros H. apply andb_prop in H. destruct H as [Hl Hs].
  apply Nat.eqb_eq in Hl.
  assert (Hin : forall e, e < d -> In e l).
  { intros e He. rewrite forallb_forall in Hs. specialize (Hs e ltac:(apply in_seq; lia)).
    apply existsb_exists in Hs. destruct Hs as [x [Hx Hex]]. apply Nat.eqb_eq in Hex. subst. exact Hx. }
  assert (Hincl : incl (seq 0 d) l) by (intros e He; apply in_seq in He; apply Hin; lia).
  split; [exact Hl|]. split; [|split; [|exact Hin]].
  - apply NoDup_incl_NoDup with (l := seq 0 d); [apply seq_NoDup|rewrite seq_length; lia|exact Hincl].
  - intros x Hx.
    assert (Hincl' : incl l (seq 0 d)).
    { apply NoDup_length_incl; [apply seq_NoDup|rewrite seq_length; lia|exact Hincl]. }
    apply Hincl' in Hx. apply in_seq in Hx. lia.
Qed.

Lemma index_of_nth l a : NoDup l -> a < length l -> index_of l (nth a l 0) = a.
Proof.
  revert a. induction l as [|x l IH]; intros a Hnd Ha; cbn in Ha; [lia|].
  inversion Hnd as [|? ? Hni Hnd']; subst. destruct a as [|a]; cbn [nth index_of].
  - rewrite Nat.eqb_refl. reflexivity.
  - destruct (Nat.eqb_spec x (nth a l 0)) as [E|E].
    + exfalso. apply Hni. rewrite E. apply nth_In. lia.
    + f_equal. apply IH; [exact Hnd'|lia].
Qed.

Lemma nth_index_of l e : In e l -> index_of l e < length l /\ nth (index_of l e) l 0 = e.
Proof.
  induction l as [|x l IH]; intros H; [destruct H|]. cbn [index_of].
  destruct (Nat.eqb_spec x e) as [E|E]; cbn [nth length]; [split; [lia|exact E]|].
  destruct H as [H|H]; [contradiction|]. destruct (IH H). split; [lia|assumption].
Qed.

Lemma perm_fwd d l : perm_b d l = true ->
  forall a, a < d -> nth a l 0 < d /\ index_of l (nth a l 0) = a.
Proof.
  intros H a Ha. destruct (perm_b_facts d l H) as [Hl [Hnd [Hr Hin]]]. split.
  - apply Hr. apply nth_In. lia.
  - apply index_of_nth; [exact Hnd|lia].
Qed.
Lemma perm_bwd d l : perm_b d l = true ->
  forall e, e < d -> index_of l e < d /\ nth (index_of l e) l 0 = e.
Proof.
  intros H e He. destruct (perm_b_facts d l H) as [Hl [Hnd [Hr Hin]]].
  destruct (nth_index_of l e (Hin e He)). split; [lia|assumption].
Qed.

Lemma mk_nth (l : list nat) (dv : nat) : mk (length l) (fun a => nth a l dv) = l.
Proof.
  unfold mk. apply nth_ext with (d := dv) (d' := dv).
  - rewrite map_length, seq_length. reflexivity.
  - intros n Hn. rewrite map_length, seq_length in Hn.
    rewrite (nth_indep _ dv (nth 0 l dv)) by (rewrite map_length, seq_length; exact Hn).
    rewrite (map_nth (fun a => nth a l dv)), seq_nth by exact Hn. reflexivity.
Qed.

Section Exec.
Variable V : Type.
Variable dflt : V.
Variables Nl nprocs dims dims' : list nat.
Variable d' : nat.
Let d := S d'.

Definition Nf (e : nat) : nat := nth e Nl 0.
Definition Pf (a : nat) : nat := nth a nprocs 1.
Definition pif (a : nat) : nat := nth a dims 0.
Definition ipif (e : nat) : nat := index_of dims e.
Definition pif' (a : nat) : nat := nth a dims' 0.
Definition ipif' (e : nat) : nat := index_of dims' e.

Definition nranks : nat := size nprocs.
(** cartesian coordinates of rank r (row-major, as MPI's Create_cart), 0 beyond the grid *)
Definition cfun (r : nat) : nat -> nat := fun a => rd (unravel nprocs r) a.
Definition rank_of (c : nat -> nat) : nat := ravel nprocs (mk (length nprocs) c).
Definition srcf (bufs : list (list V)) : (nat -> nat) -> nat -> V :=
  fun c A => nth A (nth (rank_of c) bufs []) dflt.

Definition shape_of (dm : list nat) (r : nat) : list nat :=
  mk d (sh Nf Pf (fun a => nth a dm 0) (cfun r)).

(** the distributed step (axis a0 changes its dimension): destination prefix on every rank *)
Definition run_dist (a0 : nat) (bufs : list (list V)) : list (list V) :=
  map (fun r => map (dst V d' Nf Pf pif ipif pif' ipif' a0 (srcf bufs) (cfun r))
                    (seq 0 (size (shape_of dims' r))))
      (seq 0 nranks).
(** the undistributed step *)
Definition run_local (bufs : list (list V)) : list (list V) :=
  map (fun r => map (ldst V d Nf Pf pif pif' ipif' (srcf bufs) (cfun r))
                    (seq 0 (size (shape_of dims' r))))
      (seq 0 nranks).
(** dispatch as LayoutHandler._transpose: by the swap axes *)
Definition run_step (bufs : list (list V)) : list (list V) :=
  match swap_axes nprocs dims dims' with
  | a0 :: _ => run_dist a0 bufs
  | [] => run_local bufs
  end.

(** well-formedness of a configuration, as a boolean *)
Definition cfg_wf_b : bool :=
  (length Nl =? d) && perm_b d dims && perm_b d dims' && (length nprocs <=? d)
  && forallb (fun p => 0 <? p) nprocs.
Definition dist_wf_b (a0 : nat) : bool :=
  (a0 <? d) && negb (pif a0 =? pif' a0)
  && forallb (fun a => (a =? a0) || negb (1 <? Pf a) || (pif a =? pif' a)) (seq 0 d).
Definition local_wf_b : bool :=
  forallb (fun a => negb (1 <? Pf a) || (pif a =? pif' a)) (seq 0 d).

Variable G : list nat -> V.

(** "every rank holds, at each local position, the value of the global field" *)
Definition HoldsL (dm : list nat) (bufs : list (list V)) : Prop :=
  forall r, r < nranks -> forall j, inb (shape_of dm r) j ->
    nth (ravel (shape_of dm r) j) (nth r bufs []) dflt
    = G (glob d' Nf Pf (index_of dm) (cfun r) j).

Hypothesis Hwf : cfg_wf_b = true.

Lemma wf_parts : length Nl = d /\ perm_b d dims = true /\ perm_b d dims' = true /\ length nprocs <= d
  /\ (forall a, 0 < Pf a).
Proof.
  pose proof Hwf as W. unfold cfg_wf_b in W.
  apply andb_prop in W. destruct W as [W H].
  apply andb_prop in W. destruct W as [W H0].
  apply andb_prop in W. destruct W as [W H1].
  apply andb_prop in W. destruct W as [W H2].
  apply Nat.eqb_eq in W. apply Nat.leb_le in H0.
  repeat split; try assumption.
  intros a. unfold Pf. destruct (Nat.lt_ge_cases a (length nprocs)) as [Ha|Ha].
  - rewrite forallb_forall in H. specialize (H (nth a nprocs 1) (nth_In _ _ Ha)). apply Nat.ltb_lt in H. exact H.
  - rewrite nth_overflow by exact Ha. lia.
Qed.

Lemma nprocs_mk : nprocs = mk (length nprocs) Pf.
Proof. symmetry. apply mk_nth. Qed.

Lemma cfun_valid r : r < nranks -> valid d' Pf (cfun r).
Proof.
  intros Hr a Ha. unfold cfun.
  destruct (Nat.lt_ge_cases a (length nprocs)) as [Hlt|Hge].
  - pose proof (unravel_inb nprocs r Hr) as Hinb.
    pose proof (inb_rd _ _ Hinb a Hlt) as H. unfold Pf. rewrite (nth_indep nprocs 1 0 Hlt). exact H.
  - rewrite rd_default.
    + destruct wf_parts as [_ [_ [_ [_ HP]]]]. apply HP.
    + pose proof (unravel_inb nprocs r Hr) as Hinb. rewrite (inb_length _ _ Hinb). exact Hge.
Qed.

Lemma rank_of_lt c : valid d' Pf c -> rank_of c < nranks.
Proof.
  intros Hc. unfold rank_of, nranks. apply ravel_lt. rewrite nprocs_mk at 1. apply inb_mk.
  intros a Ha. apply Hc. destruct wf_parts as [_ [_ [_ [Hn _]]]]. fold d. lia.
Qed.

Lemma cfun_rank_of c a : valid d' Pf c -> a < d -> cfun (rank_of c) a = c a.
Proof.
  intros Hc Ha. unfold cfun, rank_of.
  assert (Hinb : inb nprocs (mk (length nprocs) c)).
  { rewrite nprocs_mk at 1. apply inb_mk. intros b Hb. apply Hc.
    destruct wf_parts as [_ [_ [_ [Hn _]]]]. fold d. lia. }
  rewrite (unravel_ravel _ _ Hinb).
  destruct (Nat.lt_ge_cases a (length nprocs)) as [Hlt|Hge].
  - apply rd_mk. exact Hlt.
  - rewrite rd_default by (rewrite length_mk; exact Hge).
    pose proof (Hc a Ha) as H. unfold Pf in H. rewrite nth_overflow in H by exact Hge. lia.
Qed.

(** HoldsL on lists gives the function-level precondition of the step theorems *)
Lemma holds_src_of_lists dm bufs : perm_b d dm = true -> HoldsL dm bufs ->
  Holds_src V d' Nf Pf (fun a => nth a dm 0) (index_of dm) G (srcf bufs).
Proof.
  intros Hp HL c Hc j Hj. unfold srcf.
  pose proof (rank_of_lt c Hc) as Hr.
  assert (Esh : shape_of dm (rank_of c) = mk (S d') (sh Nf Pf (fun a => nth a dm 0) c)).
  { unfold shape_of. apply mk_ext. intros a Ha. unfold sh. rewrite cfun_rank_of by assumption. reflexivity. }
  specialize (HL (rank_of c) Hr j). rewrite Esh in HL. specialize (HL Hj). rewrite HL. f_equal.
  unfold glob. apply mk_ext. intros e He.
  destruct (perm_bwd d dm Hp e He) as [Hie _].
  rewrite cfun_rank_of by assumption. reflexivity.
Qed.

Lemma nth_map_seq_gen (f : nat -> V) n i : i < n -> nth i (map f (seq 0 n)) dflt = f i.
Proof.
  intros H. rewrite (nth_indep _ dflt (f 0)) by (rewrite map_length, seq_length; exact H).
  rewrite map_nth, seq_nth by exact H. reflexivity.
Qed.
Lemma nth_map_seq_list (f : nat -> list V) n i : i < n -> nth i (map f (seq 0 n)) [] = f i.
Proof.
  intros H. rewrite (nth_indep _ [] (f 0)) by (rewrite map_length, seq_length; exact H).
  rewrite map_nth, seq_nth by exact H. reflexivity.
Qed.

Theorem run_dist_correct a0 bufs : dist_wf_b a0 = true ->
  HoldsL dims bufs -> HoldsL dims' (run_dist a0 bufs).
Proof.
  intros Hd HL. destruct wf_parts as [HlN [Hp [Hp' [Hn HP]]]].
  unfold dist_wf_b in Hd. apply andb_prop in Hd. destruct Hd as [Hd Hall].
  apply andb_prop in Hd. destruct Hd as [Ha0 Hdiff].
  apply Nat.ltb_lt in Ha0. apply negb_true_iff, Nat.eqb_neq in Hdiff.
  assert (Hcompat : forall a, a < S d' -> a <> a0 -> 1 < Pf a -> pif a = pif' a).
  { intros a Ha Hne H1. rewrite forallb_forall in Hall. specialize (Hall a ltac:(apply in_seq; fold d; lia)).
    destruct (Nat.eqb_spec a a0); [contradiction|]. destruct (Nat.ltb_spec 1 (Pf a)); [|lia].
    cbn in Hall. apply Nat.eqb_eq in Hall. exact Hall. }
  pose proof (step_correct V d' Nf Pf pif ipif pif' ipif' a0 Ha0 HP
                (perm_fwd d dims Hp) (perm_bwd d dims Hp) (perm_fwd d dims' Hp') (perm_bwd d dims' Hp')
                Hcompat Hdiff G (srcf bufs) (holds_src_of_lists dims bufs Hp HL)) as HD.
  intros r Hr j' Hj'. unfold run_dist.
  rewrite nth_map_seq_list by exact Hr.
  rewrite nth_map_seq_gen by (apply ravel_lt, Hj').
  apply (HD (cfun r) (cfun_valid r Hr) j' Hj').
Qed.

Theorem run_local_correct bufs : local_wf_b = true ->
  HoldsL dims bufs -> HoldsL dims' (run_local bufs).
Proof.
  intros Hl HL. destruct wf_parts as [HlN [Hp [Hp' [Hn HP]]]].
  assert (Hsame : forall a, a < d -> 1 < Pf a -> pif a = pif' a).
  { intros a Ha H1. unfold local_wf_b in Hl. rewrite forallb_forall in Hl.
    specialize (Hl a ltac:(apply in_seq; lia)). destruct (Nat.ltb_spec 1 (Pf a)); [|lia].
    cbn in Hl. apply Nat.eqb_eq in Hl. exact Hl. }
  pose proof (local_correct V d Nf Pf pif ipif pif' ipif' HP
                (perm_fwd d dims Hp) (perm_bwd d dims Hp) (perm_fwd d dims' Hp') (perm_bwd d dims' Hp')
                Hsame G (srcf bufs) (holds_src_of_lists dims bufs Hp HL)) as HD.
  intros r Hr j' Hj'. unfold run_local.
  rewrite nth_map_seq_list by exact Hr.
  rewrite nth_map_seq_gen by (apply ravel_lt, Hj').
  apply (HD (cfun r) (cfun_valid r Hr) j' Hj').
Qed.

End Exec.
