(** C08: polynomials of degree <= p are reproduced (symmetric-function form of Marsden's identity).
    For the Cox - de Boor triangle N_{i,k} above the indicator of span s (= Algorithm A2.2 on span s for EVERY x):
        sum_i e_m(t_{i+1}, ..., t_{i+k}) N_{i,k}(x) = C(k,m) x^m        (e_m = elementary symmetric polynomial)
    by induction on the degree k through the de Boor step: e_m(W,T) w + e_m(t,W) (1-w) = e_m(W) + x e_{m-1}(W) for
    w = (x-t)/(T-t), and Pascal's rule.  Hence x^m = sum_j [e_m(window_j)/C(p,m)] N_{j,p}(x) for every m <= p. *)
From Coq Require Import List Arith Lia ZArith Bool Field Ring Setoid.
Import ListNotations.
From PGV Require Import BasisCoxDeBoor CoxDeBoorGen FindSpan CubicUniform CollocRow Sums SplineModel SplineTheory InterpModel InterpTheory QuadTheory GrevilleTheory.

(** binomial coefficients (Pascal) *)
Fixpoint ip_binom (n m : nat) : nat :=
  match n, m with
  | _, O => 1
  | O, S _ => 0
  | S n', S m' => ip_binom n' m' + ip_binom n' (S m')
  end.
Lemma ip_binom_pos : forall n m, (m <= n)%nat -> (1 <= ip_binom n m)%nat.
Proof. induction n as [|n IH]; intros m H; destruct m; cbn [ip_binom]; try lia. specialize (IH m ltac:(lia)). lia. Qed.

Section Marsden.
Variable F : Type.
Variable K : sp_ops F.
Hypothesis HK : sp_laws K.
Add Field IPFM : (spl_field K HK).
Notation "x + y" := (spadd K x y). Notation "x * y" := (spmul K x y).
Notation "x - y" := (spsub K x y). Notation "x / y" := (spdiv K x y).
Notation "0" := (sp0 K). Notation "1" := (sp1 K).
Notation "x <= y" := (sp_le K x y). Notation "x < y" := (sp_lt K x y).
Notation sumn := (Sums.sumn F 0 (spadd K)).
Notation kn := (sp_kn F K).
Notation ofn := (sp_ofnat F K).
Notation Nd knots x s := (Ng F 0 (spadd K) (spmul K) (spsub K) (spdiv K) (kn knots) x (speqb K) (delta F 0 1 s)).

Fixpoint ip_pow (x : F) (m : nat) : F := match m with O => 1 | S m' => x * ip_pow x m' end.

(** elementary symmetric polynomial of degree m of the entries of a list *)
Fixpoint ip_esym (l : list F) (m : nat) : F :=
  match l, m with
  | _, O => 1
  | [], S _ => 0
  | a :: l', S m' => ip_esym l' (S m') + a * ip_esym l' m'
  end.
Lemma ip_esym_0 l : ip_esym l 0 = 1.
Proof. destruct l; reflexivity. Qed.
Lemma ip_esym_snoc : forall l a m, ip_esym (l ++ [a]) (S m) = ip_esym l (S m) + a * ip_esym l m.
Proof.
  induction l as [|h l IH]; intros a m; cbn [app ip_esym].
  - reflexivity.
  - rewrite IH. destruct m as [|m'].
    + rewrite !ip_esym_0. ring.
    + rewrite IH. ring.
Qed.

(** the window t_{i+1}, ..., t_{i+k} *)
Definition ip_win (knots : list F) (k i : nat) : list F := map (kn knots) (seq (S i) k).
Lemma ip_win_snoc knots k i : ip_win knots (S k) i = ip_win knots k i ++ [kn knots (i + k + 1)].
Proof. unfold ip_win. rewrite seq_S, map_app. cbn [map]. do 2 f_equal. f_equal. lia. Qed.
Lemma ip_win_cons knots k i : ip_win knots (S k) i = kn knots (S i) :: ip_win knots k (S i).
Proof. reflexivity. Qed.

Section Span.
Variable knots : list F.
Variable x : F.
Variable s : nat.
Hypothesis Hsorted : sp_sorted F K knots.
Hypothesis Hspan : sp_span_ok F K knots s.
Notation t := (kn knots).
Notation Nk := (Nd knots x s).

(** Marsden / symmetric functions: sum_i e_m(t_{i+1..i+k}) N_{i,k}(x) = C(k,m) x^m on the span, for every x *)
Theorem ip_marsden_esym : forall k, (k <= s)%nat -> forall m,
  sumn (S k) (fun q => ip_esym (ip_win knots k (s - k + q)) m * Nk k (s - k + q)%nat) = ofn (ip_binom k m) * ip_pow x m.
Proof.
  induction k as [|k IH]; intros Hk m.
  - cbn [Sums.sumn]. rewrite Nat.sub_0_r, Nat.add_0_r. cbn [Ng]. unfold delta. rewrite Nat.eqb_refl.
    unfold ip_win. cbn [seq map]. destruct m; cbn [ip_esym ip_binom ip_pow]; unfold sp_ofnat; cbn; ring.
  - set (i0 := (s - S k)%nat).
    rewrite (ip_deboor_step F K HK knots x s Hsorted Hspan (fun i => ip_esym (ip_win knots (S k) i) m) k i0) by (unfold i0; lia).
    destruct m as [|m'].
    + rewrite (ip_sumn_ext F K (S k) _ (fun q => Nk k (s - k + q)%nat)).
      * rewrite (ip_sum_one F K HK knots x s Hsorted Hspan k) by lia. cbn [ip_binom ip_pow]. unfold sp_ofnat. cbn. ring.
      * intros q Hq. replace (s - k + q)%nat with (i0 + S q)%nat by (unfold i0; lia). rewrite !ip_esym_0. field.
        apply (ip_den_ne0 F K HK knots s Hsorted Hspan); unfold i0; lia.
    + rewrite (ip_sumn_ext F K (S k) _ (fun q => ip_esym (ip_win knots k (s - k + q)) (S m') * Nk k (s - k + q)%nat
                                              + x * (ip_esym (ip_win knots k (s - k + q)) m' * Nk k (s - k + q)%nat))).
      * rewrite (ip_sumn_add F K HK), (ip_sumn_scale F K HK), !IH by lia. cbn [ip_binom ip_pow]. rewrite (sp_ofnat_add F K HK). ring.
      * intros q Hq. replace (s - k + q)%nat with (i0 + S q)%nat by (unfold i0; lia). set (i := (i0 + S q)%nat).
        rewrite (ip_win_snoc knots k i). replace (ip_win knots (S k) (i0 + q)) with (kn knots i :: ip_win knots k i)
          by (rewrite ip_win_cons; unfold i; f_equal; [f_equal; lia|f_equal; lia]).
        rewrite ip_esym_snoc. cbn [ip_esym]. field. apply (ip_den_ne0 F K HK knots s Hsorted Hspan); unfold i, i0; lia.
Qed.

End Span.

(* ---------------------------------------------------------------------------------------- *)
(** * from a reproduction identity on every span to the evaluator and to the interpolant (clamped general spaces) *)
Section Reproduce.
Variable knots : list F.
Variable p : nat.
Variable gam : nat -> F.          (* coefficients *)
Variable g : F -> F.              (* the function they represent *)
Hypothesis Hs : sp_sorted F K knots.
Hypothesis Hlen : (2 * p + 1 < length knots)%nat.
Hypothesis Hfirst : kn knots p < kn knots (S p).
Hypothesis Hlast : kn knots (length knots - p - 2) < kn knots (length knots - 1 - p).
(** local reproduction: on every non-empty span, the A2.2 values combine the coefficients of the window into g x *)
Hypothesis Hloc : forall x s, sp_span_ok F K knots s -> (p <= s)%nat ->
  sumn (S p) (fun j => gam (s - p + j)%nat * nth j (sp_A22 F K knots p x s) 0) = g x.

(** the spline with the coefficients gam_j evaluates to g on the whole closed domain *)
Theorem ip_spline_reproduces c x :
  kn knots p <= x -> x <= kn knots (length knots - 1 - p) ->
  length c = (length knots - p - 1)%nat -> (forall j, (j < length c)%nat -> nth j c 0 = gam j) ->
  sp_nu_eval_1d_scalar F K x knots p c 0 = SpOk (g x).
Proof.
  intros Hlo Hhi Hc Hcoef.
  destruct (sp_nu_eval_1d_domain F K HK knots p c x 0 Hs Hlen Hfirst Hlast Hlo Hhi Hc ltac:(lia) ltac:(lia))
    as [s [_ [Hr [Hspan [_ [_ E]]]]]].
  rewrite E. f_equal. cbn [sp_basis_of]. rewrite (ip_sumr_sumn F K HK).
  rewrite <- (Hloc x s Hspan ltac:(lia)). apply (ip_sumn_ext F K). intros j Hj. rewrite Hcoef by lia. reflexivity.
Qed.

(** the interpolant of the nodal values g(x_i) - any interpolation points of the domain, collocation matrix with a checked
    inverse - is g on the whole closed domain *)
Theorem ip_interp1d_reproduces xs A Ainv u c :
  let nb := ip_nbasis F K knots p false false in
  ip_colloc F K nb knots p false false xs = SpOk A -> ip_inverse_ok F K nb A Ainv = true ->
  (forall i, (i < nb)%nat -> kn knots p <= nth i xs 0 /\ nth i xs 0 <= kn knots (length knots - 1 - p)) ->
  ip_interp1d F K knots p false false xs u = SpOk c ->
  (forall i, (i < nb)%nat -> nth i u 0 = g (nth i xs 0)) ->
  forall x, kn knots p <= x -> x <= kn knots (length knots - 1 - p) ->
  sp_nu_eval_1d_scalar F K x knots p c 0 = SpOk (g x).
Proof.
  cbv zeta. intros EA Hinv Hdom Hu Hdat x Hlo Hhi.
  set (nb := ip_nbasis F K knots p false false) in *.
  assert (Enb : nb = (length knots - p - 1)%nat) by (unfold nb, ip_nbasis, ip_ncells; lia).
  destruct (ip_interp1d_system F K HK _ _ _ _ _ _ _ Hu) as [A1 [E1 Su]]. fold nb in E1, Su. rewrite EA in E1. inversion E1. subst A1.
  destruct (ip_interp1d_wrap F K HK _ _ _ _ _ _ _ Hu) as [Hlc _].
  assert (Hlc' : length c = (length knots - p - 1)%nat) by (rewrite Hlc; unfold ip_ncoeffs, ip_ncells; lia).
  apply ip_spline_reproduces; try assumption.
  intros j Hj. rewrite Hlc', <- Enb in Hj.
  destruct (ip_inverse_ok_spec F K HK _ _ _ Hinv) as [HL _].
  apply (ip_unique_left F K HK nb A Ainv (fun k => nth k c 0) gam HL); [|exact Hj].
  intros i Hi. fold (ip_sum F K nb (fun k => ip_mget F K A i k * nth k c 0)). rewrite (Su i Hi), (Hdat i Hi).
  destruct (ip_mapM_spec _ 0 [] _ _ EA) as [HlA HA].
  assert (Hxs : length xs = nb).
  { unfold ip_interp1d in Hu.
    destruct (ip_interp_many F K knots p false false xs [u]) as [cs| | | |] eqn:E; cbn [sp_bind] in Hu; try discriminate.
    destruct (ip_interp_many_spec _ _ _ _ _ _ _ _ _ E) as [_ [H _]]. exact H. }
  specialize (HA i ltac:(lia)).
  destruct (ip_colloc_row_spec _ _ _ _ _ _ _ _ _ HA) as [s [b [Hsb [Hds [Hsn [Hnb1 Erow]]]]]].
  destruct (Hdom i Hi) as [Hxl Hxh].
  destruct (sp_nu_find_span_domain F K HK knots p (nth i xs 0) Hs Hlen Hfirst Hlast Hxl Hxh) as [s' [Efs [Hr [Hspan _]]]].
  unfold ip_span_basis in Hsb. rewrite Efs in Hsb. cbn [sp_bind] in Hsb.
  rewrite (sp_nu_basis_funs_ok F K HK knots p (nth i xs 0) s' Hs Hspan) in Hsb by lia. cbn [sp_bind] in Hsb.
  inversion Hsb. subst s b. symmetry. unfold ip_mget. rewrite Erow.
  rewrite (ip_row_dot F K HK nb p s' false _ gam Hnb1 Hds Hsn).
  rewrite <- (Hloc (nth i xs 0) s' Hspan Hds).
  apply (ip_sumn_ext F K). intros q _. unfold ip_col. ring.
Qed.

End Reproduce.

(* ---------------------------------------------------------------------------------------- *)
(** * polynomials of degree <= p *)

(** the coefficient of B_j in the spline that represents x^m:  e_m(t_{j+1}, ..., t_{j+p}) / C(p,m) *)
Definition ip_mono_coeff (knots : list F) (p m j : nat) : F := ip_esym (ip_win knots p j) m / ofn (ip_binom p m).
(** a polynomial given by its coefficient list a_0, a_1, ...: value and B-spline coefficients *)
Definition ip_polyval (a : list F) (x : F) : F := sumn (length a) (fun m => nth m a 0 * ip_pow x m).
Definition ip_poly_coeff (knots : list F) (p : nat) (a : list F) (j : nat) : F :=
  sumn (length a) (fun m => nth m a 0 * ip_mono_coeff knots p m j).

Lemma ip_ofn_binom_ne0 p m : (m <= p)%nat -> ofn (ip_binom p m) <> 0.
Proof. intros H. pose proof (ip_binom_pos p m H). destruct (ip_binom p m) as [|b]; [lia|apply (ip_ofnat_S_ne0 F K HK)]. Qed.

Lemma ip_poly_local knots p a : sp_sorted F K knots -> (length a <= S p)%nat ->
  forall x s, sp_span_ok F K knots s -> (p <= s)%nat ->
  sumn (S p) (fun j => ip_poly_coeff knots p a (s - p + j) * nth j (sp_A22 F K knots p x s) 0) = ip_polyval a x.
Proof.
  intros Hs Ha x s Hsp Hps. rewrite (ip_A22_delta F K HK knots p x s Hs Hsp Hps).
  unfold ip_poly_coeff, ip_polyval.
  rewrite (ip_sumn_ext F K (S p) _ (fun j => sumn (length a) (fun m =>
            (nth m a 0 / ofn (ip_binom p m)) * (ip_esym (ip_win knots p (s - p + j)) m * Nd knots x s p (s - p + j)%nat)))).
  2:{ intros j Hj. rewrite (ip_nth_map_seq (fun q => Nd knots x s p (s - p + q)%nat)) by exact Hj. cbn [Nat.add].
      rewrite (ip_sumn_ext F K (length a) (fun m => nth m a 0 / ofn (ip_binom p m) * (ip_esym (ip_win knots p (s - p + j)) m * Nd knots x s p (s - p + j)%nat))
                 (fun m => Nd knots x s p (s - p + j)%nat * (nth m a 0 * ip_mono_coeff knots p m (s - p + j)))).
      - rewrite (ip_sumn_scale F K HK). ring.
      - intros m Hm. unfold ip_mono_coeff. field. apply ip_ofn_binom_ne0. lia. }
  rewrite (ip_sumn_swap F K HK). apply (ip_sumn_ext F K). intros m Hm.
  rewrite (ip_sumn_scale F K HK), (ip_marsden_esym knots x s Hs Hsp p Hps m). field. apply ip_ofn_binom_ne0. lia.
Qed.

(** every polynomial of degree <= p is a spline, with explicit coefficients; it is reproduced on the whole closed domain *)
Theorem ip_poly_spline knots p a c x :
  sp_sorted F K knots -> (2 * p + 1 < length knots)%nat ->
  kn knots p < kn knots (S p) -> kn knots (length knots - p - 2) < kn knots (length knots - 1 - p) ->
  (length a <= S p)%nat ->
  kn knots p <= x -> x <= kn knots (length knots - 1 - p) ->
  length c = (length knots - p - 1)%nat -> (forall j, (j < length c)%nat -> nth j c 0 = ip_poly_coeff knots p a j) ->
  sp_nu_eval_1d_scalar F K x knots p c 0 = SpOk (ip_polyval a x).
Proof.
  intros Hs Hlen Hfirst Hlast Ha Hlo Hhi Hc Hcoef.
  apply (ip_spline_reproduces knots p (ip_poly_coeff knots p a) (ip_polyval a) Hs Hlen Hfirst Hlast (ip_poly_local knots p a Hs Ha));
    assumption.
Qed.

(** polynomial reproduction by interpolation: on a clamped general space of degree p, the interpolant of the nodal values
    of a polynomial of degree <= p - at ANY interpolation points of the domain whose collocation matrix has a checked
    inverse - evaluates to the polynomial at every x of the closed domain *)
Theorem ip_interp1d_reproduces_poly knots p a xs A Ainv u c :
  let nb := ip_nbasis F K knots p false false in
  sp_sorted F K knots -> (2 * p + 1 < length knots)%nat ->
  kn knots p < kn knots (S p) -> kn knots (length knots - p - 2) < kn knots (length knots - 1 - p) ->
  (length a <= S p)%nat ->
  ip_colloc F K nb knots p false false xs = SpOk A -> ip_inverse_ok F K nb A Ainv = true ->
  (forall i, (i < nb)%nat -> kn knots p <= nth i xs 0 /\ nth i xs 0 <= kn knots (length knots - 1 - p)) ->
  ip_interp1d F K knots p false false xs u = SpOk c ->
  (forall i, (i < nb)%nat -> nth i u 0 = ip_polyval a (nth i xs 0)) ->
  forall x, kn knots p <= x -> x <= kn knots (length knots - 1 - p) ->
  sp_nu_eval_1d_scalar F K x knots p c 0 = SpOk (ip_polyval a x).
Proof.
  cbv zeta. intros Hs Hlen Hfirst Hlast Ha.
  exact (ip_interp1d_reproduces knots p (ip_poly_coeff knots p a) (ip_polyval a) Hs Hlen Hfirst Hlast (ip_poly_local knots p a Hs Ha) xs A Ainv u c).
Qed.

(** the monomial x^2 (C12: phi = omega r^2/2; C14: manufactured quadratic solutions): coefficients
    xi_j^(2) = (sum_{i<k in the window t_{j+1..j+p}} t_i t_k) / C(p,2) *)
Theorem ip_square_spline knots p c x :
  sp_sorted F K knots -> (2 * p + 1 < length knots)%nat -> (2 <= p)%nat ->
  kn knots p < kn knots (S p) -> kn knots (length knots - p - 2) < kn knots (length knots - 1 - p) ->
  kn knots p <= x -> x <= kn knots (length knots - 1 - p) ->
  length c = (length knots - p - 1)%nat -> (forall j, (j < length c)%nat -> nth j c 0 = ip_mono_coeff knots p 2 j) ->
  sp_nu_eval_1d_scalar F K x knots p c 0 = SpOk (x * x).
Proof.
  intros Hs Hlen Hp Hfirst Hlast Hlo Hhi Hc Hcoef.
  rewrite (ip_poly_spline knots p [0; 0; 1] c x Hs Hlen Hfirst Hlast ltac:(cbn; lia) Hlo Hhi Hc).
  - f_equal. unfold ip_polyval. cbn [length Sums.sumn nth ip_pow]. ring.
  - intros j Hj. rewrite (Hcoef j Hj). unfold ip_poly_coeff. cbn [length Sums.sumn nth]. ring.
Qed.

End Marsden.
