(** C09: what BSplines._build_integrals computes.  The degree-raised evaluation
      integrals[i] = (t_{i+p+1} - t_i)/(p+1) * (sum(values_u[min_idx:]) - sum(values_l[min_idx:]))
    is analysed through [CoxDeBoorGen.basis_eq_delta] (A2.2 on span s = the Cox - de Boor triangle above the
    indicator of s, for EVERY x): at the left end of a span the last value vanishes, at a clamped end the values
    are (1, 0, ..., 0) / (0, ..., 0, 1), inside the sum of all values is one. *)
From Coq Require Import List Arith Lia ZArith Bool Field Ring Setoid.
Import ListNotations.
From PGV Require Import BasisCoxDeBoor CoxDeBoorGen FindSpan CubicUniform CollocRow Sums SplineModel SplineTheory InterpModel InterpTheory.

Section QuadTheory.
Variable F : Type.
Variable K : sp_ops F.
Hypothesis HK : sp_laws K.
Add Field IPFQ : (spl_field K HK).
Notation "x + y" := (spadd K x y). Notation "x * y" := (spmul K x y).
Notation "x - y" := (spsub K x y). Notation "x / y" := (spdiv K x y).
Notation "0" := (sp0 K). Notation "1" := (sp1 K).
Notation "x <= y" := (sp_le K x y). Notation "x < y" := (sp_lt K x y).
Notation Fth := (spl_field K HK).
Notation sumn := (Sums.sumn F 0 (spadd K)).
Notation sumf := (sumF F 0 (spadd K)).
Notation kn := (sp_kn F K).
Notation frc := (BasisCoxDeBoor.frac F 0 (spdiv K) (speqb K)).
(** the Cox - de Boor triangle above the indicator of span s (CoxDeBoorGen.Ng / delta) *)
Notation Nd knots x s := (Ng F 0 (spadd K) (spmul K) (spsub K) (spdiv K) (kn knots) x (speqb K) (delta F 0 1 s)).

Lemma ip_frac_zero den : frc 0 den = 0.
Proof. unfold BasisCoxDeBoor.frac. destruct (sp_eqb_spec F K HK den 0) as [E|E]; [reflexivity|]. field. exact E. Qed.

Lemma ip_Nd_support knots x s k i : (s < i \/ i + k < s)%nat -> Nd knots x s k i = 0.
Proof. apply (Nd_support F 0 1 (spadd K) (spmul K) (spsub K) (spdiv K) (spopp K) (spinv K) Fth). Qed.

Lemma ip_A22_delta knots degree x s : sp_sorted F K knots -> sp_span_ok F K knots s -> (degree <= s)%nat ->
  sp_A22 F K knots degree x s = map (fun q => Nd knots x s degree (s - degree + q)) (seq 0 (S degree)).
Proof.
  intros Hs Hp Hd. unfold sp_A22.
  exact (basis_eq_delta F 0 1 (spadd K) (spmul K) (spsub K) (spdiv K) (spopp K) (spinv K) (sp_le K) Fth
           (spl_le_trans K HK) (spl_le_antisym K HK) (kn knots) x (speqb K) (sp_eqb_spec F K HK) s
           (sp_kn_mono F K HK knots Hs) Hp degree Hd).
Qed.

(** at x = t_s (left end of the span; possibly a multiple knot t_lo = ... = t_s): N_{i,k}(x) = 0 for lo <= i <= s
    as soon as the support of N_{i,k} reaches beyond t_s *)
Lemma ip_Nd_left knots x s lo : (forall j, (lo <= j <= s)%nat -> kn knots j = x) ->
  forall k i, (lo <= i)%nat -> (i <= s)%nat -> (s < i + k)%nat -> Nd knots x s k i = 0.
Proof.
  intros H. induction k as [|k IH]; intros i Hlo His Hik; [lia|]. cbn [Ng].
  rewrite (H i) by lia. replace (x - x) with 0 by ring. rewrite ip_frac_zero.
  assert (E : Nd knots x s k (S i) = 0).
  { destruct (Nat.eq_dec i s) as [->|Hne]; [apply ip_Nd_support; lia|]. apply IH; lia. }
  rewrite E. ring.
Qed.

(** at x = t_{s+1} = ... = t_{s+p} (clamped right end): N_{i,k}(x) = 0 for i < s, k <= p *)
Lemma ip_Nd_right knots x s p : (forall j, (s + 1 <= j <= s + p)%nat -> kn knots j = x) ->
  forall k i, (k <= p)%nat -> (i < s)%nat -> (s <= i + k)%nat -> Nd knots x s k i = 0.
Proof.
  intros H. induction k as [|k IH]; intros i Hk His Hik; [lia|]. cbn [Ng].
  rewrite (H (i + k + 2)%nat) by lia. replace (x - x) with 0 by ring. rewrite ip_frac_zero.
  assert (E : Nd knots x s k i = 0).
  { destruct (Nat.lt_ge_cases (i + k) s) as [Hlt|Hge]; [apply ip_Nd_support; lia|]. apply IH; lia. }
  rewrite E. ring.
Qed.

(* ---------------------------------------------------------------------------------------- *)
(** * sums of slices *)
Lemma ip_lsum_sumF (l : list F) : ip_lsum F K l = sumf l.
Proof.
  unfold ip_lsum. assert (G : forall l a, fold_left (fun a b => a + b) l a = a + sumf l).
  { induction l0 as [|h t IH]; intros a; cbn [fold_left sumF]; [ring|]. rewrite IH. ring. }
  rewrite G. ring.
Qed.
Lemma ip_sumF_zero (l : list F) : (forall v, In v l -> v = 0) -> sumf l = 0.
Proof. induction l as [|h t IH]; intros H; cbn [sumF]; [reflexivity|]. rewrite (H h) by (left; reflexivity).
  rewrite IH by (intros; apply H; right; assumption). ring. Qed.
Lemma ip_sumF_split m (l : list F) : sumf l = sumf (firstn m l) + sumf (skipn m l).
Proof. revert m. induction l as [|h t IH]; intros m; destruct m; cbn [firstn skipn sumF]; try ring. rewrite (IH m). ring. Qed.
Lemma ip_skipn_map_seq (f : nat -> F) : forall m a n, skipn m (map f (seq a n)) = map f (seq (a + m) (n - m)).
Proof.
  induction m as [|m IH]; intros a n; [rewrite Nat.add_0_r, Nat.sub_0_r; reflexivity|].
  destruct n as [|n]; [reflexivity|]. cbn [seq map skipn]. rewrite IH. replace (S a + m)%nat with (a + S m)%nat by lia. reflexivity.
Qed.
Lemma ip_firstn_map_seq (f : nat -> F) : forall m a n, (m <= n)%nat -> firstn m (map f (seq a n)) = map f (seq a m).
Proof.
  induction m as [|m IH]; intros a n H; [reflexivity|]. destruct n as [|n]; [lia|]. cbn [seq map firstn]. rewrite IH by lia. reflexivity.
Qed.
Lemma ip_slice_from_nat z (l : list F) : (0 <= z)%Z -> ip_slice_from F z l = skipn (Z.to_nat z) l.
Proof. intros H. unfold ip_slice_from. destruct (Z.leb_spec 0 z); [reflexivity|lia]. Qed.

(** a suffix of the values all of whose entries vanish sums to zero; a suffix that starts inside the vanishing
    prefix of values that sum to one sums to one *)
Lemma ip_suffix_zero (f : nat -> F) n m : (forall q, (m <= q < n)%nat -> f q = 0) -> sumf (skipn m (map f (seq 0 n))) = 0.
Proof.
  intros H. rewrite ip_skipn_map_seq. apply ip_sumF_zero. intros v Hv. apply in_map_iff in Hv. destruct Hv as [q [<- Hq]].
  apply in_seq in Hq. apply H. lia.
Qed.
Lemma ip_suffix_one (f : nat -> F) n m : (m <= n)%nat -> sumf (map f (seq 0 n)) = 1 -> (forall q, (q < m)%nat -> f q = 0) ->
  sumf (skipn m (map f (seq 0 n))) = 1.
Proof.
  intros Hm H1 H0. rewrite (ip_sumF_split m) in H1. rewrite ip_firstn_map_seq in H1 by exact Hm.
  rewrite (ip_sumF_zero (map f (seq 0 m))) in H1.
  - rewrite <- H1. ring.
  - intros v Hv. apply in_map_iff in Hv. destruct Hv as [q [<- Hq]]. apply in_seq in Hq. apply H0. lia.
Qed.


(* ---------------------------------------------------------------------------------------- *)
(** * nu_find_span at the points where _build_integrals calls it *)
Lemma ip_fs_low knots p x : (2 * p + 1 < length knots)%nat -> x <= kn knots p -> sp_nu_find_span F K knots p x = SpOk p.
Proof.
  intros Hlen Hx. unfold sp_nu_find_span. cbv zeta. destruct (Nat.ltb_spec (2 * p + 1) (length knots)); [|lia].
  unfold find_span. cbv zeta. rewrite Nat2Z.id. unfold sp_le in Hx. rewrite Hx. rewrite Nat2Z.id. reflexivity.
Qed.
Lemma ip_fs_high knots p x : (2 * p + 1 < length knots)%nat -> ~ x <= kn knots p ->
  kn knots (length knots - 1 - p) <= x -> sp_nu_find_span F K knots p x = SpOk (length knots - p - 2)%nat.
Proof.
  intros Hlen Hx Hh. unfold sp_nu_find_span. cbv zeta. destruct (Nat.ltb_spec (2 * p + 1) (length knots)); [|lia].
  unfold find_span. cbv zeta. rewrite Nat2Z.id.
  destruct (sp_leb_spec F K x (kn knots p)); [contradiction|].
  replace (Z.to_nat (Z.of_nat (length knots) - 1 - Z.of_nat p)) with (length knots - 1 - p)%nat by lia.
  unfold sp_le in Hh. rewrite Hh. f_equal. lia.
Qed.
Lemma ip_fs_knot knots p m : sp_sorted F K knots -> (2 * p + 1 < length knots)%nat ->
  ~ kn knots m <= kn knots p -> ~ kn knots (length knots - 1 - p) <= kn knots m -> kn knots m < kn knots (S m) ->
  sp_nu_find_span F K knots p (kn knots m) = SpOk m.
Proof.
  intros Hs Hlen H1 H2 H3.
  assert (Hdom : kn knots p < kn knots (length knots - 1 - p)).
  { split.
    - destruct (spl_le_total K HK (kn knots p) (kn knots (length knots - 1 - p))) as [H|H]; [exact H|].
      exfalso. apply H2. apply (spl_le_trans K HK) with (kn knots p); [exact H|].
      destruct (spl_le_total K HK (kn knots p) (kn knots m)); [assumption|contradiction].
    - intros E. apply H2. rewrite <- E. destruct (spl_le_total K HK (kn knots p) (kn knots m)); [assumption|contradiction]. }
  destruct (sp_nu_find_span_spec F K HK knots p (kn knots m) Hlen Hdom) as [s [E [_ Hc]]]. rewrite E. f_equal.
  destruct Hc as [[Hx _]|[[_ [Hx _]]|[Ha Hb]]]; try contradiction.
  destruct (Nat.lt_trichotomy s m) as [Hlt|[Heq|Hgt]]; [|exact Heq|].
  - exfalso. apply Hb. apply (sp_kn_mono F K HK knots Hs). lia.
  - exfalso. destruct H3 as [Hle Hne]. apply Hne. apply (spl_le_antisym K HK); [exact Hle|].
    apply (spl_le_trans K HK) with (kn knots s); [|exact Ha]. apply (sp_kn_mono F K HK knots Hs). lia.
Qed.

(* ---------------------------------------------------------------------------------------- *)
(** * the knots extended by one at both ends: np.array([knots[0], *knots, knots[-1]]) *)
Definition ip_kx (knots : list F) : list F := kn knots 0 :: knots ++ [last knots 0].

Lemma ip_kx_length knots : length (ip_kx knots) = (length knots + 2)%nat.
Proof. unfold ip_kx. cbn [length]. rewrite app_length. cbn. lia. Qed.
Lemma ip_kx_kn knots j : kn (ip_kx knots) j = kn knots (j - 1).
Proof.
  unfold sp_kn at 1. assert (El : last (ip_kx knots) 0 = last knots 0).
  { unfold ip_kx. rewrite app_comm_cons. apply last_last. }
  rewrite El. unfold ip_kx. destruct j as [|j]; [reflexivity|]. cbn [nth]. replace (S j - 1)%nat with j by lia.
  destruct (Nat.lt_ge_cases j (length knots)) as [H|H].
  - rewrite app_nth1 by exact H. reflexivity.
  - rewrite app_nth2 by exact H. unfold sp_kn. rewrite (nth_overflow knots) by exact H.
    destruct (j - length knots)%nat as [|[|r]]; reflexivity.
Qed.
Lemma ip_kx_sorted knots : sp_sorted F K knots -> sp_sorted F K (ip_kx knots).
Proof. intros Hs i _. rewrite !ip_kx_kn. apply (sp_kn_mono F K HK knots Hs). lia. Qed.

(** the cumulated value sum(values[min_idx:]) once the span is known *)
Lemma ip_cum_eval kx d i x s : sp_sorted F K kx -> sp_nu_find_span F K kx (S d) x = SpOk s ->
  sp_span_ok F K kx s -> (S d <= s)%nat -> (s + S d < length kx)%nat ->
  ip_cum F K kx d i x = SpOk (sumf (ip_slice_from F (Z.of_nat i + 1 - (Z.of_nat s - Z.of_nat (S d)))%Z
                                   (map (fun q => Nd kx x s (S d) (s - S d + q)) (seq 0 (S (S d)))))).
Proof.
  intros Hs E Hp Hd Hl. unfold ip_cum. rewrite E. cbn [sp_bind].
  rewrite (sp_nu_basis_funs_ok F K HK kx (S d) x s Hs Hp Hd Hl). cbn [sp_bind].
  rewrite ip_lsum_sumF, ip_A22_delta by assumption. reflexivity.
Qed.

Lemma ip_A22_delta_sum_one kx p x s : sp_sorted F K kx -> sp_span_ok F K kx s -> (p <= s)%nat ->
  sumf (map (fun q => Nd kx x s p (s - p + q)) (seq 0 (S p))) = 1.
Proof. intros Hs Hp Hd. rewrite <- ip_A22_delta by assumption. apply (sp_A22_sum_one F K HK); assumption. Qed.

(* ---------------------------------------------------------------------------------------- *)
(** * clamped spaces: every stored integral is (t_{i+p+1} - t_i)/(p+1) *)

(** the knot vector make_knots builds for a clamped space of degree d on strictly increasing breakpoints *)
Definition ip_clamped (knots : list F) (d : nat) : Prop :=
  sp_sorted F K knots /\ (2 * d + 1 < length knots)%nat /\
  (forall j, (j <= d)%nat -> kn knots j = kn knots d) /\
  (forall j, (length knots - 1 - d <= j)%nat -> kn knots j = kn knots (length knots - 1 - d)) /\
  (forall j, (d <= j < length knots - 1 - d)%nat -> kn knots j < kn knots (S j)).

Lemma ip_lt_not_le a b : a < b -> ~ b <= a.
Proof. intros [H Hne] H2. apply Hne. apply (spl_le_antisym K HK); assumption. Qed.
Lemma ip_le_refl a : a <= a.
Proof. apply (sp_le_refl F K HK). Qed.
Lemma ip_max_same a : ip_max F K a a = a.
Proof. unfold ip_max. destruct (spleb K a a); reflexivity. Qed.
Lemma ip_min_same a : ip_min F K a a = a.
Proof. unfold ip_min. destruct (spleb K a a); reflexivity. Qed.
Lemma ip_max_right a b : ~ b <= a -> ip_max F K a b = b.
Proof. intros H. unfold ip_max. destruct (sp_leb_spec F K b a); [contradiction|reflexivity]. Qed.
Lemma ip_min_right a b : ~ a <= b -> ip_min F K a b = b.
Proof. intros H. unfold ip_min. destruct (sp_leb_spec F K a b); [contradiction|reflexivity]. Qed.

Theorem ip_integral_clamped knots d i : ip_clamped knots d -> (i < length knots - d - 1)%nat ->
  ip_integral_general F K knots (ip_kx knots) d i
  = SpOk ((kn knots (i + d + 1) - kn knots i) * (1 / sp_ofnat F K (S d))).
Proof.
  intros [Hs [Hlen [HL [HR Hst]]]] Hi.
  set (len := length knots) in *. set (kx := ip_kx knots).
  assert (Hsx : sp_sorted F K kx) by (apply ip_kx_sorted, Hs).
  assert (Hlx : length kx = (len + 2)%nat) by apply ip_kx_length.
  assert (Hmono := sp_kn_mono F K HK knots Hs).
  assert (Hab : kn knots d < kn knots (len - 1 - d)).
  { apply (sp_lt_le_trans F K HK) with (kn knots (S d)); [apply Hst; lia|apply Hmono; lia]. }
  assert (Hlo_lt : forall m, (d < m)%nat -> ~ kn knots m <= kn knots d).
  { intros m Hm. apply ip_lt_not_le. apply (sp_lt_le_trans F K HK) with (kn knots (S d)); [apply Hst; lia|apply Hmono; lia]. }
  assert (Hhi_lt : forall m, (d <= m < len - 1 - d)%nat -> ~ kn knots (len - 1 - d) <= kn knots m).
  { intros m Hm. apply ip_lt_not_le. apply (sp_lt_le_trans F K HK) with (kn knots (S m)); [apply Hst; lia|apply Hmono; lia]. }
  unfold ip_integral_general. cbv zeta. fold kx. fold len.
  destruct (Nat.ltb_spec (d + 2 + i) (length kx)) as [_|H]; [|lia].
  unfold kx at 1 2 5 6. rewrite !ip_kx_kn. fold kx.
  replace (i + 1 - 1)%nat with i by lia. replace (d + 2 + i - 1)%nat with (i + d + 1)%nat by lia.
  (* lower bound: the cumulated value is 0 *)
  assert (El : ip_cum F K kx d i (ip_max F K (kn knots d) (kn knots i)) = SpOk 0).
  { destruct (Nat.le_gt_cases i d) as [Hid|Hid].
    - rewrite (HL i Hid), ip_max_same.
      assert (Efs : sp_nu_find_span F K kx (S d) (kn knots d) = SpOk (S d)).
      { apply ip_fs_low; [lia|]. unfold kx. rewrite ip_kx_kn. replace (S d - 1)%nat with d by lia. apply ip_le_refl. }
      rewrite (ip_cum_eval kx d i _ (S d) Hsx Efs); try lia.
      2:{ unfold sp_span_ok, kx. rewrite !ip_kx_kn. replace (S d - 1)%nat with d by lia. replace (S (S d) - 1)%nat with (S d) by lia.
          apply Hst. lia. }
      f_equal. rewrite ip_slice_from_nat by lia. replace (Z.to_nat (Z.of_nat i + 1 - (Z.of_nat (S d) - Z.of_nat (S d)))) with (S i) by lia.
      apply ip_suffix_zero. intros q Hq. apply (ip_Nd_left kx (kn knots d) (S d) 0%nat); try lia.
      intros j Hj. unfold kx. rewrite ip_kx_kn. apply HL. lia.
    - rewrite (ip_max_right _ _ (Hlo_lt i Hid)).
      assert (Efs : sp_nu_find_span F K kx (S d) (kn knots i) = SpOk (S i)).
      { replace (kn knots i) with (kn kx (S i)) by (unfold kx; rewrite ip_kx_kn; f_equal; lia).
        apply ip_fs_knot; [exact Hsx|lia| | |]; unfold kx; rewrite ?ip_kx_kn, ?ip_kx_length; fold len.
        - replace (S i - 1)%nat with i by lia. replace (S d - 1)%nat with d by lia. apply Hlo_lt, Hid.
        - replace (len + 2 - 1 - S d - 1)%nat with (len - 1 - d)%nat by lia. replace (S i - 1)%nat with i by lia. apply Hhi_lt. lia.
        - replace (S i - 1)%nat with i by lia. replace (S (S i) - 1)%nat with (S i) by lia. apply Hst. lia. }
      rewrite (ip_cum_eval kx d i _ (S i) Hsx Efs); try lia.
      2:{ unfold sp_span_ok, kx. rewrite !ip_kx_kn. replace (S i - 1)%nat with i by lia. replace (S (S i) - 1)%nat with (S i) by lia.
          apply Hst. lia. }
      f_equal. rewrite ip_slice_from_nat by lia. replace (Z.to_nat (Z.of_nat i + 1 - (Z.of_nat (S i) - Z.of_nat (S d)))) with (S d) by lia.
      apply ip_suffix_zero. intros q Hq. apply (ip_Nd_left kx (kn knots i) (S i) (S i)); try lia.
      intros j Hj. replace j with (S i) by lia. unfold kx. rewrite ip_kx_kn. f_equal. lia. }
  (* upper bound: the cumulated value is 1 *)
  assert (Eu : ip_cum F K kx d i (ip_min F K (kn knots (len - 1 - d)) (kn knots (i + d + 1))) = SpOk 1).
  { destruct (Nat.lt_ge_cases (i + d + 1) (len - 1 - d)) as [Him|Him].
    - rewrite (ip_min_right _ _ (Hhi_lt (i + d + 1)%nat ltac:(lia))).
      assert (Efs : sp_nu_find_span F K kx (S d) (kn knots (i + d + 1)) = SpOk (i + d + 2)%nat).
      { replace (kn knots (i + d + 1)) with (kn kx (i + d + 2)) by (unfold kx; rewrite ip_kx_kn; f_equal; lia).
        apply ip_fs_knot; [exact Hsx|lia| | |]; unfold kx; rewrite ?ip_kx_kn, ?ip_kx_length; fold len.
        - replace (i + d + 2 - 1)%nat with (i + d + 1)%nat by lia. replace (S d - 1)%nat with d by lia. apply Hlo_lt. lia.
        - replace (len + 2 - 1 - S d - 1)%nat with (len - 1 - d)%nat by lia. replace (i + d + 2 - 1)%nat with (i + d + 1)%nat by lia.
          apply Hhi_lt. lia.
        - replace (i + d + 2 - 1)%nat with (i + d + 1)%nat by lia. replace (S (i + d + 2) - 1)%nat with (S (i + d + 1)) by lia. apply Hst. lia. }
      assert (Hspan : sp_span_ok F K kx (i + d + 2)).
      { unfold sp_span_ok, kx. rewrite !ip_kx_kn. replace (i + d + 2 - 1)%nat with (i + d + 1)%nat by lia.
        replace (S (i + d + 2) - 1)%nat with (S (i + d + 1)) by lia. apply Hst. lia. }
      rewrite (ip_cum_eval kx d i _ (i + d + 2)%nat Hsx Efs Hspan); try lia.
      f_equal. rewrite ip_slice_from_nat by lia.
      replace (Z.to_nat (Z.of_nat i + 1 - (Z.of_nat (i + d + 2) - Z.of_nat (S d)))) with 0%nat by lia. cbn [skipn].
      apply ip_A22_delta_sum_one; try assumption. lia.
    - rewrite (HR (i + d + 1)%nat Him), ip_min_same.
      assert (Efs : sp_nu_find_span F K kx (S d) (kn knots (len - 1 - d)) = SpOk (len - d - 1)%nat).
      { replace (len - d - 1)%nat with (length kx - S d - 2)%nat by lia. apply ip_fs_high; [lia| |].
        - unfold kx. rewrite ip_kx_kn. replace (S d - 1)%nat with d by lia. apply ip_lt_not_le, Hab.
        - unfold kx. rewrite ip_kx_kn, ip_kx_length. fold len. replace (len + 2 - 1 - S d - 1)%nat with (len - 1 - d)%nat by lia. apply ip_le_refl. }
      assert (Hspan : sp_span_ok F K kx (len - d - 1)).
      { unfold sp_span_ok, kx. rewrite !ip_kx_kn. replace (S (len - d - 1) - 1)%nat with (S (len - d - 1 - 1)) by lia. apply Hst. lia. }
      rewrite (ip_cum_eval kx d i _ (len - d - 1)%nat Hsx Efs Hspan); try lia.
      f_equal. rewrite ip_slice_from_nat by lia.
      apply ip_suffix_one; [lia|apply ip_A22_delta_sum_one; try assumption; lia|].
      intros q Hq. apply (ip_Nd_right kx (kn knots (len - 1 - d)) (len - d - 1) (S d)); try lia.
      intros j Hj. unfold kx. rewrite ip_kx_kn. apply HR. lia. }
  rewrite El. cbn [sp_bind].
  replace (kn kx (d + 2 + i)) with (kn knots (i + d + 1)) by (unfold kx; rewrite ip_kx_kn; f_equal; lia).
  rewrite Eu. cbn [sp_bind]. f_equal. ring.
Qed.


(** _build_integrals on a clamped general space *)
Theorem ip_integrals_clamped knots d : ip_clamped knots d -> ip_space_ok F K knots d false false = true ->
  ip_integrals F K knots d false false
  = SpOk (map (fun i => (kn knots (i + d + 1) - kn knots i) * (1 / sp_ofnat F K (S d))) (seq 0 (length knots - d - 1))).
Proof.
  intros Hc Hok. unfold ip_integrals. cbv zeta. rewrite Hok. cbn [negb].
  change (kn knots 0 :: knots ++ [last knots 0]) with (ip_kx knots).
  assert (E : (ip_ncells F K knots d false + d = length knots - d - 1)%nat).
  { unfold ip_ncells. destruct Hc as [_ [Hlen _]]. lia. }
  rewrite E. apply sp_mapM_ok. intros i Hi. apply in_seq in Hi. apply ip_integral_clamped; [exact Hc|lia].
Qed.

(* telescoping *)
Lemma ip_sumn_shift1 (f : nat -> F) p n : sumn p (fun j => f (S n + j)%nat) + f n = sumn p (fun j => f (n + j)%nat) + f (n + p)%nat.
Proof.
  induction p as [|p IH]; cbn [Sums.sumn]; [rewrite Nat.add_0_r; ring|].
  replace (f (n + S p)%nat) with (f (S n + p)%nat) by (f_equal; lia).
  transitivity (sumn p (fun j => f (S n + j)%nat) + f n + f (S n + p)%nat); [ring|]. rewrite IH. ring.
Qed.
Lemma ip_sumn_sub p (g h : nat -> F) : sumn p (fun j => g j - h j) = sumn p g - sumn p h.
Proof. induction p as [|q IHq]; cbn [Sums.sumn]; [ring|]. rewrite IHq. ring. Qed.
Lemma ip_telescope (f : nat -> F) p n :
  sumn n (fun j => f (j + p)%nat - f j) = sumn p (fun j => f (n + j)%nat - f j).
Proof.
  induction n as [|n IH]; cbn [Sums.sumn].
  - rewrite (ip_sumn_ext F K p _ (fun _ => 0)) by (intros; cbn [Nat.add]; ring). rewrite (ip_sumn_zero F K HK). reflexivity.
  - rewrite IH.
    rewrite !ip_sumn_sub. pose proof (ip_sumn_shift1 f p n) as S1.
    replace (f (n + p)%nat) with (sumn p (fun j => f (S n + j)%nat) + f n - sumn p (fun j => f (n + j)%nat)) by (rewrite S1; ring).
    ring.
Qed.

Lemma ip_ofnat_S_ne0 d : sp_ofnat F K (S d) <> 0.
Proof.
  intros E. apply (sp_1_neq_0 F K HK). apply (spl_le_antisym K HK); [|apply (sp_0_le_1 F K HK)].
  rewrite <- E. rewrite (sp_ofnat_S F K). replace 1 with (0 + 1) at 1 by ring.
  apply (spl_add_le K HK). apply (sp_ofnat_nonneg F K HK).
Qed.
Lemma ip_sumn_const n c : sumn n (fun _ => c) = sp_ofnat F K n * c.
Proof. induction n as [|n IH]; cbn [Sums.sumn]; [unfold sp_ofnat; cbn; ring|]. rewrite IH, (sp_ofnat_S F K). ring. Qed.

(** the stored integrals of a clamped space sum to the length of the domain *)
Theorem ip_integrals_clamped_sum knots d :
  ip_clamped knots d ->
  sumn (length knots - d - 1) (fun i => (kn knots (i + d + 1) - kn knots i) * (1 / sp_ofnat F K (S d)))
  = kn knots (length knots - 1 - d) - kn knots d.
Proof.
  intros [Hs [Hlen [HL [HR Hst]]]].
  rewrite (ip_sumn_ext F K _ _ (fun i => (1 / sp_ofnat F K (S d)) * (kn knots (i + S d) - kn knots i))).
  2:{ intros i _. replace (i + S d)%nat with (i + d + 1)%nat by lia. ring. }
  rewrite (ip_sumn_scale F K HK). rewrite (ip_telescope (kn knots) (S d)).
  rewrite (ip_sumn_ext F K (S d) _ (fun _ => kn knots (length knots - 1 - d) - kn knots d)).
  2:{ intros j Hj. rewrite (HR (length knots - d - 1 + j)%nat) by lia. rewrite (HL j) by lia. reflexivity. }
  rewrite ip_sumn_const. field. apply ip_ofnat_S_ne0.
Qed.

(** hence (with [ip_weights_sum] and the partition of unity) the quadrature weights of a clamped general space sum to
    the length of the domain *)
Theorem ip_weights_sum_clamped knots d xs w :
  ip_clamped knots d -> ip_quadrature F K knots d false false xs = SpOk w ->
  (forall i, (i < ip_nbasis F K knots d false false)%nat ->
     kn knots d <= nth i xs 0 /\ nth i xs 0 <= kn knots (length knots - 1 - d)) ->
  ip_sum F K (ip_nbasis F K knots d false false) (fun i => nth i w 0) = kn knots (length knots - 1 - d) - kn knots d.
Proof.
  intros Hc Hq Hdom. pose proof Hc as [Hs [Hlen [HL [HR Hst]]]].
  unfold ip_quadrature in Hq.
  destruct (ip_integrals F K knots d false false) as [Il| | | |] eqn:EI; cbn [sp_bind] in Hq; try discriminate.
  assert (Hok : ip_space_ok F K knots d false false = true).
  { unfold ip_integrals in EI. cbv zeta in EI. destruct (ip_space_ok F K knots d false false); [reflexivity|discriminate]. }
  rewrite (ip_integrals_clamped knots d Hc Hok) in EI. injection EI as EI.
  destruct (ip_quad_from_spec F K HK _ _ _ _ _ _ _ Hq) as [_ [A [EA _]]].
  set (nb := ip_nbasis F K knots d false false) in *.
  assert (Enb : nb = (length knots - d - 1)%nat) by (unfold nb, ip_nbasis, ip_ncells; lia).
  assert (Hxs : length xs = nb).
  { unfold ip_quad_from in Hq. cbv zeta in Hq. fold nb in Hq.
    destruct (Nat.eqb_spec (length xs) nb) as [E|]; [exact E|]. rewrite andb_false_r in Hq. discriminate. }
  assert (Hrows : ip_rows_sum_one F K nb A).
  { apply (ip_rows_sum_one_nu F K HK knots d false xs A EA Hxs Hs Hlen).
    - apply Hst. lia.
    - replace (length knots - 1 - d)%nat with (S (length knots - d - 2)) by lia. apply Hst. lia.
    - exact Hdom. }
  pose proof (ip_weights_sum F K HK knots d false false xs Il w A Hq EA Hrows) as W. cbv zeta in W. fold nb in W. rewrite W.
  rewrite <- (ip_integrals_clamped_sum knots d Hc). rewrite Enb. unfold ip_sum. apply (ip_sumn_ext F K). intros j Hj.
  unfold ip_quad_rhs. rewrite ip_vtab_get by exact Hj. rewrite <- EI.
  rewrite (ip_nth_map_seq (fun i => (kn knots (i + d + 1) - kn knots i) * (1 / sp_ofnat F K (S d)))) by exact Hj. reflexivity.
Qed.


(* ---------------------------------------------------------------------------------------- *)
(** * general spaces (clamped AND periodic, repaired code): the stored integrals sum to the length of the domain

    Every piece is  c_i (u_i - l_i),  c_i = (t_{i+p+1} - t_i)/(p+1) = xi_{i+1} - xi_i  (xi = Greville abscissae of degree
    p+1 on the extended knots),  l_i = sum_{k > i} M_k(a),  u_i = sum_{k > i} M_k(b)  (M = B-splines of degree p+1; the
    cumulated values 0 / 1 returned at interior bounds are these sums, because the other M_k vanish there).  Summation by
    parts and the Greville identity at a and at b give  sum_i c_i (u_i - l_i) = (b - xi_0) - (a - xi_0) = b - a. *)

Definition ip_simple_breaks (knots : list F) (d : nat) : Prop :=
  sp_sorted F K knots /\ (2 * d + 1 < length knots)%nat /\
  (forall j, (d <= j < length knots - 1 - d)%nat -> kn knots j < kn knots (S j)).

Lemma ip_clamped_simple knots d : ip_clamped knots d -> ip_simple_breaks knots d.
Proof. intros [H1 [H2 [_ [_ H3]]]]. exact (conj H1 (conj H2 H3)). Qed.

Lemma ip_skip_sum_ind (f : nat -> F) n m :
  sumf (skipn m (map f (seq 0 n))) = sumn n (fun q => if (m <=? q)%nat then f q else 0).
Proof.
  rewrite ip_skipn_map_seq, (ip_sumF_sumn F K HK), map_length, seq_length. cbn [Nat.add].
  rewrite (ip_sumn_ext F K (n - m) _ (fun r => f (m + r)%nat)).
  2:{ intros r Hr. rewrite (ip_nth_map_seq f) by exact Hr. reflexivity. }
  destruct (Nat.le_gt_cases m n) as [H|H].
  - transitivity (sumn (m + (n - m)) (fun q => if (m <=? q)%nat then f q else 0)); [|f_equal; lia].
    rewrite (ip_sumn_split F K HK).
    rewrite (ip_sumn_ext F K m _ (fun _ => 0)).
    2:{ intros q Hq. destruct (Nat.leb_spec m q); [lia|reflexivity]. }
    rewrite (ip_sumn_zero F K HK).
    rewrite (ip_sumn_ext F K (n - m) (fun j => if (m <=? m + j)%nat then f (m + j)%nat else 0) (fun r => f (m + r)%nat)).
    + ring.
    + intros r Hr. destruct (Nat.leb_spec m (m + r)); [reflexivity|lia].
  - replace (n - m)%nat with 0%nat by lia. cbn [Sums.sumn]. symmetry.
    rewrite (ip_sumn_ext F K n _ (fun _ => 0)); [apply (ip_sumn_zero F K HK)|].
    intros q Hq. destruct (Nat.leb_spec m q); [lia|reflexivity].
Qed.

Section General.
Variable knots : list F.
Variable d : nat.
Hypothesis Hsb : ip_simple_breaks knots d.
Notation len := (length knots).
Notation kx := (ip_kx knots).
Notation a := (kn knots d).
Notation b := (kn knots (len - 1 - d)).
Notation NN := (len - d - 1)%nat.        (* ncells + d = number of pieces = span of b in the extended knots *)
(** values of the degree p+1 basis at a (span p+1 of the extended knots) and at b (span ncells+d) *)
Definition ip_Va (q : nat) : F := Nd kx a (S d) (S d) q.
Definition ip_Vb (q : nat) : F := Nd kx b NN (S d) (NN - S d + q).

Let Hs : sp_sorted F K knots := proj1 Hsb.
Let Hlen : (2 * d + 1 < len)%nat := proj1 (proj2 Hsb).
Let Hst : forall j, (d <= j < len - 1 - d)%nat -> kn knots j < kn knots (S j) := proj2 (proj2 Hsb).

Lemma ip_gen_facts :
  sp_sorted F K kx /\ length kx = (len + 2)%nat /\ a < b /\
  (forall m, (d < m)%nat -> ~ kn knots m <= a) /\ (forall m, (d <= m < len - 1 - d)%nat -> ~ b <= kn knots m) /\
  sp_span_ok F K kx (S d) /\ sp_span_ok F K kx NN.
Proof.
  assert (Hmono := sp_kn_mono F K HK knots Hs).
  split; [apply ip_kx_sorted, Hs|]. split; [apply ip_kx_length|].
  split; [apply (sp_lt_le_trans F K HK) with (kn knots (S d)); [apply Hst; lia|apply Hmono; lia]|].
  split; [intros m Hm; apply ip_lt_not_le; apply (sp_lt_le_trans F K HK) with (kn knots (S d)); [apply Hst; lia|apply Hmono; lia]|].
  split; [intros m Hm; apply ip_lt_not_le; apply (sp_lt_le_trans F K HK) with (kn knots (S m)); [apply Hst; lia|apply Hmono; lia]|].
  split; unfold sp_span_ok; rewrite !ip_kx_kn.
  - replace (S d - 1)%nat with d by lia. replace (S (S d) - 1)%nat with (S d) by lia. apply Hst. lia.
  - replace (S NN - 1)%nat with (S (NN - 1)) by lia. apply Hst. lia.
Qed.

(** the cumulated value at the lower bound of piece i *)
Lemma ip_piece_lower i : (i < NN)%nat ->
  ip_cum F K kx d i (ip_max F K a (kn knots i)) = SpOk (sumn (S (S d)) (fun q => if (S i <=? q)%nat then ip_Va q else 0)).
Proof.
  intros Hi. destruct ip_gen_facts as [Hsx [Hlx [Hab [Hlo_lt [Hhi_lt [Hspa Hspb]]]]]].
  assert (Hmono := sp_kn_mono F K HK knots Hs).
  destruct (sp_leb_spec F K (kn knots i) a) as [Hle|Hnle].
  - assert (Em : ip_max F K a (kn knots i) = a) by (unfold ip_max; unfold sp_le in Hle; rewrite Hle; reflexivity).
    rewrite Em.
    assert (Efs : sp_nu_find_span F K kx (S d) a = SpOk (S d)).
    { apply ip_fs_low; [lia|]. rewrite ip_kx_kn. replace (S d - 1)%nat with d by lia. apply ip_le_refl. }
    rewrite (ip_cum_eval kx d i _ (S d) Hsx Efs Hspa); try lia.
    f_equal. rewrite ip_slice_from_nat by lia. replace (Z.to_nat (Z.of_nat i + 1 - (Z.of_nat (S d) - Z.of_nat (S d)))) with (S i) by lia.
    rewrite ip_skip_sum_ind. apply (ip_sumn_ext F K). intros q Hq. unfold ip_Va. rewrite Nat.sub_diag. reflexivity.
  - assert (Hid : (d < i)%nat).
    { destruct (Nat.le_gt_cases i d) as [H|H]; [|exact H]. exfalso. apply Hnle. apply Hmono, H. }
    rewrite (ip_max_right _ _ Hnle).
    assert (Efs : sp_nu_find_span F K kx (S d) (kn knots i) = SpOk (S i)).
    { replace (kn knots i) with (kn kx (S i)) by (rewrite ip_kx_kn; f_equal; lia).
      apply ip_fs_knot; [exact Hsx|lia| | |]; rewrite ?ip_kx_kn, ?ip_kx_length.
      - replace (S i - 1)%nat with i by lia. replace (S d - 1)%nat with d by lia. exact Hnle.
      - replace (len + 2 - 1 - S d - 1)%nat with (len - 1 - d)%nat by lia. replace (S i - 1)%nat with i by lia. apply Hhi_lt. lia.
      - replace (S i - 1)%nat with i by lia. replace (S (S i) - 1)%nat with (S i) by lia. apply Hst. lia. }
    rewrite (ip_cum_eval kx d i _ (S i) Hsx Efs); try lia.
    2:{ unfold sp_span_ok. rewrite !ip_kx_kn. replace (S i - 1)%nat with i by lia. replace (S (S i) - 1)%nat with (S i) by lia.
        apply Hst. lia. }
    f_equal. rewrite ip_slice_from_nat by lia. replace (Z.to_nat (Z.of_nat i + 1 - (Z.of_nat (S i) - Z.of_nat (S d)))) with (S d) by lia.
    rewrite ip_suffix_zero.
    + symmetry. rewrite (ip_sumn_ext F K _ _ (fun _ => 0)); [apply (ip_sumn_zero F K HK)|].
      intros q Hq. destruct (Nat.leb_spec (S i) q); [lia|reflexivity].
    + intros q Hq. apply (ip_Nd_left kx (kn knots i) (S i) (S i)); try lia.
      intros j Hj. replace j with (S i) by lia. rewrite ip_kx_kn. f_equal. lia.
Qed.

(** the cumulated value at the upper bound of piece i *)
Lemma ip_piece_upper i : (i < NN)%nat ->
  ip_cum F K kx d i (ip_min F K b (kn knots (i + d + 1)))
  = SpOk (sumn (S (S d)) (fun q => if (i + 2 + 2 * d + 1 - len <=? q)%nat then ip_Vb q else 0)).
Proof.
  intros Hi. destruct ip_gen_facts as [Hsx [Hlx [Hab [Hlo_lt [Hhi_lt [Hspa Hspb]]]]]].
  assert (Hmono := sp_kn_mono F K HK knots Hs).
  destruct (sp_leb_spec F K b (kn knots (i + d + 1))) as [Hle|Hnle].
  - assert (Em : ip_min F K b (kn knots (i + d + 1)) = b) by (unfold ip_min; unfold sp_le in Hle; rewrite Hle; reflexivity).
    rewrite Em.
    assert (Him : (len - 1 - d <= i + d + 1)%nat).
    { destruct (Nat.le_gt_cases (len - 1 - d) (i + d + 1)) as [H|H]; [exact H|]. exfalso. apply (Hhi_lt (i + d + 1)%nat); [lia|exact Hle]. }
    assert (Efs : sp_nu_find_span F K kx (S d) b = SpOk NN).
    { replace NN with (length kx - S d - 2)%nat by lia. apply ip_fs_high; [lia| |].
      - rewrite ip_kx_kn. replace (S d - 1)%nat with d by lia. apply ip_lt_not_le, Hab.
      - rewrite ip_kx_kn, ip_kx_length. replace (len + 2 - 1 - S d - 1)%nat with (len - 1 - d)%nat by lia. apply ip_le_refl. }
    rewrite (ip_cum_eval kx d i _ NN Hsx Efs Hspb); try lia.
    f_equal. rewrite ip_slice_from_nat by lia.
    replace (Z.to_nat (Z.of_nat i + 1 - (Z.of_nat NN - Z.of_nat (S d)))) with (i + 2 + 2 * d + 1 - len)%nat by lia.
    rewrite ip_skip_sum_ind. reflexivity.
  - assert (Him : (i + d + 1 < len - 1 - d)%nat).
    { destruct (Nat.lt_ge_cases (i + d + 1) (len - 1 - d)) as [H|H]; [exact H|]. exfalso. apply Hnle. apply Hmono, H. }
    rewrite (ip_min_right _ _ Hnle).
    assert (Efs : sp_nu_find_span F K kx (S d) (kn knots (i + d + 1)) = SpOk (i + d + 2)%nat).
    { replace (kn knots (i + d + 1)) with (kn kx (i + d + 2)) by (rewrite ip_kx_kn; f_equal; lia).
      apply ip_fs_knot; [exact Hsx|lia| | |]; rewrite ?ip_kx_kn, ?ip_kx_length.
      - replace (i + d + 2 - 1)%nat with (i + d + 1)%nat by lia. replace (S d - 1)%nat with d by lia. apply Hlo_lt. lia.
      - replace (len + 2 - 1 - S d - 1)%nat with (len - 1 - d)%nat by lia. replace (i + d + 2 - 1)%nat with (i + d + 1)%nat by lia. exact Hnle.
      - replace (i + d + 2 - 1)%nat with (i + d + 1)%nat by lia. replace (S (i + d + 2) - 1)%nat with (S (i + d + 1)) by lia. apply Hst. lia. }
    assert (Hspan : sp_span_ok F K kx (i + d + 2)).
    { unfold sp_span_ok. rewrite !ip_kx_kn. replace (i + d + 2 - 1)%nat with (i + d + 1)%nat by lia.
      replace (S (i + d + 2) - 1)%nat with (S (i + d + 1)) by lia. apply Hst. lia. }
    rewrite (ip_cum_eval kx d i _ (i + d + 2)%nat Hsx Efs Hspan); try lia.
    f_equal. rewrite ip_slice_from_nat by lia.
    replace (Z.to_nat (Z.of_nat i + 1 - (Z.of_nat (i + d + 2) - Z.of_nat (S d)))) with 0%nat by lia. cbn [skipn].
    rewrite (ip_A22_delta_sum_one kx (S d) _ (i + d + 2)%nat Hsx Hspan) by lia.
    replace (i + 2 + 2 * d + 1 - len)%nat with 0%nat by lia. symmetry.
    transitivity (sumf (map (fun q => Nd kx b NN (S d) (NN - S d + q)) (seq 0 (S (S d))))); [|apply ip_A22_delta_sum_one; try assumption; lia].
    rewrite (ip_sumF_sumn F K HK), map_length, seq_length. apply (ip_sumn_ext F K). intros q Hq.
    rewrite (ip_nth_map_seq (fun q => Nd kx b NN (S d) (NN - S d + q))) by exact Hq. reflexivity.
Qed.

(** every stored integral of the general branch: c_i (u_i - l_i) *)
Theorem ip_piece i : (i < NN)%nat ->
  ip_integral_general F K knots kx d i
  = SpOk ((kn knots (i + d + 1) - kn knots i) * (1 / sp_ofnat F K (S d))
          * (sumn (S (S d)) (fun q => if (i + 2 + 2 * d + 1 - len <=? q)%nat then ip_Vb q else 0)
             - sumn (S (S d)) (fun q => if (S i <=? q)%nat then ip_Va q else 0))).
Proof.
  intros Hi. unfold ip_integral_general. cbv zeta.
  destruct (Nat.ltb_spec (d + 2 + i) (length kx)) as [_|H]; [|rewrite ip_kx_length in H; lia].
  rewrite !ip_kx_kn. replace (i + 1 - 1)%nat with i by lia. replace (d + 2 + i - 1)%nat with (i + d + 1)%nat by lia.
  rewrite (ip_piece_lower i Hi). cbn [sp_bind]. rewrite (ip_piece_upper i Hi). cbn [sp_bind]. reflexivity.
Qed.

End General.
End QuadTheory.
