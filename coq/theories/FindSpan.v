From Coq Require Import ZArith Lia Bool.
Open Scope Z_scope.

(* nu_find_span over an abstract totally ordered key type *)
Section Span.
Variable F : Type.
Variable fle : F -> F -> Prop.
Variable fleb : F -> F -> bool.
Hypothesis fleb_spec : forall a b, reflect (fle a b) (fleb a b).
Hypothesis le_trans : forall a b c, fle a b -> fle b c -> fle a c.
Hypothesis le_total : forall a b, fle a b \/ fle b a.
Definition fltb a b := negb (fleb b a).          (* a < b *)

Variable t : Z -> F.         (* knots[i] *)
Variable len : Z.            (* len(knots) *)
Variable degree : Z.
Variable x : F.

(* the while loop: while x < knots[span] or x >= knots[span+1] *)
Fixpoint search (fuel : nat) (low high : Z) : option Z :=
  match fuel with
  | O => None
  | S f =>
    let span := (low + high) / 2 in
    if fltb x (t span) || fleb (t (span + 1)) x then
      if fltb x (t span) then search f low span else search f span high
    else Some span
  end.

Definition find_span : option Z :=
  let low := degree in let high := len - 1 - degree in
  if fleb x (t low) then Some low
  else if fleb (t high) x then Some (high - 1)
  else search (Z.to_nat (high - low)) low high.

Hypothesis t_mono : forall a b, a <= b -> fle (t a) (t b).

Lemma search_spec : forall fuel low high, low < high ->
  fle (t low) x -> ~ fle (t high) x -> (Z.to_nat (high - low) <= fuel)%nat ->
  exists s, search fuel low high = Some s /\ low <= s < high /\ fle (t s) x /\ ~ fle (t (s + 1)) x.
Proof.
  induction fuel as [|f IH]; intros low high Hlh Hl Hh Hf; [lia|]. cbn [search]. cbv zeta.
  set (span := (low + high) / 2).
  assert (Hs : low <= span < high) by (subst span; split; [apply Z.div_le_lower_bound|apply Z.div_lt_upper_bound]; lia).
  unfold fltb. destruct (fleb_spec (t span) x) as [H1|H1]; cbn [negb orb].
  - destruct (fleb_spec (t (span + 1)) x) as [H2|H2].
    + (* x >= knots[span+1] : low := span, and span > low *)
      assert (Hlt : low < span).
      { destruct (Z.eq_dec span low) as [E|E]; [|lia]. exfalso.
        assert (high = low + 1) by (subst span; pose proof (Z.div_mod (low + high) 2 ltac:(lia)); pose proof (Z.mod_pos_bound (low + high) 2 ltac:(lia)); lia).
        apply Hh. replace high with (span + 1) by lia. exact H2. }
      destruct (IH span high ltac:(lia) H1 Hh ltac:(lia)) as [s [E [Hr Hp]]].
      exists s. split; [exact E|]. split; [lia|exact Hp].
    + exists span. repeat split; try lia; assumption.
  - (* x < knots[span] : high := span, and span > low *)
    assert (Hlt : low < span).
    { destruct (Z.eq_dec span low) as [E|E]; [|lia]. exfalso. apply H1. rewrite E. exact Hl. }
    destruct (IH low span ltac:(lia) Hl H1 ltac:(lia)) as [s [E [Hr Hp]]].
    exists s. split; [exact E|]. split; [lia|exact Hp].
Qed.

(* the function as a whole: never out of fuel; result within [degree, len-degree-2] *)
Theorem find_span_spec : degree < len - 1 - degree ->
  ~ fle (t (len - 1 - degree)) (t degree) ->        (* knots[low] < knots[high] *)
  exists s, find_span = Some s /\ degree <= s <= len - degree - 2 /\
    ((fle x (t degree) /\ s = degree) \/
     (~ fle x (t degree) /\ fle (t (len - 1 - degree)) x /\ s = len - degree - 2) \/
     (fle (t s) x /\ ~ fle (t (s + 1)) x)).
Proof.
  intros Hlh Hdom. unfold find_span. cbv zeta.
  destruct (fleb_spec x (t degree)) as [H1|H1].
  - exists degree. split; [reflexivity|]. split; [lia|]. left. split; [exact H1|reflexivity].
  - destruct (fleb_spec (t (len - 1 - degree)) x) as [H2|H2].
    + exists (len - 1 - degree - 1). split; [reflexivity|]. split; [lia|]. right. left.
      repeat split; try assumption. lia.
    + assert (Hl : fle (t degree) x) by (destruct (le_total (t degree) x); [assumption|contradiction]).
      destruct (search_spec (Z.to_nat (len - 1 - degree - degree)) degree (len - 1 - degree) Hlh Hl H2 ltac:(lia))
        as [s [E [Hr Hp]]].
      exists s. split; [exact E|]. split; [lia|]. right. right. exact Hp.
Qed.
End Span.
