(** C06: the route table of LayoutManager._makeConnectionMap (model: Routes.route_table) does not depend on the
    iteration order of the set of unvisited layouts, for EVERY number of layouts.

    Plan of the proof.
    - Under an invariant [Inv] of the (distance, route) matrices, one relaxation [relax s via U st aim] either does
      nothing or overwrites the record of [aim] (entries (s,aim), (aim,s) of both matrices) by the candidate built from
      [via], and it does so exactly when the candidate is better for the strict total order
      (distance, then route compared by names).
    - A pass for one source is a run of a nondeterministic machine [run]: pick ANY unvisited node of minimal
      distance, relax its neighbours, continue.  [visit] with any iteration order is such a run.
    - Two picks that are both possible commute (up to pointwise equality of the matrices), and each stays possible
      after the other; hence all complete runs end in the same state (diamond argument, [run_det]).
    - Folding over the sources gives the theorem. *)
From Coq Require Import List Arith Lia Bool PeanoNat Permutation.
Import ListNotations.
From PGV Require Import Routes.

Definition rstate := (mat nat * mat (list nat))%type.

(** pointwise equality of states (no functional extensionality) *)
Definition steq (x y : rstate) : Prop :=
  (forall a b, fst x a b = fst y a b) /\ (forall a b, snd x a b = snd y a b).

Lemma steq_refl x : steq x x.
Proof. split; intros; reflexivity. Qed.
Lemma steq_sym x y : steq x y -> steq y x.
Proof. intros [H1 H2]; split; intros; symmetry; auto. Qed.
Lemma steq_trans x y z : steq x y -> steq y z -> steq x z.
Proof. intros [H1 H2] [H3 H4]; split; intros; [rewrite H1|rewrite H2]; auto. Qed.

Lemma mem_In x l : existsb (Nat.eqb x) l = true <-> In x l.
Proof.
  rewrite existsb_exists. split.
  - intros [y [Hy He]]. apply Nat.eqb_eq in He. subst. exact Hy.
  - intros H. exists x. split; [exact H|apply Nat.eqb_refl].
Qed.
Lemma mem_nIn x l : existsb (Nat.eqb x) l = false <-> ~ In x l.
Proof.
  split.
  - intros H Hin. apply mem_In in Hin. congruence.
  - intros H. destruct (existsb (Nat.eqb x) l) eqn:E; [|reflexivity]. apply mem_In in E. contradiction.
Qed.

Lemma upd2_eq {A} (m : mat A) i j v : upd2 m i j v i j = v.
Proof. unfold upd2. rewrite !Nat.eqb_refl. reflexivity. Qed.
Lemma upd2_neq {A} (m : mat A) i j v a b : (a <> i \/ b <> j) -> upd2 m i j v a b = m a b.
Proof.
  unfold upd2. intros H. destruct (a =? i) eqn:E1; destruct (b =? j) eqn:E2; simpl; try reflexivity.
  apply Nat.eqb_eq in E1. apply Nat.eqb_eq in E2. lia.
Qed.

(* ------------------------------------------------------------------ comparison of routes by names *)
Section Lex.
Variable n : nat.
Variable nrank : nat -> nat.
Hypothesis nrank_inj : forall x y, x < n -> y < n -> nrank x = nrank y -> x = y.

Lemma lex_irrefl a : lex_lt nrank a a = false.
Proof. induction a as [|x a IH]; simpl; [reflexivity|]. rewrite Nat.ltb_irrefl. exact IH. Qed.

Lemma lex_trans a : forall b c, lex_lt nrank a b = true -> lex_lt nrank b c = true -> lex_lt nrank a c = true.
Proof.
  induction a as [|x a IH]; intros [|y b] [|z c]; simpl; try discriminate; auto.
  destruct (Nat.ltb_spec (nrank x) (nrank y)); destruct (Nat.ltb_spec (nrank y) (nrank x));
  destruct (Nat.ltb_spec (nrank y) (nrank z)); destruct (Nat.ltb_spec (nrank z) (nrank y));
  destruct (Nat.ltb_spec (nrank x) (nrank z)); destruct (Nat.ltb_spec (nrank z) (nrank x));
  try discriminate; try lia; auto.
  apply IH.
Qed.

Lemma lex_asym a : forall b, lex_lt nrank a b = true -> lex_lt nrank b a = false.
Proof.
  induction a as [|x a IH]; intros [|y b]; simpl; try discriminate; auto.
  destruct (Nat.ltb_spec (nrank x) (nrank y)); destruct (Nat.ltb_spec (nrank y) (nrank x));
  try discriminate; try lia; auto.
Qed.

Lemma lex_total a : forall b, (forall x, In x a -> x < n) -> (forall x, In x b -> x < n) ->
  lex_lt nrank a b = false -> lex_lt nrank b a = false -> a = b.
Proof.
  induction a as [|x a IH]; intros [|y b] Ha Hb; simpl; try discriminate; auto.
  destruct (Nat.ltb_spec (nrank x) (nrank y)); destruct (Nat.ltb_spec (nrank y) (nrank x));
  try discriminate; try lia.
  intros H1 H2. assert (x = y) by (apply nrank_inj; [apply Ha; left; reflexivity|apply Hb; left; reflexivity|lia]).
  subst. f_equal. apply IH; auto; intros; [apply Ha|apply Hb]; right; assumption.
Qed.
End Lex.

(* ------------------------------------------------------------------ records, candidates, invariant *)
(** everything a pass for source [s] knows about node [b]: distance and route s->b, distance and route b->s *)
Record rrec := mkrrec { rd : nat; rr : list nat; rd' : nat; rr' : list nat }.

Definition rget (st : rstate) (s b : nat) : rrec := mkrrec (fst st s b) (snd st s b) (fst st b s) (snd st b s).
Definition rset (s b : nat) (r : rrec) (st : rstate) : rstate :=
  (upd2 (upd2 (fst st) s b (rd r)) b s (rd' r), upd2 (upd2 (snd st) s b (rr r)) b s (rr' r)).
(** the candidate for [aim] offered by its neighbour [via] *)
Definition rcand (st : rstate) (s via aim : nat) : rrec :=
  mkrrec (fst st s via + 1) (snd st s via ++ [aim]) (fst st s via + 1) (via :: snd st via s).

Section General.
Variable n : nat.
Variable conn : nat -> list nat.
Variable nrank : nat -> nat.
Hypothesis conn_sym : forall a b, In b (conn a) -> In a (conn b).
Hypothesis conn_lt : forall a b, In b (conn a) -> b < n.
Hypothesis nrank_inj : forall x y, x < n -> y < n -> nrank x = nrank y -> x = y.

Definition rbetter (c r : rrec) : bool := (rd c <? rd r) || ((rd c =? rd r) && lex_lt nrank (rr c) (rr r)).

Record Inv (st : rstate) : Prop := mkInv {
  inv_ge1 : forall a b, 1 <= fst st a b;
  inv_adj : forall a b, In b (conn a) -> fst st a b = 1 /\ snd st a b = [b];
  inv_le : forall a b, fst st a b <= S n;
  inv_last : forall a b, fst st a b < S n -> exists l, snd st a b = l ++ [b];
  inv_lt : forall a b x, In x (snd st a b) -> x < n;
  inv_sym : forall a b, fst st a b = fst st b a }.

Lemma Inv_steq a b : steq a b -> Inv a -> Inv b.
Proof.
  intros [H1 H2] I. constructor; intros.
  - rewrite <- H1. apply I.
  - rewrite <- H1, <- H2. apply I. assumption.
  - rewrite <- H1. apply I.
  - rewrite <- H2. apply I. rewrite H1. assumption.
  - rewrite <- H2 in H. eapply inv_lt; eauto.
  - rewrite <- !H1. apply I.
Qed.

Lemma Inv_init : Inv (init_dist n conn, init_route conn).
Proof.
  constructor; simpl; unfold init_dist, init_route, big; intros.
  - destruct (existsb _ _); lia.
  - apply mem_In in H. rewrite H. auto.
  - destruct (existsb _ _); lia.
  - destruct (existsb _ _); [exists []; reflexivity|lia].
  - destruct (existsb (Nat.eqb b) (conn a)) eqn:E; [|destruct H].
    destruct H as [<-|[]]. apply mem_In in E. eapply conn_lt; eauto.
  - destruct (existsb (Nat.eqb b) (conn a)) eqn:E1; destruct (existsb (Nat.eqb a) (conn b)) eqn:E2; try reflexivity.
    + apply mem_In in E1. apply conn_sym in E1. apply mem_In in E1. congruence.
    + apply mem_In in E2. apply conn_sym in E2. apply mem_In in E2. congruence.
Qed.

(** relax reads the state only pointwise *)
Lemma relax_steq s via U a b aim : steq a b -> steq (relax nrank s via U a aim) (relax nrank s via U b aim).
Proof.
  destruct a as [D R], b as [D' R']. intros [H1 H2]. simpl in H1, H2. unfold relax.
  destruct (negb (existsb (Nat.eqb aim) U)); [split; assumption|].
  rewrite !H1. rewrite !H2.
  destruct (D' s via + D' via aim <? D' s aim).
  - split; simpl; intros x y; unfold upd2; rewrite ?H1, ?H2; reflexivity.
  - destruct (D' s via + D' via aim =? D' s aim); [|split; assumption].
    destruct (lex_lt nrank (R' s via ++ R' via aim) (R' s aim)); [|split; assumption].
    split; simpl; intros x y; [apply H1|]. unfold upd2; rewrite ?H1, ?H2; reflexivity.
Qed.

(** the set of unvisited nodes matters only through membership of the aim *)
Lemma relax_U s via U U' st aim : existsb (Nat.eqb aim) U = existsb (Nat.eqb aim) U' ->
  relax nrank s via U st aim = relax nrank s via U' st aim.
Proof. intros H. unfold relax. destruct st. rewrite H. reflexivity. Qed.

Lemma relax_notin s via U st aim : ~ In aim U -> relax nrank s via U st aim = st.
Proof. intros H. apply mem_nIn in H. unfold relax. destruct st. rewrite H. reflexivity. Qed.

(** one relaxation of an unvisited aim: nothing if the candidate is not better, else the record of [aim] is replaced *)
Lemma relax_char s via U st aim :
  Inv st -> via <> s -> ~ In s U -> ~ In via U -> In aim (conn via) -> In aim U ->
  (rbetter (rcand st s via aim) (rget st s aim) = false /\ relax nrank s via U st aim = st) \/
  (rbetter (rcand st s via aim) (rget st s aim) = true /\
   steq (relax nrank s via U st aim) (rset s aim (rcand st s via aim) st)).
Proof.
  intros I Hvs HsU HvU Hc HaU.
  assert (EU : existsb (Nat.eqb aim) U = true) by (apply mem_In, HaU).
  assert (Has : aim <> s) by (intros ->; contradiction).
  assert (Hav : aim <> via) by (intros ->; contradiction).
  destruct (inv_adj st I via aim Hc) as [Dva Rva].
  destruct (inv_adj st I aim via (conn_sym _ _ Hc)) as [Dav Rav].
  pose proof (inv_sym st I via s) as Dvs. pose proof (inv_sym st I aim s) as Das.
  destruct st as [D R]. simpl in *. unfold relax. rewrite EU. simpl negb. cbv iota.
  unfold rbetter, rcand, rget. simpl.
  rewrite Dva, Rva.
  rewrite (upd2_neq D s aim _ via s) by (left; exact Hvs).
  rewrite (upd2_neq D s aim _ aim via) by (left; exact Has).
  rewrite (upd2_neq R s aim _ aim via) by (left; exact Has).
  rewrite (upd2_neq R s aim _ via s) by (left; exact Hvs).
  rewrite Dav, Rav, Dvs.
  destruct (D s via + 1 <? D s aim) eqn:E1.
  - right. split; [reflexivity|]. unfold rset. simpl. apply steq_refl.
  - destruct (D s via + 1 =? D s aim) eqn:E2; [|left; split; reflexivity].
    destruct (lex_lt nrank (R s via ++ [aim]) (R s aim)) eqn:E3; [|left; split; reflexivity].
    right. split; [reflexivity|]. unfold rset. simpl.
    apply Nat.eqb_eq in E2.
    split; simpl; intros a b; [|reflexivity].
    unfold upd2. destruct ((a =? aim) && (b =? s)) eqn:F1.
    + apply andb_true_iff in F1. destruct F1 as [F1 F2]. apply Nat.eqb_eq in F1. apply Nat.eqb_eq in F2. subst a b. lia.
    + destruct ((a =? s) && (b =? aim)) eqn:F2; [|reflexivity].
      apply andb_true_iff in F2. destruct F2 as [F2 F3]. apply Nat.eqb_eq in F2. apply Nat.eqb_eq in F3. subst a b. lia.
Qed.

Ltac upd_tac :=
  unfold upd2;
  repeat match goal with |- context[?a =? ?b] => destruct (Nat.eqb_spec a b) end;
  simpl; subst; try congruence; try lia; auto.

Lemma rbetter_le c r : rbetter c r = true -> rd c <= rd r.
Proof.
  unfold rbetter. intros H. apply orb_true_iff in H. destruct H as [H|H].
  - apply Nat.ltb_lt in H. lia.
  - apply andb_true_iff in H. destruct H as [H _]. apply Nat.eqb_eq in H. lia.
Qed.

Lemma Inv_rset s via aim st :
  Inv st -> via <> s -> aim <> s -> aim <> via -> In aim (conn via) ->
  rbetter (rcand st s via aim) (rget st s aim) = true -> Inv (rset s aim (rcand st s via aim) st).
Proof.
  intros I Hvs Has Hav Hc Hb.
  pose proof (rbetter_le _ _ Hb) as Hle. simpl in Hle.
  pose proof (inv_le st I s aim) as Hle2.
  pose proof (conn_sym _ _ Hc) as Hc'.
  constructor; unfold rset, rcand; simpl; intros a b.
  - pose proof (inv_ge1 st I a b). upd_tac.
  - intros Hab. pose proof (inv_adj st I a b Hab) as [H1 H2].
    assert (Hno : forall x y, In y (conn x) -> (x = s /\ y = aim) \/ (x = aim /\ y = s) -> False).
    { intros x y Hxy Hor.
      assert (D1 : fst st s aim = 1).
      { destruct Hor as [[-> ->]|[-> ->]]; [apply (inv_adj st I _ _ Hxy)|]. rewrite (inv_sym st I). apply (inv_adj st I _ _ Hxy). }
      pose proof (inv_ge1 st I s via). unfold rbetter in Hb. simpl in Hb. rewrite D1 in Hb.
      apply orb_true_iff in Hb. destruct Hb as [Hb|Hb]; [apply Nat.ltb_lt in Hb; lia|].
      apply andb_true_iff in Hb. destruct Hb as [Hb _]. apply Nat.eqb_eq in Hb. lia. }
    unfold upd2.
    destruct (Nat.eqb_spec a aim); destruct (Nat.eqb_spec b s); simpl;
      try (exfalso; apply (Hno a b Hab); right; split; assumption);
    destruct (Nat.eqb_spec a s); destruct (Nat.eqb_spec b aim); simpl;
      try (exfalso; apply (Hno a b Hab); left; split; assumption); auto.
  - pose proof (inv_le st I a b). upd_tac.
  - intros Hlt.
    unfold upd2 in *.
    destruct (Nat.eqb_spec a aim); destruct (Nat.eqb_spec b s); simpl in *.
    + subst. destruct (inv_last st I via s) as [l Hl]; [rewrite (inv_sym st I); lia|]. rewrite Hl. exists (via :: l). reflexivity.
    + destruct (Nat.eqb_spec a s); destruct (Nat.eqb_spec b aim); simpl in *; try (subst; eexists; reflexivity); apply (inv_last st I); assumption.
    + destruct (Nat.eqb_spec a s); destruct (Nat.eqb_spec b aim); simpl in *; try (subst; eexists; reflexivity); apply (inv_last st I); assumption.
    + destruct (Nat.eqb_spec a s); destruct (Nat.eqb_spec b aim); simpl in *; try (subst; eexists; reflexivity); apply (inv_last st I); assumption.
  - intros x. pose proof (inv_lt st I a b x) as H0.
    assert (Hv : via < n) by (eapply conn_lt; eauto). assert (Ha : aim < n) by (eapply conn_lt; eauto).
    pose proof (inv_lt st I via s x) as H1. pose proof (inv_lt st I s via x) as H2.
    unfold upd2.
    destruct (Nat.eqb_spec a aim); destruct (Nat.eqb_spec b s); simpl;
    destruct (Nat.eqb_spec a s); destruct (Nat.eqb_spec b aim); simpl; auto;
    try (intros [<-|Hin]; auto); try (intros Hin; apply in_app_or in Hin; destruct Hin as [Hin|[<-|[]]]; auto).
  - pose proof (inv_sym st I a b). upd_tac.
Qed.

Lemma relax_inv s via U st aim :
  Inv st -> via <> s -> ~ In s U -> ~ In via U -> In aim (conn via) -> Inv (relax nrank s via U st aim).
Proof.
  intros I Hvs HsU HvU Hc.
  destruct (in_dec Nat.eq_dec aim U) as [HaU|HaU]; [|rewrite relax_notin; assumption].
  destruct (relax_char s via U st aim I Hvs HsU HvU Hc HaU) as [[_ ->]|[Hb He]]; [exact I|].
  apply (Inv_steq _ _ (steq_sym _ _ He)). apply Inv_rset; auto; intros ->; contradiction.
Qed.

(* ---- algebra of rget / rset *)
Lemma rget_rset_same s b r st : b <> s -> rget (rset s b r st) s b = r.
Proof. intros H. destruct r. unfold rget, rset. simpl. f_equal; upd_tac. Qed.
Lemma rget_rset_other s b r st x : x <> b -> b <> s -> rget (rset s b r st) s x = rget st s x.
Proof. intros H1 H2. unfold rget, rset. simpl. f_equal; upd_tac. Qed.
Lemma rcand_rset s b r st via aim : via <> b -> b <> s -> rcand (rset s b r st) s via aim = rcand st s via aim.
Proof. intros H1 H2. unfold rcand, rset. simpl. f_equal; try f_equal; upd_tac. Qed.
Lemma rset_rset_same s b r1 r2 st : steq (rset s b r2 (rset s b r1 st)) (rset s b r2 st).
Proof. split; intros x y; unfold rset; simpl; upd_tac. Qed.
Lemma rset_comm s x y rx ry st : x <> y -> x <> s -> y <> s ->
  steq (rset s y ry (rset s x rx st)) (rset s x rx (rset s y ry st)).
Proof. intros. split; intros a b; unfold rset; simpl; upd_tac. Qed.
Lemma rset_steq s x r a b : steq a b -> steq (rset s x r a) (rset s x r b).
Proof. intros [H1 H2]. split; intros p q; unfold rset; simpl; unfold upd2; rewrite ?H1, ?H2; reflexivity. Qed.
Lemma rset_rget s b st : steq (rset s b (rget st s b) st) st.
Proof. split; intros x y; unfold rset, rget; simpl; upd_tac. Qed.

Definition rimprove (r c : rrec) : rrec := if rbetter c r then c else r.

(** closed form of one relaxation *)
Lemma relax_cf s via U st aim :
  Inv st -> via <> s -> ~ In s U -> ~ In via U -> In aim (conn via) -> In aim U ->
  steq (relax nrank s via U st aim) (rset s aim (rimprove (rget st s aim) (rcand st s via aim)) st).
Proof.
  intros I Hvs HsU HvU Hc HaU. unfold rimprove.
  destruct (relax_char s via U st aim I Hvs HsU HvU Hc HaU) as [[-> ->]|[-> He]]; [|exact He].
  apply steq_sym, rset_rget.
Qed.

Lemma rget_steq a b s x : steq a b -> rget a s x = rget b s x.
Proof. intros [H1 H2]. unfold rget. rewrite !H1, !H2. reflexivity. Qed.
Lemma rcand_steq a b s via aim : steq a b -> rcand a s via aim = rcand b s via aim.
Proof. intros [H1 H2]. unfold rcand. rewrite !H1, !H2. reflexivity. Qed.

Lemma relax_cf' s via U st st0 aim :
  steq st st0 -> Inv st -> via <> s -> ~ In s U -> ~ In via U -> In aim (conn via) -> In aim U ->
  steq (relax nrank s via U st aim) (rset s aim (rimprove (rget st0 s aim) (rcand st0 s via aim)) st0).
Proof.
  intros E I Hvs HsU HvU Hc HaU.
  eapply steq_trans; [apply relax_cf; assumption|].
  rewrite (rget_steq _ _ s aim E), (rcand_steq _ _ s via aim E). apply rset_steq, E.
Qed.

(** a relaxation does not touch the records of the other nodes, nor of nodes outside the unvisited set *)
Lemma relax_frame s via U st aim x :
  Inv st -> via <> s -> ~ In s U -> ~ In via U -> In aim (conn via) -> (x <> aim \/ ~ In x U) ->
  rget (relax nrank s via U st aim) s x = rget st s x.
Proof.
  intros I Hvs HsU HvU Hc Hx.
  destruct (in_dec Nat.eq_dec aim U) as [HaU|HaU]; [|rewrite relax_notin; auto].
  assert (x <> aim) by (destruct Hx as [Hx|Hx]; [exact Hx|intros ->; contradiction]).
  destruct (relax_char s via U st aim I Hvs HsU HvU Hc HaU) as [[_ ->]|[_ He]]; [reflexivity|].
  rewrite (rget_steq _ _ s x He). apply rget_rset_other; [assumption|intros ->; contradiction].
Qed.

(* ---- the better candidate wins whatever the order of the offers *)
Lemma rbetter_same_d c1 c2 : rd c1 = rd c2 -> rbetter c1 c2 = lex_lt nrank (rr c1) (rr c2).
Proof. intros H. unfold rbetter. rewrite H, Nat.ltb_irrefl, Nat.eqb_refl. reflexivity. Qed.

Lemma rbetter_trans_d c2 c1 r : rd c1 = rd c2 -> rbetter c2 c1 = true -> rbetter c1 r = true -> rbetter c2 r = true.
Proof.
  intros Hd H21 H1r. rewrite (rbetter_same_d c2 c1 (eq_sym Hd)) in H21.
  unfold rbetter in *. rewrite <- Hd.
  apply orb_true_iff in H1r. destruct H1r as [H|H]; [rewrite H; reflexivity|].
  apply andb_true_iff in H. destruct H as [H1 H2]. rewrite H1, (lex_trans nrank _ _ _ H21 H2). apply orb_true_r.
Qed.

Lemma rimprove_comm r c1 c2 :
  rd c1 = rd c2 -> (forall x, In x (rr c1) -> x < n) -> (forall x, In x (rr c2) -> x < n) -> rr c1 <> rr c2 ->
  rimprove (rimprove r c1) c2 = rimprove (rimprove r c2) c1.
Proof.
  intros Hd L1 L2 Hne. unfold rimprove.
  destruct (rbetter c1 r) eqn:B1; destruct (rbetter c2 r) eqn:B2; cbv iota.
  - rewrite (rbetter_same_d c2 c1 (eq_sym Hd)), (rbetter_same_d c1 c2 Hd).
    destruct (lex_lt nrank (rr c2) (rr c1)) eqn:E1; destruct (lex_lt nrank (rr c1) (rr c2)) eqn:E2; try reflexivity.
    + rewrite (lex_asym nrank _ _ E1) in E2. discriminate.
    + exfalso. apply Hne. apply (lex_total n nrank nrank_inj); assumption.
  - rewrite B1. destruct (rbetter c2 c1) eqn:B3; [|reflexivity].
    rewrite (rbetter_trans_d c2 c1 r Hd B3 B1) in B2. discriminate.
  - destruct (rbetter c1 c2) eqn:B3; [|reflexivity].
    rewrite (rbetter_trans_d c1 c2 r (eq_sym Hd) B3 B2) in B1. discriminate.
  - rewrite ?B1, ?B2. reflexivity.
Qed.

Lemma rimprove_noop r c : rd r < rd c -> rimprove r c = r.
Proof.
  intros H. unfold rimprove, rbetter.
  destruct (Nat.ltb_spec (rd c) (rd r)); [lia|]. destruct (Nat.eqb_spec (rd c) (rd r)); [lia|]. reflexivity.
Qed.
Lemma rimprove_rd_le r c : rd (rimprove r c) <= rd r.
Proof. unfold rimprove. destruct (rbetter c r) eqn:E; [apply rbetter_le, E|lia]. Qed.

Lemma rcand_distinct st s u v x : Inv st -> u <> v -> fst st s u < S n -> fst st s v < S n ->
  rr (rcand st s u x) <> rr (rcand st s v x).
Proof.
  intros I Huv Hu Hv. simpl. intros E. apply app_inj_tail in E. destruct E as [E _].
  destruct (inv_last st I s u Hu) as [lu Eu]. destruct (inv_last st I s v Hv) as [lv Ev].
  rewrite Eu, Ev in E. apply app_inj_tail in E. destruct E as [_ E]. contradiction.
Qed.

(** two relaxations offered by two tied nodes commute *)
Lemma relax_comm s u v W a x y :
  Inv a -> fst a s u = fst a s v -> u <> v -> u <> s -> v <> s ->
  ~ In s W -> ~ In u W -> ~ In v W -> In x (conn u) -> In y (conn v) ->
  steq (relax nrank s v W (relax nrank s u W a x) y) (relax nrank s u W (relax nrank s v W a y) x).
Proof.
  intros I Hm Huv Hus Hvs HsW HuW HvW Hx Hy.
  destruct (in_dec Nat.eq_dec x W) as [HxW|HxW]; [|rewrite !(relax_notin s u W _ x HxW); apply steq_refl].
  destruct (in_dec Nat.eq_dec y W) as [HyW|HyW]; [|rewrite !(relax_notin s v W _ y HyW); apply steq_refl].
  assert (Hxs : x <> s) by (intros ->; contradiction). assert (Hys : y <> s) by (intros ->; contradiction).
  assert (Hxu : x <> u) by (intros ->; contradiction). assert (Hxv : x <> v) by (intros ->; contradiction).
  assert (Hyu : y <> u) by (intros ->; contradiction). assert (Hyv : y <> v) by (intros ->; contradiction).
  pose proof (relax_cf s u W a x I Hus HsW HuW Hx HxW) as E1.
  pose proof (relax_cf s v W a y I Hvs HsW HvW Hy HyW) as E2.
  pose proof (relax_inv s u W a x I Hus HsW HuW Hx) as I1.
  pose proof (relax_inv s v W a y I Hvs HsW HvW Hy) as I2.
  pose proof (relax_cf' s v W _ _ y E1 I1 Hvs HsW HvW Hy HyW) as F1.
  pose proof (relax_cf' s u W _ _ x E2 I2 Hus HsW HuW Hx HxW) as F2.
  eapply steq_trans; [exact F1|]. eapply steq_trans; [|apply steq_sym; exact F2].
  rewrite (rcand_rset s x _ a v y) by auto. rewrite (rcand_rset s y _ a u x) by auto.
  destruct (Nat.eq_dec x y) as [<-|Hxy].
  - rewrite !rget_rset_same by assumption.
    eapply steq_trans; [apply rset_rset_same|]. eapply steq_trans; [|apply steq_sym, rset_rset_same].
    replace (rimprove (rimprove (rget a s x) (rcand a s u x)) (rcand a s v x))
       with (rimprove (rimprove (rget a s x) (rcand a s v x)) (rcand a s u x)); [apply steq_refl|].
    symmetry.
    destruct (Nat.ltb_spec (fst a s u) (S n)) as [Hlt|Hge].
    + apply rimprove_comm.
      * simpl. rewrite Hm. reflexivity.
      * simpl. intros z Hz. apply in_app_or in Hz. destruct Hz as [Hz|[<-|[]]]; [exact (inv_lt a I s u z Hz)|exact (conn_lt u x Hx)].
      * simpl. intros z Hz. apply in_app_or in Hz. destruct Hz as [Hz|[<-|[]]]; [exact (inv_lt a I s v z Hz)|exact (conn_lt v x Hy)].
      * apply rcand_distinct; auto. rewrite <- Hm. exact Hlt.
    + pose proof (inv_le a I s x) as Hle.
      assert (N1 : rimprove (rget a s x) (rcand a s u x) = rget a s x) by (apply rimprove_noop; simpl; lia).
      assert (N2 : rimprove (rget a s x) (rcand a s v x) = rget a s x) by (apply rimprove_noop; simpl; lia).
      rewrite N1, N2, N1. reflexivity.
  - rewrite (rget_rset_other s x _ a y) by auto. rewrite (rget_rset_other s y _ a x) by auto.
    apply rset_comm; assumption.
Qed.

(* ------------------------------------------------------------------ visiting a node: all its relaxations *)
Lemma fold_inv {A B} (P : A -> Prop) (f : A -> B -> A) l :
  forall a, P a -> (forall a x, In x l -> P a -> P (f a x)) -> P (fold_left f l a).
Proof.
  induction l as [|y l IH]; simpl; intros a Pa H; [exact Pa|].
  apply IH; [apply H; [left; reflexivity|exact Pa]|]. intros b x Hx. apply H. right. exact Hx.
Qed.
Lemma fold_rel {A B} (R : A -> A -> Prop) (f g : A -> B -> A) l :
  forall a b, R a b -> (forall x a b, In x l -> R a b -> R (f a x) (g b x)) -> R (fold_left f l a) (fold_left g l b).
Proof.
  induction l as [|y l IH]; simpl; intros a b Rab H; [exact Rab|].
  apply IH; [apply H; [left; reflexivity|exact Rab]|]. intros x a' b' Hx. apply H. right. exact Hx.
Qed.

Section FoldComm.
Variable K : rstate -> Prop.
Variables f g : rstate -> nat -> rstate.
Variables l1 l2 : list nat.
Hypothesis f_congr : forall a b x, steq a b -> steq (f a x) (f b x).
Hypothesis g_congr : forall a b x, steq a b -> steq (g a x) (g b x).
Hypothesis Kf : forall a x, In x l1 -> K a -> K (f a x).
Hypothesis Kg : forall a y, In y l2 -> K a -> K (g a y).
Hypothesis comm : forall a x y, In x l1 -> In y l2 -> K a -> steq (g (f a x) y) (f (g a y) x).

Lemma fold_comm1 : forall l, incl l l2 -> forall a x, In x l1 -> K a ->
  steq (fold_left g l (f a x)) (f (fold_left g l a) x).
Proof.
  induction l as [|y l IH]; intros Hi a x Hx Ka; simpl; [apply steq_refl|].
  assert (Hy : In y l2) by (apply Hi; left; reflexivity).
  eapply steq_trans.
  - apply (fold_rel steq g g l); [apply comm; eassumption|]. intros z a' b' _ E. apply g_congr, E.
  - apply IH; [intros z Hz; apply Hi; right; exact Hz|exact Hx|apply Kg; assumption].
Qed.

Lemma fold_comm : forall l, incl l l1 -> forall a, K a ->
  steq (fold_left g l2 (fold_left f l a)) (fold_left f l (fold_left g l2 a)).
Proof.
  induction l as [|x l IH]; intros Hi a Ka; simpl; [apply steq_refl|].
  assert (Hx : In x l1) by (apply Hi; left; reflexivity).
  eapply steq_trans.
  - apply IH; [intros z Hz; apply Hi; right; exact Hz|apply Kf; assumption].
  - apply (fold_rel steq f f l); [|intros z a' b' _ E; apply f_congr, E].
    apply fold_comm1; [apply incl_refl|exact Hx|exact Ka].
Qed.
End FoldComm.

Definition rstep (s via : nat) (U : list nat) (st : rstate) : rstate := fold_left (relax nrank s via U) (conn via) st.

Lemma rstep_steq s via U a b : steq a b -> steq (rstep s via U a) (rstep s via U b).
Proof. intros E. apply (fold_rel steq); [exact E|]. intros x a' b' _ E'. apply relax_steq, E'. Qed.

Lemma rstep_inv s via U st : Inv st -> via <> s -> ~ In s U -> ~ In via U -> Inv (rstep s via U st).
Proof. intros I H1 H2 H3. apply (fold_inv Inv); [exact I|]. intros a x Hx Ia. apply relax_inv; assumption. Qed.

(** records after visiting [via]: untouched outside U; inside U either untouched or at distance d(via)+1, never above the old one *)
Lemma rstep_entry s via U st : Inv st -> via <> s -> ~ In s U -> ~ In via U ->
  (forall x, ~ In x U -> rget (rstep s via U st) s x = rget st s x) /\
  (forall x, rget (rstep s via U st) s x = rget st s x \/
             (fst (rstep s via U st) s x = fst st s via + 1 /\ fst st s via + 1 <= fst st s x)).
Proof.
  intros I Hvs HsU HvU.
  set (P := fun a : rstate => Inv a /\ (forall x, ~ In x U -> rget a s x = rget st s x) /\
     (forall x, rget a s x = rget st s x \/ (fst a s x = fst st s via + 1 /\ fst st s via + 1 <= fst st s x))).
  assert (HP : P (rstep s via U st)).
  { apply (fold_inv P).
    - split; [exact I|]. split; [reflexivity|left; reflexivity].
    - intros a aim Hc [Ia [F1 F2]].
      assert (Hvia : fst a s via = fst st s via) by (apply (f_equal rd (F1 via HvU))).
      split; [apply relax_inv; assumption|]. split.
      + intros x Hx. rewrite relax_frame by auto. apply F1, Hx.
      + intros x. destruct (Nat.eq_dec x aim) as [->|Hxa].
        2:{ pose proof (relax_frame s via U a aim x Ia Hvs HsU HvU Hc (or_introl Hxa)) as Fr.
            pose proof (f_equal rd Fr) as Fr'. simpl in Fr'. rewrite Fr, Fr'. apply F2. }
        destruct (in_dec Nat.eq_dec aim U) as [HaU|HaU]; [|rewrite relax_notin by assumption; apply F2].
        destruct (relax_char s via U a aim Ia Hvs HsU HvU Hc HaU) as [[_ ->]|[Hb He]]; [apply F2|].
        right. assert (Has : aim <> s) by (intros ->; contradiction).
        pose proof (rget_steq _ _ s aim He) as Hg. rewrite rget_rset_same in Hg by assumption.
        pose proof (f_equal rd Hg) as Hd. simpl in Hd. rewrite Hd, Hvia. split; [reflexivity|].
        apply rbetter_le in Hb. simpl in Hb. rewrite Hvia in Hb.
        destruct (F2 aim) as [F|[F F']]; [pose proof (f_equal rd F) as F'; simpl in F'; lia|lia]. }
  destruct HP as [_ HP]. exact HP.
Qed.

(** visiting two tied nodes in either order gives the same state *)
Lemma rstep_comm s u v W a :
  Inv a -> fst a s u = fst a s v -> u <> v -> u <> s -> v <> s -> ~ In s W -> ~ In u W -> ~ In v W ->
  steq (rstep s v W (rstep s u W a)) (rstep s u W (rstep s v W a)).
Proof.
  intros I Hm Huv Hus Hvs HsW HuW HvW. unfold rstep.
  apply (fold_comm (fun a => Inv a /\ fst a s u = fst a s v) (relax nrank s u W) (relax nrank s v W) (conn u) (conn v)).
  - intros; apply relax_steq; assumption.
  - intros; apply relax_steq; assumption.
  - intros b x Hx [Ib Hb]. split; [apply relax_inv; assumption|].
    pose proof (f_equal rd (relax_frame s u W b x u Ib Hus HsW HuW Hx (or_intror HuW))) as E1.
    pose proof (f_equal rd (relax_frame s u W b x v Ib Hus HsW HuW Hx (or_intror HvW))) as E2.
    simpl in E1, E2. congruence.
  - intros b y Hy [Ib Hb]. split; [apply relax_inv; assumption|].
    pose proof (f_equal rd (relax_frame s v W b y u Ib Hvs HsW HvW Hy (or_intror HuW))) as E1.
    pose proof (f_equal rd (relax_frame s v W b y v Ib Hvs HsW HvW Hy (or_intror HvW))) as E2.
    simpl in E1, E2. congruence.
  - intros b x y Hx Hy [Ib Hb]. apply relax_comm; assumption.
  - apply incl_refl.
  - split; assumption.
Qed.

(* ---- removing a node from the unvisited list *)
Definition rm (x : nat) (l : list nat) : list nat := filter (fun y => negb (y =? x)) l.

Lemma In_rm y x l : In y (rm x l) <-> In y l /\ y <> x.
Proof.
  unfold rm. rewrite filter_In. split; intros [H1 H2]; split; auto.
  - intros ->. rewrite Nat.eqb_refl in H2. discriminate.
  - apply negb_true_iff, Nat.eqb_neq. exact H2.
Qed.
Lemma rm_comm x y l : rm x (rm y l) = rm y (rm x l).
Proof.
  unfold rm. induction l as [|z l IH]; simpl; [reflexivity|].
  destruct (negb (z =? y)) eqn:E1; destruct (negb (z =? x)) eqn:E2; simpl; rewrite ?E1, ?E2; rewrite ?IH; reflexivity.
Qed.
Lemma rm_length_le x l : length (rm x l) <= length l.
Proof. unfold rm. induction l as [|z l IH]; simpl; [lia|]. destruct (negb (z =? x)); simpl; lia. Qed.
Lemma rm_length x l : In x l -> length (rm x l) < length l.
Proof.
  induction l as [|z l IH]; simpl; [intros []|]. intros [->|H].
  - rewrite Nat.eqb_refl. simpl. pose proof (rm_length_le x l). unfold rm in *. lia.
  - specialize (IH H). unfold rm in *. destruct (negb (z =? x)); simpl; lia.
Qed.
Lemma mem_rm x v l : x <> v -> existsb (Nat.eqb x) (rm v l) = existsb (Nat.eqb x) l.
Proof.
  intros H. apply eq_iff_eq_true. rewrite !mem_In, In_rm. tauto.
Qed.

(** a node that is at least as near as [u] is not changed when [u] is visited: it can be dropped from the aims *)
Lemma rstep_drop s u v U a : Inv a -> u <> s -> ~ In s U -> ~ In u U -> fst a s v <= fst a s u ->
  rstep s u U a = rstep s u (rm v U) a.
Proof.
  intros I Hus HsU HuU Hle. unfold rstep.
  apply (fold_rel (fun a b : rstate => a = b /\ Inv a /\ fst a s v <= fst a s u)
                  (relax nrank s u U) (relax nrank s u (rm v U)) (conn u) a a); [auto|].
  intros x b b' Hx [<- [Ib Hb]].
  assert (Hfu : fst (relax nrank s u U b x) s u = fst b s u)
    by (apply (f_equal rd (relax_frame s u U b x u Ib Hus HsU HuU Hx (or_intror HuU)))).
  destruct (Nat.eq_dec x v) as [->|Hxv].
  - assert (E : relax nrank s u U b v = b).
    { destruct (in_dec Nat.eq_dec v U) as [HvU|HvU]; [|apply relax_notin, HvU].
      destruct (relax_char s u U b v Ib Hus HsU HuU Hx HvU) as [[_ E]|[Hb' _]]; [exact E|].
      apply rbetter_le in Hb'. simpl in Hb'. lia. }
    rewrite E. rewrite relax_notin by (rewrite In_rm; tauto). auto.
  - rewrite <- (relax_U s u U (rm v U)) by (symmetry; apply mem_rm, Hxv).
    split; [reflexivity|]. split; [apply relax_inv; assumption|].
    pose proof (f_equal rd (relax_frame s u U b x v Ib Hus HsU HuU Hx (or_introl (not_eq_sym Hxv)))) as Hfv.
    simpl in Hfv. rewrite Hfu. unfold rget in Hfv. simpl in Hfv. lia.
Qed.

(* ------------------------------------------------------------------ a pass as a nondeterministic run *)
Definition minimal (d : nat -> nat) (l : list nat) (x : nat) : Prop := In x l /\ forall y, In y l -> d x <= d y.

Inductive run (s : nat) : list nat -> rstate -> rstate -> Prop :=
| run_nil : forall st, run s [] st st
| run_pick : forall unv st via st', minimal (fst st s) unv via ->
    run s (rm via unv) (rstep s via (rm via unv) st) st' -> run s unv st st'.

Lemma minimal_exists d l : l <> [] -> exists x, minimal d l x.
Proof.
  induction l as [|y l IH]; [congruence|]. intros _. destruct l as [|z l'].
  - exists y. split; [left; reflexivity|]. intros w [<-|[]]. lia.
  - destruct IH as [x [Hx Hm]]; [discriminate|].
    destruct (le_lt_dec (d x) (d y)).
    + exists x. split; [right; exact Hx|]. intros w [<-|Hw]; [assumption|apply Hm, Hw].
    + exists y. split; [left; reflexivity|]. intros w [<-|Hw]; [lia|]. specialize (Hm w Hw). lia.
Qed.

Lemma run_total s : forall k unv st, length unv <= k -> exists st', run s unv st st'.
Proof.
  induction k as [|k IH]; intros unv st Hk.
  - destruct unv; [|simpl in Hk; lia]. exists st. constructor.
  - destruct unv as [|x0 unv0]; [exists st; constructor|].
    destruct (minimal_exists (fst st s) (x0 :: unv0)) as [via Hmin]; [discriminate|].
    destruct (IH (rm via (x0 :: unv0)) (rstep s via (rm via (x0 :: unv0)) st)) as [st' Hr].
    { pose proof (rm_length via (x0 :: unv0) (proj1 Hmin)). lia. }
    exists st'. econstructor; eassumption.
Qed.

Lemma run_inv s unv st st' : run s unv st st' -> Inv st -> ~ In s unv -> Inv st'.
Proof.
  induction 1 as [st|unv st via st' Hmin Hr IH]; intros I Hs; [exact I|].
  apply IH.
  - apply rstep_inv; [exact I| |rewrite In_rm; tauto|rewrite In_rm; tauto].
    intros ->. apply Hs, Hmin.
  - rewrite In_rm; tauto.
Qed.

(** after visiting [u], another tied node [v] is still a possible pick *)
Lemma minimal_after s unv st u v : Inv st -> ~ In s unv ->
  minimal (fst st s) unv u -> minimal (fst st s) unv v -> u <> v ->
  minimal (fst (rstep s u (rm u unv) st) s) (rm u unv) v.
Proof.
  intros I Hs [Hu Mu] [Hv Mv] Huv.
  assert (Hus : u <> s) by (intros ->; contradiction).
  destruct (rstep_entry s u (rm u unv) st I Hus) as [_ F]; [rewrite In_rm; tauto|rewrite In_rm; tauto|].
  assert (Euv : fst st s u = fst st s v) by (pose proof (Mu v Hv); pose proof (Mv u Hu); lia).
  split; [rewrite In_rm; split; auto|].
  intros y Hy. apply In_rm in Hy. destruct Hy as [Hy _].
  assert (Fv : fst (rstep s u (rm u unv) st) s v = fst st s v).
  { destruct (F v) as [E|[E1 E2]]; [apply (f_equal rd E)|lia]. }
  rewrite Fv. destruct (F y) as [E|[E1 E2]].
  - pose proof (f_equal rd E) as E'. simpl in E'. rewrite E'. apply Mv, Hy.
  - rewrite E1. lia.
Qed.

(** all complete runs of a pass end in the same state *)
Lemma run_det s : forall k unv, length unv <= k -> forall st1 st2 r1 r2,
  ~ In s unv -> Inv st1 -> Inv st2 -> steq st1 st2 ->
  run s unv st1 r1 -> run s unv st2 r2 -> steq r1 r2.
Proof.
  induction k as [|k IH]; intros unv Hk st1 st2 r1 r2 Hs I1 I2 E R1 R2.
  - destruct unv; [|simpl in Hk; lia].
    inversion R1; subst; [|exfalso; apply (proj1 H)]. inversion R2; subst; [exact E|exfalso; apply (proj1 H)].
  - inversion R1 as [|? ? u ? Mu R1']; subst.
    { inversion R2; subst; [exact E|exfalso; apply (proj1 H)]. }
    inversion R2 as [|? ? v ? Mv R2']; subst.
    { exfalso; apply (proj1 Mu). }
    assert (Mv1 : minimal (fst st1 s) unv v).
    { destruct Mv as [Hv Mv]. split; [exact Hv|]. intros y Hy. rewrite !(proj1 E). apply Mv, Hy. }
    assert (Hu : In u unv) by apply Mu. assert (Hv : In v unv) by apply Mv.
    assert (Hus : u <> s) by (intros ->; contradiction). assert (Hvs : v <> s) by (intros ->; contradiction).
    assert (Lu : length (rm u unv) <= k) by (pose proof (rm_length u unv Hu); lia).
    assert (Lv : length (rm v unv) <= k) by (pose proof (rm_length v unv Hv); lia).
    assert (Su : ~ In s (rm u unv)) by (rewrite In_rm; tauto).
    assert (Sv : ~ In s (rm v unv)) by (rewrite In_rm; tauto).
    assert (IA : Inv (rstep s u (rm u unv) st1)) by (apply rstep_inv; auto; rewrite In_rm; tauto).
    assert (IB : Inv (rstep s v (rm v unv) st2)) by (apply rstep_inv; auto; rewrite In_rm; tauto).
    destruct (Nat.eq_dec u v) as [<-|Huv].
    + apply (IH (rm u unv) Lu _ _ r1 r2 Su IA IB); [apply rstep_steq, E|assumption|assumption].
    + set (W := rm v (rm u unv)).
      assert (HW : rm u (rm v unv) = W) by apply rm_comm.
      assert (SW : ~ In s W) by (unfold W; rewrite !In_rm; tauto).
      assert (UW : ~ In u W) by (unfold W; rewrite !In_rm; tauto).
      assert (VW : ~ In v W) by (unfold W; rewrite !In_rm; tauto).
      assert (LW : length W <= k) by (pose proof (rm_length_le v (rm u unv)); unfold W; lia).
      assert (Euv : fst st1 s u = fst st1 s v).
      { apply Nat.le_antisymm; [apply (proj2 Mu v Hv)|apply (proj2 Mv1 u Hu)]. }
      assert (Euv2 : fst st2 s u = fst st2 s v) by (rewrite <- !(proj1 E); exact Euv).
      (* the two intermediate states, with the tied node dropped from the aims *)
      assert (EA : rstep s u (rm u unv) st1 = rstep s u W st1).
      { unfold W. apply rstep_drop; auto; [rewrite In_rm; tauto|lia]. }
      assert (EB : rstep s v (rm v unv) st2 = rstep s v W st2).
      { rewrite <- HW. apply rstep_drop; auto; [rewrite In_rm; tauto|lia]. }
      assert (EAB : steq (rstep s v W (rstep s u (rm u unv) st1)) (rstep s u W (rstep s v (rm v unv) st2))).
      { rewrite EA, EB. eapply steq_trans; [apply rstep_comm; assumption|].
        apply rstep_steq, rstep_steq, E. }
      assert (MA : minimal (fst (rstep s u (rm u unv) st1) s) (rm u unv) v) by (apply minimal_after; assumption).
      assert (MB : minimal (fst (rstep s v (rm v unv) st2) s) (rm v unv) u).
      { apply minimal_after; auto. destruct Mu as [_ Mu]. split; [exact Hu|]. intros y Hy. rewrite <- !(proj1 E). apply Mu, Hy. }
      destruct (run_total s k W (rstep s v W (rstep s u (rm u unv) st1)) LW) as [r3 R3].
      destruct (run_total s k W (rstep s u W (rstep s v (rm v unv) st2)) LW) as [r4 R4].
      assert (IA' : Inv (rstep s v W (rstep s u (rm u unv) st1))) by (apply rstep_inv; assumption).
      assert (IB' : Inv (rstep s u W (rstep s v (rm v unv) st2))) by (apply rstep_inv; assumption).
      assert (E13 : steq r1 r3).
      { apply (IH (rm u unv) Lu _ _ r1 r3 Su IA IA (steq_refl _) R1').
        apply (run_pick s (rm u unv) _ v r3 MA). exact R3. }
      assert (E24 : steq r2 r4).
      { apply (IH (rm v unv) Lv _ _ r2 r4 Sv IB IB (steq_refl _) R2').
        apply (run_pick s (rm v unv) _ u r4 MB). rewrite HW. exact R4. }
      assert (E34 : steq r3 r4) by (apply (IH W LW _ _ r3 r4 SW IA' IB' EAB R3 R4)).
      eapply steq_trans; [exact E13|]. eapply steq_trans; [exact E34|]. apply steq_sym, E24.
Qed.

(* ------------------------------------------------------------------ visit (any iteration order) is such a run *)
Lemma argmin_some d l : forall b, exists via, argmin d l (Some b) = Some via /\ (via = b \/ In via l) /\
  d via <= d b /\ forall y, In y l -> d via <= d y.
Proof.
  induction l as [|x l IH]; intros b; simpl.
  - exists b. split; [reflexivity|]. split; [left; reflexivity|]. split; [lia|intros y []].
  - destruct (Nat.ltb_spec (d x) (d b)) as [H|H].
    + destruct (IH x) as [via [E [Hin [Hle Hall]]]]. exists via. split; [exact E|]. split; [right; destruct Hin; [left; congruence|right; assumption]|].
      split; [lia|]. intros y [<-|Hy]; [exact Hle|apply Hall, Hy].
    + destruct (IH b) as [via [E [Hin [Hle Hall]]]]. exists via. split; [exact E|]. split; [destruct Hin; [left; assumption|right; right; assumption]|].
      split; [exact Hle|]. intros y [<-|Hy]; [lia|apply Hall, Hy].
Qed.

Lemma argmin_spec d l via : argmin d l None = Some via -> In via l /\ forall y, In y l -> d via <= d y.
Proof.
  destruct l as [|x l]; simpl; [discriminate|]. intros E.
  destruct (argmin_some d l x) as [via' [E' [Hin [Hle Hall]]]]. rewrite E in E'. injection E' as <-.
  split; [destruct Hin; [left; congruence|right; assumption]|]. intros y [<-|Hy]; [exact Hle|apply Hall, Hy].
Qed.
Lemma argmin_none d l : argmin d l None = None -> l = [].
Proof.
  destruct l as [|x l]; simpl; [reflexivity|]. intros E.
  destruct (argmin_some d l x) as [via' [E' _]]. congruence.
Qed.

Lemma visit_run order s : forall fuel unv st, length unv <= fuel -> (forall x, In x unv -> In x order) ->
  run s unv st (visit conn nrank order fuel s unv st).
Proof.
  induction fuel as [|fuel IH]; intros unv st Hl Hsub.
  - destruct unv; [|simpl in Hl; lia]. simpl. constructor.
  - simpl. destruct (argmin (fst st s) (filter (fun x => existsb (Nat.eqb x) unv) order) None) as [via|] eqn:E.
    + apply argmin_spec in E. destruct E as [Hin Hmin].
      apply filter_In in Hin. destruct Hin as [Hord Hmem]. apply mem_In in Hmem.
      assert (M : minimal (fst st s) unv via).
      { split; [exact Hmem|]. intros y Hy. apply Hmin. apply filter_In. split; [apply Hsub, Hy|apply mem_In, Hy]. }
      apply (run_pick s unv st via _ M).
      change (filter (fun x => negb (x =? via)) unv) with (rm via unv).
      change (fold_left (relax nrank s via (rm via unv)) (conn via) st) with (rstep s via (rm via unv) st).
      apply IH.
      * pose proof (rm_length via unv Hmem). lia.
      * intros x Hx. apply In_rm in Hx. apply Hsub, Hx.
    + apply argmin_none in E. destruct unv as [|x0 unv0]; [constructor|].
      exfalso. assert (Hx : In x0 (filter (fun x => existsb (Nat.eqb x) (x0 :: unv0)) order)).
      { apply filter_In. split; [apply Hsub; left; reflexivity|apply mem_In; left; reflexivity]. }
      rewrite E in Hx. destruct Hx.
Qed.

(** one pass: the result does not depend on the iteration order *)
Lemma pass_indep order1 order2 s fuel unv st1 st2 :
  length unv <= fuel -> ~ In s unv -> (forall x, In x unv -> In x order1) -> (forall x, In x unv -> In x order2) ->
  Inv st1 -> Inv st2 -> steq st1 st2 ->
  steq (visit conn nrank order1 fuel s unv st1) (visit conn nrank order2 fuel s unv st2) /\
  Inv (visit conn nrank order1 fuel s unv st1) /\ Inv (visit conn nrank order2 fuel s unv st2).
Proof.
  intros Hl Hs H1 H2 I1 I2 E.
  pose proof (visit_run order1 s fuel unv st1 Hl H1) as R1.
  pose proof (visit_run order2 s fuel unv st2 Hl H2) as R2.
  split; [apply (run_det s fuel unv Hl st1 st2 _ _ Hs I1 I2 E R1 R2)|].
  split; [apply (run_inv s unv st1 _ R1 I1 Hs)|apply (run_inv s unv st2 _ R2 I2 Hs)].
Qed.

Lemma filter_length_le {A} (f : A -> bool) l : length (filter f l) <= length l.
Proof. induction l as [|x l IH]; simpl; [lia|]. destruct (f x); simpl; lia. Qed.

Lemma all_sources_indep order1 order2 :
  (forall x, x < n -> In x order1) -> (forall x, x < n -> In x order2) ->
  steq (all_sources n conn nrank order1) (all_sources n conn nrank order2).
Proof.
  intros H1 H2. unfold all_sources.
  apply (fold_rel (fun a b : rstate => steq a b /\ Inv a /\ Inv b)
    (fun st source => visit conn nrank order1 n source (filter (fun x => negb (x =? source)) (seq 0 n)) st)
    (fun st source => visit conn nrank order2 n source (filter (fun x => negb (x =? source)) (seq 0 n)) st)
    (seq 0 n)).
  - split; [apply steq_refl|]. split; apply Inv_init.
  - intros s a b _ [E [Ia Ib]].
    change (filter (fun x => negb (x =? s)) (seq 0 n)) with (rm s (seq 0 n)).
    apply pass_indep; auto.
    + pose proof (rm_length_le s (seq 0 n)). rewrite seq_length in H. exact H.
    + rewrite In_rm. tauto.
    + intros x Hx. apply In_rm in Hx. destruct Hx as [Hx _]. apply in_seq in Hx. apply H1. lia.
    + intros x Hx. apply In_rm in Hx. destruct Hx as [Hx _]. apply in_seq in Hx. apply H2. lia.
Qed.

Theorem route_table_indep order1 order2 :
  (forall x, x < n -> In x order1) -> (forall x, x < n -> In x order2) ->
  route_table n conn nrank order1 = route_table n conn nrank order2.
Proof.
  intros H1 H2. destruct (all_sources_indep order1 order2 H1 H2) as [_ E].
  unfold route_table. apply map_ext. intros a. apply map_ext. intros b. apply E.
Qed.
End General.

(* ------------------------------------------------------------------ the statements used by Props/C06.v *)
(** For EVERY number n of layouts, every symmetric connection table with entries below n, every ranking of the names
    that is injective on the layouts, and every two iteration orders of the set (permutations of 0..n-1):
    the two route tables are equal. *)
Theorem routes_order_independent :
  forall (n : nat) (conn : nat -> list nat) (nrank : nat -> nat) (order1 order2 : list nat),
  (forall a b, In b (conn a) -> In a (conn b)) ->
  (forall a b, In b (conn a) -> b < n) ->
  (forall x y, x < n -> y < n -> nrank x = nrank y -> x = y) ->
  Permutation (seq 0 n) order1 -> Permutation (seq 0 n) order2 ->
  route_table n conn nrank order1 = route_table n conn nrank order2.
Proof.
  intros n conn nrank order1 order2 Hs Hl Hi P1 P2.
  apply (route_table_indep n conn nrank Hs Hl Hi).
  - intros x Hx. apply (Permutation_in _ P1). apply in_seq. lia.
  - intros x Hx. apply (Permutation_in _ P2). apply in_seq. lia.
Qed.

(** the connection tables built by LayoutHandler (conn_of of any list of edges between layouts below n) *)
Lemma conn_of_In edges a b : In b (conn_of edges a) <-> exists e, In e edges /\ (e = (a, b) \/ e = (b, a)).
Proof.
  unfold conn_of. rewrite in_flat_map. split.
  - intros [[p q] [He Hin]]. exists (p, q). split; [exact He|].
    destruct (Nat.eqb_spec a p) as [->|Hap].
    + destruct Hin as [<-|[]]. left. reflexivity.
    + destruct (Nat.eqb_spec a q) as [->|Haq]; [|destruct Hin]. destruct Hin as [<-|[]]. right. reflexivity.
  - intros [e [He Hor]]. exists e. split; [exact He|]. destruct Hor as [->| ->].
    + rewrite Nat.eqb_refl. left. reflexivity.
    + destruct (Nat.eqb_spec a b) as [->|Hab]; [left; reflexivity|]. rewrite Nat.eqb_refl. left. reflexivity.
Qed.

Theorem routes_order_independent_conn_of :
  forall (n : nat) (edges : list (nat * nat)) (nrank : nat -> nat) (order1 order2 : list nat),
  (forall a b, In (a, b) edges -> a < n /\ b < n) ->
  (forall x y, x < n -> y < n -> nrank x = nrank y -> x = y) ->
  Permutation (seq 0 n) order1 -> Permutation (seq 0 n) order2 ->
  route_table n (conn_of edges) nrank order1 = route_table n (conn_of edges) nrank order2.
Proof.
  intros n edges nrank order1 order2 He Hi P1 P2. apply routes_order_independent; auto.
  - intros a b H. apply conn_of_In in H. apply conn_of_In. destruct H as [e [Hin Hor]]. exists e. tauto.
  - intros a b H. apply conn_of_In in H. destruct H as [e [Hin [->| ->]]]; apply He in Hin; tauto.
Qed.

(** rank_of (the alphabetical rank used by the sweeps and the harness) is injective on the listed names *)
Fixpoint ridx (x : nat) (l : list nat) (k : nat) : nat :=
  match l with [] => k | z :: l' => if z =? x then k else ridx x l' (S k) end.
Lemma rank_of_ridx p x : rank_of p x = ridx x p 0.
Proof.
  unfold rank_of. generalize 0. induction p as [|z p IH]; intros k; simpl; [reflexivity|].
  destruct (z =? x); [reflexivity|apply IH].
Qed.
Lemma ridx_ge x l : forall k, k <= ridx x l k.
Proof. induction l as [|z l IH]; intros k; simpl; [lia|]. destruct (z =? x); [lia|]. specialize (IH (S k)). lia. Qed.
Lemma ridx_inj p : forall k x y, In x p -> In y p -> ridx x p k = ridx y p k -> x = y.
Proof.
  induction p as [|z p IH]; intros k x y Hx Hy; [destruct Hx|]. simpl.
  destruct (Nat.eqb_spec z x) as [Ezx|Hzx]; destruct (Nat.eqb_spec z y) as [Ezy|Hzy]; try congruence.
  - intros E. pose proof (ridx_ge y p (S k)). lia.
  - intros E. pose proof (ridx_ge x p (S k)). lia.
  - destruct Hx as [Hx|Hx]; [contradiction|]. destruct Hy as [Hy|Hy]; [contradiction|]. apply IH; assumption.
Qed.
Lemma rank_of_inj p x y : In x p -> In y p -> rank_of p x = rank_of p y -> x = y.
Proof. rewrite !rank_of_ridx. apply ridx_inj. Qed.

Theorem routes_order_independent_names :
  forall (n : nat) (edges : list (nat * nat)) (names order1 order2 : list nat),
  (forall a b, In (a, b) edges -> a < n /\ b < n) ->
  Permutation (seq 0 n) names -> Permutation (seq 0 n) order1 -> Permutation (seq 0 n) order2 ->
  route_table n (conn_of edges) (rank_of names) order1 = route_table n (conn_of edges) (rank_of names) order2.
Proof.
  intros n edges names order1 order2 He Pn P1 P2. apply routes_order_independent_conn_of; auto.
  intros x y Hx Hy E.
  apply (rank_of_inj names x y); [apply (Permutation_in _ Pn), in_seq; lia|apply (Permutation_in _ Pn), in_seq; lia|exact E].
Qed.

(** the finite sweeps of Routes.v / RoutesSweep.v are instances, for every n *)
Lemma perms_In : forall fuel l, length l <= fuel -> forall p, In p (perms l fuel) -> forall x, In x l -> In x p.
Proof.
  induction fuel as [|fuel IH]; intros l Hl p Hp x Hx.
  - destruct l; [destruct Hx|simpl in Hl; lia].
  - destruct l as [|x0 l0] eqn:El; [destruct Hx|]. rewrite <- El in *.
    assert (Hp' : In p (flat_map (fun x => map (cons x) (perms (filter (fun y => negb (y =? x)) l) fuel)) l)).
    { rewrite El in *. exact Hp. }
    clear Hp. apply in_flat_map in Hp'. destruct Hp' as [z [Hz Hp]]. apply in_map_iff in Hp. destruct Hp as [q [<- Hq]].
    destruct (Nat.eq_dec x z) as [->|Hxz]; [left; reflexivity|]. right.
    apply (IH (rm z l)); [pose proof (rm_length z l Hz); lia|exact Hq|apply In_rm; tauto].
Qed.

Lemma subsets_In {A} (l : list A) : forall sub, In sub (subsets l) -> forall e, In e sub -> In e l.
Proof.
  induction l as [|x l IH]; simpl; intros sub Hs e He.
  - destruct Hs as [<-|[]]. destruct He.
  - apply in_app_or in Hs. destruct Hs as [Hs|Hs]; [right; eapply IH; eauto|].
    apply in_map_iff in Hs. destruct Hs as [sub' [<- Hs]]. destruct He as [<-|He]; [left; reflexivity|right; eapply IH; eauto].
Qed.
Lemma pairs_lt n a b : In (a, b) (pairs n) -> a < n /\ b < n.
Proof.
  unfold pairs. intros H. apply in_flat_map in H. destruct H as [q [Hq H]]. apply in_map_iff in H.
  destruct H as [p [E Hp]]. injection E as <- <-. apply in_seq in Hq. apply in_seq in Hp. lia.
Qed.

Theorem order_independent_upto_all : forall n, order_independent_upto n = true.
Proof.
  intros n. unfold order_independent_upto.
  apply forallb_forall. intros edges Hedges. apply forallb_forall. intros names Hnames. apply forallb_forall. intros ord Hord.
  assert (Hn : forall x, x < n -> In x names).
  { intros x Hx. apply (perms_In n (seq 0 n)); [rewrite seq_length; lia|exact Hnames|apply in_seq; lia]. }
  assert (Ho : forall x, x < n -> In x ord).
  { intros x Hx. apply (perms_In n (seq 0 n)); [rewrite seq_length; lia|exact Hord|apply in_seq; lia]. }
  assert (E : route_table n (conn_of edges) (rank_of names) ord = route_table n (conn_of edges) (rank_of names) (seq 0 n)).
  { apply route_table_indep.
    - intros a b H. apply conn_of_In in H. apply conn_of_In. destruct H as [e [Hin Hor]]. exists e. tauto.
    - intros a b H. apply conn_of_In in H.
      destruct H as [e [Hin Hor]]. pose proof (subsets_In _ _ Hedges e Hin) as Hp.
      destruct Hor as [->| ->]; apply pairs_lt in Hp; tauto.
    - intros x y Hx Hy Exy. apply (rank_of_inj names x y); auto.
    - exact Ho.
    - intros x Hx. apply in_seq. lia. }
  destruct (list_eq_dec _ _ _) as [_|Hne]; [reflexivity|contradiction].
Qed.
