From Coq Require Import List Arith Lia Bool PeanoNat.
Import ListNotations.

(* _makeConnectionMap of pygyro.model.layout.LayoutManager, nodes = 0..n-1 in dict order.
   nrank x = alphabetical rank of the name of node x (route comparison);
   order  = iteration order of the Python set (tie-break of min). *)
Section Routes.
Variable n : nat.
Variable conn : nat -> list nat.       (* DirectConnections[name], in insertion order *)
Variable nrank : nat -> nat.
Variable order : list nat.

Definition mat (A : Type) := nat -> nat -> A.
Definition upd2 {A} (m : mat A) (i j : nat) (v : A) : mat A :=
  fun a b => if (a =? i) && (b =? j) then v else m a b.

(* Python list comparison on lists of names *)
Fixpoint lex_lt (a b : list nat) : bool :=
  match a, b with
  | [], [] => false
  | [], _ :: _ => true
  | _ :: _, [] => false
  | x :: a', y :: b' => if nrank x <? nrank y then true else if nrank y <? nrank x then false else lex_lt a' b'
  end.

Definition big := S n.     (* len(DirectConnections)+1 *)

Definition init_dist : mat nat := fun a b => if existsb (Nat.eqb b) (conn a) then 1 else big.
Definition init_route : mat (list nat) := fun a b => if existsb (Nat.eqb b) (conn a) then [b] else [].

(* min(unvisited, key=dist[source]) : first minimal element in iteration order *)
Fixpoint argmin (d : nat -> nat) (cands : list nat) (best : option nat) : option nat :=
  match cands with
  | [] => best
  | x :: xs => match best with
               | None => argmin d xs (Some x)
               | Some b => if d x <? d b then argmin d xs (Some x) else argmin d xs best
               end
  end.

Definition relax (source via : nat) (unvisited : list nat) (st : mat nat * mat (list nat)) (aim : nat)
  : mat nat * mat (list nat) :=
  let '(D, Rt) := st in
  if negb (existsb (Nat.eqb aim) unvisited) then st else
  let dnew := D source via + D via aim in
  if dnew <? D source aim then
    let D1 := upd2 D source aim dnew in
    let D2 := upd2 D1 aim source (D1 via source + D1 aim via) in
    let R1 := upd2 Rt source aim (Rt source via ++ Rt via aim) in
    let R2 := upd2 R1 aim source (R1 aim via ++ R1 via source) in
    (D2, R2)
  else if dnew =? D source aim then
    if lex_lt (Rt source via ++ Rt via aim) (Rt source aim) then
      let R1 := upd2 Rt source aim (Rt source via ++ Rt via aim) in
      let R2 := upd2 R1 aim source (R1 aim via ++ R1 via source) in
      (D, R2)
    else st
  else st.

Fixpoint visit (fuel : nat) (source : nat) (unvisited : list nat) (st : mat nat * mat (list nat)) :=
  match fuel with
  | O => st
  | S f =>
    match argmin (fst st source) (filter (fun x => existsb (Nat.eqb x) unvisited) order) None with
    | None => st
    | Some via =>
      let unv := filter (fun x => negb (x =? via)) unvisited in
      visit f source unv (fold_left (relax source via unv) (conn via) st)
    end
  end.

Definition all_sources : mat nat * mat (list nat) :=
  fold_left (fun st source => visit n source (filter (fun x => negb (x =? source)) (seq 0 n)) st)
            (seq 0 n) (init_dist, init_route).

Definition route_table : list (list (list nat)) :=
  map (fun a => map (fun b => snd all_sources a b) (seq 0 n)) (seq 0 n).
End Routes.

(* ---- enumeration of all graphs / name orders / iteration orders on n nodes ---- *)
Fixpoint perms (l : list nat) (fuel : nat) : list (list nat) :=
  match fuel with
  | O => [[]]
  | S f => match l with [] => [[]] | _ =>
      flat_map (fun x => map (cons x) (perms (filter (fun y => negb (y =? x)) l) f)) l end
  end.
Definition pairs (n : nat) : list (nat * nat) :=
  flat_map (fun b => map (fun a => (a, b)) (seq 0 b)) (seq 0 n).    (* (a,b) with a<b, in the order LayoutHandler meets them *)
Fixpoint subsets {A} (l : list A) : list (list A) :=
  match l with [] => [[]] | x :: xs => let r := subsets xs in r ++ map (cons x) r end.
(* adjacency lists exactly as built by the double loop in LayoutHandler.__init__ *)
Definition conn_of (edges : list (nat * nat)) (x : nat) : list nat :=
  flat_map (fun e => let '(a, b) := e in if x =? a then [b] else if x =? b then [a] else []) edges.
Definition rank_of (p : list nat) (x : nat) : nat :=
  (fix idx l k := match l with [] => k | y :: l' => if y =? x then k else idx l' (S k) end) p 0.

Definition order_independent_upto (n : nat) : bool :=
  forallb (fun edges =>
    forallb (fun names =>
      let ref := route_table n (conn_of edges) (rank_of names) (seq 0 n) in
      forallb (fun ord =>
        if list_eq_dec (list_eq_dec (list_eq_dec Nat.eq_dec)) (route_table n (conn_of edges) (rank_of names) ord) ref
        then true else false) (perms (seq 0 n) n))
      (perms (seq 0 n) n))
    (subsets (pairs n)).

Eval vm_compute in (length (subsets (pairs 4)), length (perms (seq 0 4) 4)).
Eval vm_compute in route_table 3 (conn_of [(0,1);(1,2)]) (rank_of [0;1;2]) [0;1;2].

Theorem routes_order_independent_le4 : order_independent_upto 3 = true /\ order_independent_upto 4 = true.
Proof. split; vm_compute; reflexivity. Qed.
