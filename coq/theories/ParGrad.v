(** C13 - parallel gradient.  Executable model of pygyro/advection/advection.py :
      ParallelGradient.getCoeffsFirstDeriv (shifts, forward / backward steps; the weights are a
      certificate checked by the moment conditions), _getThetaVals / fieldline, parallel_gradient
      (scatter-add with the three index regimes, numpy index semantics for the un-wrapped one)
    over the abstract field of SplineModel.v, and its theory. *)
From Coq Require Import List Arith Lia ZArith Bool Field Ring Setoid.
Import ListNotations.
From PGV Require Import BasisCoxDeBoor FindSpan CubicUniform Sums SplineModel SplineTheory AdvCommon FluxAdv.

Section PgrModel.
Variable F : Type.
Variable K : sp_ops F.
Notation "x + y" := (spadd K x y). Notation "x * y" := (spmul K x y).
Notation "x - y" := (spsub K x y). Notation "x / y" := (spdiv K x y).
Notation "0" := (sp0 K). Notation "1" := (sp1 K).

Variable ev : list F -> F -> sp_res F.

(** getCoeffsFirstDeriv(n), n = order + 1 *)
Definition pgr_start (n : nat) : Z := (1 - (Z.of_nat n + 1) / 2)%Z.
Definition pgr_shifts (n : nat) : list Z := map (fun t => (pgr_start n + Z.of_nat t)%Z) (seq 0 n).
Definition pgr_fwd (n : nat) : nat := Z.to_nat (- pgr_start n).                       (* _fwdSteps = -start *)
Definition pgr_bkwd (n : nat) : nat := Z.to_nat (pgr_start n + Z.of_nat n - 1).       (* _bkwdSteps = shifts[-1] *)

(** A c = b with A[i,j] = (j+start)**i, b = e_1 : the moment conditions sum_k c_k s_k^i = delta_{i1} *)
Fixpoint pgr_pow (x : F) (i : nat) : F := match i with O => 1 | S k => pgr_pow x k * x end.
Definition pgr_moment (shifts : list Z) (cs : list F) (i : nat) : F :=
  adv_sum F K (length cs) (fun k => nth k cs 0 * pgr_pow (sp_ofZ F K (nth k shifts 0%Z)) i).
Definition pgr_moments_ok (shifts : list Z) (cs : list F) : bool :=
  (length shifts =? length cs)%nat &&
  forallb (fun i => speqb K (pgr_moment shifts cs i) (if (i =? 1)%nat then 1 else 0)) (seq 0 (length cs)).

(** fieldline(theta, z_diff, iota, r, R0) = mod(theta + iota(r)*z_diff/R0, 2*pi) *)
Definition pgr_fieldline (theta zdiff iota R0 pi : F) : F :=
  adv_mod F K (theta + iota * zdiff / R0) (sp_two F K * pi).

(** _getThetaVals: thetaVals[(k+l) % n, i, :] = fieldline(eta_grid[1], dz*l, ...) for every k, i.e.
    (k -> (k+l) % n is onto) the same (order+1) x nq block in every z-row *)
Definition pgr_theta_vals (nz : nat) (shifts : list Z) (qVals : list F) (dz iota R0 pi : F)
  : sp_res (list (list (list F))) :=
  if speqb K R0 0 then SpDivErr else if speqb K (sp_two F K * pi) 0 then SpDivErr else
  SpOk (map (fun _ => map (fun l => map (fun q => pgr_fieldline q (dz * sp_ofZ F K l) iota R0 pi) qVals) shifts)
            (seq 0 nz)).

(** numpy index on an axis of extent nz: negative indices count from the end *)
Definition pgr_pyidx (nz : nat) (j : Z) : sp_res nat :=
  if ((0 <=? j) && (j <? Z.of_nat nz))%Z then SpOk (Z.to_nat j)
  else if ((- Z.of_nat nz <=? j) && (j <? 0))%Z then SpOk (Z.to_nat (j + Z.of_nat nz))
  else SpIndexErr.
Definition pgr_modidx (nz : nat) (j : Z) : sp_res nat :=
  if (nz =? 0)%nat then SpDivErr else SpOk (Z.to_nat (j mod Z.of_nat nz)).

Definition pgr_der := nat -> nat -> F.
(** der[idx, :] += c*tmp *)
Definition pgr_add_row (d : pgr_der) (idx : nat) (c : F) (tmp : list F) : pgr_der :=
  fun z q => if (z =? idx)%nat then match nth_error tmp q with Some t => d z q + c * t | None => d z q end
             else d z q.

(** for j, (s, c) in enumerate(zip(shifts, coeffs)): eval_vector(thetaVals[i, j, :], tmp); der[idx(i-s), :] += c*tmp *)
Fixpoint pgr_inner (idxf : Z -> sp_res nat) (evrow : F -> sp_res F) (tv : list (list F)) (i j : nat)
         (sc : list (Z * F)) (d : pgr_der) : sp_res pgr_der :=
  match sc with
  | [] => SpOk d
  | (s, c) :: rest =>
    match nth_error tv j with
    | None => SpIndexErr
    | Some pts =>
      sp_bind (sp_mapM evrow pts) (fun tmp =>
      sp_bind (idxf (Z.of_nat i - s)%Z) (fun idx =>
      pgr_inner idxf evrow tv i (S j) rest (pgr_add_row d idx c tmp)))
    end
  end.

(** one of the three for-loops over z-rows; [raw] = the loop that writes der[(i-s), :] without modulo *)
Fixpoint pgr_outer (raw : bool) (nz : nat) (cs : list (list F)) (thetaVals : list (list (list F)))
         (sc : list (Z * F)) (rows : list nat) (d : pgr_der) : sp_res pgr_der :=
  match rows with
  | [] => SpOk d
  | i :: rest =>
    match nth_error cs i, nth_error thetaVals i with
    | Some c, Some tv =>
      sp_bind (pgr_inner (if raw then pgr_pyidx nz else pgr_modidx nz) (ev c) tv i 0 sc d)
              (fun d' => pgr_outer raw nz cs thetaVals sc rest d')
    | _, _ => SpIndexErr
    end
  end.

(** parallel_gradient(phi_r, i, der) for one radius: [cs] = theta-spline coefficients of the nz rows of
    phi_r, [thetaVals] = self._thetaVals[rStart+i], n = order+1 (the constructor asserts nz > order) *)
Definition pgr_parallel_gradient (nz nq n : nat) (cs : list (list F)) (thetaVals : list (list (list F)))
  (shifts : list Z) (coeffs : list F) (bz inv_dz : F) : sp_res (list (list F)) :=
  if negb (n <=? nz)%nat then SpArgErr else
  let sc := combine shifts coeffs in
  let fwd := pgr_fwd n in let bkwd := pgr_bkwd n in
  sp_bind (pgr_outer false nz cs thetaVals sc (seq 0 fwd) (fun _ _ => 0)) (fun d1 =>
  sp_bind (pgr_outer true nz cs thetaVals sc (seq fwd (nz - bkwd - fwd)) d1) (fun d2 =>
  sp_bind (pgr_outer false nz cs thetaVals sc (seq (nz - bkwd) bkwd) d2) (fun d3 =>
  SpOk (map (fun z => map (fun q => d3 z q * (bz * inv_dz)) (seq 0 nq)) (seq 0 nz))))).

End PgrModel.

(* ============================================================================================ *)
Section PgrTheory.
Variable F : Type.
Variable K : sp_ops F.
Hypothesis HK : sp_laws K.
Add Field PGRF : (spl_field K HK).
Notation "x + y" := (spadd K x y). Notation "x * y" := (spmul K x y).
Notation "x - y" := (spsub K x y). Notation "x / y" := (spdiv K x y).
Notation "0" := (sp0 K). Notation "1" := (sp1 K).
Notation ofZ := (sp_ofZ F K).
Notation sumn := (adv_sum F K).
Notation sumr := (Sums.sumr F 0 (spadd K)).

Variable ev : list F -> F -> sp_res F.

(* ---- shifts ------------------------------------------------------------------------------- *)
Lemma pgr_shifts_length n : length (pgr_shifts n) = n.
Proof. unfold pgr_shifts. rewrite map_length, seq_length. reflexivity. Qed.
Lemma pgr_shifts_nth n k : (k < n)%nat -> nth k (pgr_shifts n) 0%Z = (pgr_start n + Z.of_nat k)%Z.
Proof.
  intros H. unfold pgr_shifts.
  rewrite nth_indep with (d' := (pgr_start n + Z.of_nat 0)%Z) by (rewrite map_length, seq_length; exact H).
  rewrite (map_nth (fun t => (pgr_start n + Z.of_nat t)%Z)). rewrite seq_nth by exact H. reflexivity.
Qed.
Lemma pgr_steps n : (1 <= n)%nat ->
  Z.of_nat (pgr_fwd n) = (- pgr_start n)%Z /\ Z.of_nat (pgr_bkwd n) = (pgr_start n + Z.of_nat n - 1)%Z /\
  (pgr_fwd n + pgr_bkwd n + 1 = n)%nat /\ (pgr_fwd n <= pgr_bkwd n <= pgr_fwd n + 1)%nat.
Proof.
  intros Hn. unfold pgr_fwd, pgr_bkwd, pgr_start.
  pose proof (Z.div_mod (Z.of_nat n + 1) 2 ltac:(lia)). pose proof (Z.mod_pos_bound (Z.of_nat n + 1) 2 ltac:(lia)).
  lia.
Qed.

(** C13: when the order is even (n = 2m+1 points) the stencil is centred: shifts -m .. m *)
Theorem pgr_centred_when_even m k : (k < 2 * m + 1)%nat ->
  nth k (pgr_shifts (2 * m + 1)) 0%Z = (Z.of_nat k - Z.of_nat m)%Z /\
  pgr_fwd (2 * m + 1) = m /\ pgr_bkwd (2 * m + 1) = m.
Proof.
  intros Hk. rewrite pgr_shifts_nth by exact Hk. unfold pgr_fwd, pgr_bkwd, pgr_start.
  replace (Z.of_nat (2 * m + 1) + 1)%Z with ((Z.of_nat m + 1) * 2)%Z by lia. rewrite Z.div_mul by lia. lia.
Qed.
(** odd order (n = 2m points): shifts 1-m .. m, one more point forward than backward *)
Theorem pgr_shifts_odd_order m k : (1 <= m)%nat -> (k < 2 * m)%nat ->
  nth k (pgr_shifts (2 * m)) 0%Z = (Z.of_nat k + 1 - Z.of_nat m)%Z /\
  pgr_fwd (2 * m) = (m - 1)%nat /\ pgr_bkwd (2 * m) = m.
Proof.
  intros Hm Hk. rewrite pgr_shifts_nth by exact Hk. unfold pgr_fwd, pgr_bkwd, pgr_start.
  replace ((Z.of_nat (2 * m) + 1) / 2)%Z with (Z.of_nat m).
  - lia.
  - apply Z.div_unique with (r := 1%Z); lia.
Qed.

(* ---- the three index regimes ------------------------------------------------------------------ *)
(** C13: on its rows [fwd, nz - bkwd) the loop without modulo addresses the same row as (i - s) % nz
    (numpy's negative index is needed when the order is odd), and never raises *)
Theorem pgr_regimes_eq_modulo n nz i k : (1 <= n)%nat -> (n <= nz)%nat -> (k < n)%nat ->
  (pgr_fwd n <= i < nz - pgr_bkwd n)%nat ->
  pgr_pyidx nz (Z.of_nat i - nth k (pgr_shifts n) 0%Z) = pgr_modidx nz (Z.of_nat i - nth k (pgr_shifts n) 0%Z).
Proof.
  intros Hn Hnz Hk Hi. rewrite pgr_shifts_nth by exact Hk.
  destruct (pgr_steps n Hn) as [Hf [Hb [Hs Hfb]]].
  set (j := (Z.of_nat i - (pgr_start n + Z.of_nat k))%Z).
  assert (Hj : (- 1 <= j < Z.of_nat nz)%Z) by (unfold j; lia).
  unfold pgr_pyidx, pgr_modidx. destruct (Nat.eqb_spec nz 0); [lia|].
  destruct (Z.leb_spec 0 j); destruct (Z.ltb_spec j (Z.of_nat nz)); cbn [andb]; try lia.
  - rewrite Z.mod_small by lia. reflexivity.
  - destruct (Z.leb_spec (- Z.of_nat nz) j); destruct (Z.ltb_spec j 0); cbn [andb]; try lia.
    f_equal. f_equal. apply Z.mod_unique with (q := (-1)%Z); lia.
Qed.

Lemma pgr_modidx_row nz i s : (0 < nz)%nat -> pgr_modidx nz (Z.of_nat i - s) = SpOk (fx_row_idx nz i s).
Proof. intros H. unfold pgr_modidx, fx_row_idx. destruct (Nat.eqb_spec nz 0); [lia|reflexivity]. Qed.

(* ---- sums -------------------------------------------------------------------------------------- *)
Lemma pgr_sumr_sumn n (f : nat -> F) : sumr 0 n f = sumn n f.
Proof.
  induction n as [|n IH]; [reflexivity|]. rewrite (adv_sum_S F K), <- IH.
  replace (S n) with (n + 1)%nat by lia.
  rewrite (Sums.sumr_app F 0 1 (spadd K) (spmul K) (spsub K) (spdiv K) (spopp K) (spinv K) (spl_field K HK)).
  cbn [Sums.sumr Nat.add]. ring.
Qed.
Lemma pgr_sumn_swap n m (f : nat -> nat -> F) :
  sumn n (fun i => sumn m (fun j => f i j)) = sumn m (fun j => sumn n (fun i => f i j)).
Proof. apply (Sums.sumn_swap F 0 1 (spadd K) (spmul K) (spsub K) (spdiv K) (spopp K) (spinv K) (spl_field K HK)). Qed.

Section Formula.
Variables (nz nq n : nat) (cs : list (list F)) (thetaVals : list (list (list F))) (coeffs : list F) (bz inv_dz : F).
Let shifts := pgr_shifts n.
(** V i k q : the theta-spline of z-row i at thetaVals[i, k, q] *)
Variable V : nat -> nat -> nat -> F.
Hypothesis Hn : (1 <= n)%nat.
Hypothesis Hnz : (n <= nz)%nat.
Hypothesis Hcs : length cs = nz.
Hypothesis Htv : length thetaVals = nz.
Hypothesis Hco : length coeffs = n.
Hypothesis Htv1 : forall i, (i < nz)%nat -> length (nth i thetaVals []) = n.
Hypothesis Htv2 : forall i k, (i < nz)%nat -> (k < n)%nat -> length (nth k (nth i thetaVals []) []) = nq.
Hypothesis Hev : forall i k q, (i < nz)%nat -> (k < n)%nat -> (q < nq)%nat ->
  ev (nth i cs []) (nth q (nth k (nth i thetaVals []) []) 0) = SpOk (V i k q).

Definition pgr_term (i z q k : nat) : F :=
  if ((z =? fx_row_idx nz i (nth k shifts 0%Z)) && (q <? nq))%nat then nth k coeffs 0 * V i k q else 0.

Lemma pgr_tmp_ok i k : (i < nz)%nat -> (k < n)%nat ->
  sp_mapM (ev (nth i cs [])) (nth k (nth i thetaVals []) []) = SpOk (map (fun q => V i k q) (seq 0 nq)).
Proof.
  intros Hi Hk. pose proof (Htv2 i k Hi Hk) as Hl. pose proof (Hev i k) as He.
  revert Hl He. generalize (nth k (nth i thetaVals []) []) as pts. intros pts Hl He.
  assert (G : forall (l : list F) off, (forall t, (t < length l)%nat -> nth t l 0 = nth (off + t) pts 0) ->
            (off + length l <= nq)%nat ->
            sp_mapM (ev (nth i cs [])) l = SpOk (map (fun q => V i k q) (seq off (length l)))).
  { induction l as [|x l IH]; intros off Hx Hlen; [reflexivity|]. cbn [sp_mapM length seq map].
    pose proof (Hx 0%nat ltac:(cbn; lia)) as H0. cbn [nth] in H0. rewrite Nat.add_0_r in H0. rewrite H0.
    rewrite He by (try assumption; cbn [length] in Hlen; lia). cbn [sp_bind].
    rewrite (IH (S off)); [reflexivity| |cbn [length] in Hlen; lia].
    intros t Ht. pose proof (Hx (S t) ltac:(cbn; lia)) as H1. cbn [nth] in H1. rewrite H1. f_equal. lia. }
  rewrite <- Hl. apply (G pts 0%nat); [intros; reflexivity|lia].
Qed.

Lemma pgr_inner_spec idxf i : (i < nz)%nat ->
  (forall k, (k < n)%nat -> idxf (Z.of_nat i - nth k shifts 0%Z)%Z = SpOk (fx_row_idx nz i (nth k shifts 0%Z))) ->
  forall rest j0 d, (j0 + length rest = n)%nat ->
  (forall t, (t < length rest)%nat -> nth t rest (0%Z, 0) = (nth (j0 + t) shifts 0%Z, nth (j0 + t) coeffs 0)) ->
  exists d', pgr_inner F K idxf (ev (nth i cs [])) (nth i thetaVals []) i j0 rest d = SpOk d' /\
    forall z q, d' z q = d z q + sumr j0 (length rest) (pgr_term i z q).
Proof.
  intros Hi Hidx. induction rest as [|[s c] rest IH]; intros j0 d Hlen Hnth.
  - exists d. split; [reflexivity|]. intros z q. cbn. ring.
  - cbn [pgr_inner]. cbn [length] in Hlen. assert (Hj0 : (j0 < n)%nat) by lia.
    destruct (nth_error (nth i thetaVals []) j0) as [pts|] eqn:Ep.
    2:{ apply nth_error_None in Ep. rewrite Htv1 in Ep by exact Hi. lia. }
    assert (Ep' : pts = nth j0 (nth i thetaVals []) []) by (symmetry; apply nth_error_nth with (1 := Ep)). subst pts.
    rewrite pgr_tmp_ok by assumption. cbn [sp_bind].
    pose proof (Hnth 0%nat ltac:(cbn; lia)) as H0. cbn [nth] in H0. rewrite Nat.add_0_r in H0.
    injection H0 as Es Ec. rewrite Es, Hidx by exact Hj0. cbn [sp_bind].
    destruct (IH (S j0) (pgr_add_row F K d (fx_row_idx nz i (nth j0 shifts 0%Z)) c (map (fun q => V i j0 q) (seq 0 nq))))
      as [d' [E Hd']].
    + lia.
    + intros t Ht. pose proof (Hnth (S t) ltac:(cbn; lia)) as H1. cbn [nth] in H1. rewrite H1.
      replace (j0 + S t)%nat with (S j0 + t)%nat by lia. reflexivity.
    + exists d'. split; [exact E|]. intros z q. rewrite Hd'. cbn [length Sums.sumr].
      unfold pgr_add_row at 1. unfold pgr_term at 2.
      destruct (Nat.eqb_spec z (fx_row_idx nz i (nth j0 shifts 0%Z))); cbn [andb].
      * destruct (Nat.ltb_spec q nq) as [Hq|Hq].
        -- rewrite (map_nth_error (fun q => V i j0 q) q (seq 0 nq) (d := q)).
           ++ rewrite Ec. ring.
           ++ rewrite nth_error_nth' with (d := 0%nat) by (rewrite seq_length; exact Hq).
              rewrite seq_nth by exact Hq. reflexivity.
        -- assert (En : nth_error (map (fun q => V i j0 q) (seq 0 nq)) q = None).
           { apply nth_error_None. rewrite map_length, seq_length. exact Hq. }
           rewrite En. ring.
      * ring.
Qed.

Lemma pgr_sc_nth t : (t < n)%nat ->
  nth t (combine shifts coeffs) (0%Z, 0) = (nth t shifts 0%Z, nth t coeffs 0).
Proof. intros Ht. apply combine_nth. unfold shifts. rewrite pgr_shifts_length, Hco. reflexivity. Qed.
Lemma pgr_sc_length : length (combine shifts coeffs) = n.
Proof. rewrite combine_length. unfold shifts. rewrite pgr_shifts_length, Hco. lia. Qed.

Lemma pgr_outer_spec raw : forall m a d, (a + m <= nz)%nat ->
  (raw = true -> (pgr_fwd n <= a)%nat /\ (a + m <= nz - pgr_bkwd n)%nat) ->
  exists d', pgr_outer F K ev raw nz cs thetaVals (combine shifts coeffs) (seq a m) d = SpOk d' /\
    forall z q, d' z q = d z q + sumr a m (fun i => sumn n (pgr_term i z q)).
Proof.
  induction m as [|m IH]; intros a d Ham Hraw.
  - exists d. split; [reflexivity|]. intros z q. cbn. ring.
  - cbn [seq pgr_outer].
    destruct (nth_error cs a) as [c|] eqn:Ec.
    2:{ apply nth_error_None in Ec. lia. }
    assert (Ec' : c = nth a cs []) by (symmetry; apply nth_error_nth with (1 := Ec)). subst c.
    destruct (nth_error thetaVals a) as [tv|] eqn:Et.
    2:{ apply nth_error_None in Et. lia. }
    assert (Et' : tv = nth a thetaVals []) by (symmetry; apply nth_error_nth with (1 := Et)). subst tv.
    destruct (pgr_inner_spec (if raw then pgr_pyidx nz else pgr_modidx nz) a ltac:(lia)) with
      (rest := combine shifts coeffs) (j0 := 0%nat) (d := d) as [d1 [E1 Hd1]].
    + intros k Hk. destruct raw.
      * unfold shifts. rewrite pgr_regimes_eq_modulo by (try assumption; destruct (Hraw eq_refl); lia).
        apply pgr_modidx_row. lia.
      * apply pgr_modidx_row. lia.
    + rewrite pgr_sc_length. lia.
    + intros t Ht. rewrite pgr_sc_length in Ht. apply pgr_sc_nth, Ht.
    + rewrite E1. cbn [sp_bind].
      destruct (IH (S a) d1) as [d' [E' Hd']]; [lia|intros Hr; destruct (Hraw Hr); lia|].
      exists d'. split; [exact E'|]. intros z q. rewrite Hd', Hd1. cbn [Sums.sumr].
      rewrite pgr_sc_length, pgr_sumr_sumn. ring.
Qed.

(** the gradient at (z, theta_q) *)
Definition pgr_val (z q : nat) : F :=
  sumn n (fun k => nth k coeffs 0 * V (fx_src nz z (nth k shifts 0%Z)) k q) * (bz * inv_dz).

(** C13: der[z, q] = bz/dz * sum_k c_k * S_{(z + s_k) mod nz}(thetaVals[(z+s_k) mod nz, k, q]) *)
Theorem pgr_pargrad_formula :
  pgr_parallel_gradient F K ev nz nq n cs thetaVals shifts coeffs bz inv_dz
  = SpOk (map (fun z => map (fun q => pgr_val z q) (seq 0 nq)) (seq 0 nz)).
Proof.
  unfold pgr_parallel_gradient. destruct (Nat.leb_spec n nz); [|lia]. cbn [negb]. cbv zeta.
  destruct (pgr_steps n Hn) as [Hf [Hb [Hs Hfb]]].
  destruct (pgr_outer_spec false (pgr_fwd n) 0%nat (fun _ _ => 0)) as [d1 [E1 H1]]; [lia|discriminate|].
  rewrite E1. cbn [sp_bind].
  destruct (pgr_outer_spec true (nz - pgr_bkwd n - pgr_fwd n) (pgr_fwd n) d1) as [d2 [E2 H2]]; [lia|intros _; lia|].
  rewrite E2. cbn [sp_bind].
  destruct (pgr_outer_spec false (pgr_bkwd n) (nz - pgr_bkwd n) d2) as [d3 [E3 H3]]; [lia|discriminate|].
  rewrite E3. cbn [sp_bind]. f_equal.
  apply map_ext_in. intros z Hz. apply in_seq in Hz. apply map_ext_in. intros q Hq. apply in_seq in Hq.
  unfold pgr_val. f_equal.
  rewrite H3, H2, H1.
  assert (Esum : 0 + sumr 0 (pgr_fwd n) (fun i => sumn n (pgr_term i z q))
                 + sumr (pgr_fwd n) (nz - pgr_bkwd n - pgr_fwd n) (fun i => sumn n (pgr_term i z q))
                 + sumr (nz - pgr_bkwd n) (pgr_bkwd n) (fun i => sumn n (pgr_term i z q))
                 = sumr 0 nz (fun i => sumn n (pgr_term i z q))).
  { set (f := fun i => sumn n (pgr_term i z q)).
    replace (sumr 0 nz f) with (sumr 0 (pgr_fwd n + ((nz - pgr_bkwd n - pgr_fwd n) + pgr_bkwd n)) f) by (f_equal; lia).
    rewrite !(Sums.sumr_app F 0 1 (spadd K) (spmul K) (spsub K) (spdiv K) (spopp K) (spinv K) (spl_field K HK)).
    cbn [Nat.add]. replace (pgr_fwd n + (nz - pgr_bkwd n - pgr_fwd n))%nat with (nz - pgr_bkwd n)%nat by lia. ring. }
  rewrite Esum, pgr_sumr_sumn, pgr_sumn_swap. apply adv_sum_ext. intros k Hk.
  rewrite (adv_sum_single F K HK nz _ (fx_src nz z (nth k shifts 0%Z))).
  - unfold pgr_term.
    assert (Ez : z = fx_row_idx nz (fx_src nz z (nth k shifts 0%Z)) (nth k shifts 0%Z)).
    { symmetry. apply fx_row_src; [apply fx_src_lt; lia|lia|reflexivity]. }
    destruct (Nat.eqb_spec z (fx_row_idx nz (fx_src nz z (nth k shifts 0%Z)) (nth k shifts 0%Z))); [|contradiction].
    destruct (Nat.ltb_spec q nq); [reflexivity|lia].
  - apply fx_src_lt. lia.
  - intros i Hi Hne. unfold pgr_term.
    destruct (Nat.eqb_spec z (fx_row_idx nz i (nth k shifts 0%Z))) as [Ez|_]; [|reflexivity].
    exfalso. apply Hne. symmetry. apply fx_row_src; [exact Hi|lia|symmetry; exact Ez].
Qed.

End Formula.

(* ---- corollaries (statements about [pgr_val], the value parallel_gradient returns) ---------- *)

Theorem pgr_pargrad_linear nz n coeffs bz inv_dz (V1 V2 V3 : nat -> nat -> nat -> F) a b z q :
  (forall m k, V3 m k q = a * V1 m k q + b * V2 m k q) ->
  pgr_val nz n coeffs bz inv_dz V3 z q
  = a * pgr_val nz n coeffs bz inv_dz V1 z q + b * pgr_val nz n coeffs bz inv_dz V2 z q.
Proof.
  intros H. unfold pgr_val.
  rewrite (adv_sum_ext F K n (fun k => nth k coeffs 0 * V3 (fx_src nz z (nth k (pgr_shifts n) 0%Z)) k q)
             (fun k => a * (nth k coeffs 0 * V1 (fx_src nz z (nth k (pgr_shifts n) 0%Z)) k q)
                       + b * (nth k coeffs 0 * V2 (fx_src nz z (nth k (pgr_shifts n) 0%Z)) k q)))
    by (intros k _; rewrite H; ring).
  rewrite (adv_sum_add F K HK), !(adv_sum_scale F K HK). ring.
Qed.

(** the zeroth moment condition of the weights (first entry of the certificate) *)
Lemma pgr_moment0 shifts coeffs : pgr_moments_ok F K shifts coeffs = true -> (2 <= length coeffs)%nat ->
  sumn (length coeffs) (fun k => nth k coeffs 0) = 0.
Proof.
  intros H Hl. unfold pgr_moments_ok in H. apply andb_true_iff in H. destruct H as [_ H].
  rewrite forallb_forall in H. specialize (H 0%nat ltac:(apply in_seq; lia)). cbn [Nat.eqb] in H.
  apply (spl_eqb K HK) in H. transitivity (pgr_moment F K shifts coeffs 0); [|exact H]. unfold pgr_moment. apply adv_sum_ext. intros k _. cbn [pgr_pow]. ring.
Qed.

(** C13: a function that is constant along field lines (the values met along the stencil of (z,q) are
    all equal - in particular a constant potential) has zero parallel gradient, given sum c_k = 0 *)
Theorem pgr_aligned_zero nz n coeffs bz inv_dz (V : nat -> nat -> nat -> F) z q g :
  length coeffs = n -> sumn n (fun k => nth k coeffs 0) = 0 ->
  (forall k, (k < n)%nat -> V (fx_src nz z (nth k (pgr_shifts n) 0%Z)) k q = g) ->
  pgr_val nz n coeffs bz inv_dz V z q = 0.
Proof.
  intros Hl Hs Hg. unfold pgr_val.
  rewrite (adv_sum_ext F K n _ (fun k => g * nth k coeffs 0)) by (intros k Hk; rewrite Hg by exact Hk; ring).
  rewrite (adv_sum_scale F K HK), Hs. ring.
Qed.

Theorem pgr_const_zero nz n shifts coeffs bz inv_dz (V : nat -> nat -> nat -> F) z q c :
  pgr_moments_ok F K shifts coeffs = true -> length coeffs = n -> (2 <= n)%nat ->
  (forall m k, V m k q = c) ->
  pgr_val nz n coeffs bz inv_dz V z q = 0.
Proof.
  intros Hm Hl Hn HV. apply pgr_aligned_zero with (g := c); [exact Hl| |intros; apply HV].
  rewrite <- Hl. apply (pgr_moment0 shifts); [exact Hm|lia].
Qed.

(** commutation with circular shifts in z *)
Theorem pgr_commutes_with_z_shift nz n coeffs bz inv_dz (V V' : nat -> nat -> nat -> F) (r : Z) z q :
  (0 < nz)%nat -> (forall m k, (m < nz)%nat -> V' m k q = V (fx_src nz m r) k q) ->
  pgr_val nz n coeffs bz inv_dz V' z q = pgr_val nz n coeffs bz inv_dz V (fx_src nz z r) q.
Proof.
  intros Hnz H. unfold pgr_val. f_equal. apply adv_sum_ext. intros k _.
  rewrite H by (apply fx_src_lt; exact Hnz). f_equal. f_equal.
  unfold fx_src. assert (Hp : (0 < Z.of_nat nz)%Z) by lia.
  pose proof (Z.mod_pos_bound (Z.of_nat z + nth k (pgr_shifts n) 0%Z) (Z.of_nat nz) Hp).
  pose proof (Z.mod_pos_bound (Z.of_nat z + r) (Z.of_nat nz) Hp).
  rewrite !Z2Nat.id by lia. rewrite !Z.add_mod_idemp_l by lia. f_equal. f_equal. lia.
Qed.

End PgrTheory.
