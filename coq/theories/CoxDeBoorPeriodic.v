(** Continuity across a simple knot, index shift and translation of the knots for the Cox - de Boor
    triangle above an indicator row ([Ng (delta s)], CoxDeBoorGen.v) and for its formal derivative
    ([DNg], CoxDeBoorDeriv.v).  These are the ingredients of "periodic splines take equal values and
    slopes at both ends of the period". *)
From Coq Require Import List Arith Lia Field Ring Setoid Bool.
Import ListNotations.
From PGV Require Import BasisCoxDeBoor CoxDeBoorGen CoxDeBoorDeriv CubicUniform.

Section Periodic.
Variable F : Type.
Variables (f0 f1 : F) (fadd fmul fsub fdiv : F -> F -> F) (fopp finv : F -> F).
Variable fle : F -> F -> Prop.
Hypothesis Fth : field_theory f0 f1 fadd fmul fsub fopp fdiv finv (@eq F).
Add Field FFp : Fth.
Notation "x + y" := (fadd x y). Notation "x * y" := (fmul x y).
Notation "x - y" := (fsub x y). Notation "x / y" := (fdiv x y).
Notation "0" := f0. Notation "1" := f1.
Notation "x <= y" := (fle x y).
Hypothesis le_antisym : forall x y, x <= y -> y <= x -> x = y.
Variable feqb : F -> F -> bool.
Hypothesis feqb_spec : forall a b, reflect (a = b) (feqb a b).
Notation fr := (frac F f0 fdiv feqb).
Notation NG t x b := (Ng F f0 fadd fmul fsub fdiv t x feqb b).
Notation DG t x b := (DNg F f0 f1 fadd fmul fsub fdiv t feqb b x).
Notation dl := (delta F f0 f1).

Lemma fr_self d : d <> 0 -> fr d d = 1.
Proof. intros H. unfold frac. destruct (feqb_spec d 0); [contradiction|field; assumption]. Qed.
Lemma fr_zero d : fr 0 d = 0.
Proof. unfold frac. destruct (feqb_spec d 0); [reflexivity|field; assumption]. Qed.

(** support of the derivative *)
Lemma DNd_support t x s : forall k i, (s < i \/ i + k < s)%nat -> DG t x (dl s) k i = 0.
Proof.
  induction k as [|k IH]; intros i H; cbn [DNg]; [reflexivity|].
  rewrite (IH i), (IH (S i)) by lia.
  rewrite !(Nd_support F f0 f1 fadd fmul fsub fdiv fopp finv Fth t x feqb s k) by lia. ring.
Qed.

(** continuity at a simple knot: for degree >= 1, at x = t (S s) the triangles above the indicators of
    s and of S s coincide *)
Lemma Nd_cont t s : t s <> t (S s) -> t (S s) <> t (S (S s)) ->
  forall k i, NG t (t (S s)) (dl s) (S k) i = NG t (t (S s)) (dl (S s)) (S k) i.
Proof.
  intros H1 H2. induction k as [|k IH]; intros i.
  - cbn [Ng]. unfold delta.
    replace (i + 0 + 1)%nat with (S i) by lia. replace (i + 0 + 2)%nat with (S (S i)) by lia.
    destruct (Nat.eqb_spec i s) as [->|N1].
    + destruct (Nat.eqb_spec (S s) s); [lia|]. destruct (Nat.eqb_spec s (S s)); [lia|].
      rewrite Nat.eqb_refl.
      rewrite !fr_self; [ring| |]; intros E.
      * apply H2. symmetry. replace (t (S (S s))) with ((t (S (S s)) - t (S s)) + t (S s)) by ring. rewrite E. ring.
      * apply H1. symmetry. replace (t (S s)) with ((t (S s) - t s) + t s) by ring. rewrite E. ring.
    + destruct (Nat.eqb_spec (S i) s) as [E1|N2].
      * (* i = s - 1 *) destruct (Nat.eqb_spec i (S s)); [lia|]. destruct (Nat.eqb_spec (S i) (S s)); [lia|].
        rewrite E1. replace (t (S s) - t (S s)) with 0 by ring. rewrite fr_zero. ring.
      * destruct (Nat.eqb_spec i (S s)) as [->|N3].
        -- destruct (Nat.eqb_spec (S (S s)) (S s)); [lia|].
           replace (t (S s) - t (S s)) with 0 by ring. rewrite fr_zero. ring.
        -- destruct (Nat.eqb_spec (S i) (S s)); [lia|]. ring.
  - cbn [Ng] in *. rewrite (IH i), (IH (S i)). reflexivity.
Qed.

(** index shift *)
Lemma Ng_shift t x n s : forall k i,
  NG t x (dl (s + n)) k (i + n) = NG (fun m => t (m + n)%nat) x (dl s) k i.
Proof.
  induction k as [|k IH]; intros i; cbn [Ng].
  - unfold delta. destruct (Nat.eqb_spec (i + n) (s + n)), (Nat.eqb_spec i s); try reflexivity; lia.
  - change (S (i + n)) with (S i + n)%nat. rewrite (IH i), (IH (S i)).
    replace (i + n + k + 1)%nat with (i + k + 1 + n)%nat by lia.
    replace (i + n + k + 2)%nat with (i + k + 2 + n)%nat by lia. reflexivity.
Qed.
Lemma DNg_shift t x n s : forall k i,
  DG t x (dl (s + n)) k (i + n) = DG (fun m => t (m + n)%nat) x (dl s) k i.
Proof.
  induction k as [|k IH]; intros i; cbn [DNg]; [reflexivity|].
  change (S (i + n)) with (S i + n)%nat. rewrite (IH i), (IH (S i)), !Ng_shift.
  replace (i + n + k + 1)%nat with (i + k + 1 + n)%nat by lia.
  replace (i + n + k + 2)%nat with (i + k + 2 + n)%nat by lia. reflexivity.
Qed.

(** translation of the knots *)
Lemma Ng_translate t t' P x b : forall k i,
  (forall m, (i <= m <= i + k + 1)%nat -> t' m = t m + P) ->
  NG t' (x + P) b k i = NG t x b k i.
Proof.
  induction k as [|k IH]; intros i H; cbn [Ng]; [reflexivity|].
  rewrite (IH i), (IH (S i)) by (intros; apply H; lia).
  rewrite (H i), (H (S i)), (H (i + k + 1)%nat), (H (i + k + 2)%nat) by lia.
  replace (x + P - (t i + P)) with (x - t i) by ring.
  replace (t (i + k + 1)%nat + P - (t i + P)) with (t (i + k + 1)%nat - t i) by ring.
  replace (t (i + k + 2)%nat + P - (x + P)) with (t (i + k + 2)%nat - x) by ring.
  replace (t (i + k + 2)%nat + P - (t (S i) + P)) with (t (i + k + 2)%nat - t (S i)) by ring.
  reflexivity.
Qed.
Lemma DNg_translate t t' P x b : forall k i,
  (forall m, (i <= m <= i + k + 1)%nat -> t' m = t m + P) ->
  DG t' (x + P) b k i = DG t x b k i.
Proof.
  induction k as [|k IH]; intros i H; cbn [DNg]; [reflexivity|].
  rewrite (IH i), (IH (S i)) by (intros; apply H; lia).
  rewrite !(Ng_translate t t' P x b k) by (intros; apply H; lia).
  rewrite (H i), (H (S i)), (H (i + k + 1)%nat), (H (i + k + 2)%nat) by lia.
  replace (x + P - (t i + P)) with (x - t i) by ring.
  replace (t (i + k + 1)%nat + P - (t i + P)) with (t (i + k + 1)%nat - t i) by ring.
  replace (t (i + k + 2)%nat + P - (x + P)) with (t (i + k + 2)%nat - x) by ring.
  replace (t (i + k + 2)%nat + P - (t (S i) + P)) with (t (i + k + 2)%nat - t (S i)) by ring.
  reflexivity.
Qed.

(** continuity of the derivative at a simple knot: degree >= 2 (de Boor's identity + Nd_cont) *)
Lemma DNd_cont t s : (forall a b, (a <= b)%nat -> t a <= t b) -> t s <> t (S s) -> t (S s) <> t (S (S s)) ->
  forall k i, DG t (t (S s)) (dl s) (S (S k)) i = DG t (t (S s)) (dl (S s)) (S (S k)) i.
Proof.
  intros Hm H1 H2 k i.
  rewrite !(deboor_identity F f0 f1 fadd fmul fsub fdiv fopp finv fle Fth le_antisym t feqb feqb_spec _ Hm).
  rewrite !(Nd_cont t s H1 H2). reflexivity.
Qed.

End Periodic.
