(** Theorems about the executable interpolation / quadrature model (InterpModel.v), for every field
    with a compatible decidable total order ([sp_laws]), every degree, every size. *)
From Coq Require Import List Arith Lia ZArith Bool Field Ring Setoid.
Import ListNotations.
From PGV Require Import BasisCoxDeBoor CoxDeBoorGen FindSpan CubicUniform CollocRow Sums SplineModel SplineTheory InterpModel.

(* generic list facts *)
Lemma ip_nth_map_seq {A : Type} (f : nat -> A) d : forall n a j, (j < n)%nat -> nth j (map f (seq a n)) d = f (a + j)%nat.
Proof.
  induction n as [|n IH]; intros a j Hj; [lia|]. cbn [seq map]. destruct j as [|j]; cbn [nth].
  - f_equal. lia.
  - rewrite IH by lia. f_equal. lia.
Qed.

Lemma ip_mapM_spec {A B : Type} (f : A -> sp_res B) da db : forall l l',
  sp_mapM f l = SpOk l' -> length l' = length l /\ forall i, (i < length l)%nat -> f (nth i l da) = SpOk (nth i l' db).
Proof.
  induction l as [|a l IH]; intros l' H; cbn [sp_mapM] in H.
  - inversion H. split; [reflexivity|]. intros i Hi. cbn in Hi. lia.
  - destruct (f a) as [b| | | |] eqn:Ea; cbn [sp_bind] in H; try discriminate.
    destruct (sp_mapM f l) as [bs| | | |] eqn:El; cbn [sp_bind] in H; try discriminate.
    inversion H. subst l'. destruct (IH bs eq_refl) as [Hl Hn]. split; [cbn; lia|].
    intros i Hi. destruct i as [|i]; cbn [nth]; [exact Ea|]. apply Hn. cbn in Hi. lia.
Qed.

Section IpTheory.
Variable F : Type.
Variable K : sp_ops F.
Hypothesis HK : sp_laws K.
Add Field IPF : (spl_field K HK).
Notation "x + y" := (spadd K x y). Notation "x * y" := (spmul K x y).
Notation "x - y" := (spsub K x y). Notation "x / y" := (spdiv K x y).
Notation "0" := (sp0 K). Notation "1" := (sp1 K).
Notation Fth := (spl_field K HK).
Notation sumn := (Sums.sumn F 0 (spadd K)).
Notation sumr := (Sums.sumr F 0 (spadd K)).
Notation isum := (ip_sum F K).
Notation mget := (ip_mget F K).

(* ---------------------------------------------------------------------------------------- *)
(** * sums *)
Lemma ip_sumr_sumn n f : sumr 0 n f = sumn n f.
Proof.
  induction n as [|n IH]; [reflexivity|]. replace (S n) with (n + 1)%nat by lia.
  rewrite (Sums.sumr_app F 0 1 (spadd K) (spmul K) (spsub K) (spdiv K) (spopp K) (spinv K) Fth).
  rewrite IH. replace (n + 1)%nat with (S n) by lia. cbn [Sums.sumn Sums.sumr Nat.add]. ring.
Qed.
Lemma ip_sumn_ext n f g : (forall k, (k < n)%nat -> f k = g k) -> sumn n f = sumn n g.
Proof. apply (Sums.sumn_ext F 0 (spadd K)). Qed.
Lemma ip_sumn_colloc n f : CollocRow.sumn F 0 (spadd K) n f = sumn n f.
Proof. induction n; cbn; [reflexivity|]. rewrite IHn. reflexivity. Qed.
Lemma ip_sumn_zero n : sumn n (fun _ => 0) = 0.
Proof. induction n; cbn; [reflexivity|]. rewrite IHn. ring. Qed.
Lemma ip_sumn_add n f g : sumn n (fun k => f k + g k) = sumn n f + sumn n g.
Proof. apply (Sums.sumn_add F 0 1 (spadd K) (spmul K) (spsub K) (spdiv K) (spopp K) (spinv K) Fth). Qed.
Lemma ip_sumn_scale n a f : sumn n (fun k => a * f k) = a * sumn n f.
Proof. apply (Sums.sumn_scale F 0 1 (spadd K) (spmul K) (spsub K) (spdiv K) (spopp K) (spinv K) Fth). Qed.
Lemma ip_sumn_swap n m (f : nat -> nat -> F) :
  sumn n (fun i => sumn m (fun j => f i j)) = sumn m (fun j => sumn n (fun i => f i j)).
Proof. apply (Sums.sumn_swap F 0 1 (spadd K) (spmul K) (spsub K) (spdiv K) (spopp K) (spinv K) Fth). Qed.
(** sum_k delta(i,k) f k = f i *)
Lemma ip_sumn_delta n i f : (i < n)%nat -> sumn n (fun k => ip_delta F K i k * f k) = f i.
Proof.
  induction n as [|n IH]; intros Hi; [lia|]. cbn [Sums.sumn]. unfold ip_delta at 2.
  destruct (Nat.eqb_spec i n) as [->|Hne].
  - rewrite (ip_sumn_ext n _ (fun _ => 0)); [rewrite ip_sumn_zero; ring|].
    intros k Hk. unfold ip_delta. destruct (Nat.eqb_spec n k); [lia|ring].
  - rewrite IH by lia. ring.
Qed.
Lemma ip_sumn_delta_r n j f : (j < n)%nat -> sumn n (fun k => f k * ip_delta F K k j) = f j.
Proof.
  intros Hj. rewrite (ip_sumn_ext n _ (fun k => ip_delta F K j k * f k)); [apply ip_sumn_delta, Hj|].
  intros k _. unfold ip_delta. rewrite (Nat.eqb_sym k j). ring.
Qed.

(* ---------------------------------------------------------------------------------------- *)
(** * tables *)
Lemma ip_tab_length nr nc f : length (ip_tab F nr nc f) = nr.
Proof. unfold ip_tab. rewrite map_length, seq_length. reflexivity. Qed.
Lemma ip_tab_row nr nc f i : (i < nr)%nat -> nth i (ip_tab F nr nc f) [] = map (fun j => f i j) (seq 0 nc).
Proof. intros Hi. unfold ip_tab. rewrite (ip_nth_map_seq (fun i => map (fun j => f i j) (seq 0 nc))) by exact Hi. reflexivity. Qed.
Lemma ip_tab_get nr nc f i j : (i < nr)%nat -> (j < nc)%nat -> mget (ip_tab F nr nc f) i j = f i j.
Proof. intros Hi Hj. unfold ip_mget. rewrite ip_tab_row by exact Hi.
  rewrite (ip_nth_map_seq (fun j => f i j)) by exact Hj. reflexivity. Qed.
Lemma ip_tab_row_length nr nc f i : (i < nr)%nat -> length (nth i (ip_tab F nr nc f) []) = nc.
Proof. intros Hi. rewrite ip_tab_row by exact Hi. rewrite map_length, seq_length. reflexivity. Qed.
Lemma ip_vtab_length n f : length (ip_vtab F n f) = n.
Proof. unfold ip_vtab. rewrite map_length, seq_length. reflexivity. Qed.
Lemma ip_vtab_get n f i : (i < n)%nat -> nth i (ip_vtab F n f) 0 = f i.
Proof. intros Hi. unfold ip_vtab. rewrite (ip_nth_map_seq f) by exact Hi. reflexivity. Qed.

Lemma ip_mat_eqb_true nr nc f g : ip_mat_eqb F K nr nc f g = true ->
  forall i j, (i < nr)%nat -> (j < nc)%nat -> f i j = g i j.
Proof.
  intros H i j Hi Hj. unfold ip_mat_eqb in H. rewrite forallb_forall in H.
  specialize (H i ltac:(apply in_seq; lia)). rewrite forallb_forall in H.
  specialize (H j ltac:(apply in_seq; lia)). destruct (sp_eqb_spec F K HK (f i j) (g i j)); [assumption|discriminate].
Qed.

(* ---------------------------------------------------------------------------------------- *)
(** * the solver: its specification holds by construction *)
Theorem ip_lin_solve_spec n m A B X : ip_lin_solve F K n m A B = SpOk X ->
  length X = n /\ (forall i, (i < n)%nat -> length (nth i X []) = m) /\
  forall i j, (i < n)%nat -> (j < m)%nat -> isum n (fun k => mget A i k * mget X k j) = mget B i j.
Proof.
  unfold ip_lin_solve. destruct (ip_shape_ok F n n A && ip_shape_ok F n m B); [|discriminate].
  destruct (ip_fwd F K n 0 [] _) as [rr|]; [|discriminate]. cbv zeta.
  set (X0 := ip_tab F n m (ip_mget F K (ip_back F K n n rr []))).
  destruct (ip_mat_eqb F K n m (ip_mul F K n A X0) (ip_mget F K B)) eqn:E; [|discriminate].
  intros H. inversion H. subst X. split; [apply ip_tab_length|]. split; [intros; apply ip_tab_row_length; assumption|].
  intros i j Hi Hj. exact (ip_mat_eqb_true _ _ _ _ E i j Hi Hj).
Qed.

(** a two-sided inverse makes the solution unique *)
Theorem ip_inverse_ok_spec n A Ainv : ip_inverse_ok F K n A Ainv = true ->
  (forall i j, (i < n)%nat -> (j < n)%nat -> isum n (fun k => mget Ainv i k * mget A k j) = ip_delta F K i j) /\
  (forall i j, (i < n)%nat -> (j < n)%nat -> isum n (fun k => mget A i k * mget Ainv k j) = ip_delta F K i j).
Proof.
  unfold ip_inverse_ok. intros H. apply andb_prop in H. destruct H as [H H2]. apply andb_prop in H. destruct H as [_ H1].
  split; intros i j Hi Hj.
  - exact (ip_mat_eqb_true _ _ _ _ H1 i j Hi Hj).
  - exact (ip_mat_eqb_true _ _ _ _ H2 i j Hi Hj).
Qed.

Theorem ip_inverse_spec n A Ainv : ip_inverse F K n A = SpOk Ainv -> ip_inverse_ok F K n A Ainv = true.
Proof.
  unfold ip_inverse. destruct (ip_lin_solve F K n n A _) as [X| | | |]; cbn [sp_bind]; try discriminate.
  destruct (ip_inverse_ok F K n A X) eqn:E; [|discriminate]. intros H. inversion H. subst. exact E.
Qed.

Lemma ip_unique_left n A Ainv (x y : nat -> F) :
  (forall i j, (i < n)%nat -> (j < n)%nat -> isum n (fun k => mget Ainv i k * mget A k j) = ip_delta F K i j) ->
  (forall i, (i < n)%nat -> isum n (fun k => mget A i k * x k) = isum n (fun k => mget A i k * y k)) ->
  forall j, (j < n)%nat -> x j = y j.
Proof.
  intros Hinv Heq j Hj.
  assert (E : forall z : nat -> F, z j = isum n (fun i => mget Ainv j i * isum n (fun k => mget A i k * z k))).
  { intros z. unfold ip_sum.
    rewrite (ip_sumn_ext n _ (fun i => sumn n (fun k => mget Ainv j i * mget A i k * z k))).
    2:{ intros i _. rewrite <- ip_sumn_scale. apply ip_sumn_ext. intros; ring. }
    rewrite ip_sumn_swap.
    rewrite (ip_sumn_ext n _ (fun k => ip_delta F K j k * z k)).
    - symmetry. apply ip_sumn_delta, Hj.
    - intros k Hk. rewrite <- (Hinv j k Hj Hk). unfold ip_sum.
      rewrite (ip_sumn_ext n (fun i => mget Ainv j i * mget A i k * z k) (fun i => z k * (mget Ainv j i * mget A i k))) by (intros; ring).
      rewrite ip_sumn_scale. ring. }
  rewrite (E x), (E y). unfold ip_sum. apply ip_sumn_ext. intros i Hi. f_equal. apply Heq, Hi.
Qed.

(* ---------------------------------------------------------------------------------------- *)
(** * one collocation row and the evaluation at the same point *)

Lemma ip_colloc_row_spec nb knots degree periodic cubic x r :
  ip_colloc_row F K nb knots degree periodic cubic x = SpOk r ->
  exists s b, ip_span_basis F K knots degree cubic x = SpOk (s, b) /\ (degree <= s)%nat /\
    (periodic = false -> (s < nb)%nat) /\ (1 <= nb)%nat /\ r = ip_row_of F K nb degree s periodic b.
Proof.
  unfold ip_colloc_row. destruct (ip_span_basis F K knots degree cubic x) as [[s b]| | | |]; cbn [sp_bind]; try discriminate.
  cbn [fst snd]. destruct (Nat.leb_spec degree s) as [Hds|]; cbn [andb]; [|discriminate].
  destruct (Nat.leb_spec 1 nb) as [Hnb|]; [|rewrite andb_false_r; discriminate]. rewrite andb_true_r.
  destruct periodic; cbn [orb].
  - intros Hr. inversion Hr. exists s, b. split; [reflexivity|]. split; [assumption|]. split; [discriminate|]. split; [assumption|reflexivity].
  - destruct (Nat.ltb_spec s nb) as [Hsn|]; [|discriminate]. intros Hr. inversion Hr. exists s, b.
    split; [reflexivity|]. split; [assumption|]. split; [intros _; assumption|]. split; [assumption|reflexivity].
Qed.

(** Spline1D.eval at a point whose span and basis are (s, b): sum_j coeffs[s-p+j] * b[j] *)
Lemma ip_eval1d_of_span_basis knots degree cubic c x s b :
  ip_span_basis F K knots degree cubic x = SpOk (s, b) -> (cubic = true -> degree = 3%nat) ->
  (degree <= s)%nat -> (s < length c)%nat ->
  ip_eval1d F K knots degree cubic c x = SpOk (sumn (S degree) (fun j => nth (s - degree + j) c 0 * nth j b 0)).
Proof.
  intros Hsb Hcub Hd Hs. rewrite <- ip_sumr_sumn. rewrite <- sp_dot_loop_sum by exact HK.
  unfold ip_span_basis in Hsb. unfold ip_eval1d. destruct cubic.
  - rewrite (Hcub eq_refl) in *. unfold sp_cu_eval_1d_scalar.
    destruct (sp_cu_unpack F K knots) as [[[[xmin xmax] dx] nc]| | | |]; cbn [sp_bind] in *; try discriminate.
    unfold sp_cu_point. destruct (sp_cu_find_span F K xmin xmax dx x nc) as [so| | | |]; cbn [sp_bind] in *; try discriminate.
    cbn [sp_cu_basis_sel sp_bind]. destruct (sp_span_nat (fst so)) as [s'| | | |]; cbn [sp_bind] in *; try discriminate.
    inversion Hsb. subst s' b. unfold sp_dot_checked.
    destruct (Nat.leb_spec 3 s); [|lia]. destruct (Nat.ltb_spec s (length c)); [|lia]. reflexivity.
  - unfold sp_nu_eval_1d_scalar.
    destruct (sp_nu_find_span F K knots degree x) as [s'| | | |]; cbn [sp_bind] in *; try discriminate.
    destruct (sp_nu_basis_funs F K knots degree x s') as [b'| | | |]; cbn [sp_bind] in *; try discriminate.
    inversion Hsb. subst s' b'. unfold sp_dot_checked.
    destruct (Nat.leb_spec degree s); [|lia]. destruct (Nat.ltb_spec s (length c)); [|lia]. reflexivity.
Qed.

Lemma ip_col_lt nb degree s periodic j : (1 <= nb)%nat -> (degree <= s)%nat -> (periodic = false -> (s < nb)%nat) ->
  (j <= degree)%nat -> (ip_col nb degree s periodic j < nb)%nat.
Proof.
  intros Hnb Hd Hs Hj. unfold ip_col. destruct periodic.
  - apply Nat.mod_upper_bound. lia.
  - specialize (Hs eq_refl). lia.
Qed.

Lemma ip_mod_inj nb a j j' d : (d < nb)%nat -> (j <= d)%nat -> (j' <= d)%nat ->
  ((a + j) mod nb = (a + j') mod nb)%nat -> j = j'.
Proof.
  intros Hd Hj Hj' E.
  pose proof (Nat.div_mod (a + j) nb ltac:(lia)) as E1. pose proof (Nat.div_mod (a + j') nb ltac:(lia)) as E2.
  rewrite E in E1. set (q1 := ((a + j) / nb)%nat) in *. set (q2 := ((a + j') / nb)%nat) in *.
  set (r := ((a + j') mod nb)%nat) in *.
  destruct (Nat.lt_trichotomy q1 q2) as [H|[H|H]]; [exfalso; nia|nia|exfalso; nia].
Qed.

Lemma ip_col_inj nb degree s periodic j j' : (periodic = true -> (degree + 1 <= nb)%nat) ->
  (j <= degree)%nat -> (j' <= degree)%nat ->
  ip_col nb degree s periodic j = ip_col nb degree s periodic j' -> j = j'.
Proof.
  intros Hp Hj Hj' E. unfold ip_col in E. destruct periodic; [|lia].
  apply (ip_mod_inj nb (s - degree) j j' degree); try assumption. specialize (Hp eq_refl). lia.
Qed.

(** [row_dot_is_eval] for the rows of the model: row . sol = sum_j b_j * sol[col j] *)
Lemma ip_row_dot nb degree s periodic b (sol : nat -> F) :
  (1 <= nb)%nat -> (degree <= s)%nat -> (periodic = false -> (s < nb)%nat) ->
  (periodic = true -> (degree + 1 <= nb)%nat) ->
  isum nb (fun k => nth k (ip_row_of F K nb degree s periodic b) 0 * sol k)
  = sumn (S degree) (fun j => nth j b 0 * sol (ip_col nb degree s periodic j)).
Proof.
  intros Hnb Hd Hs Hp. unfold ip_sum.
  rewrite (ip_sumn_ext nb _ (fun k => row F 0 (ip_col nb degree s periodic) (fun j => nth j b 0) degree k * sol k)).
  2:{ intros k Hk. unfold ip_row_of. rewrite ip_vtab_get by exact Hk. reflexivity. }
  rewrite <- !ip_sumn_colloc.
  apply (row_dot_is_eval F 0 1 (spadd K) (spmul K) (spsub K) (spdiv K) (spopp K) (spinv K) Fth).
  - intros j Hj. apply ip_col_lt; assumption.
  - intros j j' Hj Hj'. apply ip_col_inj; assumption.
Qed.

(** the coefficient array read by eval at s-p+j is the solution read at the (wrapped) column *)
Lemma ip_coeffs_wrap nb degree s periodic sol j : length sol = nb -> (degree <= s)%nat ->
  (periodic = false -> (s < nb)%nat) -> (periodic = true -> (degree <= nb)%nat /\ (s < nb + degree)%nat) ->
  (j <= degree)%nat ->
  nth (s - degree + j) (ip_coeffs F degree periodic sol) 0 = nth (ip_col nb degree s periodic j) sol 0.
Proof.
  intros Hl Hd Hs Hp Hj. unfold ip_coeffs, ip_col. destruct periodic; [|reflexivity].
  destruct (Hp eq_refl) as [Hdn Hsn]. set (q := (s - degree + j)%nat).
  destruct (Nat.lt_ge_cases q nb) as [Hq|Hq].
  - rewrite app_nth1 by lia. rewrite Nat.mod_small by exact Hq. reflexivity.
  - rewrite app_nth2 by lia. rewrite Hl.
    assert (Hq2 : (q - nb < degree)%nat) by (unfold q; lia).
    assert (Em : (q mod nb = q - nb)%nat).
    { replace q with ((q - nb) + 1 * nb)%nat at 1 by lia. rewrite Nat.mod_add by lia. apply Nat.mod_small. lia. }
    rewrite Em. clear Em. revert Hq2. generalize (q - nb)%nat as t. intros t Ht.
    assert (G : forall (l : list F) a t, (t < a)%nat -> nth t (firstn a l) 0 = nth t l 0).
    { induction l as [|h l IH]; intros a t0 Hlt; [rewrite firstn_nil; reflexivity|].
      destruct a; [lia|]. cbn [firstn]. destruct t0; cbn [nth]; [reflexivity|]. apply IH. lia. }
    apply G, Ht.
Qed.

Lemma ip_coeffs_length nb degree periodic sol : length sol = nb -> (degree <= nb)%nat ->
  length (ip_coeffs F degree periodic sol) = if periodic then (nb + degree)%nat else nb.
Proof. intros Hl Hd. unfold ip_coeffs. destruct periodic; [|exact Hl]. rewrite app_length, firstn_length. lia. Qed.

(* ---------------------------------------------------------------------------------------- *)
(** * compute_interpolant (1-D) *)

Lemma ip_space_ok_facts knots degree periodic cubic : ip_space_ok F K knots degree periodic cubic = true ->
  (1 <= degree)%nat /\ (1 <= ip_ncells F K knots degree cubic)%nat /\ (cubic = true -> degree = 3%nat) /\
  (periodic = true -> (degree <= ip_ncells F K knots degree cubic)%nat).
Proof.
  unfold ip_space_ok. intros H. apply andb_prop in H. destruct H as [H H4]. apply andb_prop in H. destruct H as [H H3].
  apply andb_prop in H. destruct H as [H1 H2]. apply Nat.leb_le in H1. apply Nat.leb_le in H2.
  repeat split; try assumption.
  - intros ->. apply andb_prop in H3. destruct H3 as [H3 _]. apply Nat.eqb_eq in H3. exact H3.
  - intros ->. apply Nat.leb_le in H4. exact H4.
Qed.

(** what a successful call returns *)
Lemma ip_interp_many_spec knots degree periodic cubic xs us cs :
  ip_interp_many F K knots degree periodic cubic xs us = SpOk cs ->
  let nb := ip_nbasis F K knots degree periodic cubic in
  ip_space_ok F K knots degree periodic cubic = true /\ length xs = nb /\
  (forall r, (r < length us)%nat -> length (nth r us []) = nb) /\
  exists A X, ip_colloc F K nb knots degree periodic cubic xs = SpOk A /\
    ip_lin_solve F K nb (length us) A (ip_tab F nb (length us) (fun i r => nth i (nth r us []) 0)) = SpOk X /\
    cs = map (fun r => ip_coeffs F degree periodic (ip_vtab F nb (fun i => mget X i r))) (seq 0 (length us)).
Proof.
  unfold ip_interp_many. cbv zeta. set (nb := ip_nbasis F K knots degree periodic cubic).
  destruct (ip_space_ok F K knots degree periodic cubic) eqn:Eok; cbn [andb]; [|discriminate].
  destruct (Nat.eqb_spec (length xs) nb) as [Ex|]; cbn [andb]; [|discriminate].
  destruct (forallb (fun u => (length u =? nb)%nat) us) eqn:Eu; [|discriminate].
  destruct (ip_colloc F K nb knots degree periodic cubic xs) as [A| | | |]; cbn [sp_bind]; try discriminate.
  destruct (ip_lin_solve F K nb (length us) A _) as [X| | | |] eqn:EX; cbn [sp_bind]; try discriminate.
  intros H. inversion H. split; [reflexivity|]. split; [exact Ex|]. split.
  - intros r Hr. rewrite forallb_forall in Eu. apply Nat.eqb_eq. apply Eu. apply nth_In. exact Hr.
  - exists A, X. repeat split; try reflexivity. exact EX.
Qed.

(** each returned coefficient array solves the collocation system of its data vector *)
Lemma ip_interp_many_system knots degree periodic cubic xs us cs :
  ip_interp_many F K knots degree periodic cubic xs us = SpOk cs ->
  let nb := ip_nbasis F K knots degree periodic cubic in
  length cs = length us /\
  exists A, ip_colloc F K nb knots degree periodic cubic xs = SpOk A /\
  forall r, (r < length us)%nat -> exists sol, length sol = nb /\
    nth r cs [] = ip_coeffs F degree periodic sol /\
    forall i, (i < nb)%nat -> isum nb (fun k => mget A i k * nth k sol 0) = nth i (nth r us []) 0.
Proof.
  intros H. cbv zeta. destruct (ip_interp_many_spec _ _ _ _ _ _ _ H) as [Hok [Hxs [Hus [A [X [EA [EX Ecs]]]]]]].
  set (nb := ip_nbasis F K knots degree periodic cubic) in *.
  split; [rewrite Ecs, map_length, seq_length; reflexivity|].
  exists A. split; [exact EA|]. intros r Hr.
  exists (ip_vtab F nb (fun i => mget X i r)). split; [apply ip_vtab_length|]. split.
  - rewrite Ecs. rewrite (ip_nth_map_seq (fun r => ip_coeffs F degree periodic (ip_vtab F nb (fun i => mget X i r)))) by exact Hr.
    reflexivity.
  - intros i Hi. destruct (ip_lin_solve_spec _ _ _ _ _ EX) as [_ [_ HX]].
    specialize (HX i r Hi Hr). rewrite ip_tab_get in HX by assumption. rewrite <- HX.
    unfold ip_sum. apply ip_sumn_ext. intros k Hk. rewrite ip_vtab_get by exact Hk. reflexivity.
Qed.

(** the span hypothesis of the periodic case: evaluation at the interpolation points reads inside the
    coefficient array (true for every point of the domain, see [ip_span_in_range_nu]) *)
Definition ip_spans_in_range (knots : list F) (degree : nat) (periodic cubic : bool) (xs : list F) : Prop :=
  periodic = true -> forall i s b, (i < length xs)%nat ->
    ip_span_basis F K knots degree cubic (nth i xs 0) = SpOk (s, b) -> (s < ip_ncoeffs F K knots degree cubic)%nat.

Lemma ip_span_in_range_nu knots degree periodic xs :
  (2 * degree + 1 < length knots)%nat ->
  sp_lt K (sp_kn F K knots degree) (sp_kn F K knots (length knots - 1 - degree)) ->
  ip_spans_in_range knots degree periodic false xs.
Proof.
  intros Hlen Hdom _ i s b Hi Hsb. unfold ip_span_basis in Hsb.
  destruct (sp_nu_find_span_spec F K HK knots degree (nth i xs 0) Hlen Hdom) as [s' [E [Hr _]]].
  rewrite E in Hsb. cbn [sp_bind] in Hsb.
  destruct (sp_nu_basis_funs F K knots degree (nth i xs 0) s') as [b'| | | |]; cbn [sp_bind] in Hsb; try discriminate.
  inversion Hsb. subst. unfold ip_ncoeffs, ip_ncells. lia.
Qed.

Theorem ip_interp_many_exact knots degree periodic cubic xs us cs :
  ip_interp_many F K knots degree periodic cubic xs us = SpOk cs ->
  (periodic = true -> (degree + 1 <= ip_nbasis F K knots degree periodic cubic)%nat) ->
  ip_spans_in_range knots degree periodic cubic xs ->
  forall r i, (r < length us)%nat -> (i < ip_nbasis F K knots degree periodic cubic)%nat ->
  ip_eval1d F K knots degree cubic (nth r cs []) (nth i xs 0) = SpOk (nth i (nth r us []) 0).
Proof.
  intros H Hinj Hrange r i Hr Hi.
  destruct (ip_interp_many_spec _ _ _ _ _ _ _ H) as [Hok [Hxs _]].
  destruct (ip_interp_many_system _ _ _ _ _ _ _ H) as [_ [A [EA Hsys]]].
  set (nb := ip_nbasis F K knots degree periodic cubic) in *.
  destruct (ip_space_ok_facts _ _ _ _ Hok) as [Hd1 [Hnc [Hcub Hper]]].
  destruct (Hsys r Hr) as [sol [Hl [Ec Hsol]]].
  destruct (ip_mapM_spec _ 0 [] _ _ EA) as [HlA HA]. specialize (HA i ltac:(lia)).
  destruct (ip_colloc_row_spec _ _ _ _ _ _ _ HA) as [s [b [Hsb [Hds [Hsn [Hnb Erow]]]]]].
  assert (Hnbper : periodic = true -> nb = ip_ncells F K knots degree cubic) by (intros ->; reflexivity).
  assert (Hnbcl : periodic = false -> nb = (ip_ncells F K knots degree cubic + degree)%nat) by (intros ->; reflexivity).
  assert (Hwrap : periodic = true -> (degree <= nb)%nat /\ (s < nb + degree)%nat).
  { intros Ep. split; [rewrite (Hnbper Ep); apply Hper, Ep|].
    pose proof (Hrange Ep i s b ltac:(lia) Hsb) as Hs. unfold ip_ncoeffs in Hs. rewrite (Hnbper Ep). exact Hs. }
  rewrite (ip_eval1d_of_span_basis knots degree cubic (nth r cs []) (nth i xs 0) s b Hsb Hcub Hds).
  2:{ rewrite Ec. destruct periodic.
      - rewrite (ip_coeffs_length nb) by (try assumption; apply (Hwrap eq_refl)). apply (Hwrap eq_refl).
      - rewrite (ip_coeffs_length nb) by (try assumption; rewrite (Hnbcl eq_refl); lia). apply Hsn. reflexivity. }
  f_equal. rewrite <- (Hsol i Hi). unfold ip_mget. rewrite Erow.
  rewrite (ip_row_dot nb degree s periodic b (fun k => nth k sol 0)) by assumption.
  apply ip_sumn_ext. intros j Hj. rewrite Ec.
  rewrite (ip_coeffs_wrap nb) by (try assumption; lia). ring.
Qed.

(** headline of C08 (1-D): the interpolant takes the data values at the interpolation points *)
Theorem ip_interp1d_exact knots degree periodic cubic xs u c :
  ip_interp1d F K knots degree periodic cubic xs u = SpOk c ->
  (periodic = true -> (degree + 1 <= ip_nbasis F K knots degree periodic cubic)%nat) ->
  ip_spans_in_range knots degree periodic cubic xs ->
  forall i, (i < ip_nbasis F K knots degree periodic cubic)%nat ->
  ip_eval1d F K knots degree cubic c (nth i xs 0) = SpOk (nth i u 0).
Proof.
  unfold ip_interp1d. destruct (ip_interp_many F K knots degree periodic cubic xs [u]) as [cs| | | |] eqn:E; cbn [sp_bind]; try discriminate.
  intros H Hinj Hrange i Hi. inversion H. subst c.
  exact (ip_interp_many_exact _ _ _ _ _ _ _ E Hinj Hrange 0%nat i ltac:(cbn; lia) Hi).
Qed.

(** periodic interpolants keep their wrapped coefficients consistent: c[n+j] = c[j], j < p;
    and the coefficient array has the length of Spline1D.coeffs *)
Theorem ip_interp1d_wrap knots degree periodic cubic xs u c :
  ip_interp1d F K knots degree periodic cubic xs u = SpOk c ->
  length c = ip_ncoeffs F K knots degree cubic /\
  (periodic = true -> forall j, (j < degree)%nat ->
     nth (ip_nbasis F K knots degree periodic cubic + j) c 0 = nth j c 0).
Proof.
  unfold ip_interp1d. destruct (ip_interp_many F K knots degree periodic cubic xs [u]) as [cs| | | |] eqn:E; cbn [sp_bind]; try discriminate.
  intros H. inversion H. subst c.
  destruct (ip_interp_many_spec _ _ _ _ _ _ _ E) as [Hok _].
  destruct (ip_interp_many_system _ _ _ _ _ _ _ E) as [_ [A [_ Hsys]]].
  destruct (ip_space_ok_facts _ _ _ _ Hok) as [Hd1 [Hnc [Hcub Hper]]].
  destruct (Hsys 0%nat ltac:(cbn; lia)) as [sol [Hl [Ec _]]]. rewrite Ec.
  set (nb := ip_nbasis F K knots degree periodic cubic) in *.
  split.
  - unfold ip_ncoeffs. destruct periodic.
    + rewrite (ip_coeffs_length nb) by (try assumption; apply Hper; reflexivity). reflexivity.
    + rewrite (ip_coeffs_length nb) by (try assumption; unfold nb, ip_nbasis; lia). reflexivity.
  - intros -> j Hj. unfold ip_coeffs. specialize (Hper eq_refl). change (ip_ncells F K knots degree cubic) with nb in Hper.
    rewrite app_nth2 by lia. rewrite Hl. replace (nb + j - nb)%nat with j by lia.
    rewrite app_nth1 by lia.
    assert (G : forall (l : list F) a t, (t < a)%nat -> nth t (firstn a l) 0 = nth t l 0).
    { induction l as [|h l IH]; intros a t0 Hlt; [rewrite firstn_nil; reflexivity|].
      destruct a; [lia|]. cbn [firstn]. destruct t0; cbn [nth]; [reflexivity|]. apply IH. lia. }
    apply G, Hj.
Qed.

End IpTheory.
