(** Theorems about the executable interpolation / quadrature model (InterpModel.v), for every field
    with a compatible decidable total order ([sp_laws]), every degree, every size. *)
From Coq Require Import List Arith Lia ZArith Bool Field Ring Setoid.
Import ListNotations.
From PGV Require Import BasisCoxDeBoor CoxDeBoorGen FindSpan CubicUniform CollocRow Sums SplineModel SplineTheory InterpModel.

(* generic list facts *)
Lemma ip_nth_map_seq {A : Type} (f : nat -> A) d : forall n a j, (j < n)%nat -> nth j (map f (seq a n)) d = f (a + j)%nat.
Proof.
  induction n as [|n IH]; intros a j Hj; [lia|]. cbn [seq map]. destruct j as [|j]; cbn [nth].
  - f_equal. lia.
  - rewrite IH by lia. f_equal. lia.
Qed.

Lemma ip_mapM_spec {A B : Type} (f : A -> sp_res B) da db : forall l l',
  sp_mapM f l = SpOk l' -> length l' = length l /\ forall i, (i < length l)%nat -> f (nth i l da) = SpOk (nth i l' db).
Proof.
  induction l as [|a l IH]; intros l' H; cbn [sp_mapM] in H.
  - inversion H. split; [reflexivity|]. intros i Hi. cbn in Hi. lia.
  - destruct (f a) as [b| | | |] eqn:Ea; cbn [sp_bind] in H; try discriminate.
    destruct (sp_mapM f l) as [bs| | | |] eqn:El; cbn [sp_bind] in H; try discriminate.
    inversion H. subst l'. destruct (IH bs eq_refl) as [Hl Hn]. split; [cbn; lia|].
    intros i Hi. destruct i as [|i]; cbn [nth]; [exact Ea|]. apply Hn. cbn in Hi. lia.
Qed.

Section IpTheory.
Variable F : Type.
Variable K : sp_ops F.
Hypothesis HK : sp_laws K.
Add Field IPF : (spl_field K HK).
Notation "x + y" := (spadd K x y). Notation "x * y" := (spmul K x y).
Notation "x - y" := (spsub K x y). Notation "x / y" := (spdiv K x y).
Notation "0" := (sp0 K). Notation "1" := (sp1 K).
Notation Fth := (spl_field K HK).
Notation sumn := (Sums.sumn F 0 (spadd K)).
Notation sumr := (Sums.sumr F 0 (spadd K)).
Notation isum := (ip_sum F K).
Notation mget := (ip_mget F K).

(* ---------------------------------------------------------------------------------------- *)
(** * sums *)
Lemma ip_sumr_sumn n f : sumr 0 n f = sumn n f.
Proof.
  induction n as [|n IH]; [reflexivity|]. replace (S n) with (n + 1)%nat by lia.
  rewrite (Sums.sumr_app F 0 1 (spadd K) (spmul K) (spsub K) (spdiv K) (spopp K) (spinv K) Fth).
  rewrite IH. replace (n + 1)%nat with (S n) by lia. cbn [Sums.sumn Sums.sumr Nat.add]. ring.
Qed.
Lemma ip_sumn_ext n f g : (forall k, (k < n)%nat -> f k = g k) -> sumn n f = sumn n g.
Proof. apply (Sums.sumn_ext F 0 (spadd K)). Qed.
Lemma ip_sumn_colloc n f : CollocRow.sumn F 0 (spadd K) n f = sumn n f.
Proof. induction n; cbn; [reflexivity|]. rewrite IHn. reflexivity. Qed.
Lemma ip_sumn_zero n : sumn n (fun _ => 0) = 0.
Proof. induction n; cbn; [reflexivity|]. rewrite IHn. ring. Qed.
Lemma ip_sumn_add n f g : sumn n (fun k => f k + g k) = sumn n f + sumn n g.
Proof. apply (Sums.sumn_add F 0 1 (spadd K) (spmul K) (spsub K) (spdiv K) (spopp K) (spinv K) Fth). Qed.
Lemma ip_sumn_scale n a f : sumn n (fun k => a * f k) = a * sumn n f.
Proof. apply (Sums.sumn_scale F 0 1 (spadd K) (spmul K) (spsub K) (spdiv K) (spopp K) (spinv K) Fth). Qed.
Lemma ip_sumn_swap n m (f : nat -> nat -> F) :
  sumn n (fun i => sumn m (fun j => f i j)) = sumn m (fun j => sumn n (fun i => f i j)).
Proof. apply (Sums.sumn_swap F 0 1 (spadd K) (spmul K) (spsub K) (spdiv K) (spopp K) (spinv K) Fth). Qed.
(** sum_k delta(i,k) f k = f i *)
Lemma ip_sumn_delta n i f : (i < n)%nat -> sumn n (fun k => ip_delta F K i k * f k) = f i.
Proof.
  induction n as [|n IH]; intros Hi; [lia|]. cbn [Sums.sumn]. unfold ip_delta at 2.
  destruct (Nat.eqb_spec i n) as [->|Hne].
  - rewrite (ip_sumn_ext n _ (fun _ => 0)); [rewrite ip_sumn_zero; ring|].
    intros k Hk. unfold ip_delta. destruct (Nat.eqb_spec n k); [lia|ring].
  - rewrite IH by lia. ring.
Qed.
Lemma ip_sumn_delta_r n j f : (j < n)%nat -> sumn n (fun k => f k * ip_delta F K k j) = f j.
Proof.
  intros Hj. rewrite (ip_sumn_ext n _ (fun k => ip_delta F K j k * f k)); [apply ip_sumn_delta, Hj|].
  intros k _. unfold ip_delta. rewrite (Nat.eqb_sym k j). ring.
Qed.

(* ---------------------------------------------------------------------------------------- *)
(** * tables *)
Lemma ip_tab_length nr nc f : length (ip_tab F nr nc f) = nr.
Proof. unfold ip_tab. rewrite map_length, seq_length. reflexivity. Qed.
Lemma ip_tab_row nr nc f i : (i < nr)%nat -> nth i (ip_tab F nr nc f) [] = map (fun j => f i j) (seq 0 nc).
Proof. intros Hi. unfold ip_tab. rewrite (ip_nth_map_seq (fun i => map (fun j => f i j) (seq 0 nc))) by exact Hi. reflexivity. Qed.
Lemma ip_tab_get nr nc f i j : (i < nr)%nat -> (j < nc)%nat -> mget (ip_tab F nr nc f) i j = f i j.
Proof. intros Hi Hj. unfold ip_mget. rewrite ip_tab_row by exact Hi.
  rewrite (ip_nth_map_seq (fun j => f i j)) by exact Hj. reflexivity. Qed.
Lemma ip_tab_row_length nr nc f i : (i < nr)%nat -> length (nth i (ip_tab F nr nc f) []) = nc.
Proof. intros Hi. rewrite ip_tab_row by exact Hi. rewrite map_length, seq_length. reflexivity. Qed.
Lemma ip_vtab_length n f : length (ip_vtab F n f) = n.
Proof. unfold ip_vtab. rewrite map_length, seq_length. reflexivity. Qed.
Lemma ip_vtab_get n f i : (i < n)%nat -> nth i (ip_vtab F n f) 0 = f i.
Proof. intros Hi. unfold ip_vtab. rewrite (ip_nth_map_seq f) by exact Hi. reflexivity. Qed.

Lemma ip_mat_eqb_true nr nc f g : ip_mat_eqb F K nr nc f g = true ->
  forall i j, (i < nr)%nat -> (j < nc)%nat -> f i j = g i j.
Proof.
  intros H i j Hi Hj. unfold ip_mat_eqb in H. rewrite forallb_forall in H.
  specialize (H i ltac:(apply in_seq; lia)). rewrite forallb_forall in H.
  specialize (H j ltac:(apply in_seq; lia)). destruct (sp_eqb_spec F K HK (f i j) (g i j)); [assumption|discriminate].
Qed.

(* ---------------------------------------------------------------------------------------- *)
(** * the solver: its specification holds by construction *)
Theorem ip_lin_solve_spec n m A B X : ip_lin_solve F K n m A B = SpOk X ->
  length X = n /\ (forall i, (i < n)%nat -> length (nth i X []) = m) /\
  forall i j, (i < n)%nat -> (j < m)%nat -> isum n (fun k => mget A i k * mget X k j) = mget B i j.
Proof.
  unfold ip_lin_solve. destruct (ip_shape_ok F n n A && ip_shape_ok F n m B); [|discriminate].
  destruct (ip_fwd F K n 0 [] _) as [rr|]; [|discriminate]. cbv zeta.
  set (X0 := ip_tab F n m (ip_mget F K (ip_back F K n n rr []))).
  destruct (ip_mat_eqb F K n m (ip_mul F K n A X0) (ip_mget F K B)) eqn:E; [|discriminate].
  intros H. inversion H. subst X. split; [apply ip_tab_length|]. split; [intros; apply ip_tab_row_length; assumption|].
  intros i j Hi Hj. exact (ip_mat_eqb_true _ _ _ _ E i j Hi Hj).
Qed.

(** a two-sided inverse makes the solution unique *)
Theorem ip_inverse_ok_spec n A Ainv : ip_inverse_ok F K n A Ainv = true ->
  (forall i j, (i < n)%nat -> (j < n)%nat -> isum n (fun k => mget Ainv i k * mget A k j) = ip_delta F K i j) /\
  (forall i j, (i < n)%nat -> (j < n)%nat -> isum n (fun k => mget A i k * mget Ainv k j) = ip_delta F K i j).
Proof.
  unfold ip_inverse_ok. intros H. apply andb_prop in H. destruct H as [H H2]. apply andb_prop in H. destruct H as [_ H1].
  split; intros i j Hi Hj.
  - exact (ip_mat_eqb_true _ _ _ _ H1 i j Hi Hj).
  - exact (ip_mat_eqb_true _ _ _ _ H2 i j Hi Hj).
Qed.

Theorem ip_inverse_spec n A Ainv : ip_inverse F K n A = SpOk Ainv -> ip_inverse_ok F K n A Ainv = true.
Proof.
  unfold ip_inverse. destruct (ip_lin_solve F K n n A _) as [X| | | |]; cbn [sp_bind]; try discriminate.
  destruct (ip_inverse_ok F K n A X) eqn:E; [|discriminate]. intros H. inversion H. subst. exact E.
Qed.

Lemma ip_unique_left n A Ainv (x y : nat -> F) :
  (forall i j, (i < n)%nat -> (j < n)%nat -> isum n (fun k => mget Ainv i k * mget A k j) = ip_delta F K i j) ->
  (forall i, (i < n)%nat -> isum n (fun k => mget A i k * x k) = isum n (fun k => mget A i k * y k)) ->
  forall j, (j < n)%nat -> x j = y j.
Proof.
  intros Hinv Heq j Hj.
  assert (E : forall z : nat -> F, z j = isum n (fun i => mget Ainv j i * isum n (fun k => mget A i k * z k))).
  { intros z. unfold ip_sum.
    rewrite (ip_sumn_ext n _ (fun i => sumn n (fun k => mget Ainv j i * mget A i k * z k))).
    2:{ intros i _. rewrite <- ip_sumn_scale. apply ip_sumn_ext. intros; ring. }
    rewrite ip_sumn_swap.
    rewrite (ip_sumn_ext n _ (fun k => ip_delta F K j k * z k)).
    - symmetry. apply ip_sumn_delta, Hj.
    - intros k Hk. rewrite <- (Hinv j k Hj Hk). unfold ip_sum.
      rewrite (ip_sumn_ext n (fun i => mget Ainv j i * mget A i k * z k) (fun i => z k * (mget Ainv j i * mget A i k))) by (intros; ring).
      rewrite ip_sumn_scale. ring. }
  rewrite (E x), (E y). unfold ip_sum. apply ip_sumn_ext. intros i Hi. f_equal. apply Heq, Hi.
Qed.

(* ---------------------------------------------------------------------------------------- *)
(** * one collocation row and the evaluation at the same point *)

Lemma ip_colloc_row_spec nb knots degree periodic cubic x r :
  ip_colloc_row F K nb knots degree periodic cubic x = SpOk r ->
  exists s b, ip_span_basis F K knots degree cubic x = SpOk (s, b) /\ (degree <= s)%nat /\
    (periodic = false -> (s < nb)%nat) /\ (1 <= nb)%nat /\ r = ip_row_of F K nb degree s periodic b.
Proof.
  unfold ip_colloc_row. destruct (ip_span_basis F K knots degree cubic x) as [[s b]| | | |]; cbn [sp_bind]; try discriminate.
  cbn [fst snd]. destruct (Nat.leb_spec degree s) as [Hds|]; cbn [andb]; [|discriminate].
  destruct (Nat.leb_spec 1 nb) as [Hnb|]; [|rewrite andb_false_r; discriminate]. rewrite andb_true_r.
  destruct periodic; cbn [orb].
  - intros Hr. inversion Hr. exists s, b. split; [reflexivity|]. split; [assumption|]. split; [discriminate|]. split; [assumption|reflexivity].
  - destruct (Nat.ltb_spec s nb) as [Hsn|]; [|discriminate]. intros Hr. inversion Hr. exists s, b.
    split; [reflexivity|]. split; [assumption|]. split; [intros _; assumption|]. split; [assumption|reflexivity].
Qed.

(** Spline1D.eval at a point whose span and basis are (s, b): sum_j coeffs[s-p+j] * b[j] *)
Lemma ip_eval1d_of_span_basis knots degree cubic c x s b :
  ip_span_basis F K knots degree cubic x = SpOk (s, b) -> (cubic = true -> degree = 3%nat) ->
  (degree <= s)%nat -> (s < length c)%nat ->
  ip_eval1d F K knots degree cubic c x = SpOk (sumn (S degree) (fun j => nth (s - degree + j) c 0 * nth j b 0)).
Proof.
  intros Hsb Hcub Hd Hs. rewrite <- ip_sumr_sumn. rewrite <- sp_dot_loop_sum by exact HK.
  unfold ip_span_basis in Hsb. unfold ip_eval1d. destruct cubic.
  - rewrite (Hcub eq_refl) in *. unfold sp_cu_eval_1d_scalar.
    destruct (sp_cu_unpack F K knots) as [[[[xmin xmax] dx] nc]| | | |]; cbn [sp_bind] in *; try discriminate.
    unfold sp_cu_point. destruct (sp_cu_find_span F K xmin xmax dx x nc) as [so| | | |]; cbn [sp_bind] in *; try discriminate.
    cbn [sp_cu_basis_sel sp_bind]. destruct (sp_span_nat (fst so)) as [s'| | | |]; cbn [sp_bind] in *; try discriminate.
    inversion Hsb. subst s' b. unfold sp_dot_checked.
    destruct (Nat.leb_spec 3 s); [|lia]. destruct (Nat.ltb_spec s (length c)); [|lia]. reflexivity.
  - unfold sp_nu_eval_1d_scalar.
    destruct (sp_nu_find_span F K knots degree x) as [s'| | | |]; cbn [sp_bind] in *; try discriminate.
    destruct (sp_nu_basis_funs F K knots degree x s') as [b'| | | |]; cbn [sp_bind] in *; try discriminate.
    inversion Hsb. subst s' b'. unfold sp_dot_checked.
    destruct (Nat.leb_spec degree s); [|lia]. destruct (Nat.ltb_spec s (length c)); [|lia]. reflexivity.
Qed.

Lemma ip_col_lt nb degree s periodic j : (1 <= nb)%nat -> (degree <= s)%nat -> (periodic = false -> (s < nb)%nat) ->
  (j <= degree)%nat -> (ip_col nb degree s periodic j < nb)%nat.
Proof.
  intros Hnb Hd Hs Hj. unfold ip_col. destruct periodic.
  - apply Nat.mod_upper_bound. lia.
  - specialize (Hs eq_refl). lia.
Qed.

(** sum_k [i = k] f k = f i, with the boolean test of the model *)
Lemma ip_sumn_eqb n i f : (i < n)%nat -> sumn n (fun k => (if (i =? k)%nat then 1 else 0) * f k) = f i.
Proof. exact (ip_sumn_delta n i f). Qed.

(** the accumulating collocation row (np.add.at) dotted with ANY vector is the sum eval forms through the
    same column map - for EVERY column map into [0, n): no injectivity is needed, repeated columns add up *)
Theorem ip_row_acc_dot n (idx : nat -> nat) (b c : nat -> F) p :
  (forall j, (j <= p)%nat -> (idx j < n)%nat) ->
  sumn n (fun k => ip_row_acc F K idx b p k * c k) = sumn (S p) (fun j => b j * c (idx j)).
Proof.
  intros Hlt. unfold ip_row_acc, ip_sum.
  rewrite (ip_sumn_ext n _ (fun k => sumn (S p) (fun j => (if (idx j =? k)%nat then b j else 0) * c k))).
  2:{ intros k _. rewrite (ip_sumn_ext (S p) (fun j => (if (idx j =? k)%nat then b j else 0) * c k)
                           (fun j => c k * (if (idx j =? k)%nat then b j else 0))) by (intros; ring).
      rewrite ip_sumn_scale. ring. }
  rewrite ip_sumn_swap. apply ip_sumn_ext. intros j Hj.
  rewrite (ip_sumn_ext n _ (fun k => (if (idx j =? k)%nat then 1 else 0) * (b j * c k))).
  2:{ intros k _. destruct (idx j =? k)%nat; ring. }
  rewrite (ip_sumn_eqb n (idx j) (fun k => b j * c k)) by (apply Hlt; lia). reflexivity.
Qed.

(** for the rows of the model: row . sol = sum_j b_j * sol[col j] *)
Lemma ip_row_dot nb degree s periodic b (sol : nat -> F) :
  (1 <= nb)%nat -> (degree <= s)%nat -> (periodic = false -> (s < nb)%nat) ->
  isum nb (fun k => nth k (ip_row_of F K nb degree s periodic b) 0 * sol k)
  = sumn (S degree) (fun j => nth j b 0 * sol (ip_col nb degree s periodic j)).
Proof.
  intros Hnb Hd Hs. unfold ip_sum.
  rewrite (ip_sumn_ext nb _ (fun k => ip_row_acc F K (ip_col nb degree s periodic) (fun j => nth j b 0) degree k * sol k)).
  2:{ intros k Hk. unfold ip_row_of. rewrite ip_vtab_get by exact Hk. reflexivity. }
  apply ip_row_acc_dot. intros j Hj. apply ip_col_lt; assumption.
Qed.

(** the coefficient array read by eval at s-p+j is the solution read at the (wrapped) column *)
Lemma ip_coeffs_wrap nb degree s periodic sol j : length sol = nb -> (degree <= s)%nat ->
  (periodic = false -> (s < nb)%nat) -> (periodic = true -> (degree <= nb)%nat /\ (s < nb + degree)%nat) ->
  (j <= degree)%nat ->
  nth (s - degree + j) (ip_coeffs F degree periodic sol) 0 = nth (ip_col nb degree s periodic j) sol 0.
Proof.
  intros Hl Hd Hs Hp Hj. unfold ip_coeffs, ip_col. destruct periodic; [|reflexivity].
  destruct (Hp eq_refl) as [Hdn Hsn]. set (q := (s - degree + j)%nat).
  destruct (Nat.lt_ge_cases q nb) as [Hq|Hq].
  - rewrite app_nth1 by lia. rewrite Nat.mod_small by exact Hq. reflexivity.
  - rewrite app_nth2 by lia. rewrite Hl.
    assert (Hq2 : (q - nb < degree)%nat) by (unfold q; lia).
    assert (Em : (q mod nb = q - nb)%nat).
    { replace q with ((q - nb) + 1 * nb)%nat at 1 by lia. rewrite Nat.mod_add by lia. apply Nat.mod_small. lia. }
    rewrite Em. clear Em. revert Hq2. generalize (q - nb)%nat as t. intros t Ht.
    assert (G : forall (l : list F) a t, (t < a)%nat -> nth t (firstn a l) 0 = nth t l 0).
    { induction l as [|h l IH]; intros a t0 Hlt; [rewrite firstn_nil; reflexivity|].
      destruct a; [lia|]. cbn [firstn]. destruct t0; cbn [nth]; [reflexivity|]. apply IH. lia. }
    apply G, Ht.
Qed.

Lemma ip_coeffs_length nb degree periodic sol : length sol = nb -> (degree <= nb)%nat ->
  length (ip_coeffs F degree periodic sol) = if periodic then (nb + degree)%nat else nb.
Proof. intros Hl Hd. unfold ip_coeffs. destruct periodic; [|exact Hl]. rewrite app_length, firstn_length. lia. Qed.

(* ---------------------------------------------------------------------------------------- *)
(** * compute_interpolant (1-D) *)

Lemma ip_space_ok_facts knots degree periodic cubic : ip_space_ok F K knots degree periodic cubic = true ->
  (1 <= degree)%nat /\ (1 <= ip_ncells F K knots degree cubic)%nat /\ (cubic = true -> degree = 3%nat) /\
  (periodic = true -> (degree <= ip_ncells F K knots degree cubic)%nat).
Proof.
  unfold ip_space_ok. intros H. apply andb_prop in H. destruct H as [H H4]. apply andb_prop in H. destruct H as [H H3].
  apply andb_prop in H. destruct H as [H1 H2]. apply Nat.leb_le in H1. apply Nat.leb_le in H2.
  repeat split; try assumption.
  - intros ->. apply andb_prop in H3. destruct H3 as [H3 _]. apply Nat.eqb_eq in H3. exact H3.
  - intros ->. apply Nat.leb_le in H4. exact H4.
Qed.

(** what a successful call returns *)
Lemma ip_interp_many_spec knots degree periodic cubic xs us cs :
  ip_interp_many F K knots degree periodic cubic xs us = SpOk cs ->
  let nb := ip_nbasis F K knots degree periodic cubic in
  ip_space_ok F K knots degree periodic cubic = true /\ length xs = nb /\
  (forall r, (r < length us)%nat -> length (nth r us []) = nb) /\
  exists A X, ip_colloc F K nb knots degree periodic cubic xs = SpOk A /\
    ip_lin_solve F K nb (length us) A (ip_tab F nb (length us) (fun i r => nth i (nth r us []) 0)) = SpOk X /\
    cs = map (fun r => ip_coeffs F degree periodic (ip_vtab F nb (fun i => mget X i r))) (seq 0 (length us)).
Proof.
  unfold ip_interp_many. cbv zeta. set (nb := ip_nbasis F K knots degree periodic cubic).
  destruct (ip_space_ok F K knots degree periodic cubic) eqn:Eok; cbn [andb]; [|discriminate].
  destruct (Nat.eqb_spec (length xs) nb) as [Ex|]; cbn [andb]; [|discriminate].
  destruct (forallb (fun u => (length u =? nb)%nat) us) eqn:Eu; [|discriminate].
  destruct (ip_colloc F K nb knots degree periodic cubic xs) as [A| | | |]; cbn [sp_bind]; try discriminate.
  destruct (ip_lin_solve F K nb (length us) A _) as [X| | | |] eqn:EX; cbn [sp_bind]; try discriminate.
  intros H. inversion H. split; [reflexivity|]. split; [exact Ex|]. split.
  - intros r Hr. rewrite forallb_forall in Eu. apply Nat.eqb_eq. apply Eu. apply nth_In. exact Hr.
  - exists A, X. repeat split; try reflexivity. exact EX.
Qed.

(** each returned coefficient array solves the collocation system of its data vector *)
Lemma ip_interp_many_system knots degree periodic cubic xs us cs :
  ip_interp_many F K knots degree periodic cubic xs us = SpOk cs ->
  let nb := ip_nbasis F K knots degree periodic cubic in
  length cs = length us /\
  exists A, ip_colloc F K nb knots degree periodic cubic xs = SpOk A /\
  forall r, (r < length us)%nat -> exists sol, length sol = nb /\
    nth r cs [] = ip_coeffs F degree periodic sol /\
    forall i, (i < nb)%nat -> isum nb (fun k => mget A i k * nth k sol 0) = nth i (nth r us []) 0.
Proof.
  intros H. cbv zeta. destruct (ip_interp_many_spec _ _ _ _ _ _ _ H) as [Hok [Hxs [Hus [A [X [EA [EX Ecs]]]]]]].
  set (nb := ip_nbasis F K knots degree periodic cubic) in *.
  split; [rewrite Ecs, map_length, seq_length; reflexivity|].
  exists A. split; [exact EA|]. intros r Hr.
  exists (ip_vtab F nb (fun i => mget X i r)). split; [apply ip_vtab_length|]. split.
  - rewrite Ecs. rewrite (ip_nth_map_seq (fun r => ip_coeffs F degree periodic (ip_vtab F nb (fun i => mget X i r)))) by exact Hr.
    reflexivity.
  - intros i Hi. destruct (ip_lin_solve_spec _ _ _ _ _ EX) as [_ [_ HX]].
    specialize (HX i r Hi Hr). rewrite ip_tab_get in HX by assumption. rewrite <- HX.
    unfold ip_sum. apply ip_sumn_ext. intros k Hk. rewrite ip_vtab_get by exact Hk. reflexivity.
Qed.

(** the span hypothesis of the periodic case: evaluation at the interpolation points reads inside the
    coefficient array (true for every point of the domain, see [ip_span_in_range_nu]) *)
Definition ip_spans_in_range (knots : list F) (degree : nat) (periodic cubic : bool) (xs : list F) : Prop :=
  periodic = true -> forall i s b, (i < length xs)%nat ->
    ip_span_basis F K knots degree cubic (nth i xs 0) = SpOk (s, b) -> (s < ip_ncoeffs F K knots degree cubic)%nat.

Lemma ip_span_in_range_nu knots degree periodic xs :
  (2 * degree + 1 < length knots)%nat ->
  sp_lt K (sp_kn F K knots degree) (sp_kn F K knots (length knots - 1 - degree)) ->
  ip_spans_in_range knots degree periodic false xs.
Proof.
  intros Hlen Hdom _ i s b Hi Hsb. unfold ip_span_basis in Hsb.
  destruct (sp_nu_find_span_spec F K HK knots degree (nth i xs 0) Hlen Hdom) as [s' [E [Hr _]]].
  rewrite E in Hsb. cbn [sp_bind] in Hsb.
  destruct (sp_nu_basis_funs F K knots degree (nth i xs 0) s') as [b'| | | |]; cbn [sp_bind] in Hsb; try discriminate.
  inversion Hsb. subst. unfold ip_ncoeffs, ip_ncells. lia.
Qed.

Theorem ip_interp_many_exact knots degree periodic cubic xs us cs :
  ip_interp_many F K knots degree periodic cubic xs us = SpOk cs ->
  ip_spans_in_range knots degree periodic cubic xs ->
  forall r i, (r < length us)%nat -> (i < ip_nbasis F K knots degree periodic cubic)%nat ->
  ip_eval1d F K knots degree cubic (nth r cs []) (nth i xs 0) = SpOk (nth i (nth r us []) 0).
Proof.
  intros H Hrange r i Hr Hi.
  destruct (ip_interp_many_spec _ _ _ _ _ _ _ H) as [Hok [Hxs _]].
  destruct (ip_interp_many_system _ _ _ _ _ _ _ H) as [_ [A [EA Hsys]]].
  set (nb := ip_nbasis F K knots degree periodic cubic) in *.
  destruct (ip_space_ok_facts _ _ _ _ Hok) as [Hd1 [Hnc [Hcub Hper]]].
  destruct (Hsys r Hr) as [sol [Hl [Ec Hsol]]].
  destruct (ip_mapM_spec _ 0 [] _ _ EA) as [HlA HA]. specialize (HA i ltac:(lia)).
  destruct (ip_colloc_row_spec _ _ _ _ _ _ _ HA) as [s [b [Hsb [Hds [Hsn [Hnb Erow]]]]]].
  assert (Hnbper : periodic = true -> nb = ip_ncells F K knots degree cubic) by (intros ->; reflexivity).
  assert (Hnbcl : periodic = false -> nb = (ip_ncells F K knots degree cubic + degree)%nat) by (intros ->; reflexivity).
  assert (Hwrap : periodic = true -> (degree <= nb)%nat /\ (s < nb + degree)%nat).
  { intros Ep. split; [rewrite (Hnbper Ep); apply Hper, Ep|].
    pose proof (Hrange Ep i s b ltac:(lia) Hsb) as Hs. unfold ip_ncoeffs in Hs. rewrite (Hnbper Ep). exact Hs. }
  rewrite (ip_eval1d_of_span_basis knots degree cubic (nth r cs []) (nth i xs 0) s b Hsb Hcub Hds).
  2:{ rewrite Ec. destruct periodic.
      - rewrite (ip_coeffs_length nb) by (try assumption; apply (Hwrap eq_refl)). apply (Hwrap eq_refl).
      - rewrite (ip_coeffs_length nb) by (try assumption; rewrite (Hnbcl eq_refl); lia). apply Hsn. reflexivity. }
  f_equal. rewrite <- (Hsol i Hi). unfold ip_mget. rewrite Erow.
  rewrite (ip_row_dot nb degree s periodic b (fun k => nth k sol 0)) by assumption.
  apply ip_sumn_ext. intros j Hj. rewrite Ec.
  rewrite (ip_coeffs_wrap nb) by (try assumption; lia). ring.
Qed.

(** headline of C08 (1-D): the interpolant takes the data values at the interpolation points *)
Theorem ip_interp1d_exact knots degree periodic cubic xs u c :
  ip_interp1d F K knots degree periodic cubic xs u = SpOk c ->
  ip_spans_in_range knots degree periodic cubic xs ->
  forall i, (i < ip_nbasis F K knots degree periodic cubic)%nat ->
  ip_eval1d F K knots degree cubic c (nth i xs 0) = SpOk (nth i u 0).
Proof.
  unfold ip_interp1d. destruct (ip_interp_many F K knots degree periodic cubic xs [u]) as [cs| | | |] eqn:E; cbn [sp_bind]; try discriminate.
  intros H Hrange i Hi. inversion H. subst c.
  exact (ip_interp_many_exact _ _ _ _ _ _ _ E Hrange 0%nat i ltac:(cbn; lia) Hi).
Qed.

(** periodic interpolants keep their wrapped coefficients consistent: c[n+j] = c[j], j < p;
    and the coefficient array has the length of Spline1D.coeffs *)
Theorem ip_interp1d_wrap knots degree periodic cubic xs u c :
  ip_interp1d F K knots degree periodic cubic xs u = SpOk c ->
  length c = ip_ncoeffs F K knots degree cubic /\
  (periodic = true -> forall j, (j < degree)%nat ->
     nth (ip_nbasis F K knots degree periodic cubic + j) c 0 = nth j c 0).
Proof.
  unfold ip_interp1d. destruct (ip_interp_many F K knots degree periodic cubic xs [u]) as [cs| | | |] eqn:E; cbn [sp_bind]; try discriminate.
  intros H. inversion H. subst c.
  destruct (ip_interp_many_spec _ _ _ _ _ _ _ E) as [Hok _].
  destruct (ip_interp_many_system _ _ _ _ _ _ _ E) as [_ [A [_ Hsys]]].
  destruct (ip_space_ok_facts _ _ _ _ Hok) as [Hd1 [Hnc [Hcub Hper]]].
  destruct (Hsys 0%nat ltac:(cbn; lia)) as [sol [Hl [Ec _]]]. rewrite Ec.
  set (nb := ip_nbasis F K knots degree periodic cubic) in *.
  split.
  - unfold ip_ncoeffs. destruct periodic.
    + rewrite (ip_coeffs_length nb) by (try assumption; apply Hper; reflexivity). reflexivity.
    + rewrite (ip_coeffs_length nb) by (try assumption; unfold nb, ip_nbasis; lia). reflexivity.
  - intros -> j Hj. unfold ip_coeffs. specialize (Hper eq_refl). change (ip_ncells F K knots degree cubic) with nb in Hper.
    rewrite app_nth2 by lia. rewrite Hl. replace (nb + j - nb)%nat with j by lia.
    rewrite app_nth1 by lia.
    assert (G : forall (l : list F) a t, (t < a)%nat -> nth t (firstn a l) 0 = nth t l 0).
    { induction l as [|h l IH]; intros a t0 Hlt; [rewrite firstn_nil; reflexivity|].
      destruct a; [lia|]. cbn [firstn]. destruct t0; cbn [nth]; [reflexivity|]. apply IH. lia. }
    apply G, Hj.
Qed.

(* ---------------------------------------------------------------------------------------- *)
(** * the linear system behind compute_interpolant, uniqueness, linearity, constants *)

Lemma ip_interp1d_system knots degree periodic cubic xs u c :
  ip_interp1d F K knots degree periodic cubic xs u = SpOk c ->
  let nb := ip_nbasis F K knots degree periodic cubic in
  exists A, ip_colloc F K nb knots degree periodic cubic xs = SpOk A /\
  (forall i, (i < nb)%nat -> isum nb (fun k => mget A i k * nth k c 0) = nth i u 0).
Proof.
  unfold ip_interp1d. destruct (ip_interp_many F K knots degree periodic cubic xs [u]) as [cs| | | |] eqn:E; cbn [sp_bind]; try discriminate.
  intros H. inversion H. subst c. cbv zeta.
  destruct (ip_interp_many_system _ _ _ _ _ _ _ E) as [_ [A [EA Hsys]]]. exists A. split; [exact EA|].
  destruct (Hsys 0%nat ltac:(cbn; lia)) as [sol [Hl [Ec Hsol]]]. intros i Hi. cbn [nth] in Hsol. rewrite <- (Hsol i Hi).
  unfold ip_sum. apply ip_sumn_ext. intros k Hk. rewrite Ec. unfold ip_coeffs. destruct periodic; [|reflexivity].
  rewrite app_nth1 by lia. reflexivity.
Qed.

(** the interpolation operator is linear (on the nbasis independent coefficients; the wrapped ones
    follow by [ip_interp1d_wrap]) whenever the collocation matrix has a checked inverse *)
Theorem ip_interp1d_linear knots degree periodic cubic xs A Ainv u v w cu cv cw a b :
  let nb := ip_nbasis F K knots degree periodic cubic in
  ip_colloc F K nb knots degree periodic cubic xs = SpOk A -> ip_inverse_ok F K nb A Ainv = true ->
  ip_interp1d F K knots degree periodic cubic xs u = SpOk cu ->
  ip_interp1d F K knots degree periodic cubic xs v = SpOk cv ->
  ip_interp1d F K knots degree periodic cubic xs w = SpOk cw ->
  (forall i, (i < nb)%nat -> nth i w 0 = a * nth i u 0 + b * nth i v 0) ->
  forall k, (k < nb)%nat -> nth k cw 0 = a * nth k cu 0 + b * nth k cv 0.
Proof.
  cbv zeta. intros EA Hinv Hu Hv Hw Hlin.
  destruct (ip_interp1d_system _ _ _ _ _ _ _ Hu) as [A1 [E1 Su]]. rewrite EA in E1. inversion E1. subst A1.
  destruct (ip_interp1d_system _ _ _ _ _ _ _ Hv) as [A2 [E2 Sv]]. rewrite EA in E2. inversion E2. subst A2.
  destruct (ip_interp1d_system _ _ _ _ _ _ _ Hw) as [A3 [E3 Sw]]. rewrite EA in E3. inversion E3. subst A3.
  destruct (ip_inverse_ok_spec _ _ _ Hinv) as [HL _].
  apply (ip_unique_left _ A Ainv (fun k => nth k cw 0) (fun k => a * nth k cu 0 + b * nth k cv 0) HL).
  intros i Hi. rewrite (Sw i Hi), (Hlin i Hi), <- (Su i Hi), <- (Sv i Hi). unfold ip_sum.
  rewrite <- !ip_sumn_scale, <- ip_sumn_add. apply ip_sumn_ext. intros; ring.
Qed.

(** every row of the collocation matrix sums to one (partition of unity) *)
Definition ip_rows_sum_one (nb : nat) (A : list (list F)) : Prop :=
  forall i, (i < nb)%nat -> isum nb (fun k => mget A i k) = 1.

(** constant data give constant coefficients *)
Theorem ip_interp1d_const knots degree periodic cubic xs A Ainv u c kappa :
  let nb := ip_nbasis F K knots degree periodic cubic in
  ip_colloc F K nb knots degree periodic cubic xs = SpOk A -> ip_inverse_ok F K nb A Ainv = true ->
  ip_rows_sum_one nb A ->
  ip_interp1d F K knots degree periodic cubic xs u = SpOk c ->
  (forall i, (i < nb)%nat -> nth i u 0 = kappa) ->
  forall k, (k < ip_ncoeffs F K knots degree cubic)%nat -> nth k c 0 = kappa.
Proof.
  cbv zeta. intros EA Hinv Hrows Hu Hconst.
  destruct (ip_interp1d_system _ _ _ _ _ _ _ Hu) as [A1 [E1 Su]]. rewrite EA in E1. inversion E1. subst A1.
  destruct (ip_inverse_ok_spec _ _ _ Hinv) as [HL _].
  assert (Hsol : forall k, (k < ip_nbasis F K knots degree periodic cubic)%nat -> nth k c 0 = kappa).
  { apply (ip_unique_left _ A Ainv (fun k => nth k c 0) (fun _ => kappa) HL).
    intros i Hi. rewrite (Su i Hi), (Hconst i Hi). unfold ip_sum.
    pose proof (Hrows i Hi) as R. unfold ip_sum in R.
    transitivity (kappa * sumn (ip_nbasis F K knots degree periodic cubic) (fun k => mget A i k)); [rewrite R; ring|].
    rewrite <- ip_sumn_scale. apply ip_sumn_ext. intros; ring. }
  destruct (ip_interp1d_wrap _ _ _ _ _ _ _ Hu) as [Hlen Hwrap].
  intros k Hk. destruct periodic.
  - unfold ip_ncoeffs in Hk. unfold ip_nbasis in Hsol, Hwrap.
    destruct (Nat.lt_ge_cases k (ip_ncells F K knots degree cubic)) as [Hlt|Hge]; [apply Hsol, Hlt|].
    replace k with (ip_ncells F K knots degree cubic + (k - ip_ncells F K knots degree cubic))%nat by lia.
    rewrite (Hwrap eq_refl) by lia. apply Hsol.
    unfold ip_interp1d in Hu.
    destruct (ip_interp_many F K knots degree true cubic xs [u]) as [cs| | | |] eqn:E; cbn [sp_bind] in Hu; try discriminate.
    destruct (ip_interp_many_spec _ _ _ _ _ _ _ E) as [Hok _].
    destruct (ip_space_ok_facts _ _ _ _ Hok) as [_ [_ [_ Hper]]]. specialize (Hper eq_refl). lia.
  - apply Hsol. exact Hk.
Qed.

(** sum over a row = sum of the basis values written into it *)
Lemma ip_row_sum nb degree s periodic b :
  (1 <= nb)%nat -> (degree <= s)%nat -> (periodic = false -> (s < nb)%nat) ->
  isum nb (fun k => nth k (ip_row_of F K nb degree s periodic b) 0) = sumn (S degree) (fun j => nth j b 0).
Proof.
  intros Hnb Hd Hs.
  pose proof (ip_row_dot nb degree s periodic b (fun _ => 1) Hnb Hd Hs) as H.
  unfold ip_sum in *. rewrite (ip_sumn_ext nb _ (fun k => nth k (ip_row_of F K nb degree s periodic b) 0 * 1)) by (intros; ring).
  rewrite H. apply ip_sumn_ext. intros; ring.
Qed.

Lemma ip_sumr_shift n : forall a f, sumr (S a) n f = sumr a n (fun i => f (S i)).
Proof. induction n as [|n IH]; intros a f; [reflexivity|]. cbn [Sums.sumr]. rewrite IH. reflexivity. Qed.
Lemma ip_sumF_sumn (l : list F) : sumF F 0 (spadd K) l = sumn (length l) (fun j => nth j l 0).
Proof.
  rewrite <- ip_sumr_sumn. induction l as [|a l IH]; [reflexivity|]. cbn [sumF length Sums.sumr nth]. rewrite IH.
  rewrite ip_sumr_shift. reflexivity.
Qed.

(** uniform-cubic spaces: rows sum to one whatever the points are *)
Theorem ip_rows_sum_one_cubic knots degree periodic xs A :
  let nb := ip_nbasis F K knots degree periodic true in
  ip_colloc F K nb knots degree periodic true xs = SpOk A -> length xs = nb -> degree = 3%nat ->
  ip_rows_sum_one nb A.
Proof.
  cbv zeta. intros EA Hxs Hd3 i Hi.
  destruct (ip_mapM_spec _ 0 [] _ _ EA) as [HlA HA]. specialize (HA i ltac:(lia)).
  destruct (ip_colloc_row_spec _ _ _ _ _ _ _ HA) as [s [b [Hsb [Hds [Hsn [Hnb Erow]]]]]].
  unfold ip_mget. rewrite Erow. rewrite ip_row_sum by assumption.
  unfold ip_span_basis in Hsb.
  destruct (sp_cu_unpack F K knots) as [[[[xmin xmax] dx] nc]| | | |]; cbn [sp_bind] in Hsb; try discriminate.
  destruct (sp_cu_find_span F K xmin xmax dx (nth i xs 0) nc) as [so| | | |]; cbn [sp_bind] in Hsb; try discriminate.
  destruct (sp_span_nat (fst so)) as [s'| | | |]; cbn [sp_bind] in Hsb; try discriminate.
  inversion Hsb. subst s' b. rewrite Hd3.
  rewrite <- (sp_cu_basis_sum_one F K HK (snd so)).
  unfold sp_cu_basis_funs, cu_basis. cbn [Sums.sumn nth sumF]. ring.
Qed.

(** general spaces: rows sum to one for points of the closed domain of a sorted knot list whose first
    and last cells are not empty (hypotheses of C07's [sp_nu_find_span_domain]) *)
Theorem ip_rows_sum_one_nu knots degree periodic xs A :
  let nb := ip_nbasis F K knots degree periodic false in
  ip_colloc F K nb knots degree periodic false xs = SpOk A -> length xs = nb ->
  sp_sorted F K knots -> (2 * degree + 1 < length knots)%nat ->
  sp_lt K (sp_kn F K knots degree) (sp_kn F K knots (S degree)) ->
  sp_lt K (sp_kn F K knots (length knots - degree - 2)) (sp_kn F K knots (length knots - 1 - degree)) ->
  (forall i, (i < nb)%nat -> sp_le K (sp_kn F K knots degree) (nth i xs 0) /\
                             sp_le K (nth i xs 0) (sp_kn F K knots (length knots - 1 - degree))) ->
  ip_rows_sum_one nb A.
Proof.
  cbv zeta. intros EA Hxs Hsorted Hlen Hfirst Hlast Hdom i Hi.
  destruct (ip_mapM_spec _ 0 [] _ _ EA) as [HlA HA]. specialize (HA i ltac:(lia)).
  destruct (ip_colloc_row_spec _ _ _ _ _ _ _ HA) as [s [b [Hsb [Hds [Hsn [Hnb Erow]]]]]].
  unfold ip_mget. rewrite Erow. rewrite ip_row_sum by assumption.
  unfold ip_span_basis in Hsb.
  destruct (Hdom i Hi) as [Hlo Hhi].
  destruct (sp_nu_find_span_domain F K HK knots degree (nth i xs 0) Hsorted Hlen Hfirst Hlast Hlo Hhi)
    as [s' [E [Hr [Hspan _]]]].
  rewrite E in Hsb. cbn [sp_bind] in Hsb.
  rewrite (sp_nu_basis_funs_ok F K HK knots degree (nth i xs 0) s' Hsorted Hspan) in Hsb by lia.
  cbn [sp_bind] in Hsb. inversion Hsb. subst s b.
  rewrite <- (sp_A22_sum_one F K HK knots degree (nth i xs 0) s' Hsorted Hspan) by lia.
  rewrite ip_sumF_sumn, sp_A22_length. reflexivity.
Qed.

(* ---------------------------------------------------------------------------------------- *)
(** * get_quadrature_coefficients *)

Lemma ip_quad_from_spec knots degree periodic cubic xs I w :
  ip_quad_from F K knots degree periodic cubic xs I = SpOk w ->
  let nb := ip_nbasis F K knots degree periodic cubic in
  length w = nb /\
  exists A, ip_colloc F K nb knots degree periodic cubic xs = SpOk A /\
  forall j, (j < nb)%nat -> isum nb (fun i => mget A i j * nth i w 0) = nth j (ip_quad_rhs F K nb degree periodic I) 0.
Proof.
  unfold ip_quad_from. cbv zeta. set (nb := ip_nbasis F K knots degree periodic cubic).
  destruct (ip_space_ok F K knots degree periodic cubic && (length xs =? nb)%nat
            && (length I =? ip_ncoeffs F K knots degree cubic)%nat); [|discriminate].
  destruct (ip_colloc F K nb knots degree periodic cubic xs) as [A| | | |] eqn:EA; cbn [sp_bind]; try discriminate.
  destruct (ip_lin_solve F K nb 1 _ _) as [X| | | |] eqn:EX; cbn [sp_bind]; try discriminate.
  intros H. inversion H. split; [apply ip_vtab_length|]. exists A. split; [reflexivity|].
  intros j Hj. destruct (ip_lin_solve_spec _ _ _ _ _ EX) as [_ [_ HX]].
  specialize (HX j 0%nat Hj ltac:(lia)). rewrite ip_tab_get in HX by lia. rewrite <- HX.
  unfold ip_sum. apply ip_sumn_ext. intros i Hi. rewrite ip_vtab_get by exact Hi.
  unfold ip_transpose. rewrite ip_tab_get by assumption. reflexivity.
Qed.

(** headline of C09: the weights of the transposed solve integrate the interpolant, for ANY data:
    sum_i w_i u_i = sum_j q_j c_j,  q = the right-hand side built from the basis integrals *)
Theorem ip_quadrature_dual knots degree periodic cubic xs I w u c :
  ip_quad_from F K knots degree periodic cubic xs I = SpOk w ->
  ip_interp1d F K knots degree periodic cubic xs u = SpOk c ->
  let nb := ip_nbasis F K knots degree periodic cubic in
  isum nb (fun i => nth i w 0 * nth i u 0)
  = isum nb (fun j => nth j (ip_quad_rhs F K nb degree periodic I) 0 * nth j c 0).
Proof.
  intros Hw Hc. cbv zeta.
  destruct (ip_quad_from_spec _ _ _ _ _ _ _ Hw) as [_ [A [EA HT]]].
  destruct (ip_interp1d_system _ _ _ _ _ _ _ Hc) as [A' [EA' HC]]. rewrite EA in EA'. inversion EA'. subst A'.
  unfold ip_sum in *.
  exact (weights_dual F 0 1 (spadd K) (spmul K) (spsub K) (spdiv K) (spopp K) (spinv K) Fth _
           (fun i j => mget A i j) (fun i => nth i w 0) (fun i => nth i u 0) (fun j => nth j c 0)
           (fun j => nth j (ip_quad_rhs F K _ degree periodic I) 0) HT HC).
Qed.

(** the weights sum to the sum of the (folded) basis integrals when the rows of C sum to one *)
Theorem ip_weights_sum knots degree periodic cubic xs I w A :
  let nb := ip_nbasis F K knots degree periodic cubic in
  ip_quad_from F K knots degree periodic cubic xs I = SpOk w ->
  ip_colloc F K nb knots degree periodic cubic xs = SpOk A -> ip_rows_sum_one nb A ->
  isum nb (fun i => nth i w 0) = isum nb (fun j => nth j (ip_quad_rhs F K nb degree periodic I) 0).
Proof.
  cbv zeta. intros Hw EA Hrows.
  destruct (ip_quad_from_spec _ _ _ _ _ _ _ Hw) as [_ [A' [EA' HT]]]. rewrite EA in EA'. inversion EA'. subst A'.
  unfold ip_sum in *.
  pose proof (weights_dual F 0 1 (spadd K) (spmul K) (spsub K) (spdiv K) (spopp K) (spinv K) Fth _
           (fun i j => mget A i j) (fun i => nth i w 0) (fun _ => 1) (fun _ => 1)
           (fun j => nth j (ip_quad_rhs F K _ degree periodic I) 0) HT) as H.
  rewrite (ip_sumn_ext _ (fun i => nth i w 0) (fun i => nth i w 0 * 1)) by (intros; ring).
  rewrite H.
  - apply ip_sumn_ext. intros; ring.
  - intros i Hi. cbv beta. transitivity (isum (ip_nbasis F K knots degree periodic cubic) (fun k => mget A i k)); [|apply Hrows, Hi].
    unfold ip_sum. apply ip_sumn_ext. intros; ring.
Qed.

(** the folded right-hand side against the solution = all ncells+p integrals against the wrapped coefficients *)
Lemma ip_sumn_split n p f : sumn (n + p) f = sumn n f + sumn p (fun j => f (n + j)%nat).
Proof. induction p as [|p IH]; [rewrite Nat.add_0_r; cbn; ring|]. rewrite Nat.add_succ_r. cbn [Sums.sumn]. rewrite IH. ring. Qed.
Lemma ip_sumn_prefix n p g : (p <= n)%nat -> sumn n (fun j => if (j <? p)%nat then g j else 0) = sumn p g.
Proof.
  intros Hp. replace n with (p + (n - p))%nat by lia. rewrite ip_sumn_split.
  rewrite (ip_sumn_ext p _ g).
  - rewrite (ip_sumn_ext (n - p) _ (fun _ => 0)); [rewrite ip_sumn_zero; ring|].
    intros j _. destruct (Nat.ltb_spec (p + j) p); [lia|reflexivity].
  - intros j Hj. destruct (Nat.ltb_spec j p); [reflexivity|lia].
Qed.

Theorem ip_quad_rhs_unfold n degree (I c : list F) : (degree <= n)%nat ->
  (forall j, (j < degree)%nat -> nth (n + j) c 0 = nth j c 0) ->
  isum n (fun j => nth j (ip_quad_rhs F K n degree true I) 0 * nth j c 0)
  = isum (n + degree) (fun j => nth j I 0 * nth j c 0).
Proof.
  intros Hd Hwrap. unfold ip_sum. rewrite ip_sumn_split.
  rewrite (ip_sumn_ext n _ (fun j => nth j I 0 * nth j c 0 + (if (j <? degree)%nat then nth (n + j) I 0 * nth j c 0 else 0))).
  2:{ intros j Hj. unfold ip_quad_rhs. rewrite ip_vtab_get by exact Hj. destruct (j <? degree)%nat; ring. }
  rewrite ip_sumn_add. f_equal. rewrite ip_sumn_prefix by exact Hd.
  apply ip_sumn_ext. intros j Hj. rewrite (Hwrap j Hj). reflexivity.
Qed.

(** certificate form of "all weights are equal on a uniform periodic space": if every COLUMN of the
    collocation matrix sums to one as well (checked per instance), the folded integrals are all equal to
    dx and the matrix has a checked inverse, then every weight is dx *)
Theorem ip_weights_equal_cert knots degree periodic cubic xs I w A Ainv dx :
  let nb := ip_nbasis F K knots degree periodic cubic in
  ip_quad_from F K knots degree periodic cubic xs I = SpOk w ->
  ip_colloc F K nb knots degree periodic cubic xs = SpOk A -> ip_inverse_ok F K nb A Ainv = true ->
  (forall j, (j < nb)%nat -> isum nb (fun i => mget A i j) = 1) ->
  (forall j, (j < nb)%nat -> nth j (ip_quad_rhs F K nb degree periodic I) 0 = dx) ->
  forall i, (i < nb)%nat -> nth i w 0 = dx.
Proof.
  cbv zeta. intros Hw EA Hinv Hcols Hq.
  destruct (ip_quad_from_spec _ _ _ _ _ _ _ Hw) as [_ [A' [EA' HT]]]. rewrite EA in EA'. inversion EA'. subst A'.
  destruct (ip_inverse_ok_spec _ _ _ Hinv) as [_ HR].
  set (nb := ip_nbasis F K knots degree periodic cubic) in *.
  (* uniqueness for the transposed system, from the right inverse of A *)
  apply (ip_unique_left nb (ip_transpose F K nb nb A) (ip_transpose F K nb nb Ainv) (fun i => nth i w 0) (fun _ => dx)).
  - intros i j Hi Hj.
    replace (ip_delta F K i j) with (ip_delta F K j i) by (unfold ip_delta; rewrite Nat.eqb_sym; reflexivity).
    rewrite <- (HR j i Hj Hi). unfold ip_sum. apply ip_sumn_ext. intros k Hk.
    unfold ip_transpose. rewrite !ip_tab_get by assumption. ring.
  - intros j Hj. unfold ip_sum.
    rewrite (ip_sumn_ext nb _ (fun i => mget A i j * nth i w 0)).
    2:{ intros i Hi. unfold ip_transpose. rewrite ip_tab_get by assumption. reflexivity. }
    fold (ip_sum F K nb (fun i => mget A i j * nth i w 0)). rewrite (HT j Hj), (Hq j Hj).
    rewrite (ip_sumn_ext nb _ (fun i => dx * mget A i j)).
    2:{ intros i Hi. unfold ip_transpose. rewrite ip_tab_get by assumption. ring. }
    rewrite ip_sumn_scale. fold (ip_sum F K nb (fun i => mget A i j)). rewrite (Hcols j Hj). ring.
Qed.

(* ---------------------------------------------------------------------------------------- *)
(** * corollaries on general (non uniform-cubic) spaces *)

(** [ip_interp1d_exact] with the span hypothesis discharged: a non-degenerate domain is enough *)
Theorem ip_interp1d_exact_nu knots degree periodic xs u c :
  ip_interp1d F K knots degree periodic false xs u = SpOk c ->
  sp_lt K (sp_kn F K knots degree) (sp_kn F K knots (length knots - 1 - degree)) ->
  forall i, (i < ip_nbasis F K knots degree periodic false)%nat ->
  sp_nu_eval_1d_scalar F K (nth i xs 0) knots degree c 0 = SpOk (nth i u 0).
Proof.
  intros H Hdom i Hi.
  assert (Hlen : (2 * degree + 1 < length knots)%nat).
  { unfold ip_interp1d in H.
    destruct (ip_interp_many F K knots degree periodic false xs [u]) as [cs| | | |] eqn:E; cbn [sp_bind] in H; try discriminate.
    destruct (ip_interp_many_spec _ _ _ _ _ _ _ E) as [Hok _]. unfold ip_space_ok in Hok.
    apply andb_prop in Hok. destruct Hok as [Hok _]. apply andb_prop in Hok. destruct Hok as [_ Hok].
    apply Nat.leb_le in Hok. lia. }
  exact (ip_interp1d_exact knots degree periodic false xs u c H
           (ip_span_in_range_nu knots degree periodic xs Hlen Hdom) i Hi).
Qed.

(** a spline whose coefficients are all equal to kappa is the constant kappa on the whole closed domain
    (polynomials of degree 0 are reproduced everywhere, with [ip_interp1d_const]) *)
Theorem ip_const_spline_nu knots degree c kappa x :
  sp_sorted F K knots -> (2 * degree + 1 < length knots)%nat ->
  sp_lt K (sp_kn F K knots degree) (sp_kn F K knots (S degree)) ->
  sp_lt K (sp_kn F K knots (length knots - degree - 2)) (sp_kn F K knots (length knots - 1 - degree)) ->
  sp_le K (sp_kn F K knots degree) x -> sp_le K x (sp_kn F K knots (length knots - 1 - degree)) ->
  length c = (length knots - degree - 1)%nat -> (forall k, (k < length c)%nat -> nth k c 0 = kappa) ->
  sp_nu_eval_1d_scalar F K x knots degree c 0 = SpOk kappa.
Proof.
  intros Hs Hlen Hfirst Hlast Hlo Hhi Hc Hk.
  destruct (sp_nu_eval_1d_domain F K HK knots degree c x 0 Hs Hlen Hfirst Hlast Hlo Hhi Hc ltac:(lia) ltac:(lia))
    as [s [_ [Hr [Hspan [_ [_ E]]]]]].
  rewrite E. f_equal. cbn [sp_basis_of]. rewrite ip_sumr_sumn.
  rewrite (ip_sumn_ext (S degree) _ (fun j => kappa * nth j (sp_A22 F K knots degree x s) 0)).
  2:{ intros j Hj. rewrite Hk by lia. reflexivity. }
  rewrite ip_sumn_scale.
  replace (sumn (S degree) (fun j => nth j (sp_A22 F K knots degree x s) 0)) with 1; [ring|].
  rewrite <- (sp_A22_sum_one F K HK knots degree x s Hs Hspan) by lia.
  rewrite ip_sumF_sumn, sp_A22_length. reflexivity.
Qed.

(** complex data (zgbtrs on a real matrix): a complex coefficient vector zr + i zi that solves the collocation system
    C (zr + i zi) = ur + i ui - componentwise, because C is real - is the pair of the real interpolants of the real
    and imaginary parts of the data (uniqueness from the checked inverse); with [ip_interp1d_exact] both parts of the
    complex spline take the data values at the interpolation points *)
Theorem ip_interp1d_complex knots degree periodic cubic xs A Ainv ur ui cr ci (zr zi : nat -> F) :
  let nb := ip_nbasis F K knots degree periodic cubic in
  ip_colloc F K nb knots degree periodic cubic xs = SpOk A -> ip_inverse_ok F K nb A Ainv = true ->
  ip_interp1d F K knots degree periodic cubic xs ur = SpOk cr ->
  ip_interp1d F K knots degree periodic cubic xs ui = SpOk ci ->
  (forall i, (i < nb)%nat -> isum nb (fun k => mget A i k * zr k) = nth i ur 0) ->
  (forall i, (i < nb)%nat -> isum nb (fun k => mget A i k * zi k) = nth i ui 0) ->
  forall k, (k < nb)%nat -> zr k = nth k cr 0 /\ zi k = nth k ci 0.
Proof.
  cbv zeta. intros EA Hinv Hr Hi Sr Si.
  destruct (ip_interp1d_system _ _ _ _ _ _ _ Hr) as [A1 [E1 Cr]]. rewrite EA in E1. inversion E1. subst A1.
  destruct (ip_interp1d_system _ _ _ _ _ _ _ Hi) as [A2 [E2 Ci]]. rewrite EA in E2. inversion E2. subst A2.
  destruct (ip_inverse_ok_spec _ _ _ Hinv) as [HL _].
  intros k Hk. split.
  - apply (ip_unique_left _ A Ainv zr (fun k => nth k cr 0) HL); [|exact Hk]. intros i Hi'. rewrite (Sr i Hi'), (Cr i Hi'). reflexivity.
  - apply (ip_unique_left _ A Ainv zi (fun k => nth k ci 0) HL); [|exact Hk]. intros i Hi'. rewrite (Si i Hi'), (Ci i Hi'). reflexivity.
Qed.

End IpTheory.
