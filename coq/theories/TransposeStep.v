From Coq Require Import List Arith Lia PeanoNat Bool.
Import ListNotations.
From PGV Require Import NdIndex Blocks.

Ltac eqb_cases := repeat match goal with
  | |- context [?x =? ?y] => destruct (Nat.eqb_spec x y)
  | H : context [?x =? ?y] |- _ => destruct (Nat.eqb_spec x y)
  end.

Section Step.
Variable V : Type.
Variable d' : nat.
Let d := S d'.
Variable N : nat -> nat.                 (* extent of global dimension e *)
Variable P : nat -> nat.                 (* processes along layout axis a *)
Variables pi ipi pi' ipi' : nat -> nat.  (* dims orders of source / destination and inverses *)
Variable a0 : nat.                       (* the distributed axis whose dimension changes *)

Hypothesis Ha0 : a0 < d.
Hypothesis HP : forall a, 0 < P a.
Hypothesis Hpi : forall a, a < d -> pi a < d /\ ipi (pi a) = a.
Hypothesis Hipi : forall e, e < d -> ipi e < d /\ pi (ipi e) = e.
Hypothesis Hpi' : forall a, a < d -> pi' a < d /\ ipi' (pi' a) = a.
Hypothesis Hipi' : forall e, e < d -> ipi' e < d /\ pi' (ipi' e) = e.
(* compatible: every other distributed axis carries the same dimension *)
Hypothesis Hcompat : forall a, a < d -> a <> a0 -> 1 < P a -> pi a = pi' a.
Hypothesis Hdiff : pi a0 <> pi' a0.

Let a1 := ipi (pi' a0).    (* source axis that becomes distributed *)
Let a2 := ipi' (pi a0).    (* destination axis that was distributed *)
Let p := P a0.
Let n0 := N (pi a0).       (* extent distributed in the source *)
Let n1 := N (pi' a0).      (* extent distributed in the destination *)
Let mb := bmax n0 p.
Let mb' := bmax n1 p.

Definition coords := nat -> nat.
Definition valid (c : coords) := forall a, a < d -> c a < P a.
Definition upd (c : coords) (a v : nat) : coords := fun x => if x =? a then v else c x.

Definition sh (c : coords) (a : nat) := blen (N (pi a)) (P a) (c a).
Definition sh' (c : coords) (a : nat) := blen (N (pi' a)) (P a) (c a).

(* swap of positions 0 and a0 *)
Definition sw (a : nat) := if a =? 0 then a0 else if a =? a0 then 0 else a.
(* padded block shape in source axis order *)
Definition pshape (c : coords) (a : nat) := if a =? a0 then mb else if a =? a1 then mb' else sh c a.
Definition bshape (c : coords) := mk d (fun b => pshape c (sw b)).
Definition bsize (c : coords) := size (bshape c).

Variable G : list nat -> V.                      (* the global field, indexed in eta order *)
Variable src : coords -> nat -> V.               (* flat source buffer of every rank *)

Definition glob (c : coords) (j : list nat) : list nat :=
  mk d (fun e => rd j (ipi e) + bstart (N e) (P (ipi e)) (c (ipi e))).
Definition glob' (c : coords) (j : list nat) : list nat :=
  mk d (fun e => rd j (ipi' e) + bstart (N e) (P (ipi' e)) (c (ipi' e))).

Definition Holds_src := forall c, valid c -> forall j, inb (mk d (sh c)) j ->
  src c (ravel (mk d (sh c)) j) = G (glob c j).

(* phase 1: _extract_from_source, as "which source cell does send-buffer cell A hold" *)
Definition send (c : coords) (A : nat) : V :=
  let r := A / bsize c in
  let m := unravel (bshape c) (A mod bsize c) in
  src c (ravel (mk d (sh c))
               (mk d (fun a => rd m (sw a) + (if a =? a1 then bstart n1 p r else 0)))).

(* phase 2: Alltoall on the sub-communicator along a0 *)
Definition rcv (q : coords) (A : nat) : V :=
  let r := A / bsize q in
  send (upd q a0 r) (q a0 * bsize q + A mod bsize q).

(* phase 3: _rearrange_from_buffer, per-rank unpack *)
Definition dst (q : coords) (A' : nat) : V :=
  let j' := unravel (mk d (sh' q)) A' in
  let g := rd j' a2 in
  let r := owner n0 p g in
  let t := g - bstart n0 p r in
  rcv q (ravel (mk d (fun b => if b =? 0 then mb * p else pshape q (sw b)))
               (mk d (fun b => if b =? 0 then mb * r + t else rd j' (ipi' (pi (sw b)))))).

Definition Holds_dst := forall q, valid q -> forall j', inb (mk d (sh' q)) j' ->
  dst q (ravel (mk d (sh' q)) j') = G (glob' q j').

(* ---------- basic facts ---------- *)
Lemma sw_invol a : sw (sw a) = a.
Proof. unfold sw. eqb_cases; lia. Qed.
Lemma sw_lt a : a < d -> sw a < d.
Proof. unfold sw. eqb_cases; lia. Qed.
Lemma sw_0 : sw 0 = a0. Proof. reflexivity. Qed.
Lemma sw_a0 : sw a0 = 0. Proof. unfold sw. eqb_cases; lia. Qed.

Lemma a1_lt : a1 < d. Proof. unfold a1. apply Hipi, Hpi', Ha0. Qed.
Lemma a2_lt : a2 < d. Proof. unfold a2. apply Hipi', Hpi, Ha0. Qed.
Lemma pi_a1 : pi a1 = pi' a0. Proof. unfold a1. apply Hipi, Hpi', Ha0. Qed.
Lemma pi'_a2 : pi' a2 = pi a0. Proof. unfold a2. apply Hipi', Hpi, Ha0. Qed.
Lemma a1_ne_a0 : a1 <> a0.
Proof. intros E. apply Hdiff. rewrite <- pi_a1, E. reflexivity. Qed.
Lemma a2_ne_a0 : a2 <> a0.
Proof. intros E. apply Hdiff. rewrite <- pi'_a2, E. reflexivity. Qed.

(* the axes that exchange their distribution are not distributed on the other side *)
Lemma P_a1 : P a1 = 1.
Proof.
  pose proof (HP a1). destruct (Nat.eq_dec (P a1) 1) as [E|E]; [exact E|].
  exfalso. assert (H1 : pi a1 = pi' a1) by (apply Hcompat; [apply a1_lt|apply a1_ne_a0|lia]).
  rewrite pi_a1 in H1.
  assert (a0 = a1).
  { rewrite <- (proj2 (Hpi' a0 Ha0)), H1. apply Hpi', a1_lt. }
  apply a1_ne_a0. congruence.
Qed.
Lemma P_a2 : P a2 = 1.
Proof.
  pose proof (HP a2). destruct (Nat.eq_dec (P a2) 1) as [E|E]; [exact E|].
  exfalso. assert (H1 : pi a2 = pi' a2) by (apply Hcompat; [apply a2_lt|apply a2_ne_a0|lia]).
  rewrite pi'_a2 in H1.
  assert (a2 = a0).
  { rewrite <- (proj2 (Hpi a2 a2_lt)), H1. apply Hpi, Ha0. }
  apply a2_ne_a0. congruence.
Qed.

Lemma upd_valid q r : valid q -> r < p -> valid (upd q a0 r).
Proof. intros Hq Hr a Ha. unfold upd. destruct (Nat.eqb_spec a a0); subst; [exact Hr|apply Hq, Ha]. Qed.

Lemma pshape_upd q r a : pshape (upd q a0 r) a = pshape q a.
Proof. unfold pshape, sh, upd. destruct (Nat.eqb_spec a a0); [reflexivity|].
  destruct (Nat.eqb_spec a a1); reflexivity. Qed.
Lemma bshape_upd q r : bshape (upd q a0 r) = bshape q.
Proof. unfold bshape. apply mk_ext. intros. apply pshape_upd. Qed.
Lemma bsize_upd q r : bsize (upd q a0 r) = bsize q.
Proof. unfold bsize. rewrite bshape_upd. reflexivity. Qed.

(* an axis that is neither the swapped one nor the newly distributed one sits, in the
   destination, at an axis with the same process count and coordinate *)
Lemma axis_match q a : valid q -> a < d -> a <> a0 -> a <> a1 ->
  let a' := ipi' (pi a) in a' < d /\ pi' a' = pi a /\ P a' = P a /\ q a' = q a.
Proof.
  intros Hq Ha Hn0 Hn1 a'. subst a'.
  destruct (Hpi a Ha) as [Hpa Hia].
  destruct (Hipi' (pi a) Hpa) as [Ha' Hpa'].
  split; [exact Ha'|]. split; [exact Hpa'|].
  assert (Hne : ipi' (pi a) <> a0).
  { intros E. apply Hn1. unfold a1. rewrite <- E, Hpa'. symmetry. exact Hia. }
  destruct (Nat.eq_dec (P a) 1) as [E1|E1].
  - (* a not distributed: then neither is a' *)
    destruct (Nat.eq_dec (P (ipi' (pi a))) 1) as [E2|E2].
    + pose proof (Hq a Ha). pose proof (Hq _ Ha'). split; lia.
    + exfalso. pose proof (HP (ipi' (pi a))).
      assert (H1 : pi (ipi' (pi a)) = pi' (ipi' (pi a))) by (apply Hcompat; [exact Ha'|exact Hne|lia]).
      rewrite Hpa' in H1.
      assert (ipi' (pi a) = a).
      { rewrite <- (proj2 (Hpi _ Ha')), H1. exact Hia. }
      rewrite H0 in E2. contradiction.
  - pose proof (HP a).
    assert (H1 : pi a = pi' a) by (apply Hcompat; [exact Ha|exact Hn0|lia]).
    assert (H2 : ipi' (pi a) = a) by (rewrite H1; apply Hpi', Ha).
    rewrite H2. split; reflexivity.
Qed.

Lemma bstart_S_le_n n k : S k <= p -> bstart n p (S k) <= n.
Proof. intros H. rewrite <- (bstart_p n p) at 2 by apply HP. apply bstart_mono; [apply HP|exact H]. Qed.

Theorem step_correct : Holds_src -> Holds_dst.
Proof.
  intros HS q Hq j' Hj'.
  unfold dst. rewrite (unravel_ravel _ _ Hj').
  pose proof (inb_mk_inv _ _ _ Hj') as Hjlt.
  assert (Hlen : length j' = d) by (rewrite (inb_length _ _ Hj'), length_mk; reflexivity).
  set (g := rd j' a2). set (r := owner n0 p g). set (t := g - bstart n0 p r).
  pose proof a1_lt as Ha1. pose proof a2_lt as Ha2.
  pose proof a1_ne_a0 as Hn10. pose proof a2_ne_a0 as Hn20.
  pose proof P_a1 as HP1. pose proof P_a2 as HP2.
  assert (Hp : 0 < p) by apply HP.
  (* g ranges over the whole extent n0: the destination is not distributed along a2 *)
  assert (Hg : g < n0).
  { pose proof (Hjlt a2 Ha2) as H. unfold sh' in H. rewrite pi'_a2, HP2 in H.
    rewrite blen_one in H; [exact H|]. pose proof (Hq a2 Ha2). lia. }
  destruct (owner_spec n0 p g Hp Hg) as [Hr [Hlo Hhi]]. fold r in Hr, Hlo, Hhi.
  assert (Ht : t < blen n0 p r) by (unfold t, blen; lia).
  assert (Hgt : bstart n0 p r + t = g) by (unfold t; lia).
  (* shape of the received buffer = p stacked blocks *)
  set (M := fun b => if b =? 0 then t else rd j' (ipi' (pi (sw b)))).
  assert (Hinb : inb (bshape q) (mk d M)).
  { unfold bshape. apply inb_mk. intros b Hb. unfold M, pshape.
    destruct (Nat.eqb_spec b 0) as [->|Hb0].
    - rewrite sw_0, Nat.eqb_refl. pose proof (blen_le_bmax n0 p r Hp Hr). unfold mb. lia.
    - assert (Hsw : sw b <> a0) by (unfold sw; eqb_cases; lia).
      pose proof (sw_lt b Hb) as Hswlt.
      destruct (Nat.eqb_spec (sw b) a0) as [E|_]; [contradiction|].
      destruct (Nat.eqb_spec (sw b) a1) as [E|E].
      + rewrite E, pi_a1, (proj2 (Hpi' a0 Ha0)).
        pose proof (Hjlt a0 Ha0) as H. unfold sh' in H. fold n1 p in H.
        pose proof (blen_le_bmax n1 p (q a0) Hp (Hq a0 Ha0)). unfold mb'. lia.
      + destruct (axis_match q (sw b) Hq Hswlt Hsw E) as [Hx [Hy [Hz Hw]]].
        pose proof (Hjlt _ Hx) as H. unfold sh' in H. rewrite Hy, Hz, Hw in H. exact H. }
  assert (HR : ravel (bshape q) (mk d M) < bsize q) by (apply ravel_lt, Hinb).
  assert (Hbs : bsize q <> 0) by lia.
  assert (Haddr : ravel (mk d (fun b => if b =? 0 then mb * p else pshape q (sw b)))
                        (mk d (fun b => if b =? 0 then mb * r + t else rd j' (ipi' (pi (sw b)))))
                  = r * bsize q + ravel (bshape q) (mk d M)).
  { unfold bsize, bshape, d. rewrite !mk_S. cbn [Nat.eqb].
    assert (E1 : map (fun b => if b =? 0 then mb * p else pshape q (sw b)) (seq 1 d')
               = map (fun b => pshape q (sw b)) (seq 1 d')).
    { apply map_ext_in. intros b Hb. apply in_seq in Hb. destruct (Nat.eqb_spec b 0); [lia|reflexivity]. }
    assert (E2 : map (fun b => if b =? 0 then mb * r + t else rd j' (ipi' (pi (sw b)))) (seq 1 d')
               = map M (seq 1 d')).
    { apply map_ext_in. intros b Hb. apply in_seq in Hb. unfold M. destruct (Nat.eqb_spec b 0); [lia|reflexivity]. }
    rewrite E1, E2. unfold M at 2. cbn [Nat.eqb].
    rewrite (ravel_head_linear (mb * p) (pshape q (sw 0))).
    f_equal. rewrite sw_0. unfold pshape. rewrite Nat.eqb_refl. reflexivity. }
  rewrite Haddr. unfold rcv.
  rewrite Nat.div_add_l by exact Hbs. rewrite (Nat.div_small _ _ HR), Nat.add_0_r.
  replace (r * bsize q + ravel (bshape q) (mk d M)) with (ravel (bshape q) (mk d M) + r * bsize q) by lia.
  rewrite Nat.mod_add by exact Hbs. rewrite (Nat.mod_small _ _ HR).
  (* phase 1 on the sender *)
  unfold send. rewrite bsize_upd, bshape_upd.
  rewrite Nat.div_add_l by exact Hbs. rewrite (Nat.div_small _ _ HR), Nat.add_0_r.
  replace (q a0 * bsize q + ravel (bshape q) (mk d M)) with (ravel (bshape q) (mk d M) + q a0 * bsize q) by lia.
  rewrite Nat.mod_add by exact Hbs. rewrite (Nat.mod_small _ _ HR).
  rewrite (unravel_ravel _ _ Hinb).
  set (c := upd q a0 r).
  set (I := fun a => rd (mk d M) (sw a) + (if a =? a1 then bstart n1 p (q a0) else 0)).
  assert (HI : forall a, a < d -> I a = (if a =? a0 then t else rd j' (ipi' (pi a)))
                                   + (if a =? a1 then bstart n1 p (q a0) else 0)).
  { intros a Ha. unfold I. rewrite rd_mk by (apply sw_lt, Ha). unfold M. rewrite sw_invol.
    f_equal. unfold sw. eqb_cases; try lia; reflexivity. }
  assert (Hc : valid c) by (apply upd_valid; assumption).
  assert (Hinb2 : inb (mk d (sh c)) (mk d I)).
  { apply inb_mk. intros a Ha. rewrite (HI a Ha). unfold sh, c, upd.
    destruct (Nat.eqb_spec a a0) as [->|Hna0].
    - destruct (Nat.eqb_spec a0 a1) as [E|_]; [exfalso; apply Hn10; congruence|].
      fold n0 p. lia.
    - destruct (Nat.eqb_spec a a1) as [->|Hna1].
      + rewrite pi_a1, HP1, (proj2 (Hpi' a0 Ha0)). fold n1.
        rewrite blen_one by (pose proof (Hq a1 Ha1); lia).
        pose proof (Hjlt a0 Ha0) as H. unfold sh' in H. fold n1 p in H.
        pose proof (bstart_blen n1 p (q a0) Hp). pose proof (bstart_S_le_n n1 (q a0) (Hq a0 Ha0)). lia.
      + destruct (axis_match q a Hq Ha Hna0 Hna1) as [Hx [Hy [Hz Hw]]].
        pose proof (Hjlt _ Hx) as H. unfold sh' in H. rewrite Hy, Hz, Hw in H. lia. }
  rewrite (HS c Hc _ Hinb2). f_equal.
  (* same global index *)
  unfold glob, glob'. apply mk_ext. intros e He.
  destruct (Hipi e He) as [Hae Hpe].
  rewrite rd_mk by exact Hae. rewrite (HI _ Hae). unfold c, upd.
  destruct (Nat.eqb_spec (ipi e) a0) as [E0|E0].
  - assert (e = pi a0) by (rewrite <- Hpe, E0; reflexivity). subst e.
    destruct (Nat.eqb_spec (ipi (pi a0)) a1) as [E|_]; [exfalso; apply Hn10; congruence|].
    rewrite E0. fold a2 n0 p. rewrite HP2.
    assert (q a2 = 0) by (pose proof (Hq a2 Ha2); lia). rewrite H, bstart_0.
    fold g. lia.
  - destruct (Nat.eqb_spec (ipi e) a1) as [E1|E1].
    + assert (e = pi' a0) by (rewrite <- Hpe, E1; apply pi_a1). subst e.
      rewrite (proj2 (Hpi' a0 Ha0)). rewrite E1, HP1. fold n1 p.
      assert (q a1 = 0) by (pose proof (Hq a1 Ha1); lia). rewrite H, bstart_0.
      rewrite pi_a1, (proj2 (Hpi' a0 Ha0)). lia.
    + destruct (axis_match q (ipi e) Hq Hae E0 E1) as [Hx [Hy [Hz Hw]]].
      rewrite Hpe in *. rewrite Hz, Hw. lia.
Qed.

End Step.

