(** C15: the quasi-neutrality pipeline of fullSimulation.py

      density.getPerturbedRho ; QN.getModes(rho) ; setLayout('mode_solve') ; QN.solveEquation(phi, rho) ;
      setLayout('v_parallel_2d') ; QN.findPotential(phi)

    over an abstract field F, complex numbers being pairs (re, im) of F.  The discrete Fourier transform pair
    is a Section variable; the laws used (round trip, linearity, conjugate symmetry for real input, real
    output for conjugate-symmetric input, extensionality) are HYPOTHESES of the theorems and are checked by
    the harness on every vector scipy's fft/ifft transform.  The per-mode radial solve is likewise a Section
    variable [solveP] indexed by the per-mode parameters of QnModes.v; its laws (homogeneity, commutation with
    conjugation = real matrices) are hypotheses (C14's subject).  z is a spectator (every stage works line by
    line at fixed z) and is not represented. *)
From Coq Require Import List Arith Lia ZArith Bool PeanoNat Field Ring.
Import ListNotations.
From PGV Require Import Blocks GridSteps Sums Density QnModes.

(** a block-distributed family assembled over ranks: entry I is taken from its owner *)
Definition qn_asm {T : Type} (n p : nat) (loc : nat -> nat -> T) (I : nat) : T :=
  loc (owner n p I) (I - bstart n p (owner n p I)).

Lemma qn_asm_spec {T : Type} n p (loc : nat -> nat -> T) (G : nat -> T) :
  0 < p -> (forall a i, a < p -> i < blen n p a -> loc a i = G (bstart n p a + i)) ->
  forall I, I < n -> qn_asm n p loc I = G I.
Proof.
  intros Hp H I HI. unfold qn_asm. destruct (owner_spec n p I Hp HI) as [Ha [Hl Hu]].
  rewrite H by (try assumption; unfold blen; lia). f_equal. lia.
Qed.

Section Pipeline.
Variable F : Type.
Variables (f0 f1 : F) (fadd fmul fsub fdiv : F -> F -> F) (fopp finv : F -> F).
Hypothesis Fth : field_theory f0 f1 fadd fmul fsub fopp fdiv finv (@eq F).
Add Field QNF : Fth.

(** complex numbers *)
Definition qn_C : Type := (F * F)%type.
Definition qn_c0 : qn_C := (f0, f0).
Definition qn_cadd (x y : qn_C) : qn_C := (fadd (fst x) (fst y), fadd (snd x) (snd y)).
Definition qn_cscale (a : F) (x : qn_C) : qn_C := (fmul a (fst x), fmul a (snd x)).
Definition qn_cconj (x : qn_C) : qn_C := (fst x, fopp (snd x)).
Definition qn_is_real (x : qn_C) : Prop := snd x = f0.
Definition qn_of_real (a : F) : qn_C := (a, f0).

Lemma qn_cconj_invol x : qn_cconj (qn_cconj x) = x.
Proof. destruct x as [a b]. unfold qn_cconj. cbn. f_equal. ring. Qed.
Lemma qn_cconj_zero : qn_cconj qn_c0 = qn_c0.
Proof. unfold qn_cconj, qn_c0. cbn. f_equal. ring. Qed.

Variables nth_ nr : nat.                       (* number of theta points (= modes), of radial points *)
Definition qn_vec := nat -> qn_C.              (* a line; only indices below the extent matter *)
Variables dft idft : qn_vec -> qn_vec.         (* along theta, extent nth_ *)

(** the laws of the transform pair assumed by the theorems *)
Record qn_dft_laws : Prop := {
  dl_dft_ext : forall x y, (forall k, k < nth_ -> x k = y k) -> forall k, k < nth_ -> dft x k = dft y k;
  dl_idft_ext : forall x y, (forall k, k < nth_ -> x k = y k) -> forall k, k < nth_ -> idft x k = idft y k;
  dl_round_trip : forall x k, k < nth_ -> idft (dft x) k = x k;
  dl_dft_lin : forall a x y k, k < nth_ ->
      dft (fun j => qn_cadd (qn_cscale a (x j)) (y j)) k = qn_cadd (qn_cscale a (dft x k)) (dft y k);
  dl_idft_lin : forall a x y k, k < nth_ ->
      idft (fun j => qn_cadd (qn_cscale a (x j)) (y j)) k = qn_cadd (qn_cscale a (idft x k)) (idft y k);
  dl_dft_conj : forall x, (forall k, k < nth_ -> qn_is_real (x k)) ->
      forall k, k < nth_ -> dft x (qn_conj nth_ k) = qn_cconj (dft x k);
  dl_idft_real : forall y, (forall k, k < nth_ -> y (qn_conj nth_ k) = qn_cconj (y k)) ->
      forall k, k < nth_ -> qn_is_real (idft y k)
}.

(** the per-mode radial solve (spline interpolation of the mode, mass matrix, sparse solve, evaluation at the
    radial points), as a map on radial lines that depends on the mode only through its parameters *)
Variable P : Type.
Variable solveP : P -> qn_vec -> qn_vec.
Record qn_solve_laws : Prop := {
  sl_ext : forall q x y, (forall r, r < nr -> x r = y r) -> forall r, r < nr -> solveP q x r = solveP q y r;
  sl_hom : forall q a x r, r < nr -> solveP q (fun s => qn_cscale a (x s)) r = qn_cscale a (solveP q x r);
  sl_conj : forall q x r, r < nr -> solveP q (fun s => qn_cconj (x s)) r = qn_cconj (solveP q x r)
}.

Variable ptab : list P.                        (* per-mode parameters, a table indexed by GLOBAL mode index *)
Variable dP : P.
Hypothesis ptab_len : length ptab = nth_.
Definition qn_par (I : nat) : P := nth I ptab dP.

(** a field at fixed z: radial index -> line over theta *)
Definition qn_fld := nat -> qn_vec.

(** the pipeline on the global field *)
Definition qn_modes (rho : qn_fld) : qn_fld := fun r => dft (rho r).                          (* getModes *)
Definition qn_solved (rho : qn_fld) (I : nat) : qn_vec :=                                     (* solveEquation *)
  solveP (qn_par I) (fun r => qn_modes rho r I).
Definition qn_phi (rho : qn_fld) : qn_fld := fun r => idft (fun I => qn_solved rho I r).      (* findPotential *)

(** ** zero lemmas from linearity *)
Lemma qn_cscale0 x : qn_cscale f0 x = qn_c0.
Proof. destruct x; unfold qn_cscale, qn_c0; cbn; f_equal; ring. Qed.
Lemma qn_cadd0 : qn_cadd qn_c0 qn_c0 = qn_c0.
Proof. unfold qn_cadd, qn_c0; cbn; f_equal; ring. Qed.

Lemma qn_c1add0 : qn_cadd (qn_cscale f1 qn_c0) qn_c0 = qn_c0.
Proof. unfold qn_cadd, qn_cscale, qn_c0; cbn; f_equal; ring. Qed.

(** additivity gives the image of the zero line: dft 0 = dft (0 + 0) = dft 0 + dft 0 *)
Lemma qn_dft_zero (L : qn_dft_laws) x : (forall k, k < nth_ -> x k = qn_c0) -> forall k, k < nth_ -> dft x k = qn_c0.
Proof.
  intros Hx k Hk.
  set (c := fun _ : nat => qn_c0).
  assert (E5 : dft c k = dft (fun j => qn_cadd (qn_cscale f1 (c j)) (c j)) k).
  { apply (dl_dft_ext L); [|exact Hk]. intros j Hj. unfold c. rewrite qn_c1add0. reflexivity. }
  rewrite (dl_dft_lin L f1 c c k Hk) in E5.
  assert (Ec : dft c k = qn_c0).
  { destruct (dft c k) as [u v]. unfold qn_cadd, qn_cscale, qn_c0 in *. cbn in E5. injection E5 as Eu Ev.
    f_equal.
    - transitivity (fsub (fadd (fmul f1 u) u) u); [ring|]. rewrite <- Eu. ring.
    - transitivity (fsub (fadd (fmul f1 v) v) v); [ring|]. rewrite <- Ev. ring. }
  rewrite <- Ec. apply (dl_dft_ext L); [|exact Hk]. intros j Hj. rewrite Hx by exact Hj. reflexivity.
Qed.

Lemma qn_idft_zero (L : qn_dft_laws) x : (forall k, k < nth_ -> x k = qn_c0) -> forall k, k < nth_ -> idft x k = qn_c0.
Proof.
  intros Hx k Hk. set (c := fun _ : nat => qn_c0).
  assert (E5 : idft c k = idft (fun j => qn_cadd (qn_cscale f1 (c j)) (c j)) k).
  { apply (dl_idft_ext L); [|exact Hk]. intros j Hj. unfold c. rewrite qn_c1add0. reflexivity. }
  rewrite (dl_idft_lin L f1 c c k Hk) in E5.
  assert (Ec : idft c k = qn_c0).
  { destruct (idft c k) as [u v]. unfold qn_cadd, qn_cscale, qn_c0 in *. cbn in E5. injection E5 as Eu Ev.
    f_equal.
    - transitivity (fsub (fadd (fmul f1 u) u) u); [ring|]. rewrite <- Eu. ring.
    - transitivity (fsub (fadd (fmul f1 v) v) v); [ring|]. rewrite <- Ev. ring. }
  rewrite <- Ec. apply (dl_idft_ext L); [|exact Hk]. intros j Hj. rewrite Hx by exact Hj. reflexivity.
Qed.

Lemma qn_solve_zero (S : qn_solve_laws) q x : (forall r, r < nr -> x r = qn_c0) -> forall r, r < nr -> solveP q x r = qn_c0.
Proof.
  intros Hx r Hr.
  rewrite (sl_ext S q x (fun s => qn_cscale f0 (x s))) by (try exact Hr; intros s Hs; rewrite Hx by exact Hs; rewrite qn_cscale0; reflexivity).
  rewrite (sl_hom S q f0 x r Hr). apply qn_cscale0.
Qed.

(** ** equilibrium_phi_zero: zero (perturbed) density gives zero potential *)
Theorem qn_zero_density_zero_potential (L : qn_dft_laws) (S : qn_solve_laws) (rho : qn_fld) :
  (forall r k, r < nr -> k < nth_ -> rho r k = qn_c0) ->
  forall r k, r < nr -> k < nth_ -> qn_phi rho r k = qn_c0.
Proof.
  intros H0 r k Hr Hk. unfold qn_phi. apply (qn_idft_zero L); [|exact Hk].
  intros I HI. unfold qn_solved. apply (qn_solve_zero S); [|exact Hr].
  intros s Hs. unfold qn_modes. apply (qn_dft_zero L); [|exact HI]. intros j Hj. apply H0; assumption.
Qed.

(** with C16: a distribution whose values along v are the equilibrium rows has zero perturbed density, hence
    zero potential.  [f r k l] is the distribution at radius r, angle k, velocity index l (fixed z), [feq r l]
    the equilibrium table, [qf] the quadrature coefficients; the density is stored in a complex array *)
Definition qn_density (nc : nat) (qf : nat -> F) (f : nat -> nat -> nat -> F) (feq : nat -> nat -> F) : qn_fld :=
  fun r k => qn_of_real (dn_rho_fn F f0 fadd fmul fsub nc qf (f r k) (feq r)).

Theorem qn_equilibrium_phi_zero (L : qn_dft_laws) (S : qn_solve_laws) nc qf f feq :
  (forall r k l, r < nr -> k < nth_ -> l < nc -> f r k l = feq r l) ->
  forall r k, r < nr -> k < nth_ -> qn_phi (qn_density nc qf f feq) r k = qn_c0.
Proof.
  intros Heq. apply (qn_zero_density_zero_potential L S). intros r k Hr Hk. unfold qn_density, qn_of_real, qn_c0.
  f_equal. apply (dn_rho_equilibrium_zero F f0 f1 fadd fmul fsub fdiv fopp finv Fth). intros l Hl. apply Heq; assumption.
Qed.

(** ** real_in_real_out *)
(** hypothesis on the parameters: conjugate modes are solved with the same parameters (proved for the model's
    parameters in the QN configuration: QnModes.qn_QN_param_conj) *)
Theorem qn_real_in_real_out (L : qn_dft_laws) (S : qn_solve_laws) (rho : qn_fld) :
  (forall I, I < nth_ -> qn_par (qn_conj nth_ I) = qn_par I) ->
  (forall r k, r < nr -> k < nth_ -> qn_is_real (rho r k)) ->
  forall r k, r < nr -> k < nth_ -> qn_is_real (qn_phi rho r k).
Proof.
  intros Hpar Hreal r k Hr Hk. unfold qn_phi. apply (dl_idft_real L); [|exact Hk].
  intros I HI. unfold qn_solved. rewrite Hpar by exact HI.
  rewrite <- (sl_conj S (qn_par I) (fun r0 => qn_modes rho r0 I) r Hr).
  apply (sl_ext S); [|exact Hr]. intros s Hs. unfold qn_modes.
  apply (dl_dft_conj L); [|exact HI]. intros j Hj. apply Hreal; assumption.
Qed.

(** ** pipeline_is_per_mode_solve: the distributed pipeline equals the global one *)
(** getModes and findPotential run in layout v_parallel_2d (r block-distributed over [p] processes, theta
    contiguous), solveEquation in layout mode_solve (theta block-distributed over the same [p] processes, r
    contiguous).  The layout changes are identities on the global field (C01 / C03), so that a rank's local
    mode line i in mode_solve is line [bstart nth_ p b + i] of the global field assembled after getModes. *)
Section Distributed.
Variable p : nat.
Hypothesis Hp : 0 < p.
Variable rho : qn_fld.

Definition qn_locA (a i : nat) : qn_vec := dft (rho (bstart nr p a + i)).
Definition qn_modesD : qn_fld := qn_asm nr p qn_locA.
Definition qn_locB (b i : nat) : qn_vec :=
  solveP (resolve P dP GlobalTab ptab (bstart nth_ p b) (blen nth_ p b) i) (fun r => qn_modesD r (bstart nth_ p b + i)).
Definition qn_solvedD : nat -> qn_vec := qn_asm nth_ p qn_locB.
Definition qn_locC (a i : nat) : qn_vec := idft (fun I => qn_solvedD I (bstart nr p a + i)).
Definition qn_phiD : qn_fld := qn_asm nr p qn_locC.

Theorem qn_pipeline_is_per_mode_solve (L : qn_dft_laws) (S : qn_solve_laws) :
  forall r k, r < nr -> k < nth_ -> qn_phiD r k = qn_phi rho r k.
Proof.
  intros r k Hr Hk.
  assert (HA : forall s, s < nr -> qn_modesD s = qn_modes rho s).
  { apply (qn_asm_spec nr p qn_locA (qn_modes rho) Hp). intros a i _ _. reflexivity. }
  assert (HB : forall I, I < nth_ -> qn_solvedD I = solveP (qn_par I) (fun s => qn_modesD s I)).
  { apply (qn_asm_spec nth_ p qn_locB (fun I => solveP (qn_par I) (fun s => qn_modesD s I)) Hp).
    intros b i _ _. reflexivity. }
  unfold qn_phiD. rewrite (qn_asm_spec nr p qn_locC (fun s => idft (fun I => qn_solvedD I s)) Hp) by (try exact Hr; intros; reflexivity).
  unfold qn_phi. apply (dl_idft_ext L); [|exact Hk]. intros I HI. rewrite (HB I HI). unfold qn_solved.
  apply (sl_ext S); [|exact Hr]. intros s Hs. rewrite (HA s Hs). reflexivity.
Qed.
End Distributed.

(** two process counts give the same potential *)
Corollary qn_pipeline_decomposition_free (L : qn_dft_laws) (S : qn_solve_laws) p q rho :
  0 < p -> 0 < q -> forall r k, r < nr -> k < nth_ -> qn_phiD p rho r k = qn_phiD q rho r k.
Proof.
  intros Hp Hq r k Hr Hk. rewrite (qn_pipeline_is_per_mode_solve p Hp rho L S r k Hr Hk).
  rewrite (qn_pipeline_is_per_mode_solve q Hq rho L S r k Hr Hk). reflexivity.
Qed.

End Pipeline.

(* ------------------------------------------------------------------------------------------ *)
(** * chi_selects_convention: the m = 0 operator, entry by entry *)
Section Chi.
Variable F : Type.
Variables (f0 f1 : F) (fadd fmul fsub fdiv : F -> F -> F) (fopp finv : F -> F).
Hypothesis Fth : field_theory f0 f1 fadd fmul fsub fopp fdiv finv (@eq F).
Add Field QNC : Fth.
Variables dPhidPsi dPhiPsi PhiPsi k2PhiPsi : F.     (* one entry (a, b) of each stored matrix *)

Definition qn_term_val (t : qn_term) : F :=
  match t with QnDPhidPsi => dPhidPsi | QnDPhiPsi => dPhiPsi | QnPhiPsi => PhiPsi end.
(** scipy's [A + B + C] *)
Definition qn_terms_val (l : list qn_term) : F := fold_left (fun acc t => fadd acc (qn_term_val t)) l f0.
Definition qn_stiffness_val : F := qn_terms_val qn_stiffness_terms.
(** entry of the matrix a non-zero mode is solved with *)
Definition qn_mode_matrix_val (msq : F) : F := fsub qn_stiffness_val (fmul msq k2PhiPsi).

(** adiabatic electrons: chi = 0 solves the m = 0 mode with the generic operator at m^2 = 0 (phi - 0<phi>);
    chi = 1 drops the PhiPsi term (phi - <phi> vanishes on the flux-surface average); any other chi is refused;
    kinetic electrons ignore chi and use the generic operator *)
Theorem qn_chi_selects_convention :
  (forall l, qn_stiffness0_terms true 0 = Some l -> qn_terms_val l = qn_mode_matrix_val f0) /\
  (forall l, qn_stiffness0_terms true 1 = Some l -> fadd (qn_terms_val l) PhiPsi = qn_mode_matrix_val f0) /\
  (forall chi, chi <> 0%Z -> chi <> 1%Z -> qn_stiffness0_terms true chi = None) /\
  (forall chi l, qn_stiffness0_terms false chi = Some l -> qn_terms_val l = qn_mode_matrix_val f0).
Proof.
  repeat split.
  - intros l H. cbn in H. injection H as <-. unfold qn_mode_matrix_val, qn_stiffness_val, qn_terms_val. cbn. ring.
  - intros l H. cbn in H. injection H as <-. unfold qn_mode_matrix_val, qn_stiffness_val, qn_terms_val. cbn. ring.
  - intros chi H0 H1. unfold qn_stiffness0_terms.
    destruct (Z.eqb_spec chi 0); [contradiction|]. destruct (Z.eqb_spec chi 1); [contradiction|]. reflexivity.
  - intros chi l H. cbn in H. injection H as <-. unfold qn_mode_matrix_val, qn_stiffness_val, qn_terms_val. cbn. ring.
Qed.
End Chi.

(* ------------------------------------------------------------------------------------------ *)
(** * equilibrium_fixed_point: one Strang step of fullSimulation.py leaves (f_eq, phi = 0) unchanged *)
(** The advection operators are abstract; that each of them leaves the equilibrium unchanged (for the zero
    potential) is the subject of C10 (flux surface), C11 (v parallel) and C12 (poloidal) and is a HYPOTHESIS
    here.  The quasi-neutrality solve of the equilibrium is the zero potential by [qn_equilibrium_phi_zero]. *)
Section Strang.
Variables Dist Pot : Type.
Variable flux : Dist -> Dist.
Variables vpar vpar_keep pol_half pol_full : Pot -> Dist -> Dist.
Variable qn : Dist -> Pot.

(** the loop body of fullSimulation.py from (f^n, phi^n); returns (f^{n+1}, phi^{n+1}) *)
Definition qn_strang_step (fp : Dist * Pot) : Dist * Pot :=
  let (f, phi) := fp in
  let fh := pol_half phi (vpar phi (flux f)) in          (* Lie step to n + 1/2 on a copy (saveGridValues) *)
  let phih := qn fh in
  let f1 := pol_full phih (vpar phih (flux f)) in        (* restoreGridValues, then the Strang sequence *)
  let f2 := flux (vpar_keep phih f1) in
  (f2, qn f2).

Theorem qn_equilibrium_fixed_point (feq : Dist) (phi0 : Pot) :
  flux feq = feq ->                       (* C10 *)
  vpar phi0 feq = feq ->                  (* C11, zero potential *)
  vpar_keep phi0 feq = feq ->             (* C11 *)
  pol_half phi0 feq = feq ->              (* C12, zero potential *)
  pol_full phi0 feq = feq ->              (* C12 *)
  qn feq = phi0 ->                        (* qn_equilibrium_phi_zero *)
  qn_strang_step (feq, phi0) = (feq, phi0).
Proof.
  intros Hf Hv Hk Hph Hpf Hq. unfold qn_strang_step.
  rewrite Hf, Hv, Hph, Hq, Hv, Hpf, Hk, Hf, Hq. reflexivity.
Qed.

(** and then for any number of steps *)
Corollary qn_equilibrium_fixed_point_iter (feq : Dist) (phi0 : Pot) (n : nat) :
  flux feq = feq -> vpar phi0 feq = feq -> vpar_keep phi0 feq = feq -> pol_half phi0 feq = feq ->
  pol_full phi0 feq = feq -> qn feq = phi0 ->
  Nat.iter n qn_strang_step (feq, phi0) = (feq, phi0).
Proof.
  intros Hf Hv Hk Hph Hpf Hq. induction n as [|n IH]; [reflexivity|].
  change (Nat.iter (S n) qn_strang_step (feq, phi0)) with (qn_strang_step (Nat.iter n qn_strang_step (feq, phi0))). rewrite IH.
  apply qn_equilibrium_fixed_point; assumption.
Qed.
End Strang.

(* ------------------------------------------------------------------------------------------ *)
(** * real_in_real_out for the model's own per-mode parameters (QN configuration) *)
Theorem qn_QN_real_in_real_out (F : Type) (f0 f1 : F) (fadd fmul fsub fdiv : F -> F -> F) (fopp finv : F -> F)
  (nth_ nr : nat) (dft idft : qn_vec F -> qn_vec F) (solveP : qn_param -> qn_vec F -> qn_vec F) (nb : Z) (d : qn_param) :
  qn_dft_laws F f0 fadd fmul fopp nth_ dft idft ->
  qn_solve_laws F fmul fopp nr qn_param solveP ->
  forall rho : qn_fld F,
  (forall r k, r < nr -> k < nth_ -> qn_is_real F f0 (rho r k)) ->
  forall r k, r < nr -> k < nth_ ->
  qn_is_real F f0 (qn_phi F dft idft qn_param solveP (qn_params nb qn_QN_lN qn_QN_uN nth_) d rho r k).
Proof.
  intros L S rho Hreal. apply (qn_real_in_real_out F f0 fadd fmul fopp nth_ nr dft idft qn_param solveP _ d L S rho); [|exact Hreal].
  intros I HI. unfold qn_par. rewrite !qn_params_nth by (try apply qn_conj_lt; exact HI). apply qn_QN_param_conj. exact HI.
Qed.
