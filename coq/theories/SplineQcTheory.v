(** C07 at the executed instance: the floor law of int() holds for [spq_ops] (proved in AdvQc.v,
    [advq_trunc_ok]), so the theorems about the uniform-cubic path hold on Qc without hypothesis. *)
From Coq Require Import List Arith Lia ZArith QArith Qcanon Bool.
Import ListNotations.
From PGV Require Import BasisCoxDeBoor FindSpan CubicUniform Sums SplineModel SplineTheory SplineQc
  SplinePaths AdvCommon AdvQc.

Theorem spq_trunc_ok : sp_trunc_ok Qc spq_ops.
Proof. exact (proj1 advq_trunc_ok). Qed.

Definition spq_ofnat := sp_ofnat Qc spq_ops.
Definition spq_tU := tU Qc (sp0 spq_ops) (sp1 spq_ops) Qcplus Qcmult Qcminus.

Theorem spq_cu_find_span_spec (xmin xmax dx x : Qc) (n : nat) : (1 <= n)%nat -> sp_lt spq_ops (sp0 spq_ops) dx ->
  xmax = (xmin + spq_ofnat n * dx)%Qc -> sp_le spq_ops xmin x -> sp_le spq_ops x xmax ->
  exists s o, spq_cu_find_span xmin xmax dx x (Z.of_nat n) = SpOk (Z.of_nat s, o) /\
    (3 <= s <= n + 2)%nat /\ x = (spq_tU xmin dx s + o * dx)%Qc /\ sp_le spq_ops (sp0 spq_ops) o /\
    sp_le spq_ops o (sp1 spq_ops) /\ (o = sp1 spq_ops -> s = (n + 2)%nat).
Proof. intros. apply (sp_cu_find_span_spec Qc spq_ops spq_laws); try assumption. exact spq_trunc_ok. Qed.

Theorem spq_cu_eval_1d_closed (xmin xmax dx fn : Qc) rest (n : nat) coeffs (x : Qc) :
  (1 <= n)%nat -> sp_lt spq_ops (sp0 spq_ops) dx -> xmax = (xmin + spq_ofnat n * dx)%Qc ->
  spq_trunc fn = Z.of_nat n -> sp_le spq_ops xmin x -> sp_le spq_ops x xmax -> length coeffs = (n + 3)%nat ->
  exists s, (3 <= s <= n + 2)%nat /\
    spq_cu_eval_1d_scalar x (xmin :: xmax :: dx :: fn :: rest) 3 coeffs 0
    = SpOk (sumr Qc (sp0 spq_ops) Qcplus 0 4 (fun j => (nth (s - 3 + j) coeffs (sp0 spq_ops)
              * sp_Nc Qc spq_ops (spq_uniform_knots xmin dx n) (n + 3) x 3 (s - 3 + j))%Qc)).
Proof. intros. apply (sp_cu_eval_1d_closed Qc spq_ops spq_laws); try assumption. exact spq_trunc_ok. Qed.

Theorem spq_cu_path_eq_nu_path_1d (xmin xmax dx fn : Qc) rest (n : nat) coeffs (x : Qc) der :
  (1 <= n)%nat -> sp_lt spq_ops (sp0 spq_ops) dx -> xmax = (xmin + spq_ofnat n * dx)%Qc ->
  spq_trunc fn = Z.of_nat n -> sp_le spq_ops xmin x -> sp_le spq_ops x xmax -> length coeffs = (n + 3)%nat ->
  (der <= 1)%nat ->
  spq_cu_eval_1d_scalar x (xmin :: xmax :: dx :: fn :: rest) 3 coeffs der
  = spq_nu_eval_1d_scalar x (spq_uniform_knots xmin dx n) 3 coeffs der.
Proof. intros. apply (sp_cu_path_eq_nu_path_1d Qc spq_ops spq_laws); try assumption. exact spq_trunc_ok. Qed.

Theorem spq_cu_path_eq_nu_path_2d (xmin xmax dx fnx : Qc) restx (nx : nat) (ymin ymax dy fny : Qc) resty (ny : nat)
  coeffs (x y : Qc) e1 e2 :
  (1 <= nx)%nat -> (1 <= ny)%nat -> sp_lt spq_ops (sp0 spq_ops) dx -> sp_lt spq_ops (sp0 spq_ops) dy ->
  xmax = (xmin + spq_ofnat nx * dx)%Qc -> ymax = (ymin + spq_ofnat ny * dy)%Qc ->
  spq_trunc fnx = Z.of_nat nx -> spq_trunc fny = Z.of_nat ny ->
  sp_le spq_ops xmin x -> sp_le spq_ops x xmax -> sp_le spq_ops ymin y -> sp_le spq_ops y ymax ->
  length coeffs = (nx + 3)%nat -> (forall row, In row coeffs -> length row = (ny + 3)%nat) ->
  (e1 <= 1)%nat -> (e2 <= 1)%nat ->
  spq_cu_eval_2d_scalar x y (xmin :: xmax :: dx :: fnx :: restx) 3 (ymin :: ymax :: dy :: fny :: resty) 3 coeffs e1 e2
  = spq_nu_eval_2d_scalar x y (spq_uniform_knots xmin dx nx) 3 (spq_uniform_knots ymin dy ny) 3 coeffs e1 e2.
Proof. intros. apply (sp_cu_path_eq_nu_path_2d Qc spq_ops spq_laws); try assumption. exact spq_trunc_ok. Qed.
