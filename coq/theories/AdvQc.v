(** The advection / parallel-gradient models executed on canonical rationals (stdlib [Qc]): the
    instances extracted for C10, C11, C13 (coq/extract/parts/c10.txt, c11.txt, c13.txt), the rational
    stand-ins for exp / tanh / sqrt / pi used by the exact differential of C11, and the proof that
    the executed [sptrunc] satisfies [adv_trunc_ok]. *)
From Coq Require Import List Arith Lia ZArith QArith Qcanon Bool.
Import ListNotations.
From PGV Require Import BasisCoxDeBoor FindSpan CubicUniform SplineModel SplineTheory SplineQc
  AdvCommon FluxAdv VParAdv ParGrad.

Definition advq_ev := adv_ev Qc spq_ops.
Definition advq_floor := adv_floor Qc spq_ops.
Definition advq_mod := adv_mod Qc spq_ops.

(* ---- C10 ---- *)
Definition fxq_get_lagrange_vals (pi : Qc) (nz i : nat) (shifts : list Z) (tab : list (list (list (option Qc))))
  (qVals tss knots : list Qc) (deg : nat) (coeffs : list Qc) (cu : bool) : sp_res (list (list (list (option Qc)))) :=
  sp_bind (fx_get_lagrange_vals Qc spq_ops (advq_ev cu knots deg) pi nz i shifts (fx_of_tab Qc tab) qVals tss coeffs)
          (fun v => SpOk (fx_tab Qc nz (length qVals) (length shifts) v)).
Definition fxq_flux_advection (nq nr : nat) (lc : list Qc) (tab : list (list (list (option Qc)))) :=
  fx_flux_advection Qc spq_ops nq nr lc (fx_of_tab Qc tab).
Definition fxq_step (pi : Qc) (nz : nat) (qVals : list Qc) (cs : list (list Qc)) (shifts : list Z) (tss lc knots : list Qc)
  (deg : nat) (cu : bool) := fx_step Qc spq_ops (advq_ev cu knots deg) pi nz qVals cs shifts tss lc.
Definition fxq_get_lagrange_pts := fx_get_lagrange_pts Qc spq_ops.
Definition fxq_lag_coeffs := fx_lag_coeffs Qc spq_ops.

(* ---- C11 ---- *)
(** rational stand-ins (the same functions are bound to the names exp, tanh, sqrt, pi when the real
    source is executed on Fractions): exp x := 1/(1+x^2), tanh x := x/(1+x^2), sqrt x := (1+x)/2, pi := 22/7 *)
Definition vpq_ext : vp_ext Qc :=
  VpExt Qc (fun x => 1 / (1 + x * x))%Qc (fun x => x / (1 + x * x))%Qc (fun x => (1 + x) / (1 + 1))%Qc (spq_of 22 7).
Definition vpq_f_eq := vp_f_eq Qc spq_ops vpq_ext.
Definition vpq_eval_step := vp_eval_step Qc spq_ops vpq_ext.
Definition vpq_step := vp_step Qc spq_ops vpq_ext.
Definition vpq_wrap := vp_wrap Qc spq_ops.

(* ---- C13 ---- *)
Definition pgrq_parallel_gradient (nz nq n : nat) (cs : list (list Qc)) (thetaVals : list (list (list Qc)))
  (shifts : list Z) (coeffs : list Qc) (bz inv_dz : Qc) (knots : list Qc) (deg : nat) (cu : bool) :=
  pgr_parallel_gradient Qc spq_ops (advq_ev cu knots deg) nz nq n cs thetaVals shifts coeffs bz inv_dz.
Definition pgrq_theta_vals := pgr_theta_vals Qc spq_ops.
Definition pgrq_moments_ok := pgr_moments_ok Qc spq_ops.
Definition pgrq_steps (n : nat) : list Z * nat * nat := (pgr_shifts n, pgr_fwd n, pgr_bkwd n).

(* ---- printing helpers for the vm_compute cross-check ---- *)
Definition advq_show_rows (r : sp_res (list (list Qc))) : sp_res (list (list (Z * positive))) :=
  match r with SpOk a => SpOk (map (map spq_show) a) | SpIndexErr => SpIndexErr | SpFuelErr => SpFuelErr
             | SpDivErr => SpDivErr | SpArgErr => SpArgErr end.

(* ---- the executed truncation is Python's int() ---- *)
Lemma advq_ofn n : sp_ofnat Qc spq_ops n = Q2Qc (inject_Z (Z.of_nat n)).
Proof.
  induction n as [|n IH]; [reflexivity|].
  change (sp_ofnat Qc spq_ops (S n)) with (Qcplus (sp_ofnat Qc spq_ops n) (Q2Qc 1)). rewrite IH.
  unfold Qcplus. apply Q2Qc_eq_iff.
  change (this (Q2Qc (inject_Z (Z.of_nat n)))) with (Qred (inject_Z (Z.of_nat n))). rewrite Qred_correct.
  rewrite Nat2Z.inj_succ. unfold inject_Z, Qeq, Qplus. cbn. lia.
Qed.
Lemma advq_ofZ_nonneg z : (0 <= z)%Z -> sp_ofZ Qc spq_ops z = Q2Qc (inject_Z z).
Proof. intros H. rewrite (sp_ofZ_ofnat Qc spq_ops spq_laws) by exact H. rewrite advq_ofn, Z2Nat.id by exact H. reflexivity. Qed.

Lemma advq_this_Q2Qc a : (this (Q2Qc a) == a)%Q.
Proof. apply Qred_correct. Qed.

Theorem advq_trunc_ok : adv_trunc_ok Qc spq_ops.
Proof.
  split.
  - intros v Hv. apply spq_le_iff in Hv. destruct v as [[n d] Hc]. unfold Qcle in Hv. cbn in Hv.
    unfold Qle in Hv. cbn in Hv. assert (Hn : (0 <= n)%Z) by lia.
    change (sptrunc spq_ops (Qcmake (n # d) Hc)) with (Z.quot n (Zpos d)).
    rewrite Z.quot_div_nonneg by lia.
    assert (Hq : (0 <= n / Zpos d)%Z) by (apply Z.div_pos; lia).
    split; [exact Hq|]. rewrite advq_ofZ_nonneg by exact Hq.
    pose proof (Z.mul_div_le n (Zpos d) ltac:(lia)) as H1.
    pose proof (Z.mod_pos_bound n (Zpos d) ltac:(lia)) as H2.
    pose proof (Z.div_mod n (Zpos d) ltac:(lia)) as H3.
    split.
    + apply spq_le_iff. unfold Qcle, Q2Qc, this. rewrite Qred_correct. unfold Qle, inject_Z. cbn. lia.
    + assert (Es : (this (spadd spq_ops (Q2Qc (inject_Z (n / Zpos d))) (sp1 spq_ops)) == inject_Z (n / Zpos d) + 1)%Q).
      { change (this (spadd spq_ops (Q2Qc (inject_Z (n / Zpos d))) (sp1 spq_ops)))
          with (this (Q2Qc (this (Q2Qc (inject_Z (n / Zpos d))) + this (Q2Qc 1)))).
        rewrite !advq_this_Q2Qc. reflexivity. }
      split.
      * apply spq_le_iff. unfold Qcle. rewrite Es. cbn [this]. unfold Qle, Qplus, inject_Z. cbn. nia.
      * intros E. rewrite <- E in Es. cbn [this] in Es. unfold Qeq, Qplus, inject_Z in Es. cbn in Es. nia.
  - intros [[n d] Hc].
    change (sptrunc spq_ops (spopp spq_ops (Qcmake (n # d) Hc)))
      with (Z.quot (Qnum (Qred (- (n # d)))) (Zpos (Qden (Qred (- (n # d)))))).
    change (sptrunc spq_ops (Qcmake (n # d) Hc)) with (Z.quot n (Zpos d)).
    rewrite Qred_opp. pose proof Hc as Hc'. rewrite Hc'. cbn [Qopp Qnum Qden].
    apply Z.quot_opp_l. lia.
Qed.
