(** C08: linear functions are reproduced (Greville identity).
    For the Cox - de Boor triangle above the indicator of span s ([CoxDeBoorGen.Ng], = Algorithm A2.2 on span s for
    EVERY x, [basis_eq_delta]):  sum_i (t_{i+1} + ... + t_{i+k}) N_{i,k}(x) = k x,  by induction on the degree k
    through the de Boor step  sum_i a_i N_{i,k+1} = sum_i (a_i w_i + a_{i-1} (1 - w_i)) N_{i,k}. *)
From Coq Require Import List Arith Lia ZArith Bool Field Ring Setoid.
Import ListNotations.
From PGV Require Import BasisCoxDeBoor CoxDeBoorGen FindSpan CubicUniform CollocRow Sums SplineModel SplineTheory InterpModel InterpTheory QuadTheory.

Section Greville.
Variable F : Type.
Variable K : sp_ops F.
Hypothesis HK : sp_laws K.
Add Field IPFG : (spl_field K HK).
Notation "x + y" := (spadd K x y). Notation "x * y" := (spmul K x y).
Notation "x - y" := (spsub K x y). Notation "x / y" := (spdiv K x y).
Notation "0" := (sp0 K). Notation "1" := (sp1 K).
Notation "x <= y" := (sp_le K x y). Notation "x < y" := (sp_lt K x y).
Notation sumn := (Sums.sumn F 0 (spadd K)).
Notation sumf := (sumF F 0 (spadd K)).
Notation kn := (sp_kn F K).
Notation ofn := (sp_ofnat F K).
Notation Nd knots x s := (Ng F 0 (spadd K) (spmul K) (spsub K) (spdiv K) (kn knots) x (speqb K) (delta F 0 1 s)).

Lemma ip_sumn_head n (f : nat -> F) : sumn (S n) f = f 0%nat + sumn n (fun r => f (S r)).
Proof. induction n as [|n IH]; [cbn; ring|]. change (sumn (S (S n)) f) with (sumn (S n) f + f (S n)). rewrite IH. cbn [Sums.sumn]. ring. Qed.

Section Span.
Variable knots : list F.
Variable x : F.
Variable s : nat.
Hypothesis Hsorted : sp_sorted F K knots.
Hypothesis Hspan : sp_span_ok F K knots s.
Notation t := (kn knots).
Notation Nk := (Nd knots x s).

Lemma ip_den_ne0 i k : (i <= s)%nat -> (s < i + k + 1)%nat -> t (i + k + 1)%nat - t i <> 0.
Proof.
  intros H1 H2 E. destruct Hspan as [Hle Hne]. apply Hne. apply (spl_le_antisym K HK); [exact Hle|].
  apply (spl_le_trans K HK) with (t (i + k + 1)%nat); [apply (sp_kn_mono F K HK knots Hsorted); lia|].
  replace (t (i + k + 1)%nat) with ((t (i + k + 1)%nat - t i) + t i) by ring. rewrite E.
  replace (0 + t i) with (t i) by ring. apply (sp_kn_mono F K HK knots Hsorted). lia.
Qed.

Lemma ip_frac_div num den : den <> 0 -> BasisCoxDeBoor.frac F 0 (spdiv K) (speqb K) num den = num / den.
Proof. intros H. unfold BasisCoxDeBoor.frac. destruct (sp_eqb_spec F K HK den 0); [contradiction|reflexivity]. Qed.

(** the de Boor step, for any coefficients a *)
Lemma ip_deboor_step (a : nat -> F) k i0 : (i0 + S k = s)%nat ->
  sumn (S (S k)) (fun q => a (i0 + q)%nat * Nk (S k) (i0 + q)%nat)
  = sumn (S k) (fun q => (a (i0 + S q)%nat * ((x - t (i0 + S q)%nat) / (t (i0 + S q + k + 1)%nat - t (i0 + S q)%nat))
                          + a (i0 + q)%nat * ((t (i0 + S q + k + 1)%nat - x) / (t (i0 + S q + k + 1)%nat - t (i0 + S q)%nat)))
                         * Nk k (i0 + S q)%nat).
Proof.
  intros Hi0.
  set (A := fun q => a (i0 + q)%nat * (BasisCoxDeBoor.frac F 0 (spdiv K) (speqb K) (x - t (i0 + q)%nat) (t (i0 + q + k + 1)%nat - t (i0 + q)%nat)
                                      * Nk k (i0 + q)%nat)).
  set (B := fun q => a (i0 + q)%nat * (BasisCoxDeBoor.frac F 0 (spdiv K) (speqb K) (t (i0 + q + k + 2)%nat - x) (t (i0 + q + k + 2)%nat - t (S (i0 + q)))
                                      * Nk k (S (i0 + q)))).
  rewrite (ip_sumn_ext F K (S (S k)) _ (fun q => A q + B q)).
  2:{ intros q _. unfold A, B. cbn [Ng]. ring. }
  rewrite (ip_sumn_add F K HK).
  (* first parts: the term q = 0 vanishes *)
  rewrite (ip_sumn_head (S k) A).
  assert (EA0 : A 0%nat = 0).
  { unfold A. rewrite (ip_Nd_support F K HK knots x s k (i0 + 0)) by lia. ring. }
  (* second parts: the term q = k+1 vanishes *)
  change (sumn (S (S k)) B) with (sumn (S k) B + B (S k)).
  assert (EBk : B (S k) = 0).
  { unfold B. rewrite (ip_Nd_support F K HK knots x s k (S (i0 + S k))) by lia. ring. }
  rewrite EA0, EBk.
  transitivity (sumn (S k) (fun q => A (S q) + B q)); [rewrite (ip_sumn_add F K HK); ring|].
  apply (ip_sumn_ext F K). intros q Hq. unfold A, B.
  replace (i0 + q + k + 2)%nat with (i0 + S q + k + 1)%nat by lia. replace (S (i0 + q)) with (i0 + S q)%nat by lia.
  rewrite !ip_frac_div by (apply ip_den_ne0; lia). ring.
Qed.

(** T k i = t_{i+1} + ... + t_{i+k} *)
Definition ip_T (k i : nat) : F := sumn k (fun r => t (i + 1 + r)%nat).

Lemma ip_sum_one k : (k <= s)%nat -> sumn (S k) (fun q => Nk k (s - k + q)%nat) = 1.
Proof.
  intros Hk. transitivity (sumf (map (fun q => Nk k (s - k + q)%nat) (seq 0 (S k)))); [|apply (ip_A22_delta_sum_one F K HK); assumption].
  rewrite (ip_sumF_sumn F K HK). rewrite map_length, seq_length. apply (ip_sumn_ext F K). intros q Hq.
  rewrite (ip_nth_map_seq (fun q => Nk k (s - k + q)%nat)) by exact Hq. reflexivity.
Qed.

(** Greville: sum_i (t_{i+1} + ... + t_{i+k}) N_{i,k}(x) = k x  on the span, for every x *)
Theorem ip_greville_T : forall k, (k <= s)%nat ->
  sumn (S k) (fun q => ip_T k (s - k + q) * Nk k (s - k + q)%nat) = ofn k * x.
Proof.
  induction k as [|k IH]; intros Hk.
  - cbn [Sums.sumn]. unfold ip_T. cbn [Sums.sumn]. unfold sp_ofnat. cbn. ring.
  - set (i0 := (s - S k)%nat).
    rewrite (ip_deboor_step (ip_T (S k)) k i0) by (unfold i0; lia).
    rewrite (ip_sumn_ext F K (S k) _ (fun q => ip_T k (s - k + q) * Nk k (s - k + q)%nat + x * Nk k (s - k + q)%nat)).
    + rewrite (ip_sumn_add F K HK), (IH ltac:(lia)), (ip_sumn_scale F K HK), (ip_sum_one k ltac:(lia)).
      rewrite (sp_ofnat_S F K). ring.
    + intros q Hq. replace (s - k + q)%nat with (i0 + S q)%nat by (unfold i0; lia).
      set (i := (i0 + S q)%nat).
      assert (E1 : ip_T (S k) i = ip_T k i + t (i + k + 1)%nat).
      { unfold ip_T. cbn [Sums.sumn]. f_equal. f_equal. lia. }
      assert (E2 : ip_T (S k) (i0 + q) = t i + ip_T k i).
      { unfold ip_T. rewrite ip_sumn_head. f_equal; [f_equal; unfold i; lia|].
        apply (ip_sumn_ext F K). intros r _. f_equal. unfold i. lia. }
      rewrite E1, E2. field. apply ip_den_ne0; unfold i, i0; lia.
Qed.

End Span.

(** the Greville abscissa xi_j = (t_{j+1} + ... + t_{j+p})/p *)
Definition ip_greville (knots : list F) (p j : nat) : F := ip_T knots p j / ofn p.

Lemma ip_greville_local knots p x s alpha beta : sp_sorted F K knots -> sp_span_ok F K knots s -> (1 <= p)%nat -> (p <= s)%nat ->
  sumn (S p) (fun j => (alpha + beta * ip_greville knots p (s - p + j)) * nth j (sp_A22 F K knots p x s) 0) = alpha + beta * x.
Proof.
  intros Hs Hsp Hp1 Hps.
  assert (Hne : ofn p <> 0) by (destruct p; [lia|apply (ip_ofnat_S_ne0 F K HK)]).
  rewrite (ip_A22_delta F K HK knots p x s Hs Hsp Hps).
  rewrite (ip_sumn_ext F K (S p) _ (fun j => alpha * Nd knots x s p (s - p + j)%nat
                                         + (beta / ofn p) * (ip_T knots p (s - p + j) * Nd knots x s p (s - p + j)%nat))).
  2:{ intros j Hj. rewrite (ip_nth_map_seq (fun q => Nd knots x s p (s - p + q)%nat)) by exact Hj. unfold ip_greville. cbn [Nat.add].
      field. exact Hne. }
  rewrite (ip_sumn_add F K HK), !(ip_sumn_scale F K HK).
  rewrite (ip_sum_one knots x s Hs Hsp p Hps), (ip_greville_T knots x s Hs Hsp p Hps). field. exact Hne.
Qed.

(** a spline whose coefficients are alpha + beta * xi_j is the linear function alpha + beta x on the whole closed domain *)
Theorem ip_linear_spline knots p c alpha beta x :
  sp_sorted F K knots -> (2 * p + 1 < length knots)%nat -> (1 <= p)%nat ->
  kn knots p < kn knots (S p) ->
  kn knots (length knots - p - 2) < kn knots (length knots - 1 - p) ->
  kn knots p <= x -> x <= kn knots (length knots - 1 - p) ->
  length c = (length knots - p - 1)%nat ->
  (forall j, (j < length c)%nat -> nth j c 0 = alpha + beta * ip_greville knots p j) ->
  sp_nu_eval_1d_scalar F K x knots p c 0 = SpOk (alpha + beta * x).
Proof.
  intros Hs Hlen Hp1 Hfirst Hlast Hlo Hhi Hc Hcoef.
  destruct (sp_nu_eval_1d_domain F K HK knots p c x 0 Hs Hlen Hfirst Hlast Hlo Hhi Hc ltac:(lia) ltac:(lia))
    as [s [_ [Hr [Hspan [_ [_ E]]]]]].
  rewrite E. f_equal. cbn [sp_basis_of]. rewrite (ip_sumr_sumn F K HK).
  rewrite <- (ip_greville_local knots p x s alpha beta Hs Hspan Hp1 ltac:(lia)).
  apply (ip_sumn_ext F K). intros j Hj. rewrite Hcoef by lia. reflexivity.
Qed.

(** polynomials of degree <= 1 are reproduced: on a clamped general space, the interpolant of the data alpha + beta x_i at
    ANY interpolation points of the domain (collocation matrix with a checked inverse) is alpha + beta x everywhere *)
Theorem ip_interp1d_reproduces_linear knots p xs A Ainv u c alpha beta :
  let nb := ip_nbasis F K knots p false false in
  sp_sorted F K knots -> (2 * p + 1 < length knots)%nat ->
  kn knots p < kn knots (S p) ->
  kn knots (length knots - p - 2) < kn knots (length knots - 1 - p) ->
  ip_colloc F K nb knots p false false xs = SpOk A -> ip_inverse_ok F K nb A Ainv = true ->
  (forall i, (i < nb)%nat -> kn knots p <= nth i xs 0 /\ nth i xs 0 <= kn knots (length knots - 1 - p)) ->
  ip_interp1d F K knots p false false xs u = SpOk c ->
  (forall i, (i < nb)%nat -> nth i u 0 = alpha + beta * nth i xs 0) ->
  forall x, kn knots p <= x -> x <= kn knots (length knots - 1 - p) ->
  sp_nu_eval_1d_scalar F K x knots p c 0 = SpOk (alpha + beta * x).
Proof.
  cbv zeta. intros Hs Hlen Hfirst Hlast EA Hinv Hdom Hu Hlin x Hlo Hhi.
  set (nb := ip_nbasis F K knots p false false) in *.
  assert (Enb : nb = (length knots - p - 1)%nat) by (unfold nb, ip_nbasis, ip_ncells; lia).
  destruct (ip_interp1d_system F K HK _ _ _ _ _ _ _ Hu) as [A1 [E1 Su]]. fold nb in E1, Su. rewrite EA in E1. inversion E1. subst A1.
  destruct (ip_interp1d_wrap F K HK _ _ _ _ _ _ _ Hu) as [Hlc _].
  assert (Hp1 : (1 <= p)%nat).
  { unfold ip_interp1d in Hu.
    destruct (ip_interp_many F K knots p false false xs [u]) as [cs| | | |] eqn:E; cbn [sp_bind] in Hu; try discriminate.
    destruct (ip_interp_many_spec _ _ _ _ _ _ _ _ _ E) as [Hok _]. destruct (ip_space_ok_facts _ _ _ _ _ _ Hok) as [H1 _]. exact H1. }
  assert (Hlc' : length c = (length knots - p - 1)%nat) by (rewrite Hlc; unfold ip_ncoeffs, ip_ncells; lia).
  apply ip_linear_spline; try assumption.
  intros j Hj. rewrite Hlc', <- Enb in Hj.
  destruct (ip_inverse_ok_spec F K HK _ _ _ Hinv) as [HL _].
  apply (ip_unique_left F K HK nb A Ainv (fun k => nth k c 0) (fun k => alpha + beta * ip_greville knots p k) HL); [|exact Hj].
  intros i Hi. fold (ip_sum F K nb (fun k => ip_mget F K A i k * nth k c 0)). rewrite (Su i Hi), (Hlin i Hi).
  (* row i of C applied to the Greville coefficients is the linear function at x_i *)
  destruct (ip_mapM_spec _ 0 [] _ _ EA) as [HlA HA].
  assert (Hxs : length xs = nb).
  { unfold ip_interp1d in Hu.
    destruct (ip_interp_many F K knots p false false xs [u]) as [cs| | | |] eqn:E; cbn [sp_bind] in Hu; try discriminate.
    destruct (ip_interp_many_spec _ _ _ _ _ _ _ _ _ E) as [_ [H _]]. exact H. }
  specialize (HA i ltac:(lia)).
  destruct (ip_colloc_row_spec _ _ _ _ _ _ _ _ _ HA) as [s [b [Hsb [Hds [Hsn [Hnb1 Erow]]]]]].
  destruct (Hdom i Hi) as [Hxl Hxh].
  destruct (sp_nu_find_span_domain F K HK knots p (nth i xs 0) Hs Hlen Hfirst Hlast Hxl Hxh) as [s' [Efs [Hr [Hspan _]]]].
  unfold ip_span_basis in Hsb. rewrite Efs in Hsb. cbn [sp_bind] in Hsb.
  rewrite (sp_nu_basis_funs_ok F K HK knots p (nth i xs 0) s' Hs Hspan) in Hsb by lia. cbn [sp_bind] in Hsb.
  inversion Hsb. subst s b. symmetry. unfold ip_mget. rewrite Erow.
  rewrite (ip_row_dot F K HK nb p s' false _ (fun k => alpha + beta * ip_greville knots p k) Hnb1 Hds Hsn).
  rewrite <- (ip_greville_local knots p (nth i xs 0) s' alpha beta Hs Hspan Hp1 Hds).
  apply (ip_sumn_ext F K). intros q _. unfold ip_col. ring.
Qed.

End Greville.
