(** C06: slices of the finite order-independence sweep of Routes.v, so that the extracted code can run the
    5-layout sweep (1024 graphs x 120 name orders x 120 iteration orders) on several cores.
    [order_independent_slice n k m] checks the graphs whose index is congruent to k modulo m. *)
From Coq Require Import List Arith Lia Bool PeanoNat.
Import ListNotations.
From PGV Require Import Routes.

Definition graph_ok (n : nat) (edges : list (nat * nat)) : bool :=
  forallb (fun names =>
    let ref := route_table n (conn_of edges) (rank_of names) (seq 0 n) in
    forallb (fun ord =>
      if list_eq_dec (list_eq_dec (list_eq_dec Nat.eq_dec)) (route_table n (conn_of edges) (rank_of names) ord) ref
      then true else false) (perms (seq 0 n) n))
    (perms (seq 0 n) n).

Fixpoint every_mth {A} (l : list A) (k m i : nat) : list A :=
  match l with
  | [] => []
  | x :: r => (if (i mod m =? k) then [x] else []) ++ every_mth r k m (S i)
  end.

Definition order_independent_slice (n k m : nat) : bool :=
  forallb (graph_ok n) (every_mth (subsets (pairs n)) k m 0).

Lemma order_independent_upto_is_all n : order_independent_upto n = forallb (graph_ok n) (subsets (pairs n)).
Proof. reflexivity. Qed.

(** all slices together are the whole sweep *)
Lemma every_mth_in {A} (l : list A) m : 0 < m -> forall i x, In x l -> exists k, k < m /\ In x (every_mth l k m i).
Proof.
  intros Hm. induction l as [|y l IH]; intros i x Hx; [destruct Hx|].
  destruct Hx as [->|Hx].
  - exists (i mod m). split; [apply Nat.mod_upper_bound; lia|]. cbn [every_mth]. rewrite Nat.eqb_refl. left. reflexivity.
  - destruct (IH (S i) x Hx) as [k [Hk Hin]]. exists k. split; [exact Hk|]. cbn [every_mth]. apply in_or_app. right. exact Hin.
Qed.

Theorem slices_cover n m : 0 < m -> (forall k, k < m -> order_independent_slice n k m = true) -> order_independent_upto n = true.
Proof.
  intros Hm H. rewrite order_independent_upto_is_all. apply forallb_forall. intros g Hg.
  destruct (every_mth_in (subsets (pairs n)) m Hm 0 g Hg) as [k [Hk Hin]].
  specialize (H k Hk). unfold order_independent_slice in H. rewrite forallb_forall in H. apply H, Hin.
Qed.
