(** C09: all quadrature weights of a uniform periodic space are equal to dx.
    The collocation matrix of a uniform periodic space is circulant: every row carries the same basis values, shifted by
    one column (mod nbasis); its columns therefore sum to the sum of the basis values, i.e. to one, and w = dx * 1 solves
    C^T w = dx * 1; uniqueness comes from the checked inverse ([ip_weights_equal_cert]). *)
From Coq Require Import List Arith Lia ZArith Bool Field Ring Setoid.
Import ListNotations.
From PGV Require Import BasisCoxDeBoor CoxDeBoorGen FindSpan CubicUniform CollocRow Sums SplineModel SplineTheory InterpModel InterpTheory.

Lemma ip_shift_hit n c k : (1 <= n)%nat -> (k < n)%nat ->
  exists i0, (i0 < n)%nat /\ forall i, (i < n)%nat -> ((i + c) mod n =? k)%nat = (i0 =? i)%nat.
Proof.
  intros Hn Hk. set (rc := (c mod n)%nat). assert (Hrc : (rc < n)%nat) by (apply Nat.mod_upper_bound; lia).
  exists (if (rc <=? k)%nat then (k - rc)%nat else (k + n - rc)%nat). split.
  - destruct (Nat.leb_spec rc k); lia.
  - intros i Hi.
    assert (E : ((i + c) mod n = if (i + rc <? n)%nat then i + rc else i + rc - n)%nat).
    { rewrite <- Nat.add_mod_idemp_r by lia. fold rc. destruct (Nat.ltb_spec (i + rc) n) as [H|H].
      - apply Nat.mod_small, H.
      - replace (i + rc)%nat with ((i + rc - n) + 1 * n)%nat at 1 by lia. rewrite Nat.mod_add by lia. apply Nat.mod_small. lia. }
    rewrite E. destruct (Nat.ltb_spec (i + rc) n) as [H1|H1]; destruct (Nat.leb_spec rc k) as [H2|H2].
    + destruct (Nat.eqb_spec (i + rc) k), (Nat.eqb_spec (k - rc) i); try reflexivity; lia.
    + destruct (Nat.eqb_spec (i + rc) k), (Nat.eqb_spec (k + n - rc) i); try reflexivity; lia.
    + destruct (Nat.eqb_spec (i + rc - n) k), (Nat.eqb_spec (k - rc) i); try reflexivity; lia.
    + destruct (Nat.eqb_spec (i + rc - n) k), (Nat.eqb_spec (k + n - rc) i); try reflexivity; lia.
Qed.

Lemma ip_nth_repeat_lt {A : Type} (a d : A) : forall m j, (j < m)%nat -> nth j (repeat a m) d = a.
Proof. induction m as [|m IH]; intros j Hj; [lia|]. destruct j; cbn [repeat nth]; [reflexivity|apply IH; lia]. Qed.

Section Circulant.
Variable F : Type.
Variable K : sp_ops F.
Hypothesis HK : sp_laws K.
Add Field IPFC : (spl_field K HK).
Notation "x + y" := (spadd K x y). Notation "x * y" := (spmul K x y).
Notation "x - y" := (spsub K x y). Notation "x / y" := (spdiv K x y).
Notation "0" := (sp0 K). Notation "1" := (sp1 K).
Notation "x <= y" := (sp_le K x y). Notation "x < y" := (sp_lt K x y).
Notation sumn := (Sums.sumn F 0 (spadd K)).
Notation isum := (ip_sum F K).
Notation mget := (ip_mget F K).
Notation ofn := (sp_ofnat F K).

Lemma ip_sum_indicator n c k : (1 <= n)%nat -> (k < n)%nat ->
  sumn n (fun i => if ((i + c) mod n =? k)%nat then 1 else 0) = 1.
Proof.
  intros Hn Hk. destruct (ip_shift_hit n c k Hn Hk) as [i0 [Hi0 H]].
  rewrite (ip_sumn_ext F K n _ (fun i => ip_delta F K i0 i * 1)).
  - apply (ip_sumn_delta F K HK n i0 (fun _ => 1) Hi0).
  - intros i Hi. rewrite (H i Hi). unfold ip_delta. destruct (i0 =? i)%nat; ring.
Qed.

(** a matrix whose row i is the SAME basis vector b written (accumulated) at the columns (i + sigma - d + j) mod n has
    columns that sum to the sum of b *)
Theorem ip_cols_sum_circulant n d sigma (b : list F) A : (1 <= n)%nat -> (d <= sigma)%nat ->
  (forall i, (i < n)%nat -> nth i A [] = ip_row_of F K n d (i + sigma) true b) ->
  forall k, (k < n)%nat -> isum n (fun i => mget A i k) = sumn (S d) (fun j => nth j b 0).
Proof.
  intros Hn Hd HA k Hk. unfold ip_sum.
  rewrite (ip_sumn_ext F K n _ (fun i => sumn (S d) (fun j => nth j b 0 * (if ((i + (sigma - d + j)) mod n =? k)%nat then 1 else 0)))).
  2:{ intros i Hi. unfold ip_mget. rewrite (HA i Hi). unfold ip_row_of. rewrite (ip_vtab_get F K) by exact Hk.
      unfold ip_row_acc, ip_sum. apply (ip_sumn_ext F K). intros j Hj. unfold ip_col.
      replace (i + sigma - d + j)%nat with (i + (sigma - d + j))%nat by lia.
      destruct ((i + (sigma - d + j)) mod n =? k)%nat; ring. }
  rewrite (ip_sumn_swap F K HK). apply (ip_sumn_ext F K). intros j Hj.
  rewrite (ip_sumn_scale F K HK), ip_sum_indicator by assumption. ring.
Qed.


(* ---------------------------------------------------------------------------------------- *)
(** * the uniform-cubic periodic space with exactly uniform interpolation points x_i = xmin + i dx *)

Lemma ip_trunc_ofnat i : sp_trunc_ok F K -> sptrunc K (ofn i) = Z.of_nat i.
Proof.
  intros Htr. destruct (Htr (ofn i) (sp_ofnat_nonneg F K HK i)) as [Hk0 [Hk1 Hk2]].
  rewrite (sp_ofZ_ofnat F K HK _ Hk0) in Hk1, Hk2.
  assert (H1 : (Z.to_nat (sptrunc K (ofn i)) <= i)%nat) by (apply (sp_ofnat_inj_le F K HK); exact Hk1).
  assert (H2 : (i < S (Z.to_nat (sptrunc K (ofn i))))%nat).
  { destruct (Nat.lt_ge_cases i (S (Z.to_nat (sptrunc K (ofn i))))) as [H|H]; [exact H|]. exfalso.
    apply (sp_lt_irrefl_le F K HK _ _ Hk2). rewrite <- (sp_ofnat_S F K). apply (sp_ofnat_mono F K HK). exact H. }
  lia.
Qed.

Lemma ip_cu_span_uniform xmin xmax dx n i : sp_trunc_ok F K -> dx <> 0 -> (i < n)%nat ->
  sp_cu_find_span F K xmin xmax dx (xmin + ofn i * dx) (Z.of_nat n) = SpOk (Z.of_nat (i + 3), 0).
Proof.
  intros Htr Hdx Hi. unfold sp_cu_find_span. destruct (sp_eqb_spec F K HK dx 0) as [E|_]; [contradiction|]. cbv zeta.
  replace ((xmin + ofn i * dx - xmin) / dx) with (ofn i) by (field; exact Hdx).
  rewrite (ip_trunc_ofnat i Htr). destruct (Z.eqb_spec (Z.of_nat i) (Z.of_nat n)); [lia|].
  f_equal. f_equal; [lia|]. rewrite (sp_ofZ_ofnat F K HK) by lia. rewrite Nat2Z.id. ring.
Qed.

(** all quadrature weights of a uniform-cubic periodic space are dx - the only per-instance hypothesis left is the
    checked inverse of the collocation matrix (non-singularity) *)
Theorem ip_weights_equal_cubic xmin xmax dx fn n xs w A Ainv :
  let knots := [xmin; xmax; dx; fn] in
  sp_trunc_ok F K -> dx <> 0 -> sptrunc K fn = Z.of_nat n ->
  xs = map (fun i => xmin + ofn i * dx) (seq 0 n) ->
  ip_quadrature F K knots 3 true true xs = SpOk w ->
  ip_colloc F K n knots 3 true true xs = SpOk A -> ip_inverse_ok F K n A Ainv = true ->
  forall i, (i < n)%nat -> nth i w 0 = dx.
Proof.
  cbv zeta. intros Htr Hdx Hfn Hxs Hq EA Hinv.
  assert (Enc : ip_ncells F K [xmin; xmax; dx; fn] 3 true = n) by (unfold ip_ncells; cbn [nth]; rewrite Hfn; apply Nat2Z.id).
  assert (Enb : ip_nbasis F K [xmin; xmax; dx; fn] 3 true true = n) by (unfold ip_nbasis; exact Enc).
  unfold ip_quadrature in Hq.
  destruct (ip_integrals F K [xmin; xmax; dx; fn] 3 true true) as [Il| | | |] eqn:EI; cbn [sp_bind] in Hq; try discriminate.
  assert (EIl : Il = repeat dx n ++ repeat 0 3).
  { unfold ip_integrals in EI. cbv zeta in EI. rewrite Enb in EI.
    destruct (ip_space_ok F K [xmin; xmax; dx; fn] 3 true true); cbn [negb] in EI; [|discriminate].
    cbn [sp_cu_unpack sp_bind] in EI. injection EI as EI. symmetry. exact EI. }
  assert (Hn1 : (1 <= n)%nat).
  { unfold ip_quad_from in Hq. cbv zeta in Hq. destruct (ip_space_ok F K [xmin; xmax; dx; fn] 3 true true) eqn:Eok; [|discriminate].
    destruct (ip_space_ok_facts F K _ _ _ _ Eok) as [_ [H _]]. rewrite Enc in H. exact H. }
  pose proof (ip_weights_equal_cert F K HK [xmin; xmax; dx; fn] 3 true true xs Il w A Ainv dx) as W. cbv zeta in W.
  rewrite Enb in W. apply W; try assumption.
  - (* columns sum to one: circulant *)
    intros k Hk.
    rewrite (ip_cols_sum_circulant n 3 3 (sp_cu_basis_funs F K 0) A Hn1 (le_n 3)); [|  |exact Hk].
    + rewrite <- (sp_cu_basis_sum_one F K HK 0). unfold sp_cu_basis_funs, cu_basis. cbn [Sums.sumn nth sumF]. ring.
    + intros i Hi. destruct (ip_mapM_spec _ 0 [] _ _ EA) as [HlA HA].
      assert (Hlx : length xs = n) by (rewrite Hxs, map_length, seq_length; reflexivity).
      specialize (HA i ltac:(lia)).
      destruct (ip_colloc_row_spec _ _ _ _ _ _ _ _ _ HA) as [s [b [Hsb [_ [_ [_ Erow]]]]]].
      rewrite Erow. unfold ip_span_basis in Hsb. cbn [sp_cu_unpack sp_bind] in Hsb. rewrite Hfn in Hsb.
      rewrite Hxs in Hsb. rewrite (ip_nth_map_seq (fun i => xmin + ofn i * dx)) in Hsb by exact Hi. cbn [Nat.add] in Hsb.
      rewrite (ip_cu_span_uniform xmin xmax dx n i Htr Hdx Hi) in Hsb. cbn [sp_bind fst snd] in Hsb.
      unfold sp_span_nat in Hsb. destruct (Z.leb_spec 3 (Z.of_nat (i + 3))); [|lia]. cbn [sp_bind] in Hsb.
      inversion Hsb. rewrite Nat2Z.id. reflexivity.
  - (* the folded integrals are all dx *)
    intros j Hj. unfold ip_quad_rhs. rewrite (ip_vtab_get F K) by exact Hj. rewrite EIl.
    assert (E1 : nth j (repeat dx n ++ repeat 0 3) 0 = dx).
    { rewrite app_nth1 by (rewrite repeat_length; exact Hj). apply ip_nth_repeat_lt, Hj. }
    assert (E2 : nth (n + j) (repeat dx n ++ repeat 0 3) 0 = 0).
    { rewrite app_nth2 by (rewrite repeat_length; lia). rewrite repeat_length. apply nth_repeat. }
    rewrite E1, E2. destruct (j <? 3)%nat; ring.
Qed.

End Circulant.
