(** The interpolation / quadrature model executed on canonical rationals (stdlib [Qc]): the instance
    that is extracted (coq/extract/parts/c08.txt) and run by harness/props/c08.py and c09.py. *)
From Coq Require Import List Arith Lia ZArith QArith Qcanon Bool.
Import ListNotations.
From PGV Require Import CollocRow SplineModel SplineTheory SplineQc InterpModel.

Definition ipq_colloc := ip_colloc Qc spq_ops.
Definition ipq_nbasis := ip_nbasis Qc spq_ops.
Definition ipq_ncoeffs := ip_ncoeffs Qc spq_ops.
Definition ipq_lin_solve := ip_lin_solve Qc spq_ops.
Definition ipq_inverse := ip_inverse Qc spq_ops.
Definition ipq_inverse_ok := ip_inverse_ok Qc spq_ops.
Definition ipq_interp1d := ip_interp1d Qc spq_ops.
Definition ipq_interp_many := ip_interp_many Qc spq_ops.
Definition ipq_interp2d := ip_interp2d Qc spq_ops.
Definition ipq_eval1d := ip_eval1d Qc spq_ops.
Definition ipq_eval2d := ip_eval2d Qc spq_ops.
Definition ipq_integrals := ip_integrals Qc spq_ops.
Definition ipq_quad_from := ip_quad_from Qc spq_ops.
Definition ipq_quadrature := ip_quadrature Qc spq_ops.

(* ---------------------------------------------------------------------------------------- *)
(** * witnesses computed on Qc (the same inputs are run on the real code by harness/props/c08.py, c09.py) *)
Definition ipq_z (l : list Z) : list Qc := map (fun z => spq_of z 1) l.
Definition ipq_q (l : list (Z * Z)) : list Qc := map (fun p => spq_of (fst p) (Z.to_pos (snd p))) l.
Definition ipq_total (l : list Qc) : Qc := ip_sum Qc spq_ops (length l) (fun i => nth i l (Q2Qc 0)).

(** periodic space with ncells = degree (accepted by make_knots: len(breaks) > degree).  Degree 2 on the
    breakpoints 0, 1, 2: knots -2..4, Greville points 1/2, 3/2, data (1, 0).  The columns (span-2+s) mod 2,
    s = 0,1,2, repeat; with np.add.at (repair 6a5dc09) the two basis values that share a column add up, the row
    is (1/4, 3/4) and the interpolant takes its data.  Degree 1 on ONE cell (breakpoints 0, 1): row (1), c = u. *)
Definition ipq_w10_knots := ipq_z [-2; -1; 0; 1; 2; 3; 4]%Z.
Definition ipq_w10_xs := ipq_q [(1, 2); (3, 2)]%Z.
Definition ipq_w10_u := ipq_z [1; 0]%Z.
Theorem ipq_interp_periodic_small_ok :
  ip_space_ok Qc spq_ops ipq_w10_knots 2 true false = true /\
  ip_nbasis Qc spq_ops ipq_w10_knots 2 true false = 2%nat /\
  match ip_colloc Qc spq_ops 2 ipq_w10_knots 2 true false ipq_w10_xs with
  | SpOk A => map (map spq_show) A = [[(1%Z, 4%positive); (3%Z, 4%positive)]; [(3%Z, 4%positive); (1%Z, 4%positive)]]
  | _ => False
  end /\
  match ip_interp1d Qc spq_ops ipq_w10_knots 2 true false ipq_w10_xs ipq_w10_u with
  | SpOk c => map (fun x => spq_show_res (ip_eval1d Qc spq_ops ipq_w10_knots 2 false c x)) ipq_w10_xs
              = map (fun v => SpOk (spq_show v)) ipq_w10_u
  | _ => False
  end /\
  match ip_interp1d Qc spq_ops (ipq_z [-1; 0; 1; 2]%Z) 1 true false (ipq_z [0]%Z) (ipq_z [7]%Z) with
  | SpOk c => map spq_show c = [(7%Z, 1%positive); (7%Z, 1%positive)]
  | _ => False
  end.
Proof. vm_compute. repeat split. Qed.

(** documentation of the PINNED tree (before 6a5dc09): there the row was written by the assignment
    mat[i, js(span)] = basis, where numpy keeps the LAST value written to a repeated column ([CollocRow.row]).
    On the same input the first row is (1/8, 3/4) - it does not sum to one, and it differs from the accumulated
    row (1/4, 3/4) of the model: the interpolant of (1, 0) then took the value 34/35 at x_0 (defect 10 of
    DESIGN section 9).  [CollocRow.row_dot_is_eval] therefore needs distinct columns; [ip_row_acc_dot] does not. *)
Example ipq_lww_row :
  match spq_nu_basis_funs ipq_w10_knots 2 (spq_of 1 2) 2 with
  | SpOk b =>
    map (fun k => spq_show (CollocRow.row Qc (Q2Qc 0) (ip_col 2 2 2 true) (fun j => nth j b (Q2Qc 0)) 2 k)) [0; 1]%nat
      = [(1%Z, 8%positive); (3%Z, 4%positive)] /\
    map spq_show (ip_row_of Qc spq_ops 2 2 2 true b) = [(1%Z, 4%positive); (3%Z, 4%positive)]
  | _ => False
  end.
Proof. vm_compute. repeat split. Qed.

(** periodic NON-UNIFORM space.  Degree 1 on the breakpoints 0, 1, 3 (period 3): knots -2, 0, 1, 3, 4, Greville
    points 0, 1.  With repair 38b0bf4 every unwrapped piece is computed by the same degree-raised formula: the
    wrapped copy of the first hat function covers the LAST cell and integrates to 1 (the pinned tree mirrored
    integrals[2] = integrals[0] = 1/2, the weights (1, 3/2) summed to 5/2): integrals (1/2, 3/2, 1), weights
    (3/2, 3/2), which sum to the period 3. *)
Definition ipq_w6_knots := ipq_z [-2; 0; 1; 3; 4]%Z.
Definition ipq_w6_xs := ipq_z [0; 1]%Z.
Theorem ipq_quadrature_periodic_nonuniform_ok :
  ip_space_ok Qc spq_ops ipq_w6_knots 1 true false = true /\
  match ip_quadrature Qc spq_ops ipq_w6_knots 1 true false ipq_w6_xs with
  | SpOk w => map spq_show w = [(3%Z, 2%positive); (3%Z, 2%positive)] /\ spq_show (ipq_total w) = (3%Z, 1%positive)
  | _ => False
  end /\
  (* domain length b - a = knots[len-1-p] - knots[p] *)
  spq_show (Qcminus (nth 3 ipq_w6_knots (Q2Qc 0)) (nth 1 ipq_w6_knots (Q2Qc 0))) = (3%Z, 1%positive) /\
  match ip_integrals Qc spq_ops ipq_w6_knots 1 true false with
  | SpOk ints => map spq_show ints = [(1%Z, 2%positive); (3%Z, 2%positive); (1%Z, 1%positive)]
  | _ => False
  end.
Proof. vm_compute. repeat split. Qed.

(** uniform-cubic CLAMPED space with 1 or 2 cells (defect 9.7 of the pinned tree, repaired by 974ae9f: the part of each
    spline outside the domain is SUBTRACTED at each end, so that a spline cut by both boundaries loses both parts).
    One cell on [0,1]: integrals 1/24, 11/24, 11/24, 1/24 (sum 1); two cells on [0,2]: 1/24, 1/2, 11/12, 1/2, 1/24 (sum 2);
    three cells: 1/24, 1/2, 23/24, 23/24, 1/2, 1/24 (sum 3).  The general statement is
    [CubicQuadTheory.ip_integrals_cubic_clamped_sum]. *)
Theorem ipq_integrals_cubic_clamped_small_ok :
  match ip_integrals Qc spq_ops (ipq_z [0; 1; 1; 1]%Z) 3 false true with
  | SpOk ints => map spq_show ints = [(1%Z, 24%positive); (11%Z, 24%positive); (11%Z, 24%positive); (1%Z, 24%positive)]
              /\ spq_show (ipq_total ints) = (1%Z, 1%positive)
  | _ => False
  end /\
  match ip_integrals Qc spq_ops (ipq_z [0; 2; 1; 2]%Z) 3 false true with
  | SpOk ints => map spq_show ints = [(1%Z, 24%positive); (1%Z, 2%positive); (11%Z, 12%positive); (1%Z, 2%positive); (1%Z, 24%positive)]
              /\ spq_show (ipq_total ints) = (2%Z, 1%positive)
  | _ => False
  end /\
  match ip_integrals Qc spq_ops (ipq_z [0; 3; 1; 3]%Z) 3 false true with
  | SpOk ints => map spq_show ints = [(1%Z, 24%positive); (1%Z, 2%positive); (23%Z, 24%positive); (23%Z, 24%positive); (1%Z, 2%positive); (1%Z, 24%positive)]
              /\ spq_show (ipq_total ints) = (3%Z, 1%positive)
  | _ => False
  end.
Proof. vm_compute. repeat split. Qed.

(* ---------------------------------------------------------------------------------------- *)
(** * non-vacuity: a clamped non-uniform cubic space (breakpoints 0, 1, 3, 4), a periodic quadratic one
      (breakpoints 0, 1, 3, 4, period 4) and their tensor product *)
Definition ipq_ex_knots := ipq_z [0; 0; 0; 0; 1; 3; 4; 4; 4; 4]%Z.
Definition ipq_ex_xs := ipq_q [(0, 1); (1, 3); (4, 3); (8, 3); (11, 3); (4, 1)]%Z.
Definition ipq_ex_u := ipq_z [3; -1; 4; 1; -5; 9]%Z.
Definition ipq_exp_knots := ipq_z [-3; -1; 0; 1; 3; 4; 5; 7]%Z.
Definition ipq_exp_xs := ipq_q [(1, 2); (2, 1); (7, 2)]%Z.
Definition ipq_exp_u := ipq_z [2; 7; -1]%Z.

Example ipq_ex_interp1d :
  match ip_interp1d Qc spq_ops ipq_ex_knots 3 false false ipq_ex_xs ipq_ex_u with
  | SpOk c => map (fun x => spq_show_res (ip_eval1d Qc spq_ops ipq_ex_knots 3 false c x)) ipq_ex_xs
              = map (fun v => SpOk (spq_show v)) ipq_ex_u /\ length c = 6%nat
  | _ => False
  end /\
  match ip_interp1d Qc spq_ops ipq_exp_knots 2 true false ipq_exp_xs ipq_exp_u with
  | SpOk c => map (fun x => spq_show_res (ip_eval1d Qc spq_ops ipq_exp_knots 2 false c x)) ipq_exp_xs
              = map (fun v => SpOk (spq_show v)) ipq_exp_u /\ length c = 5%nat
              /\ map spq_show (skipn 3 c) = map spq_show (firstn 2 c)
  | _ => False
  end /\
  match ip_colloc Qc spq_ops 6 ipq_ex_knots 3 false false ipq_ex_xs with
  | SpOk A => match ip_inverse Qc spq_ops 6 A with SpOk Ainv => ip_inverse_ok Qc spq_ops 6 A Ainv = true | _ => False end
  | _ => False
  end.
Proof. vm_compute. repeat split. Qed.

Example ipq_ex_quadrature :
  match ip_quadrature Qc spq_ops ipq_ex_knots 3 false false ipq_ex_xs with
  | SpOk w => spq_show (ipq_total w) = (4%Z, 1%positive)
  | _ => False
  end /\
  match ip_integrals Qc spq_ops ipq_ex_knots 3 false false with
  | SpOk ints => map spq_show ints = [(1%Z, 4%positive); (3%Z, 4%positive); (1%Z, 1%positive); (1%Z, 1%positive); (3%Z, 4%positive); (1%Z, 4%positive)]
  | _ => False
  end.
Proof. vm_compute. repeat split. Qed.

Example ipq_ex_interp2d :
  let ug := map (fun i => map (fun j => spq_of (Z.of_nat (i * i + 2 * j) - 3) 1) (seq 0 3)) (seq 0 6) in
  match ip_interp2d Qc spq_ops ipq_ex_knots 3 false ipq_ex_xs ipq_exp_knots 2 true ipq_exp_xs false ug with
  | SpOk w => map (fun x => map (fun y => spq_show_res (ip_eval2d Qc spq_ops ipq_ex_knots 3 ipq_exp_knots 2 false w x y)) ipq_exp_xs) ipq_ex_xs
              = map (map (fun v => SpOk (spq_show v))) ug
              /\ length w = 6%nat /\ map (@length Qc) w = repeat 5%nat 6
  | _ => False
  end.
Proof. vm_compute. repeat split. Qed.
