(** The interpolation / quadrature model executed on canonical rationals (stdlib [Qc]): the instance
    that is extracted (coq/extract/parts/c08.txt) and run by harness/props/c08.py and c09.py. *)
From Coq Require Import List Arith Lia ZArith QArith Qcanon Bool.
Import ListNotations.
From PGV Require Import SplineModel SplineTheory SplineQc InterpModel.

Definition ipq_colloc := ip_colloc Qc spq_ops.
Definition ipq_nbasis := ip_nbasis Qc spq_ops.
Definition ipq_ncoeffs := ip_ncoeffs Qc spq_ops.
Definition ipq_lin_solve := ip_lin_solve Qc spq_ops.
Definition ipq_inverse := ip_inverse Qc spq_ops.
Definition ipq_inverse_ok := ip_inverse_ok Qc spq_ops.
Definition ipq_interp1d := ip_interp1d Qc spq_ops.
Definition ipq_interp_many := ip_interp_many Qc spq_ops.
Definition ipq_interp2d := ip_interp2d Qc spq_ops.
Definition ipq_eval1d := ip_eval1d Qc spq_ops.
Definition ipq_eval2d := ip_eval2d Qc spq_ops.
Definition ipq_integrals := ip_integrals Qc spq_ops.
Definition ipq_quad_from := ip_quad_from Qc spq_ops.
Definition ipq_quadrature := ip_quadrature Qc spq_ops.
