From Coq Require Import Arith Lia PeanoNat.

Definition bstart (n p k : nat) : nat := (n / p) * k + ((n mod p) * k) / p.
Definition blen (n p k : nat) : nat := bstart n p (S k) - bstart n p k.
Definition bmax (n p : nat) : nat := if n mod p =? 0 then n / p else S (n / p).

Lemma bstart_0 n p : bstart n p 0 = 0.
Proof. unfold bstart. rewrite !Nat.mul_0_r. destruct p; cbn; lia. Qed.

Lemma bstart_p n p : 0 < p -> bstart n p p = n.
Proof. intros Hp. unfold bstart. rewrite Nat.div_mul by lia.
  pose proof (Nat.div_mod n p ltac:(lia)). lia. Qed.

Lemma bstart_step n p k : 0 < p ->
  bstart n p k + n / p <= bstart n p (S k) /\ bstart n p (S k) <= bstart n p k + S (n / p).
Proof.
  intros Hp. unfold bstart. set (s := n / p). set (b := n mod p).
  assert (Hb : b < p) by (apply Nat.mod_upper_bound; lia).
  replace (b * S k) with (b * k + b) by lia.
  pose proof (Nat.div_mod (b * k) p ltac:(lia)) as H1.
  pose proof (Nat.mod_upper_bound (b * k) p ltac:(lia)) as H2.
  pose proof (Nat.div_mod (b * k + b) p ltac:(lia)) as H3.
  pose proof (Nat.mod_upper_bound (b * k + b) p ltac:(lia)) as H4.
  nia.
Qed.

Lemma bstart_mono_S n p k : 0 < p -> bstart n p k <= bstart n p (S k).
Proof. intros Hp. pose proof (bstart_step n p k Hp). lia. Qed.

Lemma bstart_mono n p k k' : 0 < p -> k <= k' -> bstart n p k <= bstart n p k'.
Proof. intros Hp H. induction H; [lia|]. pose proof (bstart_mono_S n p m Hp). lia. Qed.

Lemma blen_le_bmax n p k : 0 < p -> k < p -> blen n p k <= bmax n p.
Proof.
  intros Hp Hk. unfold blen, bmax. pose proof (bstart_step n p k Hp) as [H1 H2].
  destruct (Nat.eqb_spec (n mod p) 0) as [E|E]; [|lia].
  unfold bstart in *. rewrite E in *. rewrite !Nat.mul_0_l, !Nat.div_0_l in * by lia. lia.
Qed.

Lemma blen_one n k : k = 0 -> blen n 1 k = n.
Proof. intros ->. unfold blen. rewrite bstart_0. pose proof (bstart_p n 1 ltac:(lia)). lia. Qed.

Lemma bstart_blen n p k : 0 < p -> bstart n p k + blen n p k = bstart n p (S k).
Proof. intros Hp. unfold blen. pose proof (bstart_mono_S n p k Hp). lia. Qed.

(* owner of global index g : largest k < p with bstart k <= g *)
Fixpoint owner_aux (n p g k : nat) : nat :=
  match k with
  | 0 => 0
  | S k' => if bstart n p k <=? g then k else owner_aux n p g k'
  end.
Definition owner (n p g : nat) : nat := owner_aux n p g (p - 1).

Lemma owner_aux_spec n p g : 0 < p -> forall k, g < bstart n p (S k) ->
  owner_aux n p g k <= k /\ bstart n p (owner_aux n p g k) <= g < bstart n p (S (owner_aux n p g k)).
Proof.
  intros Hp. induction k as [|k IH]; intros Hg; cbn [owner_aux].
  - rewrite bstart_0. lia.
  - destruct (Nat.leb_spec (bstart n p (S k)) g) as [H|H]; [lia|].
    specialize (IH H). lia.
Qed.

Lemma owner_spec n p g : 0 < p -> g < n ->
  owner n p g < p /\ bstart n p (owner n p g) <= g < bstart n p (S (owner n p g)).
Proof.
  intros Hp Hg. unfold owner.
  assert (H : g < bstart n p (S (p - 1))) by (replace (S (p - 1)) with p by lia; rewrite bstart_p; lia).
  pose proof (owner_aux_spec n p g Hp (p - 1) H). lia.
Qed.

(** * Further facts used by C02 / C20 *)

Lemma blen_bounds n p k : 0 < p -> n / p <= blen n p k <= S (n / p).
Proof. intros Hp. unfold blen. pose proof (bstart_step n p k Hp). lia. Qed.

Lemma blen_pos n p k : 0 < p -> p <= n -> 1 <= blen n p k.
Proof.
  intros Hp Hn. pose proof (blen_bounds n p k Hp) as [H _].
  assert (1 <= n / p) by (apply Nat.div_le_lower_bound; lia). lia.
Qed.

Lemma blen_balanced n p k k' : 0 < p -> blen n p k <= S (blen n p k').
Proof. intros Hp. pose proof (blen_bounds n p k Hp). pose proof (blen_bounds n p k' Hp). lia. Qed.

Lemma bstart_lt_inj n p k k' : 0 < p -> bstart n p (S k) <= bstart n p k' \/ k' <= k.
Proof.
  intros Hp. destruct (Nat.le_gt_cases k' k) as [H|H]; [right; exact H|left].
  apply bstart_mono; lia.
Qed.

(** every global index is owned by exactly one block, blocks are in rank order *)
Theorem blocks_tile n p g : 0 < p -> g < n ->
  exists k, (k < p /\ bstart n p k <= g < bstart n p (S k)) /\
            forall k', k' < p -> bstart n p k' <= g < bstart n p (S k') -> k' = k.
Proof.
  intros Hp Hg. destruct (owner_spec n p g Hp Hg) as [Ho Hr].
  exists (owner n p g). split; [split; assumption|].
  intros k' Hk' Hr'.
  destruct (Nat.lt_trichotomy k' (owner n p g)) as [H|[H|H]]; [|exact H|].
  - pose proof (bstart_mono n p (S k') (owner n p g) Hp ltac:(lia)). lia.
  - pose proof (bstart_mono n p (S (owner n p g)) k' Hp ltac:(lia)). lia.
Qed.

Lemma bstart_le_mul n p k : 0 < p -> (forall j, j < k -> blen n p j <= n / p) -> bstart n p k <= k * (n / p).
Proof.
  intros Hp. induction k as [|k IH]; intros H.
  - rewrite bstart_0. lia.
  - pose proof (bstart_blen n p k Hp). pose proof (H k ltac:(lia)).
    specialize (IH ltac:(intros; apply H; lia)). lia.
Qed.

(** the advertised maximum block length is attained and bounds every block *)
Theorem bmax_is_max n p : 0 < p ->
  (forall k, k < p -> blen n p k <= bmax n p) /\ exists k, k < p /\ blen n p k = bmax n p.
Proof.
  intros Hp. split; [intros; apply blen_le_bmax; assumption|].
  unfold bmax. destruct (Nat.eqb_spec (n mod p) 0) as [E|E].
  - exists 0. split; [exact Hp|]. unfold blen, bstart. rewrite E.
    rewrite !Nat.mul_0_l, !Nat.div_0_l by lia. lia.
  - (* otherwise some block is long, else the blocks could not add up to n *)
    assert (H : ~ forall j, j < p -> blen n p j <= n / p).
    { intros H. pose proof (bstart_le_mul n p p Hp H) as H1. rewrite bstart_p in H1 by exact Hp.
      pose proof (Nat.div_mod n p ltac:(lia)). nia. }
    assert (Hex : forall m, (forall j, j < m -> blen n p j <= n / p) \/ exists j, j < m /\ blen n p j = S (n / p)).
    { induction m as [|m [IH|[j [Hj Hb]]]].
      - left. intros; lia.
      - pose proof (blen_bounds n p m Hp).
        destruct (Nat.eq_dec (blen n p m) (S (n / p))) as [Eq|Ne].
        + right. exists m. split; [lia|exact Eq].
        + left. intros j Hj. destruct (Nat.eq_dec j m) as [->|]; [lia|apply IH; lia].
      - right. exists j. split; [lia|exact Hb]. }
    destruct (Hex p) as [Hall|[j [Hj Hb]]]; [contradiction|].
    exists j. split; assumption.
Qed.

(** executable table of starts, as Layout.__init__ builds it: [starts[0..p]] *)
Definition starts_table (n p : nat) : list nat := List.map (bstart n p) (List.seq 0 (S p)).

(** * The block formula over Z (Python ints), for the translated source expression *)
From Coq Require Import ZArith.
Definition bstartZ (n p k : Z) : Z := ((n / p) * k + ((n mod p) * k) / p)%Z.
Definition bmaxZ (n p : Z) : Z := (if 0 <? n mod p then n / p + 1 else n / p)%Z.

Lemma bstartZ_of_nat n p k :
  Z.of_nat (bstart n p k) = bstartZ (Z.of_nat n) (Z.of_nat p) (Z.of_nat k).
Proof.
  unfold bstart, bstartZ.
  rewrite Nat2Z.inj_add, !Nat2Z.inj_mul, !Nat2Z.inj_div, Nat2Z.inj_mul, Nat2Z.inj_mod.
  reflexivity.
Qed.

Lemma bmaxZ_of_nat n p : 0 < p -> Z.of_nat (bmax n p) = bmaxZ (Z.of_nat n) (Z.of_nat p).
Proof.
  intros Hp. unfold bmax, bmaxZ.
  rewrite <- Nat2Z.inj_mod, <- Nat2Z.inj_div.
  destruct (Nat.eqb_spec (n mod p) 0) as [E|E].
  - rewrite E. cbn. reflexivity.
  - destruct (Z.ltb_spec 0 (Z.of_nat (n mod p))); [|lia]. lia.
Qed.
