(** C07, third part: the derivative routines return the formal derivative of the basis.

    General knots.  On a knot span s the basis functions that nu_basis_funs returns are, for EVERY x,
    the polynomials  x |-> sp_Nd knots s x p i  (Cox - de Boor triangle above the indicator row of s,
    CoxDeBoorGen.basis_eq_delta).  Their formal derivative [sp_DNd] (CoxDeBoorDeriv.DNg: product rule
    through the recursion) is characterised algebraically by [sp_Nd_taylor]:
        N(x+h) = N(x) + h*N'(x) + h^2*R(x,h)   with R an explicit polynomial expression,
    and nu_basis_funs_1st_der returns exactly N' ([sp_ders_eq_formal_derivative], through de Boor's
    identity).  [sp_basis_taylor] states it between the two executable routines.

    Uniform cubic.  cu_basis_funs and cu_basis_funs_1st_der are polynomials in the offset given as
    coefficient lists; the second is D (formal derivative of coefficient lists) of the first, divided
    by dx ([sp_cu_ders_eq_D]).  Non-negativity of cu_basis_funs on 0 <= offset <= 1. *)
From Coq Require Import List Arith Lia ZArith Bool Field Ring Setoid.
Import ListNotations.
From PGV Require Import BasisCoxDeBoor CoxDeBoorGen CoxDeBoorDeriv FindSpan CubicUniform Sums SplineModel SplineTheory.

Section Deriv.
Variable F : Type.
Variable K : sp_ops F.
Hypothesis HK : sp_laws K.
Add Field SPFd : (spl_field K HK).
Notation "x + y" := (spadd K x y). Notation "x * y" := (spmul K x y).
Notation "x - y" := (spsub K x y). Notation "x / y" := (spdiv K x y).
Notation "0" := (sp0 K). Notation "1" := (sp1 K).
Notation "x <= y" := (sp_le K x y). Notation "x < y" := (sp_lt K x y).
Notation Fth := (spl_field K HK).
Notation kn := (sp_kn F K).
Notation ofn := (sp_ofnat F K).

(* ---------------------------------------------------------------------------------------- *)
(** * general knots *)

(** the polynomial pieces on the span s, their formal derivative and the Taylor quotient *)
Definition sp_Nd (knots : list F) (s : nat) (x : F) (k i : nat) : F :=
  Ng F 0 (spadd K) (spmul K) (spsub K) (spdiv K) (kn knots) x (speqb K) (delta F 0 1 s) k i.
Definition sp_DNd (knots : list F) (s : nat) (x : F) (k i : nat) : F :=
  DNg F 0 1 (spadd K) (spmul K) (spsub K) (spdiv K) (kn knots) (speqb K) (delta F 0 1 s) x k i.
Definition sp_RNd (knots : list F) (s : nat) (x h : F) (k i : nat) : F :=
  RNg F 0 1 (spadd K) (spmul K) (spsub K) (spdiv K) (kn knots) (speqb K) (delta F 0 1 s) x h k i.

Theorem sp_Nd_taylor knots s x h k i :
  sp_Nd knots s (x + h) k i = sp_Nd knots s x k i + h * sp_DNd knots s x k i + h * h * sp_RNd knots s x h k i.
Proof. apply (Ng_taylor F 0 1 (spadd K) (spmul K) (spsub K) (spdiv K) (spopp K) (spinv K) Fth _ _ (sp_eqb_spec F K HK)). Qed.

(** nu_basis_funs returns these polynomials, for every x (not only x in the span) *)
Theorem sp_A22_eq_Nd knots degree x s : sp_sorted F K knots -> sp_span_ok F K knots s -> (degree <= s)%nat ->
  sp_A22 F K knots degree x s = map (fun q => sp_Nd knots s x degree (s - degree + q)) (seq 0 (S degree)).
Proof.
  intros Hs Hp Hd.
  exact (basis_eq_delta F 0 1 (spadd K) (spmul K) (spsub K) (spdiv K) (spopp K) (spinv K) (sp_le K) Fth
           (spl_le_trans K HK) (spl_le_antisym K HK) (kn knots) x (speqb K) (sp_eqb_spec F K HK) s
           (sp_kn_mono F K HK knots Hs) Hp degree Hd).
Qed.

Lemma sp_frac_ne0 num den : den <> 0 -> frac F 0 (spdiv K) (speqb K) num den = num / den.
Proof. intros H. unfold frac. destruct (sp_eqb_spec F K HK den 0); [contradiction|reflexivity]. Qed.
Lemma sp_frac_0 den : frac F 0 (spdiv K) (speqb K) 0 den = 0.
Proof. unfold frac. destruct (sp_eqb_spec F K HK den 0); [reflexivity|]. field. assumption. Qed.

(** nu_basis_funs_1st_der returns the formal derivatives, for every x *)
Theorem sp_ders_eq_formal_derivative knots degree x s j : sp_sorted F K knots -> sp_span_ok F K knots s ->
  (1 <= degree)%nat -> (degree <= s)%nat -> (j <= degree)%nat ->
  nth j (sp_ders_raw F K knots degree x s) 0 = sp_DNd knots s x degree (s - degree + j).
Proof.
  intros Hs Hp Hd1 Hd Hj. destruct degree as [|d]; [lia|].
  unfold sp_DNd.
  rewrite (deboor_identity F 0 1 (spadd K) (spmul K) (spsub K) (spdiv K) (spopp K) (spinv K) (sp_le K) Fth
             (spl_le_antisym K HK) (kn knots) (speqb K) (sp_eqb_spec F K HK) (delta F 0 1 s) (sp_kn_mono F K HK knots Hs)).
  fold (sp_Nd knots s x d (s - S d + j)). fold (sp_Nd knots s x d (S (s - S d + j))). fold (sp_ofnat F K (S d)).
  set (T := fun q => ofn (S d) * (sp_Nd knots s x d (s - d + q) / sp_der_den F K knots (S d) s q)).
  assert (Hne : forall q, (q < S d)%nat -> sp_der_den F K knots (S d) s q <> 0)
    by (intros q Hq; apply (sp_der_den_ne0 F K HK); try assumption; lia).
  (* the right-hand side *)
  assert (G1 : ofn (S d) * frac F 0 (spdiv K) (speqb K) (sp_Nd knots s x d (s - S d + j))
                              (kn knots (s - S d + j + d + 1) - kn knots (s - S d + j))
               = if (j =? 0)%nat then 0 else T (j - 1)%nat).
  { destruct (Nat.eqb_spec j 0) as [->|Hj0].
    - unfold sp_Nd. rewrite (Nd_support F 0 1 (spadd K) (spmul K) (spsub K) (spdiv K) (spopp K) (spinv K) Fth) by lia.
      rewrite sp_frac_0. ring.
    - unfold T. replace (kn knots (s - S d + j + d + 1) - kn knots (s - S d + j)) with (sp_der_den F K knots (S d) s (j - 1))
        by (unfold sp_der_den; f_equal; f_equal; lia).
      rewrite sp_frac_ne0 by (apply Hne; lia). replace (s - S d + j)%nat with (s - d + (j - 1))%nat by lia. reflexivity. }
  assert (G2 : ofn (S d) * frac F 0 (spdiv K) (speqb K) (sp_Nd knots s x d (S (s - S d + j)))
                              (kn knots (s - S d + j + d + 2) - kn knots (S (s - S d + j)))
               = if (j =? S d)%nat then 0 else T j).
  { destruct (Nat.eqb_spec j (S d)) as [->|Hjd].
    - unfold sp_Nd. rewrite (Nd_support F 0 1 (spadd K) (spmul K) (spsub K) (spdiv K) (spopp K) (spinv K) Fth) by lia.
      rewrite sp_frac_0. ring.
    - unfold T. replace (kn knots (s - S d + j + d + 2) - kn knots (S (s - S d + j))) with (sp_der_den F K knots (S d) s j)
        by (unfold sp_der_den; f_equal; f_equal; lia).
      rewrite sp_frac_ne0 by (apply Hne; lia). replace (S (s - S d + j)) with (s - d + j)%nat by lia. reflexivity. }
  match goal with |- _ = ?o * (?a - ?b) => replace (o * (a - b)) with (o * a - o * b) by ring end.
  rewrite G1, G2. clear G1 G2.
  (* the left-hand side: the saved/temp loop *)
  unfold sp_ders_raw. cbv zeta. replace (S d - 1)%nat with d by lia.
  rewrite (sp_A22_eq_Nd knots d x s) by (try assumption; lia).
  set (vals := map (fun q => sp_Nd knots s x d (s - d + q)) (seq 0 (S d))).
  assert (HT : forall q, (q < S d)%nat ->
     nth q (map (sp_der_term F K knots (S d) s vals) (seq 0 (S d))) 0 = T q).
  { intros q Hq. rewrite (sp_nth_map_seq F (sp_der_term F K knots (S d) s vals)) by exact Hq.
    unfold sp_der_term, vals, T. cbn [Nat.add].
    rewrite (sp_nth_map_seq F (fun q0 => sp_Nd knots s x d (s - d + q0))) by lia. cbn [Nat.add].
    field. apply Hne, Hq. }
  cbn [seq map sp_ders_of_terms].
  destruct j as [|j']; cbn [nth Nat.eqb].
  - rewrite <- (HT 0%nat) by lia. cbn [seq map nth]. ring.
  - rewrite (sp_ders_loop_nth F K HK) by (rewrite map_length, seq_length; lia).
    assert (E1 : (match j' with 0%nat => sp_der_term F K knots (S d) s vals 0
                  | S j'' => nth j'' (map (sp_der_term F K knots (S d) s vals) (seq 1 d)) 0 end) = T j').
    { rewrite <- (HT j') by lia. cbn [seq map]. destruct j'; reflexivity. }
    rewrite E1. replace (S j' - 1)%nat with j' by lia. f_equal.
    destruct (Nat.eqb_spec j' d) as [->|Hne'].
    + apply nth_overflow. rewrite map_length, seq_length. lia.
    + rewrite <- (HT (S j')) by lia. cbn [seq map nth]. reflexivity.
Qed.

(** the statement between the two executable routines: on every span, for every x and increment h,
      nu_basis_funs(x+h)[j] = nu_basis_funs(x)[j] + h * nu_basis_funs_1st_der(x)[j] + h^2 * R
    with R = sp_RNd ... an expression that is polynomial in h (no division by h) *)
Theorem sp_basis_taylor knots degree x h s j : sp_sorted F K knots -> sp_span_ok F K knots s ->
  (1 <= degree)%nat -> (degree <= s)%nat -> (j <= degree)%nat ->
  nth j (sp_A22 F K knots degree (x + h) s) 0
  = nth j (sp_A22 F K knots degree x s) 0 + h * nth j (sp_ders_raw F K knots degree x s) 0
    + h * h * sp_RNd knots s x h degree (s - degree + j).
Proof.
  intros Hs Hp Hd1 Hd Hj.
  rewrite !(sp_A22_eq_Nd knots degree _ s) by assumption.
  rewrite !(sp_nth_map_seq F (fun q => sp_Nd knots s _ degree (s - degree + q))) by lia. cbn [Nat.add].
  rewrite sp_ders_eq_formal_derivative by assumption. apply sp_Nd_taylor.
Qed.

(** the same for the spline itself: as long as x and x+h are in the same span, the der = 1 entry point is
    the derivative of the der = 0 entry point:
       S(x+h) = S(x) + h*S'(x) + h^2 * sum_j c_j R_j(x,h) *)
Notation sumr := (Sums.sumr F 0 (spadd K)).
Lemma sp_sumr_lin3 (c A B R : nat -> F) h : forall n a,
  sumr a n (fun j => c j * (A j + h * B j + h * h * R j))
  = sumr a n (fun j => c j * A j) + h * sumr a n (fun j => c j * B j) + h * h * sumr a n (fun j => c j * R j).
Proof. induction n as [|n IH]; intros a; cbn [Sums.sumr]; [ring|]. rewrite IH. ring. Qed.

Theorem sp_eval_taylor knots degree coeffs x h s : sp_sorted F K knots -> sp_span_ok F K knots s ->
  sp_nu_find_span F K knots degree x = SpOk s -> sp_nu_find_span F K knots degree (x + h) = SpOk s ->
  (1 <= degree)%nat -> (degree <= s)%nat -> (s + degree < length knots)%nat -> (s < length coeffs)%nat ->
  exists v0 v1 d,
    sp_nu_eval_1d_scalar F K x knots degree coeffs 0 = SpOk v0 /\
    sp_nu_eval_1d_scalar F K (x + h) knots degree coeffs 0 = SpOk v1 /\
    sp_nu_eval_1d_scalar F K x knots degree coeffs 1 = SpOk d /\
    v1 = v0 + h * d + h * h * sumr 0 (S degree) (fun j => nth (s - degree + j) coeffs 0
                                                   * sp_RNd knots s x h degree (s - degree + j)).
Proof.
  intros Hs Hp E0 E1 Hd1 Hd Hl Hc.
  rewrite (sp_nu_eval_1d_scalar_spec F K HK knots degree coeffs x 0 s) by (try assumption; lia).
  rewrite (sp_nu_eval_1d_scalar_spec F K HK knots degree coeffs (x + h) 0 s) by (try assumption; lia).
  rewrite (sp_nu_eval_1d_scalar_spec F K HK knots degree coeffs x 1 s) by (try assumption; lia).
  do 3 eexists. split; [reflexivity|]. split; [reflexivity|]. split; [reflexivity|].
  cbn [sp_basis_of].
  rewrite <- (sp_sumr_lin3 (fun j => nth (s - degree + j) coeffs 0)).
  apply Sums.sumr_ext. intros j Hj. f_equal. apply sp_basis_taylor; try assumption; lia.
Qed.

(* ---------------------------------------------------------------------------------------- *)
(** * uniform cubic: polynomials in the offset as coefficient lists *)

(** a_0 + a_1 X + a_2 X^2 + ... *)
Fixpoint sp_peval (p : list F) (x : F) : F :=
  match p with [] => 0 | a :: q => a + x * sp_peval q x end.
(** formal derivative of a coefficient list: a_1 + 2 a_2 X + 3 a_3 X^2 + ... *)
Fixpoint sp_pD_from (n : nat) (p : list F) : list F :=
  match p with [] => [] | a :: q => ofn n * a :: sp_pD_from (S n) q end.
Definition sp_pD (p : list F) : list F := match p with [] => [] | _ :: q => sp_pD_from 1 q end.

Notation two := (1 + 1). Notation three := (1 + 1 + 1). Notation six := ((1 + 1 + 1) * (1 + 1)).
(** the four cubic pieces of cu_basis_funs as polynomials in the offset:
    (1-o)^3/6,  2/3 - o^2 + o^3/2,  1/6 + o/2 + o^2/2 - o^3/2,  o^3/6 *)
Definition sp_cu_polys : list (list F) :=
  [ [1 / six; 0 - 1 / two; 1 / two; 0 - 1 / six];
    [two / three; 0; 0 - 1; 1 / two];
    [1 / six; 1 / two; 1 / two; 0 - 1 / two];
    [0; 0; 0; 1 / six] ].

Lemma sp_nz2 : two <> 0. Proof. exact (sp_2_ne0 F K HK). Qed.
Lemma sp_nz3 : three <> 0. Proof. exact (sp_3_ne0 F K HK). Qed.
Ltac nz := repeat split; repeat (apply (sp_mul_ne0 F K HK));
  first [exact sp_nz2 | exact sp_nz3 | exact (sp_3_ne0' F K HK) | assumption].

Theorem sp_cu_basis_poly o : sp_cu_basis_funs F K o = map (fun p => sp_peval p o) sp_cu_polys.
Proof.
  unfold sp_cu_basis_funs, cu_basis, sp_cu_polys. cbn [map sp_peval]. unfold CubicUniform.six, CubicUniform.three, CubicUniform.two.
  f_equal; [field; nz|]. f_equal; [field; nz|]. f_equal; [field; nz|]. f_equal. field; nz.
Qed.

(** cu_basis_funs_1st_der = D(cu_basis_funs)/dx, D the formal derivative of the coefficient lists
    (x = xmin + (cell + offset)*dx, so d/dx = (1/dx) d/d offset) *)
Theorem sp_cu_ders_eq_D o dx : dx <> 0 ->
  sp_cu_basis_funs_1st_der F K o dx = map (fun p => sp_peval (sp_pD p) o / dx) sp_cu_polys.
Proof.
  intros Hdx. unfold sp_cu_basis_funs_1st_der, sp_cu_polys. cbv zeta.
  cbn [map sp_pD sp_pD_from sp_peval]. unfold sp_ofnat, sp_half, sp_three, sp_two. cbn [ofnat].
  f_equal; [field; nz|]. f_equal; [field; nz|]. f_equal; [field; nz|]. f_equal. field; nz.
Qed.

(** D is the derivative of coefficient-list polynomials: p(x+h) = p(x) + h*(D p)(x) + h^2*(...) *)
Fixpoint sp_pR (p : list F) (x h : F) : F :=   (* quotient of the second-order remainder *)
  match p with
  | [] => 0
  | _ :: q => sp_peval (sp_pD q) x + (x + h) * sp_pR q x h
  end.
Lemma sp_pD_from_S n p x : sp_peval (sp_pD_from (S n) p) x = sp_peval (sp_pD_from n p) x + sp_peval p x.
Proof.
  revert n. induction p as [|a q IH]; intros n; cbn [sp_pD_from sp_peval]; [ring|].
  rewrite IH. unfold sp_ofnat. cbn [ofnat]. ring.
Qed.
Lemma sp_pD_cons a q x : sp_peval (sp_pD (a :: q)) x = sp_peval q x + x * sp_peval (sp_pD q) x.
Proof.
  cbn [sp_pD]. destruct q as [|b r]; cbn [sp_pD_from sp_peval sp_pD]; [ring|].
  rewrite sp_pD_from_S. unfold sp_ofnat. cbn [ofnat]. ring.
Qed.
Theorem sp_peval_taylor p x h :
  sp_peval p (x + h) = sp_peval p x + h * sp_peval (sp_pD p) x + h * h * sp_pR p x h.
Proof.
  induction p as [|a q IH]; [cbn; ring|].
  rewrite sp_pD_cons. cbn [sp_peval sp_pR]. rewrite IH. ring.
Qed.

(** non-negativity of cu_basis_funs on 0 <= offset <= 1 *)
Theorem sp_cu_basis_nonneg o : 0 <= o -> o <= 1 -> sp_all_nonneg F K (sp_cu_basis_funs F K o).
Proof.
  intros Ho0 Ho1. assert (Hb : 0 <= 1 - o) by (apply (sp_sub_nonneg F K HK), Ho1).
  pose proof (sp_two_pos F K HK) as H2. pose proof (sp_three_pos F K HK) as H3.
  assert (H6 : 0 < CubicUniform.six F 1 (spadd K) (spmul K)).
  { unfold CubicUniform.six. split.
    - apply (spl_mul_nonneg K HK); [exact (proj1 H3)|exact (proj1 H2)].
    - intros E. symmetry in E. revert E. apply (sp_mul_ne0 F K HK); [exact (sp_three_ne0 F K HK)|exact (sp_two_ne0 F K HK)]. }
  assert (Hsixth : 0 <= 1 / CubicUniform.six F 1 (spadd K) (spmul K)) by (apply (sp_inv_nonneg F K HK), H6).
  assert (Htmp : 0 <= 1 / CubicUniform.two F 1 (spadd K) * (1 + (1 - o) * o)).
  { apply (spl_mul_nonneg K HK); [apply (sp_inv_nonneg F K HK), H2|].
    apply (sp_add_nonneg F K HK); [exact (sp_0_le_1 F K HK)|apply (spl_mul_nonneg K HK); assumption]. }
  unfold sp_cu_basis_funs, cu_basis. cbv zeta. repeat constructor.
  - apply (sp_div_nonneg F K HK); [|exact H6]. repeat apply (spl_mul_nonneg K HK); assumption.
  - apply (sp_add_nonneg F K HK); [exact Hsixth|]. apply (spl_mul_nonneg K HK); assumption.
  - apply (sp_add_nonneg F K HK); [exact Hsixth|]. apply (spl_mul_nonneg K HK); assumption.
  - apply (sp_div_nonneg F K HK); [|exact H6]. repeat apply (spl_mul_nonneg K HK); assumption.
Qed.

End Deriv.
