From Coq Require Import List Arith Lia PeanoNat Bool.
Import ListNotations.
From PGV Require Import NdIndex Blocks.

(* LayoutSwapper gather step: the source layout is distributed along one communicator X more
   than the destination; Allgather of the flat block prefixes, then per-rank unpack. *)
Section Gather.
Variable V : Type.
Variable d : nat.
Variable N : nat -> nat.                  (* extent of global dimension e *)
Variables pi ipi pi' ipi' : nat -> nat.   (* dims orders of source / destination and inverses *)
Variable is_ : nat.                       (* source axis distributed along X (idx_s) *)
Variable rank : Type.
Variable setX : rank -> nat -> rank.      (* same process, other coordinate along X *)
Variable PSa : nat -> nat.                (* processes along source axis a *)
Variable PDa : nat -> nat.                (* processes along destination axis a *)
Variable coS : rank -> nat -> nat.        (* coordinate of a process along source axis a *)
Variable coD : rank -> nat -> nat.        (* coordinate along destination axis a *)

Hypothesis His : is_ < d.
Hypothesis HPS : forall a, 0 < PSa a.
Hypothesis Hpi : forall a, a < d -> pi a < d /\ ipi (pi a) = a.
Hypothesis Hipi : forall e, e < d -> ipi e < d /\ pi (ipi e) = e.
Hypothesis Hpi' : forall a, a < d -> pi' a < d /\ ipi' (pi' a) = a.
Hypothesis Hipi' : forall e, e < d -> ipi' e < d /\ pi' (ipi' e) = e.
Let id_ := ipi' (pi is_).                 (* destination axis holding the gathered dimension (idx_d) *)
Let p := PSa is_.
Let n0 := N (pi is_).
Let mb := bmax n0 p.

(* what _compatibleLayout / getAxes establish: every other dimension is distributed the same way *)
Hypothesis Hsame : forall q a, a < d -> a <> is_ ->
  PDa (ipi' (pi a)) = PSa a /\ coD q (ipi' (pi a)) = coS q a.
Hypothesis Hfull : PDa id_ = 1 /\ forall q, coD q id_ = 0.
Hypothesis HsetX_is : forall q r, coS (setX q r) is_ = r.
Hypothesis HsetX_other : forall q r a, a <> is_ -> coS (setX q r) a = coS q a.
Hypothesis Hvalid : forall q a, a < d -> coS q a < PSa a.

Definition shS (q : rank) (a : nat) := blen (N (pi a)) (PSa a) (coS q a).
Definition shD (q : rank) (a : nat) := blen (N (pi' a)) (PDa a) (coD q a).
Definition B (q : rank) := size (mk d (fun a => if a =? is_ then mb else shS q a)).   (* blockSize sent *)

Variable G : list nat -> V.
Variable src : rank -> nat -> V.

Definition globS q j := mk d (fun e => rd j (ipi e) + bstart (N e) (PSa (ipi e)) (coS q (ipi e))).
Definition globD q j := mk d (fun e => rd j (ipi' e) + bstart (N e) (PDa (ipi' e)) (coD q (ipi' e))).
Definition Holds_src := forall q j, inb (mk d (shS q)) j -> src q (ravel (mk d (shS q)) j) = G (globS q j).

(* Allgather: chunk r of the receive buffer is the prefix of rank r's buffer *)
Definition rcv (q : rank) (A : nat) : V := src (setX q (A / B q)) (A mod B q).
(* unpack: block r, reshaped with r's true shape, transposed into its slice of the destination *)
Definition dst (q : rank) (A' : nat) : V :=
  let j' := unravel (mk d (shD q)) A' in
  let g := rd j' id_ in
  let r := owner n0 p g in
  let t := g - bstart n0 p r in
  rcv q (r * B q + ravel (mk d (shS (setX q r))) (mk d (fun a => if a =? is_ then t else rd j' (ipi' (pi a))))).
Definition Holds_dst := forall q j', inb (mk d (shD q)) j' -> dst q (ravel (mk d (shD q)) j') = G (globD q j').

Lemma id_lt : id_ < d. Proof. unfold id_. apply Hipi', Hpi, His. Qed.
Lemma pi'_id : pi' id_ = pi is_. Proof. unfold id_. apply Hipi', Hpi, His. Qed.

Lemma size_map_le (f g : nat -> nat) l : (forall a, In a l -> f a <= g a) -> size (map f l) <= size (map g l).
Proof. induction l as [|x l IH]; intros H; cbn; [lia|]. fold (size (map f l)) (size (map g l)).
  apply Nat.mul_le_mono; [apply H; left; reflexivity|apply IH; intros; apply H; right; assumption]. Qed.

Lemma shS_setX_other q r a : a <> is_ -> shS (setX q r) a = shS q a.
Proof. intros H. unfold shS. rewrite HsetX_other by exact H. reflexivity. Qed.

Theorem gather_correct : Holds_src -> Holds_dst.
Proof.
  intros HS q j' Hj'.
  unfold dst. rewrite (unravel_ravel _ _ Hj').
  pose proof (inb_mk_inv _ _ _ Hj') as Hjlt.
  pose proof id_lt as Hid. destruct Hfull as [HPid Hcid].
  assert (Hp : 0 < p) by apply HPS.
  set (g := rd j' id_). set (r := owner n0 p g). set (t := g - bstart n0 p r).
  assert (Hg : g < n0).
  { pose proof (Hjlt id_ Hid) as H. unfold shD in H. rewrite pi'_id, HPid, Hcid in H.
    rewrite blen_one in H by reflexivity. exact H. }
  destruct (owner_spec n0 p g Hp Hg) as [Hr [Hlo Hhi]]. fold r in Hr, Hlo, Hhi.
  assert (Ht : t < blen n0 p r) by (unfold t, blen; lia).
  set (I := fun a => if a =? is_ then t else rd j' (ipi' (pi a))).
  (* the index lies inside rank r's true block *)
  assert (Hinb : inb (mk d (shS (setX q r))) (mk d I)).
  { apply inb_mk. intros a Ha. unfold I.
    destruct (Nat.eqb_spec a is_) as [->|Hne].
    - unfold shS. rewrite HsetX_is. fold n0 p. exact Ht.
    - rewrite shS_setX_other by exact Hne.
      destruct (Hsame q a Ha Hne) as [E1 E2].
      destruct (Hpi a Ha) as [Hpa _]. destruct (Hipi' _ Hpa) as [Hx Hy].
      pose proof (Hjlt _ Hx) as H. unfold shD in H. rewrite Hy, E1, E2 in H. exact H. }
  assert (HR : ravel (mk d (shS (setX q r))) (mk d I) < B q).
  { eapply Nat.lt_le_trans; [apply ravel_lt, Hinb|]. unfold B, mk. apply size_map_le.
    intros a Ha. apply in_seq in Ha.
    destruct (Nat.eqb_spec a is_) as [->|Hne].
    - unfold shS. rewrite HsetX_is. fold n0 p. apply blen_le_bmax; assumption.
    - rewrite shS_setX_other by exact Hne. lia. }
  assert (HB : B q <> 0) by lia.
  unfold rcv.
  rewrite Nat.div_add_l by exact HB. rewrite (Nat.div_small _ _ HR), Nat.add_0_r.
  replace (r * B q + ravel (mk d (shS (setX q r))) (mk d I))
    with (ravel (mk d (shS (setX q r))) (mk d I) + r * B q) by lia.
  rewrite Nat.mod_add by exact HB. rewrite (Nat.mod_small _ _ HR).
  rewrite (HS _ _ Hinb). f_equal.
  unfold globS, globD. apply mk_ext. intros e He.
  destruct (Hipi e He) as [Hae Hpe]. rewrite rd_mk by exact Hae. unfold I.
  destruct (Nat.eqb_spec (ipi e) is_) as [E|E].
  - assert (e = pi is_) by (rewrite <- Hpe, E; reflexivity). subst e.
    rewrite E, HsetX_is. fold id_ n0 p. rewrite HPid, Hcid, bstart_0. fold g. unfold t. lia.
  - rewrite HsetX_other by exact E.
    destruct (Hsame q (ipi e) Hae E) as [E1 E2]. rewrite Hpe in E1, E2. rewrite E1, E2, Hpe. reflexivity.
Qed.

(* replicas: the result does not depend on the coordinate along X *)
Corollary gather_replicas_equal : Holds_src ->
  (forall q r' a, coD (setX q r') a = coD q a) ->
  forall q r' j', inb (mk d (shD q)) j' ->
  dst (setX q r') (ravel (mk d (shD (setX q r'))) j') = dst q (ravel (mk d (shD q)) j').
Proof.
  intros HS HcoD q r' j' Hj'.
  assert (E : forall a, shD (setX q r') a = shD q a) by (intros; unfold shD; rewrite HcoD; reflexivity).
  assert (Hj2 : inb (mk d (shD (setX q r'))) j') by (rewrite (mk_ext d _ (shD q)); [exact Hj'|intros; apply E]).
  rewrite (gather_correct HS _ _ Hj2), (gather_correct HS _ _ Hj'). f_equal.
  unfold globD. apply mk_ext. intros e He. rewrite HcoD. reflexivity.
Qed.
End Gather.
