(** C15: the laws [qn_dft_laws] assumed by the pipeline theorems, DISCHARGED for the mathematical DFT.

    F is a field in which a sum of two squares vanishes only if both terms do (every ordered field; Qc).
    Then K = F x F with the complex multiplication is a field ([cx_field]), (re, im) |-> (re, -im) is a
    conjugation, and for a primitive n-th root of unity w = (c, s) of modulus 1 in K the transform pair
    [cx_dft] / [cx_idft] of DftTheory.v satisfies [qn_dft_laws] ([cx_dft_laws]).  The pipeline theorems of
    QnPipeline.v are restated for this transform with no hypothesis on it ([qn_dft_...]); the versions with the
    laws as hypotheses remain the statements for "any transform satisfying the laws", which is what scipy's
    FFT is checked against vector by vector. *)
From Coq Require Import List Arith Lia ZArith Field Ring PeanoNat Bool.
From PGV Require Import Blocks Sums GridSteps Density QnModes QnPipeline DftTheory.

Section Pairs.
Variable F : Type.
Variables (f0 f1 : F) (fadd fmul fsub fdiv : F -> F -> F) (fopp finv : F -> F).
Hypothesis Fth : field_theory f0 f1 fadd fmul fsub fopp fdiv finv (@eq F).
Add Field CXF : Fth.
(** formally real in the weak form needed: a^2 + b^2 = 0 only for a = b = 0 *)
Hypothesis Hsq : forall a b : F, fadd (fmul a a) (fmul b b) = f0 -> a = f0 /\ b = f0.

Notation C := (qn_C F).
Definition cx0 : C := (f0, f0).
Definition cx1 : C := (f1, f0).
Definition cx_add (x y : C) : C := (fadd (fst x) (fst y), fadd (snd x) (snd y)).
Definition cx_sub (x y : C) : C := (fsub (fst x) (fst y), fsub (snd x) (snd y)).
Definition cx_opp (x : C) : C := (fopp (fst x), fopp (snd x)).
Definition cx_mul (x y : C) : C :=
  (fsub (fmul (fst x) (fst y)) (fmul (snd x) (snd y)), fadd (fmul (fst x) (snd y)) (fmul (snd x) (fst y))).
Definition cx_nrm (x : C) : F := fadd (fmul (fst x) (fst x)) (fmul (snd x) (snd x)).
Definition cx_inv (x : C) : C := (fdiv (fst x) (cx_nrm x), fdiv (fopp (snd x)) (cx_nrm x)).
Definition cx_div (x y : C) : C := cx_mul x (cx_inv y).
Definition cx_conj (x : C) : C := (fst x, fopp (snd x)).

Lemma cx_nrm_nz x : x <> cx0 -> cx_nrm x <> f0.
Proof. destruct x as [a b]. unfold cx_nrm, cx0. cbn. intros Hx E. destruct (Hsq a b E) as [-> ->]. apply Hx. reflexivity. Qed.

Theorem cx_field : field_theory cx0 cx1 cx_add cx_mul cx_sub cx_opp cx_div cx_inv (@eq C).
Proof.
  constructor; [constructor| | |].
  - intros [a b]. unfold cx_add, cx0. cbn. f_equal; ring.
  - intros [a b] [c d]. unfold cx_add. cbn. f_equal; ring.
  - intros [a b] [c d] [e g]. unfold cx_add. cbn. f_equal; ring.
  - intros [a b]. unfold cx_mul, cx1. cbn. f_equal; ring.
  - intros [a b] [c d]. unfold cx_mul. cbn. f_equal; ring.
  - intros [a b] [c d] [e g]. unfold cx_mul. cbn. f_equal; ring.
  - intros [a b] [c d] [e g]. unfold cx_mul, cx_add. cbn. f_equal; ring.
  - intros [a b] [c d]. unfold cx_sub, cx_add, cx_opp. cbn. f_equal; ring.
  - intros [a b]. unfold cx_add, cx_opp, cx0. cbn. f_equal; ring.
  - unfold cx1, cx0. intros E. injection E as E1. exact (F_1_neq_0 Fth E1).
  - intros p q. reflexivity.
  - intros [a b] Hp. pose proof (cx_nrm_nz (a, b) Hp) as Hn. unfold cx_nrm in Hn. cbn in Hn.
    unfold cx_mul, cx_inv, cx_nrm, cx1. cbn. f_equal; field; exact Hn.
Qed.

Lemma cx_two_nz : fadd f1 f1 <> f0.
Proof.
  intros E. assert (E2 : fadd (fmul f1 f1) (fmul f1 f1) = f0) by (rewrite <- E; ring).
  destruct (Hsq f1 f1 E2) as [H _]. exact (F_1_neq_0 Fth H).
Qed.

(** the vocabulary of QnPipeline.v in terms of the field K *)
Lemma cx_cadd_eq x y : qn_cadd F fadd x y = cx_add x y.
Proof. reflexivity. Qed.
Lemma cx_cscale_eq a x : qn_cscale F fmul a x = cx_mul (a, f0) x.
Proof. destruct x as [u v]. unfold qn_cscale, cx_mul. cbn. f_equal; ring. Qed.
Lemma cx_cconj_eq x : qn_cconj F fopp x = cx_conj x.
Proof. reflexivity. Qed.
Lemma cx_real_conj x : qn_is_real F f0 x -> cx_conj x = x.
Proof. destruct x as [a b]. unfold qn_is_real, cx_conj. cbn. intros ->. f_equal. ring. Qed.
Lemma cx_conj_real x : cx_conj x = x -> qn_is_real F f0 x.
Proof.
  destruct x as [a b]. unfold qn_is_real, cx_conj. cbn. intros E. injection E as E.
  assert (E2 : fmul (fadd f1 f1) b = f0) by (transitivity (fadd b b); [ring|rewrite <- E at 1; ring]).
  transitivity (fdiv (fmul (fadd f1 f1) b) (fadd f1 f1)); [field; exact cx_two_nz|]. rewrite E2. field. exact cx_two_nz.
Qed.

Notation cpow := (df_pow C cx1 cx_mul).

(** a primitive n-th root of unity of modulus 1 in K *)
Record cx_root (n : nat) (w : C) : Prop := {
  cr_prim : df_prim_root C cx0 cx1 cx_add cx_mul n w;
  cr_unit : cx_nrm w = f1
}.

Section WithRoot.
Variable n : nat.
Variable w : C.
Hypothesis R : cx_root n w.

Definition cx_dft : qn_vec F -> qn_vec F := df_dft C cx0 cx1 cx_add cx_mul n w.
Definition cx_idft : qn_vec F -> qn_vec F := df_idft C cx0 cx1 cx_add cx_mul cx_inv n w.

Lemma cx_conj_laws : df_conj_laws C cx0 cx1 cx_add cx_mul n w cx_conj.
Proof.
  constructor.
  - intros [a b] [c d]. unfold cx_conj, cx_add. cbn. f_equal; ring.
  - intros [a b] [c d]. unfold cx_conj, cx_mul. cbn. f_equal; ring.
  - unfold cx_conj, cx1. cbn. f_equal. ring.
  - unfold cx_conj, cx0. cbn. f_equal. ring.
  - intros [a b]. unfold cx_conj. cbn. f_equal. ring.
  - (* conj w * w = |w|^2 = 1 = w^(n-1) * w *)
    pose proof (pr_pos C cx0 cx1 cx_add cx_mul n w (cr_prim n w R)) as Hn.
    assert (E1 : cx_mul (cx_conj w) w = cx1).
    { pose proof (cr_unit n w R) as U. destruct w as [c s]. unfold cx_nrm in U. cbn in U.
      unfold cx_mul, cx_conj, cx1. cbn. f_equal; [rewrite <- U|]; ring. }
    assert (E2 : cx_mul (cpow w (n - 1)) w = cx1).
    { transitivity (cpow w n); [|exact (pr_one C cx0 cx1 cx_add cx_mul n w (cr_prim n w R))].
      clear E1. destruct n as [|m]; [lia|]. cbn [df_pow]. replace (S m - 1) with m by lia. apply (Rmul_comm (F_R cx_field)). }
    transitivity (cx_mul (cx_conj w) (cx_mul (cpow w (n - 1)) w)).
    + rewrite E2. rewrite (Rmul_comm (F_R cx_field)). symmetry. apply (Rmul_1_l (F_R cx_field)).
    + rewrite (Rmul_comm (F_R cx_field) (cpow w (n - 1)) w), (Rmul_assoc (F_R cx_field)), E1.
      apply (Rmul_1_l (F_R cx_field)).
Qed.

(** the laws assumed by the pipeline theorems hold for the mathematical DFT *)
Theorem cx_dft_laws : qn_dft_laws F f0 fadd fmul fopp n cx_dft cx_idft.
Proof.
  pose proof (cr_prim n w R) as PR.
  constructor.
  - intros x y H k _. apply (df_dft_ext C cx0 cx1 cx_add cx_mul n w). exact H.
  - intros x y H k _. apply (df_idft_ext C cx0 cx1 cx_add cx_mul cx_inv n w). exact H.
  - intros x k Hk. exact (df_round_trip C cx0 cx1 cx_add cx_mul cx_sub cx_div cx_opp cx_inv cx_field n w PR x k Hk).
  - intros a x y k _. unfold cx_dft.
    rewrite (df_dft_ext C cx0 cx1 cx_add cx_mul n w _ (fun j => cx_add (cx_mul (a, f0) (x j)) (y j)))
      by (intros j _; rewrite cx_cscale_eq; reflexivity).
    rewrite (df_dft_lin C cx0 cx1 cx_add cx_mul cx_sub cx_div cx_opp cx_inv cx_field n w). rewrite cx_cscale_eq. reflexivity.
  - intros a x y k _. unfold cx_idft.
    rewrite (df_idft_ext C cx0 cx1 cx_add cx_mul cx_inv n w _ (fun j => cx_add (cx_mul (a, f0) (x j)) (y j)))
      by (intros j _; rewrite cx_cscale_eq; reflexivity).
    rewrite (df_idft_lin C cx0 cx1 cx_add cx_mul cx_sub cx_div cx_opp cx_inv cx_field n w). rewrite cx_cscale_eq. reflexivity.
  - intros x Hx k Hk.
    exact (df_dft_conj C cx0 cx1 cx_add cx_mul cx_sub cx_div cx_opp cx_inv cx_field n w PR cx_conj cx_conj_laws x
             (fun j Hj => cx_real_conj (x j) (Hx j Hj)) k Hk).
  - intros y Hy k Hk. apply cx_conj_real.
    exact (df_idft_real C cx0 cx1 cx_add cx_mul cx_sub cx_div cx_opp cx_inv cx_field n w PR cx_conj cx_conj_laws y Hy k Hk).
Qed.

(** the geometric sum in this field, for the record: sum_{j<n} w^(j t) = n if n | t, else 0 *)
Theorem cx_geom_sum t :
  sumn C cx0 cx_add n (fun j => cpow w (j * t))
  = if (t mod n =? 0)%nat then df_ofnat C cx0 cx1 cx_add n else cx0.
Proof. exact (df_geom_sum C cx0 cx1 cx_add cx_mul cx_sub cx_div cx_opp cx_inv cx_field n w (cr_prim n w R) t). Qed.

(* ------------------------------------------------------------------------------------------ *)
(** * The pipeline theorems with the transform laws discharged *)
Variable nr : nat.
Variable P : Type.
Variable solveP : P -> qn_vec F -> qn_vec F.
Variable ptab : list P.
Variable dP : P.
Notation phi := (qn_phi F cx_dft cx_idft P solveP ptab dP).
Notation SL := (qn_solve_laws F fmul fopp nr P solveP).

Theorem qn_dft_zero_density_zero_potential (S : SL) (rho : qn_fld F) :
  (forall r k, r < nr -> k < n -> rho r k = qn_c0 F f0) ->
  forall r k, r < nr -> k < n -> phi rho r k = qn_c0 F f0.
Proof. exact (qn_zero_density_zero_potential F f0 f1 fadd fmul fsub fdiv fopp finv Fth n nr cx_dft cx_idft P solveP ptab dP cx_dft_laws S rho). Qed.

Theorem qn_dft_equilibrium_phi_zero (S : SL) nc qf f feq :
  (forall r k l, r < nr -> k < n -> l < nc -> f r k l = feq r l) ->
  forall r k, r < nr -> k < n -> phi (qn_density F f0 fadd fmul fsub nc qf f feq) r k = qn_c0 F f0.
Proof. exact (qn_equilibrium_phi_zero F f0 f1 fadd fmul fsub fdiv fopp finv Fth n nr cx_dft cx_idft P solveP ptab dP cx_dft_laws S nc qf f feq). Qed.

Theorem qn_dft_real_in_real_out (S : SL) (rho : qn_fld F) :
  (forall I, I < n -> qn_par P ptab dP (qn_conj n I) = qn_par P ptab dP I) ->
  (forall r k, r < nr -> k < n -> qn_is_real F f0 (rho r k)) ->
  forall r k, r < nr -> k < n -> qn_is_real F f0 (phi rho r k).
Proof. exact (qn_real_in_real_out F f0 fadd fmul fopp n nr cx_dft cx_idft P solveP ptab dP cx_dft_laws S rho). Qed.

Theorem qn_dft_pipeline_is_per_mode_solve (p : nat) (Hp : 0 < p) (rho : qn_fld F) (S : SL) :
  forall r k, r < nr -> k < n ->
  qn_phiD F n nr cx_dft cx_idft P solveP ptab dP p rho r k = phi rho r k.
Proof. exact (qn_pipeline_is_per_mode_solve F f0 fadd fmul fopp n nr cx_dft cx_idft P solveP ptab dP p Hp rho cx_dft_laws S). Qed.

Theorem qn_dft_pipeline_decomposition_free (S : SL) p q rho :
  0 < p -> 0 < q -> forall r k, r < nr -> k < n ->
  qn_phiD F n nr cx_dft cx_idft P solveP ptab dP p rho r k = qn_phiD F n nr cx_dft cx_idft P solveP ptab dP q rho r k.
Proof. exact (qn_pipeline_decomposition_free F f0 fadd fmul fopp n nr cx_dft cx_idft P solveP ptab dP cx_dft_laws S p q rho). Qed.

End WithRoot.

(** real density => real potential for the model's per-mode parameters (QN configuration), any primitive root *)
Theorem qn_dft_QN_real_in_real_out (n nr : nat) (w : C) (R : cx_root n w)
  (solveP : qn_param -> qn_vec F -> qn_vec F) (nb : Z) (d : qn_param) :
  qn_solve_laws F fmul fopp nr qn_param solveP ->
  forall rho : qn_fld F,
  (forall r k, r < nr -> k < n -> qn_is_real F f0 (rho r k)) ->
  forall r k, r < nr -> k < n ->
  qn_is_real F f0 (qn_phi F (cx_dft n w) (cx_idft n w) qn_param solveP (qn_params nb qn_QN_lN qn_QN_uN n) d rho r k).
Proof.
  exact (qn_QN_real_in_real_out F f0 f1 fadd fmul fsub fdiv fopp finv n nr (cx_dft n w) (cx_idft n w) solveP nb d (cx_dft_laws n w R)).
Qed.

End Pairs.
