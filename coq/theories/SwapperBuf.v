(** C03: the cells the swapper's gather and scatter steps touch lie inside p * B (p padded blocks of the
    scattered layout), and the constructor's memory computation for a pair of layouts of different handlers
    (layout.py:1088-1109) modelled as it is written, including the comparison blockSize1 > blockSize2 that
    selects the communicator whose size multiplies the block. *)
From Coq Require Import List Arith Lia PeanoNat Bool Permutation.
Import ListNotations.
From PGV Require Import NdIndex Blocks Layouts Handler HandlerBuf TransposeExec GatherStep GatherValid ScatterStep
  SwapperExec SwapperRoute FrameMem SwapperFrame BufExtent.

Lemma mk_set_nth d (g : nat -> nat) i v :
  mk d (fun a => if a =? i then v else g a) = set_nth (mk d g) i v.
Proof.
  apply nth_ext with (d := 0) (d' := 0); [rewrite set_nth_length, !length_mk; reflexivity|].
  intros a Ha. rewrite length_mk in Ha. fold (rd (mk d (fun a => if a =? i then v else g a)) a). rewrite rd_mk by exact Ha.
  destruct (Nat.eqb_spec a i) as [->|Hne].
  - rewrite nth_set_nth_eq by (rewrite length_mk; exact Ha). reflexivity.
  - rewrite nth_set_nth_ne by (intros E; apply Hne; symmetry; exact E). fold (rd (mk d g) a). rewrite rd_mk by exact Ha. reflexivity.
Qed.

Lemma size_set_nth_le l : forall i x y p, x <= y * p -> i < length l -> size (set_nth l i x) <= size (set_nth l i y) * p.
Proof.
  induction l as [|h l IH]; intros i x y p Hxy Hi; cbn in Hi; [lia|].
  destruct i as [|i]; cbn [set_nth]; rewrite !size_cons.
  - nia.
  - specialize (IH i x y p Hxy ltac:(lia)). nia.
Qed.

Lemma sb_bmax_mul_ge n p : 0 < p -> n <= bmax n p * p.
Proof.
  intros Hp. unfold bmax. pose proof (Nat.div_mod n p ltac:(lia)). pose proof (Nat.mod_upper_bound n p ltac:(lia)).
  destruct (Nat.eqb_spec (n mod p) 0); nia.
Qed.

Section GatherSizes.
Variable d : nat.
Variable N : nat -> nat.
Variables pi ipi pi' ipi' : nat -> nat.
Variable is_ : nat.
Variable rank : Type.
Variable valid : rank -> Prop.
Variable PSa : nat -> nat.
Variable PDa : nat -> nat.
Variable coS : rank -> nat -> nat.
Variable coD : rank -> nat -> nat.

Hypothesis His : is_ < d.
Hypothesis Hpi : forall a, a < d -> pi a < d /\ ipi (pi a) = a.
Hypothesis Hipi' : forall e, e < d -> ipi' e < d /\ pi' (ipi' e) = e.
Let id_ := ipi' (pi is_).
Let p := PSa is_.
Let n0 := N (pi is_).
Hypothesis Hp : 0 < p.
Hypothesis Hsame : forall q a, valid q -> a < d -> a <> is_ ->
  PDa (ipi' (pi a)) = PSa a /\ coD q (ipi' (pi a)) = coS q a.
Hypothesis Hfull : PDa id_ = 1 /\ forall q, valid q -> coD q id_ = 0.
Hypothesis HvalidS : forall q, valid q -> coS q is_ < p.

Notation shS := (GatherStep.shS N pi rank PSa coS).
Notation shD := (GatherStep.shD N pi' rank PDa coD).
Notation B := (GatherStep.B d N pi is_ rank PSa coS).

(** the gathered block is the scattered block with the full extent n0 along the gathered dimension, axes permuted *)
Lemma gs_shD_size q : valid q ->
  size (mk d (shD q)) = size (mk d (fun a => if a =? is_ then n0 else shS q a)).
Proof.
  intros Hq. destruct Hfull as [HPid Hcid].
  rewrite <- (size_mk_perm d (shD q) (fun a => ipi' (pi a))).
  - f_equal. apply mk_ext. intros a Ha. destruct (Hpi a Ha) as [Hpa _]. destruct (Hipi' _ Hpa) as [_ Hy].
    unfold GatherStep.shD. rewrite Hy.
    destruct (Nat.eqb_spec a is_) as [->|Hne].
    + fold id_. rewrite HPid, (Hcid q Hq). apply blen_one. reflexivity.
    + destruct (Hsame q a Hq Ha Hne) as [E1 E2]. rewrite E1, E2. reflexivity.
  - intros b Hb. apply Hipi', Hpi, Hb.
  - intros b c Hb Hc E. rewrite <- (proj2 (Hpi b Hb)), <- (proj2 (Hpi c Hc)). f_equal.
    rewrite <- (proj2 (Hipi' _ (proj1 (Hpi b Hb)))), <- (proj2 (Hipi' _ (proj1 (Hpi c Hc)))), E. reflexivity.
Qed.

Lemma gs_B_set q : B q = size (set_nth (mk d (shS q)) is_ (bmax n0 p)).
Proof. unfold GatherStep.B. rewrite mk_set_nth. reflexivity. Qed.

(** the scattered block fits into one padded block, the gathered block into p of them *)
Theorem gs_src_le_B q : valid q -> size (mk d (shS q)) <= B q.
Proof.
  intros Hq. rewrite gs_B_set.
  assert (E : mk d (shS q) = set_nth (mk d (shS q)) is_ (shS q is_)).
  { rewrite <- mk_set_nth. apply mk_ext. intros a _. destruct (Nat.eqb_spec a is_) as [->|]; reflexivity. }
  rewrite E at 1.
  pose proof (size_set_nth_le (mk d (shS q)) is_ (shS q is_) (bmax n0 p) 1) as H.
  rewrite <- (Nat.mul_1_r (size (set_nth (mk d (shS q)) is_ (bmax n0 p)))).
  apply H; [|rewrite length_mk; exact His].
  rewrite Nat.mul_1_r. unfold GatherStep.shS. fold n0 p. apply blen_le_bmax; [exact Hp|apply HvalidS, Hq].
Qed.

Theorem gs_dst_le_pB q : valid q -> size (mk d (shD q)) <= p * B q.
Proof.
  intros Hq. rewrite gs_shD_size by exact Hq. rewrite mk_set_nth, gs_B_set, Nat.mul_comm.
  apply size_set_nth_le; [apply sb_bmax_mul_ge, Hp|rewrite length_mk; exact His].
Qed.
End GatherSizes.

(** ** list level: extents of the gather S -> D and of the scatter back D -> S on every world rank *)
Section SwBuf.
Variables Nl nprocsT : list nat.
Variable d' : nat.
Let d := S d'.

Notation Pax := (sw_P nprocsT).
Notation nr := (sw_nranks nprocsT).

Theorem sw_gather_blocks_le (LS LD : sw_lay) is_ w :
  sw_cfg_wf_b Nl nprocsT d' LS LD = true -> sw_gather_wf_b nprocsT d' LS LD is_ = true -> w < nr ->
  sw_msize Nl nprocsT d' LS w <= Pax (snd LS) is_ * sw_gB Nl nprocsT d' LS is_ w /\
  sw_msize Nl nprocsT d' LD w <= Pax (snd LS) is_ * sw_gB Nl nprocsT d' LS is_ w.
Proof.
  intros Hwf Hg Hw.
  destruct (sw_gather_hyps Nl nprocsT d' LS LD is_ Hwf Hg) as [His [Hpi [Hipi' [Hp [Hsame [HF [HsI HsO]]]]]]].
  pose proof (sw_cfun_valid nprocsT w Hw) as Hv.
  assert (HvS : forall q : nat -> nat, sw_valid nprocsT q -> sw_co (snd LS) q is_ < Pax (snd LS) is_)
    by (intros; apply sw_co_lt; assumption).
  split.
  - pose proof (gs_src_le_B (S d') (sw_Nf Nl) (sw_pif LS) is_ (nat -> nat) (sw_valid nprocsT) (Pax (snd LS)) (sw_co (snd LS))
                  His Hp HvS (sw_cfun nprocsT w) Hv) as H.
    pose proof (sw_P_pos nprocsT ltac:(destruct (sw_wf_parts Nl nprocsT d' LS LD Hwf) as [_ [_ [_ [X _]]]]; exact X) (snd LS) is_).
    unfold sw_msize, sw_gB in *. unfold d in H.
    change (size (sw_shape Nl nprocsT d' LS w)) with
      (size (mk (Datatypes.S d') (GatherStep.shS (sw_Nf Nl) (sw_pif LS) (nat -> nat) (Pax (snd LS)) (sw_co (snd LS)) (sw_cfun nprocsT w)))).
    clear - H H0. nia.
  - exact (gs_dst_le_pB (Datatypes.S d') (sw_Nf Nl) (sw_pif LS) (sw_ipif LS) (sw_pif LD) (sw_ipif LD) is_ (nat -> nat) (sw_valid nprocsT)
             (Pax (snd LS)) (Pax (snd LD)) (sw_co (snd LS)) (sw_co (snd LD)) His Hpi Hipi' Hp Hsame HF (sw_cfun nprocsT w) Hv).
Qed.

(** hence the extent of the gather LS -> LD and of the scatter back LD -> LS is at most p * B *)
Corollary sw_gather_scatter_extent_le (LS LD : sw_lay) is_ w :
  sw_cfg_wf_b Nl nprocsT d' LS LD = true -> sw_gather_wf_b nprocsT d' LS LD is_ = true -> w < nr ->
  Nat.max (sw_msize Nl nprocsT d' LD w) (Pax (snd LS) is_ * sw_gB Nl nprocsT d' LS is_ w)
    <= Pax (snd LS) is_ * sw_gB Nl nprocsT d' LS is_ w /\
  sw_msize Nl nprocsT d' LS w <= Pax (snd LS) is_ * sw_gB Nl nprocsT d' LS is_ w.
Proof.
  intros Hwf Hg Hw. destruct (sw_gather_blocks_le LS LD is_ w Hwf Hg Hw) as [H1 H2].
  split; [apply Nat.max_lub; [exact H2|apply Nat.le_refl]|exact H1].
Qed.

(** ** the constructor's memory computation for a pair (name1 = L1 later, name2 = L2 earlier in the list of
    layouts), as written: axes by getAxes with the more distributed layout as "scattered"; both blocks with the
    found axis padded to max_block_shape; the smaller block times the size of "its" communicator
    (h.communicators[idx], an IndexError = None when idx is not a distribution direction of that handler) *)
Definition sw_lmax (L : sw_lay) (a : nat) : nat := bmax (sw_Nf Nl (sw_pif L a)) (Pax (snd L) a).
Definition sw_commsize (ax : list nat) (idx : nat) : option nat :=
  if idx <? length ax then Some (sw_PT nprocsT (nth idx ax 0)) else None.
Definition sw_pair_axes (L1 L2 : sw_lay) : option (nat * nat) :=
  if sw_nd nprocsT (snd L2) <? sw_nd nprocsT (snd L1)
  then match sw_first_new (snd L2) (snd L1) 0 with
       | Some s => Some (s, index_of (fst L2) (nth s (fst L1) 0))
       | None => None
       end
  else match sw_first_new (snd L1) (snd L2) 0 with
       | Some s => Some (index_of (fst L1) (nth s (fst L2) 0), s)
       | None => None
       end.
Definition sw_pair_bufsize (L1 L2 : sw_lay) (w : nat) : option nat :=
  if sw_nd nprocsT (snd L1) =? sw_nd nprocsT (snd L2) then Some 0
  else match sw_pair_axes L1 L2 with
       | None => None
       | Some (i1, i2) =>
           let b1 := size (set_nth (sw_shape Nl nprocsT d' L1 w) i1 (sw_lmax L1 i1)) in
           let b2 := size (set_nth (sw_shape Nl nprocsT d' L2 w) i2 (sw_lmax L2 i2)) in
           if b2 <? b1 then option_map (Nat.mul b2) (sw_commsize (snd L2) i2)
           else option_map (Nat.mul b1) (sw_commsize (snd L1) i1)
       end.
(** LayoutSwapper._buffer_size: the handlers' sizes and the sizes of the enumerated pairs *)
Definition sw_bufsize (hsizes : list nat) (pairs : list (sw_lay * sw_lay)) (w : nat) : option nat :=
  fold_left (fun acc pr => match acc, sw_pair_bufsize (fst pr) (snd pr) w with
                           | Some a, Some b => Some (Nat.max a b)
                           | _, _ => None
                           end) pairs (Some (fold_left Nat.max hsizes 0)).

Lemma sw_bufsize_ge : forall pairs w acc tot,
  fold_left (fun acc pr => match acc, sw_pair_bufsize (fst pr) (snd pr) w with
                           | Some a, Some b => Some (Nat.max a b) | _, _ => None end) pairs acc = Some tot ->
  (exists a, acc = Some a /\ a <= tot) /\
  forall L1 L2, In (L1, L2) pairs -> exists b, sw_pair_bufsize L1 L2 w = Some b /\ b <= tot.
Proof.
  induction pairs as [|pr pairs IH]; intros w acc tot H; cbn [fold_left] in H.
  - split; [exists tot; split; [exact H|lia]|intros ? ? []].
  - destruct acc as [a|].
    2:{ exfalso. clear - H. induction pairs as [|x l IHl]; cbn in H; [discriminate|apply IHl, H]. }
    destruct (sw_pair_bufsize (fst pr) (snd pr) w) as [b|] eqn:Eb.
    2:{ exfalso. clear - H. induction pairs as [|x l IHl]; cbn in H; [discriminate|apply IHl, H]. }
    destruct (IH w _ tot H) as [[a' [Ea Ha]] Hin]. injection Ea as <-.
    split; [exists a; split; [reflexivity|lia]|].
    intros L1 L2 [E|Hi]; [subst pr; cbn [fst snd] in Eb; exists b; split; [exact Eb|lia]|apply Hin, Hi].
Qed.

(** under the well-formedness of the gather LS -> LD, and when one padded block of LS is smaller than the block of
    LD (always so when no block is empty and p > 1), the constructor reserves exactly p * B for the pair,
    whichever of the two layouts comes first *)
Lemma sw_shape_set_same (L : sw_lay) w i : w < nr -> Pax (snd L) i = 1 ->
  set_nth (sw_shape Nl nprocsT d' L w) i (sw_lmax L i) = sw_shape Nl nprocsT d' L w.
Proof.
  intros Hw HP. unfold sw_shape. rewrite <- mk_set_nth. apply mk_ext. intros a Ha.
  destruct (Nat.eqb_spec a i) as [->|]; [|reflexivity].
  unfold sw_lmax, sw_shapef. rewrite HP.
  pose proof (sw_co_lt nprocsT (snd L) (sw_cfun nprocsT w) i (sw_cfun_valid nprocsT w Hw)) as Hc. rewrite HP in Hc.
  assert (E0 : sw_co (snd L) (sw_cfun nprocsT w) i = 0) by lia. rewrite E0.
  unfold bmax. rewrite Nat.mod_1_r, Nat.div_1_r. cbn [Nat.eqb]. symmetry. apply blen_one. reflexivity.
Qed.

Lemma sw_gB_set (L : sw_lay) is_ w :
  sw_gB Nl nprocsT d' L is_ w = size (set_nth (sw_shape Nl nprocsT d' L w) is_ (sw_lmax L is_)).
Proof. unfold sw_gB, GatherStep.B, sw_shape. rewrite <- mk_set_nth. reflexivity. Qed.

Theorem sw_pair_bufsize_gather (LS LD : sw_lay) is_ w :
  sw_cfg_wf_b Nl nprocsT d' LS LD = true -> sw_gather_wf_b nprocsT d' LS LD is_ = true -> w < nr ->
  sw_nd nprocsT (snd LD) < sw_nd nprocsT (snd LS) -> sw_gather_axis LS LD = Some is_ ->
  sw_gB Nl nprocsT d' LS is_ w < sw_msize Nl nprocsT d' LD w ->
  sw_pair_bufsize LS LD w = Some (sw_gB Nl nprocsT d' LS is_ w * Pax (snd LS) is_) /\
  sw_pair_bufsize LD LS w = Some (sw_gB Nl nprocsT d' LS is_ w * Pax (snd LS) is_).
Proof.
  intros Hwf Hg Hw Hnd Hax Hlt.
  destruct (sw_gather_hyps Nl nprocsT d' LS LD is_ Hwf Hg) as [His [_ [Hipi' [_ [_ [[HPid _] _]]]]]].
  assert (Hisl : is_ < length (snd LS)).
  { unfold sw_gather_wf_b in Hg. apply andb_prop in Hg. destruct Hg as [Hg _]. apply andb_prop in Hg. destruct Hg as [Hg _].
    apply andb_prop in Hg. destruct Hg as [Hg _]. apply Nat.ltb_lt in Hg. exact Hg. }
  assert (Ecs : sw_commsize (snd LS) is_ = Some (Pax (snd LS) is_)).
  { unfold sw_commsize, sw_P. destruct (Nat.ltb_spec is_ (length (snd LS))); [reflexivity|lia]. }
  set (id_ := index_of (fst LD) (nth is_ (fst LS) 0)).
  assert (ED : set_nth (sw_shape Nl nprocsT d' LD w) id_ (sw_lmax LD id_) = sw_shape Nl nprocsT d' LD w)
    by (apply sw_shape_set_same; [exact Hw|exact HPid]).
  unfold sw_gather_axis in Hax. unfold sw_pair_bufsize, sw_pair_axes.
  assert (N1 : (sw_nd nprocsT (snd LS) =? sw_nd nprocsT (snd LD)) = false) by (apply Nat.eqb_neq; lia).
  assert (N2 : (sw_nd nprocsT (snd LD) =? sw_nd nprocsT (snd LS)) = false) by (apply Nat.eqb_neq; lia).
  assert (N3 : (sw_nd nprocsT (snd LD) <? sw_nd nprocsT (snd LS)) = true) by (apply Nat.ltb_lt; lia).
  assert (N4 : (sw_nd nprocsT (snd LS) <? sw_nd nprocsT (snd LD)) = false) by (apply Nat.ltb_ge; lia).
  unfold sw_msize in Hlt. split.
  - rewrite N1, N3, Hax. fold id_. cbv zeta. rewrite ED, <- sw_gB_set.
    destruct (Nat.ltb_spec (size (sw_shape Nl nprocsT d' LD w)) (sw_gB Nl nprocsT d' LS is_ w)); [lia|].
    rewrite Ecs. reflexivity.
  - rewrite N2, N4, Hax. fold id_. cbv zeta. rewrite ED, <- sw_gB_set.
    destruct (Nat.ltb_spec (sw_gB Nl nprocsT d' LS is_ w) (size (sw_shape Nl nprocsT d' LD w))); [|lia].
    rewrite Ecs. reflexivity.
Qed.

End SwBuf.
