(** Layout-level definitions shared by C01/C02/C20: dimension orders, the handler's
    compatibility test, standard layouts of the 4-D simulation. *)
From Coq Require Import List Arith Lia PeanoNat Bool.
Import ListNotations.
From PGV Require Import NdIndex Blocks.

(** [LayoutHandler.compatible]: the distribution pattern changes on fewer than two
    distributed axes (layout.py:837-863) *)
Definition differing_axes (nprocs l1 l2 : list nat) : list nat :=
  filter (fun i => (1 <? nth i nprocs 1) && negb (nth i l1 0 =? nth i l2 0)) (seq 0 (length nprocs)).
Definition compatible (nprocs l1 l2 : list nat) : bool := length (differing_axes nprocs l1 l2) <? 2.

(** the three layouts of the 4-D distribution function (setups.py) *)
Definition flux_surface := [0; 3; 1; 2].
Definition v_parallel := [0; 2; 1; 3].
Definition poloidal := [3; 2; 1; 0].

Lemma std_layouts_chain a b :
  compatible [a; b] flux_surface v_parallel = true /\ compatible [a; b] v_parallel poloidal = true.
Proof.
  unfold compatible, differing_axes. cbn [length seq filter nth flux_surface v_parallel poloidal].
  destruct (1 <? a), (1 <? b); cbn; split; reflexivity.
Qed.

(** inverse dims order, as Layout.__init__ builds it *)
Definition inv_dims (dims : list nat) : list nat :=
  map (fun e => match find (fun i => nth i dims 0 =? e) (seq 0 (length dims)) with Some i => i | None => 0 end)
      (seq 0 (length dims)).

(** local shape / starts of a layout on a rank: axis [i] carries dimension [dims[i]],
    distributed over [nprocs[i]] processes (1 beyond the grid's length) *)
Definition np_at (nprocs : list nat) (i : nat) : nat := nth i nprocs 1.
Definition rk_at (coords : list nat) (i : nat) : nat := nth i coords 0.
Definition l_starts (N nprocs dims coords : list nat) : list nat :=
  map (fun i => bstart (nth (nth i dims 0) N 0) (np_at nprocs i) (rk_at coords i)) (seq 0 (length dims)).
Definition l_ends (N nprocs dims coords : list nat) : list nat :=
  map (fun i => bstart (nth (nth i dims 0) N 0) (np_at nprocs i) (S (rk_at coords i))) (seq 0 (length dims)).
Definition l_shape (N nprocs dims coords : list nat) : list nat :=
  map (fun i => blen (nth (nth i dims 0) N 0) (np_at nprocs i) (rk_at coords i)) (seq 0 (length dims)).
Definition l_max_shape (N nprocs dims : list nat) : list nat :=
  map (fun i => bmax (nth (nth i dims 0) N 0) (np_at nprocs i)) (seq 0 (length dims)).
Definition l_full_shape (N dims : list nat) : list nat := map (fun e => nth e N 0) dims.
Definition l_size (N nprocs dims coords : list nat) : nat := size (l_shape N nprocs dims coords).
Definition l_max_size (N nprocs dims : list nat) : nat := size (l_max_shape N nprocs dims).
