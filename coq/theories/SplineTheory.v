(** Theorems about the executable spline model (SplineModel.v): the model is connected to the
    seed developments BasisCoxDeBoor.v (A2.2 = Cox-de Boor, partition of unity), FindSpan.v
    (span search) and CubicUniform.v (closed forms), for every field with a compatible total
    order ([sp_laws]), every degree, every sorted knot list. *)
From Coq Require Import List Arith Lia ZArith Bool Field Ring Setoid.
Import ListNotations.
From PGV Require Import BasisCoxDeBoor CoxDeBoorGen FindSpan CubicUniform Sums SplineModel.

(** the order is the one decided by [spleb] *)
Definition sp_le {F : Type} (K : sp_ops F) (a b : F) : Prop := spleb K a b = true.
Definition sp_lt {F : Type} (K : sp_ops F) (a b : F) : Prop := sp_le K a b /\ a <> b.

Record sp_laws {F : Type} (K : sp_ops F) : Prop := SpLaws {
  spl_field : field_theory (sp0 K) (sp1 K) (spadd K) (spmul K) (spsub K) (spopp K) (spdiv K) (spinv K) (@eq F);
  spl_le_trans : forall x y z, sp_le K x y -> sp_le K y z -> sp_le K x z;
  spl_le_antisym : forall x y, sp_le K x y -> sp_le K y x -> x = y;
  spl_le_total : forall x y, sp_le K x y \/ sp_le K y x;
  spl_add_le : forall x y z, sp_le K x y -> sp_le K (spadd K x z) (spadd K y z);
  spl_mul_nonneg : forall x y, sp_le K (sp0 K) x -> sp_le K (sp0 K) y -> sp_le K (sp0 K) (spmul K x y);
  spl_eqb : forall a b, speqb K a b = true <-> a = b
}.

Section Theory.
Variable F : Type.
Variable K : sp_ops F.
Hypothesis HK : sp_laws K.
Add Field SPF : (spl_field K HK).
Notation "x + y" := (spadd K x y). Notation "x * y" := (spmul K x y).
Notation "x - y" := (spsub K x y). Notation "x / y" := (spdiv K x y).
Notation "0" := (sp0 K). Notation "1" := (sp1 K).
Notation "x <= y" := (sp_le K x y). Notation "x < y" := (sp_lt K x y).
Notation Fth := (spl_field K HK).
Notation sumf := (sumF F 0 (spadd K)).

Lemma sp_eqb_spec a b : reflect (a = b) (speqb K a b).
Proof. destruct (speqb K a b) eqn:E; constructor.
  - apply (spl_eqb K HK), E.
  - intros H. apply (spl_eqb K HK) in H. congruence. Qed.
Lemma sp_leb_spec a b : reflect (a <= b) (spleb K a b).
Proof. unfold sp_le. destruct (spleb K a b); constructor; [reflexivity|discriminate]. Qed.
Lemma sp_le_refl x : x <= x.
Proof. destruct (spl_le_total K HK x x); assumption. Qed.
Lemma sp_lt_flt a b : a < b <-> flt F (sp_le K) a b.
Proof. unfold sp_lt, flt. tauto. Qed.
Lemma sp_1_neq_0 : 1 <> 0.
Proof. exact (F_1_neq_0 Fth). Qed.

Lemma sp_sub_nonneg a b : a <= b -> 0 <= b - a.
Proof. intros H. replace 0 with (a + spopp K a) by ring. replace (b - a) with (b + spopp K a) by ring.
  apply (spl_add_le K HK), H. Qed.
Lemma sp_nonneg_sub a b : 0 <= b - a -> a <= b.
Proof. intros H. replace a with (0 + a) by ring. replace b with ((b - a) + a) by ring.
  apply (spl_add_le K HK), H. Qed.
Lemma sp_add_nonneg a b : 0 <= a -> 0 <= b -> 0 <= a + b.
Proof. intros Ha Hb. apply (spl_le_trans K HK) with b; [exact Hb|].
  replace b with (0 + b) at 1 by ring. apply (spl_add_le K HK), Ha. Qed.
Lemma sp_0_le_1 : 0 <= 1.
Proof.
  destruct (spl_le_total K HK 0 1) as [H|H]; [exact H|].
  assert (H1 : 0 <= spopp K 1).
  { replace 0 with (1 + spopp K 1) by ring. replace (spopp K 1) with (0 + spopp K 1) at 2 by ring.
    apply (spl_add_le K HK), H. }
  replace 1 with (spopp K 1 * spopp K 1) by ring. apply (spl_mul_nonneg K HK); assumption.
Qed.
Lemma sp_inv_nonneg d : 0 < d -> 0 <= 1 / d.
Proof.
  intros [Hd Hne]. assert (Hd0 : d <> 0) by (intros E; apply Hne; symmetry; exact E).
  destruct (spl_le_total K HK 0 (1 / d)) as [H|H]; [exact H|]. exfalso.
  assert (H1 : 0 <= spopp K (1 / d)).
  { replace 0 with (1 / d + spopp K (1 / d)) by (field; exact Hd0).
    replace (spopp K (1 / d)) with (0 + spopp K (1 / d)) at 2 by (field; exact Hd0).
    apply (spl_add_le K HK), H. }
  pose proof (spl_mul_nonneg K HK _ _ Hd H1) as H2.
  replace (d * spopp K (1 / d)) with (spopp K 1) in H2 by (field; exact Hd0).
  assert (H3 : 1 <= 0).
  { replace 1 with (0 + 1) by ring. replace 0 with (spopp K 1 + 1) at 2 by ring.
    apply (spl_add_le K HK), H2. }
  apply sp_1_neq_0. apply (spl_le_antisym K HK); [exact H3|exact sp_0_le_1].
Qed.
Lemma sp_div_nonneg a d : 0 <= a -> 0 < d -> 0 <= a / d.
Proof. intros Ha Hd. assert (Hd0 : d <> 0) by (intros E; apply (proj2 Hd); symmetry; exact E).
  replace (a / d) with (a * (1 / d)) by (field; exact Hd0).
  apply (spl_mul_nonneg K HK); [exact Ha|apply sp_inv_nonneg, Hd]. Qed.
Lemma sp_lt_0_sub a b : a < b -> 0 < b - a.
Proof. intros [H Hne]. split; [apply sp_sub_nonneg, H|]. intros E. apply Hne.
  replace b with ((b - a) + a) by ring. rewrite <- E. ring. Qed.
Lemma sp_le_lt_trans a b c : a <= b -> b < c -> a < c.
Proof. intros H1 [H2 Hne]. split; [apply (spl_le_trans K HK) with b; assumption|].
  intros E. subst c. apply Hne. apply (spl_le_antisym K HK); assumption. Qed.
Lemma sp_lt_le_trans a b c : a < b -> b <= c -> a < c.
Proof. intros [H1 Hne] H2. split; [apply (spl_le_trans K HK) with b; assumption|].
  intros E. subst c. apply Hne. apply (spl_le_antisym K HK); assumption. Qed.
Lemma sp_two_pos : 0 < sp_two F K.
Proof. unfold sp_two. apply sp_lt_le_trans with 1.
  - split; [exact sp_0_le_1|]. intros E. apply sp_1_neq_0. symmetry. exact E.
  - replace 1 with (0 + 1) at 1 by ring. apply (spl_add_le K HK), sp_0_le_1. Qed.
Lemma sp_three_pos : 0 < sp_three F K.
Proof. unfold sp_three. apply sp_lt_le_trans with (sp_two F K); [exact sp_two_pos|].
  replace (sp_two F K) with (sp_two F K + 0) at 1 by ring.
  replace (sp_two F K + 0) with (0 + sp_two F K) by ring.
  replace (sp_two F K + 1) with (1 + sp_two F K) by ring. apply (spl_add_le K HK), sp_0_le_1. Qed.
Lemma sp_two_ne0 : two F 1 (spadd K) <> 0.
Proof. intros E. apply (proj2 sp_two_pos). symmetry. exact E. Qed.
Lemma sp_three_ne0 : three F 1 (spadd K) <> 0.
Proof. intros E. apply (proj2 sp_three_pos). symmetry. exact E. Qed.

(* ---------------------------------------------------------------------------------------- *)
(** * knots as a list *)

(** non-decreasing knot list *)
Definition sp_sorted (knots : list F) : Prop :=
  forall i, (S i < length knots)%nat -> sp_kn F K knots i <= sp_kn F K knots (S i).

Lemma sp_nth_last (l : list F) d : nth (length l - 1) l d = last l d.
Proof. induction l as [|a l IH]; [reflexivity|]. destruct l as [|b l]; [reflexivity|].
  change (last (a :: b :: l) d) with (last (b :: l) d). rewrite <- IH.
  cbn [length]. replace (S (S (length l)) - 1)%nat with (S (S (length l) - 1)) by lia. reflexivity. Qed.

Lemma sp_kn_beyond knots i : (length knots - 1 <= i)%nat -> sp_kn F K knots i = last knots 0.
Proof. intros H. unfold sp_kn. destruct (Nat.lt_ge_cases i (length knots)) as [Hlt|Hge].
  - rewrite (nth_indep knots (last knots 0) 0 Hlt). replace i with (length knots - 1)%nat by lia.
    apply sp_nth_last.
  - apply nth_overflow. lia. Qed.

Lemma sp_kn_mono knots : sp_sorted knots -> forall a b, (a <= b)%nat -> sp_kn F K knots a <= sp_kn F K knots b.
Proof.
  intros Hs a b Hab. induction Hab as [|b Hab IH]; [apply sp_le_refl|].
  apply (spl_le_trans K HK) with (sp_kn F K knots b); [exact IH|].
  destruct (Nat.lt_ge_cases (S b) (length knots)) as [H|H]; [apply Hs, H|].
  rewrite (sp_kn_beyond knots b), (sp_kn_beyond knots (S b)) by lia. apply sp_le_refl.
Qed.

(* ---------------------------------------------------------------------------------------- *)
(** * nu_find_span *)

Theorem sp_nu_find_span_spec knots degree x :
  (2 * degree + 1 < length knots)%nat ->
  sp_kn F K knots degree < sp_kn F K knots (length knots - 1 - degree) ->
  exists s, sp_nu_find_span F K knots degree x = SpOk s /\
    (degree <= s <= length knots - degree - 2)%nat /\
    ((x <= sp_kn F K knots degree /\ s = degree) \/
     (~ x <= sp_kn F K knots degree /\ sp_kn F K knots (length knots - 1 - degree) <= x
        /\ s = (length knots - degree - 2)%nat) \/
     (sp_kn F K knots s <= x /\ ~ sp_kn F K knots (S s) <= x)).
Proof.
  intros Hlen Hdom. unfold sp_nu_find_span. cbv zeta.
  destruct (Nat.ltb_spec (2 * degree + 1) (length knots)) as [_|H]; [|lia].
  set (t := fun z : Z => sp_kn F K knots (Z.to_nat z)).
  destruct (find_span_spec F (sp_le K) (spleb K) sp_leb_spec (spl_le_total K HK) t
              (Z.of_nat (length knots)) (Z.of_nat degree) x) as [s [E [Hr Hc]]].
  - lia.
  - subst t. cbv beta. rewrite Nat2Z.id.
    replace (Z.to_nat (Z.of_nat (length knots) - 1 - Z.of_nat degree)) with (length knots - 1 - degree)%nat by lia.
    intros Hle. destruct Hdom as [Hd Hne]. apply Hne. apply (spl_le_antisym K HK); assumption.
  - rewrite E. exists (Z.to_nat s). split; [reflexivity|]. split; [lia|].
    subst t. cbv beta in Hc. rewrite Nat2Z.id in Hc.
    replace (Z.to_nat (Z.of_nat (length knots) - 1 - Z.of_nat degree)) with (length knots - 1 - degree)%nat in Hc by lia.
    destruct Hc as [[H1 H2]|[[H1 [H2 H3]]|[H1 H2]]].
    + left. split; [exact H1|lia].
    + right. left. repeat split; try assumption. lia.
    + right. right. split; [exact H1|]. replace (S (Z.to_nat s)) with (Z.to_nat (s + 1)) by lia. exact H2.
Qed.

(** inside the closed domain the span is a non-empty knot interval that contains x
    (closed at the right only for x = knots[len-1-degree], the right end of the domain) *)
Theorem sp_nu_find_span_domain knots degree x :
  sp_sorted knots ->
  (2 * degree + 1 < length knots)%nat ->
  sp_kn F K knots degree < sp_kn F K knots (S degree) ->
  sp_kn F K knots (length knots - degree - 2) < sp_kn F K knots (length knots - 1 - degree) ->
  sp_kn F K knots degree <= x -> x <= sp_kn F K knots (length knots - 1 - degree) ->
  exists s, sp_nu_find_span F K knots degree x = SpOk s /\
    (degree <= s <= length knots - degree - 2)%nat /\
    sp_kn F K knots s < sp_kn F K knots (S s) /\
    sp_kn F K knots s <= x /\ x <= sp_kn F K knots (S s) /\
    (sp_kn F K knots (S s) <= x -> s = (length knots - degree - 2)%nat).
Proof.
  intros Hs Hlen Hfirst Hlast Hlo Hhi.
  assert (Hdom : sp_kn F K knots degree < sp_kn F K knots (length knots - 1 - degree)).
  { apply sp_lt_le_trans with (sp_kn F K knots (S degree)); [exact Hfirst|]. apply sp_kn_mono; [exact Hs|lia]. }
  destruct (sp_nu_find_span_spec knots degree x Hlen Hdom) as [s [E [Hr Hc]]].
  exists s. split; [exact E|]. split; [exact Hr|].
  destruct Hc as [[H1 ->]|[[H1 [H2 ->]]|[H1 H2]]].
  - assert (Ex : x = sp_kn F K knots degree) by (apply (spl_le_antisym K HK); assumption).
    split; [exact Hfirst|]. split; [exact Hlo|]. split.
    + rewrite Ex. apply (proj1 Hfirst).
    + intros H. exfalso. apply (proj2 Hfirst). apply (spl_le_antisym K HK); [apply (proj1 Hfirst)|].
      rewrite Ex in H. exact H.
  - replace (S (length knots - degree - 2)) with (length knots - 1 - degree)%nat by lia.
    split; [exact Hlast|]. split; [|split; [exact Hhi|reflexivity]].
    apply (spl_le_trans K HK) with (sp_kn F K knots (length knots - 1 - degree)); [|exact H2].
    apply sp_kn_mono; [exact Hs|lia].
  - assert (Hx : x <= sp_kn F K knots (S s)) by (destruct (spl_le_total K HK x (sp_kn F K knots (S s))); [assumption|contradiction]).
    split.
    + split; [apply (spl_le_trans K HK) with x; assumption|]. intros E1. apply H2. rewrite <- E1. exact H1.
    + split; [exact H1|]. split; [exact Hx|]. intros H. contradiction.
Qed.

(* ---------------------------------------------------------------------------------------- *)
(** * nu_basis_funs: Algorithm A2.2 *)

(** the Cox - de Boor B-spline N_{i,k}(x) on the knot list (half-open intervals; BasisCoxDeBoor.N) *)
Definition sp_N (knots : list F) (x : F) (k i : nat) : F :=
  N F 0 1 (spadd K) (spmul K) (spsub K) (spdiv K) (sp_kn F K knots) x (speqb K) (spleb K) k i.

Definition sp_span_ok (knots : list F) (span : nat) : Prop :=
  sp_kn F K knots span < sp_kn F K knots (S span).

Lemma sp_denom_ne0 knots x span j r : sp_sorted knots -> sp_span_ok knots span ->
  (r <= j)%nat -> (j <= span)%nat ->
  R F (spsub K) (sp_kn F K knots) x span r + L F (spsub K) (sp_kn F K knots) x span (j - r) <> 0.
Proof.
  intros Hs Hp Hr Hj.
  exact (denom_ne0 F 0 1 (spadd K) (spmul K) (spsub K) (spdiv K) (spopp K) (spinv K) (sp_le K) Fth
           (spl_le_trans K HK) (spl_le_antisym K HK) (sp_kn F K knots) x span (sp_kn_mono knots Hs) Hp j r Hr Hj).
Qed.

Lemma sp_denoms_ok_true knots x span degree : sp_sorted knots -> sp_span_ok knots span ->
  (degree <= span)%nat -> sp_denoms_ok F K (sp_kn F K knots) x span degree = true.
Proof.
  intros Hs Hp Hd. unfold sp_denoms_ok. apply forallb_forall. intros j Hj. apply in_seq in Hj.
  apply forallb_forall. intros r Hr. apply in_seq in Hr.
  destruct (sp_eqb_spec (R F (spsub K) (sp_kn F K knots) x span r + L F (spsub K) (sp_kn F K knots) x span (j - r)) 0)
    as [E|E]; [|reflexivity].
  exfalso. revert E. apply sp_denom_ne0; try assumption; lia.
Qed.

(** no error inside the guard: the result is A2.2 *)
Theorem sp_nu_basis_funs_ok knots degree x span : sp_sorted knots -> sp_span_ok knots span ->
  (degree <= span)%nat -> (span + degree < length knots)%nat ->
  sp_nu_basis_funs F K knots degree x span = SpOk (sp_A22 F K knots degree x span).
Proof.
  intros Hs Hp Hd Hl. unfold sp_nu_basis_funs.
  destruct (Nat.leb_spec degree span); [|lia]. destruct (Nat.ltb_spec (span + degree) (length knots)); [|lia].
  cbn [andb]. rewrite sp_denoms_ok_true by assumption. reflexivity.
Qed.

Theorem sp_A22_length knots degree x span : length (sp_A22 F K knots degree x span) = S degree.
Proof.
  unfold sp_A22, basis_funs.
  assert (H : forall k j vals, length vals = S j ->
    length (basis_from F 0 (spadd K) (spmul K) (spsub K) (spdiv K) (sp_kn F K knots) x span j k vals) = S (j + k)).
  { induction k as [|k IH]; intros j vals Hl; cbn [basis_from]; [rewrite Hl; f_equal; lia|].
    rewrite IH; [f_equal; lia|]. rewrite sweep_length, Hl. reflexivity. }
  rewrite H; reflexivity.
Qed.

(** partition of unity (BasisCoxDeBoor.basis_sum_one) *)
Theorem sp_A22_sum_one knots degree x span : sp_sorted knots -> sp_span_ok knots span ->
  (degree <= span)%nat -> sumf (sp_A22 F K knots degree x span) = 1.
Proof.
  intros Hs Hp Hd.
  exact (basis_sum_one F 0 1 (spadd K) (spmul K) (spsub K) (spdiv K) (spopp K) (spinv K) (sp_le K) Fth
           (spl_le_trans K HK) (spl_le_antisym K HK) (sp_kn F K knots) x span (sp_kn_mono knots Hs) Hp degree Hd).
Qed.

(** A2.2 = Cox - de Boor on the half-open span (BasisCoxDeBoor.basis_eq_coxdeboor) *)
Theorem sp_A22_eq_coxdeboor knots degree x span : sp_sorted knots -> sp_span_ok knots span ->
  sp_kn F K knots span <= x -> ~ sp_kn F K knots (S span) <= x -> (degree <= span)%nat ->
  sp_A22 F K knots degree x span = map (fun q => sp_N knots x degree (span - degree + q)) (seq 0 (S degree)).
Proof.
  intros Hs Hp H1 H2 Hd.
  exact (basis_eq_coxdeboor F 0 1 (spadd K) (spmul K) (spsub K) (spdiv K) (spopp K) (spinv K) (sp_le K) Fth
           (spl_le_trans K HK) (spl_le_antisym K HK) (sp_kn F K knots) x span (sp_kn_mono knots Hs) Hp
           (speqb K) sp_eqb_spec (spleb K) sp_leb_spec (conj H1 H2) degree Hd).
Qed.

(** local support of the Cox - de Boor functions (BasisCoxDeBoor.N_support) *)
Theorem sp_N_support knots x k i : sp_sorted knots ->
  ~ sp_kn F K knots i <= x \/ sp_kn F K knots (i + k + 1) <= x -> sp_N knots x k i = 0.
Proof.
  intros Hs H.
  exact (N_support F 0 1 (spadd K) (spmul K) (spsub K) (spdiv K) (spopp K) (spinv K) (sp_le K) Fth
           (spl_le_trans K HK) (sp_kn F K knots) x (sp_kn_mono knots Hs) (speqb K) (spleb K) sp_leb_spec k i H).
Qed.

(** non-negativity, on the closed span t[s] <= x <= t[s+1] (includes the right end of the domain) *)
Definition sp_all_nonneg (l : list F) : Prop := Forall (fun v => 0 <= v) l.

Lemma sp_sweep_nonneg (t : nat -> F) x s j : forall vals r saved,
  (forall k, 0 <= R F (spsub K) t x s k) -> (forall k, 0 <= L F (spsub K) t x s k) ->
  (forall k, (k < length vals)%nat -> R F (spsub K) t x s (r + k) + L F (spsub K) t x s (j - (r + k)) <> 0) ->
  sp_all_nonneg vals -> 0 <= saved ->
  sp_all_nonneg (sweep F (spadd K) (spmul K) (spsub K) (spdiv K) t x s j r vals saved).
Proof.
  induction vals as [|v vs IH]; intros r saved HR HL Hnz Hv Hsv; cbn [sweep].
  - constructor; [exact Hsv|constructor].
  - inversion Hv as [|? ? Hv0 Hvs]; subst.
    assert (Hden : 0 < R F (spsub K) t x s r + L F (spsub K) t x s (j - r)).
    { split; [apply sp_add_nonneg; [apply HR|apply HL]|].
      intros E. specialize (Hnz O). rewrite !Nat.add_0_r in Hnz. apply Hnz; [cbn; lia|]. symmetry. exact E. }
    pose proof (sp_div_nonneg _ _ Hv0 Hden) as Htemp.
    constructor.
    + apply sp_add_nonneg; [exact Hsv|]. apply (spl_mul_nonneg K HK); [apply HR|exact Htemp].
    + apply IH; try assumption.
      * intros k Hk. specialize (Hnz (S k)). rewrite <- Nat.add_succ_comm in Hnz. apply Hnz. cbn. lia.
      * apply (spl_mul_nonneg K HK); [apply HL|exact Htemp].
Qed.

Theorem sp_A22_nonneg knots degree x span : sp_sorted knots -> sp_span_ok knots span ->
  sp_kn F K knots span <= x -> x <= sp_kn F K knots (S span) -> (degree <= span)%nat ->
  sp_all_nonneg (sp_A22 F K knots degree x span).
Proof.
  intros Hs Hp H1 H2 Hd. unfold sp_A22, basis_funs.
  assert (HR : forall k, 0 <= R F (spsub K) (sp_kn F K knots) x span k).
  { intros k. unfold R. apply sp_sub_nonneg. apply (spl_le_trans K HK) with (sp_kn F K knots (S span)); [exact H2|].
    apply sp_kn_mono; [exact Hs|lia]. }
  assert (HL : forall k, 0 <= L F (spsub K) (sp_kn F K knots) x span k).
  { intros k. unfold L. apply sp_sub_nonneg. apply (spl_le_trans K HK) with (sp_kn F K knots span); [|exact H1].
    apply sp_kn_mono; [exact Hs|lia]. }
  assert (H : forall k j vals, length vals = S j -> (j + k <= span)%nat -> sp_all_nonneg vals ->
    sp_all_nonneg (basis_from F 0 (spadd K) (spmul K) (spsub K) (spdiv K) (sp_kn F K knots) x span j k vals)).
  { induction k as [|k IH]; intros j vals Hl Hjk Hv; cbn [basis_from]; [exact Hv|].
    apply IH; [rewrite sweep_length, Hl; reflexivity|lia|].
    apply sp_sweep_nonneg; try assumption.
    - intros r Hr. rewrite Hl in Hr. cbn [Nat.add]. apply sp_denom_ne0; try assumption; lia.
    - apply sp_le_refl. }
  apply H; [reflexivity|lia|]. constructor; [exact sp_0_le_1|constructor].
Qed.

(* ---------------------------------------------------------------------------------------- *)
(** * nu_basis_funs_1st_der *)

Lemma sp_ders_loop_sum terms : forall saved, sumf (sp_ders_loop F K terms saved) = saved.
Proof. induction terms as [|sv rest IH]; intros saved; cbn [sp_ders_loop sumF]; [ring|]. rewrite IH. ring. Qed.

(** the derivatives of the basis sum to zero - whatever the degree-(p-1) values are: the code's
    saved/temp loop telescopes *)
Theorem sp_ders_of_terms_sum_zero terms : sumf (sp_ders_of_terms F K terms) = 0.
Proof. destruct terms as [|s0 rest]; cbn [sp_ders_of_terms sumF]; [reflexivity|]. rewrite sp_ders_loop_sum. ring. Qed.

Theorem sp_ders_sum_zero knots degree x span : sumf (sp_ders_raw F K knots degree x span) = 0.
Proof. unfold sp_ders_raw. cbv zeta. apply sp_ders_of_terms_sum_zero. Qed.

Lemma sp_der_den_ne0 knots degree span j : sp_sorted knots -> sp_span_ok knots span ->
  (j < degree)%nat -> (degree <= S span)%nat -> sp_der_den F K knots degree span j <> 0.
Proof.
  intros Hs [Hle Hne] Hj Hd E. unfold sp_der_den in E. apply Hne.
  apply (spl_le_antisym K HK); [exact Hle|].
  apply (spl_le_trans K HK) with (sp_kn F K knots (span + j + 1)); [apply sp_kn_mono; [exact Hs|lia]|].
  replace (sp_kn F K knots (span + j + 1))
    with ((sp_kn F K knots (span + j + 1) - sp_kn F K knots (span + j + 1 - degree)) + sp_kn F K knots (span + j + 1 - degree)) by ring.
  rewrite E. replace (0 + sp_kn F K knots (span + j + 1 - degree)) with (sp_kn F K knots (span + j + 1 - degree)) by ring.
  apply sp_kn_mono; [exact Hs|lia].
Qed.

Theorem sp_nu_basis_funs_1st_der_ok knots degree x span : sp_sorted knots -> sp_span_ok knots span ->
  (1 <= degree)%nat -> (degree <= span)%nat -> (span + degree < length knots)%nat ->
  sp_nu_basis_funs_1st_der F K knots degree x span = SpOk (sp_ders_raw F K knots degree x span).
Proof.
  intros Hs Hp H1 Hd Hl. unfold sp_nu_basis_funs_1st_der. destruct degree as [|d]; [lia|].
  destruct (Nat.leb_spec d span); [|lia]. destruct (Nat.ltb_spec (span + S d) (length knots)); [|lia].
  cbn [andb]. rewrite sp_denoms_ok_true by (try assumption; lia). cbn [andb].
  replace (forallb (fun j => negb (speqb K (sp_der_den F K knots (S d) span j) 0)) (seq 0 (S d))) with true; [reflexivity|].
  symmetry. apply forallb_forall. intros j Hj. apply in_seq in Hj.
  destruct (sp_eqb_spec (sp_der_den F K knots (S d) span j) 0) as [E|E]; [|reflexivity].
  exfalso. revert E. apply sp_der_den_ne0; try assumption; lia.
Qed.

(* ---------------------------------------------------------------------------------------- *)
(** * evaluation: the accumulation loops are sums *)
Notation sumr := (Sums.sumr F 0 (spadd K)).

Lemma sp_fold_sum (g : nat -> F) : forall n a init,
  fold_left (fun acc j => acc + g j) (seq a n) init = init + sumr a n g.
Proof.
  induction n as [|n IH]; intros a init; cbn [seq fold_left Sums.sumr]; [ring|]. rewrite IH. ring.
Qed.

Theorem sp_dot_loop_sum coeffs start n basis :
  sp_dot_loop F K coeffs start n basis = sumr 0 n (fun j => nth (start + j) coeffs 0 * nth j basis 0).
Proof. unfold sp_dot_loop. rewrite (sp_fold_sum (fun j => nth (start + j) coeffs 0 * nth j basis 0)). ring. Qed.

Lemma sp_nth_map_seq (f : nat -> F) d : forall n a j, (j < n)%nat -> nth j (map f (seq a n)) d = f (a + j)%nat.
Proof.
  induction n as [|n IH]; intros a j Hj; [lia|]. cbn [seq map]. destruct j as [|j]; cbn [nth].
  - f_equal. lia.
  - rewrite IH by lia. f_equal. lia.
Qed.

(** which basis array the entry points use for der = 0 / 1 *)
Definition sp_basis_of (der : nat) (knots : list F) (degree : nat) (x : F) (span : nat) : list F :=
  match der with 0%nat => sp_A22 F K knots degree x span | _ => sp_ders_raw F K knots degree x span end.

Lemma sp_nu_basis_sel_ok der knots degree x span : sp_sorted knots -> sp_span_ok knots span ->
  (der <= 1)%nat -> (der <= degree)%nat -> (degree <= span)%nat -> (span + degree < length knots)%nat ->
  sp_nu_basis_sel F K der knots degree x span = SpOk (sp_basis_of der knots degree x span).
Proof.
  intros Hs Hp H1 H2 Hd Hl. destruct der as [|[|der]]; [| |lia]; cbn [sp_nu_basis_sel sp_basis_of].
  - apply sp_nu_basis_funs_ok; assumption.
  - apply sp_nu_basis_funs_1st_der_ok; assumption.
Qed.

(** nu_eval_spline_1d_scalar: sum_j coeffs[span-p+j] * basis[j] *)
Theorem sp_nu_eval_1d_scalar_spec knots degree coeffs x der s :
  sp_sorted knots -> sp_nu_find_span F K knots degree x = SpOk s -> sp_span_ok knots s ->
  (der <= 1)%nat -> (der <= degree)%nat -> (degree <= s)%nat -> (s + degree < length knots)%nat ->
  (s < length coeffs)%nat ->
  sp_nu_eval_1d_scalar F K x knots degree coeffs der
  = SpOk (sumr 0 (S degree) (fun j => nth (s - degree + j) coeffs 0 * nth j (sp_basis_of der knots degree x s) 0)).
Proof.
  intros Hs E Hp H1 H2 Hd Hl Hc. unfold sp_nu_eval_1d_scalar. rewrite E. cbn [sp_bind].
  change (match der with 0%nat => sp_nu_basis_funs F K knots degree x s
          | 1%nat => sp_nu_basis_funs_1st_der F K knots degree x s | _ => SpArgErr end)
    with (sp_nu_basis_sel F K der knots degree x s).
  rewrite sp_nu_basis_sel_ok by assumption. cbn [sp_bind]. unfold sp_dot_checked.
  destruct (Nat.leb_spec degree s); [|lia]. destruct (Nat.ltb_spec s (length coeffs)); [|lia]. cbn [andb].
  rewrite sp_dot_loop_sum. reflexivity.
Qed.

(** the value of the spline on a half-open span is sum_j c_{s-p+j} N_{s-p+j,p}(x) *)
Theorem sp_nu_eval_1d_coxdeboor knots degree coeffs x s :
  sp_sorted knots -> sp_nu_find_span F K knots degree x = SpOk s -> sp_span_ok knots s ->
  sp_kn F K knots s <= x -> ~ sp_kn F K knots (S s) <= x ->
  (degree <= s)%nat -> (s + degree < length knots)%nat -> (s < length coeffs)%nat ->
  sp_nu_eval_1d_scalar F K x knots degree coeffs 0
  = SpOk (sumr 0 (S degree) (fun j => nth (s - degree + j) coeffs 0 * sp_N knots x degree (s - degree + j))).
Proof.
  intros Hs E Hp Hx1 Hx2 Hd Hl Hc.
  rewrite (sp_nu_eval_1d_scalar_spec knots degree coeffs x 0 s) by (try assumption; lia).
  f_equal. apply Sums.sumr_ext. intros j Hj. cbn [sp_basis_of].
  rewrite sp_A22_eq_coxdeboor by assumption.
  rewrite (sp_nth_map_seq (fun q => sp_N knots x degree (s - degree + q))) by lia. reflexivity.
Qed.

(* generic facts about the error monad *)
Lemma sp_mapM_ok {A B : Type} (f : A -> sp_res B) (g : A -> B) l :
  (forall a, In a l -> f a = SpOk (g a)) -> sp_mapM f l = SpOk (map g l).
Proof.
  induction l as [|a l IH]; intros H; cbn [sp_mapM map]; [reflexivity|].
  rewrite (H a) by (left; reflexivity). cbn [sp_bind]. rewrite IH by (intros; apply H; right; assumption).
  reflexivity.
Qed.
Lemma sp_mapM_ext {A B : Type} (f f' : A -> sp_res B) l :
  (forall a, In a l -> f a = f' a) -> sp_mapM f l = sp_mapM f' l.
Proof.
  induction l as [|a l IH]; intros H; cbn [sp_mapM]; [reflexivity|].
  rewrite (H a) by (left; reflexivity). rewrite IH by (intros; apply H; right; assumption). reflexivity.
Qed.

(** nu_eval_spline_1d_vector = the scalar entry point at every point (including which error) *)
Theorem sp_nu_eval_1d_vector_eq_map knots degree coeffs der xs : (der <= 1)%nat ->
  sp_nu_eval_1d_vector F K xs knots degree coeffs der
  = sp_mapM (fun x => sp_nu_eval_1d_scalar F K x knots degree coeffs der) xs.
Proof. intros H. destruct der as [|[|der]]; [reflexivity|reflexivity|lia]. Qed.

(** the theCoeffs accumulation is the tensor-product sum *)
Theorem sp_row_acc_sum row start2 deg2 basis2 :
  sp_row_acc F K row start2 deg2 basis2 = sumr 0 (S deg2) (fun j => nth (start2 + j) row 0 * nth j basis2 0).
Proof.
  unfold sp_row_acc. rewrite (sp_fold_sum (fun j => nth (start2 + j) row 0 * nth j basis2 0)).
  cbn [Sums.sumr]. rewrite Nat.add_0_r. reflexivity.
Qed.

Theorem sp_tensor_loop_sum coeffs start1 deg1 start2 deg2 basis1 basis2 :
  sp_tensor_loop F K coeffs start1 deg1 start2 deg2 basis1 basis2
  = sumr 0 (S deg1) (fun i => sumr 0 (S deg2) (fun j =>
      nth (start2 + j) (nth (start1 + i) coeffs []) 0 * nth j basis2 0) * nth i basis1 0).
Proof.
  unfold sp_tensor_loop.
  rewrite (sp_fold_sum (fun i => sp_row_acc F K (nth (start1 + i) coeffs []) start2 deg2 basis2 * nth i basis1 0)).
  replace (0 + sumr 0 (S deg1) (fun i => sp_row_acc F K (nth (start1 + i) coeffs []) start2 deg2 basis2 * nth i basis1 0))
    with (sumr 0 (S deg1) (fun i => sp_row_acc F K (nth (start1 + i) coeffs []) start2 deg2 basis2 * nth i basis1 0)) by ring.
  apply Sums.sumr_ext. intros i _. rewrite sp_row_acc_sum. reflexivity.
Qed.

(** nu_eval_spline_2d_scalar *)
Theorem sp_nu_eval_2d_scalar_spec k1 d1 k2 d2 coeffs x y e1 e2 s1 s2 :
  sp_sorted k1 -> sp_sorted k2 ->
  sp_nu_find_span F K k1 d1 x = SpOk s1 -> sp_nu_find_span F K k2 d2 y = SpOk s2 ->
  sp_span_ok k1 s1 -> sp_span_ok k2 s2 ->
  (e1 <= 1)%nat -> (e1 <= d1)%nat -> (e2 <= 1)%nat -> (e2 <= d2)%nat ->
  (d1 <= s1)%nat -> (s1 + d1 < length k1)%nat -> (d2 <= s2)%nat -> (s2 + d2 < length k2)%nat ->
  (s1 < length coeffs)%nat -> (forall row, In row coeffs -> (s2 < length row)%nat) ->
  sp_nu_eval_2d_scalar F K x y k1 d1 k2 d2 coeffs e1 e2
  = SpOk (sumr 0 (S d1) (fun i => sumr 0 (S d2) (fun j =>
      nth (s2 - d2 + j) (nth (s1 - d1 + i) coeffs []) 0 * nth j (sp_basis_of e2 k2 d2 y s2) 0)
      * nth i (sp_basis_of e1 k1 d1 x s1) 0)).
Proof.
  intros Hs1 Hs2 E1 E2 Hp1 Hp2 He1 He1' He2 He2' Hd1 Hl1 Hd2 Hl2 Hc1 Hc2.
  unfold sp_nu_eval_2d_scalar. rewrite E1, E2. cbn [sp_bind].
  rewrite !sp_nu_basis_sel_ok by assumption. cbn [sp_bind]. unfold sp_tensor_checked.
  destruct (Nat.leb_spec d1 s1); [|lia]. destruct (Nat.ltb_spec s1 (length coeffs)); [|lia].
  destruct (Nat.leb_spec d2 s2); [|lia]. cbn [andb].
  replace (forallb (fun row => (s2 <? length row)%nat) coeffs) with true.
  - rewrite sp_tensor_loop_sum. reflexivity.
  - symmetry. apply forallb_forall. intros row Hr. apply Nat.ltb_lt. apply Hc2, Hr.
Qed.

(** nu_eval_spline_2d_cross = the scalar entry point on the grid X x Y *)
Theorem sp_nu_eval_2d_cross_eq_grid X Y k1 d1 k2 d2 coeffs e1 e2 (f : F -> F -> F) :
  (e1 <= 1)%nat -> (e2 <= 1)%nat -> Y <> [] ->
  (forall x y, In x X -> In y Y -> sp_nu_eval_2d_scalar F K x y k1 d1 k2 d2 coeffs e1 e2 = SpOk (f x y)) ->
  sp_nu_eval_2d_cross F K X Y k1 d1 k2 d2 coeffs e1 e2 = SpOk (map (fun x => map (f x) Y) X).
Proof.
  intros He1 He2 HY H.
  assert (E : sp_nu_eval_2d_cross F K X Y k1 d1 k2 d2 coeffs e1 e2 =
    sp_mapM (fun x =>
      sp_bind (sp_nu_find_span F K k1 d1 x) (fun span1 =>
      sp_bind (sp_nu_basis_sel F K e1 k1 d1 x span1) (fun basis1 =>
      sp_mapM (fun y =>
        sp_bind (sp_nu_find_span F K k2 d2 y) (fun span2 =>
        sp_bind (sp_nu_basis_sel F K e2 k2 d2 y span2) (fun basis2 =>
        sp_tensor_checked F K coeffs span1 d1 span2 d2 basis1 basis2))) Y))) X).
  { destruct e1 as [|[|e1]]; [| |lia]; (destruct e2 as [|[|e2]]; [reflexivity|reflexivity|lia]). }
  rewrite E. apply sp_mapM_ok. intros x Hx.
  destruct Y as [|y0 Y']; [contradiction|].
  pose proof (H x y0 Hx (or_introl eq_refl)) as H0. unfold sp_nu_eval_2d_scalar in H0.
  destruct (sp_nu_find_span F K k1 d1 x) as [s1| | | |] eqn:Es1; cbn [sp_bind] in H0; try discriminate.
  cbn [sp_bind].
  destruct (sp_nu_find_span F K k2 d2 y0) as [s20| | | |]; cbn [sp_bind] in H0; try discriminate.
  destruct (sp_nu_basis_sel F K e1 k1 d1 x s1) as [b1| | | |] eqn:Eb1; cbn [sp_bind] in H0; try discriminate.
  cbn [sp_bind]. apply sp_mapM_ok. intros y Hy.
  pose proof (H x y Hx Hy) as H1. unfold sp_nu_eval_2d_scalar in H1. rewrite Es1 in H1. cbn [sp_bind] in H1.
  destruct (sp_nu_find_span F K k2 d2 y) as [s2| | | |]; cbn [sp_bind] in H1; try discriminate.
  rewrite Eb1 in H1. cbn [sp_bind] in H1. cbn [sp_bind]. exact H1.
Qed.

Lemma sp_zipM_ok {B : Type} (f : F -> F -> sp_res B) (g : F -> F -> B) : forall xs ys,
  length xs = length ys ->
  (forall x y, In (x, y) (combine xs ys) -> f x y = SpOk (g x y)) ->
  sp_zipM F f xs ys = SpOk (map (fun p => g (fst p) (snd p)) (combine xs ys)).
Proof.
  induction xs as [|x xs IH]; intros ys Hl H; cbn [sp_zipM combine map]; [reflexivity|].
  destruct ys as [|y ys]; [discriminate|]. cbn [combine map fst snd].
  rewrite (H x y) by (left; reflexivity). cbn [sp_bind].
  rewrite IH; [reflexivity|cbn in Hl; lia|]. intros; apply H; right; assumption.
Qed.

(** nu_eval_spline_2d_vector = the scalar entry point at the pairs (x[i], y[i]) *)
Theorem sp_nu_eval_2d_vector_eq_zip xs ys k1 d1 k2 d2 coeffs e1 e2 (f : F -> F -> F) :
  (e1 <= 1)%nat -> (e2 <= 1)%nat -> length xs = length ys ->
  (forall x y, In (x, y) (combine xs ys) -> sp_nu_eval_2d_scalar F K x y k1 d1 k2 d2 coeffs e1 e2 = SpOk (f x y)) ->
  sp_nu_eval_2d_vector F K xs ys k1 d1 k2 d2 coeffs e1 e2
  = SpOk (map (fun p => f (fst p) (snd p)) (combine xs ys)).
Proof.
  intros He1 He2 Hl H.
  assert (E : sp_nu_eval_2d_vector F K xs ys k1 d1 k2 d2 coeffs e1 e2 =
    sp_zipM F (fun x y => sp_nu_eval_2d_scalar F K x y k1 d1 k2 d2 coeffs e1 e2) xs ys).
  { destruct e1 as [|[|e1]]; [| |lia]; (destruct e2 as [|[|e2]]; [reflexivity|reflexivity|lia]). }
  rewrite E. apply sp_zipM_ok; assumption.
Qed.

(* ---------------------------------------------------------------------------------------- *)
(** * the uniform-cubic fast path *)
Notation tUk xmin dx := (tU F 0 1 (spadd K) (spmul K) (spsub K) xmin dx).

Lemma sp_mul_ne0 a b : a <> 0 -> b <> 0 -> a * b <> 0.
Proof. intros Ha Hb E. apply Hb. replace b with ((1 / a) * (a * b)) by (field; exact Ha). rewrite E. ring. Qed.
Lemma sp_2_ne0 : 1 + 1 <> 0.
Proof. intros E. apply (proj2 sp_two_pos). symmetry. exact E. Qed.
Lemma sp_3_ne0 : 1 + 1 + 1 <> 0.
Proof. intros E. apply (proj2 sp_three_pos). symmetry. exact E. Qed.
Lemma sp_3_ne0' : 1 + (1 + 1) <> 0.
Proof. replace (1 + (1 + 1)) with (1 + 1 + 1) by ring. exact sp_3_ne0. Qed.
(* side conditions left by [field]: products of 2, 3 and the given non-zero quantities *)
Ltac sp_nz1 := first [exact sp_2_ne0 | exact sp_3_ne0 | exact sp_3_ne0' | assumption
  | match goal with Hd : ?d <> 0 |- ?e <> 0 =>
      let E := fresh "E" in
      first [ (intros E; apply Hd; rewrite <- E; ring)
            | (intros E; apply (sp_mul_ne0 _ _ sp_2_ne0 Hd); rewrite <- E; ring)
            | (intros E; apply (sp_mul_ne0 _ _ sp_3_ne0 Hd); rewrite <- E; ring) ] end ].
Ltac sp_nz := fold (sp1 K) (sp0 K) (spadd K) (spmul K) (spsub K);
  repeat split; repeat (apply sp_mul_ne0); sp_nz1.

(** cu_basis_funs sums to one for every offset *)
Theorem sp_cu_basis_sum_one o : sumf (sp_cu_basis_funs F K o) = 1.
Proof.
  unfold sp_cu_basis_funs, cu_basis. cbn [sumF]. unfold six, three, two. field. sp_nz.
Qed.

(** cu_basis_funs_1st_der sums to zero for every offset *)
Theorem sp_cu_ders_sum_zero o dx : dx <> 0 -> sumf (sp_cu_basis_funs_1st_der F K o dx) = 0.
Proof.
  intros Hdx. unfold sp_cu_basis_funs_1st_der. cbv zeta. cbn [sumF]. unfold sp_half, sp_three, sp_two.
  field. sp_nz.
Qed.

Lemma sp_uniform_knots_length xmin dx n : length (sp_uniform_knots F K xmin dx n) = (n + 7)%nat.
Proof. unfold sp_uniform_knots. rewrite map_length, seq_length. reflexivity. Qed.

Lemma sp_kn_uniform xmin dx n i : (i < n + 7)%nat -> sp_kn F K (sp_uniform_knots F K xmin dx n) i = tUk xmin dx i.
Proof. intros H. unfold sp_kn, sp_uniform_knots. rewrite (sp_nth_map_seq (tUk xmin dx)) by exact H. reflexivity. Qed.

(** values: on the uniform extension knot vector, A2.2 at x = t_s + o*dx is the closed form
    (CubicUniform.cu_eq_general) *)
Theorem sp_cu_basis_eq_A22 xmin dx n s o : dx <> 0 -> (3 <= s)%nat -> (s + 3 < n + 7)%nat ->
  sp_A22 F K (sp_uniform_knots F K xmin dx n) 3 (tUk xmin dx s + o * dx) s = sp_cu_basis_funs F K o.
Proof.
  intros Hdx H3 Hn. unfold sp_cu_basis_funs.
  rewrite <- (cu_eq_general F 0 1 (spadd K) (spmul K) (spsub K) (spdiv K) (spopp K) (spinv K) Fth
                sp_two_ne0 sp_three_ne0 xmin dx Hdx s o H3).
  unfold sp_A22, basis_funs. cbn [basis_from sweep]. unfold L, R.
  rewrite !sp_kn_uniform by lia. reflexivity.
Qed.

(** derivatives: on the uniform extension knot vector, nu_basis_funs_1st_der at x = t_s + o*dx is
    cu_basis_funs_1st_der *)
Lemma sp_L_uniform xmin dx n s o k : (k <= s)%nat -> (s < n + 7)%nat ->
  L F (spsub K) (sp_kn F K (sp_uniform_knots F K xmin dx n)) (tUk xmin dx s + o * dx) s k
  = (o + ofnat F 0 1 (spadd K) k) * dx.
Proof.
  intros Hk Hs. rewrite <- (L_uniform F 0 1 (spadd K) (spmul K) (spsub K) (spdiv K) (spopp K) (spinv K) Fth xmin dx s o k Hk).
  unfold L. rewrite sp_kn_uniform by lia. reflexivity.
Qed.
Lemma sp_R_uniform xmin dx n s o k : (s + 1 + k < n + 7)%nat ->
  R F (spsub K) (sp_kn F K (sp_uniform_knots F K xmin dx n)) (tUk xmin dx s + o * dx) s k
  = (1 - o + ofnat F 0 1 (spadd K) k) * dx.
Proof.
  intros Hs. rewrite <- (R_uniform F 0 1 (spadd K) (spmul K) (spsub K) (spdiv K) (spopp K) (spinv K) Fth xmin dx s o k).
  unfold R. rewrite sp_kn_uniform by lia. reflexivity.
Qed.
Lemma sp_der_den_uniform xmin dx n s j : (3 <= s)%nat -> (s + j + 1 < n + 7)%nat ->
  sp_der_den F K (sp_uniform_knots F K xmin dx n) 3 s j = (1 + 1 + 1) * dx.
Proof.
  intros H3 Hn. unfold sp_der_den. rewrite !sp_kn_uniform by lia. unfold tU.
  replace (s + j + 1)%nat with ((s + j + 1 - 3) + 3)%nat at 1 by lia.
  rewrite (ofnat_add F 0 1 (spadd K) (spmul K) (spsub K) (spdiv K) (spopp K) (spinv K) Fth). cbn [ofnat].
  unfold three, two. ring.
Qed.

Theorem sp_cu_ders_eq_nu xmin dx n s o : dx <> 0 -> (3 <= s)%nat -> (s + 3 < n + 7)%nat ->
  sp_ders_raw F K (sp_uniform_knots F K xmin dx n) 3 (tUk xmin dx s + o * dx) s
  = sp_cu_basis_funs_1st_der F K o dx.
Proof.
  intros Hdx H3 Hn. unfold sp_ders_raw, sp_A22, basis_funs. cbv zeta.
  cbn [Nat.sub basis_from sweep seq map sp_ders_of_terms sp_ders_loop].
  unfold sp_der_term. rewrite !sp_der_den_uniform by lia. cbn [nth Nat.sub].
  rewrite !sp_L_uniform by lia. rewrite !sp_R_uniform by lia.
  unfold sp_cu_basis_funs_1st_der, sp_ofnat, sp_half, sp_three, sp_two. cbn [ofnat]. cbv zeta.
  f_equal; [field; sp_nz|]. f_equal; [field; sp_nz|]. f_equal; [field; sp_nz|]. f_equal. field; sp_nz.
Qed.

(* ---------------------------------------------------------------------------------------- *)
(** * the 1-D entry point on the closed domain: never an error, value = local sum *)
Theorem sp_nu_eval_1d_domain knots degree coeffs x der :
  sp_sorted knots -> (2 * degree + 1 < length knots)%nat ->
  sp_kn F K knots degree < sp_kn F K knots (S degree) ->
  sp_kn F K knots (length knots - degree - 2) < sp_kn F K knots (length knots - 1 - degree) ->
  sp_kn F K knots degree <= x -> x <= sp_kn F K knots (length knots - 1 - degree) ->
  length coeffs = (length knots - degree - 1)%nat -> (der <= 1)%nat -> (der <= degree)%nat ->
  exists s, sp_nu_find_span F K knots degree x = SpOk s /\
    (degree <= s <= length knots - degree - 2)%nat /\
    sp_kn F K knots s < sp_kn F K knots (S s) /\ sp_kn F K knots s <= x /\ x <= sp_kn F K knots (S s) /\
    sp_nu_eval_1d_scalar F K x knots degree coeffs der
    = SpOk (sumr 0 (S degree) (fun j => nth (s - degree + j) coeffs 0 * nth j (sp_basis_of der knots degree x s) 0)).
Proof.
  intros Hs Hlen Hfirst Hlast Hlo Hhi Hc H1 H2.
  destruct (sp_nu_find_span_domain knots degree x Hs Hlen Hfirst Hlast Hlo Hhi) as [s [E [Hr [Hp [Hx1 [Hx2 _]]]]]].
  exists s. repeat (split; [assumption|]).
  apply sp_nu_eval_1d_scalar_spec; try assumption; lia.
Qed.

(** the uniform-cubic entry points: vector = scalar at every point *)
Theorem sp_cu_eval_1d_vector_eq_map knots degree coeffs der xs : (der <= 1)%nat ->
  (exists xmin xmax dx fn rest, knots = xmin :: xmax :: dx :: fn :: rest) ->
  sp_cu_eval_1d_vector F K xs knots degree coeffs der
  = sp_mapM (fun x => sp_cu_eval_1d_scalar F K x knots degree coeffs der) xs.
Proof.
  intros H [xmin [xmax [dx [fn [rest ->]]]]]. unfold sp_cu_eval_1d_vector, sp_cu_eval_1d_scalar.
  cbn [sp_cu_unpack sp_bind]. destruct der as [|[|der]]; [reflexivity|reflexivity|lia].
Qed.

(** cu_eval_spline_1d_scalar: sum_j coeffs[span-3+j] * basis[j] with (span, offset) of cu_find_span *)
Theorem sp_cu_eval_1d_scalar_spec xmin xmax dx fn rest coeffs x der span offset :
  sp_cu_find_span F K xmin xmax dx x (sptrunc K fn) = SpOk (span, offset) ->
  (der <= 1)%nat -> (3 <= span)%Z -> (Z.to_nat span < length coeffs)%nat ->
  sp_cu_eval_1d_scalar F K x (xmin :: xmax :: dx :: fn :: rest) 3 coeffs der
  = SpOk (sumr 0 4 (fun j => nth (Z.to_nat span - 3 + j) coeffs 0
        * nth j (match der with 0%nat => sp_cu_basis_funs F K offset
                              | _ => sp_cu_basis_funs_1st_der F K offset dx end) 0)).
Proof.
  intros E H1 H3 Hc. unfold sp_cu_eval_1d_scalar. cbn [sp_cu_unpack sp_bind]. unfold sp_cu_point.
  rewrite E. cbn [sp_bind fst snd].
  assert (Eb : sp_cu_basis_sel F K der offset dx = SpOk (match der with 0%nat => sp_cu_basis_funs F K offset
                              | _ => sp_cu_basis_funs_1st_der F K offset dx end)).
  { destruct der as [|[|der]]; [reflexivity|reflexivity|lia]. }
  rewrite Eb. cbn [sp_bind]. unfold sp_span_nat. destruct (Z.leb_spec 3 span); [|lia]. cbn [sp_bind].
  unfold sp_dot_checked. destruct (Nat.leb_spec 3 (Z.to_nat span)); [|lia].
  destruct (Nat.ltb_spec (Z.to_nat span) (length coeffs)); [|lia]. cbn [andb].
  rewrite sp_dot_loop_sum. reflexivity.
Qed.

(** cu_eval_spline_2d_cross = the scalar entry point on the grid X x Y *)
Theorem sp_cu_eval_2d_cross_eq_grid X Y k1 d1 k2 d2 coeffs e1 e2 u1 u2 (f : F -> F -> F) :
  sp_cu_unpack F K k1 = SpOk u1 -> sp_cu_unpack F K k2 = SpOk u2 ->
  (e1 <= 1)%nat -> (e2 <= 1)%nat -> Y <> [] ->
  (forall x y, In x X -> In y Y -> sp_cu_eval_2d_scalar F K x y k1 d1 k2 d2 coeffs e1 e2 = SpOk (f x y)) ->
  sp_cu_eval_2d_cross F K X Y k1 d1 k2 d2 coeffs e1 e2 = SpOk (map (fun x => map (f x) Y) X).
Proof.
  intros U1 U2 He1 He2 HY H. unfold sp_cu_eval_2d_cross. unfold sp_cu_eval_2d_scalar in H.
  rewrite U1, U2 in *. cbn [sp_bind] in *.
  destruct u1 as [[[xmin xmax] dx] ncx]. destruct u2 as [[[ymin ymax] dy] ncy].
  assert (E : match e1 with
    | 0%nat => match e2 with 0%nat | 1%nat => sp_mapM (fun x =>
        sp_bind (sp_cu_find_span F K xmin xmax dx x ncx) (fun so1 =>
        sp_bind (sp_cu_basis_sel F K e1 (snd so1) dx) (fun basis1 =>
        sp_mapM (fun y => sp_bind (sp_cu_find_span F K ymin ymax dy y ncy) (fun so2 =>
          sp_bind (sp_cu_basis_sel F K e2 (snd so2) dy) (fun basis2 =>
          sp_cu_tensor F K coeffs (fst so1) d1 (fst so2) d2 basis1 basis2))) Y))) X | _ => SpArgErr end
    | 1%nat => match e2 with 0%nat | 1%nat => sp_mapM (fun x =>
        sp_bind (sp_cu_find_span F K xmin xmax dx x ncx) (fun so1 =>
        sp_bind (sp_cu_basis_sel F K e1 (snd so1) dx) (fun basis1 =>
        sp_mapM (fun y => sp_bind (sp_cu_find_span F K ymin ymax dy y ncy) (fun so2 =>
          sp_bind (sp_cu_basis_sel F K e2 (snd so2) dy) (fun basis2 =>
          sp_cu_tensor F K coeffs (fst so1) d1 (fst so2) d2 basis1 basis2))) Y))) X | _ => SpArgErr end
    | _ => SpArgErr end =
    sp_mapM (fun x =>
        sp_bind (sp_cu_find_span F K xmin xmax dx x ncx) (fun so1 =>
        sp_bind (sp_cu_basis_sel F K e1 (snd so1) dx) (fun basis1 =>
        sp_mapM (fun y => sp_bind (sp_cu_find_span F K ymin ymax dy y ncy) (fun so2 =>
          sp_bind (sp_cu_basis_sel F K e2 (snd so2) dy) (fun basis2 =>
          sp_cu_tensor F K coeffs (fst so1) d1 (fst so2) d2 basis1 basis2))) Y))) X).
  { destruct e1 as [|[|e1]]; [| |lia]; (destruct e2 as [|[|e2]]; [reflexivity|reflexivity|lia]). }
  rewrite E. clear E. apply sp_mapM_ok. intros x Hx.
  destruct Y as [|y0 Y']; [contradiction|].
  pose proof (H x y0 Hx (or_introl eq_refl)) as H0.
  destruct (sp_cu_find_span F K xmin xmax dx x ncx) as [so1| | | |] eqn:Es1; cbn [sp_bind] in H0; try discriminate.
  cbn [sp_bind].
  destruct (sp_cu_find_span F K ymin ymax dy y0 ncy) as [so20| | | |]; cbn [sp_bind] in H0; try discriminate.
  destruct (sp_cu_basis_sel F K e1 (snd so1) dx) as [b1| | | |] eqn:Eb1; cbn [sp_bind] in H0; try discriminate.
  cbn [sp_bind]. apply sp_mapM_ok. intros y Hy.
  pose proof (H x y Hx Hy) as H1. rewrite Es1 in H1. cbn [sp_bind] in H1.
  destruct (sp_cu_find_span F K ymin ymax dy y ncy) as [so2| | | |]; cbn [sp_bind] in H1; try discriminate.
  rewrite Eb1 in H1. cbn [sp_bind] in H1. cbn [sp_bind]. exact H1.
Qed.

(** cu_eval_spline_2d_vector = the scalar entry point at the pairs (x[i], y[i]) *)
Theorem sp_cu_eval_2d_vector_eq_zip xs ys k1 d1 k2 d2 coeffs e1 e2 u1 u2 (f : F -> F -> F) :
  sp_cu_unpack F K k1 = SpOk u1 -> sp_cu_unpack F K k2 = SpOk u2 ->
  (e1 <= 1)%nat -> (e2 <= 1)%nat -> length xs = length ys ->
  (forall x y, In (x, y) (combine xs ys) -> sp_cu_eval_2d_scalar F K x y k1 d1 k2 d2 coeffs e1 e2 = SpOk (f x y)) ->
  sp_cu_eval_2d_vector F K xs ys k1 d1 k2 d2 coeffs e1 e2
  = SpOk (map (fun p => f (fst p) (snd p)) (combine xs ys)).
Proof.
  intros U1 U2 He1 He2 Hl H. unfold sp_cu_eval_2d_vector. unfold sp_cu_eval_2d_scalar in H.
  rewrite U1, U2 in *. cbn [sp_bind] in *.
  destruct u1 as [[[xmin xmax] dx] ncx]. destruct u2 as [[[ymin ymax] dy] ncy].
  destruct e1 as [|[|e1]]; [| |lia]; (destruct e2 as [|[|e2]]; [| |lia]); apply sp_zipM_ok; assumption.
Qed.

(** cu_eval_spline_2d_scalar: the tensor-product sum with the spans/offsets of cu_find_span *)
Theorem sp_cu_eval_2d_scalar_spec k1 k2 coeffs x y e1 e2 xmin xmax dx ncx ymin ymax dy ncy s1 o1 s2 o2 :
  sp_cu_unpack F K k1 = SpOk (xmin, xmax, dx, ncx) -> sp_cu_unpack F K k2 = SpOk (ymin, ymax, dy, ncy) ->
  sp_cu_find_span F K xmin xmax dx x ncx = SpOk (s1, o1) ->
  sp_cu_find_span F K ymin ymax dy y ncy = SpOk (s2, o2) ->
  (e1 <= 1)%nat -> (e2 <= 1)%nat -> (3 <= s1)%Z -> (3 <= s2)%Z ->
  (Z.to_nat s1 < length coeffs)%nat -> (forall row, In row coeffs -> (Z.to_nat s2 < length row)%nat) ->
  sp_cu_eval_2d_scalar F K x y k1 3 k2 3 coeffs e1 e2
  = SpOk (sumr 0 4 (fun i => sumr 0 4 (fun j =>
      nth (Z.to_nat s2 - 3 + j) (nth (Z.to_nat s1 - 3 + i) coeffs []) 0
      * nth j (match e2 with 0%nat => sp_cu_basis_funs F K o2 | _ => sp_cu_basis_funs_1st_der F K o2 dy end) 0)
      * nth i (match e1 with 0%nat => sp_cu_basis_funs F K o1 | _ => sp_cu_basis_funs_1st_der F K o1 dx end) 0)).
Proof.
  intros U1 U2 E1 E2 He1 He2 H1 H2 Hc1 Hc2. unfold sp_cu_eval_2d_scalar. rewrite U1, U2. cbn [sp_bind].
  rewrite E1, E2. cbn [sp_bind fst snd].
  assert (Eb : forall e o d, (e <= 1)%nat -> sp_cu_basis_sel F K e o d
     = SpOk (match e with 0%nat => sp_cu_basis_funs F K o | _ => sp_cu_basis_funs_1st_der F K o d end)).
  { intros e o d He. destruct e as [|[|e]]; [reflexivity|reflexivity|lia]. }
  rewrite !Eb by assumption. cbn [sp_bind]. unfold sp_cu_tensor. cbn [Nat.eqb andb]. unfold sp_span_nat.
  destruct (Z.leb_spec 3 s1); [|lia]. destruct (Z.leb_spec 3 s2); [|lia]. cbn [sp_bind].
  unfold sp_tensor_checked.
  destruct (Nat.leb_spec 3 (Z.to_nat s1)); [|lia]. destruct (Nat.ltb_spec (Z.to_nat s1) (length coeffs)); [|lia].
  destruct (Nat.leb_spec 3 (Z.to_nat s2)); [|lia]. cbn [andb].
  replace (forallb (fun row => (Z.to_nat s2 <? length row)%nat) coeffs) with true.
  - rewrite sp_tensor_loop_sum. reflexivity.
  - symmetry. apply forallb_forall. intros row Hr. apply Nat.ltb_lt. apply Hc2, Hr.
Qed.

(* ---------------------------------------------------------------------------------------- *)
(** * the B-spline on the closed domain (right end point included) *)

(** degree-0 functions: indicators of the half-open knot intervals; at the right end point
    x = knots[hi] of the domain the value is taken from the left (last interval closed) *)
Definition sp_ind (knots : list F) (hi : nat) (x : F) (i : nat) : F :=
  if speqb K x (sp_kn F K knots hi) then (if (S i =? hi)%nat then 1 else 0)
  else if inhalf F (sp_kn F K knots) x (spleb K) i then 1 else 0.

(** the Cox - de Boor recursion above them *)
Definition sp_Nc (knots : list F) (hi : nat) (x : F) (k i : nat) : F :=
  Ng F 0 (spadd K) (spmul K) (spsub K) (spdiv K) (sp_kn F K knots) x (speqb K) (sp_ind knots hi x) k i.

(** away from the right end point it is the Cox - de Boor recursion of BasisCoxDeBoor.v *)
Theorem sp_Nc_eq_N knots hi x k i : x <> sp_kn F K knots hi -> sp_Nc knots hi x k i = sp_N knots x k i.
Proof.
  intros Hx. unfold sp_Nc, sp_N. rewrite N_is_Ng. apply Ng_ext. intros j. unfold sp_ind.
  destruct (sp_eqb_spec x (sp_kn F K knots hi)); [contradiction|reflexivity].
Qed.

Lemma sp_ind_delta knots hi x s : sp_sorted knots -> sp_span_ok knots s ->
  sp_kn F K knots s <= x -> x <= sp_kn F K knots (S s) -> (S s <= hi)%nat ->
  (sp_kn F K knots (S s) <= x -> S s = hi) ->
  forall i, sp_ind knots hi x i = delta F 0 1 s i.
Proof.
  intros Hs Hp H1 H2 Hhi Hr i. unfold sp_ind, delta.
  destruct (sp_eqb_spec x (sp_kn F K knots hi)) as [E|E].
  - assert (S s = hi). { apply Hr. rewrite E. apply sp_kn_mono; [exact Hs|exact Hhi]. }
    destruct (Nat.eqb_spec (S i) hi), (Nat.eqb_spec i s); try reflexivity; lia.
  - assert (Hopen : ~ sp_kn F K knots (S s) <= x).
    { intros H. apply E. rewrite <- (Hr H). apply (spl_le_antisym K HK); assumption. }
    unfold inhalf. destruct (Nat.eqb_spec i s) as [->|Hne].
    + destruct (sp_leb_spec (sp_kn F K knots s) x); [|contradiction].
      destruct (sp_leb_spec (sp_kn F K knots (S s)) x); [contradiction|reflexivity].
    + destruct (Nat.lt_ge_cases i s) as [Hlt|Hge].
      * destruct (sp_leb_spec (sp_kn F K knots (S i)) x) as [_|Hn].
        -- rewrite andb_false_r. reflexivity.
        -- exfalso. apply Hn. apply (spl_le_trans K HK) with (sp_kn F K knots s); [|exact H1].
           apply sp_kn_mono; [exact Hs|lia].
      * destruct (sp_leb_spec (sp_kn F K knots i) x) as [Hy|_]; [|reflexivity].
        exfalso. apply Hopen. apply (spl_le_trans K HK) with (sp_kn F K knots i); [|exact Hy].
        apply sp_kn_mono; [exact Hs|lia].
Qed.

(** A2.2 on the span that contains x (closed at the right only at the end of the domain) returns
    the B-splines of the closed domain: for EVERY x of the closed span *)
Theorem sp_A22_eq_closed knots degree hi x s : sp_sorted knots -> sp_span_ok knots s ->
  sp_kn F K knots s <= x -> x <= sp_kn F K knots (S s) -> (S s <= hi)%nat ->
  (sp_kn F K knots (S s) <= x -> S s = hi) -> (degree <= s)%nat ->
  sp_A22 F K knots degree x s = map (fun q => sp_Nc knots hi x degree (s - degree + q)) (seq 0 (S degree)).
Proof.
  intros Hs Hp H1 H2 Hhi Hr Hd. unfold sp_A22.
  rewrite (basis_eq_delta F 0 1 (spadd K) (spmul K) (spsub K) (spdiv K) (spopp K) (spinv K) (sp_le K) Fth
             (spl_le_trans K HK) (spl_le_antisym K HK) (sp_kn F K knots) x (speqb K) sp_eqb_spec s
             (sp_kn_mono knots Hs) Hp degree Hd).
  apply map_ext. intros q. unfold sp_Nc. apply Ng_ext. intros i. symmetry.
  apply sp_ind_delta; assumption.
Qed.

(** headline: everywhere in the closed domain [knots[p], knots[len-1-p]] - at every knot and at both
    end points - nu_eval_spline_1d_scalar returns sum_j c_{s-p+j} N_{s-p+j,p}(x), the B-spline series
    (all other B-splines vanish at x) *)
Theorem sp_nu_eval_1d_closed knots degree coeffs x :
  sp_sorted knots -> (2 * degree + 1 < length knots)%nat ->
  sp_kn F K knots degree < sp_kn F K knots (S degree) ->
  sp_kn F K knots (length knots - degree - 2) < sp_kn F K knots (length knots - 1 - degree) ->
  sp_kn F K knots degree <= x -> x <= sp_kn F K knots (length knots - 1 - degree) ->
  length coeffs = (length knots - degree - 1)%nat ->
  exists s, sp_nu_find_span F K knots degree x = SpOk s /\
    (degree <= s <= length knots - degree - 2)%nat /\
    sp_nu_eval_1d_scalar F K x knots degree coeffs 0
    = SpOk (sumr 0 (S degree) (fun j => nth (s - degree + j) coeffs 0
              * sp_Nc knots (length knots - 1 - degree) x degree (s - degree + j))).
Proof.
  intros Hs Hlen Hfirst Hlast Hlo Hhi Hc.
  destruct (sp_nu_find_span_domain knots degree x Hs Hlen Hfirst Hlast Hlo Hhi) as [s [E [Hr [Hp [Hx1 [Hx2 Hend]]]]]].
  exists s. split; [exact E|]. split; [exact Hr|].
  rewrite (sp_nu_eval_1d_scalar_spec knots degree coeffs x 0 s) by (try assumption; lia).
  f_equal. apply Sums.sumr_ext. intros j Hj. cbn [sp_basis_of].
  rewrite (sp_A22_eq_closed knots degree (length knots - 1 - degree) x s) by (try assumption; try lia; intros H; rewrite (Hend H); lia).
  rewrite (sp_nth_map_seq (fun q => sp_Nc knots (length knots - 1 - degree) x degree (s - degree + q))) by lia.
  reflexivity.
Qed.

(** the derivative routine: ders[j] = p*N_{i,p-1}/(t_{i+p}-t_i) - p*N_{i+1,p-1}/(t_{i+p+1}-t_{i+1}),
    i = s-p+j, where the first term is absent for j = 0 and the second for j = p (these B-splines of
    degree p-1 vanish on the span).  This is the standard derivative formula of a B-spline; that the
    formula is d/dx is the classical identity, not proved here. *)
Lemma sp_ders_loop_nth : forall rest saved j, (j <= length rest)%nat ->
  nth j (sp_ders_loop F K rest saved) 0 = (match j with 0%nat => saved | S j' => nth j' rest 0 end) - nth j rest 0.
Proof.
  induction rest as [|sv r IH]; intros saved j Hj; cbn [sp_ders_loop].
  - cbn in Hj. replace j with 0%nat by lia. cbn [nth]. ring.
  - destruct j as [|j']; cbn [nth]; [reflexivity|]. rewrite IH by (cbn in Hj; lia).
    destruct j'; reflexivity.
Qed.

Definition sp_der_T (knots : list F) (hi degree : nat) (x : F) (s j : nat) : F :=
  sp_ofnat F K degree * sp_Nc knots hi x (degree - 1) (s - (degree - 1) + j) / sp_der_den F K knots degree s j.

Theorem sp_ders_formula knots degree hi x s j : sp_sorted knots -> sp_span_ok knots s ->
  sp_kn F K knots s <= x -> x <= sp_kn F K knots (S s) -> (S s <= hi)%nat ->
  (sp_kn F K knots (S s) <= x -> S s = hi) -> (1 <= degree)%nat -> (degree <= S s)%nat -> (j <= degree)%nat ->
  nth j (sp_ders_raw F K knots degree x s) 0
  = (if (j =? 0)%nat then 0 else sp_der_T knots hi degree x s (j - 1))
    - (if (j =? degree)%nat then 0 else sp_der_T knots hi degree x s j).
Proof.
  intros Hs Hp H1 H2 Hhi Hr Hd1 Hd Hj. unfold sp_ders_raw. cbv zeta.
  rewrite (sp_A22_eq_closed knots (degree - 1) hi x s) by (try assumption; lia).
  set (vals := map (fun q => sp_Nc knots hi x (degree - 1) (s - (degree - 1) + q)) (seq 0 (S (degree - 1)))).
  assert (HT : forall q, (q < degree)%nat ->
     nth q (map (sp_der_term F K knots degree s vals) (seq 0 degree)) 0 = sp_der_T knots hi degree x s q).
  { intros q Hq. rewrite (sp_nth_map_seq (sp_der_term F K knots degree s vals)) by exact Hq.
    unfold sp_der_term, sp_der_T, vals. cbn [Nat.add].
    rewrite (sp_nth_map_seq (fun q0 => sp_Nc knots hi x (degree - 1) (s - (degree - 1) + q0))) by lia.
    reflexivity. }
  destruct degree as [|d]; [lia|]. cbn [seq map sp_ders_of_terms].
  destruct j as [|j']; cbn [nth Nat.eqb].
  - rewrite <- (HT 0%nat) by lia. cbn [seq map nth]. ring.
  - rewrite sp_ders_loop_nth by (rewrite map_length, seq_length; lia).
    assert (E1 : (match j' with 0%nat => sp_der_term F K knots (S d) s vals 0
                  | S j'' => nth j'' (map (sp_der_term F K knots (S d) s vals) (seq 1 d)) 0 end)
                 = sp_der_T knots hi (S d) x s j').
    { rewrite <- (HT j') by lia. cbn [seq map]. destruct j'; reflexivity. }
    rewrite E1. replace (S j' - 1)%nat with j' by lia. f_equal.
    destruct (Nat.eqb_spec j' d) as [->|Hne].
    + apply nth_overflow. rewrite map_length, seq_length. lia.
    + rewrite <- (HT (S j')) by lia. cbn [seq map nth]. reflexivity.
Qed.
(* ---------------------------------------------------------------------------------------- *)
(** * cu_find_span: int() truncation and the span == ncells branch *)

(** what is assumed of [sptrunc] (Python int() on a non-negative float): floor *)
Definition sp_trunc_ok : Prop := forall v, 0 <= v ->
  (0 <= sptrunc K v)%Z /\ sp_ofZ F K (sptrunc K v) <= v /\ v < sp_ofZ F K (sptrunc K v) + 1.

Notation ofn := (sp_ofnat F K).
Lemma sp_ofnat_add a b : ofn (a + b) = ofn a + ofn b.
Proof. unfold sp_ofnat. apply (ofnat_add F 0 1 (spadd K) (spmul K) (spsub K) (spdiv K) (spopp K) (spinv K) Fth). Qed.
Lemma sp_ofnat_S a : ofn (S a) = ofn a + 1.
Proof. reflexivity. Qed.
Lemma sp_ofpos_ofnat p : sp_ofpos F K p = ofn (Pos.to_nat p).
Proof.
  induction p as [p IH|p IH|]; cbn [sp_ofpos].
  - rewrite Pos2Nat.inj_xI, sp_ofnat_S. replace (2 * Pos.to_nat p)%nat with (Pos.to_nat p + Pos.to_nat p)%nat by lia.
    rewrite sp_ofnat_add, IH. ring.
  - rewrite Pos2Nat.inj_xO. replace (2 * Pos.to_nat p)%nat with (Pos.to_nat p + Pos.to_nat p)%nat by lia.
    rewrite sp_ofnat_add, IH. ring.
  - rewrite Pos2Nat.inj_1. cbn. unfold sp_ofnat. cbn [ofnat]. ring.
Qed.
Lemma sp_ofZ_ofnat z : (0 <= z)%Z -> sp_ofZ F K z = ofn (Z.to_nat z).
Proof. intros H. destruct z as [|p|p]; cbn [sp_ofZ Z.to_nat]; [reflexivity|apply sp_ofpos_ofnat|lia]. Qed.
Lemma sp_ofnat_nonneg n : 0 <= ofn n.
Proof. induction n as [|n IH]; [apply sp_le_refl|]. rewrite sp_ofnat_S. apply sp_add_nonneg; [exact IH|exact sp_0_le_1]. Qed.
Lemma sp_le_add_r a b : 0 <= b -> a <= a + b.
Proof. intros H. replace a with (0 + a) at 1 by ring. replace (a + b) with (b + a) by ring. apply (spl_add_le K HK), H. Qed.
Lemma sp_ofnat_mono a b : (a <= b)%nat -> ofn a <= ofn b.
Proof. intros H. replace b with (a + (b - a))%nat by lia. rewrite sp_ofnat_add. apply sp_le_add_r, sp_ofnat_nonneg. Qed.
Lemma sp_lt_irrefl_le a b : a < b -> b <= a -> False.
Proof. intros [H1 Hne] H2. apply Hne. apply (spl_le_antisym K HK); assumption. Qed.
Lemma sp_mul_le_r a b c : a <= b -> 0 <= c -> a * c <= b * c.
Proof. intros H Hc. apply sp_nonneg_sub. replace (b * c - a * c) with ((b - a) * c) by ring.
  apply (spl_mul_nonneg K HK); [apply sp_sub_nonneg, H|exact Hc]. Qed.
Lemma sp_ofnat_inj_le a b : ofn a <= ofn b -> (a <= b)%nat.
Proof.
  intros H. destruct (Nat.le_gt_cases a b) as [Hle|Hgt]; [exact Hle|]. exfalso.
  apply (sp_lt_irrefl_le (ofn b) (ofn b + 1)).
  - split; [apply sp_le_add_r, sp_0_le_1|]. intros E. apply sp_1_neq_0.
    replace 1 with ((ofn b + 1) - ofn b) by ring. rewrite <- E. ring.
  - apply (spl_le_trans K HK) with (ofn a); [|exact H]. rewrite <- sp_ofnat_S. apply sp_ofnat_mono. lia.
Qed.

Theorem sp_cu_find_span_spec xmin xmax dx x n : sp_trunc_ok -> (1 <= n)%nat -> 0 < dx ->
  xmax = xmin + ofn n * dx -> xmin <= x -> x <= xmax ->
  exists s o, sp_cu_find_span F K xmin xmax dx x (Z.of_nat n) = SpOk (Z.of_nat s, o) /\
    (3 <= s <= n + 2)%nat /\ x = tUk xmin dx s + o * dx /\ 0 <= o /\ o <= 1 /\ (o = 1 -> s = (n + 2)%nat).
Proof.
  intros Htr Hn1 Hdx Hmax Hlo Hhi. destruct Hdx as [Hdx0 Hdxne].
  assert (Hdx : dx <> 0) by (intros E; apply Hdxne; symmetry; exact E).
  unfold sp_cu_find_span. destruct (sp_eqb_spec dx 0) as [E|_]; [contradiction|]. cbv zeta.
  set (v := (x - xmin) / dx).
  assert (Hinv : 0 <= 1 / dx) by (apply sp_inv_nonneg; split; assumption).
  assert (Hv0 : 0 <= v).
  { unfold v. apply sp_div_nonneg; [apply sp_sub_nonneg, Hlo|split; assumption]. }
  assert (Hvn : v <= ofn n).
  { unfold v. replace ((x - xmin) / dx) with ((x - xmin) * (1 / dx)) by (field; exact Hdx).
    replace (ofn n) with ((ofn n * dx) * (1 / dx)) by (field; exact Hdx).
    apply sp_mul_le_r; [|exact Hinv]. apply sp_nonneg_sub.
    replace (ofn n * dx - (x - xmin)) with (xmin + ofn n * dx - x) by ring. rewrite <- Hmax.
    apply sp_sub_nonneg, Hhi. }
  destruct (Htr v Hv0) as [Hk0 [Hk1 Hk2]]. set (k := sptrunc K v) in *.
  rewrite (sp_ofZ_ofnat k Hk0) in *.
  assert (Hkn : (Z.to_nat k <= n)%nat).
  { apply sp_ofnat_inj_le. apply (spl_le_trans K HK) with v; assumption. }
  assert (Hx : x = xmin + v * dx) by (unfold v; field; exact Hdx).
  destruct (Z.eqb_spec k (Z.of_nat n)) as [Ek|Nk].
  - (* right end point *)
    exists (n + 2)%nat, 1. cbv iota. split; [f_equal; f_equal; lia|]. split; [lia|].
    assert (Ev : v = ofn n).
    { apply (spl_le_antisym K HK); [exact Hvn|]. replace n with (Z.to_nat k) by lia. exact Hk1. }
    split.
    + rewrite Hx, Ev. unfold tU. fold (sp_ofnat F K (n + 2)). rewrite sp_ofnat_add.
      unfold sp_ofnat. cbn [ofnat]. unfold three, two. ring.
    + split; [exact sp_0_le_1|]. split; [apply sp_le_refl|reflexivity].
  - exists (Z.to_nat k + 3)%nat, (v - ofn (Z.to_nat k)). cbv iota.
    split; [f_equal; f_equal; lia|]. split; [lia|]. split.
    + rewrite Hx. unfold tU. fold (sp_ofnat F K (Z.to_nat k + 3)). rewrite sp_ofnat_add.
      unfold sp_ofnat. cbn [ofnat]. unfold three, two. ring.
    + split; [apply sp_sub_nonneg, Hk1|]. split.
      * apply sp_nonneg_sub. replace (1 - (v - ofn (Z.to_nat k))) with (ofn (Z.to_nat k) + 1 - v) by ring.
        apply sp_sub_nonneg, (proj1 Hk2).
      * intros E. exfalso. apply (proj2 Hk2). replace v with ((v - ofn (Z.to_nat k)) + ofn (Z.to_nat k)) at 1 by ring.
        rewrite E. ring.
Qed.

End Theory.
