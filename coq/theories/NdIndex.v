From Coq Require Import List Arith Lia PeanoNat.
Import ListNotations.

(** Row-major indexing over list shapes *)
Definition size (shp : list nat) : nat := fold_right Nat.mul 1 shp.

Fixpoint ravel (shp idx : list nat) : nat :=
  match shp, idx with
  | _ :: s, i :: j => i * size s + ravel s j
  | _, _ => 0
  end.

Fixpoint unravel (shp : list nat) (A : nat) : list nat :=
  match shp with
  | [] => []
  | _ :: s => (A / size s) :: unravel s (A mod size s)
  end.

Inductive inb : list nat -> list nat -> Prop :=
| inb_nil : inb [] []
| inb_cons n s i j : i < n -> inb s j -> inb (n :: s) (i :: j).

Lemma size_cons n s : size (n :: s) = n * size s. Proof. reflexivity. Qed.

Lemma inb_size_pos shp idx : inb shp idx -> 0 < size shp.
Proof. induction 1; cbn [size fold_right] in *; [lia|]. fold (size s) in *. nia. Qed.

Lemma ravel_lt shp idx : inb shp idx -> ravel shp idx < size shp.
Proof. induction 1 as [|n s i j Hi Hj IH]; cbn [ravel]; rewrite ?size_cons; cbn; [lia|nia]. Qed.

Lemma unravel_ravel shp idx : inb shp idx -> unravel shp (ravel shp idx) = idx.
Proof.
  induction 1 as [|n s i j Hi Hj IH]; cbn [ravel unravel]; [reflexivity|].
  pose proof (ravel_lt _ _ Hj) as Hlt.
  assert (Hs : size s <> 0) by lia.
  rewrite Nat.div_add_l by exact Hs. rewrite Nat.div_small by exact Hlt.
  replace (i * size s + ravel s j) with (ravel s j + i * size s) by lia.
  rewrite Nat.mod_add by exact Hs. rewrite Nat.mod_small by exact Hlt.
  rewrite IH. f_equal. lia.
Qed.

Lemma ravel_inj shp i j : inb shp i -> inb shp j -> ravel shp i = ravel shp j -> i = j.
Proof. intros Hi Hj E. rewrite <- (unravel_ravel _ _ Hi), <- (unravel_ravel _ _ Hj), E. reflexivity. Qed.

(** p padded blocks of leading extent mb read as one array of leading extent mb*p *)
Lemma ravel_head_linear n n' s r mb t j :
  ravel (n :: s) ((mb * r + t) :: j) = r * size (mb :: s) + ravel (n' :: s) (t :: j).
Proof. cbn [ravel]. rewrite size_cons. nia. Qed.

(** multi-indices built from functions *)
Definition mk (d : nat) (f : nat -> nat) : list nat := map f (seq 0 d).
Definition rd (l : list nat) (a : nat) : nat := nth a l 0.

Lemma rd_mk d f a : a < d -> rd (mk d f) a = f a.
Proof. intros H. unfold rd, mk. rewrite (nth_indep _ 0 (f 0)) by (rewrite map_length, seq_length; exact H).
  rewrite map_nth, seq_nth by exact H. reflexivity. Qed.

Lemma mk_ext d f g : (forall a, a < d -> f a = g a) -> mk d f = mk d g.
Proof. intros H. unfold mk. apply map_ext_in. intros a Ha. apply in_seq in Ha. apply H. lia. Qed.

Lemma inb_mk_gen f g : forall k a, (forall b, a <= b < a + k -> g b < f b) ->
  inb (map f (seq a k)) (map g (seq a k)).
Proof. induction k as [|k IH]; intros a H; cbn [seq map]; constructor.
  - apply H. lia.
  - apply IH. intros b Hb. apply H. lia. Qed.

Lemma inb_mk d f g : (forall a, a < d -> g a < f a) -> inb (mk d f) (mk d g).
Proof. intros H. apply inb_mk_gen. intros b Hb. apply H. lia. Qed.

Lemma inb_length shp idx : inb shp idx -> length idx = length shp.
Proof. induction 1; cbn; congruence. Qed.

Lemma inb_rd shp idx : inb shp idx -> forall a, a < length shp -> rd idx a < rd shp a.
Proof. unfold rd. induction 1 as [|n s i j Hi Hj IH]; intros a Ha; cbn in *; [lia|].
  destruct a; [exact Hi|]. apply IH. lia. Qed.

Lemma length_mk d f : length (mk d f) = d.
Proof. unfold mk. rewrite map_length, seq_length. reflexivity. Qed.

Lemma mk_rd d j : length j = d -> mk d (rd j) = j.
Proof. intros H. subst d. unfold mk, rd. apply nth_ext with (d := 0) (d' := 0).
  - rewrite map_length, seq_length. reflexivity.
  - intros n Hn. rewrite map_length, seq_length in Hn.
    rewrite (nth_indep _ 0 (nth 0 j 0)) by (rewrite map_length, seq_length; exact Hn).
    rewrite (map_nth (fun a => nth a j 0)), seq_nth by exact Hn. reflexivity. Qed.

Lemma mk_S k f : mk (S k) f = f 0 :: map f (seq 1 k).
Proof. reflexivity. Qed.

Lemma inb_mk_inv d f j : inb (mk d f) j -> forall a, a < d -> rd j a < f a.
Proof. intros H a Ha. pose proof (inb_rd _ _ H a) as H1. rewrite length_mk in H1.
  rewrite rd_mk in H1 by exact Ha. apply H1, Ha. Qed.

(** unravel lands in bounds and is the inverse of ravel on addresses *)
Lemma size_pos_tl n s : 0 < size (n :: s) -> 0 < size s.
Proof. rewrite size_cons. destruct (size s); lia. Qed.

Lemma unravel_inb shp A : A < size shp -> inb shp (unravel shp A).
Proof.
  revert A. induction shp as [|n s IH]; intros A H; cbn [unravel]; [constructor|].
  rewrite size_cons in H.
  assert (Hs : 0 < size s) by (destruct (size s); lia).
  constructor.
  - apply Nat.div_lt_upper_bound; [lia|]. lia.
  - apply IH. apply Nat.mod_upper_bound. lia.
Qed.

Lemma ravel_unravel shp A : A < size shp -> ravel shp (unravel shp A) = A.
Proof.
  revert A. induction shp as [|n s IH]; intros A H; cbn [unravel ravel].
  - cbn in H. lia.
  - rewrite size_cons in H.
    assert (Hs : 0 < size s) by (destruct (size s); lia).
    rewrite IH by (apply Nat.mod_upper_bound; lia).
    pose proof (Nat.div_mod A (size s) ltac:(lia)). lia.
Qed.

Lemma inb_rd_lt shp idx a : inb shp idx -> a < length shp -> rd idx a < rd shp a.
Proof. intros H. apply inb_rd. exact H. Qed.

Lemma rd_default l a : length l <= a -> rd l a = 0.
Proof. intros H. unfold rd. apply nth_overflow. exact H. Qed.
