(** C19: where the semantics of the pure-Python kernels and of the generated Fortran/C could differ
    (floored vs truncated integer division and modulo, int() truncation, array indices), the kernels
    either stay on the side where both agree or depend on the floored operation explicitly — in which
    case the translation must (and pyccel does) emit the floored operation; the compiled-vs-interpreted
    differential of harness/props/c19.py exercises exactly those points. *)
From Coq Require Import ZArith Lia List Bool.
Import ListNotations.
Open Scope Z_scope.

(** Python's % and // are Z.modulo and Z.div (floor); Fortran MOD / C % and integer division truncate
    (Z.rem, Z.quot) *)
Lemma floor_trunc_mod_agree a n : 0 <= a -> 0 < n -> a mod n = Z.rem a n.
Proof. intros Ha Hn. symmetry. apply Z.rem_mod_nonneg; lia. Qed.
Lemma floor_trunc_div_agree a n : 0 <= a -> 0 < n -> a / n = Z.quot a n.
Proof. intros Ha Hn. symmetry. apply Z.quot_div_nonneg; lia. Qed.

(** get_lagrange_vals: row index (i - s) % nz is always a valid row, for shifts of either sign and any size *)
Lemma lagrange_row_in_range i s nz : 0 < nz -> 0 <= (i - s) mod nz < nz.
Proof. intros H. apply Z.mod_pos_bound. exact H. Qed.
(** ... but it needs the floored modulo: with the truncated one a positive shift gives a negative row *)
Lemma lagrange_row_needs_floor_mod : exists i s nz, 0 < nz /\ 0 <= i < nz /\ Z.rem (i - s) nz < 0.
Proof. exists 1, 3, 8. vm_compute. repeat split; discriminate || reflexivity. Qed.

(** ParallelGradient.parallel_gradient (numpy code, never compiled): in the middle regime
    fwdSteps <= i < nz - bkwdSteps the row i - s is used WITHOUT a modulo.  For an odd number of stencil points
    fwdSteps = bkwdSteps and the row is in range; for an even number (odd order) bkwdSteps = fwdSteps + 1 and
    i - s can be -1, which numpy resolves as row nz - 1 = (i - s) mod nz: the three loops still equal the
    single formula with mod nz, but only under numpy's negative-index rule *)
Definition py_index (k nz : Z) : Z := if k <? 0 then k + nz else k.
Lemma py_index_is_mod k nz : - nz <= k < nz -> py_index k nz = k mod nz.
Proof.
  intros H. unfold py_index. destruct (Z.ltb_spec k 0).
  - apply Z.mod_unique with (q := -1); lia.
  - symmetry. apply Z.mod_small. lia.
Qed.
Lemma pargrad_middle_regime i s nz fwd bkwd :
  0 <= fwd -> fwd <= bkwd <= fwd + 1 -> bkwd < nz -> - fwd <= s <= bkwd -> fwd <= i < nz - bkwd ->
  - nz <= i - s < nz /\ (bkwd = fwd -> 0 <= i - s).
Proof. intros. lia. Qed.

(** cu_find_span: int((x - xmin)/dx) truncates; on the domain (x >= xmin, dx > 0) the argument is
    non-negative, where truncation is floor: quotients of non-negative integers *)
Lemma trunc_is_floor_nonneg num den : 0 <= num -> 0 < den -> Z.quot num den = num / den.
Proof. intros. apply Z.quot_div_nonneg; lia. Qed.

(** v-parallel periodic wrap: the two while loops bring any foot into [vMin, vMax] in finitely many steps
    (integer skeleton: positions measured in units of the width) *)
Lemma wrap_reaches_domain v w : 0 < w -> exists k : Z, 0 <= v + k * w < w.
Proof.
  intros Hw. exists (- (v / w)).
  pose proof (Z.div_mod v w ltac:(lia)). pose proof (Z.mod_pos_bound v w Hw). nia.
Qed.
Close Scope Z_scope.
