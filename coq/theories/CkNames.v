(** C18 — which checkpoint is "the latest": Grid.loadFromFile and setupFromFile take [max] of the
    file names  <folder>/grid_{t:06}.h5  (Python compares strings lexicographically by code point).
    Strings are lists of character codes. *)
From Coq Require Import NArith ZArith List Lia Bool.
Import ListNotations.
Local Open Scope N_scope.
Local Ltac Zify.zify_post_hook ::= Z.div_mod_to_equations.

Fixpoint ck_lex_lt (a b : list N) : bool :=
  match a, b with
  | _, [] => false
  | [], _ :: _ => true
  | x :: a', y :: b' => if x <? y then true else if y <? x then false else ck_lex_lt a' b'
  end.

(** str(n) for n >= 0, most significant digit first (fuel = number of digits that can be produced: n < 10^20) *)
Fixpoint ck_str_aux (fuel : nat) (n : N) (acc : list N) : list N :=
  match fuel with
  | O => acc
  | S f => let acc' := (n mod 10) :: acc in
           if n / 10 =? 0 then acc' else ck_str_aux f (n / 10) acc'
  end.
Definition ck_str (n : N) : list N := ck_str_aux 20 n [].

(** "{:06}".format(n): zero padding on the left up to width 6, never truncating *)
Definition ck_fmt06 (n : N) : list N := let s := ck_str n in repeat 0 (6 - length s)%nat ++ s.

Definition ck_prefix : list N := [103; 114; 105; 100; 95].     (* "grid_" *)
Definition ck_suffix : list N := [46; 104; 53].                (* ".h5" *)
Definition ck_name (t : N) : list N := ck_prefix ++ map (N.add 48) (ck_fmt06 t) ++ ck_suffix.

(** Python's max(list): the first maximal element *)
Definition ck_pymax {A} (lt : A -> A -> bool) (l : list A) : option A :=
  match l with
  | [] => None
  | x :: r => Some (fold_left (fun cur y => if lt cur y then y else cur) r x)
  end.

(** ** fixed-width digits *)
Fixpoint ck_fixed (k : nat) (n : N) : list N :=
  match k with
  | O => []
  | S k' => ck_fixed k' (n / 10) ++ [n mod 10]
  end.

Lemma ck_fixed_length k : forall n, length (ck_fixed k n) = k.
Proof. induction k as [|k IH]; intros n; cbn [ck_fixed]; [reflexivity|]. rewrite app_length, IH. cbn. lia. Qed.

Lemma ck_lex_app l1 : forall l2 a b, length l1 = length l2 ->
  ck_lex_lt (l1 ++ a) (l2 ++ b) = ck_lex_lt l1 l2 || (negb (ck_lex_lt l2 l1) && ck_lex_lt a b).
Proof.
  induction l1 as [|x l1 IH]; intros [|y l2] a b H; try discriminate.
  - cbn. destruct (ck_lex_lt a b); reflexivity.
  - cbn [app ck_lex_lt]. injection H as H.
    destruct (N.ltb_spec x y) as [L|L]; [reflexivity|].
    destruct (N.ltb_spec y x) as [L'|L']; [reflexivity|].
    apply IH. exact H.
Qed.

Lemma ck_fixed_lex k : forall a b, a < 10 ^ N.of_nat k -> b < 10 ^ N.of_nat k ->
  ck_lex_lt (ck_fixed k a) (ck_fixed k b) = (a <? b).
Proof.
  induction k as [|k IH]; intros a b Ha Hb.
  - cbn in *. assert (a = 0) by lia. assert (b = 0) by lia. subst. reflexivity.
  - cbn [ck_fixed]. rewrite ck_lex_app by (rewrite !ck_fixed_length; reflexivity).
    rewrite Nat2N.inj_succ, N.pow_succ_r' in Ha, Hb.
    rewrite !IH by (apply N.div_lt_upper_bound; lia). cbn [ck_lex_lt]. clear IH Ha Hb.
    pose proof (N.div_mod a 10 ltac:(lia)). pose proof (N.div_mod b 10 ltac:(lia)).
    pose proof (N.mod_lt a 10 ltac:(lia)). pose proof (N.mod_lt b 10 ltac:(lia)).
    destruct (N.ltb_spec (a / 10) (b / 10)); destruct (N.ltb_spec (b / 10) (a / 10));
      destruct (N.ltb_spec (a mod 10) (b mod 10)); destruct (N.ltb_spec (b mod 10) (a mod 10));
      cbn [orb andb negb]; symmetry; try (apply N.ltb_lt; lia); try (apply N.ltb_ge; lia).
Qed.

Lemma ck_fmt06_fixed n : n < 1000000 -> ck_fmt06 n = ck_fixed 6 n.
Proof.
  intros Hn. unfold ck_fmt06, ck_str. cbn [ck_fixed app]. cbn [ck_str_aux].
  destruct (N.eqb_spec (n / 10) 0) as [e1|e1]; [rewrite !e1; reflexivity|].
  destruct (N.eqb_spec (n / 10 / 10) 0) as [e2|e2]; [rewrite !e2; reflexivity|].
  destruct (N.eqb_spec (n / 10 / 10 / 10) 0) as [e3|e3]; [rewrite !e3; reflexivity|].
  destruct (N.eqb_spec (n / 10 / 10 / 10 / 10) 0) as [e4|e4]; [rewrite !e4; reflexivity|].
  destruct (N.eqb_spec (n / 10 / 10 / 10 / 10 / 10) 0) as [e5|e5]; [rewrite !e5; reflexivity|].
  destruct (N.eqb_spec (n / 10 / 10 / 10 / 10 / 10 / 10) 0) as [e6|e6]; [reflexivity|].
  exfalso. apply e6. clear e1 e2 e3 e4 e5 e6.
  rewrite !N.div_div by lia. apply N.div_small. exact Hn.
Qed.

(** ** file names *)
Lemma ck_lex_irrefl l : ck_lex_lt l l = false.
Proof. induction l as [|x l IH]; cbn [ck_lex_lt]; [reflexivity|]. rewrite N.ltb_irrefl. exact IH. Qed.

Lemma ck_lex_prefix p : forall a b, ck_lex_lt (p ++ a) (p ++ b) = ck_lex_lt a b.
Proof. induction p as [|x p IH]; intros a b; cbn [app ck_lex_lt]; [reflexivity|]. rewrite N.ltb_irrefl. apply IH. Qed.

Lemma ck_lex_map48 a : forall b, ck_lex_lt (map (N.add 48) a) (map (N.add 48) b) = ck_lex_lt a b.
Proof.
  induction a as [|x a IH]; intros [|y b]; cbn [map ck_lex_lt]; try reflexivity.
  rewrite IH. destruct (N.ltb_spec x y); destruct (N.ltb_spec y x);
    destruct (N.ltb_spec (48 + x) (48 + y)); destruct (N.ltb_spec (48 + y) (48 + x)); try reflexivity; lia.
Qed.

(** for times below 10^6 the string order of the file names is the numeric order of the times *)
Theorem ck_name_order a b : a < 1000000 -> b < 1000000 ->
  ck_lex_lt (ck_name a) (ck_name b) = (a <? b).
Proof.
  intros Ha Hb. unfold ck_name. rewrite ck_lex_prefix.
  rewrite ck_lex_app by (rewrite !map_length, !ck_fmt06_fixed, !ck_fixed_length by assumption; reflexivity).
  rewrite !ck_lex_map48, !ck_fmt06_fixed by assumption.
  rewrite !ck_fixed_lex by (cbn; lia).
  rewrite ck_lex_irrefl, andb_false_r, orb_false_r. reflexivity.
Qed.

(** hence [max] of the names is the name of the largest time *)
Theorem ck_latest_is_numeric_max ts :
  Forall (fun t => t < 1000000) ts ->
  ck_pymax ck_lex_lt (map ck_name ts) = option_map ck_name (ck_pymax N.ltb ts).
Proof.
  destruct ts as [|t ts]; intros H; [reflexivity|]. cbn [map ck_pymax option_map]. f_equal.
  inversion H as [|? ? Ht Hts]; subst. clear H. revert t Ht.
  induction ts as [|u ts IH]; intros t Ht; cbn [map fold_left]; [reflexivity|].
  inversion Hts as [|? ? Hu Hts']; subst.
  rewrite ck_name_order by assumption.
  destruct (t <? u); apply IH; assumption.
Qed.

Lemma ck_pymax_is_max ts t : ck_pymax N.ltb ts = Some t -> In t ts /\ forall u, In u ts -> u <= t.
Proof.
  destruct ts as [|t0 ts]; [discriminate|]. cbn [ck_pymax]. intros H. injection H as H. subst t.
  revert t0. induction ts as [|u ts IH]; intros t0; cbn [fold_left].
  - split; [left; reflexivity|]. intros u [->|[]]. lia.
  - destruct (N.ltb_spec t0 u) as [L|L].
    + destruct (IH u) as [I1 I2]. split.
      * destruct I1 as [E|I]; [right; left; exact E|right; right; exact I].
      * intros v [->|[->|I]]; [|apply I2; left; reflexivity|apply I2; right; exact I].
        specialize (I2 u (or_introl eq_refl)). lia.
    + destruct (IH t0) as [I1 I2]. split.
      * destruct I1 as [E|I]; [left; exact E|right; right; exact I].
      * intros v [->|[->|I]]; [apply I2; left; reflexivity| |apply I2; right; exact I].
        specialize (I2 t0 (or_introl eq_refl)). lia.
Qed.

(** beyond 10^6 the names get longer and the string order is no longer the numeric one:
    "grid_1000000.h5" < "grid_999999.h5", so a restart resumes from t = 999999 *)
Theorem ck_latest_refuted :
  ck_lex_lt (ck_name 1000000) (ck_name 999999) = true /\
  ck_pymax ck_lex_lt (map ck_name [999999; 1000000]) = Some (ck_name 999999).
Proof. vm_compute. split; reflexivity. Qed.

(** int(filename.split('_')[-1].split('.')[0]) : the decimal value of the digits *)
Definition ck_parse_time (digits : list N) : N := fold_left (fun acc d => 10 * acc + d) digits 0.
Lemma ck_parse_fixed k : forall n acc, n < 10 ^ N.of_nat k ->
  fold_left (fun acc d => 10 * acc + d) (ck_fixed k n) acc = 10 ^ N.of_nat k * acc + n.
Proof.
  induction k as [|k IH]; intros n acc Hn.
  - cbn [ck_fixed fold_left N.of_nat] in *. rewrite N.pow_0_r in *. lia.
  - cbn [ck_fixed]. rewrite fold_left_app. cbn [fold_left].
    rewrite Nat2N.inj_succ, N.pow_succ_r' in *. rewrite IH by (apply N.div_lt_upper_bound; lia).
    set (P := 10 ^ N.of_nat k). pose proof (N.div_mod n 10 ltac:(lia)). lia.
Qed.
Theorem ck_parse_roundtrip t : t < 1000000 -> ck_parse_time (ck_fmt06 t) = t.
Proof.
  intros H. unfold ck_parse_time. rewrite ck_fmt06_fixed by exact H.
  rewrite ck_parse_fixed by (cbn; lia). lia.
Qed.
