(** C18 — which checkpoint is "the latest": Grid.loadFromFile and setupFromFile take [max] of the
    file names  <folder>/grid_{t:06}.h5  (Python compares strings lexicographically by code point).
    Strings are lists of character codes. *)
From Coq Require Import NArith ZArith List Lia Bool.
Import ListNotations.
Local Open Scope N_scope.
Local Ltac Zify.zify_post_hook ::= Z.div_mod_to_equations.

Fixpoint ck_lex_lt (a b : list N) : bool :=
  match a, b with
  | _, [] => false
  | [], _ :: _ => true
  | x :: a', y :: b' => if x <? y then true else if y <? x then false else ck_lex_lt a' b'
  end.

(** str(n) for n >= 0, most significant digit first (fuel = number of digits that can be produced: n < 10^20) *)
Fixpoint ck_str_aux (fuel : nat) (n : N) (acc : list N) : list N :=
  match fuel with
  | O => acc
  | S f => let acc' := (n mod 10) :: acc in
           if n / 10 =? 0 then acc' else ck_str_aux f (n / 10) acc'
  end.
Definition ck_str (n : N) : list N := ck_str_aux 20 n [].

(** "{:06}".format(n): zero padding on the left up to width 6, never truncating *)
Definition ck_fmt06 (n : N) : list N := let s := ck_str n in repeat 0 (6 - length s)%nat ++ s.

Definition ck_prefix : list N := [103; 114; 105; 100; 95].     (* "grid_" *)
Definition ck_suffix : list N := [46; 104; 53].                (* ".h5" *)
Definition ck_name (t : N) : list N := ck_prefix ++ map (N.add 48) (ck_fmt06 t) ++ ck_suffix.

(** Python's max(list): the first maximal element *)
Definition ck_pymax {A} (lt : A -> A -> bool) (l : list A) : option A :=
  match l with
  | [] => None
  | x :: r => Some (fold_left (fun cur y => if lt cur y then y else cur) r x)
  end.

(** ** fixed-width digits *)
Fixpoint ck_fixed (k : nat) (n : N) : list N :=
  match k with
  | O => []
  | S k' => ck_fixed k' (n / 10) ++ [n mod 10]
  end.

Lemma ck_fixed_length k : forall n, length (ck_fixed k n) = k.
Proof. induction k as [|k IH]; intros n; cbn [ck_fixed]; [reflexivity|]. rewrite app_length, IH. cbn. lia. Qed.

Lemma ck_lex_app l1 : forall l2 a b, length l1 = length l2 ->
  ck_lex_lt (l1 ++ a) (l2 ++ b) = ck_lex_lt l1 l2 || (negb (ck_lex_lt l2 l1) && ck_lex_lt a b).
Proof.
  induction l1 as [|x l1 IH]; intros [|y l2] a b H; try discriminate.
  - cbn. destruct (ck_lex_lt a b); reflexivity.
  - cbn [app ck_lex_lt]. injection H as H.
    destruct (N.ltb_spec x y) as [L|L]; [reflexivity|].
    destruct (N.ltb_spec y x) as [L'|L']; [reflexivity|].
    apply IH. exact H.
Qed.

Lemma ck_fixed_lex k : forall a b, a < 10 ^ N.of_nat k -> b < 10 ^ N.of_nat k ->
  ck_lex_lt (ck_fixed k a) (ck_fixed k b) = (a <? b).
Proof.
  induction k as [|k IH]; intros a b Ha Hb.
  - cbn in *. assert (a = 0) by lia. assert (b = 0) by lia. subst. reflexivity.
  - cbn [ck_fixed]. rewrite ck_lex_app by (rewrite !ck_fixed_length; reflexivity).
    rewrite Nat2N.inj_succ, N.pow_succ_r' in Ha, Hb.
    rewrite !IH by (apply N.div_lt_upper_bound; lia). cbn [ck_lex_lt]. clear IH Ha Hb.
    pose proof (N.div_mod a 10 ltac:(lia)). pose proof (N.div_mod b 10 ltac:(lia)).
    pose proof (N.mod_lt a 10 ltac:(lia)). pose proof (N.mod_lt b 10 ltac:(lia)).
    destruct (N.ltb_spec (a / 10) (b / 10)); destruct (N.ltb_spec (b / 10) (a / 10));
      destruct (N.ltb_spec (a mod 10) (b mod 10)); destruct (N.ltb_spec (b mod 10) (a mod 10));
      cbn [orb andb negb]; symmetry; try (apply N.ltb_lt; lia); try (apply N.ltb_ge; lia).
Qed.

Lemma ck_fmt06_fixed n : n < 1000000 -> ck_fmt06 n = ck_fixed 6 n.
Proof.
  intros Hn. unfold ck_fmt06, ck_str. cbn [ck_fixed app]. cbn [ck_str_aux].
  destruct (N.eqb_spec (n / 10) 0) as [e1|e1]; [rewrite !e1; reflexivity|].
  destruct (N.eqb_spec (n / 10 / 10) 0) as [e2|e2]; [rewrite !e2; reflexivity|].
  destruct (N.eqb_spec (n / 10 / 10 / 10) 0) as [e3|e3]; [rewrite !e3; reflexivity|].
  destruct (N.eqb_spec (n / 10 / 10 / 10 / 10) 0) as [e4|e4]; [rewrite !e4; reflexivity|].
  destruct (N.eqb_spec (n / 10 / 10 / 10 / 10 / 10) 0) as [e5|e5]; [rewrite !e5; reflexivity|].
  destruct (N.eqb_spec (n / 10 / 10 / 10 / 10 / 10 / 10) 0) as [e6|e6]; [reflexivity|].
  exfalso. apply e6. clear e1 e2 e3 e4 e5 e6.
  rewrite !N.div_div by lia. apply N.div_small. exact Hn.
Qed.

(** ** file names *)
Lemma ck_lex_irrefl l : ck_lex_lt l l = false.
Proof. induction l as [|x l IH]; cbn [ck_lex_lt]; [reflexivity|]. rewrite N.ltb_irrefl. exact IH. Qed.

Lemma ck_lex_prefix p : forall a b, ck_lex_lt (p ++ a) (p ++ b) = ck_lex_lt a b.
Proof. induction p as [|x p IH]; intros a b; cbn [app ck_lex_lt]; [reflexivity|]. rewrite N.ltb_irrefl. apply IH. Qed.

Lemma ck_lex_map48 a : forall b, ck_lex_lt (map (N.add 48) a) (map (N.add 48) b) = ck_lex_lt a b.
Proof.
  induction a as [|x a IH]; intros [|y b]; cbn [map ck_lex_lt]; try reflexivity.
  rewrite IH. destruct (N.ltb_spec x y); destruct (N.ltb_spec y x);
    destruct (N.ltb_spec (48 + x) (48 + y)); destruct (N.ltb_spec (48 + y) (48 + x)); try reflexivity; lia.
Qed.

(** for times below 10^6 the string order of the file names is the numeric order of the times *)
Theorem ck_name_order a b : a < 1000000 -> b < 1000000 ->
  ck_lex_lt (ck_name a) (ck_name b) = (a <? b).
Proof.
  intros Ha Hb. unfold ck_name. rewrite ck_lex_prefix.
  rewrite ck_lex_app by (rewrite !map_length, !ck_fmt06_fixed, !ck_fixed_length by assumption; reflexivity).
  rewrite !ck_lex_map48, !ck_fmt06_fixed by assumption.
  rewrite !ck_fixed_lex by (cbn; lia).
  rewrite ck_lex_irrefl, andb_false_r, orb_false_r. reflexivity.
Qed.

(** hence [max] of the names is the name of the largest time *)
Theorem ck_latest_is_numeric_max ts :
  Forall (fun t => t < 1000000) ts ->
  ck_pymax ck_lex_lt (map ck_name ts) = option_map ck_name (ck_pymax N.ltb ts).
Proof.
  destruct ts as [|t ts]; intros H; [reflexivity|]. cbn [map ck_pymax option_map]. f_equal.
  inversion H as [|? ? Ht Hts]; subst. clear H. revert t Ht.
  induction ts as [|u ts IH]; intros t Ht; cbn [map fold_left]; [reflexivity|].
  inversion Hts as [|? ? Hu Hts']; subst.
  rewrite ck_name_order by assumption.
  destruct (t <? u); apply IH; assumption.
Qed.

Lemma ck_pymax_is_max ts t : ck_pymax N.ltb ts = Some t -> In t ts /\ forall u, In u ts -> u <= t.
Proof.
  destruct ts as [|t0 ts]; [discriminate|]. cbn [ck_pymax]. intros H. injection H as H. subst t.
  revert t0. induction ts as [|u ts IH]; intros t0; cbn [fold_left].
  - split; [left; reflexivity|]. intros u [->|[]]. lia.
  - destruct (N.ltb_spec t0 u) as [L|L].
    + destruct (IH u) as [I1 I2]. split.
      * destruct I1 as [E|I]; [right; left; exact E|right; right; exact I].
      * intros v [->|[->|I]]; [|apply I2; left; reflexivity|apply I2; right; exact I].
        specialize (I2 u (or_introl eq_refl)). lia.
    + destruct (IH t0) as [I1 I2]. split.
      * destruct I1 as [E|I]; [left; exact E|right; right; exact I].
      * intros v [->|[->|I]]; [apply I2; left; reflexivity| |apply I2; right; exact I].
        specialize (I2 t0 (or_introl eq_refl)). lia.
Qed.

(** beyond 10^6 the names get longer and the string order is no longer the numeric one:
    "grid_1000000.h5" < "grid_999999.h5", so a restart resumes from t = 999999 *)
Theorem ck_latest_refuted :
  ck_lex_lt (ck_name 1000000) (ck_name 999999) = true /\
  ck_pymax ck_lex_lt (map ck_name [999999; 1000000]) = Some (ck_name 999999).
Proof. vm_compute. split; reflexivity. Qed.

(** int(filename.split('_')[-1].split('.')[0]) : the decimal value of the digits *)
Definition ck_parse_time (digits : list N) : N := fold_left (fun acc d => 10 * acc + d) digits 0.
Lemma ck_parse_fixed k : forall n acc, n < 10 ^ N.of_nat k ->
  fold_left (fun acc d => 10 * acc + d) (ck_fixed k n) acc = 10 ^ N.of_nat k * acc + n.
Proof.
  induction k as [|k IH]; intros n acc Hn.
  - cbn [ck_fixed fold_left N.of_nat] in *. rewrite N.pow_0_r in *. lia.
  - cbn [ck_fixed]. rewrite fold_left_app. cbn [fold_left].
    rewrite Nat2N.inj_succ, N.pow_succ_r' in *. rewrite IH by (apply N.div_lt_upper_bound; lia).
    set (P := 10 ^ N.of_nat k). pose proof (N.div_mod n 10 ltac:(lia)). lia.
Qed.
Theorem ck_parse_roundtrip t : t < 1000000 -> ck_parse_time (ck_fmt06 t) = t.
Proof.
  intros H. unfold ck_parse_time. rewrite ck_fmt06_fixed by exact H.
  rewrite ck_parse_fixed by (cbn; lia). lia.
Qed.

(** * The repaired selection (2367528, a4e5b38): max(files, key = float(time text of the name))

    A time stamp is counted in half units [h] (t = h/2) so that the times of a float time step 0.5 are
    covered: an int time t is written "{:06}".format(t) (h = 2t), a float time is written
    "{:06}".format(float): str(int part) "." "0"|"5", zero-padded on the left to width 6. *)
(** character codes of the time text: digits + 48, '.' = 46 *)
Definition ck_text_int (t : N) : list N := map (N.add 48) (ck_fmt06 t).
Definition ck_text_half (h : N) : list N :=
  let body := map (N.add 48) (ck_str (h / 2)) ++ [46; 48 + (if h mod 2 =? 0 then 0 else 5)] in
  repeat 48 (6 - length body)%nat ++ body.

(** a stamp: (half units, written as a float?) *)
Definition ck_stamp : Type := (N * bool)%type.
Definition ck_stamp_text (s : ck_stamp) : list N :=
  if snd s then ck_text_half (fst s) else ck_text_int (fst s / 2).
Definition ck_stamp_name (s : ck_stamp) : list N := ck_prefix ++ ck_stamp_text s ++ ck_suffix.

(** os.path.splitext(basename)[0].split('_')[-1] under the naming convention: drop "grid_" and ".h5" *)
Definition ck_strip (name : list N) : list N := firstn (length name - 8) (skipn 5 name).

(** float(text) in half units: digits before the first '.', then 0 or 1 half *)
Fixpoint ck_key_text (acc : N) (l : list N) : N :=
  match l with
  | [] => 2 * acc
  | c :: r => if c =? 46 then 2 * acc + (match r with d :: _ => if d =? 53 then 1 else 0 | [] => 0 end)
              else ck_key_text (10 * acc + (c - 48)) r
  end.
Definition ck_key (name : list N) : N := ck_key_text 0 (ck_strip name).

Definition ck_latest_name (names : list (list N)) : option (list N) :=
  ck_pymax (fun a b => ck_key a <? ck_key b) names.

(** ** str(n) read back, for every n below 10^20 *)
Lemma ck_str_aux_spec fuel : forall n acc, n < 10 ^ N.of_nat fuel ->
  exists ds, ck_str_aux fuel n acc = ds ++ acc /\ Forall (fun d => d < 10) ds /\
             forall a, fold_left (fun x d => 10 * x + d) ds a = 10 ^ N.of_nat (length ds) * a + n.
Proof.
  induction fuel as [|f IH]; intros n acc Hn.
  - cbn [N.of_nat] in Hn. rewrite N.pow_0_r in Hn. assert (n = 0) by lia. subst n.
    exists []. split; [reflexivity|]. split; [constructor|]. intros a. cbn [fold_left length N.of_nat]. rewrite N.pow_0_r. lia.
  - cbn [ck_str_aux]. rewrite Nat2N.inj_succ, N.pow_succ_r' in Hn.
    pose proof (N.div_mod n 10 ltac:(lia)) as E. pose proof (N.mod_lt n 10 ltac:(lia)) as U.
    destruct (N.eqb_spec (n / 10) 0) as [Z|NZ].
    + exists [n mod 10]. repeat split; [constructor; [exact U|constructor]|].
      intros a. cbn [fold_left length N.of_nat Pos.of_succ_nat]. rewrite N.pow_1_r. lia.
    + destruct (IH (n / 10) (n mod 10 :: acc)) as [ds [E1 [F1 P1]]].
      { apply N.div_lt_upper_bound; lia. }
      exists (ds ++ [n mod 10]). rewrite <- app_assoc. cbn [app]. repeat split; [exact E1| |].
      * apply Forall_app. split; [exact F1|constructor; [exact U|constructor]].
      * intros a. rewrite fold_left_app. cbn [fold_left]. rewrite P1, app_length. cbn [length].
        rewrite Nat.add_1_r, Nat2N.inj_succ, N.pow_succ_r'. lia.
Qed.

Lemma ck_key_text_digits ds : forall acc rest, Forall (fun d => d < 10) ds ->
  ck_key_text acc (map (N.add 48) ds ++ rest) = ck_key_text (fold_left (fun x d => 10 * x + d) ds acc) rest.
Proof.
  induction ds as [|d ds IH]; intros acc rest H; cbn [map app fold_left]; [reflexivity|].
  inversion H as [|? ? Hd Hds]; subst. cbn [ck_key_text].
  destruct (N.eqb_spec (48 + d) 46) as [E|_]; [lia|].
  replace (48 + d - 48) with d by lia. apply IH. exact Hds.
Qed.

Lemma ck_key_text_zeros k : forall rest, ck_key_text 0 (repeat 48 k ++ rest) = ck_key_text 0 rest.
Proof. induction k as [|k IH]; intros rest; cbn [repeat app ck_key_text]; [reflexivity|]. cbn. apply IH. Qed.

(** the key of the text of a stamp is its value (in half units) *)
Lemma ck_key_text_int t : t < 10 ^ 20 -> ck_key_text 0 (ck_text_int t) = 2 * t.
Proof.
  intros H. unfold ck_text_int, ck_fmt06, ck_str.
  destruct (ck_str_aux_spec 20 t [] H) as [ds [E [F P]]]. rewrite E, app_nil_r.
  rewrite map_app. replace (map (N.add 48) (repeat 0 (6 - length ds))) with (repeat 48 (6 - length ds)).
  - rewrite ck_key_text_zeros. rewrite <- (app_nil_r (map _ ds)), ck_key_text_digits by exact F.
    cbn [ck_key_text]. rewrite P. lia.
  - induction (6 - length ds)%nat as [|k IH]; cbn [repeat map]; [reflexivity|]. rewrite <- IH. reflexivity.
Qed.

Lemma ck_key_text_half h : h / 2 < 10 ^ 20 -> ck_key_text 0 (ck_text_half h) = h.
Proof.
  intros H. unfold ck_text_half, ck_str.
  destruct (ck_str_aux_spec 20 (h / 2) [] H) as [ds [E [F P]]]. rewrite E, app_nil_r.
  rewrite ck_key_text_zeros, ck_key_text_digits by exact F.
  cbn [ck_key_text]. rewrite N.eqb_refl, P.
  pose proof (N.div_mod h 2 ltac:(lia)) as Eh. pose proof (N.mod_lt h 2 ltac:(lia)) as Uh.
  destruct (N.eqb_spec (h mod 2) 0) as [Z|NZ].
  - change (48 + 0 =? 53) with false. cbv iota. rewrite N.mul_0_r. lia.
  - change (48 + 5 =? 53) with true. cbv iota. rewrite N.mul_0_r. lia.
Qed.

Definition ck_stamp_ok (s : ck_stamp) : Prop :=
  fst s / 2 < 10 ^ 20 /\ (snd s = false -> fst s mod 2 = 0).

Lemma ck_strip_name s : ck_strip (ck_stamp_name s) = ck_stamp_text s.
Proof.
  unfold ck_strip, ck_stamp_name. rewrite !app_length. cbn [ck_prefix ck_suffix length app skipn].
  replace (5 + (length (ck_stamp_text s) + 3) - 8)%nat with (length (ck_stamp_text s) + 0)%nat by lia.
  rewrite firstn_app_2. cbn [firstn]. apply app_nil_r.
Qed.

Theorem ck_key_name s : ck_stamp_ok s -> ck_key (ck_stamp_name s) = fst s.
Proof.
  intros [Hb He]. unfold ck_key. rewrite ck_strip_name. unfold ck_stamp_text.
  destruct s as [h [|]]; cbn [fst snd] in *.
  - apply ck_key_text_half. exact Hb.
  - rewrite ck_key_text_int by exact Hb. specialize (He eq_refl).
    pose proof (N.div_mod h 2 ltac:(lia)). lia.
Qed.

(** max by a key commutes with naming when the key of a name is the value of what it names *)
Lemma ck_pymax_key {A B} (f : A -> B) (key : B -> N) (val : A -> N) l :
  Forall (fun a => key (f a) = val a) l ->
  ck_pymax (fun x y => key x <? key y) (map f l) = option_map f (ck_pymax (fun a b => val a <? val b) l).
Proof.
  destruct l as [|a l]; intros H; [reflexivity|]. cbn [map ck_pymax option_map]. f_equal.
  inversion H as [|? ? Ha Hl]; subst. clear H. revert a Ha.
  induction l as [|b l IH]; intros a Ha; cbn [map fold_left]; [reflexivity|].
  inversion Hl as [|? ? Hb Hl']; subst. rewrite Ha, Hb.
  destruct (val a <? val b); apply IH; assumption.
Qed.

(** the latest checkpoint chosen by the repaired code is the one with the largest time, for all times
    (int or half-integer float stamps, any number of digits below 10^20) *)
Theorem ck_latest_by_key stamps : Forall ck_stamp_ok stamps ->
  ck_latest_name (map ck_stamp_name stamps) =
  option_map ck_stamp_name (ck_pymax (fun a b => fst a <? fst b) stamps).
Proof.
  intros H. unfold ck_latest_name. apply ck_pymax_key.
  eapply Forall_impl; [|exact H]. intros s Hs. apply ck_key_name. exact Hs.
Qed.

Lemma ck_pymax_val_is_max {A} (val : A -> N) l a :
  ck_pymax (fun x y => val x <? val y) l = Some a -> In a l /\ forall b, In b l -> val b <= val a.
Proof.
  destruct l as [|a0 l]; [discriminate|]. cbn [ck_pymax]. intros H. injection H as H. subst a.
  revert a0. induction l as [|u l IH]; intros a0; cbn [fold_left].
  - split; [left; reflexivity|]. intros b [->|[]]. lia.
  - destruct (N.ltb_spec (val a0) (val u)) as [L|L].
    + destruct (IH u) as [I1 I2]. split.
      * destruct I1 as [E|I]; [right; left; exact E|right; right; exact I].
      * intros v [->|[->|I]]; [|apply I2; left; reflexivity|apply I2; right; exact I].
        specialize (I2 u (or_introl eq_refl)). lia.
    + destruct (IH a0) as [I1 I2]. split.
      * destruct I1 as [E|I]; [left; exact E|right; right; exact I].
      * intros v [->|[->|I]]; [apply I2; left; reflexivity| |apply I2; right; exact I].
        specialize (I2 a0 (or_introl eq_refl)). lia.
Qed.

(** examples: "grid_1000000.h5" now beats "grid_999999.h5"; "grid_0001.5.h5" beats "grid_000001.h5" *)
Example ck_latest_examples :
  ck_latest_name (map ck_stamp_name [(1999998, false); (2000000, false)]) = Some (ck_name 1000000) /\
  ck_latest_name (map ck_stamp_name [(2, false); (3, true); (0, false)]) =
    Some (ck_prefix ++ [48; 48; 48; 49; 46; 53] ++ ck_suffix) /\
  ck_stamp_name (24, true) = ck_prefix ++ [48; 48; 49; 50; 46; 48] ++ ck_suffix.
Proof. vm_compute. repeat split. Qed.
