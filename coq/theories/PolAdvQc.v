(** The poloidal advection model executed on canonical rationals (stdlib [Qc]): the instance that
    is extracted (coq/extract/parts/c12.txt) and run by harness/props/c12.py. *)
From Coq Require Import List Arith Lia ZArith QArith Qcanon Bool.
Import ListNotations.
From PGV Require Import SplineModel SplineQc PolAdvModel.

(** consts = [CN0; kN0; deltaRN0; rp; CTi; kTi; deltaRTi] *)
Definition polq_feq (pi_ : Qc) (consts : list Qc) (r vPar : Qc) : Qc :=
  let c := fun i => nth i consts (Q2Qc 0) in
  pol_feq_s Qc spq_ops pi_ (c 0%nat) (c 1%nat) (c 2%nat) (c 3%nat) (c 4%nat) (c 5%nat) (c 6%nat) r vPar.

(** poloidal_advection_step_expl (the dispatching wrapper) *)
Definition polq_step_expl (cubic_uniform nul : bool) (pi_ dt v B0 : Qc) (consts rPts qPts : list Qc)
  (k1phi : list Qc) (d1phi : nat) (k2phi : list Qc) (d2phi : nat) (cphi : list (list Qc))
  (k1pol : list Qc) (d1pol : nat) (k2pol : list Qc) (d2pol : nat) (cpol : list (list Qc))
  : sp_res (list (list (Qc * (Qc * Qc)))) :=
  pol_step_expl Qc spq_ops (pol_dispatch Qc spq_ops cubic_uniform) (polq_feq pi_ consts) pi_ dt v B0 nul
    rPts qPts (PolSpl k1phi d1phi k2phi d2phi cphi) (PolSpl k1pol d1pol k2pol d2pol cpol).

(** poloidal_advection_step_impl with a sweep budget *)
Definition polq_step_impl (cubic_uniform nul : bool) (pi_ dt v B0 : Qc) (consts rPts qPts : list Qc)
  (k1phi : list Qc) (d1phi : nat) (k2phi : list Qc) (d2phi : nat) (cphi : list (list Qc))
  (k1pol : list Qc) (d1pol : nat) (k2pol : list Qc) (d2pol : nat) (cpol : list (list Qc))
  (tol : Qc) (fuel : nat)
  : pol_out (list (list (Qc * (Qc * Qc))) * nat) :=
  pol_step_impl Qc spq_ops (pol_dispatch Qc spq_ops cubic_uniform) (polq_feq pi_ consts) pi_ dt v B0 nul
    rPts qPts (PolSpl k1phi d1phi k2phi d2phi cphi) (PolSpl k1pol d1pol k2pol d2pol cpol) tol fuel.

Definition polq_mod (x m : Qc) : sp_res Qc := pol_mod Qc spq_ops x m.

(** printing helpers for the vm_compute cross-check of the extraction *)
Definition polq_show3 (t : Qc * (Qc * Qc)) := (spq_show (fst t), spq_show (fst (snd t)), spq_show (snd (snd t))).
Definition polq_show_expl (r : sp_res (list (list (Qc * (Qc * Qc))))) :=
  match r with SpOk g => SpOk (map (map polq_show3) g) | SpIndexErr => SpIndexErr | SpFuelErr => SpFuelErr
             | SpDivErr => SpDivErr | SpArgErr => SpArgErr end.
Definition polq_show_impl (r : pol_out (list (list (Qc * (Qc * Qc))) * nat)) :=
  match r with
  | PolOutOfFuel => PolOutOfFuel
  | PolRet (SpOk (g, n)) => PolRet (SpOk (map (map polq_show3) g, n))
  | PolRet SpIndexErr => PolRet SpIndexErr | PolRet SpFuelErr => PolRet SpFuelErr
  | PolRet SpDivErr => PolRet SpDivErr | PolRet SpArgErr => PolRet SpArgErr
  end.

(* ------------------------------------------------------------------------------------------ *)
(** * non-vacuity and the refutation of "the implicit iteration terminates" *)
From PGV Require Import PolAdvTheory.

Fixpoint polq_list_eqb {A : Type} (eqb : A -> A -> bool) (l1 l2 : list A) : bool :=
  match l1, l2 with
  | [], [] => true
  | a :: r, b :: s => eqb a b && polq_list_eqb eqb r s
  | _, _ => false
  end.
Lemma polq_list_eqb_eq {A : Type} (eqb : A -> A -> bool) : (forall a b, eqb a b = true -> a = b) ->
  forall l1 l2, polq_list_eqb eqb l1 l2 = true -> l1 = l2.
Proof.
  intros H. induction l1 as [|a r IH]; intros [|b s] E; cbn in E; try discriminate; [reflexivity|].
  apply andb_prop in E. destruct E as [E1 E2]. f_equal; [apply H, E1|apply IH, E2].
Qed.
Definition polq_pair_eqb (a b : Qc * Qc) : bool := Qc_eq_bool (fst a) (fst b) && Qc_eq_bool (snd a) (snd b).
Lemma polq_pair_eqb_eq a b : polq_pair_eqb a b = true -> a = b.
Proof.
  destruct a as [a1 a2], b as [b1 b2]. unfold polq_pair_eqb. cbn [fst snd]. intros E. apply andb_prop in E.
  destruct E as [E1 E2]. apply Qc_eq_bool_correct in E1, E2. subst. reflexivity.
Qed.
Definition polq_st_eqb := polq_list_eqb (polq_list_eqb polq_pair_eqb).
Lemma polq_st_eqb_eq a b : polq_st_eqb a b = true -> a = b.
Proof. apply polq_list_eqb_eq, polq_list_eqb_eq, polq_pair_eqb_eq. Qed.

(** the witness: pi := 3; theta: degree 1 on breaks 0,3,6; r: degree 1 on [1,2];
    phi = a(theta) b(r), a = -3,3 (zero at theta = 3/2, slope 2), b(1) = 1, b(2) = -2; one theta node 3/2,
    radial nodes 1, 2; dt = B0 = 1, tol = 1e-10.  At theta = 3/2 the theta-drift vanishes and the radial
    feet of both nodes flip between the two clip values 1 and 2 for ever. *)
Definition polq_w_q (n : Z) := spq_of n 1.
Definition polq_w_phi : pol_spl Qc :=
  PolSpl (map polq_w_q [-3; 0; 3; 6; 9]%Z) 1 (map polq_w_q [1; 1; 2; 2]%Z) 1
         [map polq_w_q [-3; 6]%Z; map polq_w_q [3; -6]%Z; map polq_w_q [-3; 6]%Z].
Definition polq_w_pol : pol_spl Qc :=
  PolSpl (map polq_w_q [-3; 0; 3; 6; 9]%Z) 1 (map polq_w_q [1; 1; 2; 2]%Z) 1
         [map polq_w_q [0; 0]%Z; map polq_w_q [0; 0]%Z; map polq_w_q [0; 0]%Z].
Definition polq_w_tol : Qc := spq_of 1 10000000000.
Definition polq_w_rPts := map polq_w_q [1; 2]%Z.
Definition polq_w_qPts := [spq_of 3 2].
Definition polq_w_E := pol_dispatch Qc spq_ops false.
Definition polq_w_step (fuel : nat) :=
  pol_step_impl Qc spq_ops polq_w_E (fun _ _ => polq_w_q 0) (polq_w_q 3) (polq_w_q 1) (polq_w_q 0) (polq_w_q 1) true
    polq_w_rPts polq_w_qPts polq_w_phi polq_w_pol polq_w_tol fuel.

Definition polq_w_start :=
  pol_impl_start Qc spq_ops polq_w_E (polq_w_q 1) (polq_w_q 1) polq_w_rPts polq_w_qPts polq_w_phi.
Definition polq_w_sweep := pol_impl_sweep Qc spq_ops polq_w_E (polq_w_q 3) polq_w_rPts polq_w_qPts polq_w_phi.
Definition polq_w_check : bool :=
  match polq_w_start with
  | SpOk (rmin, rmax, mfh, D0, st0) =>
    match polq_w_sweep rmin rmax mfh D0 st0 with
    | SpOk (s1, n1) => pol_ltb Qc spq_ops polq_w_tol n1 &&
      match polq_w_sweep rmin rmax mfh D0 s1 with
      | SpOk (s2, n2) => pol_ltb Qc spq_ops polq_w_tol n2 &&
        match polq_w_sweep rmin rmax mfh D0 s2 with
        | SpOk (s3, n3) => pol_ltb Qc spq_ops polq_w_tol n3 && polq_st_eqb s3 s1
        | _ => false
        end
      | _ => false
      end
    | _ => false
    end
  | _ => false
  end.
Lemma polq_w_check_true : polq_w_check = true.
Proof. vm_compute. reflexivity. Qed.

Theorem polq_impl_never_terminates : forall fuel, polq_w_step fuel = PolOutOfFuel.
Proof.
  intros fuel. pose proof polq_w_check_true as H. unfold polq_w_check in H.
  unfold polq_w_step, pol_step_impl. fold polq_w_start.
  destruct polq_w_start as [[[[[rmin rmax] mfh] D0] st0]| | | |]; try discriminate H. cbn [pol_lift].
  destruct fuel as [|fuel]; [reflexivity|]. cbn [pol_impl_loop]. fold polq_w_sweep.
  destruct (polq_w_sweep rmin rmax mfh D0 st0) as [[s1 n1]| | | |] eqn:E0; try discriminate H.
  apply andb_prop in H. destruct H as [T1 H]. rewrite T1.
  destruct (polq_w_sweep rmin rmax mfh D0 s1) as [[s2 n2]| | | |] eqn:E1; try discriminate H.
  apply andb_prop in H. destruct H as [T2 H].
  destruct (polq_w_sweep rmin rmax mfh D0 s2) as [[s3 n3]| | | |] eqn:E2; try discriminate H.
  apply andb_prop in H. destruct H as [T3 H]. apply polq_st_eqb_eq in H. subst s3.
  rewrite (proj1 (pol_impl_loop_cycle Qc spq_ops polq_w_E (polq_w_q 3) polq_w_rPts polq_w_qPts polq_w_phi polq_w_tol
             rmin rmax mfh D0 s1 s2 n2 n3 E1 E2 T2 T3 fuel 1%nat)). reflexivity.
Qed.

(** "the implicit iteration terminates" is false as quantified: there are inputs for which no
    amount of fuel lets the loop return *)
Theorem polq_impl_terminates_refuted :
  exists (E : pol_ev Qc) feq pi_ dt v B0 nul rPts qPts phi pol tol,
    (Q2Qc 0 < pi_)%Qc /\ (Q2Qc 0 < tol)%Qc /\
    forall fuel, pol_step_impl Qc spq_ops E feq pi_ dt v B0 nul rPts qPts phi pol tol fuel = PolOutOfFuel.
Proof.
  exists polq_w_E, (fun _ _ => polq_w_q 0), (polq_w_q 3), (polq_w_q 1), (polq_w_q 0), (polq_w_q 1), true,
    polq_w_rPts, polq_w_qPts, polq_w_phi, polq_w_pol, polq_w_tol.
  split; [reflexivity|]. split; [reflexivity|]. exact polq_impl_never_terminates.
Qed.

(* ------------------------------------------------------------------------------------------ *)
(** * the executed [sptrunc] is floor on non-negative numbers (AdvQc.advq_trunc_ok), hence the
      range of the modulo holds unconditionally at the executed instance *)
From PGV Require Import SplineTheory AdvCommon AdvQc.
Theorem polq_trunc_ok : sp_trunc_ok Qc spq_ops.
Proof. exact (proj1 advq_trunc_ok). Qed.
Theorem polq_mod_range (x m : Qc) : (Q2Qc 0 < m)%Qc ->
  exists y, polq_mod x m = SpOk y /\ (Q2Qc 0 <= y)%Qc /\ (y < m)%Qc.
Proof.
  intros Hm.
  assert (Hm' : sp_lt spq_ops (sp0 spq_ops) m).
  { split; [apply spq_le_iff, Qclt_le_weak, Hm|]. intros E. rewrite <- E in Hm. exact (Qclt_not_eq _ _ Hm eq_refl). }
  destruct (pol_mod_range_thm Qc spq_ops spq_laws x m polq_trunc_ok Hm') as [y [H1 [H2 [H3 H4]]]].
  exists y. split; [exact H1|]. split; [apply spq_le_iff, H2|].
  apply spq_le_iff in H3. destruct (Qcle_lt_or_eq _ _ H3) as [Hlt|He]; [exact Hlt|contradiction].
Qed.
