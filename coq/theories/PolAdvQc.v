(** The poloidal advection model executed on canonical rationals (stdlib [Qc]): the instance that
    is extracted (coq/extract/parts/c12.txt) and run by harness/props/c12.py. *)
From Coq Require Import List Arith Lia ZArith QArith Qcanon Bool.
Import ListNotations.
From PGV Require Import SplineModel SplineQc PolAdvModel.

(** consts = [CN0; kN0; deltaRN0; rp; CTi; kTi; deltaRTi] *)
Definition polq_feq (pi_ : Qc) (consts : list Qc) (r vPar : Qc) : Qc :=
  let c := fun i => nth i consts (Q2Qc 0) in
  pol_feq_s Qc spq_ops pi_ (c 0%nat) (c 1%nat) (c 2%nat) (c 3%nat) (c 4%nat) (c 5%nat) (c 6%nat) r vPar.

(** poloidal_advection_step_expl (the dispatching wrapper) *)
Definition polq_step_expl (cubic_uniform nul : bool) (pi_ dt v B0 : Qc) (consts rPts qPts : list Qc)
  (k1phi : list Qc) (d1phi : nat) (k2phi : list Qc) (d2phi : nat) (cphi : list (list Qc))
  (k1pol : list Qc) (d1pol : nat) (k2pol : list Qc) (d2pol : nat) (cpol : list (list Qc))
  : sp_res (list (list (Qc * (Qc * Qc)))) :=
  pol_step_expl Qc spq_ops (pol_dispatch Qc spq_ops cubic_uniform) (polq_feq pi_ consts) pi_ dt v B0 nul
    rPts qPts (PolSpl k1phi d1phi k2phi d2phi cphi) (PolSpl k1pol d1pol k2pol d2pol cpol).

(** poloidal_advection_step_impl with a sweep budget *)
Definition polq_step_impl (cubic_uniform nul : bool) (pi_ dt v B0 : Qc) (consts rPts qPts : list Qc)
  (k1phi : list Qc) (d1phi : nat) (k2phi : list Qc) (d2phi : nat) (cphi : list (list Qc))
  (k1pol : list Qc) (d1pol : nat) (k2pol : list Qc) (d2pol : nat) (cpol : list (list Qc))
  (tol : Qc) (fuel : nat)
  : pol_out (list (list (Qc * (Qc * Qc))) * nat) :=
  pol_step_impl Qc spq_ops (pol_dispatch Qc spq_ops cubic_uniform) (polq_feq pi_ consts) pi_ dt v B0 nul
    rPts qPts (PolSpl k1phi d1phi k2phi d2phi cphi) (PolSpl k1pol d1pol k2pol d2pol cpol) tol fuel.

Definition polq_mod (x m : Qc) : sp_res Qc := pol_mod Qc spq_ops x m.

(** printing helpers for the vm_compute cross-check of the extraction *)
Definition polq_show3 (t : Qc * (Qc * Qc)) := (spq_show (fst t), spq_show (fst (snd t)), spq_show (snd (snd t))).
Definition polq_show_expl (r : sp_res (list (list (Qc * (Qc * Qc))))) :=
  match r with SpOk g => SpOk (map (map polq_show3) g) | SpIndexErr => SpIndexErr | SpFuelErr => SpFuelErr
             | SpDivErr => SpDivErr | SpArgErr => SpArgErr end.
Definition polq_show_impl (r : pol_out (list (list (Qc * (Qc * Qc))) * nat)) :=
  match r with
  | PolOutOfFuel => PolOutOfFuel
  | PolRet (SpOk (g, n)) => PolRet (SpOk (map (map polq_show3) g, n))
  | PolRet SpIndexErr => PolRet SpIndexErr | PolRet SpFuelErr => PolRet SpFuelErr
  | PolRet SpDivErr => PolRet SpDivErr | PolRet SpArgErr => PolRet SpArgErr
  end.
