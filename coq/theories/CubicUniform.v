From Coq Require Import List Arith Lia Field Ring.
Import ListNotations.
From PGV Require Import BasisCoxDeBoor.

Section CU.
Variable F : Type.
Variables (f0 f1 : F) (fadd fmul fsub fdiv : F -> F -> F) (fopp finv : F -> F).
Hypothesis Fth : field_theory f0 f1 fadd fmul fsub fopp fdiv finv (@eq F).
Add Field FF2 : Fth.
Notation "x + y" := (fadd x y). Notation "x * y" := (fmul x y).
Notation "x - y" := (fsub x y). Notation "x / y" := (fdiv x y).
Notation "0" := f0. Notation "1" := f1.
Definition two := 1 + 1. Definition three := two + 1. Definition six := three * two.
Hypothesis two_ne0 : two <> 0. Hypothesis three_ne0 : three <> 0.

(* cu_basis_funs as written in cubic_uniform_spline_eval_funcs.py *)
Definition cu_basis (o : F) : list F :=
  let b := 1 - o in
  let tmp := (1 / two) * (1 + b * o) in
  [ b * b * b / six ; 1 / six + b * tmp ; 1 / six + o * tmp ; o * o * o / six ].

(* uniform knots t_i = xmin + (i-3) dx *)
Variables xmin dx : F.
Hypothesis dx_ne0 : dx <> 0.
Fixpoint ofnat (n : nat) : F := match n with O => 0 | S k => ofnat k + 1 end.
Definition tU (i : nat) : F := xmin + (ofnat i - three) * dx.

Lemma ofnat_add a b : ofnat (a + b) = ofnat a + ofnat b.
Proof. induction a as [|a IH]; cbn [Nat.add ofnat]; [ring|]. rewrite IH. ring. Qed.

Variable s : nat.
Variable o : F.
Let x := tU s + o * dx.
Notation Lk := (L F fsub tU x s).
Notation Rk := (R F fsub tU x s).

Lemma L_uniform k : (k <= s)%nat -> Lk k = (o + ofnat k) * dx.
Proof. intros H. unfold L, x, tU.
  replace (ofnat s) with (ofnat (s - k) + ofnat k) by (rewrite <- ofnat_add; f_equal; lia). ring. Qed.
Lemma R_uniform k : Rk k = (1 - o + ofnat k) * dx.
Proof. unfold R, x, tU. rewrite !ofnat_add. cbn [ofnat]. ring. Qed.

Lemma mul_ne0 a b : a <> 0 -> b <> 0 -> a * b <> 0.
Proof. intros Ha Hb E. apply Hb. replace b with ((1 / a) * (a * b)) by (field; exact Ha). rewrite E. ring. Qed.
Lemma nz1 : (1 - o) * dx + o * dx <> 0.
Proof. replace ((1 - o) * dx + o * dx) with dx by ring. exact dx_ne0. Qed.
Lemma nz2 : (1 - o) * dx + (o + 1) * dx <> 0.
Proof. replace ((1 - o) * dx + (o + 1) * dx) with (two * dx) by (unfold two; ring). apply mul_ne0; assumption. Qed.
Lemma nz3 : (1 - o) * dx + (o + (1 + 1)) * dx <> 0.
Proof. replace ((1 - o) * dx + (o + (1 + 1)) * dx) with (three * dx) by (unfold three, two; ring). apply mul_ne0; assumption. Qed.
Lemma nz2' : (1 - o + 1) * dx + o * dx <> 0.
Proof. replace ((1 - o + 1) * dx + o * dx) with (two * dx) by (unfold two; ring). apply mul_ne0; assumption. Qed.
Lemma nz3' : (1 - o + 1) * dx + (o + 1) * dx <> 0.
Proof. replace ((1 - o + 1) * dx + (o + 1) * dx) with (three * dx) by (unfold three, two; ring). apply mul_ne0; assumption. Qed.
Lemma nz3'' : (1 - o + (1 + 1)) * dx + o * dx <> 0.
Proof. replace ((1 - o + (1 + 1)) * dx + o * dx) with (three * dx) by (unfold three, two; ring). apply mul_ne0; assumption. Qed.
Lemma nz6 : (1 + 1) * (1 + (1 + 1)) <> 0.
Proof. apply mul_ne0; [exact two_ne0|]. replace (1 + (1 + 1)) with three by (unfold three, two; ring). exact three_ne0. Qed.

(* on the uniform knot vector, A2.2 at x = t_s + o*dx gives the closed form *)
Theorem cu_eq_general : (3 <= s)%nat ->
  basis_funs F f0 f1 fadd fmul fsub fdiv tU x s 3 = cu_basis o.
Proof.
  intros Hs. unfold basis_funs. cbn [basis_from sweep Nat.sub].
  rewrite !R_uniform. rewrite !L_uniform by lia.
  unfold cu_basis. cbn [ofnat]. unfold six, three, two in *.
  pose proof nz1; pose proof nz2; pose proof nz3; pose proof nz2'; pose proof nz3'; pose proof nz3''; pose proof nz6.
  f_equal; [field; repeat split; assumption|].
  f_equal; [field; repeat split; assumption|].
  f_equal; [field; repeat split; assumption|].
  f_equal. field; repeat split; assumption.
Qed.
End CU.
