(** C01/C03: whole-memory view of the transposes.  A memory [mems] gives, for every process, one flat array
    (all of it: the block, the padding and whatever lies beyond).  [fr E m1 m2]: same lengths and identical
    contents of process r at every address >= E r.  Generic lift of the frame of a single step to the two multi-step
    redirects (_transposeRedirect: ping-pong between source and dest, final dest[:] = source on even
    length; _transposeRedirect_source_intact: first step chosen by parity, source never an output). *)
From Coq Require Import List Arith Lia PeanoNat Bool.
Import ListNotations.

Lemma last_cons_m {A : Type} (x : A) r dv : last (x :: r) dv = last r x.
Proof.
  revert x dv. induction r as [|y r IH]; intros x dv; [reflexivity|].
  change (last (x :: y :: r) dv) with (last (y :: r) dv). rewrite !IH. reflexivity.
Qed.

Section FrameMem.
Variable V : Type.
Variable dflt : V.

Definition mems := list (list V).
Definition cell (m : mems) (r A : nat) : V := nth A (nth r m []) dflt.
Definition same_len (m1 m2 : mems) : Prop :=
  length m1 = length m2 /\ forall r, length (nth r m1 []) = length (nth r m2 []).
Definition fr (E : nat -> nat) (m1 m2 : mems) : Prop :=
  same_len m1 m2 /\ forall r A, E r <= A -> cell m1 r A = cell m2 r A.

Lemma same_len_refl m : same_len m m. Proof. split; reflexivity. Qed.
Lemma same_len_sym m1 m2 : same_len m1 m2 -> same_len m2 m1.
Proof. intros [H1 H2]. split; [symmetry; exact H1|intros; symmetry; apply H2]. Qed.
Lemma same_len_trans m1 m2 m3 : same_len m1 m2 -> same_len m2 m3 -> same_len m1 m3.
Proof. intros [H1 H2] [H3 H4]. split; [congruence|intros; rewrite H2; apply H4]. Qed.
Lemma fr_refl E m : fr E m m. Proof. split; [apply same_len_refl|reflexivity]. Qed.
Lemma fr_sym E m1 m2 : fr E m1 m2 -> fr E m2 m1.
Proof. intros [H1 H2]. split; [apply same_len_sym, H1|intros; symmetry; apply H2; assumption]. Qed.
Lemma fr_trans E m1 m2 m3 : fr E m1 m2 -> fr E m2 m3 -> fr E m1 m3.
Proof. intros [H1 H2] [H3 H4]. split; [eapply same_len_trans; eassumption|intros; rewrite H2 by assumption; apply H4; assumption]. Qed.
Lemma fr_mono E E' m1 m2 : (forall r, E r <= E' r) -> fr E m1 m2 -> fr E' m1 m2.
Proof. intros H [H1 H2]. split; [exact H1|intros r A HA; apply H2; specialize (H r); lia]. Qed.

(** a new memory of the same lengths whose cell (r, A) is [f r A] *)
Definition mat (f : nat -> nat -> V) (old : mems) : mems :=
  map (fun r => map (f r) (seq 0 (length (nth r old [])))) (seq 0 (length old)).

Lemma mat_row f old r : r < length old ->
  nth r (mat f old) [] = map (f r) (seq 0 (length (nth r old []))).
Proof.
  intros H. unfold mat.
  rewrite (nth_indep _ [] ((fun r => map (f r) (seq 0 (length (nth r old [])))) 0))
    by (rewrite map_length, seq_length; exact H).
  rewrite (map_nth (fun r => map (f r) (seq 0 (length (nth r old []))))), seq_nth by exact H. reflexivity.
Qed.

Lemma mat_same_len f old : same_len (mat f old) old.
Proof.
  split; [unfold mat; rewrite map_length, seq_length; reflexivity|].
  intros r. destruct (Nat.lt_ge_cases r (length old)) as [H|H].
  - rewrite mat_row by exact H. rewrite map_length, seq_length. reflexivity.
  - rewrite !nth_overflow; [reflexivity|exact H|unfold mat; rewrite map_length, seq_length; exact H].
Qed.

Lemma mat_cell f old r A : r < length old -> A < length (nth r old []) -> cell (mat f old) r A = f r A.
Proof.
  intros Hr HA. unfold cell. rewrite mat_row by exact Hr.
  rewrite (nth_indep _ dflt (f r 0)) by (rewrite map_length, seq_length; exact HA).
  rewrite map_nth, seq_nth by exact HA. reflexivity.
Qed.

Lemma cell_overflow_row m r A : length (nth r m []) <= A -> cell m r A = dflt.
Proof. intros H. unfold cell. apply nth_overflow, H. Qed.

(** [mat f old] agrees with [old] wherever [f] reproduces the old cell *)
Lemma mat_fr E f old :
  (forall r A, r < length old -> A < length (nth r old []) -> E r <= A -> f r A = cell old r A) ->
  fr E (mat f old) old.
Proof.
  intros H. split; [apply mat_same_len|]. intros r A HE.
  destruct (Nat.lt_ge_cases r (length old)) as [Hr|Hr].
  - destruct (Nat.lt_ge_cases A (length (nth r old []))) as [HA|HA].
    + rewrite mat_cell by assumption. apply H; assumption.
    + rewrite !cell_overflow_row; [reflexivity|exact HA|].
      destruct (mat_same_len f old) as [_ Hl]. rewrite Hl. exact HA.
  - unfold cell. rewrite (nth_overflow old) by exact Hr.
    rewrite (nth_overflow (mat f old)) by (unfold mat; rewrite map_length, seq_length; exact Hr). reflexivity.
Qed.

(** ** redirects over abstract single steps *)
Variable L : Type.
Variable plain : L -> L -> mems -> mems -> mems * mems.            (* from to |-> (from', to') *)
Variable intact : L -> L -> mems -> mems -> mems -> mems * mems.   (* from to scratch |-> (to', scratch'); from is not an output *)
Variable ok : L -> L -> bool.
Variable E : nat -> nat.
(** [Wm]: the memory is large enough (a property of the lengths only) *)
Variable Wm : mems -> Prop.
Hypothesis Wm_len : forall m1 m2, same_len m1 m2 -> Wm m1 -> Wm m2.

Hypothesis plain_fr : forall l l' f t, ok l l' = true -> Wm f -> Wm t ->
  fr E f (fst (plain l l' f t)) /\ fr E t (snd (plain l l' f t)).
Hypothesis intact_fr : forall l l' f t s, ok l l' = true -> Wm f -> Wm t -> Wm s ->
  fr E t (fst (intact l l' f t s)) /\ fr E s (snd (intact l l' f t s)).

Lemma Wm_fr m1 m2 : fr E m1 m2 -> Wm m1 -> Wm m2.
Proof. intros [H _]. apply Wm_len, H. Qed.

(** ping-pong: the first component of the result is the array that holds the data after the last step *)
Fixpoint pingpong_m (cur : L) (steps : list L) (from to : mems) : mems * mems :=
  match steps with
  | [] => (from, to)
  | nxt :: r => pingpong_m nxt r (snd (plain cur nxt from to)) (fst (plain cur nxt from to))
  end.
Fixpoint route_ok (cur : L) (steps : list L) : bool :=
  match steps with
  | [] => true
  | nxt :: r => ok cur nxt && route_ok nxt r
  end.

(** _transposeRedirect(source, dest): returns the arrays (source, dest) afterwards *)
Definition redirect_m (cur : L) (steps : list L) (src dst : mems) : mems * mems :=
  let ab := pingpong_m cur steps src dst in
  if Nat.even (length steps) then (fst ab, fst ab) else (snd ab, fst ab).
(** _transposeRedirect_source_intact(source, dest, buf): returns (dest, buf) afterwards *)
Definition redirect_intact_m (cur : L) (steps : list L) (src dst buf : mems) : mems * mems :=
  match steps with
  | [] => (dst, buf)
  | l1 :: r =>
      if Nat.even (length steps)
      then let x := intact cur l1 src buf dst in pingpong_m l1 r (fst x) (snd x)
      else let x := intact cur l1 src dst buf in pingpong_m l1 r (fst x) (snd x)
  end.

(** LayoutHandler.transpose / LayoutSwapper.transpose: same layout = copy of the block; one step = the direct
    transpose; otherwise the redirect.  Returns the three arrays (source, dest, buf) afterwards. *)
Definition transpose_m (copy : L -> mems -> mems -> mems) (cur : L) (steps : list L) (use_buf : bool)
  (src dst buf : mems) : mems * mems * mems :=
  match steps with
  | [] => (src, copy cur src dst, buf)
  | _ => if use_buf then let x := redirect_intact_m cur steps src dst buf in (src, fst x, snd x)
         else let x := redirect_m cur steps src dst in (fst x, snd x, buf)
  end.

(** with a spare buffer the source array is returned as it was given: every cell, on every process *)
Lemma transpose_m_src_same copy cur steps src dst buf :
  fst (fst (transpose_m copy cur steps true src dst buf)) = src.
Proof. unfold transpose_m. destruct steps; reflexivity. Qed.
(** and the spare buffer is not an argument of a transpose without one *)
Lemma transpose_m_buf_same copy cur steps src dst buf :
  snd (transpose_m copy cur steps false src dst buf) = buf.
Proof. unfold transpose_m. destruct steps; reflexivity. Qed.

Lemma pingpong_fr : forall steps cur f t, route_ok cur steps = true -> Wm f -> Wm t ->
  if Nat.even (length steps)
  then fr E f (fst (pingpong_m cur steps f t)) /\ fr E t (snd (pingpong_m cur steps f t))
  else fr E t (fst (pingpong_m cur steps f t)) /\ fr E f (snd (pingpong_m cur steps f t)).
Proof.
  induction steps as [|nxt r IH]; intros cur f t Hok Wf Wt; cbn [pingpong_m length].
  - cbn. split; apply fr_refl.
  - cbn [route_ok] in Hok. apply andb_prop in Hok. destruct Hok as [H1 H2].
    destruct (plain_fr cur nxt f t H1 Wf Wt) as [Hf Ht].
    specialize (IH nxt (snd (plain cur nxt f t)) (fst (plain cur nxt f t)) H2 (Wm_fr _ _ Ht Wt) (Wm_fr _ _ Hf Wf)).
    rewrite Nat.even_succ, <- Nat.negb_even. destruct (Nat.even (length r)); cbn [negb].
    + destruct IH as [Ha Hb]. split; [eapply fr_trans; eassumption|eapply fr_trans; eassumption].
    + destruct IH as [Ha Hb]. split; [eapply fr_trans; eassumption|eapply fr_trans; eassumption].
Qed.

(** without a spare buffer: beyond E the source array is untouched; the dest array is untouched too when the
    route is odd, and is a copy of the whole source array (the final dest[:] = source) when it is even *)
Theorem redirect_frame cur steps src dst : route_ok cur steps = true -> Wm src -> Wm dst ->
  fr E src (fst (redirect_m cur steps src dst)) /\
  (if Nat.even (length steps) then snd (redirect_m cur steps src dst) = fst (redirect_m cur steps src dst)
   else fr E dst (snd (redirect_m cur steps src dst))).
Proof.
  intros Hok Ws Wd. pose proof (pingpong_fr steps cur src dst Hok Ws Wd) as H. unfold redirect_m.
  destruct (Nat.even (length steps)); cbn [fst snd]; destruct H as [Ha Hb].
  - split; [exact Ha|reflexivity].
  - split; assumption.
Qed.

(** with a spare buffer: the source array is not an output at all; dest and buf are untouched beyond E *)
Theorem redirect_intact_frame cur steps src dst buf : route_ok cur steps = true -> Wm src -> Wm dst -> Wm buf ->
  fr E dst (fst (redirect_intact_m cur steps src dst buf)) /\
  fr E buf (snd (redirect_intact_m cur steps src dst buf)).
Proof.
  intros Hok Ws Wd Wb. destruct steps as [|l1 r]; [split; apply fr_refl|].
  cbn [route_ok] in Hok. apply andb_prop in Hok. destruct Hok as [H1 H2].
  unfold redirect_intact_m. cbn [length]. rewrite Nat.even_succ, <- Nat.negb_even.
  destruct (Nat.even (length r)) eqn:Ev; cbn [negb].
  - (* odd route: intact(source, dest, buf); an even number of plain steps follows, the result stays in dest *)
    destruct (intact_fr cur l1 src dst buf H1 Ws Wd Wb) as [Hd Hb].
    pose proof (pingpong_fr r l1 (fst (intact cur l1 src dst buf)) (snd (intact cur l1 src dst buf)) H2
                  (Wm_fr _ _ Hd Wd) (Wm_fr _ _ Hb Wb)) as H.
    rewrite Ev in H. destruct H as [Ha Hc]. split; eapply fr_trans; eassumption.
  - (* even route: intact(source, buf, dest); an odd number of plain steps follows, the result lands in dest *)
    destruct (intact_fr cur l1 src buf dst H1 Ws Wb Wd) as [Hb Hd].
    pose proof (pingpong_fr r l1 (fst (intact cur l1 src buf dst)) (snd (intact cur l1 src buf dst)) H2
                  (Wm_fr _ _ Hb Wb) (Wm_fr _ _ Hd Wd)) as H.
    rewrite Ev in H. destruct H as [Ha Hc]. split; eapply fr_trans; eassumption.
Qed.

(** ** the data: any predicate on (layout, memory) that every acceptable step transports *)
Variable Hd : L -> mems -> Prop.
Hypothesis plain_hd : forall l l' f t, ok l l' = true -> Wm f -> Wm t -> Hd l f -> Hd l' (snd (plain l l' f t)).
Hypothesis intact_hd : forall l l' f t s, ok l l' = true -> Wm f -> Wm t -> Wm s -> Hd l f -> Hd l' (fst (intact l l' f t s)).

Lemma pingpong_hd : forall steps cur f t, route_ok cur steps = true -> Wm f -> Wm t -> Hd cur f ->
  Hd (last steps cur) (fst (pingpong_m cur steps f t)).
Proof.
  induction steps as [|nxt r IH]; intros cur f t Hok Wf Wt H; cbn [pingpong_m]; [exact H|].
  cbn [route_ok] in Hok. apply andb_prop in Hok. destruct Hok as [H1 H2].
  destruct (plain_fr cur nxt f t H1 Wf Wt) as [Hf Ht].
  rewrite last_cons_m. apply IH; [exact H2|exact (Wm_fr _ _ Ht Wt)|exact (Wm_fr _ _ Hf Wf)|]. apply plain_hd; assumption.
Qed.

Theorem redirect_hd cur steps src dst : route_ok cur steps = true -> Wm src -> Wm dst -> Hd cur src ->
  Hd (last steps cur) (snd (redirect_m cur steps src dst)).
Proof.
  intros Hok Ws Wd H. pose proof (pingpong_hd steps cur src dst Hok Ws Wd H) as HH. unfold redirect_m.
  destruct (Nat.even (length steps)); exact HH.
Qed.

Theorem redirect_intact_hd cur steps src dst buf : steps <> [] -> route_ok cur steps = true ->
  Wm src -> Wm dst -> Wm buf -> Hd cur src ->
  Hd (last steps cur) (fst (redirect_intact_m cur steps src dst buf)).
Proof.
  intros Hne Hok Ws Wd Wb H. destruct steps as [|l1 r]; [contradiction|].
  cbn [route_ok] in Hok. apply andb_prop in Hok. destruct Hok as [H1 H2].
  assert (El : last (l1 :: r) cur = last r l1) by apply last_cons_m.
  rewrite El. unfold redirect_intact_m. destruct (Nat.even (length (l1 :: r))).
  - destruct (intact_fr cur l1 src buf dst H1 Ws Wb Wd) as [Hb Hdd].
    apply pingpong_hd; [exact H2|exact (Wm_fr _ _ Hb Wb)|exact (Wm_fr _ _ Hdd Wd)|]. apply intact_hd; assumption.
  - destruct (intact_fr cur l1 src dst buf H1 Ws Wd Wb) as [Hdd Hb].
    apply pingpong_hd; [exact H2|exact (Wm_fr _ _ Hdd Wd)|exact (Wm_fr _ _ Hb Wb)|]. apply intact_hd; assumption.
Qed.

End FrameMem.

(** ** the same lift for steps with a weaker frame (LayoutSwapper: the gather without a spare buffer ends with
    dest[:] = source[:], so beyond E the dest array then holds the *source* array's old cells).
    [among E a l]: beyond E the array [a] coincides with one of the arrays of [l] (same lengths). *)
Section FrameMemW.
Variable V : Type.
Variable dflt : V.
Notation mems := (mems V).
Notation fr := (fr V dflt).
Variable L : Type.
Variable plain : L -> L -> mems -> mems -> mems * mems.
Variable intact : L -> L -> mems -> mems -> mems -> mems * mems.
Variable ok : L -> L -> bool.
Variable E : nat -> nat.
Variable Wm : mems -> Prop.
Hypothesis Wm_len : forall m1 m2, same_len V m1 m2 -> Wm m1 -> Wm m2.

Definition among (a : mems) (l : list mems) : Prop := exists b, In b l /\ fr E b a.

Hypothesis plain_frw : forall l l' f t, ok l l' = true -> Wm f -> Wm t ->
  fr E f (fst (plain l l' f t)) /\ (fr E t (snd (plain l l' f t)) \/ fr E f (snd (plain l l' f t))).
Hypothesis intact_frw : forall l l' f t s, ok l l' = true -> Wm f -> Wm t -> Wm s ->
  fr E t (fst (intact l l' f t s)) /\ fr E s (snd (intact l l' f t s)).

Lemma Wm_frw m1 m2 : fr E m1 m2 -> Wm m1 -> Wm m2.
Proof. intros [H _]. apply Wm_len, H. Qed.

Lemma among_trans a b l : fr E a b -> among a l -> among b l.
Proof. intros H [c [Hc Hf]]. exists c. split; [exact Hc|eapply fr_trans; eassumption]. Qed.

Lemma pingpong_among : forall steps cur f t l, route_ok L ok cur steps = true -> Wm f -> Wm t ->
  among f l -> among t l ->
  among (fst (pingpong_m V L plain cur steps f t)) l /\ among (snd (pingpong_m V L plain cur steps f t)) l /\
  Wm (fst (pingpong_m V L plain cur steps f t)) /\ Wm (snd (pingpong_m V L plain cur steps f t)).
Proof.
  induction steps as [|nxt r IH]; intros cur f t l Hok Wf Wt Af At; cbn [pingpong_m].
  - cbn. repeat split; assumption.
  - cbn [route_ok] in Hok. apply andb_prop in Hok. destruct Hok as [H1 H2].
    destruct (plain_frw cur nxt f t H1 Wf Wt) as [Hf Ht].
    assert (Wt' : Wm (snd (plain cur nxt f t))) by (destruct Ht as [Ht|Ht]; eapply Wm_frw; eassumption).
    assert (At' : among (snd (plain cur nxt f t)) l) by (destruct Ht as [Ht|Ht]; eapply among_trans; eassumption).
    apply IH; [exact H2|exact Wt'|exact (Wm_frw _ _ Hf Wf)|exact At'|exact (among_trans _ _ _ Hf Af)].
Qed.

(** without a spare buffer: beyond E each of the two arrays holds what the source or the dest array held *)
Theorem redirect_among cur steps src dst : route_ok L ok cur steps = true -> Wm src -> Wm dst ->
  among (fst (redirect_m V L plain cur steps src dst)) [src; dst] /\
  among (snd (redirect_m V L plain cur steps src dst)) [src; dst].
Proof.
  intros Hok Ws Wd.
  destruct (pingpong_among steps cur src dst [src; dst] Hok Ws Wd) as [Ha [Hb _]].
  - exists src. split; [left; reflexivity|apply fr_refl].
  - exists dst. split; [right; left; reflexivity|apply fr_refl].
  - unfold redirect_m. destruct (Nat.even (length steps)); cbn [fst snd]; split; assumption.
Qed.

(** with a spare buffer: the source array is no output; beyond E dest and buf hold what dest or buf held *)
Theorem redirect_intact_among cur steps src dst buf : route_ok L ok cur steps = true -> Wm src -> Wm dst -> Wm buf ->
  among (fst (redirect_intact_m V L plain intact cur steps src dst buf)) [dst; buf] /\
  among (snd (redirect_intact_m V L plain intact cur steps src dst buf)) [dst; buf].
Proof.
  intros Hok Ws Wd Wb.
  assert (Ad : among dst [dst; buf]) by (exists dst; split; [left; reflexivity|apply fr_refl]).
  assert (Ab : among buf [dst; buf]) by (exists buf; split; [right; left; reflexivity|apply fr_refl]).
  destruct steps as [|l1 r]; [split; assumption|].
  cbn [route_ok] in Hok. apply andb_prop in Hok. destruct Hok as [H1 H2].
  unfold redirect_intact_m. destruct (Nat.even (length (l1 :: r))).
  - destruct (intact_frw cur l1 src buf dst H1 Ws Wb Wd) as [Hb Hd].
    destruct (pingpong_among r l1 _ _ [dst; buf] H2 (Wm_frw _ _ Hb Wb) (Wm_frw _ _ Hd Wd)
                (among_trans _ _ _ Hb Ab) (among_trans _ _ _ Hd Ad)) as [Ha [Hc _]]. split; assumption.
  - destruct (intact_frw cur l1 src dst buf H1 Ws Wd Wb) as [Hd Hb].
    destruct (pingpong_among r l1 _ _ [dst; buf] H2 (Wm_frw _ _ Hd Wd) (Wm_frw _ _ Hb Wb)
                (among_trans _ _ _ Hd Ad) (among_trans _ _ _ Hb Ab)) as [Ha [Hc _]]. split; assumption.
Qed.

(** the data *)
Variable Hd : L -> mems -> Prop.
Hypothesis plain_hd : forall l l' f t, ok l l' = true -> Wm f -> Wm t -> Hd l f -> Hd l' (snd (plain l l' f t)).
Hypothesis intact_hd : forall l l' f t s, ok l l' = true -> Wm f -> Wm t -> Wm s -> Hd l f -> Hd l' (fst (intact l l' f t s)).

Lemma pingpong_hdw : forall steps cur f t, route_ok L ok cur steps = true -> Wm f -> Wm t -> Hd cur f ->
  Hd (last steps cur) (fst (pingpong_m V L plain cur steps f t)).
Proof.
  induction steps as [|nxt r IH]; intros cur f t Hok Wf Wt H; cbn [pingpong_m]; [exact H|].
  cbn [route_ok] in Hok. apply andb_prop in Hok. destruct Hok as [H1 H2].
  destruct (plain_frw cur nxt f t H1 Wf Wt) as [Hf Ht].
  assert (Wt' : Wm (snd (plain cur nxt f t))) by (destruct Ht as [Ht|Ht]; eapply Wm_frw; eassumption).
  rewrite last_cons_m. apply IH; [exact H2|exact Wt'|exact (Wm_frw _ _ Hf Wf)|]. apply plain_hd; assumption.
Qed.

Theorem redirect_hdw cur steps src dst : route_ok L ok cur steps = true -> Wm src -> Wm dst -> Hd cur src ->
  Hd (last steps cur) (snd (redirect_m V L plain cur steps src dst)).
Proof.
  intros Hok Ws Wd H. pose proof (pingpong_hdw steps cur src dst Hok Ws Wd H) as HH. unfold redirect_m.
  destruct (Nat.even (length steps)); exact HH.
Qed.

Theorem redirect_intact_hdw cur steps src dst buf : steps <> [] -> route_ok L ok cur steps = true ->
  Wm src -> Wm dst -> Wm buf -> Hd cur src ->
  Hd (last steps cur) (fst (redirect_intact_m V L plain intact cur steps src dst buf)).
Proof.
  intros Hne Hok Ws Wd Wb H. destruct steps as [|l1 r]; [contradiction|].
  cbn [route_ok] in Hok. apply andb_prop in Hok. destruct Hok as [H1 H2].
  rewrite last_cons_m. unfold redirect_intact_m. destruct (Nat.even (length (l1 :: r))).
  - destruct (intact_frw cur l1 src buf dst H1 Ws Wb Wd) as [Hb Hdd].
    apply pingpong_hdw; [exact H2|exact (Wm_frw _ _ Hb Wb)|exact (Wm_frw _ _ Hdd Wd)|]. apply intact_hd; assumption.
  - destruct (intact_frw cur l1 src dst buf H1 Ws Wd Wb) as [Hdd Hb].
    apply pingpong_hdw; [exact H2|exact (Wm_frw _ _ Hdd Wd)|exact (Wm_frw _ _ Hb Wb)|]. apply intact_hd; assumption.
Qed.
End FrameMemW.
