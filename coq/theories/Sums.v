From Coq Require Import List Arith Lia Field Ring PeanoNat.
From PGV Require Import Blocks.

Section Sums.
Variable F : Type.
Variables (f0 f1 : F) (fadd fmul fsub fdiv : F -> F -> F) (fopp finv : F -> F).
Hypothesis Fth : field_theory f0 f1 fadd fmul fsub fopp fdiv finv (@eq F).
Add Field FF4 : Fth.
Declare Scope F_scope. Delimit Scope F_scope with F.
Notation "x + y" := (fadd x y) : F_scope. Notation "x * y" := (fmul x y) : F_scope. Notation "'o" := f0.
Open Scope F_scope.

(* sum of f over [a, a+k) *)
Fixpoint sumr (a k : nat) (f : nat -> F) : F := match k with O => 'o | S k' => f a + sumr (S a) k' f end.

Lemma sumr_app a k1 k2 f : sumr a (k1 + k2)%nat f = sumr a k1 f + sumr (a + k1)%nat k2 f.
Proof. revert a. induction k1 as [|k1 IH]; intros a; cbn [sumr Nat.add].
  - rewrite Nat.add_0_r. ring.
  - rewrite IH. replace (S a + k1)%nat with (a + S k1)%nat by lia. ring. Qed.

Lemma sumr_ext a k f g : (forall i, (a <= i < a + k)%nat -> f i = g i) -> sumr a k f = sumr a k g.
Proof. revert a. induction k as [|k IH]; intros a H; cbn [sumr]; [reflexivity|].
  rewrite H by lia. rewrite IH; [reflexivity|]. intros; apply H; lia. Qed.

(* C17 core: the local weighted sums over the blocks of a balanced decomposition add up to the
   global weighted sum (weights and field both sliced [start:end], as norms.py / energy.py do) *)
Theorem sum_over_blocks n p (w g : nat -> F) : (0 < p)%nat ->
  sumr 0 p (fun k => sumr (bstart n p k) (blen n p k) (fun i => w i * g i)) = sumr 0 n (fun i => w i * g i).
Proof.
  intros Hp.
  assert (H : forall m, (m <= p)%nat ->
    sumr 0 m (fun k => sumr (bstart n p k) (blen n p k) (fun i => w i * g i))
    = sumr 0 (bstart n p m) (fun i => w i * g i)).
  { induction m as [|m IH]; intros Hm.
    - rewrite bstart_0. reflexivity.
    - replace (S m) with (m + 1)%nat at 1 by lia. rewrite sumr_app, IH by lia. cbn [sumr Nat.add].
      rewrite <- (bstart_blen n p m Hp), sumr_app. cbn [Nat.add]. ring. }
  rewrite H by lia. rewrite bstart_p by exact Hp. reflexivity.
Qed.

(* C09 core: quadrature weights obtained from the transposed collocation system integrate the
   interpolant:  C^T w = I  and  C c = u   ==>   sum_i w_i u_i = sum_j I_j c_j *)
Fixpoint sumn (n : nat) (f : nat -> F) : F := match n with O => 'o | S k => sumn k f + f k end.
Lemma sumn_ext n f g : (forall k, (k < n)%nat -> f k = g k) -> sumn n f = sumn n g.
Proof. induction n; intros H; cbn; [reflexivity|]. rewrite IHn, H by (intros; try apply H; lia). reflexivity. Qed.
Lemma sumn_add n f g : sumn n (fun k => f k + g k) = sumn n f + sumn n g.
Proof. induction n; cbn; [ring|]. rewrite IHn. ring. Qed.
Lemma sumn_scale n a f : sumn n (fun k => a * f k) = a * sumn n f.
Proof. induction n; cbn; [ring|]. rewrite IHn. ring. Qed.
Lemma sumn_swap n m (f : nat -> nat -> F) :
  sumn n (fun i => sumn m (fun j => f i j)) = sumn m (fun j => sumn n (fun i => f i j)).
Proof. induction n; cbn.
  - induction m; cbn; [reflexivity|]. rewrite <- IHm. ring.
  - rewrite IHn, <- sumn_add. reflexivity. Qed.

Theorem weights_dual n (C : nat -> nat -> F) (w u c I : nat -> F) :
  (forall j, (j < n)%nat -> sumn n (fun i => C i j * w i) = I j) ->     (* C^T w = I  (trans='T' solve) *)
  (forall i, (i < n)%nat -> sumn n (fun j => C i j * c j) = u i) ->     (* C c = u    (interpolation)   *)
  sumn n (fun i => w i * u i) = sumn n (fun j => I j * c j).
Proof.
  intros HT HC.
  rewrite (sumn_ext n _ (fun i => sumn n (fun j => w i * (C i j * c j)))).
  2:{ intros i Hi. rewrite <- HC by exact Hi. rewrite sumn_scale. reflexivity. }
  rewrite sumn_swap. apply sumn_ext. intros j Hj. rewrite <- HT by exact Hj.
  replace (sumn n (fun i => C i j * w i) * c j) with (c j * sumn n (fun i => C i j * w i)) by ring.
  rewrite <- sumn_scale. apply sumn_ext. intros; ring.
Qed.
End Sums.
