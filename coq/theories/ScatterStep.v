(** C03: the scatter branch of LayoutSwapper._transpose (layout.py:1311-1339, 1418-1446).
    The destination handler is distributed along one communicator X more than the source handler;
    the source is whole along the dimension that X distributes, so every process already owns what it
    needs:   start, length = layout_dest.mpi_starts(idx_d)[rank], layout_dest.mpi_lengths(idx_d)[rank]
             destView[:] = transpose(sourceView[..., start:start+length, ...], transposition)
    Gather form: cell j' of the destination receives source cell j with
             j[idx_s] = j'[idx_d] + start,   j[a] = j'[ipi' (pi a)]  for the other axes.
    Same style and hypotheses as GatherStep.v with the roles of source and destination exchanged.
    Ranks are abstract; [valid] singles out the processes that exist (GatherStep quantifies over all
    inhabitants of [rank]; here every statement is relativised so that the theorem can be instantiated
    at coordinate functions, see SwapperExec.v). *)
From Coq Require Import List Arith Lia PeanoNat Bool.
Import ListNotations.
From PGV Require Import NdIndex Blocks.

Section Scatter.
Variable V : Type.
Variable d : nat.
Variable N : nat -> nat.                  (* extent of global dimension e *)
Variables pi ipi pi' ipi' : nat -> nat.   (* dims orders of source / destination and inverses *)
Variable is_ : nat.                       (* source axis holding the dimension that becomes distributed (idx_s) *)
Variable rank : Type.
Variable valid : rank -> Prop.
Variable PSa : nat -> nat.                (* processes along source axis a *)
Variable PDa : nat -> nat.                (* processes along destination axis a *)
Variable coS : rank -> nat -> nat.        (* coordinate of a process along source axis a *)
Variable coD : rank -> nat -> nat.        (* coordinate along destination axis a *)

Hypothesis His : is_ < d.
Hypothesis Hpi : forall a, a < d -> pi a < d /\ ipi (pi a) = a.
Hypothesis Hipi : forall e, e < d -> ipi e < d /\ pi (ipi e) = e.
Hypothesis Hipi' : forall e, e < d -> ipi' e < d /\ pi' (ipi' e) = e.
Let id_ := ipi' (pi is_).                 (* destination axis distributed along X (idx_d) *)
Let p := PDa id_.
Let n0 := N (pi is_).

(* what _compatibleLayout / getAxes are meant to establish *)
Hypothesis Hsame : forall q a, valid q -> a < d -> a <> is_ ->
  PDa (ipi' (pi a)) = PSa a /\ coD q (ipi' (pi a)) = coS q a.
Hypothesis Hfull : PSa is_ = 1 /\ forall q, valid q -> coS q is_ = 0.
Hypothesis HvalidX : forall q, valid q -> coD q id_ < p.

Definition sc_shS (q : rank) (a : nat) := blen (N (pi a)) (PSa a) (coS q a).
Definition sc_shD (q : rank) (a : nat) := blen (N (pi' a)) (PDa a) (coD q a).

Variable G : list nat -> V.
Variable src : rank -> nat -> V.

Definition sc_globS q j := mk d (fun e => rd j (ipi e) + bstart (N e) (PSa (ipi e)) (coS q (ipi e))).
Definition sc_globD q j := mk d (fun e => rd j (ipi' e) + bstart (N e) (PDa (ipi' e)) (coD q (ipi' e))).
Definition sc_Holds_src := forall q, valid q -> forall j, inb (mk d (sc_shS q)) j ->
  src q (ravel (mk d (sc_shS q)) j) = G (sc_globS q j).

(* the slice [start : start+length] of the replicated source, transposed *)
Definition sc_dst (q : rank) (A' : nat) : V :=
  let j' := unravel (mk d (sc_shD q)) A' in
  let start := bstart n0 p (coD q id_) in
  src q (ravel (mk d (sc_shS q))
               (mk d (fun a => if a =? is_ then rd j' id_ + start else rd j' (ipi' (pi a))))).
Definition sc_Holds_dst := forall q, valid q -> forall j', inb (mk d (sc_shD q)) j' ->
  sc_dst q (ravel (mk d (sc_shD q)) j') = G (sc_globD q j').

Lemma sc_id_lt : id_ < d. Proof. unfold id_. apply Hipi', Hpi, His. Qed.
Lemma sc_pi'_id : pi' id_ = pi is_. Proof. unfold id_. apply Hipi', Hpi, His. Qed.

Lemma sc_bstart_S_le n k : S k <= p -> bstart n p (S k) <= n.
Proof. intros H. assert (Hp : 0 < p) by lia.
  pose proof (bstart_mono n p (S k) p Hp H) as H1. rewrite bstart_p in H1 by exact Hp. exact H1. Qed.

Theorem scatter_correct : sc_Holds_src -> sc_Holds_dst.
Proof.
  intros HS q Hq j' Hj'.
  unfold sc_dst. rewrite (unravel_ravel _ _ Hj').
  pose proof (inb_mk_inv _ _ _ Hj') as Hjlt.
  pose proof sc_id_lt as Hid. destruct Hfull as [HPis Hcis].
  pose proof (HvalidX q Hq) as Hk. set (k := coD q id_) in *.
  assert (Hp : 0 < p) by lia.
  set (I := fun a => if a =? is_ then rd j' id_ + bstart n0 p k else rd j' (ipi' (pi a))).
  assert (Hinb : inb (mk d (sc_shS q)) (mk d I)).
  { apply inb_mk. intros a Ha. unfold I.
    destruct (Nat.eqb_spec a is_) as [->|Hne].
    - unfold sc_shS. rewrite HPis, (Hcis q Hq). rewrite blen_one by reflexivity. fold n0.
      pose proof (Hjlt id_ Hid) as H. unfold sc_shD in H. rewrite sc_pi'_id in H. fold n0 p k in H.
      pose proof (bstart_blen n0 p k Hp). pose proof (sc_bstart_S_le n0 k ltac:(lia)). lia.
    - destruct (Hsame q a Hq Ha Hne) as [E1 E2].
      destruct (Hpi a Ha) as [Hpa _]. destruct (Hipi' _ Hpa) as [Hx Hy].
      pose proof (Hjlt _ Hx) as H. unfold sc_shD in H. rewrite Hy, E1, E2 in H. exact H. }
  rewrite (HS q Hq _ Hinb). f_equal.
  unfold sc_globS, sc_globD. apply mk_ext. intros e He.
  destruct (Hipi e He) as [Hae Hpe]. rewrite rd_mk by exact Hae. unfold I.
  destruct (Nat.eqb_spec (ipi e) is_) as [E|E].
  - assert (e = pi is_) by (rewrite <- Hpe, E; reflexivity). subst e.
    rewrite E, HPis, (Hcis q Hq), bstart_0. fold id_ n0 p k. lia.
  - destruct (Hsame q (ipi e) Hq Hae E) as [E1 E2]. rewrite Hpe in E1, E2. rewrite E1, E2, Hpe. reflexivity.
Qed.

End Scatter.

(** The branch "same number of distributed directions" (layout.py:1297-1309, 1404-1416): the two handlers
    distribute the same dimensions over the same communicators (possibly at different layout axes), so the
    change of layout is a local transpose:  destView[:] = transpose(sourceView, transposition). *)
Section Same.
Variable V : Type.
Variable d : nat.
Variable N : nat -> nat.
Variables pi ipi pi' ipi' : nat -> nat.
Variable rank : Type.
Variable valid : rank -> Prop.
Variable PSa : nat -> nat.
Variable PDa : nat -> nat.
Variable coS : rank -> nat -> nat.
Variable coD : rank -> nat -> nat.

Hypothesis Hpi : forall a, a < d -> pi a < d /\ ipi (pi a) = a.
Hypothesis Hipi : forall e, e < d -> ipi e < d /\ pi (ipi e) = e.
Hypothesis Hipi' : forall e, e < d -> ipi' e < d /\ pi' (ipi' e) = e.
Hypothesis Hsame : forall q a, valid q -> a < d ->
  PDa (ipi' (pi a)) = PSa a /\ coD q (ipi' (pi a)) = coS q a.

Variable G : list nat -> V.
Variable src : rank -> nat -> V.

Definition sm_dst (q : rank) (A' : nat) : V :=
  let j' := unravel (mk d (sc_shD N pi' rank PDa coD q)) A' in
  src q (ravel (mk d (sc_shS N pi rank PSa coS q)) (mk d (fun a => rd j' (ipi' (pi a))))).

Theorem same_correct :
  sc_Holds_src V d N pi ipi rank valid PSa coS G src ->
  forall q, valid q -> forall j', inb (mk d (sc_shD N pi' rank PDa coD q)) j' ->
  sm_dst q (ravel (mk d (sc_shD N pi' rank PDa coD q)) j') = G (sc_globD d N ipi' rank PDa coD q j').
Proof.
  intros HS q Hq j' Hj'.
  unfold sm_dst. rewrite (unravel_ravel _ _ Hj').
  pose proof (inb_mk_inv _ _ _ Hj') as Hjlt.
  assert (Hinb : inb (mk d (sc_shS N pi rank PSa coS q)) (mk d (fun a => rd j' (ipi' (pi a))))).
  { apply inb_mk. intros a Ha.
    destruct (Hsame q a Hq Ha) as [E1 E2].
    destruct (Hpi a Ha) as [Hpa _]. destruct (Hipi' _ Hpa) as [Hx Hy].
    pose proof (Hjlt _ Hx) as H. unfold sc_shD in H. rewrite Hy, E1, E2 in H. exact H. }
  rewrite (HS q Hq _ Hinb). f_equal.
  unfold sc_globS, sc_globD. apply mk_ext. intros e He.
  destruct (Hipi e He) as [Hae Hpe]. rewrite rd_mk by exact Hae.
  destruct (Hsame q (ipi e) Hq Hae) as [E1 E2]. rewrite Hpe in E1, E2. rewrite E1, E2, Hpe. reflexivity.
Qed.
End Same.
