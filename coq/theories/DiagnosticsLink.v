(** C17 - the link between the executable model of Diagnostics.v (lists, ravel, weight slices) and the
    abstract block folds: [dg_local] is the fold over the rank's index box of weight product x field
    value, the Reduce over all ranks of the process grid is the serial quadrature ([dg_serial]), R times
    it on a layout replicated R times, the same for minima / maxima, and the order of the axes (any
    permutation [dims_order]) is irrelevant.  *)
From Coq Require Import ZArith List Arith Lia PeanoNat Bool Permutation.
Import ListNotations.
From PGV Require Import Blocks NdIndex Layouts Handler TransposeExec Diagnostics.

(** * 1. Folds over named axes: the order of the axes is irrelevant *)
Definition dg_upd (env : nat -> nat) (x i : nat) : nat -> nat := fun y => if y =? x then i else env y.

Fixpoint dg_bind (names idx : list nat) (env : nat -> nat) : nat -> nat :=
  match names, idx with
  | x :: ns, i :: is => dg_bind ns is (dg_upd env x i)
  | _, _ => env
  end.

Lemma dg_bind_notin names : forall idx env x, ~ In x names -> dg_bind names idx env x = env x.
Proof. induction names as [|n ns IH]; intros [|i is] env x H; cbn [dg_bind]; try reflexivity.
  rewrite IH by (intros K; apply H; right; exact K). unfold dg_upd.
  destruct (Nat.eqb_spec x n) as [->|]; [exfalso; apply H; left; reflexivity|reflexivity]. Qed.

Lemma dg_bind_spec names : forall idx env x, NoDup names -> length idx = length names -> In x names ->
  dg_bind names idx env x = nth (index_of names x) idx 0.
Proof. induction names as [|n ns IH]; intros [|i is] env x Hnd Hl Hin; cbn [length] in Hl; try discriminate; [destruct Hin|].
  inversion Hnd as [|? ? Hni Hnd']; subst. cbn [dg_bind index_of].
  destruct (Nat.eqb_spec n x) as [->|Ne].
  - rewrite dg_bind_notin by exact Hni. unfold dg_upd. rewrite Nat.eqb_refl. reflexivity.
  - destruct Hin as [E|Hin]; [contradiction|]. cbn [nth]. apply IH; [exact Hnd'|lia|exact Hin]. Qed.

Lemma dg_inbox_length rs : forall idx, dg_inbox rs idx -> length idx = length rs.
Proof. induction rs as [|r rs IH]; intros idx H; inversion H; subst; cbn [length]; [reflexivity|]. f_equal. apply IH. assumption. Qed.

Lemma dg_inbox_nth rs : forall idx, dg_inbox rs idx -> forall a, a < length rs ->
  fst (nth a rs (0, 0)) <= nth a idx 0 < fst (nth a rs (0, 0)) + snd (nth a rs (0, 0)).
Proof. induction rs as [|r rs IH]; intros idx H a Ha; cbn [length] in Ha; [lia|].
  inversion H; subst. destruct a as [|a]; cbn [nth fst snd]; [assumption|]. apply IH; [assumption|lia]. Qed.

Lemma dg_index_of_seq d x : x < d -> index_of (seq 0 d) x = x.
Proof. intros Hx. pose proof (index_of_nth (seq 0 d) x (seq_NoDup d 0) ltac:(rewrite seq_length; lia)) as H.
  rewrite seq_nth in H by lia. exact H. Qed.

Section DgEnv.
Context {M : Type}.
Variable op : M -> M -> M.
Variable e : M.
Hypothesis op_assoc : forall a b c, op a (op b c) = op (op a b) c.
Hypothesis op_comm : forall a b, op a b = op b a.
Hypothesis op_e_l : forall a, op e a = a.

(** axes carry a name; the integrand reads the indices through the environment name -> index *)
Fixpoint dg_efold (ts : list (nat * (nat * nat))) (env : nat -> nat) (h : (nat -> nat) -> M) : M :=
  match ts with
  | [] => h env
  | (x, (a, k)) :: ts' => dg_fold op e a k (fun i => dg_efold ts' (dg_upd env x i) h)
  end.

Definition dg_extl (h : (nat -> nat) -> M) : Prop := forall env env', (forall x, env x = env' x) -> h env = h env'.

Lemma dg_efold_ext_env ts h : dg_extl h -> forall env env', (forall x, env x = env' x) ->
  dg_efold ts env h = dg_efold ts env' h.
Proof. intros Hh. induction ts as [|[x [a k]] ts IH]; intros env env' H; cbn [dg_efold]; [apply Hh; exact H|].
  apply dg_fold_ext. intros i _. apply IH. intros y. unfold dg_upd. destruct (y =? x); [reflexivity|apply H]. Qed.

Lemma dg_efold_ext_h ts : forall env h h', (forall env', h env' = h' env') -> dg_efold ts env h = dg_efold ts env h'.
Proof. induction ts as [|[x [a k]] ts IH]; intros env h h' H; cbn [dg_efold]; [apply H|].
  apply dg_fold_ext. intros i _. apply IH. exact H. Qed.

Lemma dg_efold_perm ts ts' h : Permutation ts ts' -> NoDup (map fst ts) -> dg_extl h ->
  forall env, dg_efold ts env h = dg_efold ts' env h.
Proof.
  intros P. induction P as [|[x [a k]] l l' P IH|[x [a k]] [y [b m]] l|l l' l'' P1 IH1 P2 IH2]; intros Hnd Hh env.
  - reflexivity.
  - cbn [dg_efold]. apply dg_fold_ext. intros i _. apply IH; [inversion Hnd; assumption|exact Hh].
  - cbn [dg_efold]. rewrite (dg_fold_swap op e op_assoc op_comm op_e_l).
    apply dg_fold_ext. intros i _. apply dg_fold_ext. intros j _.
    apply dg_efold_ext_env; [exact Hh|]. intros z. unfold dg_upd.
    cbn [map fst] in Hnd. inversion Hnd as [|? ? Hni _]; subst.
    destruct (Nat.eqb_spec z x) as [E1|]; destruct (Nat.eqb_spec z y) as [E2|]; try reflexivity.
    exfalso. apply Hni. left. subst. reflexivity.
  - rewrite IH1 by assumption. apply IH2; [|exact Hh].
    apply (Permutation_NoDup (Permutation_map fst P1)). exact Hnd.
Qed.

Lemma dg_efold_app ts1 ts2 h : forall env,
  dg_efold (ts1 ++ ts2) env h = dg_efold ts1 env (fun env' => dg_efold ts2 env' h).
Proof. induction ts1 as [|[x [a k]] ts1 IH]; intros env; cbn [app dg_efold]; [reflexivity|].
  apply dg_fold_ext. intros i _. apply IH. Qed.

Lemma dg_efold_positional ts h : forall env,
  dg_efold ts env h = dg_ndfold op e (map snd ts) (fun idx => h (dg_bind (map fst ts) idx env)).
Proof. induction ts as [|[x [a k]] ts IH]; intros env; cbn [dg_efold map fst snd dg_ndfold]; [reflexivity|].
  apply dg_fold_ext. intros i _. apply IH. Qed.

(** ** any permutation of the axes: a fold in layout order [dims] whose integrand looks up dimension e at
    position [index_of dims e] is the fold in canonical order 0, 1, ..., d-1 *)
Theorem dg_ndfold_perm (dims : list nat) (d : nat) (R : nat -> nat * nat) (H : list nat -> M) :
  perm_b d dims = true ->
  dg_ndfold op e (map R dims) (fun g => H (map (fun x => nth (index_of dims x) g 0) (seq 0 d)))
  = dg_ndfold op e (map R (seq 0 d)) H.
Proof.
  intros Hp. destruct (perm_b_facts d dims Hp) as [Hl [Hnd [Hr Hin]]].
  set (hE := fun env : nat -> nat => H (map env (seq 0 d))).
  set (tag := fun x : nat => (x, R x)).
  assert (HhE : dg_extl hE) by (intros env env' E; unfold hE; f_equal; apply map_ext; intros; apply E).
  assert (Hs : forall l, map snd (map tag l) = map R l) by (intros l; rewrite map_map; reflexivity).
  assert (Hf : forall l, map fst (map tag l) = l) by (intros l; rewrite map_map; apply map_id).
  transitivity (dg_efold (map tag dims) (fun _ => 0) hE).
  - rewrite dg_efold_positional, Hs, Hf.
    apply (dg_ndfold_ext_in op e). intros g Hg. unfold hE. f_equal. apply map_ext_in. intros x Hx.
    apply in_seq in Hx. symmetry. apply dg_bind_spec; [exact Hnd| |apply Hin; lia].
    rewrite (dg_inbox_length _ _ Hg), map_length. reflexivity.
  - rewrite (dg_efold_perm (map tag dims) (map tag (seq 0 d)) hE).
    + rewrite dg_efold_positional, Hs, Hf.
      apply (dg_ndfold_ext_in op e). intros g Hg. unfold hE. f_equal.
      assert (Lg : length g = d) by (rewrite (dg_inbox_length _ _ Hg), map_length, seq_length; reflexivity).
      rewrite <- (mk_nth g 0) at 2. rewrite Lg. unfold mk. apply map_ext_in. intros x Hx. apply in_seq in Hx.
      rewrite dg_bind_spec; [|apply seq_NoDup|rewrite seq_length; exact Lg|apply in_seq; lia].
      f_equal. apply dg_index_of_seq. lia.
    + apply Permutation_map. apply NoDup_Permutation; [exact Hnd|apply seq_NoDup|].
      intros x. rewrite in_seq. split; [intros Hx; specialize (Hr x Hx); lia|intros Hx; apply Hin; lia].
    + rewrite Hf. exact Hnd.
    + exact HhE.
Qed.
End DgEnv.

(** * 2. [dg_local] is the fold over the rank's index box of weight product x field value *)
Lemma dg_combine_map {A B C} (f : A -> B) (g : A -> C) l : combine (map f l) (map g l) = map (fun x => (f x, g x)) l.
Proof. induction l as [|x l IH]; cbn; [reflexivity|]. rewrite IH. reflexivity. Qed.

Lemma dg_nth_addv s : forall j a, a < length s -> a < length j -> nth a (dg_addv s j) 0 = nth a s 0 + nth a j 0.
Proof. induction s as [|x s IH]; intros [|i j] a Hs Hj; cbn [length] in *; try lia.
  destruct a as [|a]; cbn [dg_addv nth]; [reflexivity|]. apply IH; lia. Qed.

(** extent, process count and rank coordinate of layout axis i *)
Definition dg_Nax (c : dg_cfg) (i : nat) : nat := nth (nth i (dg_dims c) 0) (dg_N c) 0.
Definition dg_Pax (c : dg_cfg) (i : nat) : nat := np_at (dg_nprocs c) i.
Definition dg_Kax (c : dg_cfg) (wc : list nat) (i : nat) : nat := rk_at (dg_lcoords c wc) i.
Definition dg_block_of (c : dg_cfg) (wc : list nat) (i : nat) : nat * nat :=
  (bstart (dg_Nax c i) (dg_Pax c i) (dg_Kax c wc i), blen (dg_Nax c i) (dg_Pax c i) (dg_Kax c wc i)).

Lemma dg_global_ranges_eq c wc : dg_global_ranges c wc = map (dg_block_of c wc) (seq 0 (dg_ndims c)).
Proof. unfold dg_global_ranges, dg_starts, dg_shape, l_starts, l_shape. apply dg_combine_map. Qed.

Lemma dg_local_ranges_eq c wc : dg_local_ranges c wc = map (fun r => (0, snd r)) (dg_global_ranges c wc).
Proof. rewrite dg_global_ranges_eq. unfold dg_local_ranges, dg_shape, l_shape. rewrite !map_map. reflexivity. Qed.

Lemma dg_starts_eq c wc : dg_starts c wc = map fst (dg_global_ranges c wc).
Proof. rewrite dg_global_ranges_eq. unfold dg_starts, l_starts. rewrite map_map. reflexivity. Qed.

(** layout.inv_dims_order is the position of a dimension in dims_order *)
Lemma dg_inv_spec c x : perm_b (dg_ndims c) (dg_dims c) = true -> x < dg_ndims c ->
  dg_inv c x < dg_ndims c /\ dg_inv c x = index_of (dg_dims c) x.
Proof.
  intros Hp Hx. destruct (perm_b_facts _ _ Hp) as [Hl [Hnd [Hr Hin]]].
  destruct (perm_bwd _ _ Hp x Hx) as [Hb1 Hb2].
  unfold dg_inv, inv_dims, dg_ndims in *.
  change (nth x (map ?f (seq 0 ?n)) 0) with (rd (mk n f) x). rewrite rd_mk by exact Hx.
  destruct (find _ _) as [i|] eqn:Ef.
  - apply find_some in Ef. destruct Ef as [Hi He]. apply in_seq in Hi. apply Nat.eqb_eq in He.
    split; [lia|]. rewrite <- He. symmetry. apply index_of_nth; [exact Hnd|lia].
  - exfalso. pose proof (find_none _ _ Ef (index_of (dg_dims c) x) ltac:(apply in_seq; lia)) as Hn.
    cbn beta in Hn. rewrite Hb2, Nat.eqb_refl in Hn. discriminate.
Qed.

(** the global weight at a global multi-index (layout axis order) *)
Definition dg_Wr (c : dg_cfg) (g : list nat) : Z :=
  let a := dg_inv c 0 in (dg_zn (dg_trap2 (dg_eta c 0)) (nth a g 0%nat) * dg_zn (dg_eta c 0) (nth a g 0%nat))%Z.
Definition dg_Wv (k : dg_kind) (c : dg_cfg) (g : list nat) : Z :=
  let a := dg_inv c 3 in
  let w := dg_zn (dg_trap2 (dg_eta c 3)) (nth a g 0%nat) in
  match k with
  | DgKE => let v := dg_zn (dg_eta c 3) (nth a g 0%nat) in (w * (v * v))%Z
  | _ => w
  end.
Definition dg_W (k : dg_kind) (c : dg_cfg) (g : list nat) : Z :=
  if dg_ndims c =? 4 then (dg_Wr c g * dg_Wv k c g)%Z else dg_Wr c g.
(** integrand of the quadrature at a global multi-index: integrand(field value) x weight product *)
Definition dg_G (k : dg_kind) (c : dg_cfg) (g : list nat) : Z :=
  (dg_integrand k (dg_cell (dg_re c) c g) (dg_cell (dg_im c) c g) * dg_W k c g)%Z.

(** a weight list sliced [start:end] of the rank and read at the local index = the list at the global index *)
Lemma dg_axis_weight c wc j a (T : list Z) : a < dg_ndims c -> dg_inbox (dg_local_ranges c wc) j ->
  dg_zn (dg_slice T (nth a (dg_starts c wc) 0) (nth a (dg_ends c wc) 0)) (nth a j 0)
  = dg_zn T (nth a (dg_addv (dg_starts c wc) j) 0).
Proof.
  intros Ha Hj.
  assert (Ls : length (dg_starts c wc) = dg_ndims c) by (unfold dg_starts, l_starts; rewrite map_length, seq_length; reflexivity).
  assert (Lr : length (dg_local_ranges c wc) = dg_ndims c)
    by (unfold dg_local_ranges, dg_shape, l_shape; rewrite !map_length, seq_length; reflexivity).
  pose proof (dg_inbox_length _ _ Hj) as Lj. rewrite Lr in Lj.
  pose proof (dg_inbox_nth _ _ Hj a ltac:(lia)) as Hb.
  unfold dg_local_ranges in Hb.
  change (0, 0) with ((fun l : nat => (0, l)) 0) in Hb. rewrite map_nth in Hb. cbn [fst snd] in Hb.
  rewrite dg_nth_addv by lia.
  assert (Es : nth a (dg_starts c wc) 0 = bstart (dg_Nax c a) (dg_Pax c a) (dg_Kax c wc a)).
  { unfold dg_starts, l_starts. change (nth a (map ?f (seq 0 ?n)) 0) with (rd (mk n f) a). rewrite rd_mk by exact Ha. reflexivity. }
  assert (Ee : nth a (dg_ends c wc) 0 = bstart (dg_Nax c a) (dg_Pax c a) (S (dg_Kax c wc a))).
  { unfold dg_ends, l_ends. change (nth a (map ?f (seq 0 ?n)) 0) with (rd (mk n f) a). rewrite rd_mk by exact Ha. reflexivity. }
  assert (Eh : nth a (dg_shape c wc) 0 = blen (dg_Nax c a) (dg_Pax c a) (dg_Kax c wc a)).
  { unfold dg_shape, l_shape. change (nth a (map ?f (seq 0 ?n)) 0) with (rd (mk n f) a). rewrite rd_mk by exact Ha. reflexivity. }
  apply dg_slice_nth. rewrite Es, Ee. rewrite Eh in Hb. unfold blen in Hb. lia.
Qed.

Theorem dg_local_block_fold k c wc : perm_b (dg_ndims c) (dg_dims c) = true -> 0 < dg_ndims c ->
  dg_local k c wc = (dg_ndsum (dg_global_ranges c wc) (dg_G k c) * dg_factor2 c)%Z.
Proof.
  intros Hp Hd. unfold dg_local. f_equal. unfold dg_ndsum.
  rewrite <- (dg_ndfold_shift Z.add 0%Z (dg_global_ranges c wc) (dg_G k c)).
  rewrite <- dg_local_ranges_eq, <- dg_starts_eq.
  apply (dg_ndfold_ext_in Z.add 0%Z). intros j Hj. unfold dg_G, dg_f. f_equal.
  unfold dg_factor1, dg_W.
  assert (Er : dg_rpart c (dg_starts c wc) (dg_ends c wc) j = dg_Wr c (dg_addv (dg_starts c wc) j)).
  { unfold dg_rpart, dg_Wr. cbv zeta. destruct (dg_inv_spec c 0 Hp Hd) as [Ha _].
    rewrite !(dg_axis_weight c wc j _ _ Ha Hj). reflexivity. }
  destruct (Nat.eqb_spec (dg_ndims c) 4) as [E4|N4]; [|exact Er].
  rewrite Er. f_equal.
  unfold dg_vpart, dg_Wv. cbv zeta. destruct (dg_inv_spec c 3 Hp ltac:(lia)) as [Ha _].
  rewrite !(dg_axis_weight c wc j _ _ Ha Hj). reflexivity.
Qed.

(** the same for the local extrema *)
Theorem dg_local_ext_block_fold mx c wc :
  dg_local_ext mx c wc = dg_ndfold (dg_ext mx) None (dg_global_ranges c wc) (fun g => Some (dg_cell (dg_re c) c g)).
Proof.
  unfold dg_local_ext. rewrite <- (dg_ndfold_shift (dg_ext mx) None (dg_global_ranges c wc)).
  rewrite <- dg_local_ranges_eq, <- dg_starts_eq. reflexivity.
Qed.

(** * 3. The reduction over all ranks of the process grid *)
(** ** 3.1 list plumbing *)
Lemma dg_map_nth_seq {A B} (f : A -> B) (l : list A) (dv : A) : map (fun i => f (nth i l dv)) (seq 0 (length l)) = map f l.
Proof. rewrite <- (map_map (fun i => nth i l dv) f). f_equal.
  apply nth_ext with (d := dv) (d' := dv); [rewrite map_length, seq_length; reflexivity|].
  intros n Hn. rewrite map_length, seq_length in Hn.
  rewrite (nth_indep _ dv (nth 0 l dv)) by (rewrite map_length, seq_length; exact Hn).
  rewrite (map_nth (fun i => nth i l dv)), seq_nth by exact Hn. reflexivity. Qed.

Lemma dg_map_const {A B} (c : B) (l : list A) : map (fun _ => c) l = repeat c (length l).
Proof. induction l; cbn; [reflexivity|]. f_equal. assumption. Qed.

Lemma dg_nth_app_zeros (l : list nat) t i : nth i (l ++ repeat 0 t) 0 = nth i l 0.
Proof. destruct (Nat.lt_ge_cases i (length l)) as [H|H].
  - apply app_nth1. exact H.
  - rewrite app_nth2 by exact H. rewrite (nth_overflow l) by exact H.
    destruct (Nat.lt_ge_cases (i - length l) t) as [K|K]; [apply nth_repeat|apply nth_overflow; rewrite repeat_length; exact K]. Qed.

Lemma dg_nth_all (l : list nat) (v : nat) i : (forall x, In x l -> x = v) -> nth i l v = v.
Proof. intros H. destruct (Nat.lt_ge_cases i (length l)) as [K|K]; [apply H, nth_In; exact K|apply nth_overflow; exact K]. Qed.

Lemma dg_perm_filter {A} (f : A -> bool) l : Permutation l (filter f l ++ filter (fun x => negb (f x)) l).
Proof. induction l as [|x l IH]; cbn [filter]; [constructor|]. destruct (f x); cbn [negb app].
  - constructor. exact IH.
  - apply Permutation_cons_app. exact IH. Qed.

Lemma dg_map_index_of (sel lc : list nat) : NoDup sel -> length lc = length sel ->
  map (fun a => nth (index_of sel a) lc 0) sel = lc.
Proof. intros Hnd Hl. apply nth_ext with (d := 0) (d' := 0); [rewrite map_length; lia|].
  intros i Hi. rewrite map_length in Hi.
  rewrite (nth_indep _ 0 ((fun a => nth (index_of sel a) lc 0) 0)) by (rewrite map_length; exact Hi).
  rewrite (map_nth (fun a => nth (index_of sel a) lc 0)). rewrite index_of_nth by assumption. reflexivity. Qed.

Lemma dg_blocks_map (n p : nat -> nat) t : forall a ks,
  dg_blocks (map (fun i => (n i, p i)) (seq a t)) ks
  = map (fun i => (bstart (n i) (p i) (nth (i - a) ks 0), blen (n i) (p i) (nth (i - a) ks 0))) (seq a t).
Proof. induction t as [|t IH]; intros a ks; cbn [seq map dg_blocks]; [reflexivity|].
  rewrite Nat.sub_diag. replace (hd 0 ks) with (nth 0 ks 0) by (destruct ks; reflexivity). f_equal.
  rewrite IH. apply map_ext_in. intros i Hi. apply in_seq in Hi.
  replace (i - a) with (S (i - S a)) by lia. destruct ks as [|k ks]; cbn [tl nth]; [destruct (i - S a); reflexivity|reflexivity]. Qed.

Section DgPad.
Context {M : Type}.
Variable op : M -> M -> M.
Variable e : M.
Hypothesis op_comm : forall a b, op a b = op b a.
Hypothesis op_e_l : forall a, op e a = a.

(** axes that are not distributed (one process) have rank coordinate 0 *)
Lemma dg_ndfold_pad rs t : forall (F : list nat -> M),
  dg_ndfold op e (rs ++ repeat (0, 1) t) F = dg_ndfold op e rs (fun idx => F (idx ++ repeat 0 t)).
Proof. induction rs as [|[a k] rs IH]; intros F; cbn [app dg_ndfold].
  - revert F. induction t as [|t IHt]; intros F; cbn [repeat dg_ndfold dg_fold]; [reflexivity|].
    rewrite (dg_op_e_r op e op_comm op_e_l). apply (IHt (fun idx => F (0 :: idx))).
  - apply dg_fold_ext. intros i _. apply (IH (fun idx => F (i :: idx))). Qed.
End DgPad.

(** ** 3.2 ranks of the grid -> coordinates of the layout (some grid directions may be unused) *)
Definition dg_in_sel (sel : list nat) (a : nat) : bool := existsb (Nat.eqb a) sel.
(** the grid directions the layout does not use, and the number of copies of every block *)
Definition dg_rest (c : dg_cfg) : list nat :=
  filter (fun a => negb (dg_in_sel (dg_sel c) a)) (seq 0 (length (dg_world c))).
Definition dg_replication (c : dg_cfg) : nat :=
  fold_right Nat.mul 1 (map (fun a => nth a (dg_world c) 1) (dg_rest c)).

Section DgRanks.
Context {M : Type}.
Variable op : M -> M -> M.
Variable e : M.
Hypothesis op_assoc : forall a b c, op a (op b c) = op (op a b) c.
Hypothesis op_comm : forall a b, op a b = op b a.
Hypothesis op_e_l : forall a, op e a = a.

Variable world sel : list nat.
Hypothesis sel_nodup : NoDup sel.
Hypothesis sel_in : forall a, In a sel -> a < length world.

Let tag := fun a : nat => (a, (0, nth a world 1)).
Let rest := filter (fun a => negb (dg_in_sel sel a)) (seq 0 (length world)).

Lemma dg_sel_perm : Permutation (seq 0 (length world)) (sel ++ rest).
Proof.
  eapply Permutation_trans; [apply (dg_perm_filter (dg_in_sel sel))|].
  apply Permutation_app_tail. apply NoDup_Permutation; [apply NoDup_filter, seq_NoDup|exact sel_nodup|].
  intros x. rewrite filter_In, in_seq. unfold dg_in_sel. rewrite existsb_exists. split.
  - intros [_ [y [Hy E]]]. apply Nat.eqb_eq in E. subst. exact Hy.
  - intros Hx. split; [specialize (sel_in x Hx); lia|]. exists x. split; [exact Hx|apply Nat.eqb_refl].
Qed.

Lemma dg_rest_disjoint a : In a rest -> ~ In a sel.
Proof. unfold rest. rewrite filter_In. intros [_ H] Hs. apply negb_true_iff in H.
  unfold dg_in_sel in H. assert (K : existsb (Nat.eqb a) sel = true) by (apply existsb_exists; exists a; split; [exact Hs|apply Nat.eqb_refl]).
  congruence. Qed.

(** Reduce over the rank list of the grid of a value that depends on the layout coordinates only *)
Lemma dg_reduce_ranks (F : list nat -> M) :
  dg_reduce op e (map (fun wc => F (map (fun a => nth a wc 0) sel)) (dg_coords world))
  = dg_efold op e (map tag sel) (fun _ => 0)
      (fun env => dg_efold op e (map tag rest) env (fun env' => F (map env' sel))).
Proof.
  set (hE := fun env : nat -> nat => F (map env sel)).
  assert (HhE : dg_extl hE) by (intros env env' E; unfold hE; f_equal; apply map_ext; intros; apply E).
  assert (Hf : forall l, map fst (map tag l) = l) by (intros l; rewrite map_map; apply map_id).
  rewrite (dg_reduce_coords op e op_assoc op_comm op_e_l).
  transitivity (dg_efold op e (map tag (seq 0 (length world))) (fun _ => 0) hE).
  - rewrite dg_efold_positional, Hf, map_map. cbn [snd tag].
    rewrite (dg_map_nth_seq (fun p => (0, p)) world 1).
    apply (dg_ndfold_ext_in op e). intros wc Hwc. unfold hE. f_equal. apply map_ext_in. intros a Ha.
    specialize (sel_in a Ha).
    rewrite dg_bind_spec; [|apply seq_NoDup|rewrite seq_length, (dg_inbox_length _ _ Hwc), map_length; reflexivity|apply in_seq; lia].
    rewrite dg_index_of_seq by exact sel_in. reflexivity.
  - rewrite (dg_efold_perm op e op_assoc op_comm op_e_l _ _ hE (Permutation_map tag dg_sel_perm));
      [|rewrite Hf; apply seq_NoDup|exact HhE].
    rewrite map_app. apply dg_efold_app.
Qed.

(** the layout uses every direction of the grid: the reduction is the fold over the layout's ranks *)
Lemma dg_reduce_ranks_full (F : list nat -> M) : rest = [] ->
  dg_reduce op e (map (fun wc => F (map (fun a => nth a wc 0) sel)) (dg_coords world))
  = dg_ndfold op e (map (fun p => (0, p)) (map (fun a => nth a world 1) sel)) F.
Proof.
  intros Hr. rewrite dg_reduce_ranks. fold rest. rewrite Hr. cbn [map dg_efold].
  assert (Hf : forall l, map fst (map tag l) = l) by (intros l; rewrite map_map; apply map_id).
  rewrite dg_efold_positional, Hf, !map_map. cbn [snd tag].
  apply (dg_ndfold_ext_in op e). intros lc Hlc. f_equal.
  rewrite (map_ext_in _ (fun a => nth (index_of sel a) lc 0)).
  - apply dg_map_index_of; [exact sel_nodup|]. rewrite (dg_inbox_length _ _ Hlc), map_length. reflexivity.
  - intros a Ha. apply dg_bind_spec; [exact sel_nodup| |exact Ha].
    rewrite (dg_inbox_length _ _ Hlc), map_length. reflexivity.
Qed.
End DgRanks.

(** ** 3.3 sums: unused grid directions multiply the result by their extents *)
Definition dg_prodn (l : list nat) : nat := fold_right Nat.mul 1 l.

Lemma dg_ndsum_scale_l rs : forall (c : Z) (g : list nat -> Z),
  dg_ndsum rs (fun idx => c * g idx)%Z = (c * dg_ndsum rs g)%Z.
Proof. unfold dg_ndsum. induction rs as [|[b m] rs IH]; intros c g; cbn [dg_ndfold]; [reflexivity|].
  rewrite (dg_fold_ext Z.add 0%Z b m _ (fun j => dg_ndfold Z.add 0%Z rs (fun idx => g (j :: idx)) * c)%Z).
  - rewrite (dg_sum_scale b m c). unfold dg_sum. ring.
  - intros j _. rewrite (IH c (fun idx => g (j :: idx))). ring. Qed.

Lemma dg_efold_ignore ts : forall (h : (nat -> nat) -> Z) env,
  (forall env' x i, In x (map fst ts) -> h (dg_upd env' x i) = h env') ->
  dg_efold Z.add 0%Z ts env h = (Z.of_nat (dg_prodn (map (fun t => snd (snd t)) ts)) * h env)%Z.
Proof. induction ts as [|[x [a k]] ts IH]; intros h env Hh.
  - cbn [dg_efold]. change (h env = (1 * h env)%Z). ring.
  - cbn [dg_efold]. change (dg_prodn (map (fun t => snd (snd t)) ((x, (a, k)) :: ts)))
      with (k * dg_prodn (map (fun t => snd (snd t)) ts)).
    rewrite (dg_fold_ext Z.add 0%Z a k _ (fun _ => Z.of_nat (dg_prodn (map (fun t => snd (snd t)) ts)) * h env)%Z).
    + fold (dg_sum a k (fun _ => (Z.of_nat (dg_prodn (map (fun t => snd (snd t)) ts)) * h env)%Z)).
      rewrite dg_sum_const. lia.
    + intros i _. rewrite IH by (intros; apply Hh; right; assumption).
      rewrite Hh by (left; reflexivity). reflexivity. Qed.

Definition dg_rest_of (world sel : list nat) : list nat :=
  filter (fun a => negb (dg_in_sel sel a)) (seq 0 (length world)).
Definition dg_R (world sel : list nat) : nat := dg_prodn (map (fun a => nth a world 1) (dg_rest_of world sel)).
Definition dg_lranges (world sel : list nat) : list (nat * nat) := map (fun p => (0, p)) (map (fun a => nth a world 1) sel).

Lemma dg_reduce_ranks_Z world sel (F : list nat -> Z) : NoDup sel -> (forall a, In a sel -> a < length world) ->
  dg_reduce Z.add 0%Z (map (fun wc => F (map (fun a => nth a wc 0) sel)) (dg_coords world))
  = (Z.of_nat (dg_R world sel) * dg_ndsum (dg_lranges world sel) F)%Z.
Proof.
  intros Hnd Hin. rewrite (dg_reduce_ranks Z.add 0%Z Z.add_assoc Z.add_comm Z.add_0_l world sel Hnd Hin F).
  unfold dg_R, dg_lranges, dg_rest_of.
  set (rest := filter (fun a => negb (dg_in_sel sel a)) (seq 0 (length world))).
  set (tag := fun a : nat => (a, (0, nth a world 1))).
  set (R := Z.of_nat (dg_prodn (map (fun a => nth a world 1) rest))).
  assert (Hf : forall l, map fst (map tag l) = l) by (intros l; rewrite map_map; apply map_id).
  rewrite (dg_efold_ext_h Z.add 0%Z (map tag sel) _ _ (fun env => R * F (map env sel))%Z).
  - rewrite dg_efold_positional, Hf, !map_map. cbn [snd tag].
    rewrite <- dg_ndsum_scale_l. apply (dg_ndfold_ext_in Z.add 0%Z). intros lc Hlc. f_equal. f_equal.
    rewrite (map_ext_in _ (fun a => nth (index_of sel a) lc 0)).
    + apply dg_map_index_of; [exact Hnd|]. rewrite (dg_inbox_length _ _ Hlc), map_length. reflexivity.
    + intros a Ha. apply dg_bind_spec; [exact Hnd| |exact Ha]. rewrite (dg_inbox_length _ _ Hlc), map_length. reflexivity.
  - intros env. rewrite dg_efold_ignore.
    + unfold R. rewrite !map_map. reflexivity.
    + intros env' x i Hx. rewrite Hf in Hx. f_equal. apply map_ext_in. intros a Ha. unfold dg_upd.
      destruct (Nat.eqb_spec a x) as [->|]; [|reflexivity].
      exfalso. exact (dg_rest_disjoint world sel x Hx Ha).
Qed.

(** ** 3.4 from the layout's rank coordinates to the blocks of all axes *)
Definition dg_axes (c : dg_cfg) : list (nat * nat) := map (fun i => (dg_Nax c i, dg_Pax c i)) (seq 0 (dg_ndims c)).
Definition dg_ranges_of (c : dg_cfg) (lc : list nat) : list (nat * nat) :=
  map (fun i => (bstart (dg_Nax c i) (dg_Pax c i) (rk_at lc i), blen (dg_Nax c i) (dg_Pax c i) (rk_at lc i)))
      (seq 0 (dg_ndims c)).
(** the whole index space in layout axis order *)
Definition dg_full (c : dg_cfg) : list (nat * nat) := map (fun i => (0, dg_Nax c i)) (seq 0 (dg_ndims c)).

Lemma dg_global_ranges_of c wc : dg_global_ranges c wc = dg_ranges_of c (dg_lcoords c wc).
Proof. rewrite dg_global_ranges_eq. reflexivity. Qed.

Lemma dg_full_eq c : dg_full_ranges (dg_axes c) = dg_full c.
Proof. unfold dg_full_ranges, dg_axes, dg_full. rewrite map_map. reflexivity. Qed.

Lemma dg_rank_ranges_pad c : length (dg_nprocs c) <= dg_ndims c ->
  dg_rank_ranges (dg_axes c)
  = map (fun p => (0, p)) (dg_nprocs c) ++ repeat (0, 1) (dg_ndims c - length (dg_nprocs c)).
Proof.
  intros Hm. unfold dg_rank_ranges, dg_axes. rewrite map_map. cbn [snd].
  replace (dg_ndims c) with (length (dg_nprocs c) + (dg_ndims c - length (dg_nprocs c))) at 1 by lia.
  rewrite seq_app, map_app. cbn [Nat.add]. f_equal.
  - unfold dg_Pax, np_at. apply (dg_map_nth_seq (fun p => (0, p)) (dg_nprocs c) 1).
  - rewrite (map_ext_in _ (fun _ => (0, 1))).
    + rewrite dg_map_const, seq_length. reflexivity.
    + intros i Hi. apply in_seq in Hi. unfold dg_Pax, np_at. rewrite nth_overflow by lia. reflexivity.
Qed.

Lemma dg_blocks_ranges_of c lc t : dg_blocks (dg_axes c) (lc ++ repeat 0 t) = dg_ranges_of c lc.
Proof. unfold dg_axes, dg_ranges_of. rewrite (dg_blocks_map (dg_Nax c) (dg_Pax c)).
  apply map_ext. intros i. rewrite Nat.sub_0_r, dg_nth_app_zeros. reflexivity. Qed.

Lemma dg_Pax_pos c i : Forall (fun p => 0 < p) (dg_world c) -> 0 < dg_Pax c i.
Proof. intros Hw. unfold dg_Pax, np_at, dg_nprocs.
  destruct (Nat.lt_ge_cases i (length (map (fun a => nth a (dg_world c) 1) (dg_sel c)))) as [H|H].
  - pose proof (nth_In _ 1 H) as Hin. apply in_map_iff in Hin. destruct Hin as [a [Ea _]]. rewrite <- Ea.
    destruct (Nat.lt_ge_cases a (length (dg_world c))) as [K|K].
    + rewrite Forall_forall in Hw. apply Hw. apply nth_In. exact K.
    + rewrite nth_overflow by exact K. lia.
  - rewrite nth_overflow by exact H. lia.
Qed.

Lemma dg_axes_pos c : Forall (fun p => 0 < p) (dg_world c) -> Forall (fun np => 0 < snd np) (dg_axes c).
Proof. intros Hw. unfold dg_axes. apply Forall_forall. intros x Hx. apply in_map_iff in Hx.
  destruct Hx as [i [<- _]]. cbn [snd]. apply dg_Pax_pos. exact Hw. Qed.

Section DgLayoutRanks.
Context {M : Type}.
Variable op : M -> M -> M.
Variable e : M.
Hypothesis op_comm : forall a b, op a b = op b a.
Hypothesis op_e_l : forall a, op e a = a.

Lemma dg_layout_ranks c (Phi : list (nat * nat) -> M) : length (dg_nprocs c) <= dg_ndims c ->
  dg_ndfold op e (map (fun p => (0, p)) (dg_nprocs c)) (fun lc => Phi (dg_ranges_of c lc))
  = dg_ndfold op e (dg_rank_ranges (dg_axes c)) (fun ks => Phi (dg_blocks (dg_axes c) ks)).
Proof. intros Hm. rewrite (dg_rank_ranges_pad c Hm), (dg_ndfold_pad op e op_comm op_e_l).
  apply dg_ndfold_ext. intros lc. rewrite dg_blocks_ranges_of. reflexivity. Qed.
End DgLayoutRanks.

(** ** 3.5 the serial configuration: one block per axis, the whole index space *)
Lemma dg_serial_ranges c :
  dg_global_ranges (dg_serial_cfg c) (map (fun _ => 0) (dg_world c)) = dg_full c.
Proof.
  rewrite dg_global_ranges_eq. unfold dg_full. change (dg_ndims (dg_serial_cfg c)) with (dg_ndims c).
  apply map_ext. intros i. unfold dg_block_of. change (dg_Nax (dg_serial_cfg c) i) with (dg_Nax c i).
  assert (HP : dg_Pax (dg_serial_cfg c) i = 1).
  { unfold dg_Pax, np_at, dg_nprocs. cbn [dg_world dg_sel dg_serial_cfg]. apply dg_nth_all.
    intros x Hx. apply in_map_iff in Hx. destruct Hx as [a [<- _]]. apply dg_nth_all.
    intros y Hy. apply in_map_iff in Hy. destruct Hy as [? [<- _]]. reflexivity. }
  assert (HK : dg_Kax (dg_serial_cfg c) (map (fun _ => 0) (dg_world c)) i = 0).
  { unfold dg_Kax, rk_at, dg_lcoords. cbn [dg_sel dg_serial_cfg]. apply dg_nth_all.
    intros x Hx. apply in_map_iff in Hx. destruct Hx as [a [<- _]]. apply dg_nth_all.
    intros y Hy. apply in_map_iff in Hy. destruct Hy as [? [<- _]]. reflexivity. }
  rewrite HP, HK, bstart_0, (blen_one _ 0 eq_refl). reflexivity.
Qed.

Theorem dg_serial_is_global_fold k c : perm_b (dg_ndims c) (dg_dims c) = true -> 0 < dg_ndims c ->
  dg_serial k c = (dg_ndsum (dg_full c) (dg_G k c) * dg_factor2 c)%Z.
Proof. intros Hp Hd. unfold dg_serial. rewrite (dg_local_block_fold k (dg_serial_cfg c)) by assumption.
  rewrite dg_serial_ranges. reflexivity. Qed.

(** * 4. End to end on the executable functions *)
(** hypotheses, as a boolean that the model driver evaluates *)
Definition dg_link_ok (c : dg_cfg) : bool :=
  perm_b (dg_ndims c) (dg_dims c) && (1 <=? dg_ndims c)
  && forallb (fun a => (a <? length (dg_world c)) && (count_occ Nat.eq_dec (dg_sel c) a =? 1)) (dg_sel c)
  && (length (dg_sel c) <=? dg_ndims c) && forallb (fun p => 1 <=? p) (dg_world c).

Lemma dg_link_ok_facts c : dg_link_ok c = true ->
  perm_b (dg_ndims c) (dg_dims c) = true /\ 0 < dg_ndims c /\ NoDup (dg_sel c)
  /\ (forall a, In a (dg_sel c) -> a < length (dg_world c)) /\ length (dg_nprocs c) <= dg_ndims c
  /\ Forall (fun p => 0 < p) (dg_world c).
Proof.
  unfold dg_link_ok. rewrite !andb_true_iff. intros [[[[Hp Hd] Hs] Hl] Hw].
  apply Nat.leb_le in Hd. apply Nat.leb_le in Hl. rewrite forallb_forall in Hs. rewrite forallb_forall in Hw.
  split; [exact Hp|]. split; [lia|]. split; [|split; [|split]].
  - apply (NoDup_count_occ' Nat.eq_dec). intros x Hx. specialize (Hs x Hx). apply andb_true_iff in Hs.
    destruct Hs as [_ Hc]. apply Nat.eqb_eq in Hc. exact Hc.
  - intros a Ha. specialize (Hs a Ha). apply andb_true_iff in Hs. destruct Hs as [Hlt _]. apply Nat.ltb_lt in Hlt. exact Hlt.
  - unfold dg_nprocs. rewrite map_length. exact Hl.
  - apply Forall_forall. intros p Hp'. specialize (Hw p Hp'). apply Nat.leb_le in Hw. lia.
Qed.

(** (2) Reduce(SUM) over all ranks of the process grid (Create_cart order) of the executable [dg_local]
    = replication x the executable serial quadrature [dg_serial], for l2 / l1 / nParticles / KineticEnergy,
    every global shape, process grid, layout order and choice of grid directions *)
Theorem dg_reduced_eq_serial k c : dg_link_ok c = true ->
  dg_reduced k c = (Z.of_nat (dg_replication c) * dg_serial k c)%Z.
Proof.
  intros Hok. destruct (dg_link_ok_facts c Hok) as [Hp [Hd [Hnd [Hin [Hm Hw]]]]].
  rewrite (dg_serial_is_global_fold k c Hp Hd).
  pose (F := fun lc => (dg_ndsum (dg_ranges_of c lc) (dg_G k c) * dg_factor2 c)%Z).
  transitivity (dg_reduce Z.add 0%Z (map (fun wc => F (map (fun a => nth a wc 0) (dg_sel c))) (dg_coords (dg_world c)))).
  { unfold dg_reduced, dg_all. f_equal. apply map_ext. intros wc. unfold F.
    rewrite (dg_local_block_fold k c wc Hp Hd), dg_global_ranges_of. reflexivity. }
  rewrite (dg_reduce_ranks_Z (dg_world c) (dg_sel c) F Hnd Hin). unfold F.
  change (dg_R (dg_world c) (dg_sel c)) with (dg_replication c).
  change (dg_lranges (dg_world c) (dg_sel c)) with (map (fun p => (0, p)) (dg_nprocs c)).
  f_equal.
  rewrite (dg_ndfold_ext Z.add 0%Z _ _ (fun lc => dg_factor2 c * dg_ndsum (dg_ranges_of c lc) (dg_G k c))%Z)
    by (intros; ring).
  fold (dg_ndsum (map (fun p => (0, p)) (dg_nprocs c))
          (fun lc => (dg_factor2 c * dg_ndsum (dg_ranges_of c lc) (dg_G k c))%Z)).
  rewrite dg_ndsum_scale_l. rewrite Z.mul_comm. f_equal.
  unfold dg_ndsum.
  rewrite (dg_layout_ranks Z.add 0%Z Z.add_comm Z.add_0_l c (fun rs => dg_ndfold Z.add 0%Z rs (dg_G k c)) Hm).
  rewrite (dg_Z_ndsum_blocks (dg_axes c) (dg_axes_pos c Hw)), dg_full_eq. reflexivity.
Qed.

(** ** minima / maxima: an idempotent operation ignores replication *)
Section DgIdem.
Context {M : Type}.
Variable op : M -> M -> M.
Variable e : M.
Hypothesis op_assoc : forall a b c, op a (op b c) = op (op a b) c.
Hypothesis op_comm : forall a b, op a b = op b a.
Hypothesis op_e_l : forall a, op e a = a.
Hypothesis op_idem : forall a, op a a = a.

Lemma dg_fold_const_idem a k v : 0 < k -> dg_fold op e a k (fun _ => v) = v.
Proof. revert a. induction k as [|k IH]; intros a Hk; [lia|]. cbn [dg_fold].
  destruct k as [|k]; [cbn [dg_fold]; apply (dg_op_e_r op e op_comm op_e_l)|].
  rewrite IH by lia. apply op_idem. Qed.

Lemma dg_efold_ignore_idem ts : forall (h : (nat -> nat) -> M) env,
  (forall env' x i, In x (map fst ts) -> h (dg_upd env' x i) = h env') ->
  Forall (fun t => 0 < snd (snd t)) ts -> dg_efold op e ts env h = h env.
Proof. induction ts as [|[x [a k]] ts IH]; intros h env Hh Hpos; [reflexivity|]. cbn [dg_efold].
  inversion Hpos as [|? ? Hk Hpos']; subst. cbn [snd] in Hk.
  rewrite (dg_fold_ext op e a k _ (fun _ => h env)).
  - apply dg_fold_const_idem. exact Hk.
  - intros i _. rewrite IH; [|intros; apply Hh; right; assumption|exact Hpos'].
    apply Hh. left. reflexivity. Qed.

Lemma dg_reduce_ranks_idem world sel (F : list nat -> M) : NoDup sel -> (forall a, In a sel -> a < length world) ->
  Forall (fun p => 0 < p) world ->
  dg_reduce op e (map (fun wc => F (map (fun a => nth a wc 0) sel)) (dg_coords world))
  = dg_ndfold op e (dg_lranges world sel) F.
Proof.
  intros Hnd Hin Hw. rewrite (dg_reduce_ranks op e op_assoc op_comm op_e_l world sel Hnd Hin F).
  unfold dg_lranges.
  set (rest := filter (fun a => negb (dg_in_sel sel a)) (seq 0 (length world))).
  set (tag := fun a : nat => (a, (0, nth a world 1))).
  assert (Hf : forall l, map fst (map tag l) = l) by (intros l; rewrite map_map; apply map_id).
  rewrite (dg_efold_ext_h op e (map tag sel) _ _ (fun env => F (map env sel))).
  - rewrite dg_efold_positional, Hf, !map_map. cbn [snd tag].
    apply (dg_ndfold_ext_in op e). intros lc Hlc. f_equal.
    rewrite (map_ext_in _ (fun a => nth (index_of sel a) lc 0)).
    + apply dg_map_index_of; [exact Hnd|]. rewrite (dg_inbox_length _ _ Hlc), map_length. reflexivity.
    + intros a Ha. apply dg_bind_spec; [exact Hnd| |exact Ha]. rewrite (dg_inbox_length _ _ Hlc), map_length. reflexivity.
  - intros env. apply dg_efold_ignore_idem.
    + intros env' x i Hx. rewrite Hf in Hx. f_equal. apply map_ext_in. intros a Ha. unfold dg_upd.
      destruct (Nat.eqb_spec a x) as [->|]; [|reflexivity]. exfalso. exact (dg_rest_disjoint world sel x Hx Ha).
    + apply Forall_forall. intros t Ht. apply in_map_iff in Ht. destruct Ht as [a [<- Ha]]. cbn [snd tag].
      destruct (Nat.lt_ge_cases a (length world)) as [K|K].
      * rewrite Forall_forall in Hw. apply Hw, nth_In. exact K.
      * rewrite nth_overflow by exact K. lia.
Qed.
End DgIdem.

Lemma dg_ext_assoc mx a b c : dg_ext mx a (dg_ext mx b c) = dg_ext mx (dg_ext mx a b) c.
Proof. destruct mx; [apply dg_omax_assoc|apply dg_omin_assoc]. Qed.
Lemma dg_ext_comm mx a b : dg_ext mx a b = dg_ext mx b a.
Proof. destruct mx; [apply dg_omax_comm|apply dg_omin_comm]. Qed.
Lemma dg_ext_e_l mx a : dg_ext mx None a = a.
Proof. destruct mx; reflexivity. Qed.
Lemma dg_ext_idem mx a : dg_ext mx a a = a.
Proof. destruct mx, a; cbn; try reflexivity; f_equal; lia. Qed.

(** (3) the collector's MIN / MAX Reduce of the local extrema = the extremum of the global field
    (the same executable function on one process), also when the layout is replicated *)
Theorem dg_collector_ext_eq_serial mx c : dg_link_ok c = true ->
  dg_collector_ext mx c = dg_local_ext mx (dg_serial_cfg c) (map (fun _ => 0) (dg_world c)).
Proof.
  intros Hok. destruct (dg_link_ok_facts c Hok) as [Hp [Hd [Hnd [Hin [Hm Hw]]]]].
  rewrite (dg_local_ext_block_fold mx (dg_serial_cfg c)), dg_serial_ranges.
  change (dg_cell (dg_re (dg_serial_cfg c)) (dg_serial_cfg c)) with (dg_cell (dg_re c) c).
  pose (F := fun lc => dg_ndfold (dg_ext mx) None (dg_ranges_of c lc) (fun g => Some (dg_cell (dg_re c) c g))).
  transitivity (dg_reduce (dg_ext mx) None (map (fun wc => F (map (fun a => nth a wc 0) (dg_sel c))) (dg_coords (dg_world c)))).
  { unfold dg_collector_ext. f_equal. apply map_ext. intros wc. unfold F.
    rewrite dg_local_ext_block_fold, dg_global_ranges_of. reflexivity. }
  rewrite (dg_reduce_ranks_idem (dg_ext mx) None (dg_ext_assoc mx) (dg_ext_comm mx) (dg_ext_e_l mx) (dg_ext_idem mx)
             (dg_world c) (dg_sel c) F Hnd Hin Hw).
  change (dg_lranges (dg_world c) (dg_sel c)) with (map (fun p => (0, p)) (dg_nprocs c)). unfold F.
  rewrite (dg_layout_ranks (dg_ext mx) None (dg_ext_comm mx) (dg_ext_e_l mx) c
             (fun rs => dg_ndfold (dg_ext mx) None rs (fun g => Some (dg_cell (dg_re c) c g))) Hm).
  rewrite (dg_ndfold_blocks (dg_ext mx) None (dg_ext_assoc mx) (dg_ext_comm mx) (dg_ext_e_l mx) (dg_axes c) (dg_axes_pos c Hw)).
  rewrite dg_full_eq. reflexivity.
Qed.

(** fixed-index slices: the [_f.size == 0] test is redundant, a rank's contribution is the slice fold *)
Lemma dg_local_slice_ext_eq mx c pairs wc :
  dg_local_slice_ext mx c pairs wc
  = dg_slice_fold (dg_ext mx) None (dg_global_ranges c wc) (dg_fixs c pairs) (fun g => Some (dg_cell (dg_re c) c g)).
Proof.
  unfold dg_local_slice_ext. destruct (Nat.eqb_spec (size (dg_shape c wc)) 0) as [E|]; [|reflexivity].
  rewrite (dg_slice_fold_delta (dg_ext mx) None (dg_ext_comm mx) (dg_ext_e_l mx)).
  symmetry. apply (dg_ndfold_empty (dg_ext mx) None (dg_ext_e_l mx)).
  rewrite dg_global_ranges_eq, map_map. cbn [snd dg_block_of]. exact E.
Qed.

Theorem dg_reduced_ext_eq_serial mx c pairs : dg_link_ok c = true ->
  dg_reduced_ext mx c pairs = dg_local_slice_ext mx (dg_serial_cfg c) pairs (map (fun _ => 0) (dg_world c))
  /\ dg_reduced_ext mx c pairs
     = dg_slice_fold (dg_ext mx) None (dg_full c) (dg_fixs c pairs) (fun g => Some (dg_cell (dg_re c) c g)).
Proof.
  intros Hok. destruct (dg_link_ok_facts c Hok) as [Hp [Hd [Hnd [Hin [Hm Hw]]]]].
  assert (E : dg_reduced_ext mx c pairs
     = dg_slice_fold (dg_ext mx) None (dg_full c) (dg_fixs c pairs) (fun g => Some (dg_cell (dg_re c) c g))).
  { pose (F := fun lc => dg_slice_fold (dg_ext mx) None (dg_ranges_of c lc) (dg_fixs c pairs) (fun g => Some (dg_cell (dg_re c) c g))).
    transitivity (dg_reduce (dg_ext mx) None (map (fun wc => F (map (fun a => nth a wc 0) (dg_sel c))) (dg_coords (dg_world c)))).
    { unfold dg_reduced_ext, dg_all_ext. f_equal. apply map_ext. intros wc. unfold F.
      rewrite dg_local_slice_ext_eq, dg_global_ranges_of. reflexivity. }
    rewrite (dg_reduce_ranks_idem (dg_ext mx) None (dg_ext_assoc mx) (dg_ext_comm mx) (dg_ext_e_l mx) (dg_ext_idem mx)
               (dg_world c) (dg_sel c) F Hnd Hin Hw).
    change (dg_lranges (dg_world c) (dg_sel c)) with (map (fun p => (0, p)) (dg_nprocs c)). unfold F.
    rewrite (dg_layout_ranks (dg_ext mx) None (dg_ext_comm mx) (dg_ext_e_l mx) c
               (fun rs => dg_slice_fold (dg_ext mx) None rs (dg_fixs c pairs) (fun g => Some (dg_cell (dg_re c) c g))) Hm).
    rewrite (dg_slice_blocks (dg_ext mx) None (dg_ext_assoc mx) (dg_ext_comm mx) (dg_ext_e_l mx) (dg_axes c) _ _ (dg_axes_pos c Hw)).
    rewrite dg_full_eq. reflexivity. }
  split; [|exact E].
  rewrite E, dg_local_slice_ext_eq, dg_serial_ranges. reflexivity.
Qed.

(** * 5. (4) the layout order is irrelevant: everything in canonical dimension order *)
Definition dg_canon_full (c : dg_cfg) : list (nat * nat) := map (fun x => (0, nth x (dg_N c) 0)) (seq 0 (dg_ndims c)).

Lemma dg_full_as_map c : dg_full c = map (fun x => (0, nth x (dg_N c) 0)) (dg_dims c).
Proof. unfold dg_full, dg_Nax, dg_ndims. apply (dg_map_nth_seq (fun x => (0, nth x (dg_N c) 0)) (dg_dims c) 0). Qed.

Lemma dg_canon_eq c g : perm_b (dg_ndims c) (dg_dims c) = true ->
  dg_canon c g = map (fun x => nth (index_of (dg_dims c) x) g 0) (seq 0 (dg_ndims c)).
Proof. intros Hp. unfold dg_canon. apply map_ext_in. intros x Hx. apply in_seq in Hx.
  destruct (dg_inv_spec c x Hp ltac:(lia)) as [_ ->]. reflexivity. Qed.

(** for every permutation dims_order: a fold over the global index space in layout order of a function of
    the canonical coordinates is the fold in canonical order *)
Theorem dg_layout_order_irrelevant {M} (op : M -> M -> M) (e : M)
  (op_assoc : forall a b c, op a (op b c) = op (op a b) c) (op_comm : forall a b, op a b = op b a)
  (op_e_l : forall a, op e a = a) c (H : list nat -> M) :
  perm_b (dg_ndims c) (dg_dims c) = true ->
  dg_ndfold op e (dg_full c) (fun g => H (dg_canon c g)) = dg_ndfold op e (dg_canon_full c) H.
Proof. intros Hp. rewrite dg_full_as_map.
  rewrite (dg_ndfold_ext op e _ _ (fun g => H (map (fun x => nth (index_of (dg_dims c) x) g 0) (seq 0 (dg_ndims c)))))
    by (intros g; rewrite (dg_canon_eq c g Hp); reflexivity).
  apply (dg_ndfold_perm op e op_assoc op_comm op_e_l (dg_dims c) (dg_ndims c) (fun x => (0, nth x (dg_N c) 0)) H Hp). Qed.

(** weight product and integrand at canonical coordinates (r, theta, z [, v]): no reference to dims_order *)
Definition dg_Wc (k : dg_kind) (c : dg_cfg) (idx : list nat) : Z :=
  let wr := Z.mul (dg_zn (dg_trap2 (dg_eta c 0)) (nth 0 idx 0)) (dg_zn (dg_eta c 0) (nth 0 idx 0)) in
  if dg_ndims c =? 4 then
    let w := dg_zn (dg_trap2 (dg_eta c 3)) (nth 3 idx 0) in
    Z.mul wr (match k with DgKE => let v := dg_zn (dg_eta c 3) (nth 3 idx 0) in Z.mul w (Z.mul v v) | _ => w end)
  else wr.
Definition dg_Gc (k : dg_kind) (c : dg_cfg) (idx : list nat) : Z :=
  Z.mul (dg_integrand k (dg_zn (dg_re c) (ravel (dg_N c) idx)) (dg_zn (dg_im c) (ravel (dg_N c) idx))) (dg_Wc k c idx).

Lemma dg_canon_nth c g x : x < dg_ndims c -> nth x (dg_canon c g) 0 = nth (dg_inv c x) g 0.
Proof. intros Hx. unfold dg_canon. exact (rd_mk (dg_ndims c) (fun y => nth (dg_inv c y) g 0) x Hx). Qed.

Lemma dg_G_canon k c g : 0 < dg_ndims c -> dg_G k c g = dg_Gc k c (dg_canon c g).
Proof. intros Hd. unfold dg_G, dg_Gc, dg_cell. f_equal. unfold dg_W, dg_Wc, dg_Wr, dg_Wv. cbv zeta.
  rewrite (dg_canon_nth c g 0 Hd).
  destruct (Nat.eqb_spec (dg_ndims c) 4) as [E|]; [|reflexivity].
  rewrite (dg_canon_nth c g 3) by lia. destruct k; reflexivity. Qed.

(** the serial quadrature is the canonical nested sum over (r, theta, z [, v]), whatever dims_order is *)
Theorem dg_serial_canonical k c : perm_b (dg_ndims c) (dg_dims c) = true -> 0 < dg_ndims c ->
  dg_serial k c = (dg_ndsum (dg_canon_full c) (dg_Gc k c) * dg_factor2 c)%Z.
Proof. intros Hp Hd. rewrite (dg_serial_is_global_fold k c Hp Hd). f_equal. unfold dg_ndsum.
  rewrite (dg_ndfold_ext Z.add 0%Z _ _ (fun g => dg_Gc k c (dg_canon c g))) by (intros; apply dg_G_canon; exact Hd).
  apply (dg_layout_order_irrelevant Z.add 0%Z Z.add_assoc Z.add_comm Z.add_0_l c (dg_Gc k c) Hp). Qed.

(** hence two layouts of the same global field give the same serial value, and by [dg_reduced_eq_serial]
    the reduction over the ranks of any layout on any process grid is replication x that one number *)
Theorem dg_serial_layout_independent k c c' :
  dg_N c = dg_N c' -> dg_etas c = dg_etas c' -> dg_re c = dg_re c' -> dg_im c = dg_im c' ->
  dg_ndims c = dg_ndims c' ->
  perm_b (dg_ndims c) (dg_dims c) = true -> perm_b (dg_ndims c') (dg_dims c') = true -> 0 < dg_ndims c ->
  dg_serial k c = dg_serial k c'.
Proof. intros HN He Hr Hi Hd Hp Hp' H0.
  rewrite (dg_serial_canonical k c Hp H0), (dg_serial_canonical k c' Hp' ltac:(lia)).
  unfold dg_canon_full, dg_factor2, dg_eta. rewrite HN, He, Hd. f_equal.
  apply (dg_ndfold_ext Z.add 0%Z). intros idx. unfold dg_Gc, dg_Wc, dg_eta. rewrite HN, He, Hr, Hi, Hd. reflexivity. Qed.

Theorem dg_reduced_any_layout k c c' : dg_link_ok c = true ->
  dg_N c = dg_N c' -> dg_etas c = dg_etas c' -> dg_re c = dg_re c' -> dg_im c = dg_im c' ->
  dg_ndims c = dg_ndims c' -> perm_b (dg_ndims c') (dg_dims c') = true ->
  dg_reduced k c = (Z.of_nat (dg_replication c) * dg_serial k c')%Z.
Proof. intros Hok HN He Hr Hi Hd Hp'. destruct (dg_link_ok_facts c Hok) as [Hp [H0 _]].
  rewrite (dg_reduced_eq_serial k c Hok). f_equal. apply dg_serial_layout_independent; assumption. Qed.

(** the collector's minimum / maximum is the extremum of the global field over all cells *)
Theorem dg_collector_ext_is_global mx c : dg_link_ok c = true ->
  dg_collector_ext mx c = dg_ndfold (dg_ext mx) None (dg_canon_full c) (fun idx => Some (dg_zn (dg_re c) (ravel (dg_N c) idx))).
Proof. intros Hok. destruct (dg_link_ok_facts c Hok) as [Hp _].
  rewrite (dg_collector_ext_eq_serial mx c Hok), (dg_local_ext_block_fold mx (dg_serial_cfg c)), dg_serial_ranges.
  change (dg_cell (dg_re (dg_serial_cfg c)) (dg_serial_cfg c)) with (dg_cell (dg_re c) c).
  apply (dg_layout_order_irrelevant (dg_ext mx) None (dg_ext_assoc mx) (dg_ext_comm mx) (dg_ext_e_l mx) c
           (fun idx => Some (dg_zn (dg_re c) (ravel (dg_N c) idx))) Hp). Qed.

Theorem dg_collector_min_spec c : dg_link_ok c = true ->
  dg_is_ext Z.le (dg_inbox (dg_canon_full c)) (fun idx => Some (dg_zn (dg_re c) (ravel (dg_N c) idx))) (dg_collector_ext false c).
Proof. intros Hok. rewrite (dg_collector_ext_is_global false c Hok). apply dg_min_is_min. Qed.

Theorem dg_collector_max_spec c : dg_link_ok c = true ->
  dg_is_ext Z.ge (dg_inbox (dg_canon_full c)) (fun idx => Some (dg_zn (dg_re c) (ravel (dg_N c) idx))) (dg_collector_ext true c).
Proof. intros Hok. rewrite (dg_collector_ext_is_global true c Hok). apply dg_max_is_max. Qed.

(** the slice reduction is the extremum over the cells of the global index space (layout order) whose
    indices match the fixed values *)
Theorem dg_reduced_ext_spec c pairs : dg_link_ok c = true ->
  dg_is_ext Z.le (dg_inbox (dg_full c))
    (fun g => if dg_matches (dg_fixs c pairs) g then Some (dg_cell (dg_re c) c g) else None) (dg_reduced_ext false c pairs)
  /\ dg_is_ext Z.ge (dg_inbox (dg_full c))
    (fun g => if dg_matches (dg_fixs c pairs) g then Some (dg_cell (dg_re c) c g) else None) (dg_reduced_ext true c pairs).
Proof. intros Hok. split.
  - destruct (dg_reduced_ext_eq_serial false c pairs Hok) as [_ ->].
    rewrite (dg_slice_fold_delta dg_omin None dg_omin_comm dg_omin_e_l). apply dg_min_is_min.
  - destruct (dg_reduced_ext_eq_serial true c pairs Hok) as [_ ->].
    rewrite (dg_slice_fold_delta dg_omax None dg_omax_comm dg_omax_e_l). apply dg_max_is_max.
Qed.

(** ** fixed-index slices in canonical coordinates *)
Lemma dg_matches_spec fixs : forall idx, length idx = length fixs ->
  (dg_matches fixs idx = true <-> forall i v, i < length fixs -> nth i fixs None = Some v -> nth i idx 0 = v).
Proof.
  induction fixs as [|f fixs IH]; intros [|j idx] Hl; cbn [length] in Hl; try discriminate.
  - cbn. split; [intros _ i v Hi; lia|reflexivity].
  - specialize (IH idx ltac:(lia)). destruct f as [x|]; cbn [dg_matches].
    + rewrite andb_true_iff, Nat.eqb_eq, IH. split.
      * intros [E H] [|i] v Hi Hn; cbn [nth] in *; [injection Hn as <-; exact E|apply H; [cbn [length] in Hi; lia|exact Hn]].
      * intros H. split; [apply (H 0 x); [cbn [length]; lia|reflexivity]|].
        intros i v Hi Hn. apply (H (S i) v); [cbn [length]; lia|exact Hn].
    + rewrite IH. split.
      * intros H [|i] v Hi Hn; cbn [nth] in *; [discriminate|apply H; [cbn [length] in Hi; lia|exact Hn]].
      * intros H i v Hi Hn. apply (H (S i) v); [cbn [length]; lia|exact Hn].
Qed.

(** the fixed index of canonical dimension x, if any: zip(axis, fixValue) looked up by axis *)
Definition dg_pair_fix (pairs : list (nat * nat)) (x : nat) : option nat :=
  match find (fun af => fst af =? x) pairs with Some af => Some (snd af) | None => None end.
Definition dg_cfixs (c : dg_cfg) (pairs : list (nat * nat)) : list (option nat) :=
  map (dg_pair_fix pairs) (seq 0 (dg_ndims c)).

Lemma dg_fixs_eq c pairs : dg_fixs c pairs = map (dg_pair_fix pairs) (dg_dims c).
Proof. reflexivity. Qed.

Lemma dg_nth_map_opt {A} (f : nat -> option A) l i : i < length l -> nth i (map f l) None = f (nth i l 0).
Proof. intros Hi. rewrite (nth_indep _ None (f 0)) by (rewrite map_length; exact Hi). apply map_nth. Qed.

Lemma dg_matches_canon c pairs g : perm_b (dg_ndims c) (dg_dims c) = true -> length g = dg_ndims c ->
  dg_matches (dg_fixs c pairs) g = dg_matches (dg_cfixs c pairs) (dg_canon c g).
Proof.
  intros Hp Hg.
  assert (L1 : length g = length (dg_fixs c pairs)) by (rewrite dg_fixs_eq, map_length; exact Hg).
  assert (L2 : length (dg_canon c g) = length (dg_cfixs c pairs))
    by (unfold dg_canon, dg_cfixs; rewrite !map_length; reflexivity).
  pose proof (dg_matches_spec _ _ L1) as S1. pose proof (dg_matches_spec _ _ L2) as S2.
  assert (E : dg_matches (dg_fixs c pairs) g = true <-> dg_matches (dg_cfixs c pairs) (dg_canon c g) = true).
  { rewrite S1, S2. rewrite dg_fixs_eq. unfold dg_cfixs. rewrite !map_length, seq_length. fold (dg_ndims c). split.
    - intros H x v Hx Hn. rewrite dg_nth_map_opt in Hn by (rewrite seq_length; exact Hx). rewrite seq_nth in Hn by exact Hx.
      cbn [Nat.add] in Hn. rewrite (dg_canon_nth c g x Hx).
      destruct (dg_inv_spec c x Hp Hx) as [Hi Ei]. destruct (perm_bwd _ _ Hp x Hx) as [_ Hb].
      apply (H (dg_inv c x) v Hi). rewrite dg_nth_map_opt by exact Hi. rewrite Ei, Hb. exact Hn.
    - intros H i v Hi Hn. rewrite dg_nth_map_opt in Hn by exact Hi.
      destruct (perm_fwd _ _ Hp i Hi) as [Hx Ef]. set (x := nth i (dg_dims c) 0) in *.
      specialize (H x v Hx). rewrite dg_nth_map_opt in H by (rewrite seq_length; exact Hx).
      rewrite seq_nth in H by exact Hx. cbn [Nat.add] in H. specialize (H Hn).
      rewrite (dg_canon_nth c g x Hx) in H. destruct (dg_inv_spec c x Hp Hx) as [_ Ei]. rewrite Ei, Ef in H. exact H. }
  destruct (dg_matches (dg_fixs c pairs) g), (dg_matches (dg_cfixs c pairs) (dg_canon c g)); try reflexivity.
  - symmetry. apply E. reflexivity.
  - apply E. reflexivity.
Qed.

(** getMin / getMax (drawingRank, axis, fixValue) = extremum over the cells of the global array, canonical
    coordinates (r, theta, z, v), whose coordinate along every given axis equals the given fixValue *)
Theorem dg_reduced_ext_canonical mx c pairs : dg_link_ok c = true ->
  dg_reduced_ext mx c pairs
  = dg_ndfold (dg_ext mx) None (dg_canon_full c)
      (fun idx => if dg_matches (dg_cfixs c pairs) idx then Some (dg_zn (dg_re c) (ravel (dg_N c) idx)) else None).
Proof.
  intros Hok. destruct (dg_link_ok_facts c Hok) as [Hp _].
  destruct (dg_reduced_ext_eq_serial mx c pairs Hok) as [_ ->].
  rewrite (dg_slice_fold_delta (dg_ext mx) None (dg_ext_comm mx) (dg_ext_e_l mx)).
  rewrite <- (dg_layout_order_irrelevant (dg_ext mx) None (dg_ext_assoc mx) (dg_ext_comm mx) (dg_ext_e_l mx) c _ Hp).
  apply (dg_ndfold_ext_in (dg_ext mx) None). intros g Hg.
  rewrite (dg_matches_canon c pairs g Hp); [reflexivity|].
  rewrite (dg_inbox_length _ _ Hg). unfold dg_full. rewrite map_length, seq_length. reflexivity.
Qed.

Theorem dg_reduced_ext_canonical_spec c pairs : dg_link_ok c = true ->
  dg_is_ext Z.le (dg_inbox (dg_canon_full c))
    (fun idx => if dg_matches (dg_cfixs c pairs) idx then Some (dg_zn (dg_re c) (ravel (dg_N c) idx)) else None)
    (dg_reduced_ext false c pairs)
  /\ dg_is_ext Z.ge (dg_inbox (dg_canon_full c))
    (fun idx => if dg_matches (dg_cfixs c pairs) idx then Some (dg_zn (dg_re c) (ravel (dg_N c) idx)) else None)
    (dg_reduced_ext true c pairs).
Proof. intros Hok. rewrite !(dg_reduced_ext_canonical _ c pairs Hok). split; [apply dg_min_is_min|apply dg_max_is_max]. Qed.
