(** The density model (Density.v) and small executable wrappers of the C15 bookkeeping (QnModes.v) at the
    instance that is extracted and run: stdlib canonical rationals [Qc]. *)
From Coq Require Import List Arith Lia ZArith QArith Qcanon Bool.
Import ListNotations.
From PGV Require Import Blocks Sums GridSteps Density QnModes QnPipeline.

Definition dnq_zero : Qc := Q2Qc 0.
Definition dnq_get_perturbed_rho := dn_get_perturbed_rho Qc dnq_zero Qcplus Qcmult Qcminus.
Definition dnq_get_rho := dn_get_rho Qc dnq_zero Qcplus Qcmult.
Definition dnq_feq_rows := dn_feq_rows Qc.
Definition dnq_finder_perturbed_rho := dn_finder_perturbed_rho Qc dnq_zero Qcplus Qcmult Qcminus.
Definition dnq_store_complex := dn_store_complex Qc dnq_zero.
Definition dnq_show (a : Qc) : Z * positive := (Qnum (this a), Qden (this a)).
Definition dnq_of (n : Z) (d : positive) : Qc := Q2Qc (Qmake n d).
Definition dnq_show3 (r : option (list (list (list Qc)))) := option_map (map (map (map dnq_show))) r.

(** the field laws the theorems of Density.v / QnPipeline.v are proved under hold at this instance *)
Definition dnq_field := Qcft.

(** C15 bookkeeping as run by the harness *)
Definition qnx_ranges (nb : Z) (lN uN : list Z) (n : nat) : list (Z * Z) * list (Z * Z) :=
  (qn_coeff_ranges nb lN uN n, qn_stiff_ranges nb lN uN n).
Definition qnx_scalars (nb : Z) (lN uN : list Z) : Z * Z * Z * Z :=
  (qn_start_range lN, qn_end_range nb uN, qn_excluded_end uN, qn_nunknowns nb lN uN).
Definition qnx_mode0_full (nb : Z) (lN uN : list Z) : bool :=
  let r := qn_stiff_range nb lN uN 0 in (fst r =? 0)%Z && (snd r =? qn_nunknowns nb lN uN)%Z.
Definition qnx_conj_table (n : nat) : list nat := map (qn_conj n) (seq 0 n).
