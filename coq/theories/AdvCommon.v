(** Definitions shared by the models of the three z / v-parallel operators of
    pygyro/advection (FluxAdv.v - C10, VParAdv.v - C11, ParGrad.v - C13): Python's floor and [%]
    on the abstract field of SplineModel.v, the theta/v spline evaluator selected by the
    [cubic_uniform_splines] flag, left-to-right weighted sums, and the facts about them that the
    three theories use (floor specification, integers embed additively, the evaluator is linear
    in the coefficients). *)
From Coq Require Import List Arith Lia ZArith Bool Field Ring Setoid.
Import ListNotations.
From PGV Require Import BasisCoxDeBoor FindSpan CubicUniform Sums SplineModel SplineTheory.

Section AdvModel.
Variable F : Type.
Variable K : sp_ops F.
Notation "x + y" := (spadd K x y). Notation "x * y" := (spmul K x y).
Notation "x - y" := (spsub K x y). Notation "x / y" := (spdiv K x y).
Notation "0" := (sp0 K). Notation "1" := (sp1 K).

(** floor of a field element from int() (truncation towards zero) *)
Definition adv_floor (y : F) : Z :=
  let t := sptrunc K y in if spleb K (sp_ofZ F K t) y then t else (t - 1)%Z.

(** Python [x % m] (sign of the divisor; Fraction.__mod__ is x - m*floor(x/m)); m <> 0 is guarded
    by every caller *)
Definition adv_mod (x m : F) : F := x - m * sp_ofZ F K (adv_floor (x / m)).

(** eval_spline_1d_scalar(x, kts, deg, coeffs, 0) of the entry point chosen by cubic_uniform_splines *)
Definition adv_ev (cu : bool) (knots : list F) (deg : nat) (coeffs : list F) (x : F) : sp_res F :=
  if cu then sp_cu_eval_1d_scalar F K x knots deg coeffs 0
  else sp_nu_eval_1d_scalar F K x knots deg coeffs 0.

(** sum_{j < n} g j, accumulated from the left *)
Definition adv_sum (n : nat) (g : nat -> F) : F := Sums.sumn F 0 (spadd K) n g.

(** c[0]*g 0, then += c[k]*g k : the accumulation order of flux_advection *)
Fixpoint adv_comb_acc (cs : list F) (g : nat -> F) (k : nat) (acc : F) : F :=
  match cs with
  | [] => acc
  | c :: rest => adv_comb_acc rest g (S k) (acc + c * g k)
  end.
Definition adv_comb (cs : list F) (g : nat -> F) : F :=
  match cs with
  | [] => 0
  | c0 :: rest => adv_comb_acc rest g 1 (c0 * g 0%nat)
  end.

Definition adv_sumlist (l : list F) : F := fold_left (fun a x => a + x) l 0.
Definition adv_prodlist (l : list F) : F := fold_left (fun a x => a * x) l 1.
End AdvModel.

Section AdvTheory.
Variable F : Type.
Variable K : sp_ops F.
Hypothesis HK : sp_laws K.
Add Field ADVF : (spl_field K HK).
Notation "x + y" := (spadd K x y). Notation "x * y" := (spmul K x y).
Notation "x - y" := (spsub K x y). Notation "x / y" := (spdiv K x y).
Notation "0" := (sp0 K). Notation "1" := (sp1 K).
Notation "x <= y" := (sp_le K x y). Notation "x < y" := (sp_lt K x y).
Notation ofn := (sp_ofnat F K).
Notation ofZ := (sp_ofZ F K).
Notation sumn := (adv_sum F K).

(* ------------------------------------------------------------------------------------------ *)
(** * integers embed additively *)
Lemma adv_ofZ_opp z : ofZ (- z) = spopp K (ofZ z).
Proof. destruct z as [|p|p]; cbn [Z.opp sp_ofZ]; ring. Qed.

Lemma adv_ofZ_of_nat n : ofZ (Z.of_nat n) = ofn n.
Proof. rewrite (sp_ofZ_ofnat F K HK) by lia. rewrite Nat2Z.id. reflexivity. Qed.

Lemma adv_ofZ_sub_nat a b : ofZ (Z.of_nat a - Z.of_nat b) = ofn a - ofn b.
Proof.
  destruct (Nat.le_ge_cases b a) as [H|H].
  - replace (Z.of_nat a - Z.of_nat b)%Z with (Z.of_nat (a - b)) by lia. rewrite adv_ofZ_of_nat.
    replace a with ((a - b) + b)%nat at 2 by lia. rewrite (sp_ofnat_add F K HK). ring.
  - replace (Z.of_nat a - Z.of_nat b)%Z with (- Z.of_nat (b - a))%Z by lia.
    rewrite adv_ofZ_opp, adv_ofZ_of_nat.
    replace b with ((b - a) + a)%nat at 2 by lia. rewrite (sp_ofnat_add F K HK). ring.
Qed.

Lemma adv_Z_as_diff z : z = (Z.of_nat (Z.to_nat z) - Z.of_nat (Z.to_nat (- z)))%Z.
Proof. lia. Qed.

Theorem adv_ofZ_add a b : ofZ (a + b) = ofZ a + ofZ b.
Proof.
  rewrite (adv_Z_as_diff a) at 1. rewrite (adv_Z_as_diff b) at 1.
  replace (Z.of_nat (Z.to_nat a) - Z.of_nat (Z.to_nat (- a)) + (Z.of_nat (Z.to_nat b) - Z.of_nat (Z.to_nat (- b))))%Z
    with (Z.of_nat (Z.to_nat a + Z.to_nat b) - Z.of_nat (Z.to_nat (- a) + Z.to_nat (- b)))%Z by lia.
  rewrite adv_ofZ_sub_nat, !(sp_ofnat_add F K HK).
  rewrite (adv_Z_as_diff a) at 3. rewrite (adv_Z_as_diff b) at 3. rewrite !adv_ofZ_sub_nat. ring.
Qed.

Lemma adv_ofZ_1 : ofZ 1 = 1.
Proof. reflexivity. Qed.

Lemma adv_ofZ_sub a b : ofZ (a - b) = ofZ a - ofZ b.
Proof. replace (a - b)%Z with (a + - b)%Z by lia. rewrite adv_ofZ_add, adv_ofZ_opp. ring. Qed.

(* ------------------------------------------------------------------------------------------ *)
(** * floor *)

(** what is assumed of [sptrunc] (Python int()): truncation towards zero, i.e. floor on the
    non-negative numbers and odd.  Proved for the executed instance in AdvQc.v. *)
Definition adv_trunc_ok : Prop :=
  sp_trunc_ok F K /\ forall v, sptrunc K (spopp K v) = (- sptrunc K v)%Z.

Lemma adv_le_opp a b : a <= b -> spopp K b <= spopp K a.
Proof. intros H. apply (sp_nonneg_sub F K HK). replace (spopp K a - spopp K b) with (b - a) by ring.
  apply (sp_sub_nonneg F K HK), H. Qed.

Lemma adv_lt_add_r a b c : a < b -> a + c < b + c.
Proof. intros [H Hne]. split; [apply (spl_add_le K HK), H|]. intros E. apply Hne.
  replace a with ((a + c) - c) by ring. rewrite E. ring. Qed.

Lemma adv_not_le_lt a b : ~ a <= b -> b < a.
Proof. intros H. split.
  - destruct (spl_le_total K HK a b) as [H1|H1]; [contradiction|exact H1].
  - intros E. apply H. rewrite E. apply (sp_le_refl F K HK). Qed.

Theorem adv_floor_spec y : adv_trunc_ok ->
  ofZ (adv_floor F K y) <= y /\ y < ofZ (adv_floor F K y) + 1.
Proof.
  intros [Htr Hodd]. unfold adv_floor. cbv zeta.
  destruct (spl_le_total K HK 0 y) as [Hy|Hy].
  - destruct (Htr y Hy) as [_ [H1 H2]]. rewrite H1. split; assumption.
  - (* y <= 0 : trunc y = - trunc (-y) *)
    assert (Hny : 0 <= spopp K y).
    { replace 0 with (spopp K 0) by ring. apply adv_le_opp, Hy. }
    destruct (Htr _ Hny) as [Ht0 [H1 H2]].
    assert (Et : sptrunc K y = (- sptrunc K (spopp K y))%Z).
    { rewrite <- (Hodd (spopp K y)). f_equal. ring. }
    set (t' := sptrunc K (spopp K y)) in *. rewrite Et.
    destruct (spleb K (ofZ (- t')) y) eqn:E.
    + split; [exact E|]. rewrite adv_ofZ_opp.
      apply (sp_le_lt_trans F K HK) with (spopp K (ofZ t') ).
      * replace y with (spopp K (spopp K y)) by ring. apply adv_le_opp, H1.
      * split; [apply (sp_le_add_r F K HK), (sp_0_le_1 F K HK)|]. intros E1. apply (sp_1_neq_0 F K HK).
        replace 1 with ((spopp K (ofZ t') + 1) - spopp K (ofZ t')) by ring. rewrite <- E1. ring.
    + assert (Hlt : y < ofZ (- t')).
      { apply adv_not_le_lt. intros H. unfold sp_le in H. congruence. }
      rewrite adv_ofZ_sub, adv_ofZ_1. split.
      * rewrite adv_ofZ_opp. destruct H2 as [H2 H2ne].
        replace y with (spopp K (spopp K y)) by ring.
        replace (spopp K (ofZ t') - 1) with (spopp K (ofZ t' + 1)) by ring. apply adv_le_opp, H2.
      * replace (ofZ (- t') - 1 + 1) with (ofZ (- t')) by ring. exact Hlt.
Qed.

(* ------------------------------------------------------------------------------------------ *)
(** * sums *)
Lemma adv_sum_S n g : sumn (S n) g = sumn n g + g n.
Proof. reflexivity. Qed.
Lemma adv_sum_ext n f g : (forall k, (k < n)%nat -> f k = g k) -> sumn n f = sumn n g.
Proof. apply Sums.sumn_ext. Qed.
Lemma adv_sum_add n f g : sumn n (fun k => f k + g k) = sumn n f + sumn n g.
Proof. apply (Sums.sumn_add F 0 1 (spadd K) (spmul K) (spsub K) (spdiv K) (spopp K) (spinv K) (spl_field K HK)). Qed.
Lemma adv_sum_scale n a f : sumn n (fun k => a * f k) = a * sumn n f.
Proof. apply (Sums.sumn_scale F 0 1 (spadd K) (spmul K) (spsub K) (spdiv K) (spopp K) (spinv K) (spl_field K HK)). Qed.
Lemma adv_sum_zero n : sumn n (fun _ => 0) = 0.
Proof. induction n as [|n IH]; [reflexivity|]. rewrite adv_sum_S, IH. ring. Qed.
Lemma adv_sum_single n (g : nat -> F) j : (j < n)%nat -> (forall k, (k < n)%nat -> k <> j -> g k = 0) ->
  sumn n g = g j.
Proof.
  induction n as [|n IH]; intros Hj Hz; [lia|]. rewrite adv_sum_S.
  destruct (Nat.eq_dec j n) as [->|Hne].
  - rewrite (adv_sum_ext n g (fun _ => 0)) by (intros k Hk; apply Hz; lia). rewrite adv_sum_zero. ring.
  - rewrite IH by (try lia; intros k Hk Hkj; apply Hz; lia). rewrite (Hz n) by lia. ring.
Qed.

Lemma adv_comb_acc_sum cs g : forall k acc,
  adv_comb_acc F K cs g k acc = acc + sumn (length cs) (fun j => nth j cs 0 * g (k + j)%nat).
Proof.
  induction cs as [|c rest IH]; intros k acc; cbn [adv_comb_acc length].
  - cbn. ring.
  - rewrite IH. clear IH. revert c. induction (length rest) as [|n IHn]; intros c.
    + cbn. rewrite Nat.add_0_r. ring.
    + rewrite adv_sum_S. rewrite (adv_sum_S (S n)).
      replace (acc + c * g k + (sumn n (fun j => nth j rest 0 * g (S k + j)%nat) + nth n rest 0 * g (S k + n)%nat))
        with ((acc + c * g k + sumn n (fun j => nth j rest 0 * g (S k + j)%nat)) + nth n rest 0 * g (S k + n)%nat) by ring.
      rewrite IHn. cbn [nth]. replace (k + S n)%nat with (S k + n)%nat by lia. ring.
Qed.

Theorem adv_comb_sum cs g : adv_comb F K cs g = sumn (length cs) (fun j => nth j cs 0 * g j).
Proof.
  destruct cs as [|c0 rest]; [reflexivity|]. cbn [adv_comb]. rewrite adv_comb_acc_sum. cbn [length].
  induction (length rest) as [|n IHn].
  - cbn. ring.
  - rewrite adv_sum_S, (adv_sum_S (S n)). cbn [nth].
    replace (c0 * g 0%nat + (sumn n (fun j => nth j rest 0 * g (1 + j)%nat) + nth n rest 0 * g (1 + n)%nat))
      with ((c0 * g 0%nat + sumn n (fun j => nth j rest 0 * g (1 + j)%nat)) + nth n rest 0 * g (1 + n)%nat) by ring.
    rewrite IHn. reflexivity.
Qed.

Lemma adv_sumr_lin a b n (f g h : nat -> F) : forall s,
  (forall j, h j = a * f j + b * g j) ->
  Sums.sumr F 0 (spadd K) s n h = a * Sums.sumr F 0 (spadd K) s n f + b * Sums.sumr F 0 (spadd K) s n g.
Proof.
  induction n as [|n IH]; intros s H; cbn [Sums.sumr]; [ring|]. rewrite (IH (S s) H), H. ring.
Qed.

(* ------------------------------------------------------------------------------------------ *)
(** * the evaluator is linear in the coefficients (same knots, same point) *)
Lemma adv_dot_checked_lin a b c1 c2 c3 span deg basis v1 v2 :
  length c1 = length c3 -> length c2 = length c3 ->
  (forall n, nth n c3 0 = a * nth n c1 0 + b * nth n c2 0) ->
  sp_dot_checked F K c1 span deg basis = SpOk v1 ->
  sp_dot_checked F K c2 span deg basis = SpOk v2 ->
  sp_dot_checked F K c3 span deg basis = SpOk (a * v1 + b * v2).
Proof.
  intros L1 L2 H. unfold sp_dot_checked. rewrite L1, L2.
  destruct ((deg <=? span)%nat && (span <? length c3)%nat); [|discriminate].
  intros E1 E2. injection E1 as <-. injection E2 as <-. f_equal.
  rewrite !(sp_dot_loop_sum F K HK).
  apply adv_sumr_lin. intros j. rewrite H. ring.
Qed.

Theorem adv_ev_linear cu knots deg a b c1 c2 c3 x v1 v2 :
  length c1 = length c3 -> length c2 = length c3 ->
  (forall n, nth n c3 0 = a * nth n c1 0 + b * nth n c2 0) ->
  adv_ev F K cu knots deg c1 x = SpOk v1 -> adv_ev F K cu knots deg c2 x = SpOk v2 ->
  adv_ev F K cu knots deg c3 x = SpOk (a * v1 + b * v2).
Proof.
  intros L1 L2 H. unfold adv_ev. destruct cu.
  - unfold sp_cu_eval_1d_scalar. destruct (sp_cu_unpack F K knots) as [[[[xmin xmax] dx] nc]| | | |]; cbn [sp_bind]; try discriminate.
    unfold sp_cu_point. destruct (sp_cu_find_span F K xmin xmax dx x nc) as [so| | | |]; cbn [sp_bind]; try discriminate.
    destruct (sp_cu_basis_sel F K 0 (snd so) dx) as [basis| | | |]; cbn [sp_bind]; try discriminate.
    destruct (sp_span_nat (fst so)) as [span| | | |]; cbn [sp_bind]; try discriminate.
    apply adv_dot_checked_lin; assumption.
  - unfold sp_nu_eval_1d_scalar. destruct (sp_nu_find_span F K knots deg x) as [span| | | |]; cbn [sp_bind]; try discriminate.
    destruct (sp_nu_basis_funs F K knots deg x span) as [basis| | | |]; cbn [sp_bind]; try discriminate.
    apply adv_dot_checked_lin; assumption.
Qed.

(** the evaluator succeeds or fails independently of the values of the coefficients *)
Theorem adv_ev_ok_indep cu knots deg c1 c2 x v1 :
  length c1 = length c2 -> adv_ev F K cu knots deg c1 x = SpOk v1 ->
  exists v2, adv_ev F K cu knots deg c2 x = SpOk v2.
Proof.
  intros L. unfold adv_ev. destruct cu.
  - unfold sp_cu_eval_1d_scalar. destruct (sp_cu_unpack F K knots) as [[[[xmin xmax] dx] nc]| | | |]; cbn [sp_bind]; try discriminate.
    unfold sp_cu_point. destruct (sp_cu_find_span F K xmin xmax dx x nc) as [so| | | |]; cbn [sp_bind]; try discriminate.
    destruct (sp_cu_basis_sel F K 0 (snd so) dx) as [basis| | | |]; cbn [sp_bind]; try discriminate.
    destruct (sp_span_nat (fst so)) as [span| | | |]; cbn [sp_bind]; try discriminate.
    unfold sp_dot_checked. rewrite L. destruct ((3 <=? span)%nat && (span <? length c2)%nat); [|discriminate].
    intros _. eexists. reflexivity.
  - unfold sp_nu_eval_1d_scalar. destruct (sp_nu_find_span F K knots deg x) as [span| | | |]; cbn [sp_bind]; try discriminate.
    destruct (sp_nu_basis_funs F K knots deg x span) as [basis| | | |]; cbn [sp_bind]; try discriminate.
    unfold sp_dot_checked. rewrite L. destruct ((deg <=? span)%nat && (span <? length c2)%nat); [|discriminate].
    intros _. eexists. reflexivity.
Qed.

Notation sumr := (Sums.sumr F 0 (spadd K)).
Notation sumf := (sumF F 0 (spadd K)).

(* ------------------------------------------------------------------------------------------ *)
(** * constants are reproduced by the evaluator (partition of unity) *)
Lemma adv_sumr_nth_sumF (l : list F) : forall a, sumr a (length l) (fun j => nth (j - a) l 0) = sumf l.
Proof.
  induction l as [|v l IH]; intros a; cbn [length Sums.sumr sumF]; [reflexivity|].
  rewrite Nat.sub_diag. cbn [nth]. f_equal.
  rewrite <- (IH (S a)). apply Sums.sumr_ext. intros i Hi.
  replace (i - a)%nat with (S (i - S a)) by lia. reflexivity.
Qed.
Lemma adv_sumr_scale c (g : nat -> F) : forall m a, sumr a m (fun j => c * g j) = c * sumr a m g.
Proof. induction m as [|m IH]; intros a; cbn [Sums.sumr]; [ring|]. rewrite IH. ring. Qed.

Lemma adv_dot_const coeffs c start n basis : length basis = n -> (start + n <= length coeffs)%nat ->
  (forall i, (i < length coeffs)%nat -> nth i coeffs 0 = c) ->
  sp_dot_loop F K coeffs start n basis = c * sumf basis.
Proof.
  intros Hl Hb Hc. rewrite (sp_dot_loop_sum F K HK).
  rewrite (Sums.sumr_ext F 0 (spadd K) 0 n _ (fun j => c * nth (j - 0) basis 0)).
  - rewrite adv_sumr_scale. rewrite <- Hl, adv_sumr_nth_sumF. reflexivity.
  - intros i Hi. rewrite Hc by lia. rewrite Nat.sub_0_r. reflexivity.
Qed.

(** uniform-cubic path: whenever the evaluation succeeds, a spline with all coefficients c has the value c *)
Theorem adv_ev_const_cu knots deg coeffs c x v :
  (forall i, (i < length coeffs)%nat -> nth i coeffs 0 = c) ->
  adv_ev F K true knots deg coeffs x = SpOk v -> v = c.
Proof.
  intros Hc. unfold adv_ev, sp_cu_eval_1d_scalar.
  destruct (sp_cu_unpack F K knots) as [[[[xmin xmax] dx] nc]| | | |]; cbn [sp_bind]; try discriminate.
  unfold sp_cu_point. destruct (sp_cu_find_span F K xmin xmax dx x nc) as [so| | | |]; cbn [sp_bind]; try discriminate.
  cbn [sp_cu_basis_sel sp_bind].
  destruct (sp_span_nat (fst so)) as [span| | | |]; cbn [sp_bind]; try discriminate.
  unfold sp_dot_checked. destruct (Nat.leb_spec 3 span); [|discriminate].
  destruct (Nat.ltb_spec span (length coeffs)); [|discriminate]. cbn [andb]. intros E. injection E as <-.
  rewrite (adv_dot_const coeffs c (span - 3) 4 (sp_cu_basis_funs F K (snd so))); [|reflexivity|lia|exact Hc].
  rewrite (sp_cu_basis_sum_one F K HK). ring.
Qed.

(** general path: the same on a sorted knot list when the span found is a genuine interval *)
Theorem adv_ev_const_nu knots deg coeffs c x v :
  sp_sorted F K knots ->
  (forall s, sp_nu_find_span F K knots deg x = SpOk s -> sp_span_ok F K knots s) ->
  (forall i, (i < length coeffs)%nat -> nth i coeffs 0 = c) ->
  adv_ev F K false knots deg coeffs x = SpOk v -> v = c.
Proof.
  intros Hs Hspan Hc. unfold adv_ev, sp_nu_eval_1d_scalar.
  destruct (sp_nu_find_span F K knots deg x) as [span| | | |] eqn:Es; cbn [sp_bind]; try discriminate.
  specialize (Hspan span eq_refl).
  unfold sp_nu_basis_funs. destruct ((deg <=? span)%nat && (span + deg <? length knots)%nat) eqn:Eg; [|discriminate].
  destruct (sp_denoms_ok F K (sp_kn F K knots) x span deg); cbn [sp_bind]; [|discriminate].
  apply andb_true_iff in Eg. destruct Eg as [Eg1 _]. apply Nat.leb_le in Eg1.
  unfold sp_dot_checked. destruct (Nat.leb_spec deg span); [|discriminate].
  destruct (Nat.ltb_spec span (length coeffs)); [|discriminate]. cbn [andb]. intros E. injection E as <-.
  rewrite (adv_dot_const coeffs c (span - deg) (S deg) (sp_A22 F K knots deg x span));
    [|apply (sp_A22_length F K)|lia|exact Hc].
  rewrite (sp_A22_sum_one F K HK) by assumption. ring.
Qed.
End AdvTheory.
