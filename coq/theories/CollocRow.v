From Coq Require Import List Arith Lia Field Ring PeanoNat Bool.

Section Colloc.
Variable F : Type.
Variables (f0 f1 : F) (fadd fmul fsub fdiv : F -> F -> F) (fopp finv : F -> F).
Hypothesis Fth : field_theory f0 f1 fadd fmul fsub fopp fdiv finv (@eq F).
Add Field FF3 : Fth.
Notation "x + y" := (fadd x y). Notation "x * y" := (fmul x y). Notation "'o" := f0.

Fixpoint sumn (n : nat) (f : nat -> F) : F := match n with O => 'o | S k => sumn k f + f k end.
Definition upd (f : nat -> F) (i : nat) (v : F) : nat -> F := fun k => if k =? i then v else f k.

Lemma sumn_ext n f g : (forall k, k < n -> f k = g k) -> sumn n f = sumn n g.
Proof. induction n; intros H; cbn; [reflexivity|]. rewrite IHn, H by (intros; try apply H; lia). reflexivity. Qed.

Lemma sumn_upd n f c i v : i < n -> f i = 'o ->
  sumn n (fun k => upd f i v k * c k) = sumn n (fun k => f k * c k) + v * c i.
Proof.
  induction n as [|n IH]; intros Hi Hf; [lia|]. cbn [sumn].
  destruct (Nat.eq_dec i n) as [->|Hne].
  - unfold upd at 2. rewrite Nat.eqb_refl. rewrite Hf.
    rewrite (sumn_ext n (fun k => upd f n v k * c k) (fun k => f k * c k)).
    + ring.
    + intros k Hk. unfold upd. destruct (Nat.eqb_spec k n); [lia|reflexivity].
  - rewrite IH by (try lia; exact Hf). unfold upd at 1. destruct (Nat.eqb_spec n i); [lia|]. ring.
Qed.

(* one row of collocation_matrix: mat[i, js(span)] = basis, numpy assignment semantics
   (columns idx 0 .. idx p, later writes win) *)
Fixpoint row (idx : nat -> nat) (b : nat -> F) (p : nat) : nat -> F :=
  match p with
  | O => upd (fun _ => 'o) (idx O) (b O)
  | S q => upd (row idx b q) (idx (S q)) (b (S q))
  end.

Lemma row_zero idx b p k : (forall j, j <= p -> idx j <> k) -> row idx b p k = 'o.
Proof. induction p as [|p IH]; intros H; cbn [row]; unfold upd.
  - destruct (Nat.eqb_spec k (idx 0)); [exfalso; apply (H 0); lia|reflexivity].
  - destruct (Nat.eqb_spec k (idx (S p))); [exfalso; apply (H (S p)); lia|]. apply IH. intros; apply H; lia. Qed.

(* what Spline1D.eval computes with coefficients read through the same index map *)
Theorem row_dot_is_eval n idx b c p :
  (forall j, j <= p -> idx j < n) ->
  (forall j j', j <= p -> j' <= p -> idx j = idx j' -> j = j') ->        (* p+1 <= nb in the periodic case *)
  sumn n (fun k => row idx b p k * c k) = sumn (S p) (fun j => b j * c (idx j)).
Proof.
  induction p as [|p IH]; intros Hlt Hinj.
  - cbn [row sumn]. rewrite sumn_upd; [|apply Hlt; lia|reflexivity].
    rewrite (sumn_ext n _ (fun _ => 'o)) by (intros; ring).
    assert (Z : forall m, sumn m (fun _ => 'o) = 'o) by (induction m; cbn; [reflexivity|rewrite IHm; ring]).
    rewrite Z. ring.
  - cbn [row]. rewrite sumn_upd.
    + rewrite IH by (intros; try apply Hlt; try apply Hinj; lia). cbn [sumn]. ring.
    + apply Hlt; lia.
    + apply row_zero. intros j Hj E. assert (j = S p) by (apply Hinj; lia). lia.
Qed.
End Colloc.
