(** C18 — checkpoint files: an HDF5 dataset is the global array (in the dims order of the layout
    that is current at save time).  Every rank of the writing process grid [grd] stores its local
    block through the hyperslab [starts:ends] of its layout (grid.py, writeH5Dataset); every rank of
    the loading process grid [grd'] (possibly another one) fetches the hyperslab of *its* layout
    (Grid.loadFromFile, setupFromFile).

    Shapes, grids, coordinates and multi-indices are lists over the axes, in the layout's dims order;
    a non-distributed axis has grid extent 1.  Models are in gather form: cell [A] of the new
    dataset / local buffer receives ... ; payloads (type [V]) are only copied. *)
From Coq Require Import List Arith Lia PeanoNat Bool.
Import ListNotations.
From PGV Require Import Blocks NdIndex.

Section Checkpoint.
Variable V : Type.

(** ** per-axis tables: Layout.starts / Layout.shape for the rank with cartesian coordinates [crd] *)
Fixpoint ck_starts (shp grd crd : list nat) : list nat :=
  match shp, grd, crd with
  | n :: s, p :: g, k :: c => bstart n p k :: ck_starts s g c
  | _, _, _ => []
  end.

Fixpoint ck_lens (shp grd crd : list nat) : list nat :=
  match shp, grd, crd with
  | n :: s, p :: g, k :: c => blen n p k :: ck_lens s g c
  | _, _, _ => []
  end.

(** is the global multi-index [g] inside the hyperslab [starts:ends] of rank [crd] ? *)
Fixpoint ck_inblockb (shp grd crd g : list nat) : bool :=
  match shp, grd, crd, g with
  | n :: s, p :: gr, k :: c, x :: y =>
      (bstart n p k <=? x) && (x <? bstart n p (S k)) && ck_inblockb s gr c y
  | [], [], [], [] => true
  | _, _, _, _ => false
  end.

Fixpoint ck_add (a b : list nat) : list nat :=
  match a, b with x :: a', y :: b' => (x + y) :: ck_add a' b' | _, _ => [] end.
Fixpoint ck_sub (a b : list nat) : list nat :=
  match a, b with x :: a', y :: b' => (x - y) :: ck_sub a' b' | _, _ => [] end.

(** a dataset: flat, row-major over [shp]; [None] = never written *)
Definition ck_dataset := list (option V).
Definition ck_empty (shp : list nat) : ck_dataset := repeat None (size shp).

(** dset[slices] = f[:]  on the rank with coordinates [crd] holding the flat local block [loc] *)
Definition ck_write (shp grd crd : list nat) (loc : list V) (ds : ck_dataset) : ck_dataset :=
  map (fun A => let g := unravel shp A in
         if ck_inblockb shp grd crd g
         then nth_error loc (ravel (ck_lens shp grd crd) (ck_sub g (ck_starts shp grd crd)))
         else nth A ds None)
      (seq 0 (size shp)).

(** f[:] = dataset[slices]  on the rank with coordinates [crd] of the (possibly different) grid *)
Definition ck_read (shp grd crd : list nat) (ds : ck_dataset) : list (option V) :=
  map (fun B => nth (ravel shp (ck_add (ck_starts shp grd crd) (unravel (ck_lens shp grd crd) B))) ds None)
      (seq 0 (size (ck_lens shp grd crd))).

(** the local block of a global field [fld] (a function of the global multi-index) *)
Definition ck_block (shp grd crd : list nat) (fld : list nat -> V) : list V :=
  map (fun B => fld (ck_add (ck_starts shp grd crd) (unravel (ck_lens shp grd crd) B)))
      (seq 0 (size (ck_lens shp grd crd))).

(** all ranks of [ranks] write, one after the other, into a fresh dataset *)
Definition ck_write_all (shp grd : list nat) (ranks : list (list nat)) (fld : list nat -> V) : ck_dataset :=
  fold_left (fun ds c => ck_write shp grd c (ck_block shp grd c fld) ds) ranks (ck_empty shp).

(** a process grid fits a shape: one positive extent per axis *)
Definition ck_grid_ok (shp grd : list nat) : Prop :=
  length grd = length shp /\ Forall (fun p => 0 < p) grd.

(** ** index facts *)
Lemma ck_unravel_inb shp : forall A, A < size shp -> inb shp (unravel shp A).
Proof.
  induction shp as [|n s IH]; intros A HA; cbn [unravel]; [constructor|].
  rewrite size_cons in HA.
  assert (Hs : size s <> 0) by (intros E; rewrite E in HA; lia).
  constructor.
  - apply Nat.div_lt_upper_bound; [exact Hs|lia].
  - apply IH. apply Nat.mod_upper_bound. exact Hs.
Qed.

Lemma ck_ravel_unravel shp : forall A, A < size shp -> ravel shp (unravel shp A) = A.
Proof.
  induction shp as [|n s IH]; intros A HA; cbn [unravel ravel].
  - cbn in HA. lia.
  - rewrite size_cons in HA.
    assert (Hs : size s <> 0) by (intros E; rewrite E in HA; lia).
    rewrite IH by (apply Nat.mod_upper_bound; exact Hs).
    pose proof (Nat.div_mod A (size s) Hs). lia.
Qed.

Lemma ck_axis_lt n p k x : 0 < p -> k < p -> x < bstart n p (S k) -> x < n.
Proof.
  intros Hp Hk Hx. pose proof (bstart_mono n p (S k) p Hp ltac:(lia)) as H.
  rewrite bstart_p in H by exact Hp. lia.
Qed.

(** the hyperslab of a rank lies inside the dataset, local <-> global index translation *)
Lemma ck_block_index shp : forall grd crd j,
  length grd = length shp -> Forall (fun p => 0 < p) grd -> inb grd crd ->
  inb (ck_lens shp grd crd) j ->
  let g := ck_add (ck_starts shp grd crd) j in
  inb shp g /\ ck_inblockb shp grd crd g = true /\ ck_sub g (ck_starts shp grd crd) = j.
Proof.
  induction shp as [|n s IH]; intros grd crd j Hlen Hpos Hc Hj.
  - destruct grd; [|discriminate]. inversion Hc; subst. cbn in *. inversion Hj; subst.
    cbn. repeat split; constructor.
  - destruct grd as [|p gr]; [discriminate|]. inversion Hc as [|? ? k c Hk Hc']; subst.
    cbn [ck_lens ck_starts] in *. inversion Hj as [|? ? x y Hx Hy]; subst.
    inversion Hpos as [|? ? Hp Hpos']; subst. cbn [length] in Hlen.
    destruct (IH gr c y ltac:(lia) Hpos' Hc' Hy) as [H1 [H2 H3]].
    cbn [ck_add ck_inblockb ck_sub]. unfold blen in Hx.
    pose proof (bstart_mono_S n p k Hp).
    repeat split.
    + constructor; [|exact H1]. apply (ck_axis_lt n p k); [exact Hp|exact Hk|lia].
    + rewrite H2. rewrite andb_true_r. apply andb_true_intro. split.
      * apply Nat.leb_le. lia.
      * apply Nat.ltb_lt. lia.
    + f_equal; [lia|exact H3].
Qed.

Lemma ck_inblock_local shp : forall grd crd g,
  ck_inblockb shp grd crd g = true ->
  inb (ck_lens shp grd crd) (ck_sub g (ck_starts shp grd crd)) /\
  ck_add (ck_starts shp grd crd) (ck_sub g (ck_starts shp grd crd)) = g.
Proof.
  induction shp as [|n s IH]; intros grd crd g H.
  - destruct grd, crd, g; try discriminate. cbn. split; [constructor|reflexivity].
  - destruct grd as [|p gr], crd as [|k c], g as [|x y]; try discriminate.
    cbn [ck_inblockb] in H. apply andb_prop in H. destruct H as [H Hy].
    apply andb_prop in H. destruct H as [H1 H2].
    apply Nat.leb_le in H1. apply Nat.ltb_lt in H2.
    destruct (IH gr c y Hy) as [Ha Hb].
    cbn [ck_lens ck_starts ck_sub ck_add]. split.
    + constructor; [unfold blen; lia|exact Ha].
    + f_equal; [lia|exact Hb].
Qed.

(** every global index is owned by a rank of the grid (Blocks.owner per axis) ... *)
Lemma ck_owner shp : forall grd g,
  length grd = length shp -> Forall (fun p => 0 < p) grd -> inb shp g ->
  exists crd, inb grd crd /\ ck_inblockb shp grd crd g = true.
Proof.
  induction shp as [|n s IH]; intros grd g Hlen Hpos Hg.
  - destruct grd; [|discriminate]. inversion Hg; subst. exists []. split; [constructor|reflexivity].
  - destruct grd as [|p gr]; [discriminate|]. inversion Hg as [|? ? x y Hx Hy]; subst.
    inversion Hpos as [|? ? Hp Hpos']; subst. cbn [length] in Hlen.
    destruct (IH gr y ltac:(lia) Hpos' Hy) as [c [Hc Hb]].
    destruct (owner_spec n p x Hp Hx) as [Ho [Hlo Hhi]].
    exists (owner n p x :: c). split; [constructor; assumption|].
    cbn [ck_inblockb]. rewrite Hb, andb_true_r. apply andb_true_intro. split.
    + apply Nat.leb_le. exact Hlo.
    + apply Nat.ltb_lt. exact Hhi.
Qed.

(** ... and by exactly one (blocks_tile per axis): hyperslabs of different ranks are disjoint, so the
    collective write has a single writer per cell *)
Lemma ck_owner_unique shp : forall grd c1 c2 g,
  Forall (fun p => 0 < p) grd -> inb grd c1 -> inb grd c2 ->
  ck_inblockb shp grd c1 g = true -> ck_inblockb shp grd c2 g = true -> c1 = c2.
Proof.
  induction shp as [|n s IH]; intros grd c1 c2 g Hpos H1 H2 B1 B2.
  - destruct grd, c1, c2, g; try discriminate; reflexivity.
  - destruct grd as [|p gr], c1 as [|k1 c1], c2 as [|k2 c2], g as [|x y]; try discriminate.
    inversion H1; subst. inversion H2; subst. inversion Hpos as [|? ? Hp Hpos']; subst.
    cbn [ck_inblockb] in B1, B2.
    apply andb_prop in B1. destruct B1 as [B1 B1y]. apply andb_prop in B1. destruct B1 as [L1 U1].
    apply andb_prop in B2. destruct B2 as [B2 B2y]. apply andb_prop in B2. destruct B2 as [L2 U2].
    apply Nat.leb_le in L1, L2. apply Nat.ltb_lt in U1, U2.
    assert (Hx : x < n) by (apply (ck_axis_lt n p k1); assumption).
    destruct (blocks_tile n p x Hp Hx) as [k [_ Hu]].
    rewrite (Hu k1) by (try assumption; lia). rewrite (Hu k2) by (try assumption; lia).
    f_equal. eapply IH; eassumption.
Qed.

(** ** what a cell holds after a write *)
Lemma ck_nth_map_seq {T} (f : nat -> T) n A d : A < n -> nth A (map f (seq 0 n)) d = f A.
Proof.
  intros HA. rewrite (nth_indep _ d (f 0)) by (rewrite map_length, seq_length; exact HA).
  rewrite map_nth. rewrite seq_nth by exact HA. reflexivity.
Qed.

Lemma ck_write_length shp grd crd loc ds : length (ck_write shp grd crd loc ds) = size shp.
Proof. unfold ck_write. rewrite map_length, seq_length. reflexivity. Qed.

Lemma ck_write_get shp grd crd loc ds A : A < size shp ->
  nth A (ck_write shp grd crd loc ds) None =
  if ck_inblockb shp grd crd (unravel shp A)
  then nth_error loc (ravel (ck_lens shp grd crd) (ck_sub (unravel shp A) (ck_starts shp grd crd)))
  else nth A ds None.
Proof. intros HA. unfold ck_write. rewrite ck_nth_map_seq by exact HA. reflexivity. Qed.

(** the block of a global field, read at the local address of a global index of the hyperslab *)
Lemma ck_block_get shp grd crd fld g :
  ck_inblockb shp grd crd g = true ->
  nth_error (ck_block shp grd crd fld)
            (ravel (ck_lens shp grd crd) (ck_sub g (ck_starts shp grd crd))) = Some (fld g).
Proof.
  intros Hb. destruct (ck_inblock_local shp grd crd g Hb) as [Hin Hadd].
  pose proof (ravel_lt _ _ Hin) as Hlt.
  unfold ck_block.
  rewrite (nth_error_nth' _ (fld g)) by (rewrite map_length, seq_length; exact Hlt).
  rewrite ck_nth_map_seq by exact Hlt.
  rewrite unravel_ravel by exact Hin. rewrite Hadd. reflexivity.
Qed.

(** ** all ranks of the writing grid have written: every cell holds the global field *)
Section Field.
Variable shp grd : list nat.
Variable fld : list nat -> V.

Definition ck_covered (ds : ck_dataset) (A : nat) : Prop := nth A ds None = Some (fld (unravel shp A)).

Lemma ck_write_step crd ds A : A < size shp ->
  (ck_covered ds A -> ck_covered (ck_write shp grd crd (ck_block shp grd crd fld) ds) A) /\
  (ck_inblockb shp grd crd (unravel shp A) = true ->
   ck_covered (ck_write shp grd crd (ck_block shp grd crd fld) ds) A).
Proof.
  intros HA. unfold ck_covered. rewrite ck_write_get by exact HA.
  destruct (ck_inblockb shp grd crd (unravel shp A)) eqn:E.
  - split; intros _; apply ck_block_get; exact E.
  - split; [intros H; exact H|discriminate].
Qed.

Lemma ck_fold_covered ranks : forall ds A, A < size shp ->
  (ck_covered ds A \/ exists c, In c ranks /\ ck_inblockb shp grd c (unravel shp A) = true) ->
  ck_covered (fold_left (fun ds c => ck_write shp grd c (ck_block shp grd c fld) ds) ranks ds) A.
Proof.
  induction ranks as [|c r IH]; intros ds A HA H; cbn [fold_left].
  - destruct H as [H|[c [[] _]]]. exact H.
  - apply IH; [exact HA|]. destruct (ck_write_step c ds A HA) as [K1 K2].
    destruct H as [H|[c' [[->|Hin] Hb]]].
    + left. apply K1. exact H.
    + left. apply K2. exact Hb.
    + right. exists c'. split; assumption.
Qed.

Lemma ck_fold_length ranks : forall ds, length ds = size shp ->
  length (fold_left (fun ds c => ck_write shp grd c (ck_block shp grd c fld) ds) ranks ds) = size shp.
Proof.
  induction ranks as [|c r IH]; intros ds H; cbn [fold_left]; [exact H|].
  apply IH. apply ck_write_length.
Qed.

(** the file after the collective write is the global array *)
Theorem ck_file_is_global ranks :
  ck_grid_ok shp grd -> (forall c, inb grd c -> In c ranks) ->
  forall g, inb shp g -> nth (ravel shp g) (ck_write_all shp grd ranks fld) None = Some (fld g).
Proof.
  intros [Hlen Hpos] Hall g Hg.
  pose proof (ravel_lt _ _ Hg) as Hlt.
  destruct (ck_owner shp grd g Hlen Hpos Hg) as [c [Hc Hb]].
  pose proof (ck_fold_covered ranks (ck_empty shp) (ravel shp g) Hlt) as H.
  unfold ck_covered in H. rewrite unravel_ravel in H by exact Hg.
  apply H. right. exists c. split; [apply Hall; exact Hc|exact Hb].
Qed.

(** any rank of any grid reads exactly its own block of the global field *)
Theorem ck_write_read_any_grid ranks grd' crd' :
  ck_grid_ok shp grd -> (forall c, inb grd c -> In c ranks) ->
  ck_grid_ok shp grd' -> inb grd' crd' ->
  ck_read shp grd' crd' (ck_write_all shp grd ranks fld) = map Some (ck_block shp grd' crd' fld).
Proof.
  intros Hg Hall [Hlen' Hpos'] Hc'. unfold ck_read, ck_block. rewrite map_map.
  apply map_ext_in. intros B HB. apply in_seq in HB.
  pose proof (ck_unravel_inb (ck_lens shp grd' crd') B ltac:(lia)) as Hj.
  destruct (ck_block_index shp grd' crd' _ Hlen' Hpos' Hc' Hj) as [Hin _].
  apply ck_file_is_global; assumption.
Qed.
End Field.

(** a cell never written stays [None] (partial write = incomplete file is visible in the model) *)
Lemma ck_unwritten_none shp grd fld ranks : forall A, A < size shp ->
  (forall c, In c ranks -> ck_inblockb shp grd c (unravel shp A) = false) ->
  nth A (ck_write_all shp grd ranks fld) None = None.
Proof.
  intros A HA. unfold ck_write_all.
  assert (H0 : nth A (ck_empty shp) None = None).
  { unfold ck_empty. apply nth_repeat. }
  revert H0. generalize (ck_empty shp). induction ranks as [|c r IH]; intros ds H0 H; cbn [fold_left]; [exact H0|].
  apply IH.
  - rewrite ck_write_get by exact HA. rewrite (H c (or_introl eq_refl)). exact H0.
  - intros c' Hc'. apply H. right. exact Hc'.
Qed.

End Checkpoint.

(** the list of all ranks of a grid, in row-major (MPI cartesian) order *)
Fixpoint ck_all_ranks (grd : list nat) : list (list nat) :=
  match grd with
  | [] => [[]]
  | p :: g => flat_map (fun k => map (cons k) (ck_all_ranks g)) (seq 0 p)
  end.

Lemma ck_all_ranks_complete grd : forall c, inb grd c -> In c (ck_all_ranks grd).
Proof.
  induction grd as [|p g IH]; intros c Hc; inversion Hc; subst; cbn [ck_all_ranks].
  - left. reflexivity.
  - apply in_flat_map. exists i. split; [apply in_seq; lia|]. apply in_map. apply IH. assumption.
Qed.

(** executable instance used by the extracted model: payload = nat (a cell tag) *)
Definition ck_roundtrip (shp grd grd' crd' : list nat) (cells : list nat) : list (option nat) :=
  ck_read nat shp grd' crd'
    (ck_write_all nat shp grd (ck_all_ranks grd) (fun g => nth (ravel shp g) cells 0)).

Definition ck_file_cells (shp grd : list nat) (ranks : list (list nat)) (cells : list nat) : list (option nat) :=
  ck_write_all nat shp grd ranks (fun g => nth (ravel shp g) cells 0).

Definition ck_slab (shp grd crd : list nat) : list nat * list nat :=
  (ck_starts shp grd crd, ck_lens shp grd crd).
