(** C09: the uniform-cubic CLAMPED branch of BSplines._build_integrals (repair 974ae9f).
    integrals[:] = dx, then the parts of the splines outside the domain are subtracted at both ends:
    step_i = dx * sum(values[:3-i]), i = 0,1,2, values = the degree-4 basis at a knot of a uniform knot vector.
    Every subtraction lowers the total by step_i whatever the overlap, so the total is (ncells+3) dx - 2 (step_0+step_1+step_2);
    and step_0 + step_1 + step_2 = 3 dx / 2 follows from the partition of unity, the Greville identity of degree 4 and the
    vanishing of the last value at a knot - without computing the values.  Hence the integrals sum to ncells * dx for
    EVERY ncells >= 1, and so do the quadrature weights. *)
From Coq Require Import List Arith Lia ZArith Bool Field Ring Setoid.
Import ListNotations.
From PGV Require Import BasisCoxDeBoor CoxDeBoorGen FindSpan CubicUniform CollocRow Sums SplineModel SplineTheory InterpModel InterpTheory QuadTheory GrevilleTheory.

Section CubicQuad.
Variable F : Type.
Variable K : sp_ops F.
Hypothesis HK : sp_laws K.
Add Field IPFCQ : (spl_field K HK).
Notation "x + y" := (spadd K x y). Notation "x * y" := (spmul K x y).
Notation "x - y" := (spsub K x y). Notation "x / y" := (spdiv K x y).
Notation "0" := (sp0 K). Notation "1" := (sp1 K).
Notation "x <= y" := (sp_le K x y). Notation "x < y" := (sp_lt K x y).
Notation sumn := (Sums.sumn F 0 (spadd K)).
Notation sumf := (sumF F 0 (spadd K)).
Notation kn := (sp_kn F K).
Notation ofn := (sp_ofnat F K).
Notation Nd knots x s := (Ng F 0 (spadd K) (spmul K) (spsub K) (spdiv K) (kn knots) x (speqb K) (delta F 0 1 s)).

(* lists: l[k] -= v lowers the sum by v *)
Lemma ip_set_length : forall (l : list F) k v, length (ip_set F k v l) = length l.
Proof. induction l as [|h t IH]; intros k v; destruct k; cbn [ip_set length]; try reflexivity. rewrite IH. reflexivity. Qed.
Lemma ip_set_sum : forall (l : list F) k v, (k < length l)%nat -> sumf (ip_set F k v l) = sumf l - nth k l 0 + v.
Proof.
  induction l as [|h t IH]; intros k v Hk; [cbn in Hk; lia|]. destruct k; cbn [ip_set sumF nth]; [ring|].
  rewrite IH by (cbn in Hk; lia). ring.
Qed.
Lemma ip_sub_at_length l k v : length (ip_sub_at F K k v l) = length l.
Proof. unfold ip_sub_at. apply ip_set_length. Qed.
Lemma ip_sub_at_sum l k v : (k < length l)%nat -> sumf (ip_sub_at F K k v l) = sumf l - v.
Proof. intros Hk. unfold ip_sub_at. rewrite ip_set_sum by exact Hk. ring. Qed.
Lemma ip_repeat_sum c m : sumf (repeat c m) = ofn m * c.
Proof. induction m as [|m IH]; cbn [repeat sumF]; [unfold sp_ofnat; cbn; ring|]. rewrite IH, (sp_ofnat_S F K). ring. Qed.

Section Knots12.
Variables xmin dx : F.
Hypothesis Hdx : 0 < dx.
Notation k12 := (ip_knots12 F K xmin dx).
Notation x := (xmin + ofn 4 * dx).

Lemma ip_k12_kn j : (j < 12)%nat -> kn k12 j = xmin + ofn j * dx.
Proof. intros Hj. unfold sp_kn, ip_knots12. rewrite (ip_nth_map_seq (fun k => xmin + ofn k * dx)) by exact Hj. reflexivity. Qed.
Lemma ip_k12_length : length k12 = 12%nat.
Proof. unfold ip_knots12. rewrite map_length, seq_length. reflexivity. Qed.
Lemma ip_k12_step j : (S j < 12)%nat -> kn k12 j < kn k12 (S j).
Proof.
  intros Hj. rewrite !ip_k12_kn by lia. rewrite (sp_ofnat_S F K). destruct Hdx as [Hle Hne]. split.
  - apply (sp_nonneg_sub F K HK). replace (xmin + (ofn j + 1) * dx - (xmin + ofn j * dx)) with dx by ring. exact Hle.
  - intros E. apply Hne. replace dx with ((xmin + (ofn j + 1) * dx) - (xmin + ofn j * dx)) by ring. rewrite <- E. ring.
Qed.
Lemma ip_k12_sorted : sp_sorted F K k12.
Proof. intros i Hi. rewrite ip_k12_length in Hi. apply (ip_k12_step i Hi). Qed.

(** the values of the degree-4 basis at the knot x = t_4 (window 0..4) *)
Definition ip_v12 (q : nat) : F := Nd k12 x 4 4 q.

Lemma ip_v12_values :
  sp_nu_find_span F K k12 4 x = SpOk 4%nat /\
  sp_nu_basis_funs F K k12 4 x 4 = SpOk (map ip_v12 (seq 0 5)).
Proof.
  assert (Hsp : sp_span_ok F K k12 4) by (apply ip_k12_step; lia).
  split.
  - apply (ip_fs_low F K); [rewrite ip_k12_length; lia|]. rewrite ip_k12_kn by lia. apply (sp_le_refl F K HK).
  - rewrite (sp_nu_basis_funs_ok F K HK k12 4 x 4 ip_k12_sorted Hsp) by (rewrite ?ip_k12_length; lia).
    rewrite (ip_A22_delta F K HK k12 4 x 4 ip_k12_sorted Hsp) by lia. reflexivity.
Qed.

(** 3 v0 + 2 v1 + v2 = 3/2, in the form 2 dx (3 v0 + 2 v1 + v2) = 3 dx *)
Lemma ip_v12_identity :
  dx * (ip_v12 0 + ip_v12 1 + ip_v12 2) + dx * (ip_v12 0 + ip_v12 1) + dx * ip_v12 0
  + (dx * (ip_v12 0 + ip_v12 1 + ip_v12 2) + dx * (ip_v12 0 + ip_v12 1) + dx * ip_v12 0) = ofn 3 * dx.
Proof.
  assert (Hsp : sp_span_ok F K k12 4) by (apply ip_k12_step; lia).
  pose proof (ip_sum_one F K HK k12 x 4 ip_k12_sorted Hsp 4 (le_n 4)) as P.
  pose proof (ip_greville_T F K HK k12 x 4 ip_k12_sorted Hsp 4 (le_n 4)) as G.
  assert (Z : ip_v12 4 = 0).
  { unfold ip_v12. apply (ip_Nd_left F K HK k12 x 4 4); try lia. intros j Hj. replace j with 4%nat by lia. apply ip_k12_kn. lia. }
  cbn [Sums.sumn Nat.sub Nat.add] in P, G. fold (ip_v12 0) (ip_v12 1) (ip_v12 2) (ip_v12 3) (ip_v12 4) in P, G.
  unfold ip_T in G. cbn [Sums.sumn Nat.add] in G. rewrite !ip_k12_kn in G by lia. rewrite Z in P, G.
  set (v0 := ip_v12 0) in *. set (v1 := ip_v12 1) in *. set (v2 := ip_v12 2) in *. set (v3 := ip_v12 3) in *.
  set (A := dx * (v0 + v1 + v2) + dx * (v0 + v1) + dx * v0).
  unfold sp_ofnat in *. cbn [ofnat] in *.
  (* linear combination of the two identities *)
  match type of G with ?lhs = ?rhs =>
    assert (E : (A + A) + (A + A) - (1 + 1 + 1 + 1 + 1 + 1) * dx
                = (rhs - lhs) + ((1+1+1+1) * xmin + (1+1+1+1+1+1+1+1+1+1+1+1+1+1+1+1+1+1+1+1+1+1) * dx) * (0 + v0 + v1 + v2 + v3 + 0 - 1))
      by (unfold A; ring) end.
  rewrite G, P in E.
  assert (E2 : (A + A) + (A + A) = (1 + 1 + 1 + 1 + 1 + 1) * dx).
  { replace ((A + A) + (A + A)) with (((A + A) + (A + A) - (1 + 1 + 1 + 1 + 1 + 1) * dx) + (1 + 1 + 1 + 1 + 1 + 1) * dx) by ring. rewrite E. ring. }
  replace (A + A) with (((A + A) + (A + A)) / (1 + 1)) by (field; exact (sp_2_ne0 F K HK)).
  rewrite E2. field. exact (sp_2_ne0 F K HK).
Qed.

End Knots12.

(** BSplines.integrals on the uniform-cubic clamped path: ncells + 3 values that sum to ncells * dx, for EVERY ncells >= 1 *)
Theorem ip_integrals_cubic_clamped_sum xmin xmax dx fn n :
  0 < dx -> sptrunc K fn = Z.of_nat n -> (1 <= n)%nat ->
  exists Il, ip_integrals F K [xmin; xmax; dx; fn] 3 false true = SpOk Il /\ length Il = (n + 3)%nat /\ sumf Il = ofn n * dx.
Proof.
  intros Hdx Hfn Hn.
  assert (Enc : ip_ncells F K [xmin; xmax; dx; fn] 3 true = n) by (unfold ip_ncells; cbn [nth]; rewrite Hfn; apply Nat2Z.id).
  assert (Hok : ip_space_ok F K [xmin; xmax; dx; fn] 3 false true = true).
  { unfold ip_space_ok. rewrite Enc. destruct n as [|n']; [lia|]. reflexivity. }
  destruct (ip_v12_values xmin dx Hdx) as [Efs Ebf].
  unfold ip_integrals. cbv zeta. rewrite Hok, Enc. cbn [negb sp_cu_unpack sp_bind].
  fold (ip_knots12 F K xmin dx). rewrite Efs. cbn [sp_bind]. rewrite Ebf. cbn [sp_bind].
  eexists. split; [reflexivity|].
  set (s0 := dx * ip_lsum F K (firstn (3 - 0) (map (ip_v12 xmin dx) (seq 0 5)))).
  set (s1 := dx * ip_lsum F K (firstn (3 - 1) (map (ip_v12 xmin dx) (seq 0 5)))).
  set (s2 := dx * ip_lsum F K (firstn (3 - 2) (map (ip_v12 xmin dx) (seq 0 5)))).
  set (l0 := repeat dx (n + 3)).
  set (l1 := ip_sub_at F K (n + 3 - 1 - 0) s0 (ip_sub_at F K 0 s0 l0)).
  set (l2 := ip_sub_at F K (n + 3 - 1 - 1) s1 (ip_sub_at F K 1 s1 l1)).
  assert (H0 : length l0 = (n + 3)%nat) by apply repeat_length.
  assert (H1 : length l1 = (n + 3)%nat) by (unfold l1; rewrite !ip_sub_at_length; exact H0).
  assert (H2 : length l2 = (n + 3)%nat) by (unfold l2; rewrite !ip_sub_at_length; exact H1).
  split; [rewrite !ip_sub_at_length; exact H2|].
  rewrite ip_sub_at_sum by (rewrite ip_sub_at_length, H2; lia). rewrite ip_sub_at_sum by (rewrite H2; lia).
  unfold l2. rewrite ip_sub_at_sum by (rewrite ip_sub_at_length, H1; lia). rewrite ip_sub_at_sum by (rewrite H1; lia).
  unfold l1. rewrite ip_sub_at_sum by (rewrite ip_sub_at_length, H0; lia). rewrite ip_sub_at_sum by (rewrite H0; lia).
  unfold l0. rewrite ip_repeat_sum, (sp_ofnat_add F K HK).
  pose proof (ip_v12_identity xmin dx Hdx) as I3.
  unfold s0, s1, s2. rewrite !(ip_lsum_sumF F K HK). cbn [Nat.sub seq map firstn sumF].
  set (v0 := ip_v12 xmin dx 0) in *. set (v1 := ip_v12 xmin dx 1) in *. set (v2 := ip_v12 xmin dx 2) in *.
  transitivity ((ofn n + ofn 3) * dx - ((dx * (v0 + v1 + v2) + dx * (v0 + v1) + dx * v0) + (dx * (v0 + v1 + v2) + dx * (v0 + v1) + dx * v0))); [ring|].
  rewrite I3. ring.
Qed.

(** hence the quadrature weights of a uniform-cubic clamped space sum to ncells * dx (any interpolation points for which
    the transposed solve succeeds; the rows of the collocation matrix sum to one on this path unconditionally) *)
Theorem ip_weights_sum_cubic_clamped xmin xmax dx fn n xs w :
  0 < dx -> sptrunc K fn = Z.of_nat n ->
  ip_quadrature F K [xmin; xmax; dx; fn] 3 false true xs = SpOk w ->
  ip_sum F K (n + 3) (fun i => nth i w 0) = ofn n * dx.
Proof.
  intros Hdx Hfn Hq.
  assert (Enc : ip_ncells F K [xmin; xmax; dx; fn] 3 true = n) by (unfold ip_ncells; cbn [nth]; rewrite Hfn; apply Nat2Z.id).
  assert (Enb : ip_nbasis F K [xmin; xmax; dx; fn] 3 false true = (n + 3)%nat) by (unfold ip_nbasis; rewrite Enc; reflexivity).
  unfold ip_quadrature in Hq.
  destruct (ip_integrals F K [xmin; xmax; dx; fn] 3 false true) as [Il| | | |] eqn:EI; cbn [sp_bind] in Hq; try discriminate.
  assert (Hok : ip_space_ok F K [xmin; xmax; dx; fn] 3 false true = true).
  { unfold ip_quad_from in Hq. cbv zeta in Hq. destruct (ip_space_ok F K [xmin; xmax; dx; fn] 3 false true); [reflexivity|discriminate]. }
  assert (Hn : (1 <= n)%nat) by (destruct (ip_space_ok_facts F K _ _ _ _ Hok) as [_ [H _]]; rewrite Enc in H; exact H).
  destruct (ip_integrals_cubic_clamped_sum xmin xmax dx fn n Hdx Hfn Hn) as [Il' [EI' [HlI HsI]]].
  rewrite EI in EI'. injection EI' as <-.
  destruct (ip_quad_from_spec F K HK _ _ _ _ _ _ _ Hq) as [_ [A [EA _]]]. rewrite Enb in EA.
  assert (Hxs : length xs = (n + 3)%nat).
  { unfold ip_quad_from in Hq. cbv zeta in Hq. rewrite Enb, Hok in Hq. cbn [andb] in Hq.
    destruct (Nat.eqb_spec (length xs) (n + 3)) as [E|]; [exact E|discriminate]. }
  pose proof (ip_rows_sum_one_cubic F K HK [xmin; xmax; dx; fn] 3 false xs A) as R. cbv zeta in R. rewrite Enb in R.
  specialize (R EA Hxs eq_refl).
  pose proof (ip_weights_sum F K HK [xmin; xmax; dx; fn] 3 false true xs Il w A) as W. cbv zeta in W. rewrite Enb in W.
  rewrite (W Hq EA R). rewrite <- HsI. rewrite (ip_sumF_sumn F K HK), HlI. unfold ip_sum. apply (ip_sumn_ext F K). intros j Hj.
  unfold ip_quad_rhs. rewrite (ip_vtab_get F K) by exact Hj. reflexivity.
Qed.

End CubicQuad.
