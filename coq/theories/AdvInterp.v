(** Interpolate-then-operate: the advection / parallel-gradient theorems of FluxAdv.v (C10), VParAdv.v
    (C11) and ParGrad.v (C13) composed with the interpolation theorems of C08 (InterpTheory.v), so that
    the statements are about what the real methods do - compute_interpolant on the nodal data, then the
    kernel - with no hypothesis left on the values of the splines.

    [ip_interp1d knots degree periodic cubic xs u] is SplineInterpolator1D.compute_interpolant on the
    space BSplines(knots, degree, periodic, uniform) with interpolation points xs;
    [ip_eval1d knots degree cubic c x] is, by definition, [adv_ev cubic knots degree c x]. *)
From Coq Require Import List Arith Lia ZArith Bool Field Ring Setoid.
Import ListNotations.
From PGV Require Import BasisCoxDeBoor CoxDeBoorGen FindSpan CubicUniform CollocRow Sums SplineModel SplineTheory
  InterpModel InterpTheory AdvCommon FluxAdv VParAdv ParGrad.

Section AdvInterp.
Variable F : Type.
Variable K : sp_ops F.
Hypothesis HK : sp_laws K.
Add Field AIF : (spl_field K HK).
Notation "x + y" := (spadd K x y). Notation "x * y" := (spmul K x y).
Notation "x - y" := (spsub K x y). Notation "x / y" := (spdiv K x y).
Notation "0" := (sp0 K). Notation "1" := (sp1 K).
Notation "x <= y" := (sp_le K x y). Notation "x < y" := (sp_lt K x y).
Notation ofn := (sp_ofnat F K).
Notation ofZ := (sp_ofZ F K).
Notation sumn := (adv_sum F K).

Lemma ai_ev_eval1d cu knots deg c x : adv_ev F K cu knots deg c x = ip_eval1d F K knots deg cu c x.
Proof. reflexivity. Qed.

(* ------------------------------------------------------------------------------------------ *)
(** * Python's % lands in [0, m) *)
Lemma ai_mul_lt_l m a b : 0 < m -> a < b -> m * a < m * b.
Proof.
  intros [Hm Hmne] [Hab Hne]. split.
  - replace (m * a) with (a * m) by ring. replace (m * b) with (b * m) by ring. apply (sp_mul_le_r F K HK); assumption.
  - intros E. apply Hne. assert (Hm0 : m <> 0) by (intros E0; apply Hmne; symmetry; exact E0).
    replace a with ((m * a) / m) by (field; exact Hm0). rewrite E. field. exact Hm0.
Qed.

Theorem ai_mod_range x m : adv_trunc_ok F K -> 0 < m -> 0 <= adv_mod F K x m /\ adv_mod F K x m < m.
Proof.
  intros Htr Hm. assert (Hm0 : m <> 0) by (intros E0; apply (proj2 Hm); symmetry; exact E0).
  unfold adv_mod. destruct (adv_floor_spec F K HK (x / m) Htr) as [H1 H2].
  set (fl := ofZ (adv_floor F K (x / m))) in *. split.
  - apply (sp_sub_nonneg F K HK).
    pose proof (sp_mul_le_r F K HK _ _ m H1 (proj1 Hm)) as H3.
    replace ((x / m) * m) with x in H3 by (field; exact Hm0). replace (m * fl) with (fl * m) by ring. exact H3.
  - pose proof (ai_mul_lt_l m _ _ Hm H2) as H3. replace (m * (x / m)) with x in H3 by (field; exact Hm0).
    replace m with ((m * (fl + 1)) - m * fl) at 2 by ring.
    replace (x - m * fl) with (x + spopp K (m * fl)) by ring.
    replace (m * (fl + 1) - m * fl) with (m * (fl + 1) + spopp K (m * fl)) by ring.
    apply (adv_lt_add_r F K HK), H3.
Qed.

(** integers are separated: ofZ a < ofZ b + 1 -> a <= b *)
Lemma ai_ofZ_gap a b : ofZ a < ofZ b + 1 -> (a <= b)%Z.
Proof.
  intros H. destruct (Z.le_gt_cases a b) as [Hle|Hgt]; [exact Hle|]. exfalso.
  assert (E : ofZ a = ofZ b + 1 + ofn (Z.to_nat (a - b - 1))).
  { replace a with (b + 1 + Z.of_nat (Z.to_nat (a - b - 1)))%Z at 1 by lia.
    rewrite !(adv_ofZ_add F K HK), (adv_ofZ_of_nat F K HK). reflexivity. }
  apply (sp_lt_irrefl_le F K HK _ _ H). rewrite E. apply (sp_le_add_r F K HK), (sp_ofnat_nonneg F K HK).
Qed.

(** the floor is the only integer n with n <= y < n + 1 *)
Theorem ai_floor_unique y n : adv_trunc_ok F K -> ofZ n <= y -> y < ofZ n + 1 -> adv_floor F K y = n.
Proof.
  intros Htr H1 H2. destruct (adv_floor_spec F K HK y Htr) as [G1 G2].
  assert (A1 : (adv_floor F K y <= n)%Z) by (apply ai_ofZ_gap; apply (sp_le_lt_trans F K HK) with y; assumption).
  assert (A2 : (n <= adv_floor F K y)%Z) by (apply ai_ofZ_gap; apply (sp_le_lt_trans F K HK) with y; assumption).
  lia.
Qed.

Theorem ai_mod_small x m : adv_trunc_ok F K -> 0 < m -> 0 <= x -> x < m -> adv_mod F K x m = x.
Proof.
  intros Htr Hm Hx0 Hxm. assert (Hm0 : m <> 0) by (intros E0; apply (proj2 Hm); symmetry; exact E0).
  unfold adv_mod. rewrite (ai_floor_unique (x / m) 0%Z Htr).
  - cbn [sp_ofZ]. ring.
  - cbn [sp_ofZ]. apply (sp_div_nonneg F K HK); assumption.
  - cbn [sp_ofZ]. replace (0 + 1) with (m / m) by (field; exact Hm0).
    replace (x / m) with ((1 / m) * x) by (field; exact Hm0). replace (m / m) with ((1 / m) * m) by (field; exact Hm0).
    apply ai_mul_lt_l; [|exact Hxm]. split; [apply (sp_inv_nonneg F K HK), Hm|].
    intros E. apply (sp_1_neq_0 F K HK). replace 1 with ((1 / m) * m) by (field; exact Hm0). rewrite <- E. ring.
Qed.

(* ------------------------------------------------------------------------------------------ *)
(** * spaces on which every point of [lo, hi] can be evaluated *)

(** the hypotheses under which Spline1D.eval does not raise on [lo, hi]: a sorted knot list whose first and
    last cells are not empty (general path), or xmin, xmax, dx > 0, ncells >= 1 with xmax = xmin + ncells*dx
    (uniform-cubic path); [lo, hi] inside the domain *)
Definition ai_space (cu : bool) (knots : list F) (deg : nat) (lo hi : F) : Prop :=
  if cu then
    exists xmin xmax dx fn rest n, knots = xmin :: xmax :: dx :: fn :: rest /\ deg = 3%nat /\
      sptrunc K fn = Z.of_nat n /\ (1 <= n)%nat /\ 0 < dx /\ xmax = xmin + ofn n * dx /\ xmin <= lo /\ hi <= xmax /\
      sp_trunc_ok F K
  else
    sp_sorted F K knots /\ (2 * deg + 1 < length knots)%nat /\
    sp_kn F K knots deg < sp_kn F K knots (S deg) /\
    sp_kn F K knots (length knots - deg - 2) < sp_kn F K knots (length knots - 1 - deg) /\
    sp_kn F K knots deg <= lo /\ hi <= sp_kn F K knots (length knots - 1 - deg).

Theorem ai_ev_total cu knots deg lo hi c x : ai_space cu knots deg lo hi ->
  length c = ip_ncoeffs F K knots deg cu -> lo <= x -> x <= hi ->
  exists v, adv_ev F K cu knots deg c x = SpOk v.
Proof.
  intros Hsp Hl Hlo Hhi. destruct cu; unfold ai_space in Hsp.
  - destruct Hsp as [xmin [xmax [dx [fn [rest [n [-> [-> [Hfn [Hn [Hdx [Hmax [Hmin [Hxm Htr]]]]]]]]]]]]]].
    destruct (sp_cu_find_span_spec F K HK xmin xmax dx x n Htr Hn Hdx Hmax) as [s [o [E [Hs _]]]].
    { apply (spl_le_trans K HK) with lo; assumption. }
    { apply (spl_le_trans K HK) with hi; assumption. }
    unfold adv_ev, sp_cu_eval_1d_scalar. cbn [sp_cu_unpack sp_bind]. unfold sp_cu_point. rewrite Hfn, E. cbn [sp_bind fst snd sp_cu_basis_sel].
    unfold sp_span_nat. destruct (Z.leb_spec 3 (Z.of_nat s)); [|lia]. cbn [sp_bind]. rewrite Nat2Z.id.
    unfold sp_dot_checked. destruct (Nat.leb_spec 3 s); [|lia].
    unfold ip_ncoeffs, ip_ncells in Hl. cbn [nth] in Hl. rewrite Hfn, Nat2Z.id in Hl.
    destruct (Nat.ltb_spec s (length c)); [|lia]. cbn [andb]. eexists. reflexivity.
  - destruct Hsp as [Hs [Hlen [Hf [Hla [Hmin Hmax]]]]].
    unfold ip_ncoeffs, ip_ncells in Hl.
    destruct (sp_nu_eval_1d_domain F K HK knots deg c x 0 Hs Hlen Hf Hla) as [s [_ [_ [_ [_ [_ E]]]]]]; try lia.
    { apply (spl_le_trans K HK) with lo; assumption. }
    { apply (spl_le_trans K HK) with hi; assumption. }
    unfold adv_ev. rewrite E. eexists. reflexivity.
Qed.

(** a spline with constant coefficients is that constant on [lo, hi] (both paths) *)
Theorem ai_const_spline cu knots deg lo hi c kappa x : ai_space cu knots deg lo hi ->
  length c = ip_ncoeffs F K knots deg cu -> (forall i, (i < length c)%nat -> nth i c 0 = kappa) ->
  lo <= x -> x <= hi -> adv_ev F K cu knots deg c x = SpOk kappa.
Proof.
  intros Hsp Hl Hc Hlo Hhi. destruct (ai_ev_total cu knots deg lo hi c x Hsp Hl Hlo Hhi) as [v E].
  rewrite E. f_equal. destruct cu.
  - apply (adv_ev_const_cu F K HK knots deg c kappa x v Hc E).
  - destruct Hsp as [Hs [Hlen [Hf [Hla [Hmin Hmax]]]]].
    assert (Hd1 : sp_kn F K knots deg <= x) by (apply (spl_le_trans K HK) with lo; assumption).
    assert (Hd2 : x <= sp_kn F K knots (length knots - 1 - deg)) by (apply (spl_le_trans K HK) with hi; assumption).
    apply (adv_ev_const_nu F K HK knots deg c kappa x v Hs); [|exact Hc|exact E].
    intros s Es. destruct (sp_nu_find_span_domain F K HK knots deg x Hs Hlen Hf Hla Hd1 Hd2) as [s' [Es' [_ [Hsp' _]]]].
    rewrite Es in Es'. injection Es' as <-. exact Hsp'.
Qed.

(** compute_interpolant on constant data, then evaluation anywhere on [lo, hi]: the constant.
    (rows of the collocation matrix sum to one: C08 [ip_rows_sum_one_cubic] / [ip_rows_sum_one_nu]; the inverse
    certificate is the per-instance non-singularity check of C08) *)
Theorem ai_interp_const_eval cu knots deg periodic lo hi xs A Ainv u c kappa x :
  let nb := ip_nbasis F K knots deg periodic cu in
  ai_space cu knots deg lo hi ->
  ip_colloc F K nb knots deg periodic cu xs = SpOk A -> ip_inverse_ok F K nb A Ainv = true -> ip_rows_sum_one F K nb A ->
  ip_interp1d F K knots deg periodic cu xs u = SpOk c ->
  (forall i, (i < nb)%nat -> nth i u 0 = kappa) ->
  lo <= x -> x <= hi -> adv_ev F K cu knots deg c x = SpOk kappa.
Proof.
  intros nb Hsp HA Hinv Hrows Hint Hu Hlo Hhi.
  destruct (ip_interp1d_wrap F K HK knots deg periodic cu xs u c Hint) as [Hl _].
  apply (ai_const_spline cu knots deg lo hi c kappa x Hsp Hl); [|exact Hlo|exact Hhi].
  intros i Hi. rewrite Hl in Hi.
  exact (ip_interp1d_const F K HK knots deg periodic cu xs A Ainv u c kappa HA Hinv Hrows Hint Hu i Hi).
Qed.

(* ------------------------------------------------------------------------------------------ *)
(** * C10 *)

(** theta-interpolate a constant field on every z plane, then the flux step: the constant (any twist, any
    displacement; the Lagrange coefficients sum to one - [fx_lagrange_sum_one]) *)
Theorem ai_fx_interp_then_step_constants cu knots deg pi nz qVals (us cs : list (list F)) A Ainv kappa shifts tss lc :
  let nb := ip_nbasis F K knots deg true cu in
  let twopi := sp_two F K * pi in
  adv_trunc_ok F K -> 0 < twopi -> ai_space cu knots deg 0 twopi ->
  (0 < nz)%nat -> length us = nz -> length cs = nz ->
  ip_colloc F K nb knots deg true cu qVals = SpOk A -> ip_inverse_ok F K nb A Ainv = true -> ip_rows_sum_one F K nb A ->
  (forall m, (m < nz)%nat -> ip_interp1d F K knots deg true cu qVals (nth m us []) = SpOk (nth m cs [])) ->
  (forall m i, (m < nz)%nat -> (i < nb)%nat -> nth i (nth m us []) 0 = kappa) ->
  length tss = length shifts -> length lc = length shifts -> (0 < length shifts)%nat ->
  sumn (length lc) (fun j => nth j lc 0) = 1 ->
  fx_step F K (adv_ev F K cu knots deg) pi nz qVals cs shifts tss lc
  = SpOk (map (fun _ => map (fun _ => kappa) (seq 0 nz)) (seq 0 (length qVals))).
Proof.
  intros nb twopi Htr Hpi Hsp Hnz Hus Hcs HA Hinv Hrows Hint Hconst Htss Hlc Hnp Hsum.
  assert (Hpi0 : twopi <> 0) by (intros E0; apply (proj2 Hpi); symmetry; exact E0).
  rewrite (fx_step_formula F K HK (adv_ev F K cu knots deg) pi nz qVals cs shifts tss lc (fun _ _ _ => kappa)
             Hnz Hpi0 Hcs Htss); try assumption.
  - f_equal. apply map_ext. intros k. apply map_ext. intros i.
    apply (fx_preserves_constants F K HK); [exact Hlc|reflexivity|exact Hsum].
  - intros m k j Hm Hk Hj.
    destruct (ai_mod_range (nth k qVals 0 + nth j tss 0) twopi Htr Hpi) as [H0 H1].
    apply (ai_interp_const_eval cu knots deg true 0 twopi qVals A Ainv (nth m us []) (nth m cs []) kappa); try assumption.
    + apply Hint, Hm.
    + intros i Hi. apply Hconst; assumption.
    + exact (proj1 H1).
Qed.

(** theta-interpolate arbitrary nodal data on every z plane; displacement a whole number of cells (foot on
    stencil node j0), no twist: the flux step is the exact circular shift of the nodal data by s_{j0} cells *)
Theorem ai_fx_interp_then_integer_shift cu knots deg pi nz qVals (us cs : list (list F)) shifts tss zPts j0 :
  let nb := ip_nbasis F K knots deg true cu in
  let twopi := sp_two F K * pi in
  adv_trunc_ok F K -> 0 < twopi ->
  (0 < nz)%nat -> length us = nz -> length cs = nz -> length qVals = nb ->
  (forall k, (k < nb)%nat -> 0 <= nth k qVals 0 /\ nth k qVals 0 < twopi) ->
  ip_spans_in_range F K knots deg true cu qVals ->
  (forall m, (m < nz)%nat -> ip_interp1d F K knots deg true cu qVals (nth m us []) = SpOk (nth m cs [])) ->
  length tss = length shifts -> (forall j, (j < length shifts)%nat -> nth j tss 0 = 0) ->
  length zPts = length shifts -> (j0 < length zPts)%nat ->
  (forall j, (j < length zPts)%nat -> j <> j0 -> nth j zPts 0 <> nth j0 zPts 0) ->
  fx_step F K (adv_ev F K cu knots deg) pi nz qVals cs shifts tss (fx_lag_coeffs F K zPts (nth j0 zPts 0))
  = SpOk (map (fun k => map (fun i => nth k (nth (fx_src nz i (nth j0 shifts 0%Z)) us []) 0) (seq 0 nz)) (seq 0 (length qVals))).
Proof.
  intros nb twopi Htr Hpi Hnz Hus Hcs Hq Hrange Hspans Hint Htss Hts0 Hz Hj0 Hd.
  assert (Hpi0 : twopi <> 0) by (intros E0; apply (proj2 Hpi); symmetry; exact E0).
  rewrite (fx_step_formula F K HK (adv_ev F K cu knots deg) pi nz qVals cs shifts tss _ (fun m k _ => nth k (nth m us []) 0)
             Hnz Hpi0 Hcs Htss).
  - f_equal. apply map_ext. intros k. apply map_ext. intros i.
    apply (fx_integer_shift_exact F K HK nz shifts zPts (fun m k _ => nth k (nth m us []) 0) (fun k m => nth k (nth m us []) 0));
      try assumption. reflexivity.
  - intros m k j Hm Hk Hj. rewrite Hq in Hk. rewrite (Hts0 j Hj).
    replace (nth k qVals 0 + 0) with (nth k qVals 0) by ring.
    destruct (Hrange k Hk) as [H0 H1]. fold twopi. rewrite (ai_mod_small _ twopi Htr Hpi H0 H1).
    exact (ip_interp1d_exact F K HK knots deg true cu qVals (nth m us []) (nth m cs []) (Hint m Hm) Hspans k Hk).
  - rewrite fx_lag_coeffs_length. exact Hz.
  - lia.
Qed.

(* ------------------------------------------------------------------------------------------ *)
(** * C11 *)

Lemma ai_vp_loop_nth (ev feq : F -> sp_res F) bound vMin vMax : forall f vPts g,
  vp_loop F K ev feq bound vMin vMax f vPts = SpOk g -> length f = length vPts ->
  length g = length vPts /\
  forall i, (i < length vPts)%nat -> vp_point F K ev feq bound vMin vMax (nth i f 0) (nth i vPts 0) = SpOk (nth i g 0).
Proof.
  induction f as [|old fr IH]; intros vPts g H Hl; destruct vPts as [|v vr]; cbn [length] in Hl; try lia.
  - cbn in H. injection H as <-. split; [reflexivity|]. intros i Hi. cbn in Hi. lia.
  - cbn [vp_loop] in H.
    destruct (vp_point F K ev feq bound vMin vMax old v) as [y| | | |] eqn:Ey; cbn [sp_bind] in H; try discriminate.
    destruct (vp_loop F K ev feq bound vMin vMax fr vr) as [ys| | | |] eqn:Eys; cbn [sp_bind] in H; try discriminate.
    injection H as <-. destruct (IH vr ys Eys ltac:(lia)) as [Hlg Hn]. split; [cbn [length]; lia|].
    intros i Hi. destruct i as [|i]; cbn [nth]; [exact Ey|]. apply Hn. cbn [length] in Hi. lia.
Qed.

(** compute_interpolant on the old nodal values, then the evaluation step with zero speed (c*dt = 0): the
    nodal values are returned unchanged, in each of the three boundary modes, on clamped or periodic v-spaces *)
Theorem ai_vp_interp_then_zero_speed_id cu knots deg periodic points f coeffs dt c rPos CN0 kN0 dRN0 rp CTi kTi dRTi (X : vp_ext F) bound :
  let nb := ip_nbasis F K knots deg periodic cu in
  (bound = 0 \/ bound = 1 \/ bound = 2)%Z -> c * dt = 0 ->
  length points = nb -> length f = nb -> (0 < nb)%nat ->
  (forall i, (i < nb)%nat -> nth 0 points 0 <= nth i points 0 /\ nth i points 0 <= last points 0) ->
  ip_spans_in_range F K knots deg periodic cu points ->
  ip_interp1d F K knots deg periodic cu points f = SpOk coeffs ->
  vp_step F K X f points dt c rPos knots deg coeffs CN0 kN0 dRN0 rp CTi kTi dRTi bound cu = SpOk f.
Proof.
  intros nb Hb Hcd Hlp Hlf Hnb Hsorted Hspans Hint. unfold vp_step.
  destruct points as [|p0 pr] eqn:Ep; [cbn in Hlp; lia|]. rewrite <- Ep in *.
  assert (Emap : map (fun p => p - c * dt) points = points).
  { rewrite <- (map_id points) at 2. apply map_ext. intros p. rewrite Hcd. ring. }
  rewrite Emap. unfold vp_eval_step.
  assert (Ep0 : p0 = nth 0 points 0) by (rewrite Ep; reflexivity). rewrite Ep0.
  apply (vp_zero_speed_id F K HK); [exact Hb|lia| |].
  - intros i Hi. apply Hsorted. lia.
  - intros i Hi. rewrite Hlp in Hi.
    exact (ip_interp1d_exact F K HK knots deg periodic cu points f coeffs Hint Hspans i Hi).
Qed.

(** any shift: a node whose foot is again an interpolation point inside [vMin, vMax] receives the old nodal
    value of that point (shift by a whole number of cells of a uniform grid: the nodes of the uniform part) *)
Theorem ai_vp_foot_on_node cu knots deg periodic points u coeffs (feq : F -> sp_res F) bound vMin vMax f vPts g i j :
  let nb := ip_nbasis F K knots deg periodic cu in
  (bound = 0 \/ bound = 1 \/ bound = 2)%Z ->
  ip_spans_in_range F K knots deg periodic cu points ->
  ip_interp1d F K knots deg periodic cu points u = SpOk coeffs ->
  vp_loop F K (adv_ev F K cu knots deg coeffs) feq bound vMin vMax f vPts = SpOk g -> length f = length vPts ->
  (i < length vPts)%nat -> (j < nb)%nat -> nth i vPts 0 = nth j points 0 ->
  vMin <= nth j points 0 -> nth j points 0 <= vMax ->
  nth i g 0 = nth j u 0.
Proof.
  intros nb Hb Hspans Hint Hloop Hl Hi Hj Hfoot H1 H2.
  destruct (ai_vp_loop_nth _ _ _ _ _ _ _ _ Hloop Hl) as [_ Hn]. specialize (Hn i Hi).
  rewrite Hfoot in Hn.
  rewrite (proj1 (vp_point_formula F K HK (adv_ev F K cu knots deg coeffs) feq bound vMin vMax (nth i f 0) (nth j points 0))
             (conj H1 H2) Hb) in Hn.
  pose proof (ip_interp1d_exact F K HK knots deg periodic cu points u coeffs Hint Hspans j Hj) as Hex.
  rewrite <- ai_ev_eval1d in Hex. rewrite Hex in Hn.
  injection Hn as Hn. symmetry. exact Hn.
Qed.

(* ------------------------------------------------------------------------------------------ *)
(** * C13 *)

Lemma ai_nth_map {A B : Type} (f : A -> B) (l : list A) (da : A) (db : B) k : (k < length l)%nat ->
  nth k (map f l) db = f (nth k l da).
Proof. revert k. induction l as [|a l IH]; intros k Hk; [cbn in Hk; lia|]. destruct k; cbn [map nth]; [reflexivity|]. apply IH. cbn in Hk. lia. Qed.

Lemma ai_theta_vals_shape nz shifts qVals dz iota R0 pi tv : pgr_theta_vals F K nz shifts qVals dz iota R0 pi = SpOk tv ->
  length tv = nz /\ (forall i, (i < nz)%nat -> length (nth i tv []) = length shifts) /\
  (forall i k, (i < nz)%nat -> (k < length shifts)%nat -> length (nth k (nth i tv []) []) = length qVals) /\
  (forall i k q, (i < nz)%nat -> (k < length shifts)%nat -> (q < length qVals)%nat ->
     nth q (nth k (nth i tv []) []) 0 =
     pgr_fieldline F K (nth q qVals 0) (dz * ofZ (nth k shifts 0%Z)) iota R0 pi).
Proof.
  unfold pgr_theta_vals. destruct (speqb K R0 0); [discriminate|]. destruct (speqb K (sp_two F K * pi) 0); [discriminate|].
  intros E. injection E as <-.
  set (row := map (fun l => map (fun q => pgr_fieldline F K q (dz * ofZ l) iota R0 pi) qVals) shifts).
  assert (Hrow : forall i, (i < nz)%nat -> nth i (map (fun _ : nat => row) (seq 0 nz)) [] = row).
  { intros i Hi. exact (ip_nth_map_seq (fun _ : nat => row) [] nz 0 i Hi). }
  assert (Hk : forall k, (k < length shifts)%nat ->
            nth k row [] = map (fun q => pgr_fieldline F K q (dz * ofZ (nth k shifts 0%Z)) iota R0 pi) qVals).
  { intros k Hk. unfold row.
    exact (ai_nth_map (fun l => map (fun q => pgr_fieldline F K q (dz * ofZ l) iota R0 pi) qVals) shifts 0%Z [] k Hk). }
  split; [rewrite map_length, seq_length; reflexivity|]. split; [|split].
  - intros i Hi. rewrite Hrow by exact Hi. unfold row. rewrite map_length. reflexivity.
  - intros i k Hi Hk'. rewrite Hrow by exact Hi. rewrite Hk by exact Hk'. rewrite map_length. reflexivity.
  - intros i k q Hi Hk' Hq. rewrite Hrow by exact Hi. rewrite Hk by exact Hk'.
    exact (ai_nth_map (fun q => pgr_fieldline F K q (dz * ofZ (nth k shifts 0%Z)) iota R0 pi) qVals 0 0 q Hq).
Qed.

(** theta-interpolate a constant potential on every z plane, build the table of field-line feet with
    _getThetaVals for ANY rotational transform, then parallel_gradient with certified weights: zero everywhere *)
Theorem ai_pgr_interp_then_constants_zero cu knots deg pi nz n qVals (us cs : list (list F)) A Ainv kappa dz iota R0 tv coeffs bz inv_dz :
  let nb := ip_nbasis F K knots deg true cu in
  let twopi := sp_two F K * pi in
  adv_trunc_ok F K -> 0 < twopi -> ai_space cu knots deg 0 twopi ->
  (2 <= n)%nat -> (n <= nz)%nat -> length us = nz -> length cs = nz ->
  ip_colloc F K nb knots deg true cu qVals = SpOk A -> ip_inverse_ok F K nb A Ainv = true -> ip_rows_sum_one F K nb A ->
  (forall m, (m < nz)%nat -> ip_interp1d F K knots deg true cu qVals (nth m us []) = SpOk (nth m cs [])) ->
  (forall m i, (m < nz)%nat -> (i < nb)%nat -> nth i (nth m us []) 0 = kappa) ->
  pgr_theta_vals F K nz (pgr_shifts n) qVals dz iota R0 pi = SpOk tv ->
  pgr_moments_ok F K (pgr_shifts n) coeffs = true ->
  pgr_parallel_gradient F K (adv_ev F K cu knots deg) nz (length qVals) n cs tv (pgr_shifts n) coeffs bz inv_dz
  = SpOk (map (fun _ => map (fun _ => 0) (seq 0 (length qVals))) (seq 0 nz)).
Proof.
  intros nb twopi Htr Hpi Hsp Hn Hnz Hus Hcs HA Hinv Hrows Hint Hconst Htv Hmom.
  destruct (ai_theta_vals_shape _ _ _ _ _ _ _ _ Htv) as [T1 [T2 [T3 T4]]]. rewrite pgr_shifts_length in *.
  assert (Hco : length coeffs = n).
  { unfold pgr_moments_ok in Hmom. apply andb_true_iff in Hmom. destruct Hmom as [Hm _]. apply Nat.eqb_eq in Hm.
    rewrite pgr_shifts_length in Hm. symmetry. exact Hm. }
  rewrite (pgr_pargrad_formula F K HK (adv_ev F K cu knots deg) nz (length qVals) n cs tv coeffs bz inv_dz (fun _ _ _ => kappa));
    try assumption; try lia.
  - f_equal. apply map_ext. intros z. apply map_ext. intros q.
    apply (pgr_const_zero F K HK nz n (pgr_shifts n) coeffs bz inv_dz (fun _ _ _ => kappa) z q kappa); try assumption. reflexivity.
  - intros i k q Hi Hk Hq. rewrite T4 by assumption. unfold pgr_fieldline. fold twopi.
    destruct (ai_mod_range (nth q qVals 0 + iota * (dz * ofZ (nth k (pgr_shifts n) 0%Z)) / R0) twopi Htr Hpi) as [H0 H1].
    apply (ai_interp_const_eval cu knots deg true 0 twopi qVals A Ainv (nth i us []) (nth i cs []) kappa); try assumption.
    + apply Hint, Hi.
    + intros t Ht. apply Hconst; assumption.
    + exact (proj1 H1).
Qed.


(* ------------------------------------------------------------------------------------------ *)
(** * shift invariance of uniform-cubic periodic splines, and a representable family of potentials that are
      constant along field lines for iota <> 0

    On the uniform periodic cubic space with n cells of width dx on [0, n*dx] a coefficient array is
    periodic: c[i] = g(i mod n), i < n+3.  [ai_per g n r] is the array of g rotated by r cells,
    c[i] = g((i - r) mod n).  Translating the evaluation point by t cells (modulo the period) and the
    coefficients by t cells gives the same value ([ai_cu_shift_eval]).  Hence, when the twist per z cell
    iota*dz/R0 is a whole number c of theta cells and c*nz is a multiple of n (the field line closes after
    the z period), the potentials whose theta-spline on plane m is the spline of plane 0 rotated by c*m
    cells are constant along field lines, and their parallel gradient vanishes ([ai_pgr_aligned_family_zero]).
    When the twist per cell is NOT a whole number of theta cells the translate of a spline by the twist has
    its knots off the knot lattice and is not in the spline space (unless it is a single polynomial, i.e. a
    constant on a periodic space): no non-constant potential that is constant along field lines is then
    representable plane by plane, and c13_aligned_zero applies to approximations only. *)

Definition ai_per (g : Z -> F) (n : nat) (r : Z) : list F :=
  map (fun i => g ((Z.of_nat i - r) mod Z.of_nat n)%Z) (seq 0 (n + 3)).

Lemma ai_per_length g n r : length (ai_per g n r) = (n + 3)%nat.
Proof. unfold ai_per. rewrite map_length, seq_length. reflexivity. Qed.
Lemma ai_per_nth g n r i : (i < n + 3)%nat -> nth i (ai_per g n r) 0 = g ((Z.of_nat i - r) mod Z.of_nat n)%Z.
Proof. intros H. unfold ai_per. rewrite (sp_nth_map_seq F (fun i => g ((Z.of_nat i - r) mod Z.of_nat n)%Z) 0 (n + 3) 0 i H). reflexivity. Qed.

Lemma ai_ofn_mul a b : ofn (a * b) = ofn a * ofn b.
Proof.
  induction a as [|a IH]; [cbn; ring|]. cbn [Nat.mul]. rewrite (sp_ofnat_add F K HK), IH, (sp_ofnat_S F K). ring.
Qed.
Lemma ai_ofZ_mul a b : ofZ (a * b) = ofZ a * ofZ b.
Proof.
  assert (P : forall x y : nat, ofZ (Z.of_nat x * Z.of_nat y) = ofZ (Z.of_nat x) * ofZ (Z.of_nat y)).
  { intros x y. rewrite <- Nat2Z.inj_mul, !(adv_ofZ_of_nat F K HK). apply ai_ofn_mul. }
  destruct (Z.le_gt_cases 0 a) as [Ha|Ha]; destruct (Z.le_gt_cases 0 b) as [Hb|Hb].
  - rewrite <- (Z2Nat.id a Ha), <- (Z2Nat.id b Hb). apply P.
  - replace b with (- Z.of_nat (Z.to_nat (- b)))%Z by lia. rewrite <- (Z2Nat.id a Ha) at 1 2.
    rewrite Z.mul_opp_r, !(adv_ofZ_opp F K HK), P. ring.
  - replace a with (- Z.of_nat (Z.to_nat (- a)))%Z by lia. rewrite <- (Z2Nat.id b Hb) at 1 2.
    rewrite Z.mul_opp_l, !(adv_ofZ_opp F K HK), P. ring.
  - replace a with (- Z.of_nat (Z.to_nat (- a)))%Z by lia. replace b with (- Z.of_nat (Z.to_nat (- b)))%Z by lia.
    rewrite Z.mul_opp_opp, !(adv_ofZ_opp F K HK), P. ring.
Qed.

Lemma ai_ofn_lt_S a : ofn a < ofn a + 1.
Proof. split; [apply (sp_le_add_r F K HK), (sp_0_le_1 F K HK)|]. intros E. apply (sp_1_neq_0 F K HK).
  replace 1 with ((ofn a + 1) - ofn a) by ring. rewrite <- E. ring. Qed.

(** int() of a non-negative number in [a, a+1) is a *)
Lemma ai_trunc_unique y a : sp_trunc_ok F K -> ofn a <= y -> y < ofn a + 1 -> sptrunc K y = Z.of_nat a.
Proof.
  intros Htr H1 H2.
  assert (Hy : 0 <= y) by (apply (spl_le_trans K HK) with (ofn a); [apply (sp_ofnat_nonneg F K HK)|exact H1]).
  destruct (Htr y Hy) as [T0 [T1 T2]]. rewrite <- (adv_ofZ_of_nat F K HK) in H1, H2.
  assert (A1 : (sptrunc K y <= Z.of_nat a)%Z) by (apply ai_ofZ_gap; apply (sp_le_lt_trans F K HK) with y; assumption).
  assert (A2 : (Z.of_nat a <= sptrunc K y)%Z) by (apply ai_ofZ_gap; apply (sp_le_lt_trans F K HK) with y; assumption).
  lia.
Qed.

Section UniformCubic.
Variables (dx xmax fn : F) (rest : list F) (n : nat).
Let knots := 0 :: xmax :: dx :: fn :: rest.
Hypothesis Htr : adv_trunc_ok F K.
Hypothesis Hdx : 0 < dx.
Hypothesis Hn : (3 <= n)%nat.
Hypothesis Hfn : sptrunc K fn = Z.of_nat n.
Hypothesis Hmax : xmax = ofn n * dx.

Lemma ai_dx_ne0 : dx <> 0.
Proof. intros E. apply (proj2 Hdx). symmetry. exact E. Qed.

(** a point in cell a with offset o *)
Definition ai_pt (a : nat) (o : F) : F := ofn a * dx + o * dx.

Lemma ai_cu_span_of a o : (a < n)%nat -> 0 <= o -> o < 1 ->
  sp_cu_find_span F K 0 xmax dx (ai_pt a o) (Z.of_nat n) = SpOk (Z.of_nat (a + 3), (ai_pt a o - 0) / dx - ofZ (Z.of_nat a)).
Proof.
  intros Ha Ho0 Ho1. pose proof ai_dx_ne0 as Hd. unfold sp_cu_find_span.
  destruct (sp_eqb_spec F K HK dx 0) as [E|_]; [contradiction|]. cbv zeta.
  assert (Ev : (ai_pt a o - 0) / dx = ofn a + o) by (unfold ai_pt; field; exact Hd).
  assert (Et : sptrunc K ((ai_pt a o - 0) / dx) = Z.of_nat a).
  { rewrite Ev. apply (ai_trunc_unique _ a (proj1 Htr)).
    - apply (sp_le_add_r F K HK), Ho0.
    - replace (ofn a + o) with (o + ofn a) by ring. replace (ofn a + 1) with (1 + ofn a) by ring.
      apply (adv_lt_add_r F K HK), Ho1. }
  rewrite Et. destruct (Z.eqb_spec (Z.of_nat a) (Z.of_nat n)); [lia|]. f_equal. f_equal. lia.
Qed.

(** the value of the periodic spline with coefficients g rotated by r at a point of cell a *)
Definition ai_cu_val (g : Z -> F) (r : Z) (a : nat) (o : F) : F :=
  Sums.sumr F 0 (spadd K) 0 4 (fun j => g ((Z.of_nat (a + j) - r) mod Z.of_nat n)%Z * nth j (sp_cu_basis_funs F K o) 0).

Lemma ai_cu_eval_per g r a o : (a < n)%nat -> 0 <= o -> o < 1 ->
  adv_ev F K true knots 3 (ai_per g n r) (ai_pt a o) = SpOk (ai_cu_val g r a o).
Proof.
  intros Ha Ho0 Ho1. pose proof ai_dx_ne0 as Hd. unfold adv_ev, knots.
  rewrite (sp_cu_eval_1d_scalar_spec F K HK 0 xmax dx fn rest (ai_per g n r) (ai_pt a o) 0 (Z.of_nat (a + 3))
             ((ai_pt a o - 0) / dx - ofZ (Z.of_nat a))).
  - f_equal. unfold ai_cu_val. apply Sums.sumr_ext. intros j Hj. rewrite Nat2Z.id.
    rewrite ai_per_nth by lia. replace (a + 3 - 3 + j)%nat with (a + j)%nat by lia. f_equal.
    f_equal. f_equal. rewrite (adv_ofZ_of_nat F K HK). unfold ai_pt. field. exact Hd.
  - rewrite Hfn. apply ai_cu_span_of; assumption.
  - lia.
  - lia.
  - rewrite Nat2Z.id, ai_per_length. lia.
Qed.

(** (x + t cells) mod period, for x in cell a0: cell (a0 + t) mod n, same offset *)
Lemma ai_mod_cells a0 o (t : Z) : (a0 < n)%nat -> 0 <= o -> o < 1 ->
  adv_mod F K (ai_pt a0 o + ofZ t * dx) xmax = ai_pt (Z.to_nat ((Z.of_nat a0 + t) mod Z.of_nat n)) o.
Proof.
  intros Ha Ho0 Ho1. pose proof ai_dx_ne0 as Hd.
  assert (Hnpos : (0 < Z.of_nat n)%Z) by lia.
  set (q := ((Z.of_nat a0 + t) / Z.of_nat n)%Z). set (r := ((Z.of_nat a0 + t) mod Z.of_nat n)%Z).
  pose proof (Z.div_mod (Z.of_nat a0 + t) (Z.of_nat n) ltac:(lia)) as Hdm. fold q r in Hdm.
  pose proof (Z.mod_pos_bound (Z.of_nat a0 + t) (Z.of_nat n) Hnpos) as Hr. fold r in Hr.
  assert (Hn0 : ofn n <> 0).
  { intros E. assert (H1 : ofn 1 <= ofn n) by (apply (sp_ofnat_mono F K HK); lia). rewrite E in H1.
    apply (sp_lt_irrefl_le F K HK 0 (ofn 1)); [|exact H1]. replace (ofn 1) with (0 + 1) by (cbn; ring).
    replace 0 with (ofn 0) at 1 by reflexivity. apply ai_ofn_lt_S. }
  assert (Ex : ai_pt a0 o + ofZ t * dx = (ofZ (Z.of_nat n) * ofZ q + ofn (Z.to_nat r) + o) * dx).
  { unfold ai_pt. rewrite <- (adv_ofZ_of_nat F K HK a0). rewrite <- (adv_ofZ_of_nat F K HK (Z.to_nat r)), Z2Nat.id by lia.
    rewrite <- ai_ofZ_mul. replace (ofZ (Z.of_nat a0) * dx + o * dx + ofZ t * dx) with ((ofZ (Z.of_nat a0) + ofZ t + o) * dx) by ring.
    rewrite <- (adv_ofZ_add F K HK (Z.of_nat a0) t), Hdm, (adv_ofZ_add F K HK). reflexivity. }
  unfold adv_mod. rewrite (ai_floor_unique _ q Htr).
  - rewrite Ex, Hmax. unfold ai_pt. rewrite (adv_ofZ_of_nat F K HK). ring.
  - (* ofZ q <= y / xmax *)
    rewrite Ex, Hmax, (adv_ofZ_of_nat F K HK).
    replace ((ofn n * ofZ q + ofn (Z.to_nat r) + o) * dx / (ofn n * dx)) with (ofZ q + (ofn (Z.to_nat r) + o) / ofn n)
      by (field; split; assumption).
    apply (sp_le_add_r F K HK). apply (sp_div_nonneg F K HK).
    + apply (sp_add_nonneg F K HK); [apply (sp_ofnat_nonneg F K HK)|exact Ho0].
    + split; [apply (sp_ofnat_nonneg F K HK)|]. intros E. apply Hn0. symmetry. exact E.
  - rewrite Ex, Hmax, (adv_ofZ_of_nat F K HK).
    replace ((ofn n * ofZ q + ofn (Z.to_nat r) + o) * dx / (ofn n * dx)) with ((ofn (Z.to_nat r) + o) / ofn n + ofZ q)
      by (field; split; assumption).
    replace (ofZ q + 1) with (1 + ofZ q) by ring. apply (adv_lt_add_r F K HK).
    assert (Hnn : 0 < ofn n) by (split; [apply (sp_ofnat_nonneg F K HK)|intros E; apply Hn0; symmetry; exact E]).
    replace ((ofn (Z.to_nat r) + o) / ofn n) with ((1 / ofn n) * (ofn (Z.to_nat r) + o)) by (field; exact Hn0).
    assert (G : (1 / ofn n) * (ofn (Z.to_nat r) + o) < (1 / ofn n) * ofn n).
    { apply ai_mul_lt_l.
      + split; [apply (sp_inv_nonneg F K HK), Hnn|]. intros E. apply (sp_1_neq_0 F K HK).
        replace 1 with ((1 / ofn n) * ofn n) by (field; exact Hn0). rewrite <- E. ring.
      + apply (sp_lt_le_trans F K HK) with (ofn (Z.to_nat r) + 1).
        * replace (ofn (Z.to_nat r) + o) with (o + ofn (Z.to_nat r)) by ring.
          replace (ofn (Z.to_nat r) + 1) with (1 + ofn (Z.to_nat r)) by ring. apply (adv_lt_add_r F K HK), Ho1.
        * rewrite <- (sp_ofnat_S F K). apply (sp_ofnat_mono F K HK). lia. }
    replace ((1 / ofn n) * ofn n) with 1 in G by (field; exact Hn0). exact G.
Qed.

(** shift invariance: translate the point by t cells (mod the period) and rotate the coefficients by t cells *)
Theorem ai_cu_shift_eval g r (t : Z) a o : (a < n)%nat -> 0 <= o -> o < 1 ->
  adv_ev F K true knots 3 (ai_per g n (r + t)) (adv_mod F K (ai_pt a o + ofZ t * dx) xmax)
  = adv_ev F K true knots 3 (ai_per g n r) (ai_pt a o).
Proof.
  intros Ha Ho0 Ho1. rewrite ai_mod_cells by assumption.
  assert (Hnpos : (0 < Z.of_nat n)%Z) by lia.
  pose proof (Z.mod_pos_bound (Z.of_nat a + t) (Z.of_nat n) Hnpos) as Hr.
  rewrite !ai_cu_eval_per by (try assumption; lia). f_equal. unfold ai_cu_val.
  apply Sums.sumr_ext. intros j Hj. f_equal. f_equal.
  rewrite Nat2Z.inj_add, Z2Nat.id by lia. rewrite Nat2Z.inj_add.
  replace ((Z.of_nat a + t) mod Z.of_nat n + Z.of_nat j - (r + t))%Z
    with ((Z.of_nat a + t) mod Z.of_nat n + (Z.of_nat j - r - t))%Z by lia.
  rewrite Z.add_mod_idemp_l by lia. f_equal. lia.
Qed.

(** C13, iota <> 0: a representable family of potentials constant along field lines has zero parallel gradient.
    twist per z cell = c theta cells; plane m carries the spline of plane 0 rotated by c*m cells; n | c*nz. *)
Theorem ai_pgr_aligned_family_zero (g : Z -> F) (c : Z) pi nz nord qVals (aq : nat -> nat) (oq : nat -> F)
  (cs : list (list F)) dz iota R0 tv coeffs bz inv_dz :
  sp_two F K * pi = xmax -> R0 <> 0 ->
  iota * dz / R0 = ofZ c * dx ->
  ((c * Z.of_nat nz) mod Z.of_nat n = 0)%Z ->
  (2 <= nord)%nat -> (nord <= nz)%nat -> length cs = nz ->
  (forall q, (q < length qVals)%nat -> nth q qVals 0 = ai_pt (aq q) (oq q) /\ (aq q < n)%nat /\ 0 <= oq q /\ oq q < 1) ->
  (forall m, (m < nz)%nat -> nth m cs [] = ai_per g n (c * Z.of_nat m)) ->
  pgr_theta_vals F K nz (pgr_shifts nord) qVals dz iota R0 pi = SpOk tv ->
  pgr_moments_ok F K (pgr_shifts nord) coeffs = true ->
  pgr_parallel_gradient F K (adv_ev F K true knots 3) nz (length qVals) nord cs tv (pgr_shifts nord) coeffs bz inv_dz
  = SpOk (map (fun _ => map (fun _ => 0) (seq 0 (length qVals))) (seq 0 nz)).
Proof.
  intros Hpi HR0 Htw Hclose Hn2 Hnz Hcs Hq Hrows Htv Hmom.
  destruct (ai_theta_vals_shape _ _ _ _ _ _ _ _ Htv) as [T1 [T2 [T3 T4]]]. rewrite pgr_shifts_length in *.
  assert (Hco : length coeffs = nord).
  { unfold pgr_moments_ok in Hmom. apply andb_true_iff in Hmom. destruct Hmom as [Hm _]. apply Nat.eqb_eq in Hm.
    rewrite pgr_shifts_length in Hm. symmetry. exact Hm. }
  set (V := fun (i k q : nat) => ai_cu_val g (c * (Z.of_nat i - nth k (pgr_shifts nord) 0%Z)) (aq q) (oq q)).
  rewrite (pgr_pargrad_formula F K HK (adv_ev F K true knots 3) nz (length qVals) nord cs tv coeffs bz inv_dz V);
    try assumption; try lia.
  - f_equal. apply map_ext_in. intros z Hz. apply in_seq in Hz. apply map_ext_in. intros q Hqq. apply in_seq in Hqq.
    apply (pgr_aligned_zero F K HK nz nord coeffs bz inv_dz V z q (ai_cu_val g (c * Z.of_nat z) (aq q) (oq q))); [exact Hco| |].
    + rewrite <- Hco. apply (pgr_moment0 F K HK (pgr_shifts nord)); [exact Hmom|lia].
    + intros k Hk. unfold V, ai_cu_val. apply Sums.sumr_ext. intros j Hj. f_equal. f_equal.
      (* c * ((z + s) mod nz - s) = c*z  modulo n, because n | c*nz *)
      set (sk := nth k (pgr_shifts nord) 0%Z). unfold fx_src.
      assert (Hnzp : (0 < Z.of_nat nz)%Z) by lia.
      pose proof (Z.mod_pos_bound (Z.of_nat z + sk) (Z.of_nat nz) Hnzp) as Hb. rewrite Z2Nat.id by lia.
      pose proof (Z.div_mod (Z.of_nat z + sk) (Z.of_nat nz) ltac:(lia)) as Hdm.
      set (t := ((Z.of_nat z + sk) / Z.of_nat nz)%Z) in *.
      replace (c * ((Z.of_nat z + sk) mod Z.of_nat nz - sk))%Z with (c * Z.of_nat z - (c * Z.of_nat nz) * t)%Z by nia.
      assert (Hn3 : (0 < Z.of_nat n)%Z) by lia.
      replace (Z.of_nat (aq q + j) - (c * Z.of_nat z - c * Z.of_nat nz * t))%Z
        with ((Z.of_nat (aq q + j) - c * Z.of_nat z) + t * (c * Z.of_nat nz))%Z by lia.
      rewrite <- Z.add_mod_idemp_r by lia. rewrite <- Z.mul_mod_idemp_r by lia. rewrite Hclose, Z.mul_0_r, Z.mod_0_l by lia.
      rewrite Z.add_0_r. reflexivity.
  - intros i k q Hi Hk Hqq. rewrite T4 by assumption. unfold pgr_fieldline. rewrite Hpi.
    destruct (Hq q Hqq) as [Eq [Haq [Ho0 Ho1]]]. rewrite Eq, (Hrows i Hi).
    set (sk := nth k (pgr_shifts nord) 0%Z).
    replace (iota * (dz * ofZ sk) / R0) with (ofZ (c * sk) * dx).
    2:{ rewrite ai_ofZ_mul. replace (iota * (dz * ofZ sk) / R0) with ((iota * dz / R0) * ofZ sk) by (field; exact HR0).
        rewrite Htw. ring. }
    replace (c * Z.of_nat i)%Z with (c * (Z.of_nat i - sk) + c * sk)%Z by lia.
    rewrite (ai_cu_shift_eval g (c * (Z.of_nat i - sk)) (c * sk) (aq q) (oq q) Haq Ho0 Ho1).
    apply ai_cu_eval_per; assumption.
Qed.

End UniformCubic.

End AdvInterp.
