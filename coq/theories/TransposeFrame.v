(** C01: memory-level model of one distributed LayoutHandler step and its frame.
    TransposeStep.v describes which value every cell of the destination block receives; here the three
    phases are functions on whole memory blocks (every address, of every process), composed exactly as
    _transpose / _transpose_source_intact pass their arrays around (layout.py:650-693):
      _extract_from_source(sourceView, dest)         pack : writes the data positions of the p padded blocks
                                                     of [dest]; padding cells keep their old contents
      Alltoall(dest[:p*bsize], X[:p*bsize])          X = source (no spare buffer) or buf: every cell of the
                                                     first p*bsize cells of X is overwritten
      destView (= dest[:size']) [...] = X-blocks     unpack : writes exactly the first size' cells of [dest]
    Theorems: the first size' cells are the values of TransposeStep.dst (so step_correct applies); every other
    cell is unchanged or explicitly characterised; nothing at or beyond p*bsize is touched; with a spare
    buffer the source is not an argument of any writing phase.
    No hypothesis relates extents and process counts: ranks with empty blocks (n < p) are included. *)
From Coq Require Import List Arith Lia PeanoNat Bool.
Import ListNotations.
From PGV Require Import NdIndex Blocks TransposeStep.

Section Frame.
Variable V : Type.
Variable d' : nat.
Let d := S d'.
Variable N : nat -> nat.
Variable P : nat -> nat.
Variables pi ipi pi' ipi' : nat -> nat.
Variable a0 : nat.

Hypothesis Ha0 : a0 < d.
Hypothesis HP : forall a, 0 < P a.
Hypothesis Hpi : forall a, a < d -> pi a < d /\ ipi (pi a) = a.
Hypothesis Hipi : forall e, e < d -> ipi e < d /\ pi (ipi e) = e.
Hypothesis Hpi' : forall a, a < d -> pi' a < d /\ ipi' (pi' a) = a.
Hypothesis Hipi' : forall e, e < d -> ipi' e < d /\ pi' (ipi' e) = e.
Hypothesis Hcompat : forall a, a < d -> a <> a0 -> 1 < P a -> pi a = pi' a.
Hypothesis Hdiff : pi a0 <> pi' a0.

Let a1 := ipi (pi' a0).
Let a2 := ipi' (pi a0).
Let p := P a0.
Let n0 := N (pi a0).
Let n1 := N (pi' a0).
Let mb := bmax n0 p.
Let mb' := bmax n1 p.

Notation sh := (TransposeStep.sh N P pi).
Notation sh' := (TransposeStep.sh' N P pi').
Notation sw := (TransposeStep.sw a0).
Notation pshape := (TransposeStep.pshape N P pi ipi pi' a0).
Notation bshape := (TransposeStep.bshape d' N P pi ipi pi' a0).
Notation bsize := (TransposeStep.bsize d' N P pi ipi pi' a0).
Notation valid := (TransposeStep.valid d' P).
Notation upd := TransposeStep.upd.

Definition mem := coords -> nat -> V.

(** address read by the unpack for destination cell A' (the argument of [rcv] in TransposeStep.dst) *)
Definition unpack_addr (q : coords) (A' : nat) : nat :=
  let j' := unravel (mk d (sh' q)) A' in
  let g := rd j' a2 in
  let r := owner n0 p g in
  let t := g - bstart n0 p r in
  ravel (mk d (fun b => if b =? 0 then mb * p else pshape q (sw b)))
        (mk d (fun b => if b =? 0 then mb * r + t else rd j' (ipi' (pi (sw b))))).

(** the cells of the send buffer that _extract_from_source writes: inside block r = A / bsize, below the
    true local extent along the swapped axis and below the receiver's block length along the split axis *)
Definition datapos_b (c : coords) (A : nat) : bool :=
  let r := A / bsize c in
  let m := unravel (bshape c) (A mod bsize c) in
  (A <? p * bsize c) && (rd m 0 <? sh c a0) && (rd m (sw a1) <? blen n1 p r).

Definition mpack (src old : mem) : mem :=
  fun c A => if datapos_b c A then TransposeStep.send V d' N P pi ipi pi' a0 src c A else old c A.
Definition malltoall (sbuf old : mem) : mem :=
  fun q A => if A <? p * bsize q then sbuf (upd q a0 (A / bsize q)) (q a0 * bsize q + A mod bsize q) else old q A.
Definition munpack (rbuf data : mem) : mem :=
  fun q A' => if A' <? size (mk d (sh' q)) then rbuf q (unpack_addr q A') else data q A'.

(** _transpose(source, dest): returns (source, dest) afterwards *)
Definition mplain (src dst : mem) : mem * mem :=
  let d1 := mpack src dst in
  let s1 := malltoall d1 src in
  (s1, munpack s1 d1).
(** _transpose_source_intact(source, dest, buf): returns (dest, buf) afterwards; source is not written *)
Definition mintact (src dst buf : mem) : mem * mem :=
  let d1 := mpack src dst in
  let b1 := malltoall d1 buf in
  (munpack b1 d1, b1).

(** ** write sets of the phases *)
Lemma mpack_frame src old c A : p * bsize c <= A -> mpack src old c A = old c A.
Proof. intros H. clear Ha0 HP Hpi Hipi Hpi' Hipi' Hcompat Hdiff. unfold mpack, datapos_b. destruct (Nat.ltb_spec A (p * bsize c)); [lia|reflexivity]. Qed.
Lemma malltoall_frame sbuf old q A : p * bsize q <= A -> malltoall sbuf old q A = old q A.
Proof. intros H. clear Ha0 HP Hpi Hipi Hpi' Hipi' Hcompat Hdiff. unfold malltoall. destruct (Nat.ltb_spec A (p * bsize q)); [lia|reflexivity]. Qed.
Lemma munpack_frame rbuf data q A : size (mk d (sh' q)) <= A -> munpack rbuf data q A = data q A.
Proof. intros H. clear Ha0 HP Hpi Hipi Hpi' Hipi' Hcompat Hdiff. unfold munpack. destruct (Nat.ltb_spec A (size (mk d (sh' q)))); [lia|reflexivity]. Qed.

(** ** the unpack reads received data positions only *)
Lemma unpack_addr_facts q j' : valid q -> inb (mk d (sh' q)) j' ->
  let g := rd j' a2 in
  let r := owner n0 p g in
  let t := g - bstart n0 p r in
  let M := fun b => if b =? 0 then t else rd j' (ipi' (pi (sw b))) in
  r < p /\ t < blen n0 p r /\ inb (bshape q) (mk d M) /\
  unpack_addr q (ravel (mk d (sh' q)) j') = r * bsize q + ravel (bshape q) (mk d M).
Proof.
  intros Hq Hj' g r t M.
  pose proof (inb_mk_inv _ _ _ Hj') as Hjlt.
  pose proof (a1_lt d' pi ipi pi' ipi' a0 Ha0 Hipi Hpi') as Ha1. fold a1 in Ha1.
  pose proof (a2_lt d' pi ipi pi' ipi' a0 Ha0 Hpi Hipi') as Ha2. fold a2 in Ha2.
  pose proof (a1_ne_a0 d' pi ipi pi' ipi' a0 Ha0 Hipi Hpi' Hdiff) as Hn10. fold a1 in Hn10.
  pose proof (P_a2 d' N P pi ipi pi' ipi' a0 Ha0 HP Hpi Hipi' Hcompat Hdiff) as HP2. fold a2 in HP2.
  pose proof (pi'_a2 d' pi ipi pi' ipi' a0 Ha0 Hpi Hipi') as Hpa2. fold a2 in Hpa2.
  pose proof (pi_a1 d' pi ipi pi' ipi' a0 Ha0 Hipi Hpi') as Hpa1. fold a1 in Hpa1.
  assert (Hp : 0 < p) by apply HP.
  assert (Hg : g < n0).
  { pose proof (Hjlt a2 Ha2) as H. unfold TransposeStep.sh' in H. rewrite Hpa2, HP2 in H.
    rewrite blen_one in H; [exact H|]. pose proof (Hq a2 Ha2). lia. }
  destruct (owner_spec n0 p g Hp Hg) as [Hr [Hlo Hhi]]. fold r in Hr, Hlo, Hhi.
  assert (Ht : t < blen n0 p r) by (unfold t, blen; lia).
  assert (Hinb : inb (bshape q) (mk d M)).
  { unfold TransposeStep.bshape. apply inb_mk. intros b Hb. unfold M, TransposeStep.pshape.
    destruct (Nat.eqb_spec b 0) as [->|Hb0].
    - rewrite sw_0, Nat.eqb_refl. pose proof (blen_le_bmax n0 p r Hp Hr). fold p n0. lia.
    - assert (Hsw : sw b <> a0) by (unfold TransposeStep.sw; destruct (Nat.eqb_spec b 0); [lia|]; destruct (Nat.eqb_spec b a0); lia).
      pose proof (sw_lt d' N P pi ipi pi' ipi' a0 Ha0 Hdiff b Hb) as Hswlt.
      destruct (Nat.eqb_spec (sw b) a0) as [E|_]; [contradiction|].
      fold a1. destruct (Nat.eqb_spec (sw b) a1) as [E|E].
      + rewrite E, Hpa1, (proj2 (Hpi' a0 Ha0)).
        pose proof (Hjlt a0 Ha0) as H. unfold TransposeStep.sh' in H. fold n1 p in H.
        pose proof (blen_le_bmax n1 p (q a0) Hp (Hq a0 Ha0)). fold n1 p. lia.
      + destruct (axis_match d' N P pi ipi pi' ipi' a0 Ha0 HP Hpi Hpi' Hipi' Hcompat Hdiff q (sw b) Hq Hswlt Hsw E)
          as [Hx [Hy [Hz Hw]]].
        pose proof (Hjlt _ Hx) as H. unfold TransposeStep.sh' in H. rewrite Hy, Hz, Hw in H. exact H. }
  split; [exact Hr|]. split; [exact Ht|]. split; [exact Hinb|].
  unfold unpack_addr. rewrite (unravel_ravel _ _ Hj'). fold g r t.
  unfold TransposeStep.bsize, TransposeStep.bshape, d. rewrite !mk_S. cbn [Nat.eqb].
  assert (E1 : map (fun b => if b =? 0 then mb * p else pshape q (sw b)) (seq 1 d')
             = map (fun b => pshape q (sw b)) (seq 1 d')).
  { apply map_ext_in. intros b Hb. apply in_seq in Hb. destruct (Nat.eqb_spec b 0); [lia|reflexivity]. }
  assert (E2 : map (fun b => if b =? 0 then mb * r + t else rd j' (ipi' (pi (sw b)))) (seq 1 d')
             = map M (seq 1 d')).
  { apply map_ext_in. intros b Hb. apply in_seq in Hb. unfold M. destruct (Nat.eqb_spec b 0); [lia|reflexivity]. }
  rewrite E1, E2. unfold M at 2. cbn [Nat.eqb].
  rewrite (ravel_head_linear (mb * p) (pshape q (sw 0))).
  f_equal. rewrite sw_0. unfold TransposeStep.pshape. rewrite Nat.eqb_refl. reflexivity.
Qed.

(** the value that lands in a destination cell is the one TransposeStep.dst describes *)
Lemma munpack_reads src old rold data q j' : valid q -> inb (mk d (sh' q)) j' ->
  munpack (malltoall (mpack src old) rold) data q (ravel (mk d (sh' q)) j')
  = TransposeStep.dst V d' N P pi ipi pi' ipi' a0 src q (ravel (mk d (sh' q)) j').
Proof.
  intros Hq Hj'.
  destruct (unpack_addr_facts q j' Hq Hj') as [Hr [Ht [Hinb Haddr]]].
  pose proof (inb_mk_inv _ _ _ Hj') as Hjlt.
  set (g := rd j' a2) in *. set (r := owner n0 p g) in *. set (t := g - bstart n0 p r) in *.
  set (M := fun b => if b =? 0 then t else rd j' (ipi' (pi (sw b)))) in *.
  pose proof (ravel_lt _ _ Hinb) as HR. fold (bsize q) in HR.
  assert (Hbs : bsize q <> 0) by lia.
  unfold munpack. destruct (Nat.ltb_spec (ravel (mk d (sh' q)) j') (size (mk d (sh' q)))) as [_|H];
    [|pose proof (ravel_lt _ _ Hj'); lia].
  unfold TransposeStep.dst. fold d a2 n0 p mb. change (unpack_addr q (ravel (mk d (sh' q)) j')) with
    (unpack_addr q (ravel (mk d (sh' q)) j')).
  assert (Edst : (let j'0 := unravel (mk d (sh' q)) (ravel (mk d (sh' q)) j') in
                  let g0 := rd j'0 a2 in let r0 := owner n0 p g0 in let t0 := g0 - bstart n0 p r0 in
                  ravel (mk d (fun b => if b =? 0 then mb * p else pshape q (sw b)))
                        (mk d (fun b => if b =? 0 then mb * r0 + t0 else rd j'0 (ipi' (pi (sw b))))))
                 = unpack_addr q (ravel (mk d (sh' q)) j')) by reflexivity.
  cbv zeta in Edst. rewrite Edst. rewrite Haddr.
  unfold malltoall, TransposeStep.rcv.
  assert (Hlt : r * bsize q + ravel (bshape q) (mk d M) < p * bsize q) by nia.
  destruct (Nat.ltb_spec (r * bsize q + ravel (bshape q) (mk d M)) (p * bsize q)) as [_|H]; [|lia].
  rewrite Nat.div_add_l by exact Hbs. rewrite (Nat.div_small _ _ HR), Nat.add_0_r.
  replace (r * bsize q + ravel (bshape q) (mk d M)) with (ravel (bshape q) (mk d M) + r * bsize q) by lia.
  rewrite Nat.mod_add by exact Hbs. rewrite (Nat.mod_small _ _ HR).
  (* the sender's cell is a data position *)
  unfold mpack. set (c := upd q a0 r).
  assert (Hdp : datapos_b c (q a0 * bsize q + ravel (bshape q) (mk d M)) = true).
  { unfold datapos_b, c. rewrite bsize_upd, bshape_upd.
    pose proof (Hq a0 Ha0) as Hqa0. fold p in Hqa0.
    rewrite Nat.div_add_l by exact Hbs. rewrite (Nat.div_small _ _ HR), Nat.add_0_r.
    replace (q a0 * bsize q + ravel (bshape q) (mk d M)) with (ravel (bshape q) (mk d M) + q a0 * bsize q) by lia.
    rewrite Nat.mod_add by exact Hbs. rewrite (Nat.mod_small _ _ HR).
    rewrite (unravel_ravel _ _ Hinb).
    pose proof (a1_lt d' pi ipi pi' ipi' a0 Ha0 Hipi Hpi') as Ha1. fold a1 in Ha1.
    pose proof (a1_ne_a0 d' pi ipi pi' ipi' a0 Ha0 Hipi Hpi' Hdiff) as Hn10. fold a1 in Hn10.
    pose proof (pi_a1 d' pi ipi pi' ipi' a0 Ha0 Hipi Hpi') as Hpa1. fold a1 in Hpa1.
    apply andb_true_intro. split; [apply andb_true_intro; split|].
    - apply Nat.ltb_lt. nia.
    - apply Nat.ltb_lt. rewrite rd_mk by (unfold d; lia). unfold M. cbn [Nat.eqb].
      unfold TransposeStep.sh, TransposeStep.upd. rewrite Nat.eqb_refl. fold n0 p. exact Ht.
    - apply Nat.ltb_lt.
      assert (Hs1 : sw a1 < d) by (apply (sw_lt d' N P pi ipi pi' ipi' a0 Ha0 Hdiff a1 Ha1)).
      assert (Hs0 : sw a1 <> 0).
      { unfold TransposeStep.sw. destruct (Nat.eqb_spec a1 0); [lia|]. destruct (Nat.eqb_spec a1 a0); [contradiction|lia]. }
      rewrite rd_mk by exact Hs1. unfold M. destruct (Nat.eqb_spec (sw a1) 0); [contradiction|].
      rewrite (sw_invol d' N P pi ipi pi' ipi' a0 Ha0 Hdiff a1). rewrite Hpa1, (proj2 (Hpi' a0 Ha0)).
      pose proof (Hjlt a0 Ha0) as H. unfold TransposeStep.sh' in H. fold n1 p in H. exact H. }
  rewrite Hdp. reflexivity.
Qed.

(** ** the two variants of the step *)
Variable G : list nat -> V.

Theorem mplain_dst_prefix src dst q j' : valid q -> inb (mk d (sh' q)) j' ->
  snd (mplain src dst) q (ravel (mk d (sh' q)) j')
  = TransposeStep.dst V d' N P pi ipi pi' ipi' a0 src q (ravel (mk d (sh' q)) j').
Proof. intros. unfold mplain. cbn [snd]. apply munpack_reads; assumption. Qed.
Theorem mintact_dst_prefix src dst buf q j' : valid q -> inb (mk d (sh' q)) j' ->
  fst (mintact src dst buf) q (ravel (mk d (sh' q)) j')
  = TransposeStep.dst V d' N P pi ipi pi' ipi' a0 src q (ravel (mk d (sh' q)) j').
Proof. intros. unfold mintact. cbn [fst]. apply munpack_reads; assumption. Qed.

(** with step_correct: the memory-level step moves the global field *)
Corollary mplain_correct src dst :
  Holds_src V d' N P pi ipi G src -> forall q, valid q -> forall j', inb (mk d (sh' q)) j' ->
  snd (mplain src dst) q (ravel (mk d (sh' q)) j') = G (glob' d' N P ipi' q j').
Proof.
  intros HS q Hq j' Hj'. rewrite mplain_dst_prefix by assumption.
  exact (step_correct V d' N P pi ipi pi' ipi' a0 Ha0 HP Hpi Hipi Hpi' Hipi' Hcompat Hdiff G src HS q Hq j' Hj').
Qed.
Corollary mintact_correct src dst buf :
  Holds_src V d' N P pi ipi G src -> forall q, valid q -> forall j', inb (mk d (sh' q)) j' ->
  fst (mintact src dst buf) q (ravel (mk d (sh' q)) j') = G (glob' d' N P ipi' q j').
Proof.
  intros HS q Hq j' Hj'. rewrite mintact_dst_prefix by assumption.
  exact (step_correct V d' N P pi ipi pi' ipi' a0 Ha0 HP Hpi Hipi Hpi' Hipi' Hcompat Hdiff G src HS q Hq j' Hj').
Qed.

(** frame without a spare buffer: [dest] beyond its block keeps the packed cells (own source data at data
    positions, old contents at padding positions and beyond p*bsize); [source] is the receive buffer: its
    first p*bsize cells are the senders' packed cells, everything beyond is untouched *)
Theorem mplain_dst_tail src dst q A : size (mk d (sh' q)) <= A ->
  snd (mplain src dst) q A = mpack src dst q A.
Proof. intros H. unfold mplain. cbn [snd]. apply munpack_frame, H. Qed.
Theorem mplain_dst_frame src dst q A : size (mk d (sh' q)) <= A -> p * bsize q <= A ->
  snd (mplain src dst) q A = dst q A.
Proof. intros H1 H2. rewrite mplain_dst_tail by exact H1. apply mpack_frame, H2. Qed.
Theorem mplain_src_scratch src dst q A : A < p * bsize q ->
  fst (mplain src dst) q A = mpack src dst (upd q a0 (A / bsize q)) (q a0 * bsize q + A mod bsize q).
Proof. intros H. clear Ha0 HP Hpi Hipi Hpi' Hipi' Hcompat Hdiff. unfold mplain, malltoall. cbn [fst]. destruct (Nat.ltb_spec A (p * bsize q)); [reflexivity|lia]. Qed.
Theorem mplain_src_frame src dst q A : p * bsize q <= A -> fst (mplain src dst) q A = src q A.
Proof. intros H. unfold mplain. cbn [fst]. apply malltoall_frame, H. Qed.

(** frame with a spare buffer: [source] is not written at all (it is only read by the pack); [dest] as above;
    [buf] is the receive buffer *)
Theorem mintact_dst_tail src dst buf q A : size (mk d (sh' q)) <= A ->
  fst (mintact src dst buf) q A = mpack src dst q A.
Proof. intros H. unfold mintact. cbn [fst]. apply munpack_frame, H. Qed.
Theorem mintact_dst_frame src dst buf q A : size (mk d (sh' q)) <= A -> p * bsize q <= A ->
  fst (mintact src dst buf) q A = dst q A.
Proof. intros H1 H2. rewrite mintact_dst_tail by exact H1. apply mpack_frame, H2. Qed.
Theorem mintact_buf_scratch src dst buf q A : A < p * bsize q ->
  snd (mintact src dst buf) q A = mpack src dst (upd q a0 (A / bsize q)) (q a0 * bsize q + A mod bsize q).
Proof. intros H. clear Ha0 HP Hpi Hipi Hpi' Hipi' Hcompat Hdiff. unfold mintact, malltoall. cbn [snd]. destruct (Nat.ltb_spec A (p * bsize q)); [reflexivity|lia]. Qed.
Theorem mintact_buf_frame src dst buf q A : p * bsize q <= A -> snd (mintact src dst buf) q A = buf q A.
Proof. intros H. unfold mintact. cbn [snd]. apply malltoall_frame, H. Qed.

End Frame.
