(** C16, composition with C08 / C09: the density computed with the quadrature weights of the v spline space IS the
    integral of the v-interpolant, and is exact for polynomials of degree <= p.

    Part A (any field): DensityFinder as a value - the model's getPerturbedRho depends on the finder only through the
    equilibrium table and the weights; the perturbed density of the equilibrium is zero on every rank, the row lookup
    by GLOBAL radius being the only link to the process grid.
    Part B (fields with the order laws of the spline model, [sp_laws]): with w = ip_quadrature (InterpModel.v: the
    model of BSplines._build_integrals + get_quadrature_coefficients) the density sum_l w_l u_l equals
    sum_j I_j c_j, c = ip_interp1d u the coefficients of the interpolant along v, I the stored basis integrals;
    on a clamped general space and nodal values of a polynomial a_0 + a_1 v + ... of degree <= p the interpolant has
    the Marsden coefficients [ip_poly_coeff] and the density is sum_m a_m (b^(m+1) - a^(m+1))/(m+1). *)
From Coq Require Import List Arith Lia ZArith Bool Field Ring Setoid.
Import ListNotations.
From PGV Require Import Blocks BasisCoxDeBoor CoxDeBoorGen FindSpan CubicUniform CollocRow Sums GridSteps SplineModel SplineTheory
  InterpModel InterpTheory QuadTheory GrevilleTheory MarsdenTheory CubicQuadTheory Density.

(* ------------------------------------------------------------------------------------------ *)
(** * Part A *)
Local Open Scope nat_scope.
Section Finder.
Variable F : Type.
Variables (f0 f1 : F) (fadd fmul fsub fdiv : F -> F -> F) (fopp finv : F -> F).
Hypothesis Fth : field_theory f0 f1 fadd fmul fsub fopp fdiv finv (@eq F).

(** a DensityFinder object: the two tables getPerturbedRho reads, and whatever else the object or the process it was
    built on may carry (process grid, communicator, the grids it was applied to before ...) *)
Record dn_finder (X : Type) : Type := { dnf_table : list (list F); dnf_quad : list F; dnf_other : X }.
Arguments dnf_table {X}. Arguments dnf_quad {X}. Arguments dnf_other {X}.

(** DensityFinder.getPerturbedRho(grid, rho) on a rank whose block of radii starts at s: rho.shape = (n, m, p) *)
Definition dn_finder_call {X : Type} (fd : dn_finder X) (s n m p : nat) (grid : list (list (list (list F)))) :=
  dn_finder_perturbed_rho F f0 fadd fmul fsub (dnf_table fd) s n m p grid (dnf_quad fd).

(** finder_stateless: the result depends on the finder only through the table and the weights - not on the process
    grid it was built for, nor on earlier calls (a call does not modify the finder) *)
Theorem dn_finder_stateless (X Y : Type) (fd1 : dn_finder X) (fd2 : dn_finder Y) s n m p grid :
  dnf_table fd1 = dnf_table fd2 -> dnf_quad fd1 = dnf_quad fd2 ->
  dn_finder_call fd1 s n m p grid = dn_finder_call fd2 s n m p grid.
Proof. intros Et Eq. unfold dn_finder_call. rewrite Et, Eq. reflexivity. Qed.

(** a sequence of calls on one finder is the list of independent calls *)
Definition dn_finder_calls {X : Type} (fd : dn_finder X) (calls : list (nat * nat * nat * nat * list (list (list (list F))))) :=
  map (fun c => match c with (s, n, m, p, g) => dn_finder_call fd s n m p g end) calls.
Theorem dn_finder_calls_independent (X Y : Type) (fd : dn_finder X) (fresh : Y -> dn_finder Y) calls :
  (forall y, dnf_table (fresh y) = dnf_table fd /\ dnf_quad (fresh y) = dnf_quad fd) ->
  forall (ys : list Y), length ys = length calls ->
  dn_finder_calls fd calls
  = map (fun yc => match snd yc with (s, n, m, p, g) => dn_finder_call (fresh (fst yc)) s n m p g end) (combine ys calls).
Proof.
  intros Hf. induction calls as [|c r IH]; intros [|y ys] Hl; cbn in Hl; try lia; [reflexivity|].
  cbn [dn_finder_calls map combine fst snd]. f_equal; [|apply IH; lia].
  destruct c as [[[[s n] m] p] g]. destruct (Hf y) as [Et Eq]. symmetry. apply dn_finder_stateless; assumption.
Qed.

(** the equilibrium has zero perturbed density on every rank of every process grid: the distribution held by the rank at
    coordinate a of pr along r is the table row of the GLOBAL radius bstart + i, and that is the row the finder pairs
    with local radius i *)
Theorem dn_finder_equilibrium_zero (X : Type) (fd : dn_finder X) nr pr a m p grid (ef : nat -> nat -> F) :
  0 < pr -> a < pr -> length (dnf_table fd) = nr ->
  (forall R l, R < nr -> l < length (dnf_quad fd) -> dn_at2 F (dnf_table fd) R l = Some (ef R l)) ->
  (forall i j k l, i < blen nr pr a -> j < m -> k < p -> l < length (dnf_quad fd) ->
     dn_at4 F grid i j k l = Some (ef (bstart nr pr a + i) l)) ->
  exists rho, dn_finder_call fd (bstart nr pr a) (blen nr pr a) m p grid = Some rho /\
    forall i j k, i < blen nr pr a -> j < m -> k < p -> dn_at3 F rho i j k = Some f0.
Proof.
  intros Hp Ha Hl Htab Hgrid. unfold dn_finder_call, dn_finder_perturbed_rho.
  assert (Hb : bstart nr pr a + blen nr pr a <= length (dnf_table fd)).
  { rewrite bstart_blen by exact Hp. rewrite Hl. rewrite <- (bstart_p nr pr Hp) at 2. apply bstart_mono; [exact Hp|lia]. }
  destruct (dn_feq_rows_spec F (dnf_table fd) _ _ Hb) as [rows [E [Hlen Hn]]]. rewrite E.
  set (q := dnf_quad fd) in *.
  destruct (dn_rho_formula F f0 fadd fmul fsub (blen nr pr a) m p rows grid q (fun l => nth l q f0)
              (fun i _ _ l => ef (bstart nr pr a + i) l) (fun i l => ef (bstart nr pr a + i) l)) as [rho [Er Hc]].
  - intros l Hlq. apply nth_error_nth'. exact Hlq.
  - exact Hgrid.
  - intros i l Hi Hlq. unfold dn_at2. rewrite (Hn i Hi).
    specialize (Htab (bstart nr pr a + i) l ltac:(lia) Hlq). unfold dn_at2 in Htab. exact Htab.
  - exists rho. split; [exact Er|]. intros i j k Hi Hj Hk. rewrite (Hc i j k Hi Hj Hk). f_equal.
    apply (dn_rho_equilibrium_zero F f0 f1 fadd fmul fsub fdiv fopp finv Fth). intros; reflexivity.
Qed.
End Finder.

(* ------------------------------------------------------------------------------------------ *)
(** * Part B *)
Section Exact.
Variable F : Type.
Variable K : sp_ops F.
Hypothesis HK : sp_laws K.
Add Field DNXF : (spl_field K HK).
Notation "x + y" := (spadd K x y). Notation "x * y" := (spmul K x y).
Notation "x - y" := (spsub K x y). Notation "x / y" := (spdiv K x y).
Notation "0" := (sp0 K). Notation "1" := (sp1 K).
Notation "x <= y" := (sp_le K x y). Notation "x < y" := (sp_lt K x y).
Notation sumn := (Sums.sumn F 0 (spadd K)).
Notation kn := (sp_kn F K).
Notation ofn := (sp_ofnat F K).
Notation rho0 := (dn_rho0_fn F 0 (spadd K) (spmul K)).
Notation rhop := (dn_rho_fn F 0 (spadd K) (spmul K) (spsub K)).

(** rho_is_integral_of_interpolant: the weights are those the C09 model computes for the v space (any kind of space:
    clamped / periodic, general / uniform cubic); u are the nodal values of f(r, theta, z, .) and c the coefficients of
    their interpolant.  No hypothesis on the weights: success of the two calls includes the checked inverse. *)
Theorem dn_rho_is_integral_of_interpolant knots degree periodic cubic xs w u c :
  ip_quadrature F K knots degree periodic cubic xs = SpOk w ->
  ip_interp1d F K knots degree periodic cubic xs u = SpOk c ->
  let nb := ip_nbasis F K knots degree periodic cubic in
  length w = nb /\
  exists I, ip_integrals F K knots degree periodic cubic = SpOk I /\
    rho0 nb (fun l => nth l w 0) (fun l => nth l u 0)
    = sumn nb (fun j => nth j (ip_quad_rhs F K nb degree periodic I) 0 * nth j c 0).
Proof.
  intros Hq Hc. cbv zeta. unfold ip_quadrature in Hq.
  destruct (ip_integrals F K knots degree periodic cubic) as [I| | | |] eqn:EI; cbn [sp_bind] in Hq; try discriminate.
  destruct (ip_quad_from_spec F K HK _ _ _ _ _ _ _ Hq) as [Hlw _].
  split; [exact Hlw|]. exists I. split; [reflexivity|].
  exact (ip_quadrature_dual F K HK knots degree periodic cubic xs I w u c Hq Hc).
Qed.

(** the perturbed density is the integral of the interpolant of f minus the interpolant of the equilibrium row *)
Theorem dn_prho_is_integral_of_interpolant knots degree periodic cubic xs w u e c ce :
  ip_quadrature F K knots degree periodic cubic xs = SpOk w ->
  ip_interp1d F K knots degree periodic cubic xs u = SpOk c ->
  ip_interp1d F K knots degree periodic cubic xs e = SpOk ce ->
  let nb := ip_nbasis F K knots degree periodic cubic in
  exists I, ip_integrals F K knots degree periodic cubic = SpOk I /\
    rhop nb (fun l => nth l w 0) (fun l => nth l u 0) (fun l => nth l e 0)
    = sumn nb (fun j => nth j (ip_quad_rhs F K nb degree periodic I) 0 * (nth j c 0 - nth j ce 0)).
Proof.
  intros Hq Hc He. cbv zeta.
  destruct (dn_rho_is_integral_of_interpolant _ _ _ _ _ _ _ _ Hq Hc) as [_ [I [EI E1]]].
  destruct (dn_rho_is_integral_of_interpolant _ _ _ _ _ _ _ _ Hq He) as [_ [I' [EI' E2]]].
  rewrite EI in EI'. injection EI' as <-. exists I. split; [exact EI|].
  rewrite (dn_rho_perturbed_is_difference F 0 1 (spadd K) (spmul K) (spsub K) (spdiv K) (spopp K) (spinv K) (spl_field K HK)).
  rewrite E1, E2. symmetry.
  exact (dn_sumn_sub F 0 1 (spadd K) (spmul K) (spsub K) (spdiv K) (spopp K) (spinv K) (spl_field K HK) _ _ _ _).
Qed.

(** the same for the list model of get_rho: cell (i, j, k) of rho holds sum_j I_j c_j(i, j, k) *)
Theorem dn_model_rho_is_integral knots degree periodic cubic xs w n m p grid
  (gf : nat -> nat -> nat -> nat -> F) (cf : nat -> nat -> nat -> list F) :
  ip_quadrature F K knots degree periodic cubic xs = SpOk w ->
  let nb := ip_nbasis F K knots degree periodic cubic in
  (forall i j k l, (i < n)%nat -> (j < m)%nat -> (k < p)%nat -> (l < nb)%nat -> dn_at4 F grid i j k l = Some (gf i j k l)) ->
  (forall i j k, (i < n)%nat -> (j < m)%nat -> (k < p)%nat ->
     ip_interp1d F K knots degree periodic cubic xs (map (gf i j k) (seq 0 nb)) = SpOk (cf i j k)) ->
  exists rho I, dn_get_rho F 0 (spadd K) (spmul K) n m p grid w = Some rho /\
    ip_integrals F K knots degree periodic cubic = SpOk I /\
    forall i j k, (i < n)%nat -> (j < m)%nat -> (k < p)%nat ->
      dn_at3 F rho i j k = Some (sumn nb (fun j' => nth j' (ip_quad_rhs F K nb degree periodic I) 0 * nth j' (cf i j k) 0)).
Proof.
  intros Hq. cbv zeta. intros Hg Hc.
  assert (Hlw : length w = ip_nbasis F K knots degree periodic cubic).
  { unfold ip_quadrature in Hq. destruct (ip_integrals F K knots degree periodic cubic); cbn [sp_bind] in Hq; try discriminate.
    destruct (ip_quad_from_spec F K HK _ _ _ _ _ _ _ Hq) as [H _]. exact H. }
  destruct (dn_rho0_formula F 0 (spadd K) (spmul K) n m p grid w (fun l => nth l w 0) gf) as [rho [Er Hcell]].
  - intros l Hl. apply nth_error_nth'. exact Hl.
  - intros i j k l Hi Hj Hk Hl. apply Hg; try assumption. rewrite <- Hlw. exact Hl.
  - unfold ip_quadrature in Hq.
    destruct (ip_integrals F K knots degree periodic cubic) as [I| | | |] eqn:EI; cbn [sp_bind] in Hq; try discriminate.
    exists rho, I. split; [exact Er|]. split; [reflexivity|]. intros i j k Hi Hj Hk.
    rewrite (Hcell i j k Hi Hj Hk). f_equal. rewrite Hlw.
    pose proof (ip_quadrature_dual F K HK knots degree periodic cubic xs I w _ _ Hq (Hc i j k Hi Hj Hk)) as D. cbv zeta in D.
    unfold ip_sum in D. rewrite <- D. unfold dn_rho0_fn. apply (ip_sumn_ext F K). intros l Hl.
    rewrite (ip_nth_map_seq (gf i j k)) by exact Hl. reflexivity.
Qed.

(** ** constant in v: the density is the constant times the length of the v domain, on both paths *)
Lemma dn_rho0_const nc qf kappa : rho0 nc qf (fun _ => kappa) = kappa * sumn nc qf.
Proof. unfold dn_rho0_fn. rewrite <- (ip_sumn_scale F K HK). apply (ip_sumn_ext F K). intros; ring. Qed.

Theorem dn_rho_const_general knots d xs w kappa :
  ip_clamped F K knots d -> ip_quadrature F K knots d false false xs = SpOk w ->
  (forall i, (i < ip_nbasis F K knots d false false)%nat -> kn knots d <= nth i xs 0 /\ nth i xs 0 <= kn knots (length knots - 1 - d)) ->
  rho0 (ip_nbasis F K knots d false false) (fun l => nth l w 0) (fun _ => kappa)
  = kappa * (kn knots (length knots - 1 - d) - kn knots d).
Proof.
  intros Hc Hq Hdom. rewrite dn_rho0_const. f_equal. exact (ip_weights_sum_clamped F K HK knots d xs w Hc Hq Hdom).
Qed.

Theorem dn_rho_const_cubic xmin xmax dx fn n xs w kappa :
  0 < dx -> sptrunc K fn = Z.of_nat n ->
  ip_quadrature F K [xmin; xmax; dx; fn] 3 false true xs = SpOk w ->
  rho0 (n + 3) (fun l => nth l w 0) (fun _ => kappa) = kappa * (ofn n * dx).
Proof.
  intros Hdx Hfn Hq. rewrite dn_rho0_const. f_equal. exact (ip_weights_sum_cubic_clamped F K HK xmin xmax dx fn n xs w Hdx Hfn Hq).
Qed.

(** ** polynomials of degree <= p on a clamped general space *)
(** the coefficients of the interpolant of the nodal values of g are gam, when gam represents g on every span
    (the uniqueness step of MarsdenTheory.ip_interp1d_reproduces, stated for the coefficients) *)
Section Coeffs.
Variable knots : list F.
Variable p : nat.
Variable gam : nat -> F.
Variable g : F -> F.
Hypothesis Hs : sp_sorted F K knots.
Hypothesis Hlen : (2 * p + 1 < length knots)%nat.
Hypothesis Hfirst : kn knots p < kn knots (S p).
Hypothesis Hlast : kn knots (length knots - p - 2) < kn knots (length knots - 1 - p).
Hypothesis Hloc : forall x s, sp_span_ok F K knots s -> (p <= s)%nat ->
  sumn (S p) (fun j => gam (s - p + j)%nat * nth j (sp_A22 F K knots p x s) 0) = g x.

Lemma dn_interp_coeffs xs A Ainv u c :
  let nb := ip_nbasis F K knots p false false in
  ip_colloc F K nb knots p false false xs = SpOk A -> ip_inverse_ok F K nb A Ainv = true ->
  (forall i, (i < nb)%nat -> kn knots p <= nth i xs 0 /\ nth i xs 0 <= kn knots (length knots - 1 - p)) ->
  ip_interp1d F K knots p false false xs u = SpOk c ->
  (forall i, (i < nb)%nat -> nth i u 0 = g (nth i xs 0)) ->
  forall j, (j < nb)%nat -> nth j c 0 = gam j.
Proof.
  cbv zeta. intros EA Hinv Hdom Hu Hdat j Hj.
  set (nb := ip_nbasis F K knots p false false) in *.
  destruct (ip_interp1d_system F K HK _ _ _ _ _ _ _ Hu) as [A1 [E1 Su]]. fold nb in E1, Su. rewrite EA in E1. inversion E1. subst A1.
  destruct (ip_inverse_ok_spec F K HK _ _ _ Hinv) as [HL _].
  apply (ip_unique_left F K HK nb A Ainv (fun k => nth k c 0) gam HL); [|exact Hj].
  intros i Hi. fold (ip_sum F K nb (fun k => ip_mget F K A i k * nth k c 0)). rewrite (Su i Hi), (Hdat i Hi).
  destruct (ip_mapM_spec _ 0 [] _ _ EA) as [HlA HA].
  assert (Hxs : length xs = nb).
  { unfold ip_interp1d in Hu.
    destruct (ip_interp_many F K knots p false false xs [u]) as [cs| | | |] eqn:E; cbn [sp_bind] in Hu; try discriminate.
    destruct (ip_interp_many_spec _ _ _ _ _ _ _ _ _ E) as [_ [H _]]. exact H. }
  specialize (HA i ltac:(lia)).
  destruct (ip_colloc_row_spec _ _ _ _ _ _ _ _ _ HA) as [s [b [Hsb [Hds [Hsn [Hnb1 Erow]]]]]].
  destruct (Hdom i Hi) as [Hxl Hxh].
  destruct (sp_nu_find_span_domain F K HK knots p (nth i xs 0) Hs Hlen Hfirst Hlast Hxl Hxh) as [s' [Efs [Hr [Hspan _]]]].
  unfold ip_span_basis in Hsb. rewrite Efs in Hsb. cbn [sp_bind] in Hsb.
  rewrite (sp_nu_basis_funs_ok F K HK knots p (nth i xs 0) s' Hs Hspan) in Hsb by lia. cbn [sp_bind] in Hsb.
  inversion Hsb. subst s b. symmetry. unfold ip_mget. rewrite Erow.
  rewrite (ip_row_dot F K HK nb p s' false _ gam Hnb1 Hds Hsn).
  rewrite <- (Hloc (nth i xs 0) s' Hspan Hds).
  apply (ip_sumn_ext F K). intros q _. unfold ip_col. ring.
Qed.
End Coeffs.

(** e_{m+1} of the p+1 consecutive knots t_j .. t_{j+p} *)
Definition dn_E (knots : list F) (p m j : nat) : F := ip_esym F K (kn knots j :: ip_win F K knots p j) (S m).

Lemma dn_E_step knots p m j :
  dn_E knots p m (S j) - dn_E knots p m j = (kn knots (j + p + 1) - kn knots j) * ip_esym F K (ip_win F K knots p j) m.
Proof.
  unfold dn_E. rewrite <- (ip_win_cons F K knots p j), (ip_win_snoc F K knots p j), (ip_esym_snoc F K HK).
  cbn [ip_esym]. ring.
Qed.

Lemma dn_telescope (E : nat -> F) n : sumn n (fun j => E (S j) - E j) = E n - E 0%nat.
Proof. induction n as [|n IH]; cbn [Sums.sumn]; [ring|]. rewrite IH. ring. Qed.

(** sum_j I_j * (Marsden coefficient of v^m) telescopes *)
Lemma dn_mono_integral_telescoped knots p m : (m <= p)%nat ->
  sumn (length knots - p - 1) (fun j => ((kn knots (j + p + 1) - kn knots j) * (1 / ofn (S p))) * ip_mono_coeff F K knots p m j)
  = (dn_E knots p m (length knots - p - 1) - dn_E knots p m 0) / (ofn (S p) * ofn (ip_binom p m)).
Proof.
  intros Hm. rewrite <- (dn_telescope (dn_E knots p m)).
  transitivity ((1 / (ofn (S p) * ofn (ip_binom p m))) * sumn (length knots - p - 1) (fun j => dn_E knots p m (S j) - dn_E knots p m j)).
  - rewrite <- (ip_sumn_scale F K HK). apply (ip_sumn_ext F K). intros j _. rewrite dn_E_step. unfold ip_mono_coeff. field.
    split; [apply (ip_ofn_binom_ne0 F K HK); exact Hm|apply (ip_ofnat_S_ne0 F K HK)].
  - field. split; [apply (ip_ofn_binom_ne0 F K HK); exact Hm|apply (ip_ofnat_S_ne0 F K HK)].
Qed.

(** e_m of a constant list: C(k, m) x^m *)
Lemma dn_esym_repeat x k : forall m, ip_esym F K (repeat x k) m = ofn (ip_binom k m) * ip_pow F K x m.
Proof.
  induction k as [|k IH]; intros m.
  - destruct m; cbn [repeat ip_esym ip_binom ip_pow]; unfold sp_ofnat; cbn; ring.
  - destruct m as [|m]; cbn [repeat ip_esym ip_binom ip_pow].
    + unfold sp_ofnat; cbn; ring.
    + rewrite !IH, (sp_ofnat_add F K HK). cbn [ip_pow]. ring.
Qed.

Lemma dn_ofnat_mul a b : ofn (a * b) = ofn a * ofn b.
Proof.
  induction a as [|a IH]; [unfold sp_ofnat; cbn; ring|].
  replace (S a * b)%nat with (b + a * b)%nat by lia. rewrite (sp_ofnat_add F K HK), IH, (sp_ofnat_S F K). ring.
Qed.

(** (m+1) C(p+1, m+1) = (p+1) C(p, m) *)
Lemma dn_binom_0 n : ip_binom n 0 = 1%nat.
Proof. destruct n; reflexivity. Qed.
Lemma dn_binom_pascal n m : ip_binom (S n) (S m) = (ip_binom n m + ip_binom n (S m))%nat.
Proof. reflexivity. Qed.
Lemma dn_binom_absorb : forall p m, (S m * ip_binom (S p) (S m) = S p * ip_binom p m)%nat.
Proof.
  induction p as [|p IH]; intros m.
  - destruct m as [|m]; [reflexivity|]. rewrite dn_binom_pascal. cbn [ip_binom]. lia.
  - destruct m as [|m].
    + pose proof (IH 0%nat) as H0. rewrite !dn_binom_pascal, !dn_binom_0 in *. lia.
    + pose proof (IH m) as H1. pose proof (IH (S m)) as H2.
      rewrite (dn_binom_pascal (S p) (S m)). pose proof (dn_binom_pascal p m) as P1.
      set (B1 := ip_binom (S p) (S m)) in *. set (B2 := ip_binom (S p) (S (S m))) in *.
      set (b0 := ip_binom p m) in *. set (b1 := ip_binom p (S m)) in *. nia.
Qed.

Lemma dn_clamped_low_window knots p : ip_clamped F K knots p ->
  kn knots 0 :: ip_win F K knots p 0 = repeat (kn knots p) (S p).
Proof.
  intros [_ [_ [HL _]]]. change (kn knots 0 :: ip_win F K knots p 0) with (map (kn knots) (seq 0 (S p))).
  apply (nth_ext _ _ 0 (kn knots p)).
  - rewrite map_length, seq_length, repeat_length. reflexivity.
  - intros i Hi. rewrite map_length, seq_length in Hi. rewrite (ip_nth_map_seq (kn knots)) by exact Hi.
    rewrite nth_repeat. apply HL. cbn. lia.
Qed.
Lemma dn_clamped_high_window knots p : ip_clamped F K knots p ->
  kn knots (length knots - p - 1) :: ip_win F K knots p (length knots - p - 1) = repeat (kn knots (length knots - 1 - p)) (S p).
Proof.
  intros [_ [Hlen [_ [HR _]]]].
  change (kn knots (length knots - p - 1) :: ip_win F K knots p (length knots - p - 1)) with (map (kn knots) (seq (length knots - p - 1) (S p))).
  apply (nth_ext _ _ 0 (kn knots (length knots - 1 - p))).
  - rewrite map_length, seq_length, repeat_length. reflexivity.
  - intros i Hi. rewrite map_length, seq_length in Hi. rewrite (ip_nth_map_seq (kn knots)) by exact Hi.
    rewrite nth_repeat. apply HR. lia.
Qed.

(** sum_j I_j * (Marsden coefficient of v^m) = (b^(m+1) - a^(m+1)) / (m+1) on a clamped space *)
Theorem dn_mono_integral knots p m : ip_clamped F K knots p -> (m <= p)%nat ->
  sumn (length knots - p - 1) (fun j => ((kn knots (j + p + 1) - kn knots j) * (1 / ofn (S p))) * ip_mono_coeff F K knots p m j)
  = (ip_pow F K (kn knots (length knots - 1 - p)) (S m) - ip_pow F K (kn knots p) (S m)) / ofn (S m).
Proof.
  intros Hc Hm. rewrite (dn_mono_integral_telescoped knots p m Hm). unfold dn_E.
  rewrite (dn_clamped_low_window knots p Hc), (dn_clamped_high_window knots p Hc), !dn_esym_repeat.
  assert (E : ofn (S m) * ofn (ip_binom (S p) (S m)) = ofn (S p) * ofn (ip_binom p m)) by (rewrite <- !dn_ofnat_mul, dn_binom_absorb; reflexivity).
  assert (N1 : ofn (S m) <> 0) by apply (ip_ofnat_S_ne0 F K HK).
  assert (N2 : ofn (S p) <> 0) by apply (ip_ofnat_S_ne0 F K HK).
  assert (N3 : ofn (ip_binom p m) <> 0) by (apply (ip_ofn_binom_ne0 F K HK); exact Hm).
  set (b := ip_pow F K (kn knots (length knots - 1 - p)) (S m)). set (a := ip_pow F K (kn knots p) (S m)).
  transitivity (((ofn (S m) * ofn (ip_binom (S p) (S m))) * (b - a)) / (ofn (S m) * (ofn (S p) * ofn (ip_binom p m)))).
  - field. repeat split; assumption.
  - rewrite E. field. repeat split; assumption.
Qed.

(** the exact integral of the polynomial a_0 + a_1 v + ... over [lo, hi] *)
Definition dn_poly_integral (a : list F) (lo hi : F) : F :=
  sumn (length a) (fun m => nth m a 0 * ((ip_pow F K hi (S m) - ip_pow F K lo (S m)) / ofn (S m))).

(** rho_exact_polynomial: on a clamped general v space of degree p, interpolation points in the domain, collocation
    matrix with a checked inverse: if f(r, theta, z, .) takes the nodal values of a polynomial of degree <= p, the
    interpolant has the Marsden coefficients, the density is sum_j I_j ip_poly_coeff_j and equals the exact integral *)
Theorem dn_rho_exact_polynomial knots p a xs A Ainv w u c :
  let nb := ip_nbasis F K knots p false false in
  ip_clamped F K knots p -> (length a <= S p)%nat ->
  ip_colloc F K nb knots p false false xs = SpOk A -> ip_inverse_ok F K nb A Ainv = true ->
  (forall i, (i < nb)%nat -> kn knots p <= nth i xs 0 /\ nth i xs 0 <= kn knots (length knots - 1 - p)) ->
  ip_quadrature F K knots p false false xs = SpOk w ->
  ip_interp1d F K knots p false false xs u = SpOk c ->
  (forall i, (i < nb)%nat -> nth i u 0 = ip_polyval F K a (nth i xs 0)) ->
  (forall j, (j < nb)%nat -> nth j c 0 = ip_poly_coeff F K knots p a j) /\
  rho0 nb (fun l => nth l w 0) (fun l => nth l u 0)
  = sumn nb (fun j => ((kn knots (j + p + 1) - kn knots j) * (1 / ofn (S p))) * ip_poly_coeff F K knots p a j) /\
  rho0 nb (fun l => nth l w 0) (fun l => nth l u 0)
  = dn_poly_integral a (kn knots p) (kn knots (length knots - 1 - p)).
Proof.
  cbv zeta. intros Hc Ha EA Hinv Hdom Hq Hi Hdat.
  pose proof Hc as [Hs [Hlen [_ [_ Hst]]]].
  set (nb := ip_nbasis F K knots p false false) in *.
  assert (Enb : nb = (length knots - p - 1)%nat) by (unfold nb, ip_nbasis, ip_ncells; lia).
  assert (Hfirst : kn knots p < kn knots (S p)) by (apply Hst; lia).
  assert (Hlast : kn knots (length knots - p - 2) < kn knots (length knots - 1 - p)).
  { replace (length knots - 1 - p)%nat with (S (length knots - p - 2)) by lia. apply Hst. lia. }
  assert (Hco : forall j, (j < nb)%nat -> nth j c 0 = ip_poly_coeff F K knots p a j).
  { exact (dn_interp_coeffs knots p (ip_poly_coeff F K knots p a) (ip_polyval F K a) Hs Hlen Hfirst Hlast
             (ip_poly_local F K HK knots p a Hs Ha) xs A Ainv u c EA Hinv Hdom Hi Hdat). }
  destruct (dn_rho_is_integral_of_interpolant knots p false false xs w u c Hq Hi) as [_ [I [EI E]]]. fold nb in E.
  assert (Hok : ip_space_ok F K knots p false false = true).
  { unfold ip_integrals in EI. cbv zeta in EI. destruct (ip_space_ok F K knots p false false); [reflexivity|discriminate]. }
  rewrite (ip_integrals_clamped F K HK knots p Hc Hok) in EI. injection EI as EI.
  assert (E2 : rho0 nb (fun l => nth l w 0) (fun l => nth l u 0)
               = sumn nb (fun j => ((kn knots (j + p + 1) - kn knots j) * (1 / ofn (S p))) * ip_poly_coeff F K knots p a j)).
  { rewrite E. apply (ip_sumn_ext F K). intros j Hj. rewrite (Hco j Hj). f_equal.
    unfold ip_quad_rhs. rewrite (ip_vtab_get F K) by exact Hj. rewrite <- EI.
    rewrite (ip_nth_map_seq (fun i => (kn knots (i + p + 1) - kn knots i) * (1 / ofn (S p)))) by (rewrite <- Enb; exact Hj). reflexivity. }
  split; [exact Hco|]. split; [exact E2|]. rewrite E2. unfold dn_poly_integral, ip_poly_coeff.
  rewrite (ip_sumn_ext F K nb _ (fun j => sumn (length a) (fun m => nth m a 0 *
              (((kn knots (j + p + 1) - kn knots j) * (1 / ofn (S p))) * ip_mono_coeff F K knots p m j)))).
  2:{ intros j _. rewrite <- (ip_sumn_scale F K HK). apply (ip_sumn_ext F K). intros; ring. }
  rewrite (ip_sumn_swap F K HK). apply (ip_sumn_ext F K). intros m Hm.
  rewrite (ip_sumn_scale F K HK). f_equal. rewrite Enb. apply dn_mono_integral; [exact Hc|lia].
Qed.

End Exact.
